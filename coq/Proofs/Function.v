(* Proofs/Function.v — lemmas for C18 (Call/Function.v). *)
From Coq Require Import List ZArith Bool String Arith Lia.
From Verif Require Import Base.Prelude Call.Function.
Import ListNotations.
Open Scope list_scope.

(* ---- type identity ---- *)
Lemma gty_eqb_refl : forall a, gty_eqb a a = true.
Proof.
  induction a; simpl; auto.
  - rewrite IHa1, IHa2. reflexivity.
  - rewrite String.eqb_refl, Bool.eqb_reflx. reflexivity.
Qed.

Lemma gty_eqb_true : forall a b, gty_eqb a b = true -> a = b.
Proof.
  induction a; destruct b; simpl; intro H; try discriminate; auto.
  - f_equal. apply IHa. exact H.
  - apply andb_true_iff in H. destruct H as [H1 H2]. f_equal; auto.
  - apply andb_true_iff in H. destruct H as [H1 H2].
    apply String.eqb_eq in H1. apply Bool.eqb_prop in H2. subst. reflexivity.
Qed.

Lemma gty_eqb_eq : forall a b, gty_eqb a b = true <-> a = b.
Proof. intros a b. split; [apply gty_eqb_true | intros ->; apply gty_eqb_refl]. Qed.

Lemma types_match_eq : forall di ins, types_match di ins = true <-> di = ins.
Proof.
  induction di as [|e et IH]; destruct ins as [|h ht]; simpl; split; intro H;
    try discriminate; try reflexivity.
  - apply andb_true_iff in H. destruct H as [H1 H2].
    apply gty_eqb_true in H1. apply IH in H2. subst. reflexivity.
  - inversion H; subst. rewrite gty_eqb_refl. simpl. apply IH. reflexivity.
Qed.

Lemma validate_inputs_iff : forall di s,
  validate_inputs di s = true <-> s_ins s = di /\ s_variadic s = false.
Proof.
  intros di s. unfold validate_inputs. split.
  - intro H. apply andb_true_iff in H. destruct H as [H H3].
    apply andb_true_iff in H. destruct H as [H1 H2].
    apply types_match_eq in H3. apply negb_true_iff in H1. split; [symmetry|]; assumption.
  - intros [H1 H2]. rewrite H2, <- H1. simpl. rewrite Nat.eqb_refl. simpl.
    apply types_match_eq. reflexivity.
Qed.

(* ---- the static constructor ---- *)
Lemma validate_return_iff : forall s e o,
  validate_return s e o = true <->
  s_outs s = (match o with Some t => [t] | None => [] end) ++ (if e then [GErr] else []).
Proof.
  intros s e o. unfold validate_return, expected_return_count.
  destruct (s_outs s) as [|a [|b [|c l]]]; destruct o as [t|]; destruct e; simpl;
    split; intro H; try discriminate; try reflexivity.
  all: try solve [ repeat match goal with
                     | K : _ && _ = true |- _ => apply andb_true_iff in K; destruct K
                     | K : gty_eqb _ _ = true |- _ => apply gty_eqb_true in K; subst
                     end; reflexivity ].
  all: try solve [ inversion H; subst; rewrite ?gty_eqb_refl; reflexivity ].
Qed.

Lemma accept_static_iff : forall d s,
  accept_static d s = true <->
  s_ins s = d_ins d /\ s_outs s = declared_outs d /\ s_variadic s = false.
Proof.
  intros d s. unfold accept_static, declared_outs. rewrite andb_true_iff.
  rewrite validate_inputs_iff, validate_return_iff. tauto.
Qed.

(* ---- the dynamic constructor ---- *)
Lemma accept_dynamic_iff : forall di s,
  accept_dynamic di s = true <->
  s_ins s = di /\ (exists t, is_interface t = true /\ s_outs s = [t; GErr]) /\ s_variadic s = false.
Proof.
  intros di s. unfold accept_dynamic. rewrite !andb_true_iff, validate_inputs_iff.
  destruct (s_outs s) as [|a [|b [|c l]]]; simpl; split.
  all: try (intros [[[_ H] _] _]; discriminate).
  all: try (intros [_ [[t [_ H]] _]]; discriminate).
  - intros [[[[H1 H2] _] H3] H4]. apply gty_eqb_true in H3. subst b.
    split; [assumption|]. split; [|assumption]. exists a. split; [assumption | reflexivity].
  - intros [H1 [[t [Ht H]] H2]]. inversion H; subst. rewrite Ht. auto.
Qed.

Lemma accept_dynamic_any : forall di s,
  s_ins s = di -> s_outs s = [GAny; GErr] -> s_variadic s = false -> accept_dynamic di s = true.
Proof.
  intros di s H1 H2 H3. apply accept_dynamic_iff. split; [assumption|]. split; [|assumption].
  exists GAny. split; [reflexivity | assumption].
Qed.

(* the strict reading "outs = [any; error]" fails: any interface kind is let through *)
Lemma accept_dynamic_not_only_any :
  exists di s, accept_dynamic di s = true /\ s_outs s <> [GAny; GErr].
Proof.
  exists [], (mkSig [] [GErr; GErr] false). split; [reflexivity | discriminate].
Qed.

(* ---- Call ---- *)
  Lemma args_fit_Forall2 : forall V (args : list (arg V)) ps,
    args_fit args ps = true <-> Forall2 (fun a p => arg_fits a p = true) args ps.
  Proof.
    intro V; induction args as [|a at' IH]; destruct ps as [|p pt]; simpl; split; intro H;
      try discriminate; try constructor; try solve [inversion H].
    - apply andb_true_iff in H. tauto.
    - apply IH. apply andb_true_iff in H. tauto.
    - inversion H; subst. apply andb_true_iff. split; [assumption | apply IH; assumption].
  Qed.

  Lemma args_fit_length : forall V (args : list (arg V)) ps, args_fit args ps = true -> List.length args = List.length ps.
  Proof.
    intro V; induction args as [|a at' IH]; destruct ps as [|p pt]; simpl; intro H; try discriminate; auto.
    apply andb_true_iff in H. f_equal. apply IH. tauto.
  Qed.

Section CallProofs.
  Variables V E : Type.
  Variable handler : list (arg V) -> hres V E.

  (* the shape every constructed function has *)
  Definition shaped (f : fn) (ins : list gty) (errs : bool) : Prop :=
    s_ins (f_sig f) = ins /\ s_variadic (f_sig f) = false /\
    exists vs, s_outs (f_sig f) = vs ++ (if errs then [GErr] else [])
               /\ List.length vs = (if f_has_out f then 1%nat else 0%nat).

  Lemma new_callable_shaped : forall d s f,
    new_callable d s = Some f -> shaped f (d_ins d) (d_err d) /\ f_has_out f = (match d_out d with Some _ => true | None => false end).
  Proof.
    intros d s f H. unfold new_callable in H.
    destruct (accept_static d s) eqn:A; [|discriminate]. inversion H; subst f; clear H.
    apply accept_static_iff in A. destruct A as (A1 & A2 & A3).
    split; [|reflexivity]. unfold shaped. simpl. split; [assumption|]. split; [assumption|].
    unfold declared_outs in A2. destruct (d_out d) as [t|].
    - exists [t]. split; [assumption | reflexivity].
    - exists []. split; [assumption | reflexivity].
  Qed.

  Lemma new_dynamic_shaped : forall di s f,
    new_dynamic di s = Some f -> shaped f di true /\ f_has_out f = true.
  Proof.
    intros di s f H. unfold new_dynamic in H.
    destruct (accept_dynamic di s) eqn:A; [|discriminate]. inversion H; subst f; clear H.
    apply accept_dynamic_iff in A. destruct A as (A1 & (t & _ & A2) & A3).
    split; [|reflexivity]. unfold shaped. simpl. split; [assumption|]. split; [assumption|].
    exists [t]. split; [assumption | reflexivity].
  Qed.


  Lemma call_shaped_fits : forall f ins errs args,
    shaped f ins errs -> args_fit args ins = true -> List.length args = List.length ins ->
    call handler f args = faithful_result (f_has_out f) errs (handler args).
  Proof.
    intros f ins errs args (S1 & S2 & vs & S3 & S4) Hfit Hlen.
    unfold call, faithful_result. rewrite S1, S2, S3, Hlen, Nat.eqb_refl, Hfit. simpl.
    rewrite app_length, S4.
    destruct (f_has_out f); destruct errs; simpl.
    - destruct vs as [|v [|v' vs']]; try discriminate. simpl.
      destruct (h_err (handler args)); reflexivity.
    - reflexivity.
    - destruct vs as [|v vs']; try discriminate. simpl.
      destruct (h_err (handler args)); reflexivity.
    - reflexivity.
  Qed.

  Lemma call_wrong_count : forall f ins errs args,
    shaped f ins errs -> List.length args <> List.length ins ->
    call handler f args = CErr Shape.
  Proof.
    intros f ins errs args (S1 & _) Hlen. unfold call. rewrite S1.
    apply Nat.eqb_neq in Hlen. rewrite Hlen. reflexivity.
  Qed.

  Lemma call_bad_argument : forall f ins errs args,
    shaped f ins errs -> args_fit args ins = false ->
    call handler f args = CErr Shape.
  Proof.
    intros f ins errs args (S1 & _) Hfit. unfold call. rewrite S1, Hfit.
    destruct (Nat.eqb (List.length args) (List.length ins)); reflexivity.
  Qed.


  Lemma call_shaped_total : forall f ins errs args,
    shaped f ins errs ->
    call handler f args = CErr Shape \/
    call handler f args = faithful_result (f_has_out f) errs (handler args).
  Proof.
    intros f ins errs args S.
    destruct (args_fit args ins) eqn:Hfit.
    - right. apply call_shaped_fits with (ins := ins); auto. apply args_fit_length. exact Hfit.
    - left. apply call_bad_argument with (ins := ins) (errs := errs); assumption.
  Qed.

  Lemma faithful_never_panics : forall h e r, is_cpanic (@faithful_result V E h e r) = false.
  Proof.
    intros h e r. unfold faithful_result. destruct e; [destruct (h_err r)|]; reflexivity.
  Qed.

  Lemma call_shaped_never_panics : forall f ins errs args,
    shaped f ins errs -> is_cpanic (call handler f args) = false.
  Proof.
    intros f ins errs args S. destruct (call_shaped_total f ins errs args S) as [H | H]; rewrite H.
    - reflexivity.
    - apply faithful_never_panics.
  Qed.
End CallProofs.

(* ---- the statements in the vocabulary of the constructors ---- *)
Section Statements.
  Variables V E : Type.
  Variable handler : list (arg V) -> hres V E.

  Definition has_out_of (d : decl) : bool := match d_out d with Some _ => true | None => false end.

  Lemma static_call_faithful : forall d s f args,
    new_callable d s = Some f ->
    Forall2 (fun a p => arg_fits a p = true) args (d_ins d) ->
    call handler f args = faithful_result (has_out_of d) (d_err d) (handler args).
  Proof.
    intros d s f args H F. destruct (new_callable_shaped d s f H) as [S O].
    unfold has_out_of. rewrite <- O. apply args_fit_Forall2 in F.
    apply call_shaped_fits with (ins := d_ins d); auto. apply args_fit_length. exact F.
  Qed.

  Lemma dynamic_call_faithful : forall di s f args,
    new_dynamic di s = Some f ->
    Forall2 (fun a p => arg_fits a p = true) args di ->
    call handler f args = faithful_result true true (handler args).
  Proof.
    intros di s f args H F. destruct (new_dynamic_shaped di s f H) as [S O].
    rewrite <- O at 1. apply args_fit_Forall2 in F.
    apply call_shaped_fits with (ins := di); auto. apply args_fit_length. exact F.
  Qed.

  Lemma static_wrong_count : forall d s f args,
    new_callable d s = Some f -> List.length args <> List.length (d_ins d) ->
    call handler f args = CErr Shape.
  Proof.
    intros d s f args H L. destruct (new_callable_shaped d s f H) as [S _].
    apply call_wrong_count with (ins := d_ins d) (errs := d_err d); assumption.
  Qed.

  Lemma dynamic_wrong_count : forall di s f args,
    new_dynamic di s = Some f -> List.length args <> List.length di ->
    call handler f args = CErr Shape.
  Proof.
    intros di s f args H L. destruct (new_dynamic_shaped di s f H) as [S _].
    apply call_wrong_count with (ins := di) (errs := true); assumption.
  Qed.

  Lemma static_bad_argument : forall d s f args,
    new_callable d s = Some f -> args_fit args (d_ins d) = false ->
    call handler f args = CErr Shape.
  Proof.
    intros d s f args H L. destruct (new_callable_shaped d s f H) as [S _].
    apply call_bad_argument with (ins := d_ins d) (errs := d_err d); assumption.
  Qed.

  Lemma dynamic_bad_argument : forall di s f args,
    new_dynamic di s = Some f -> args_fit args di = false ->
    call handler f args = CErr Shape.
  Proof.
    intros di s f args H L. destruct (new_dynamic_shaped di s f H) as [S _].
    apply call_bad_argument with (ins := di) (errs := true); assumption.
  Qed.

  Lemma constructed_never_panics : forall f args,
    (exists d s, new_callable d s = Some f) \/ (exists di s, new_dynamic di s = Some f) ->
    is_cpanic (call handler f args) = false.
  Proof.
    intros f args [(d & s & H) | (di & s & H)].
    - destruct (new_callable_shaped d s f H) as [S _].
      apply call_shaped_never_panics with (ins := d_ins d) (errs := d_err d). exact S.
    - destruct (new_dynamic_shaped di s f H) as [S _].
      apply call_shaped_never_panics with (ins := di) (errs := true). exact S.
  Qed.

  (* only a handler's own error is ever function-reported *)
  Lemma constructed_reported_is_handlers : forall f args e,
    (exists d s, new_callable d s = Some f) \/ (exists di s, new_dynamic di s = Some f) ->
    call handler f args = CErr (Reported e) -> h_err (handler args) = Some e.
  Proof.
    intros f args e C H.
    assert (T : exists ins errs, shaped f ins errs).
    { destruct C as [(d & s & C) | (di & s & C)].
      - exists (d_ins d), (d_err d). apply (new_callable_shaped d s f C).
      - exists di, true. apply (new_dynamic_shaped di s f C). }
    destruct T as (ins & errs & S).
    destruct (call_shaped_total V E handler f ins errs args S) as [K | K]; rewrite K in H.
    - discriminate.
    - unfold faithful_result in H. destruct errs; [|discriminate].
      destruct (h_err (handler args)); inversion H. reflexivity.
  Qed.

  (* the converse: on a well-shaped call of a function that has an error result, a non-nil error
     returned by the handler is function-reported WHATEVER value it is (E is arbitrary: the value
     may itself be a FunctionCallError carrying the opposite flag) *)
  Lemma static_handler_error_reported : forall d s f args e,
    new_callable d s = Some f -> d_err d = true ->
    Forall2 (fun a p => arg_fits a p = true) args (d_ins d) ->
    h_err (handler args) = Some e ->
    call handler f args = CErr (Reported e).
  Proof.
    intros d s f args e H De F He. rewrite (static_call_faithful d s f args H F).
    unfold faithful_result. rewrite De, He. reflexivity.
  Qed.

  Lemma dynamic_handler_error_reported : forall di s f args e,
    new_dynamic di s = Some f ->
    Forall2 (fun a p => arg_fits a p = true) args di ->
    h_err (handler args) = Some e ->
    call handler f args = CErr (Reported e).
  Proof.
    intros di s f args e H F He. rewrite (dynamic_call_faithful di s f args H F).
    unfold faithful_result. rewrite He. reflexivity.
  Qed.
End Statements.

(* a handler whose error VALUES are themselves call errors: an inner call's error passed on *)
Inductive nested_err := PlainErr (k : Z) | CallErr (function_reported : bool) (k : Z).

(* how Call attributes: by the constructor of call_err alone *)
Definition is_function_reported {E : Type} (r : call_res Z E) : option bool :=
  match r with CErr (Reported _) => Some true | CErr Shape => Some false | _ => None end.

Lemma nested_error_flag_does_not_leak : forall d s f args (handler : list (arg Z) -> hres Z nested_err) b k,
  new_callable d s = Some f -> d_err d = true ->
  Forall2 (fun a p => arg_fits a p = true) args (d_ins d) ->
  h_err (handler args) = Some (CallErr b k) ->
  is_function_reported (call handler f args) = Some true.
Proof.
  intros d s f args handler b k H De F He.
  rewrite (static_handler_error_reported Z nested_err handler d s f args _ H De F He). reflexivity.
Qed.
