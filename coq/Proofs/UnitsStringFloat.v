(* Proofs/UnitsStringFloat.v — the float entry point (ParseFloat) at string level, ARBITRARY
   definitions:  (1) a successful ParseFloat is the float accumulation over a tokenisation of
   the input (same template, same matcher);  (2) on every string ParseInt accepts, ParseFloat
   answers the correctly rounded float64 of the exact integer ParseInt returns. *)
From Coq Require Import Lia ZArith List Bool.
From Verif Require Import Base.Prelude Base.Str Base.Float Schema.Regex Schema.Units Schema.FloatUnits
  Proofs.UnitsStringRe Proofs.UnitsStringTok Proofs.UnitsStringSound Proofs.UnitsStringRound Proofs.UnitsStringRT.
Import ListNotations.
Open Scope Z_scope.
Open Scope list_scope.

Definition facc (acc : option acc_state) (tm : list ascii * Z) : option acc_state :=
  accumulate_ftok acc (fst tm) (snd tm).

Definition fresult (st : acc_state) : fl :=
  let '(i, fnum, isf) := st in if isf then fnum else fl_of_Z b64 i.

Lemma parse_units_float_inv : forall u s x, parse_units_float u s = Some x ->
  exists cs st, chars (trim_space s) <> []
    /\ re_match_at (units_re u) (List.length (chars (trim_space s))) (chars (trim_space s)) = Some cs
    /\ fold_left facc (model_toks u cs) (Some (0, FZero false, false)) = Some st
    /\ x = fresult st.
Proof.
  intros u s x H. unfold parse_units_float in H. fold (model_toks u) in H.
  remember (chars (trim_space s)) as d eqn:Ed.
  destruct d as [|c d']; [discriminate|].
  destruct (re_match_at (units_re u) (List.length (c :: d')) (c :: d')) as [cs|] eqn:Em; [|discriminate].
  fold (model_toks u cs) in H. fold facc in H.
  destruct (fold_left facc (model_toks u cs) (Some (0, FZero false, false))) as [[[i fnum] isf]|] eqn:Ef; [|discriminate].
  inversion H; subst. exists cs, (i, fnum, isf). repeat split; auto. discriminate.
Qed.

(* (1) a successful ParseFloat reads a tokenisation of its input: optional spaces, the units in
   descending order, each absent or count-spaces-declared name; only the base count may carry a
   fraction; the answer is the accumulation (correctly rounded + and x of Schema/FloatUnits.v)
   over exactly these tokens *)
Theorem parse_float_sound : forall u s x, wf_units u = true -> parse_units_float u s = Some x ->
  exists sp0 body toks st,
    chars (trim_space s) = sp0 ++ body /\ spaces sp0 = true /\ useq (uparts u) body toks
    /\ fold_left facc (combine toks (units_keys u)) (Some (0, FZero false, false)) = Some st
    /\ x = fresult st.
Proof.
  intros u s x W H. apply parse_units_float_inv in H. destruct H as (cs & st & N & Em & Ef & Ex).
  apply units_match_sound in Em. destruct Em as (sp0 & body & toks & Ed & Fs & U & Ec).
  rewrite uparts_keys in Ec. fold (units_keys u) in Ec.
  assert (L : List.length toks = List.length (units_keys u)).
  { rewrite (useq_length _ _ _ U). unfold units_keys. rewrite <- uparts_keys. rewrite map_length. reflexivity. }
  subst cs. rewrite (model_toks_eq u toks W L) in Ef.
  exists sp0, body, toks, st. repeat split; assumption.
Qed.

Lemma facc_none : forall toks, fold_left facc toks None = None.
Proof. induction toks as [|t toks IH]; cbn; auto. Qed.

(* on tokens without a point the float accumulator carries the integer accumulator along *)
Lemma facc_int : forall toks a z fnum,
  existsb (fun tm : list ascii * Z => contains_chr "."%char (fst tm)) toks = false ->
  fold_left (fun acc tm => accumulate_tok acc (fst tm) (snd tm)) toks (Some a) = Some z ->
  exists fnum', fold_left facc toks (Some (a, fnum, false)) = Some (z, fnum', false).
Proof.
  induction toks as [|[tok m] toks IH]; intros a z fnum Ex H.
  - cbn in H. inversion H; subst. exists fnum. reflexivity.
  - cbn [existsb fst] in Ex. apply orb_false_iff in Ex. destruct Ex as [Ex1 Ex2].
    cbn [fold_left fst snd] in H |- *. unfold facc at 2. cbn [fst snd].
    unfold accumulate_tok at 2 in H. unfold accumulate_ftok.
    destruct tok as [|c t].
    + apply IH; assumption.
    + rewrite Ex1. destruct (parse_int (unchars (c :: t))) as [i|]; [|rewrite UnitsArith.accumulate_none in H; discriminate].
      destruct (in_i64 (i * m)) eqn:E1; cbn [andb orb] in H |- *; [|rewrite UnitsArith.accumulate_none in H; discriminate].
      destruct (in_i64 (a + i * m)) eqn:E2; [|rewrite UnitsArith.accumulate_none in H; discriminate].
      apply IH; assumption.
Qed.

(* (2) ParseFloat agrees with ParseInt wherever ParseInt answers *)
Theorem parse_float_of_int : forall u s n,
  parse_units_int u s = Some n -> parse_units_float u s = Some (fl_of_Z b64 n).
Proof.
  intros u s n H. apply parse_units_int_inv in H. destruct H as (cs & N & Em & Ex & Ef).
  destruct (facc_int _ 0 n (FZero false) Ex Ef) as (fnum' & Hf).
  unfold parse_units_float. destruct (chars (trim_space s)) as [|c d'] eqn:Ed; [congruence|].
  rewrite Em. fold (model_toks u cs). fold facc. rewrite Hf. reflexivity.
Qed.

(* so the integer formatters' output reads back through ParseFloat as the float of n *)
Corollary format_int_parse_float : forall u n,
  wf_units u = true -> names_unambiguous u = true -> 0 <= n <= max_i64 ->
  parse_units_float u (format_short_int u n) = Some (fl_of_Z b64 n)
  /\ parse_units_float u (format_long_int u n) = Some (fl_of_Z b64 n).
Proof.
  intros u n W NU Hn. split; apply parse_float_of_int; [apply roundtrip_short | apply roundtrip_long]; assumption.
Qed.
