(* Proofs/C09Link.v — the link step does not see what `erase` removes: a schema links iff its erased form
   links.  Lets the C09 theorems speak about the ORIGINAL schema ("s links") instead of the rebuilt one. *)
From Coq Require Import Lia.
From Verif Require Import Base.Prelude Base.Str Base.Float Base.GoVal
  Schema.Regex Schema.Units Schema.Syntax Schema.Ops Schema.Describe
  Proofs.DescribeBase Proofs.C09Describe Proofs.C09Behaviour Proofs.C09Fixpoint Proofs.C09Plugin.
Open Scope string_scope.

Lemma forallb_map {A B} (f : B -> bool) (g : A -> B) l : forallb f (map g l) = forallb (fun x => f (g x)) l.
Proof. induction l as [|x t IH]; cbn; [reflexivity|]. rewrite IH. reflexivity. Qed.
Lemma existsb_map {A B} (f : B -> bool) (g : A -> B) l : existsb f (map g l) = existsb (fun x => f (g x)) l.
Proof. induction l as [|x t IH]; cbn; [reflexivity|]. rewrite IH. reflexivity. Qed.
Lemma forallb_ext_F {A} (f g : A -> bool) l : Forall (fun x => f x = g x) l -> forallb f l = forallb g l.
Proof. induction 1 as [|x t Hx _ IH]; cbn; [reflexivity|]. rewrite Hx, IH. reflexivity. Qed.
Lemma existsb_ext_F {A} (f g : A -> bool) l : Forall (fun x => f x = g x) l -> existsb f l = existsb g l.
Proof. induction 1 as [|x t Hx _ IH]; cbn; [reflexivity|]. rewrite Hx, IH. reflexivity. Qed.

Lemma disc_kind_erase ik t : disc_kind_ok ik (erase t) = disc_kind_ok ik t.
Proof. destruct t; reflexivity. Qed.

Lemma member_props_erase objs m :
  member_props (erase_tab objs) (erase m) = option_map (map erase_prop) (member_props objs m).
Proof.
  destruct m; try reflexivity.
  - cbn [erase member_props]. destruct (String.eqb ns ""); [|reflexivity]. rewrite alookup_erase_tab.
    destruct (alookup id objs) as [o|]; [|reflexivity]. destruct o; reflexivity.
  - rewrite erase_scope. cbn [member_props]. rewrite alookup_erase_tab.
    destruct (alookup root objs0) as [o|]; [|reflexivity]. destruct o; reflexivity.
Qed.

Lemma member_ok_erase objs ik f inl m :
  member_ok (erase_tab objs) ik f inl (erase m) = member_ok objs ik f inl m.
Proof.
  unfold member_ok.
  replace (member_pending (erase m)) with (member_pending m) by (destruct m; reflexivity).
  f_equal.
  rewrite member_props_erase. destruct (member_props objs m) as [ps|]; [|reflexivity].
  cbn [option_map]. rewrite alookup_erase_props. destruct (alookup f ps) as [p|]; [|reflexivity].
  cbn [option_map]. destruct p. cbn [erase_prop snd Syntax.p_type]. rewrite disc_kind_erase. reflexivity.
Qed.

Lemma default_ok_erase jor n p : default_ok jor (snd (erase_prop (n, p))) = default_ok jor p.
Proof.
  unfold default_ok. pose proof (decode_default_erase jor n p) as H. destruct p.
  cbn [erase_prop snd Syntax.p_default] in *. destruct p_default; [rewrite H|]; reflexivity.
Qed.

Lemma link_ok_erase jor : forall s objs, link_ok jor (erase_tab objs) (erase s) = link_ok jor objs s.
Proof.
  apply (schema_ind' (fun s => forall objs, link_ok jor (erase_tab objs) (erase s) = link_ok jor objs s));
    intros; try reflexivity.
  - cbn [erase link_ok]. apply H.
  - cbn [erase link_ok]. rewrite H, H0. reflexivity.
  - rewrite erase_object. cbn [link_ok]. rewrite !forallb_map. f_equal.
    + apply forallb_ext_F. apply Forall_forall. intros [n p] _. pose proof (default_ok_erase jor n p) as E. destruct p. exact E.
    + apply forallb_ext_F. eapply Forall_impl; [|exact H]. intros [n p] Hp. destruct p.
      cbn [erase_prop snd Syntax.p_type] in *. apply Hp.
  - cbn [erase link_ok]. rewrite !forallb_map. f_equal.
    + apply forallb_ext_F. eapply Forall_impl; [|exact H]. intros [k m] Hm. cbn [snd] in Hm. apply Hm.
    + apply forallb_ext_F. apply Forall_forall. intros [k m] _. apply member_ok_erase.
  - cbn [erase link_ok]. destruct (String.eqb ns ""); [|reflexivity]. rewrite alookup_erase_tab.
    destruct (alookup id objs); reflexivity.
  - rewrite erase_scope. cbn [link_ok]. f_equal.
    + unfold root_ok. rewrite alookup_erase_tab. destruct (alookup root os) as [o|]; [|reflexivity].
      destruct o; reflexivity.
    + unfold erase_tab at 2. rewrite forallb_map. apply forallb_ext_F. eapply Forall_impl; [|exact H].
      intros [i o] Ho. cbn [snd] in Ho. apply Ho.
Qed.
Corollary link_ok_erase_top jor s : link_ok jor [] (erase s) = link_ok jor [] s.
Proof. exact (link_ok_erase jor s []). Qed.

Lemma foreign_refs_erase : forall s, foreign_refs (erase s) = foreign_refs s.
Proof.
  apply (schema_ind' (fun s => foreign_refs (erase s) = foreign_refs s)); intros; try reflexivity.
  - cbn [erase foreign_refs]. exact H.
  - cbn [erase foreign_refs]. rewrite H, H0. reflexivity.
  - rewrite erase_object. cbn [foreign_refs]. rewrite existsb_map. apply existsb_ext_F.
    eapply Forall_impl; [|exact H]. intros [n p] Hp. destruct p. cbn [erase_prop snd Syntax.p_type] in *. exact Hp.
  - cbn [erase foreign_refs]. rewrite existsb_map. apply existsb_ext_F.
    eapply Forall_impl; [|exact H]. intros [k m] Hm. exact Hm.
  - rewrite erase_scope. cbn [foreign_refs]. unfold erase_tab. rewrite existsb_map. apply existsb_ext_F.
    eapply Forall_impl; [|exact H]. intros [i o] Ho. exact Ho.
Qed.

Lemma scopes_of_step_erase st : scopes_of_step (erase_step st) = map erase (scopes_of_step st).
Proof.
  unfold scopes_of_step, erase_step. cbn [st_input st_outputs st_handlers st_emitters map].
  rewrite !map_app, !map_map. reflexivity.
Qed.
Lemma plugin_scopes_erase p : plugin_scopes (erase_plugin p) = map erase (plugin_scopes p).
Proof.
  unfold plugin_scopes, erase_plugin. induction p as [|[k st] tl IH]; [reflexivity|].
  cbn [map flat_map snd]. rewrite map_app, IH, scopes_of_step_erase. reflexivity.
Qed.
Lemma plugin_links_erase jor p :
  forallb (link_ok jor []) (plugin_scopes (erase_plugin p)) = forallb (link_ok jor []) (plugin_scopes p).
Proof.
  rewrite plugin_scopes_erase, forallb_map. apply forallb_ext_F. apply Forall_forall. intros s _.
  apply link_ok_erase_top.
Qed.
Lemma plugin_foreign_erase p :
  existsb foreign_refs (plugin_scopes (erase_plugin p)) = existsb foreign_refs (plugin_scopes p).
Proof.
  rewrite plugin_scopes_erase, existsb_map. apply existsb_ext_F. apply Forall_forall. intros s _.
  apply foreign_refs_erase.
Qed.
