(* Proofs/UnitsStringRT.v — C16 string-level round trip for ARBITRARY definitions, final
   assembly:  wf_units u, names_unambiguous u, 0 <= n <= max int64  ==>
   ParseInt (FormatShortInt n) = n  and  ParseInt (FormatLongInt n) = n;
   and witnesses that each clause of names_unambiguous is needed. *)
From Coq Require Import Lia ZArith List Arith Bool Permutation.
From Verif Require Import Base.Prelude Base.Str Schema.Regex Schema.Units
  Proofs.UnitsArith Proofs.UnitsStringRe Proofs.UnitsStringTok Proofs.UnitsStringSound Proofs.UnitsStringRound
  Proofs.TrimSpaceU.
Import ListNotations.
Open Scope Z_scope.
Open Scope list_scope.

(* ================= what a per-unit formatter must do ================= *)

(* formatNumberUnitShort / Long on a non-negative count: nothing for 0 (unless displayZero),
   otherwise "%d" of the count followed by one of the four names of the unit *)
Definition fmt_ok (fmt1 : Z -> unit_def -> bool -> string) : Prop :=
  forall c ud dz, 0 <= c ->
    (c = 0 /\ dz = false /\ fmt1 c ud dz = ""%string)
    \/ ((c <> 0 \/ dz = true) /\ exists nm, In nm (unit_names ud) /\ fmt1 c ud dz = (z_to_dec c ++ nm)%string).

Lemma fmt_short_ok : fmt_ok fmt_unit_short_int.
Proof.
  intros c ud dz H. unfold fmt_unit_short_int.
  destruct (Z.eqb_spec c 1) as [E1|E1].
  - cbn [orb]. right. split; [left; lia|]. exists (u_ss ud). split; [left; reflexivity | reflexivity].
  - destruct (Z.eqb_spec c (-1)) as [E2|E2]; [lia|]. cbn [orb].
    destruct (Z.eqb_spec c 0) as [E0|E0]; cbn [negb].
    + destruct dz.
      * right. split; [right; reflexivity|]. exists (u_sp ud). split; [right; left; reflexivity | reflexivity].
      * left. auto.
    + right. split; [left; exact E0|]. exists (u_sp ud). split; [right; left; reflexivity | reflexivity].
Qed.

Lemma fmt_long_ok : fmt_ok fmt_unit_long_int.
Proof.
  intros c ud dz H. unfold fmt_unit_long_int.
  destruct (Z.eqb_spec c 1) as [E1|E1].
  - cbn [orb]. right. split; [left; lia|]. exists (u_ls ud). split; [right; right; left; reflexivity | reflexivity].
  - destruct (Z.eqb_spec c (-1)) as [E2|E2]; [lia|]. cbn [orb].
    destruct (Z.eqb_spec c 0) as [E0|E0]; cbn [negb].
    + destruct dz.
      * right. split; [right; reflexivity|]. exists (u_lp ud). split; [right; right; right; left; reflexivity | reflexivity].
      * left. auto.
    + right. split; [left; exact E0|]. exists (u_lp ud). split; [right; right; right; left; reflexivity | reflexivity].
Qed.

Lemma wf_names_nonempty : forall ud nm, wf_unit_def ud = true -> In nm (unit_names ud) -> nm <> ""%string.
Proof.
  intros ud nm W I. unfold wf_unit_def in W.
  apply andb_prop in W. destruct W as [W W4]. apply andb_prop in W. destruct W as [W W3]. apply andb_prop in W. destruct W as [W1 W2].
  apply negb_true_iff in W1, W2, W3, W4. apply String.eqb_neq in W1, W2, W3, W4.
  cbn [unit_names In] in I. destruct I as [E|[E|[E|[E|[]]]]]; subst nm; assumption.
Qed.

(* ================= the formatted string is a canonical rendering ================= *)

Definition mpart (mu : Z * unit_def) : upart := (fst mu, false, unit_names (snd mu)).
Definition bpart (b : unit_def) : upart := (1, true, ""%string :: unit_names b).

Lemma uparts_eq : forall u, uparts u = map mpart (sorted_mults u) ++ [bpart (u_base u)].
Proof. reflexivity. Qed.

Lemma fmt_part : forall fmt1 p c ud dz ocs, fmt_ok fmt1 -> 0 <= c -> wf_unit_def ud = true ->
  (forall x, In x (unit_names ud) -> In x (pnames p)) ->
  exists oc, oc_valid p oc /\ chars (fmt1 c ud dz) ++ render ocs = render (oc :: ocs) /\ ocount oc = c
             /\ (dz = true -> oc <> None).
Proof.
  intros fmt1 p c ud dz ocs Hf Hc W Sub. destruct (Hf c ud dz Hc) as [(E0 & Ed & Es)|(Hne & nm & Inm & Es)].
  - exists None. rewrite Es. repeat split; auto. intro E. congruence.
  - exists (Some (c, nm)). rewrite Es, chars_app, (z_to_dec_nonneg c Hc), <- app_assoc.
    repeat split; auto. + eapply wf_names_nonempty; eassumption. + intros _. discriminate.
Qed.

Lemma format_mults : forall fmt1, fmt_ok fmt1 -> forall sm cs,
  List.length cs = List.length sm -> Forall (fun c => 0 <= c) cs -> Forall wf_mult sm ->
  exists ocs, Forall2 oc_valid (map mpart sm) ocs
    /\ chars (concat_str (map (fun cu => fmt1 (fst cu) (snd (snd cu)) false) (combine cs sm))) = render ocs
    /\ map ocount ocs = cs.
Proof.
  intros fmt1 Hf sm. induction sm as [|mu sm IH]; intros cs L Fc Fw.
  - destruct cs; [|discriminate]. exists []. repeat split. constructor.
  - destruct cs as [|c cs]; [discriminate|]. inversion Fc as [|? ? Hc Fc']; subst. inversion Fw as [|? ? Hw Fw']; subst.
    cbn [List.length] in L. destruct (IH cs ltac:(lia) Fc' Fw') as (ocs & V & E & Ec).
    destruct Hw as (_ & _ & Wd).
    destruct (fmt_part fmt1 (mpart mu) c (snd mu) false ocs Hf Hc Wd ltac:(intros x I; exact I)) as (oc & Vo & Eo & Eco & _).
    exists (oc :: ocs). split; [constructor; assumption|]. split.
    + cbn [combine map concat_str fst snd]. rewrite chars_app, E. exact Eo.
    + cbn [map]. rewrite Eco, Ec. reflexivity.
Qed.

Lemma render_app : forall a b, render (a ++ b) = render a ++ render b.
Proof.
  induction a as [|[[c nm]|] a IH]; intro b; cbn [app render]; [reflexivity | rewrite IH, <- !app_assoc; reflexivity | apply IH].
Qed.

Lemma dot_app : forall a b a' b', List.length a = List.length b -> dot (a ++ a') (b ++ b') = dot a b + dot a' b'.
Proof.
  induction a as [|x a IH]; intros b a' b' L; destruct b as [|y b]; try discriminate; [reflexivity|].
  cbn [app dot]. cbn [List.length] in L. rewrite IH by lia. lia.
Qed.

Lemma dot_zero : forall cs ms, Forall (fun c => c = 0) cs -> dot cs ms = 0.
Proof.
  induction cs as [|c cs IH]; intros ms F; [reflexivity|]. destruct ms as [|m ms]; [reflexivity|].
  inversion F; subst. cbn [dot]. rewrite IH by assumption. lia.
Qed.

Lemma render_nil_counts : forall ps ocs, Forall2 oc_valid ps ocs -> render ocs = [] -> Forall (fun c => c = 0) (map ocount ocs).
Proof.
  intros ps ocs V. induction V as [|p oc ps ocs Vo V IH]; intro E; [constructor|].
  destruct oc as [[c nm]|].
  - exfalso. destruct Vo as (Hc & _). destruct (nat_digits_spec c Hc) as (N & _). cbn [render] in E.
    destruct (nat_digits c); [congruence | discriminate].
  - cbn [map ocount]. constructor; [reflexivity | apply IH; exact E].
Qed.

Lemma valid_nonneg : forall ps ocs, Forall2 oc_valid ps ocs -> Forall (fun oc => 0 <= ocount oc) ocs.
Proof.
  intros ps ocs V. induction V as [|p oc ps ocs Vo V IH]; constructor; [|exact IH].
  destruct oc as [[c nm]|]; [destruct Vo as (Hc & _); exact Hc | cbn; lia].
Qed.

Lemma nones_valid : forall l : list (Z * unit_def), Forall2 oc_valid (map mpart l) (map (fun _ => None) l).
Proof. induction l as [|x l IH]; cbn [map]; [constructor | constructor; [exact I | exact IH]]. Qed.

Lemma nones_zero : forall l : list (Z * unit_def),
  Forall (fun c => c = 0) (map ocount (map (fun _ : Z * unit_def => @None (Z * string)) l)).
Proof. induction l as [|x l IH]; cbn [map]; [constructor | constructor; [reflexivity | exact IH]]. Qed.

Lemma nones_render : forall l : list (Z * unit_def), render (map (fun _ => None) l) = [].
Proof. induction l as [|x l IH]; [reflexivity | exact IH]. Qed.

Lemma format_render : forall fmt1 u n, fmt_ok fmt1 -> wf_units u = true -> 0 <= n ->
  exists ocs, Forall2 oc_valid (uparts u) ocs
    /\ chars (format_int_with fmt1 u n) = render ocs
    /\ dot (map ocount ocs) (units_keys u) = n
    /\ render ocs <> [].
Proof.
  intros fmt1 u n Hf W Hn. destruct (wf_units_inv u W) as (Wb & _ & _).
  pose proof (sorted_mults_wf u W) as Fw. rewrite uparts_eq. unfold format_int_with, units_keys.
  destruct (Z.eqb_spec n 0) as [E0|E0].
  - subst n.
    destruct (fmt_part fmt1 (bpart (u_base u)) 0 (u_base u) true [] Hf ltac:(lia) Wb ltac:(intros x I; right; exact I))
      as (oc & Vo & Eo & Eco & Hs).
    exists (map (fun _ => None) (sorted_mults u) ++ [oc]).
    pose proof nones_render as Rn.
    split; [|split; [|split]].
    + apply Forall2_app; [apply nones_valid | constructor; [exact Vo | constructor]].
    + rewrite render_app, Rn. cbn [app]. rewrite <- Eo. cbn [render]. rewrite app_nil_r. reflexivity.
    + rewrite map_app, dot_app by (rewrite !map_length; reflexivity).
      rewrite dot_zero by apply nones_zero.
      cbn [map dot]. lia.
    + rewrite render_app, Rn. cbn [app]. destruct oc as [[c nm]|]; [|exfalso; apply (Hs eq_refl); reflexivity].
      destruct Vo as (Hc & _). destruct (nat_digits_spec c Hc) as (N & _). cbn [render].
      destruct (nat_digits c); [congruence | discriminate].
  - destruct (decompose (map fst (sorted_mults u)) n) as [cs r] eqn:Ed.
    assert (Fp : Forall (fun m => 0 < m) (map fst (sorted_mults u))).
    { apply Forall_forall. intros m I. apply in_map_iff in I. destruct I as (mu & E & I). subst m.
      rewrite Forall_forall in Fw. destruct (Fw mu I) as (L & _). lia. }
    destruct (decompose_sum _ n cs r Fp Hn Ed) as (Es & Hr & Fc & L). rewrite map_length in L.
    destruct (format_mults fmt1 Hf (sorted_mults u) cs L Fc Fw) as (ocs & V & E & Ec).
    destruct (fmt_part fmt1 (bpart (u_base u)) r (u_base u) false [] Hf Hr Wb ltac:(intros x I; right; exact I))
      as (oc & Vo & Eo & Eco & _).
    exists (ocs ++ [oc]).
    assert (Ed' : dot (map ocount (ocs ++ [oc])) (map fst (sorted_mults u) ++ [1]) = n).
    { rewrite map_app, dot_app by (rewrite Ec, map_length; exact L). rewrite Ec. cbn [map dot]. rewrite Eco. lia. }
    assert (V' : Forall2 oc_valid (map mpart (sorted_mults u) ++ [bpart (u_base u)]) (ocs ++ [oc])).
    { apply Forall2_app; [exact V | constructor; [exact Vo | constructor]]. }
    split; [exact V'|]. split; [|split; [exact Ed'|]].
    + rewrite chars_app, E, render_app. f_equal. rewrite <- Eo. cbn [render]. rewrite app_nil_r. reflexivity.
    + intro En. apply (render_nil_counts _ _ V') in En. rewrite (dot_zero _ _ En) in Ed'. lia.
Qed.

(* ================= names_unambiguous gives names_good ================= *)

Lemma str_in_In : forall x l, str_in x l = true <-> In x l.
Proof.
  intros x l. induction l as [|y t IH]; cbn [str_in In]; [split; [discriminate | tauto]|].
  rewrite orb_true_iff, IH, String.eqb_eq. split; intros [H|H]; auto.
Qed.

Lemma upart_in : forall u p, In p (uparts u) ->
  exists kd, In kd (keyed u) /\ upart_key p = fst kd
    /\ forall x, In x (pnames p) -> x <> ""%string -> In x (unit_names (snd kd)).
Proof.
  intros u p I. rewrite uparts_eq in I. apply in_app_or in I. destruct I as [I|[E|[]]].
  - apply in_map_iff in I. destruct I as (mu & E & I). subst p. exists mu. split.
    + right. eapply Permutation_in; [apply sorted_mults_perm | exact I].
    + split; [reflexivity|]. intros x Ix _. exact Ix.
  - subst p. exists (1, u_base u). split; [left; reflexivity|]. split; [reflexivity|].
    intros x Ix Nx. destruct Ix as [E|Ix]; [congruence | exact Ix].
Qed.

Lemma in_all_names : forall u kd x, In kd (keyed u) -> In x (unit_names (snd kd)) -> In x (all_names u).
Proof. intros u kd x I Ix. unfold all_names. apply in_flat_map. exists kd. split; assumption. Qed.

Lemma names_good_of : forall u, names_unambiguous u = true -> names_good (uparts u).
Proof.
  intros u H. unfold names_unambiguous in H.
  apply andb_prop in H. destruct H as [H H3]. apply andb_prop in H. destruct H as [H1 H2].
  rewrite forallb_forall in H1, H2, H3.
  constructor.
  - intros p x Ip Ix Nx. destruct (upart_in u p Ip) as (kd & Ik & _ & Sub).
    specialize (H1 x (in_all_names u kd x Ik (Sub x Ix Nx))). apply andb_prop in H1. apply H1.
  - intros p x Ip Ix Nx. destruct (upart_in u p Ip) as (kd & Ik & _ & Sub).
    specialize (H1 x (in_all_names u kd x Ik (Sub x Ix Nx))). apply andb_prop in H1. apply H1.
  - intros p q x y Ip Iq Ix Iy Nx Ny.
    destruct (upart_in u p Ip) as (kd & Ik & _ & Sub). destruct (upart_in u q Iq) as (kd' & Ik' & _ & Sub').
    specialize (H2 x (in_all_names u kd x Ik (Sub x Ix Nx))). rewrite forallb_forall in H2.
    specialize (H2 y (in_all_names u kd' y Ik' (Sub' y Iy Ny))). apply negb_true_iff in H2. exact H2.
  - intros p q x Ip Iq Ix Ix' Nx.
    destruct (upart_in u p Ip) as (kd & Ik & Ek & Sub). destruct (upart_in u q Iq) as (kd' & Ik' & Ek' & Sub').
    specialize (H3 kd Ik). rewrite forallb_forall in H3. specialize (H3 kd' Ik').
    rewrite Ek, Ek'. apply orb_prop in H3. destruct H3 as [H3|H3]; [apply Z.eqb_eq; exact H3|].
    exfalso. apply negb_true_iff in H3. unfold share_name in H3.
    assert (T : existsb (fun x0 => str_in x0 (unit_names (snd kd'))) (unit_names (snd kd)) = true).
    { apply existsb_exists. exists x. split; [apply Sub; assumption | apply str_in_In; apply Sub'; assumption]. }
    congruence.
Qed.

Lemma bare_last_uparts : forall u, wf_units u = true -> bare_last (uparts u).
Proof.
  intros u W. rewrite uparts_eq. pose proof (sorted_mults_wf u W) as Fw.
  induction Fw as [|mu sm Hw Fw IH]; cbn [map app bare_last].
  - split; [intro N; congruence | exact I].
  - split; [|exact IH]. intros _ I0. destruct Hw as (_ & _ & Wd). cbn [mpart pnames snd] in I0.
    apply (wf_names_nonempty _ _ Wd I0). reflexivity.
Qed.

(* ================= trimming and the accumulator ================= *)

(* strings.TrimSpace (UTF-8 aware, Base/Str.v) leaves alone a text that starts with a digit and whose last
   name - preceded by the last digit of its count - does not end with a white-space character *)
Lemma trim_id : forall s c t pre dg nm, chars s = c :: t -> is_digit c = true ->
  chars s = pre ++ dg :: chars nm -> is_digit dg = true -> name_last_ok (chars nm) = true ->
  chars (trim_space s) = chars s.
Proof.
  intros s c t pre dg nm E Hc El Hdg Hl. apply (trim_space_id s c t E Hc).
  unfold name_last_ok in Hl. destruct (rev (chars nm)) as [|c' r'] eqn:Erev; [discriminate|]. apply negb_true_iff in Hl.
  rewrite El, rev_app_distr. cbn [rev]. rewrite <- app_assoc. cbn [app].
  rewrite head_spr_digit; [rewrite Erev; exact Hl | rewrite Erev; discriminate | exact Hdg].
Qed.

Lemma in_i64_range : forall x, 0 <= x <= max_i64 -> in_i64 x = true.
Proof.
  intros x H. unfold in_i64, min_i64 in *. unfold max_i64 in *. apply andb_true_intro. split; apply Z.leb_le; lia.
Qed.

Lemma dot_nonneg : forall cs ms, Forall (fun c => 0 <= c) cs -> Forall (fun m => 1 <= m) ms -> 0 <= dot cs ms.
Proof.
  induction cs as [|c cs IH]; intros ms Fc Fm; [cbn; lia|]. destruct ms as [|m ms]; [cbn; lia|].
  inversion Fc; subst. inversion Fm; subst. cbn [dot]. specialize (IH ms ltac:(assumption) ltac:(assumption)). nia.
Qed.

Lemma acc_complete : forall ocs keys a, List.length ocs = List.length keys -> 0 <= a ->
  Forall (fun oc => 0 <= ocount oc) ocs -> Forall (fun m => 1 <= m) keys ->
  a + dot (map ocount ocs) keys <= max_i64 ->
  fold_left (fun acc tm => accumulate_tok acc (fst tm) (snd tm)) (combine (map otok ocs) keys) (Some a)
  = Some (a + dot (map ocount ocs) keys).
Proof.
  induction ocs as [|oc ocs IH]; intros keys a L Ha Fc Fm Hmax.
  - cbn. f_equal. lia.
  - destruct keys as [|m keys]; [discriminate|]. cbn [List.length] in L.
    inversion Fc as [|? ? Hc Fc']; subst. inversion Fm as [|? ? Hm Fm']; subst.
    assert (Fc'' : Forall (fun c => 0 <= c) (map ocount ocs)).
    { clear -Fc'. induction Fc'; cbn [map]; constructor; assumption. }
    pose proof (dot_nonneg _ _ Fc'' Fm') as Dn.
    cbn [map combine fold_left fst snd dot] in *.
    destruct oc as [[c nm]|]; cbn [otok ocount] in *.
    + destruct (nat_digits_spec c Hc) as (N & D & V).
      unfold accumulate_tok at 2. destruct (nat_digits c) as [|d t] eqn:En; [congruence|].
      rewrite (parse_int_digits (d :: t) N D), V.
      assert (Hcm : c <= c * m) by nia.
      rewrite (in_i64_range c) by lia. rewrite (in_i64_range (c * m)) by lia. rewrite (in_i64_range (a + c * m)) by lia.
      cbn [andb]. rewrite IH by (try assumption; lia). f_equal; lia.
    + cbn [accumulate_tok]. rewrite IH by (try assumption; lia). f_equal; lia.
Qed.

Lemma no_dot_toks : forall ocs keys, Forall (fun oc => 0 <= ocount oc) ocs ->
  existsb (fun tm : list ascii * Z => contains_chr "."%char (fst tm)) (combine (map otok ocs) keys) = false.
Proof.
  induction ocs as [|oc ocs IH]; intros keys F; [reflexivity|]. destruct keys as [|m keys]; [reflexivity|].
  inversion F as [|? ? Hc F']; subst. cbn [map combine existsb fst]. rewrite (IH keys F'), orb_false_r.
  destruct oc as [[c nm]|]; [|reflexivity]. cbn [otok]. cbn [ocount] in Hc.
  destruct (nat_digits_spec c Hc) as (_ & D & _). apply all_digits_no_dot. exact D.
Qed.

(* ================= the round trip ================= *)

Theorem roundtrip_fmt : forall fmt1 u n, fmt_ok fmt1 ->
  wf_units u = true -> names_unambiguous u = true -> 0 <= n <= max_i64 ->
  parse_units_int u (format_int_with fmt1 u n) = Some n.
Proof.
  intros fmt1 u n Hf W NU Hn.
  destruct (format_render fmt1 u n Hf W (proj1 Hn)) as (ocs & V & Ec & Ed & Nr).
  pose proof (names_good_of u NU) as NG.
  pose proof (valid_nonneg _ _ V) as Fnn.
  pose proof (render_head _ _ V) as Hh.
  set (f := format_int_with fmt1 u n) in *.
  assert (Et : chars (trim_space f) = render ocs).
  { rewrite <- Ec. destruct (render ocs) as [|c t] eqn:Er; [congruence|]. cbn [head_is] in Hh.
    destruct (render_last _ _ V ltac:(rewrite Er; discriminate)) as (p & nm & pre & dg & Ip & Inm & Nn & Hdg & El).
    pose proof (ng_last _ NG p nm Ip Inm Nn) as Hl.
    apply (trim_id f c t pre dg nm); [exact Ec | exact Hh | rewrite Ec, <- Er; exact El | exact Hdg | exact Hl]. }
  assert (Eu : useq (uparts u) (render ocs) (map otok ocs)) by (apply render_useq; exact V).
  assert (Lk : List.length (map otok ocs) = List.length (units_keys u)).
  { rewrite (useq_length _ _ _ Eu). unfold units_keys. rewrite <- uparts_keys, map_length. reflexivity. }
  destruct (re_match_at (units_re u) (List.length (render ocs)) (render ocs)) as [cs|] eqn:Em.
  2:{ exfalso. apply (units_match_exists u [] (render ocs) (map otok ocs) eq_refl Eu). exact Em. }
  pose proof Em as Em'. apply units_match_sound in Em'. destruct Em' as (sp0 & body & toks & E0 & F0 & U0 & Ec0).
  assert (sp0 = []) by (apply (sp_nil sp0 body F0); rewrite <- E0; exact Hh).
  subst sp0. cbn [app] in E0. subst body.
  assert (Etoks : toks = map otok ocs).
  { apply (useq_unique (uparts u) NG (uparts u) (incl_refl _)); [| apply bare_last_uparts; exact W | exact V | exact U0].
    rewrite uparts_keys. apply units_keys_nodup. exact W. }
  subst toks. rewrite uparts_keys in Ec0. fold (units_keys u) in Ec0.
  apply (parse_units_int_intro u f n cs).
  - rewrite Et. exact Nr.
  - rewrite Et. exact Em.
  - subst cs. rewrite (model_toks_eq u _ W Lk). apply no_dot_toks. exact Fnn.
  - subst cs. rewrite (model_toks_eq u _ W Lk).
    assert (Fm : Forall (fun m => 1 <= m) (units_keys u)).
    { unfold units_keys. apply Forall_app. split; [|constructor; [lia | constructor]].
      apply Forall_forall. intros m I. apply in_map_iff in I. destruct I as (mu & E & I). subst m.
      pose proof (sorted_mults_wf u W) as Fw. rewrite Forall_forall in Fw. destruct (Fw mu I) as (L & _). lia. }
    rewrite map_length in Lk.
    rewrite (acc_complete ocs (units_keys u) 0 Lk ltac:(lia) Fnn Fm) by (rewrite Ed; lia).
    rewrite Ed. reflexivity.
Qed.

Theorem roundtrip_short : forall u n, wf_units u = true -> names_unambiguous u = true -> 0 <= n <= max_i64 ->
  parse_units_int u (format_short_int u n) = Some n.
Proof. intros u n. apply (roundtrip_fmt fmt_unit_short_int u n fmt_short_ok). Qed.

Theorem roundtrip_long : forall u n, wf_units u = true -> names_unambiguous u = true -> 0 <= n <= max_i64 ->
  parse_units_int u (format_long_int u n) = Some n.
Proof. intros u n. apply (roundtrip_fmt fmt_unit_long_int u n fmt_long_ok). Qed.
