(* Proofs/C10Usable.v — C10 composed with C04: a schema accepted by the loader is FULLY USABLE.

   1. The link.  `c10_wf` (what the link step of the loader establishes, Proofs/C10Total.v) together with
      `shape` (what holds by construction of `parse`, Proofs/C10Shape.v) and the absence of references into
      other namespaces gives `wf_use` (Proofs/C10UseNoPanic.v) — the part of C04's `wf_schema` that the
      operations use.  It does NOT give `wf_schema` itself: UnserializeScope checks "id = key" for the root
      object only, so an accepted scope may hold another object under a key that differs from its id
      (`wf_schema_too_strong_for_rebuilt`); no operation reads an object's id, and the totality theorems
      hold under wf_use (`use_unser` ... `use_never_panics`, Proofs/C10UseMain.v, proved over
      Proofs/C10UseNoPanic.v / C10UseTerm.v exactly as C04's are over C04NoPanic.v / C04Term.v; with
      `wf_schema_use` C04's own theorems are the special case).
   2. `c10_usable` / `c10_usable_plugin`: for every decoded value d, if the loader returns a schema then
      every operation on it, on every Go value, never panics, and from `fuel_bound` on never runs out of
      fuel provided the schema is outside the two recorded known-finding classes (D11 `no_inline_cycle`,
      D50 `defaults_total`).
   3. Both classes are reachable through the loader (`c10_inline_cycle_refuted`,
      `c10_default_cycle_refuted`), and UnserializeScope — unlike UnserializeSchema — hands back a scope
      whose references into another namespace are still unlinked (`c10_scope_foreign_ref_refuted`). *)
From Coq Require Import Lia.
From Verif Require Import Base.Prelude Base.Str Base.Float Base.GoVal
  Schema.Regex Schema.Units Schema.Syntax Schema.Ops Schema.Wf Schema.Total Schema.Describe
  Proofs.MonoEq Proofs.C04Inv Proofs.OpsEq Proofs.C04NoPanic Proofs.C04Term Proofs.C04Refuted Proofs.C04Main
  Proofs.C10Total Proofs.C10Shape Proofs.C10UseNoPanic Proofs.C10UseTerm Proofs.C10UseMain.
Open Scope string_scope.

(* ---------- 1. c10_wf /\ shape /\ no foreign reference  ==>  wf_use ---------- *)
Definition tab_objs (t : objtab) : bool := forallb (fun io => is_obj (snd io)) t.

Lemma c10_existsb_false {A} (f : A -> bool) l : existsb f l = false -> forall x, In x l -> f x = false.
Proof.
  induction l as [|y t IH]; cbn; intros H x Hin; [destruct Hin|].
  apply Bool.orb_false_elim in H as [H1 H2]. destruct Hin as [->|Hin]; [exact H1 | apply IH; assumption].
Qed.

Lemma c10_disc_ok_eq ik t : disc_type_ok ik t = disc_kind_ok ik t.
Proof. destruct ik, t; reflexivity. Qed.

(* a member that does not refer to another namespace is not "pending" (Describe.v member_pending_in): the
   link step has checked it *)
Lemma c10_not_pending e m : foreign_refs m = false -> member_pending_in e m = false.
Proof.
  destruct m; try reflexivity. cbn [foreign_refs member_pending_in]. intros H. rewrite H. reflexivity.
Qed.

Lemma c10_wf_member_eq e ik fld inl k m :
  member_pending_in e m = false ->
  Wf.wf_member e ik fld inl (k, m) = okey_is ik k && objlike m && Describe.wf_member e ik fld inl m.
Proof.
  intros Hp. unfold Wf.wf_member, Describe.wf_member. rewrite Hp. cbn [fst snd orb]. f_equal.
  change (Wf.member_props e m) with (wf_member_props e m).
  destruct (wf_member_props e m) as [ps|]; [|reflexivity].
  destruct (alookup fld ps) as [p|]; [|reflexivity]. rewrite c10_disc_ok_eq. reflexivity.
Qed.

Lemma use_of_wf_in : forall s e,
  tab_objs (e_self e) = true ->
  wf_in e s = true -> shape s = true -> foreign_refs s = false ->
  all_nodes use_local e s = true.
Proof.
  induction s using C04Inv.schema_ind'; intros e Ht Hw Hs Hf.
  - (* leaves *)
    destruct s; try discriminate; cbn [all_nodes use_local wf_local]; try reflexivity.
    + cbn [shape] in Hs. rewrite Hs. reflexivity.
    + cbn [shape] in Hs. rewrite Hs. reflexivity.
    + cbn [foreign_refs] in Hf. apply Bool.negb_false_iff in Hf.
      cbn [wf_in] in Hw. rewrite Hf in Hw. unfold resolve in *. rewrite Hf in *.
      destruct (alookup id (e_self e)) as [o|] eqn:El; [|discriminate].
      rewrite Bool.andb_true_r. unfold tab_objs in Ht. rewrite forallb_forall in Ht.
      apply alookup_in in El. exact (Ht _ El).
  - (* list *)
    cbn [all_nodes use_local wf_local andb]. cbn [wf_in] in Hw. cbn [shape] in Hs. cbn [foreign_refs] in Hf.
    apply IHs; assumption.
  - (* map *)
    cbn [all_nodes use_local wf_local]. cbn [wf_in] in Hw. cbn [shape] in Hs. cbn [foreign_refs] in Hf.
    apply andb_prop in Hw as [Hw1 Hw2]. apply andb_prop in Hs as [Hs Hs2]. apply andb_prop in Hs as [Hk Hs1].
    apply Bool.orb_false_elim in Hf as [Hf1 Hf2].
    rewrite Hk, (IHs1 e), (IHs2 e); auto.
  - (* object *)
    cbn [all_nodes use_local wf_local]. cbn [wf_in] in Hw. cbn [shape] in Hs. cbn [foreign_refs] in Hf.
    apply andb_prop in Hw as [Hw1 Hw2]. apply andb_prop in Hs as [Hn Hs].
    rewrite forallb_forall in Hw1, Hw2, Hs. pose proof (c10_existsb_false _ _ Hf) as Hf'.
    rewrite Forall_forall in H.
    rewrite Hn. cbn [andb]. apply andb_true_intro. split; apply forallb_forall; intros np Hin.
    + specialize (Hw1 np Hin). destruct np as [n p]. exact Hw1.
    + specialize (Hw2 np Hin). specialize (Hs np Hin). specialize (Hf' np Hin). specialize (H np Hin).
      destruct np as [n p]. destruct p as [t ? ? ? ? ? ? ? ? ? ?]. cbn [snd Syntax.p_type] in *. apply H; assumption.
  - (* one-of *)
    cbn [all_nodes use_local wf_local]. cbn [wf_in] in Hw. cbn [shape] in Hs. cbn [foreign_refs] in Hf.
    apply andb_prop in Hw as [Hw1 Hw2]. apply andb_prop in Hs as [Hn Hs].
    rewrite forallb_forall in Hw1, Hw2, Hs. pose proof (c10_existsb_false _ _ Hf) as Hf'.
    rewrite Forall_forall in H.
    rewrite Hn. cbn [andb]. apply andb_true_intro. split; apply forallb_forall; intros km Hin.
    + specialize (Hw2 km Hin). specialize (Hs km Hin). specialize (Hf' km Hin). destruct km as [k m].
      rewrite c10_wf_member_eq by (apply c10_not_pending; exact Hf'). cbn [fst snd] in Hs.
      apply andb_prop in Hs as [Hs _]. rewrite Hs. exact Hw2.
    + specialize (Hw1 km Hin). specialize (Hs km Hin). specialize (Hf' km Hin). specialize (H km Hin).
      destruct km as [k m]. cbn [fst snd] in *. apply andb_prop in Hs as [_ Hs]. apply H; assumption.
  - (* scope *)
    cbn [all_nodes use_local]. cbn [wf_in] in Hw. cbn [shape] in Hs. cbn [foreign_refs] in Hf.
    apply andb_prop in Hw as [Hr Hw]. apply andb_prop in Hs as [Hn Hs].
    assert (Hobjs : tab_objs objs = true).
    { unfold tab_objs. apply forallb_forall. intros io Hin. rewrite forallb_forall in Hs.
      specialize (Hs io Hin). apply andb_prop in Hs. tauto. }
    assert (Hroot : amem root objs = true).
    { unfold root_ok in Hr. unfold amem. destruct (alookup root objs); [reflexivity | discriminate]. }
    rewrite forallb_forall in Hw, Hs. pose proof (c10_existsb_false _ _ Hf) as Hf'.
    rewrite Forall_forall in H.
    rewrite Hn, Hroot. unfold tab_objs in Hobjs. rewrite Hobjs. cbn [andb].
    apply forallb_forall. intros io Hin.
    specialize (Hw io Hin). specialize (Hs io Hin). specialize (Hf' io Hin). specialize (H io Hin).
    destruct io as [i o]. cbn [fst snd] in *. apply andb_prop in Hs as [_ Hs].
    apply H; [exact Hobjs | assumption | assumption | assumption].
Qed.

Theorem c10_wf_use jor s :
  c10_wf jor s = true -> shape s = true -> foreign_refs s = false -> wf_use (mkEnv [] [] jor) s = true.
Proof.
  intros Hw Hs Hf. unfold wf_use. apply andb_true_intro. split; [reflexivity|].
  apply use_of_wf_in; [reflexivity | exact Hw | exact Hs | exact Hf].
Qed.

(* ---------- 2. totality under wf_use: Proofs/C10UseMain.v ---------- *)

(* ---------- 3. the loader ---------- *)
Section Usable.
Variable words : list (string * bool).
Variable pu : units -> string -> option fl.
Variable cu : units.
Variable rp : string -> option re.
Variable jor : oracles.

Notation e0 := (mkEnv [] [] jor).

Lemma rebuild_wf_use d s :
  rebuild words pu cu rp jor d = Ok s -> foreign_refs s = false -> wf_use e0 s = true.
Proof.
  intros E Hf. apply c10_wf_use; [|eapply shape_rebuild; exact E | exact Hf].
  pose proof (rebuild_total words pu cu rp jor d) as H. rewrite E in H. exact H.
Qed.

Lemma rebuild_plugin_wf_use d p :
  rebuild_plugin words pu cu rp jor d = Ok p -> forall s, In s (plugin_scopes p) -> wf_use e0 s = true.
Proof.
  intros E s Hin.
  pose proof (rebuild_plugin_total words pu cu rp jor d) as H. rewrite E in H. destruct H as [Hw Hf].
  pose proof (shape_rebuild_plugin words pu cu rp jor d p E) as Hs.
  rewrite forallb_forall in Hw, Hs.
  apply c10_wf_use; [apply Hw; exact Hin | apply Hs; exact Hin | exact (c10_existsb_false _ _ Hf s Hin)].
Qed.

(* UnserializeScope *)
Theorem c10_usable : forall d s,
  rebuild words pu cu rp jor d = Ok s -> foreign_refs s = false ->
  (forall f v w,
     unser words pu f e0 s v <> Panic w /\ validate words pu f e0 s v <> Panic w /\
     serialize words pu f e0 s v <> Panic w /\ compat words pu f e0 s v <> Panic w)
  /\
  (forall K, no_inline_cycle e0 s = true -> defaults_total words pu K e0 s = true ->
     forall v f, (fuel_bound K e0 s v <= f)%nat -> all_total words pu f e0 s v).
Proof.
  intros d s E Hf. pose proof (rebuild_wf_use d s E Hf) as Hwf. split.
  - apply use_never_panics. exact Hwf.
  - intros K Hn Hd v f Hb. eapply use_all_total; eauto.
Qed.

(* UnserializeSchema / Client.ReadSchema: every step input, output and signal data schema *)
Theorem c10_usable_plugin : forall d p,
  rebuild_plugin words pu cu rp jor d = Ok p ->
  forall s, In s (plugin_scopes p) ->
  (forall f v w,
     unser words pu f e0 s v <> Panic w /\ validate words pu f e0 s v <> Panic w /\
     serialize words pu f e0 s v <> Panic w /\ compat words pu f e0 s v <> Panic w)
  /\
  (forall K, no_inline_cycle e0 s = true -> defaults_total words pu K e0 s = true ->
     forall v f, (fuel_bound K e0 s v <= f)%nat -> all_total words pu f e0 s v).
Proof.
  intros d p E s Hin. pose proof (rebuild_plugin_wf_use d p E s Hin) as Hwf. split.
  - apply use_never_panics. exact Hwf.
  - intros K Hn Hd v f Hb. eapply use_all_total; eauto.
Qed.
(* the same two theorems with every definition of this file unfolded (the form stated in Properties/C10.v) *)
Theorem c10_usable_explicit : forall d s,
  rebuild words pu cu rp jor d = Ok s -> foreign_refs s = false ->
  (forall f v w,
     unser words pu f e0 s v <> Panic w /\ validate words pu f e0 s v <> Panic w /\
     serialize words pu f e0 s v <> Panic w /\ compat words pu f e0 s v <> Panic w)
  /\
  (forall K, no_inline_cycle e0 s = true -> defaults_total words pu K e0 s = true ->
     forall v f, (fuel_bound K e0 s v <= f)%nat ->
       unser words pu f e0 s v <> OutOfFuel /\ validate words pu f e0 s v <> OutOfFuel /\
       serialize words pu f e0 s v <> OutOfFuel /\ compat words pu f e0 s v <> OutOfFuel).
Proof.
  intros d s E Hf. destruct (c10_usable d s E Hf) as [H1 H2]. split; [exact H1|].
  intros K Hn Hd v f Hb. apply all_total_no_fuel_out. eapply H2; eauto.
Qed.

Theorem c10_usable_plugin_explicit : forall d p,
  rebuild_plugin words pu cu rp jor d = Ok p ->
  forall s, In s (plugin_scopes p) ->
  (forall f v w,
     unser words pu f e0 s v <> Panic w /\ validate words pu f e0 s v <> Panic w /\
     serialize words pu f e0 s v <> Panic w /\ compat words pu f e0 s v <> Panic w)
  /\
  (forall K, no_inline_cycle e0 s = true -> defaults_total words pu K e0 s = true ->
     forall v f, (fuel_bound K e0 s v <= f)%nat ->
       unser words pu f e0 s v <> OutOfFuel /\ validate words pu f e0 s v <> OutOfFuel /\
       serialize words pu f e0 s v <> OutOfFuel /\ compat words pu f e0 s v <> OutOfFuel).
Proof.
  intros d p E s Hin. destruct (c10_usable_plugin d p E s Hin) as [H1 H2]. split; [exact H1|].
  intros K Hn Hd v f Hb. apply all_total_no_fuel_out. eapply H2; eauto.
Qed.
End Usable.

(* ---------- 4. witnesses ---------- *)
Definition u_obj (id : string) (props : list (gval * gval)) : gval :=
  dobj [("id", vstr id); ("properties", dmap props)].
Definition u_prop (t : gval) (dflt : option string) : gval :=
  dobj ([("type", t); ("required", vbool false)] ++ match dflt with Some x => [("default", vstr x)] | None => [] end).
Definition u_ref (id ns : string) : gval := dobj [("type_id", vstr "ref"); ("id", vstr id); ("namespace", vstr ns)].
Definition u_scope (root : string) (objs : list (gval * gval)) : gval :=
  dobj [("objects", dmap objs); ("root", vstr root)].

(* scope(A{x: ref A}) as a description *)
Definition u_d11 : gval := u_scope "A" [(vstr "A", u_obj "A" [(vstr "x", u_prop (u_ref "A" "") None)])].
(* scope(A{x: ref A = "{}"; n: any}) *)
Definition u_d50 : gval :=
  u_scope "A" [(vstr "A", u_obj "A" [(vstr "x", u_prop (u_ref "A" "") (Some "{}"));
                                     (vstr "n", u_prop (dobj [("type_id", vstr "any")]) None)])].
(* a reference into another namespace *)
Definition u_foreign : gval := u_scope "A" [(vstr "A", u_obj "A" [(vstr "x", u_prop (u_ref "B" "other") None)])].
(* an object stored under a key that is not its id (not the root) *)
Definition u_otherkey : gval :=
  u_scope "A" [(vstr "A", u_obj "A" [(vstr "x", u_prop (u_ref "K" "") None)]); (vstr "K", u_obj "B" [])].

Section Witnesses.
Variable words : list (string * bool).
Variable pu : units -> string -> option fl.
Variable cu : units.
Variable rp : string -> option re.

Lemma rebuild_u_d11 jor : rebuild words pu cu rp jor u_d11 = Ok d11_scope.
Proof. vm_compute. reflexivity. Qed.

Lemma rebuild_u_d50 : rebuild words pu cu rp d50_oracles u_d50 = Ok d50_scope.
Proof. vm_compute. reflexivity. Qed.

(* D11 through C10: the description of scope(A{x: ref A}) is accepted, the result is well-formed, and
   Unserialize("foo") never finishes, whatever the fuel *)
Theorem c10_inline_cycle_refuted :
  exists jor d s v,
    rebuild words pu cu rp jor d = Ok s /\ foreign_refs s = false /\ wf_use (mkEnv [] [] jor) s = true /\
    (forall n, no_inline_cycle_n n (mkEnv [] [] jor) s = false) /\
    forall f, unser words pu f (mkEnv [] [] jor) s v = OutOfFuel.
Proof.
  exists d11_oracles, u_d11, d11_scope, d11_input.
  split; [apply rebuild_u_d11|]. split; [reflexivity|]. split; [vm_compute; reflexivity|].
  split; [exact d11_cyclic_n | exact (d11_diverges words pu)].
Qed.

(* D50 through C10 *)
Theorem c10_default_cycle_refuted :
  exists jor d s v,
    rebuild words pu cu rp jor d = Ok s /\ foreign_refs s = false /\ wf_use (mkEnv [] [] jor) s = true /\
    no_inline_cycle (mkEnv [] [] jor) s = true /\
    (forall K, defaults_total words pu K (mkEnv [] [] jor) s = false) /\
    forall f, unser words pu f (mkEnv [] [] jor) s v = OutOfFuel.
Proof.
  exists d50_oracles, u_d50, d50_scope, d50_empty.
  split; [apply rebuild_u_d50|]. split; [reflexivity|]. split; [vm_compute; reflexivity|].
  split; [exact d50_no_inline_cycle|]. split; [exact (d50_defaults_diverge words pu) | exact (d50_diverges words pu)].
Qed.

(* UnserializeScope (not UnserializeSchema) accepts a reference into a namespace it cannot link; the first
   use of the returned scope reaches the "unlinked reference" panic *)
Theorem c10_scope_foreign_ref_refuted : forall jor,
  exists s, rebuild words pu cu rp jor u_foreign = Ok s /\ foreign_refs s = true /\
            c10_wf jor s = true /\ wf_use (mkEnv [] [] jor) s = false /\
            is_panic (unser words pu 20 (mkEnv [] [] jor) s (VMap t_str_map false [(vstr "x", VMap t_str_map false [])])) = true.
Proof.
  intros jor. eexists. split; [vm_compute; reflexivity|]. repeat split; vm_compute; reflexivity.
Qed.

(* ... which UnserializeSchema rejects *)
Definition u_plugin (input : gval) : gval :=
  dobj [("steps", dmap [(vstr "s", dobj [("id", vstr "s"); ("input", input); ("outputs", dmap [])])])].
Theorem c10_plugin_foreign_ref_rejected : forall jor,
  is_err (rebuild_plugin words pu cu rp jor (u_plugin u_foreign)) = true /\
  is_ok (rebuild_plugin words pu cu rp jor (u_plugin u_d11)) = true.
Proof. intros jor. split; vm_compute; reflexivity. Qed.

(* wf_schema itself is NOT what the loader establishes: "id = key" is checked for the root only *)
Theorem wf_schema_too_strong_for_rebuilt : forall jor,
  exists s, rebuild words pu cu rp jor u_otherkey = Ok s /\ foreign_refs s = false /\
            wf_schema (mkEnv [] [] jor) s = false /\ wf_use (mkEnv [] [] jor) s = true.
Proof.
  intros jor. eexists. split; [vm_compute; reflexivity|]. repeat split; vm_compute; reflexivity.
Qed.
End Witnesses.
