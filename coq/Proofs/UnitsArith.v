(* Proofs/UnitsArith.v — unbounded arithmetic facts about the units model. *)
From Coq Require Import Lia ZArith List.
From Verif Require Import Base.Prelude Base.Str Schema.Regex Schema.Units.
Import ListNotations.
Open Scope Z_scope.

Fixpoint dot (cs ms : list Z) : Z :=
  match cs, ms with
  | c :: cs', m :: ms' => c * m + dot cs' ms'
  | _, _ => 0
  end.

(* the greedy decomposition over ANY list of positive multipliers sums back to n, with
   non-negative counts and remainder, and one count per multiplier *)
Lemma decompose_sum : forall ms n cs r,
  Forall (fun m => 0 < m) ms -> 0 <= n ->
  decompose ms n = (cs, r) ->
  dot cs ms + r = n /\ 0 <= r /\ Forall (fun c => 0 <= c) cs /\ List.length cs = List.length ms.
Proof.
  induction ms as [|m ms IH]; intros n cs r Hpos Hn Hd; cbn [decompose] in Hd.
  - inversion Hd; subst. cbn. repeat split; try lia; constructor.
  - inversion Hpos as [|? ? Hm Hms]; subst.
    destruct (decompose ms (n - n / m * m)) as [cs' r'] eqn:E.
    inversion Hd; subst.
    assert (Hq : 0 <= n / m) by (apply Z.div_pos; lia).
    assert (Hr : 0 <= n - n / m * m).
    { pose proof (Z.mul_div_le n m Hm). lia. }
    destruct (IH _ _ _ Hms Hr E) as (Hs & Hr' & Hcs & Hlen).
    cbn [dot List.length]. repeat split; try lia.
    constructor; assumption.
Qed.

(* after a count for multiplier m has been taken, less than m remains *)
Lemma decompose_remainder_lt : forall m ms n cs r,
  0 < m -> Forall (fun x => 0 < x) ms -> 0 <= n ->
  decompose (m :: ms) n = (cs, r) ->
  exists c cs', cs = c :: cs' /\ c = n / m /\ decompose ms (n mod m) = (cs', r).
Proof.
  intros m ms n cs r Hm Hms Hn Hd. cbn [decompose] in Hd.
  replace (n - n / m * m) with (n mod m) in Hd by (rewrite Z.mod_eq by lia; lia).
  destruct (decompose ms (n mod m)) as [cs' r'] eqn:E. inversion Hd; subst.
  eauto.
Qed.

(* ---- accumulation with overflow checks ---- *)

(* the exact (unbounded) value of a token list *)
Definition tok_val (tm : list ascii * Z) : option Z :=
  match fst tm with
  | [] => Some 0
  | _ => match parse_int (unchars (fst tm)) with Some i => Some (i * snd tm) | None => None end
  end.

Lemma accumulate_none : forall toks,
  fold_left (fun acc tm => accumulate_tok acc (fst tm) (snd tm)) toks None = None.
Proof. induction toks as [|t toks IH]; cbn; auto. Qed.

(* "never a wrong number": whenever the accumulator answers, the answer is the exact sum,
   every summand was a well-formed count times its multiplier, and the sum is an int64 *)
Lemma accumulate_exact : forall toks a z,
  in_i64 a = true ->
  fold_left (fun acc tm => accumulate_tok acc (fst tm) (snd tm)) toks (Some a) = Some z ->
  exists vs, Forall2 (fun tm v => tok_val tm = Some v) toks vs /\ z = a + fold_right Z.add 0 vs /\ in_i64 z = true.
Proof.
  induction toks as [|[tok m] toks IH]; intros a z Ha H; cbn [fold_left] in H.
  - inversion H; subst. exists []. repeat split; [constructor | cbn; lia | assumption].
  - cbn [fst snd] in H. unfold accumulate_tok in H at 2.
    destruct tok as [|c tok'].
    + destruct (IH _ _ Ha H) as (vs & Hf & Hz & Hi). exists (0 :: vs). repeat split; auto.
      all: try (constructor; auto). all: try (cbn; lia).
    + destruct (parse_int (unchars (c :: tok'))) as [i|] eqn:Ep.
      2:{ rewrite accumulate_none in H. discriminate. }
      destruct (in_i64 (i * m) && in_i64 (a + i * m)) eqn:Eb.
      2:{ rewrite accumulate_none in H. discriminate. }
      apply andb_prop in Eb. destruct Eb as [_ Hs].
      destruct (IH _ _ Hs H) as (vs & Hf & Hz & Hi). exists (i * m :: vs). repeat split; auto.
      all: try (cbn; lia).
      constructor; auto. unfold tok_val. cbn [fst snd]. rewrite Ep. reflexivity.
Qed.

(* and conversely: if every product and every partial sum fits int64, the accumulator answers *)
Lemma accumulate_complete : forall toks vs a,
  Forall2 (fun tm v => tok_val tm = Some v) toks vs ->
  (forall k, (k <= List.length vs)%nat -> in_i64 (a + fold_right Z.add 0 (firstn k vs)) = true) ->
  Forall (fun v => in_i64 v = true) vs ->
  fold_left (fun acc tm => accumulate_tok acc (fst tm) (snd tm)) toks (Some a)
  = Some (a + fold_right Z.add 0 vs).
Proof.
  induction toks as [|[tok m] toks IH]; intros vs a Hf Hpart Hall; inversion Hf as [|? v ? vs' Hv Hf']; subst.
  - cbn. f_equal; lia.
  - cbn [fold_left fst snd]. inversion Hall as [|? ? Hv64 Hall']; subst.
    unfold tok_val in Hv. cbn [fst snd] in Hv.
    assert (Hstep : in_i64 (a + v) = true).
    { specialize (Hpart 1%nat). cbn in Hpart. rewrite Z.add_0_r in Hpart. apply Hpart. lia. }
    assert (Hrest : forall k, (k <= List.length vs')%nat ->
                    in_i64 (a + v + fold_right Z.add 0 (firstn k vs')) = true).
    { intros k Hk. specialize (Hpart (S k)). cbn in Hpart. rewrite Z.add_assoc in Hpart. apply Hpart. lia. }
    unfold accumulate_tok at 2. destruct tok as [|c tok'].
    + inversion Hv; subst. rewrite Z.add_0_r in Hrest.
      rewrite (IH _ _ Hf' Hrest Hall'). f_equal; cbn; lia.
    + destruct (parse_int (unchars (c :: tok'))) as [i|]; [|discriminate].
      inversion Hv; subst. rewrite Hv64, Hstep. cbn [andb].
      rewrite (IH _ _ Hf' Hrest Hall'). f_equal; cbn; lia.
Qed.
