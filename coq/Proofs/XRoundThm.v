(* Proofs/XRoundThm.v — C01 for struct-mapped objects: the value Unserialize returns passes Validate and
   is accepted by Serialize (`x_struct_roundtrip_partial`; vocabulary and the key lemma in Proofs/XRound.v).
   Two ingredients besides `xto_struct_extract`:
     - `xunser_struct_shape`: what Unserialize hands to unserializeToStruct — a raw map with unique keys,
       all of them property ids, every value the result of that property type's Unserialize, on which
       the presence rules hold;
     - `xrule_transfer`: the presence rules survive the identification "empty value of a
       treat-empty-as-default property = absent". *)
From Coq Require Import Lia.
From Verif Require Import Base.Prelude Base.Str Base.Float Base.GoVal Base.XReflect
  Schema.Regex Schema.Units Schema.Syntax Schema.Ops Schema.SpecObj Schema.XSyntax Schema.XOps Schema.XWf
  Proofs.OpsLemmas Proofs.XOpsEq Proofs.XPaths Proofs.XRound.
Open Scope string_scope.

(* ---------- generic fold invariants ---------- *)
Lemma xr_fold_bind_inv {A B} (g : B -> A -> outcome B) (Q : B -> Prop) l : forall a r,
  Q a -> (forall a x a', In x l -> Q a -> g a x = Ok a' -> Q a') ->
  fold_left (fun acc x => a <- acc ;; g a x) l (Ok a) = Ok r -> Q r.
Proof.
  induction l as [|x t IH]; intros a r Ha Hs H.
  - cbn in H. inversion H; subst; exact Ha.
  - apply fold_bind_cons in H as (a' & E & H).
    eapply IH; [eapply Hs; [now left | exact Ha | exact E] | intros; eapply Hs; eauto; now right | exact H].
Qed.

Lemma xr_fold_inv {A B} (g : B -> A -> B) (Q : B -> Prop) l : forall a,
  Q a -> (forall a x, In x l -> Q a -> Q (g a x)) -> Q (fold_left g l a).
Proof.
  induction l as [|x t IH]; intros a Ha Hs; cbn; [exact Ha|].
  apply IH; [apply Hs; [now left | exact Ha] | intros; apply Hs; [now right | assumption]].
Qed.

(* ---------- raw maps with unique keys, all of them property ids ---------- *)
Definition raw_good {S0} (props : list (string * S0)) (a : raw) : Prop :=
  NoDup (map fst a) /\ forall k, In k (map fst a) -> In k (map fst props).

Lemma xr_nodup_snoc {A} (l : list (string * A)) k v :
  NoDup (map fst l) -> alookup k l = None -> NoDup (map fst (l ++ [(k, v)])).
Proof.
  intros Hnd Hk. apply alookup_None_notin in Hk. rewrite map_app. cbn.
  induction (map fst l) as [|x t IH]; cbn.
  - constructor; [intros [] | constructor].
  - inversion Hnd; subst. constructor.
    + rewrite in_app_iff. cbn. intros [C | [C | []]]; [contradiction | subst; apply Hk; now left].
    + apply IH; [assumption | intros C; apply Hk; now right].
Qed.

Lemma raw_good_app {S0} (props : list (string * S0)) a k x :
  raw_good props a -> alookup k a = None -> In k (map fst props) -> raw_good props (a ++ [(k, x)])%list.
Proof.
  intros [Hnd Hk] Hn Hin. split; [now apply xr_nodup_snoc|].
  intros k'. rewrite map_app, in_app_iff. cbn. intros [H | [<- | []]]; auto.
Qed.

Lemma raw_good_set {S0} (props : list (string * S0)) a k x :
  raw_good props a -> In k (map fst props) -> raw_good props (raw_set k x a).
Proof.
  intros Hg Hin. destruct (amem k a) eqn:E.
  - destruct (raw_set_present k x a E) as [Hf _]. unfold raw_good. rewrite Hf. exact Hg.
  - unfold raw_set. rewrite E. apply raw_good_app; [exact Hg | now apply amem_false | exact Hin].
Qed.

Lemma xsub_defaults_shape f e pid p r r' :
  xsub_defaults f e pid p r = Ok r' -> r' = r \/ exists y, r' = raw_set pid y r.
Proof.
  destruct f as [|f]; [discriminate|]. cbn [xsub_defaults]. intros H.
  apply bind_ok in H as (so & _ & H).
  assert (Hr : forall r0, Ok r = Ok r0 -> r0 = r \/ exists y, r0 = raw_set pid y r).
  { intros r0 E. inversion E; subst. auto. }
  destruct so as [[o e']|]; [|eauto].
  destruct o; eauto.
  destruct (match mapped with Some si => si_ptr si | None => false end); [eauto|].
  match type of H with (match ?d with Some _ => _ | None => _ end) = _ => destruct d as [data0|]; [|eauto] end.
  apply bind_ok in H as (data2 & _ & H).
  destruct data2; [eauto|]. inversion H; subst. eauto.
Qed.

(* a key, once in the raw map, stays; a property with a decodable default gets one *)
Lemma xr_amem_app {A} k (a b : list (string * A)) : amem k a = true -> amem k (a ++ b) = true.
Proof. unfold amem. rewrite alookup_app. destruct (alookup k a); [reflexivity | discriminate]. Qed.

Lemma xr_amem_snoc {A} k (a : list (string * A)) v : amem k (a ++ [(k, v)]) = true.
Proof. apply xr_amem_in. rewrite map_app, in_app_iff. right. now left. Qed.

Lemma xr_amem_raw_set k k' y (a : raw) : amem k a = true -> amem k (raw_set k' y a) = true.
Proof.
  intros H. destruct (amem k' a) eqn:E.
  - destruct (raw_set_present k' y a E) as [Hf _]. apply xr_amem_in. rewrite Hf. apply xr_amem_in. exact H.
  - unfold raw_set. rewrite E. now apply xr_amem_app.
Qed.

Lemma xd_fold_mem (e : xenv) (l : list (string * xproperty)) : forall (a : raw) k,
  (amem k a = true \/ exists np, In np l /\ fst np = k /\ xhas_default e np = true) ->
  amem k (fold_left (fun a np =>
                       if amem (fst np) a then a
                       else match p_default (snd np) with
                            | Some txt => match xdecode_default (xe_or e) (snd np) txt with
                                          | Some d => (a ++ [(fst np, d)])%list
                                          | None => a
                                          end
                            | None => a
                            end) l a) = true.
Proof.
  unfold xproperty in *.
  induction l as [|np0 l IH]; intros a k H; cbn [fold_left].
  - destruct H as [H | (np & [] & _)]. exact H.
  - apply IH. unfold xproperty in *. destruct H as [H | (np & [<- | Hin] & <- & Hd)].
    + left. destruct (amem (fst np0) a); [exact H|]. destruct (p_default (snd np0)); [|exact H].
      destruct (xdecode_default _ _ _); [|exact H]. now apply xr_amem_app.
    + left. unfold xhas_default in Hd. unfold xproperty in *.
      destruct (amem (fst np0) a) eqn:Ea; [exact Ea|].
      destruct (p_default (snd np0)) as [txt|]; [|discriminate Hd].
      destruct (xdecode_default (xe_or e) (snd np0) txt); [|discriminate Hd].
      apply xr_amem_snoc.
    + right. exists np. auto.
Qed.

Section Shape.
Variable words : list (string * bool).
Variable pu : units -> string -> option fl.
Notation xunser := (xunser words pu).
Notation xvalidate := (xvalidate words pu).
Notation xserialize := (xserialize words pu).

(* fold 1: the keys *)
Lemma xk_fold_keys (props : list (string * xproperty)) kvs : forall a r,
  fold_left (fun acc kv => a <- acc ;;
               match fst kv with
               | VStr TStr k => if amem k props then Ok (a ++ [(k, snd kv)])%list else Err (cerr EKey)
               | _ => Err (cerr EKey)
               end) kvs (Ok a) = Ok r ->
  map fst r = (map fst a ++ map fst (raw_of_entries kvs))%list /\
  (forall k, In k (map fst (raw_of_entries kvs)) -> amem k props = true).
Proof.
  induction kvs as [|[kk vv] kvs IH]; intros a r H.
  - cbn in H. inversion H; subst. cbn. rewrite app_nil_r. split; [reflexivity | intros ? []].
  - apply fold_bind_cons in H as (a' & Hb & H). cbn [fst snd] in Hb.
    destruct kk; try discriminate. destruct t; try discriminate.
    destruct (amem s props) eqn:Es; [|discriminate]. inversion Hb; subst a'.
    apply IH in H as [Hk Hp]. split.
    + rewrite Hk, map_app. cbn. rewrite <- app_assoc. reflexivity.
    + cbn. intros k [<- | Hin]; auto.
Qed.

(* fold 4: every processed entry holds the result of its property type's Unserialize *)
Definition xdone (f : nat) (e : xenv) (props : list (string * xproperty)) (a : raw) (D : list string) : Prop :=
  forall k x, In (k, x) a -> In k D -> exists p d, In (k, p) props /\ xunser f e (p_type p) d = Ok x.

Definition xubody (f : nat) (e : xenv) (a : raw) (np : string * xproperty) : outcome raw :=
  match alookup (fst np) a with
  | Some d =>
      x <- seg (fst np) (if p_disabled (snd np) then Err (cerr EDisabled) else xunser f e (p_type (snd np)) d) ;;
      Ok (raw_set (fst np) x a)
  | None => Ok a
  end.

Lemma xu_fold_done f e props : forall l D a r,
  (forall np, In np l -> In np props) -> xdone f e props a D ->
  fold_left (fun acc np => a <- acc ;; xubody f e a np) l (Ok a) = Ok r -> xdone f e props r (D ++ map fst l).
Proof.
  induction l as [|[k0 p0] l IH]; intros D a r Hl Hd H.
  - cbn in H. inversion H; subst. cbn. rewrite app_nil_r. exact Hd.
  - apply fold_bind_cons in H as (a' & Hb & H).
    replace (D ++ map fst ((k0, p0) :: l))%list with ((D ++ [k0]) ++ map fst l)%list by (rewrite <- app_assoc; reflexivity).
    eapply IH; [intros; apply Hl; now right | | exact H].
    unfold xubody in Hb. cbn [fst snd] in Hb.
    destruct (alookup k0 a) as [d|] eqn:Ed.
    + apply bind_ok in Hb as (x & Hx & Hb). inversion Hb; subst a'. apply seg_ok in Hx.
      destruct (p_disabled p0); [discriminate|].
      assert (Ham : amem k0 a = true) by (unfold amem; rewrite Ed; reflexivity).
      unfold raw_set. rewrite Ham.
      intros k y Hin HD. apply in_map_iff in Hin as ([k1 y1] & E & Hin). cbn [fst] in E.
      destruct (String.eqb k1 k0) eqn:E1.
      * inversion E; subst k y. exists p0, d. split; [apply Hl; now left | exact Hx].
      * inversion E; subst k1 y1. apply (Hd k y Hin).
        apply in_app_iff in HD as [HD | [HD | []]]; [exact HD|]. subst k. rewrite String.eqb_refl in E1. discriminate.
    + inversion Hb; subst a'. intros k y Hin HD.
      apply in_app_iff in HD as [HD | [HD | []]]; [apply (Hd k y Hin HD)|]. subst k.
      exfalso. apply alookup_None_notin in Ed. apply Ed. apply in_map_iff. exists (k0, y). auto.
Qed.

(* what Unserialize hands to unserializeToStruct *)
Lemma xunser_struct_shape f e id u props si v n :
  raw_keys_unique v = true ->
  xunser (S f) e (XObject id u props (Some si)) v = Ok n ->
  exists r2 : raw,
    NoDup (map fst r2) /\ (forall k, In k (map fst r2) -> In k (map fst props)) /\
    (forall k x, In (k, x) r2 -> exists p d, In (k, p) props /\ xunser f e (p_type p) d = Ok x) /\
    (forall np, In np props -> xhas_default e np = true -> amem (fst np) r2 = true) /\
    xcheck_rules props (fun k => amem k r2) = Ok tt /\ xto_struct e si r2 = Ok n.
Proof.
  intros Hu H. rewrite (xunser_S words pu) in H. cbv beta iota zeta in H.
  assert (Hin_names : forall np : string * xproperty, In np props -> In (fst np) (map fst props)) by (intros; now apply in_map).
  destruct v.
  7: { (* a map *)
    apply bind_ok in H as (r0 & Hr0 & H). apply bind_ok in H as (r1' & Hr1' & H).
    apply bind_ok in H as (r2 & Hr2 & H). apply bind_ok in H as (u0 & Hrules & Hto). destruct u0.
    exists r2.
    assert (G0 : raw_good props r0).
    { apply xk_fold_keys in Hr0 as [Hk Hp]. cbn [map app] in Hk. unfold raw_good. rewrite Hk. split.
      - apply nodup_str_NoDup. exact Hu.
      - intros k Hin. apply xr_amem_in. apply Hp. exact Hin. }
    match type of Hr1' with fold_left _ _ (Ok ?r1) = _ => assert (G1 : raw_good props r1) end.
    { apply xr_fold_inv; [exact G0|]. intros a np0 Hin Ha.
      destruct (amem (fst np0) a) eqn:Ea; [exact Ha|]. destruct (p_default (snd np0)); [|exact Ha].
      destruct (xdecode_default _ _ _); [|exact Ha].
      apply raw_good_app; [exact Ha | now apply amem_false | now apply Hin_names]. }
    assert (G1' : raw_good props r1').
    { revert Hr1'. apply xr_fold_bind_inv; [exact G1|].
      intros a np0 a' Hin Ha Hst. destruct (amem (fst np0) r0); [inversion Hst; subst; exact Ha|].
      apply xsub_defaults_shape in Hst as [-> | (y & ->)]; [exact Ha|].
      apply raw_good_set; [exact Ha | now apply Hin_names]. }
    change (fold_left _ props (Ok r1')) with (fold_left (fun acc np => a <- acc ;; xubody f e a np) props (Ok r1')) in Hr2.
    assert (G2 : raw_good props r2).
    { revert Hr2. apply xr_fold_bind_inv; [exact G1'|].
      intros a np0 a' Hin Ha Hst. unfold xubody in Hst. destruct (alookup (fst np0) a); [|inversion Hst; subst; exact Ha].
      apply bind_ok in Hst as (x & _ & Hst). inversion Hst; subst.
      apply raw_good_set; [exact Ha | now apply Hin_names]. }
    destruct G2 as [Hnd Hkeys].
    split; [exact Hnd|]. split; [exact Hkeys|]. split; [|split; [|split; [exact Hrules | exact Hto]]].
    - intros k x Hin.
      apply (xu_fold_done f e props props [] r1' r2 (fun np H0 => H0)) in Hr2; [|intros ? ? ? []].
      apply (Hr2 k x Hin). cbn [app]. apply Hkeys. apply in_map_iff. exists (k, x). auto.
    - intros np Hin Hd.
      match type of Hr1' with fold_left _ _ (Ok ?r1) = _ => assert (M1 : amem (fst np) r1 = true) end.
      { apply xd_fold_mem. right. exists np. auto. }
      assert (M1' : amem (fst np) r1' = true).
      { revert Hr1'. apply (xr_fold_bind_inv _ (fun r : raw => amem (fst np) r = true)); [exact M1|].
        intros a np0 a' _ Ha Hst.
        destruct (amem (fst np0) r0); [inversion Hst; subst; exact Ha|].
        apply xsub_defaults_shape in Hst as [-> | (y & ->)]; [exact Ha | now apply xr_amem_raw_set]. }
      revert Hr2. apply (xr_fold_bind_inv _ (fun r : raw => amem (fst np) r = true)); [exact M1'|].
      intros a np0 a' _ Ha Hst. unfold xubody in Hst.
      destruct (alookup (fst np0) a); [|inversion Hst; subst; exact Ha].
      apply bind_ok in Hst as (x & _ & Hst). inversion Hst; subst. now apply xr_amem_raw_set. }
  (* not a map: the single-property shorthand *)
  all: destruct props as [|[name p] [|? ?]]; try discriminate.
  all: apply bind_ok in H as (x & Hx & H); apply bind_ok in H as (u0 & Hrules & Hto); destruct u0.
  all: apply seg_ok in Hx; destruct (p_disabled p); [discriminate|].
  all: exists [(name, x)].
  all: split; [cbn; constructor; [intros [] | constructor]|].
  all: split; [intros k0 H0; exact H0|].
  all: split; [intros k0 x0 [E | []]; inversion E; subst; eexists p, _; split; [now left | exact Hx]|].
  all: split; [intros np0 [<- | []] _; unfold amem; cbn; rewrite String.eqb_refl; reflexivity|].
  all: split; [|exact Hto].
  all: apply xcheck_rules_ok; intros nm q Hq; apply (proj1 (xcheck_rules_ok _ _) Hrules) in Hq.
  all: eapply xrule_holds_ext; [|exact Hq]; intros k0; unfold amem; cbn; destruct (String.eqb k0 name); reflexivity.
Qed.

(* ---------- the presence rules under "empty = absent" ---------- *)
Lemma xrule_transfer {S0} (props : list (string * property_ S0)) (S1 S2 : string -> bool) :
  (forall k, S2 k = true -> S1 k = true) ->
  (forall k, S1 k = true -> S2 k = false -> forall p, In (k, p) props ->
     p_required p = false /\ p_required_if p = [] /\ p_required_if_not p = []) ->
  (forall k, S1 k = true -> S2 k = false -> forall nm q, In (nm, q) props -> ~ In k (p_required_if_not q)) ->
  forall name p, In (name, p) props -> xrule_holds S1 name p -> xrule_holds S2 name p.
Proof.
  intros T1 T2 T3 name p Hin. unfold xrule_holds.
  destruct (S2 name) eqn:E2.
  - rewrite (T1 _ E2). intros H c Hc. destruct (S2 c) eqn:Ec; [|reflexivity].
    apply T1 in Ec. rewrite (H c Hc) in Ec. discriminate.
  - destruct (S1 name) eqn:E1.
    + intros _. destruct (T2 _ E1 E2 p Hin) as (-> & -> & ->).
      split; [reflexivity|]. split; [intros r [] | intros C; contradiction].
    + intros (H1 & H2 & H3). split; [exact H1|]. split.
      * intros r Hr. destruct (S2 r) eqn:Er; [|reflexivity]. apply T1 in Er. rewrite (H2 r Hr) in Er. discriminate.
      * intros Hn. destruct (H3 Hn) as (r & Hr & Hs). exists r. split; [exact Hr|].
        destruct (S2 r) eqn:Er; [reflexivity|]. exfalso. exact (T3 r Hs Er name p Hin Hr).
Qed.

Lemma xpresent_in e si sv (l : list (string * xproperty)) k :
  In k (map fst (xpresent e si sv l)) <->
  exists np x, In np l /\ fst np = k /\ xfield_value e si sv np = Some x.
Proof.
  unfold xpresent. rewrite in_map_iff. split.
  - intros ([k' x] & <- & Hin). apply in_flat_map in Hin as (np & Hnp & Hin).
    destruct (xfield_value e si sv np) as [x0|] eqn:Ex; [|contradiction].
    destruct Hin as [E | []]. inversion E; subst. exists np, x. auto.
  - intros (np & x & Hnp & <- & Hx). exists (fst np, x). split; [reflexivity|].
    apply in_flat_map. exists np. split; [exact Hnp|]. rewrite Hx. now left.
Qed.

(* what xempty_ok says *)
Lemma xempty_ok_spec (props : list (string * xproperty)) np :
  xempty_ok props np = true -> p_empty_is_default (snd np) = true ->
  p_required (snd np) = false /\ p_required_if (snd np) = [] /\ p_required_if_not (snd np) = [] /\
  forall nm q, In (nm, q) props -> ~ In (fst np) (p_required_if_not q).
Proof.
  unfold xempty_ok. intros H He. rewrite He in H.
  apply andb_prop in H as [H H4]. apply andb_prop in H as [H H3]. apply andb_prop in H as [H1 H2].
  apply Bool.negb_true_iff in H1.
  destruct (p_required_if (snd np)); [|discriminate]. destruct (p_required_if_not (snd np)); [|discriminate].
  repeat split; auto.
  intros nm q Hin C. rewrite forallb_forall in H4. specialize (H4 _ Hin). cbn [snd] in H4.
  apply Bool.negb_true_iff in H4. apply str_in_In in C. congruence.
Qed.

(* ---------- the theorem ---------- *)

(* the property types (children): every value a property type's Unserialize returns (fuel f) is of the
   property's reflected type, passes that type's Validate and is accepted by its Serialize (fuel f') *)
Definition xchildren_ok (f f' : nat) (e : xenv) (props : list (string * xproperty)) : Prop :=
  forall np d x, In np props -> xunser f e (p_type (snd np)) d = Ok x ->
    xres_ok (xprt e np) x = true /\ xvalidate f' e (p_type (snd np)) x = Ok tt /\
    exists y, xserialize f' e (p_type (snd np)) x = Ok y.

Theorem x_struct_roundtrip_partial : forall f f' e id u props si v n,
  xrt_desc e props si = true -> raw_keys_unique v = true -> xchildren_ok f f' e props ->
  xunser (S f) e (XObject id u props (Some si)) v = Ok n ->
  xvalidate (S f') e (XObject id u props (Some si)) n = Ok tt /\
  exists w, xserialize (S f') e (XObject id u props (Some si)) n = Ok w.
Proof.
  intros f f' e id u props si v n Hdesc Hu Hch Hun.
  pose proof (xd_nodup e props si Hdesc) as Hndp.
  destruct (xunser_struct_shape _ _ _ _ _ _ _ _ Hu Hun) as (r2 & Hnd & Hkeys & Hvals & Hdef & Hrules & Hto).
  (* the property a key belongs to is unique *)
  assert (Hval : forall k x p, In (k, x) r2 -> In (k, p) props -> exists d, xunser f e (p_type p) d = Ok x).
  { intros k x p Hin Hp. destruct (Hvals k x Hin) as (p' & d & Hp' & Hd).
    assert (p' = p).
    { apply (In_alookup_nodup _ _ _ Hndp) in Hp. apply (In_alookup_nodup _ _ _ Hndp) in Hp'. congruence. }
    subst p'. eauto. }
  destruct (xto_struct_extract e props si Hdesc r2 n Hnd Hkeys) as (sv & Harg & Hext); [|exact Hto|].
  { intros k x p Hin Hp. destruct (Hval k x p Hin Hp) as (d & Hd). apply (Hch (k, p) d x Hp Hd). }
  pose proof (proj1 (xcheck_rules_ok _ _) Hrules) as Hr.
  (* the three readings of the extraction *)
  assert (E1 : forall np, In np props -> alookup (fst np) r2 = None -> xfield_value e si sv np = None).
  { intros np Hin Hn. specialize (Hext np Hin). rewrite Hn in Hext. apply Hext.
    destruct np as [k p]. specialize (Hr k p Hin). unfold xrule_holds in Hr. cbn [fst] in Hn.
    assert (Ha : amem k r2 = false) by (now apply amem_false). rewrite Ha in Hr. destruct Hr as (Hreq & _).
    pose proof (xd_opt e props si Hdesc (k, p) Hin) as Ho. apply andb_prop in Ho as [Ho _]. cbn [snd] in Ho.
    rewrite Hreq in Ho. cbn [orb] in Ho.
    destruct (xhas_default e (k, p)) eqn:Ed; [|exact Ho].
    pose proof (Hdef (k, p) Hin Ed) as Hm. cbn [fst] in Hm. congruence. }
  assert (E2 : forall np x, In np props -> xfield_value e si sv np = Some x -> alookup (fst np) r2 = Some x).
  { intros np x Hin Hx. destruct (alookup (fst np) r2) as [x0|] eqn:Ea.
    - specialize (Hext np Hin). rewrite Ea in Hext. destruct Hext as [H | [H _]]; congruence.
    - rewrite (E1 np Hin Ea) in Hx. discriminate. }
  assert (E3 : forall np x, In np props -> alookup (fst np) r2 = Some x -> xfield_value e si sv np = None ->
                p_empty_is_default (snd np) = true).
  { intros np x Hin Ha Hx. specialize (Hext np Hin). rewrite Ha in Hext. destruct Hext as [H | [_ H]]; congruence. }
  assert (Hf : has_fields si props).
  { intros np Hin. destruct (xd_sfs e props si Hdesc) as (sfs & _ & Hft).
    destruct (xd_field e props si sfs np Hft Hin) as (fr & _ & _ & Hfr & _). congruence. }
  (* the rules on the set of present properties *)
  assert (Hrules' : forall name p, In (name, p) props ->
            xrule_holds (fun k => amem k (xpresent e si sv props)) name p).
  { intros name p Hin.
    apply (xrule_transfer props (fun k => amem k r2) (fun k => amem k (xpresent e si sv props))); [| | |exact Hin|apply Hr; exact Hin].
    - intros k Hk. apply xr_amem_in in Hk. apply xpresent_in in Hk as (np & x & Hnp & <- & Hx).
      apply E2 in Hx; [|exact Hnp]. unfold amem. rewrite Hx. reflexivity.
    - intros k Hk Hk' q Hq. apply amem_alookup in Hk as (x & Hx).
      assert (Hnone : xfield_value e si sv (k, q) = None).
      { destruct (xfield_value e si sv (k, q)) as [y|] eqn:Ey; [|reflexivity]. exfalso.
        assert (amem k (xpresent e si sv props) = true); [|congruence].
        apply xr_amem_in. apply xpresent_in. exists (k, q), y. auto. }
      pose proof (E3 (k, q) x Hq Hx Hnone) as He.
      pose proof (xd_opt e props si Hdesc (k, q) Hq) as Ho. apply andb_prop in Ho as [_ Ho].
      destruct (xempty_ok_spec props (k, q) Ho He) as (H1 & H2 & H3 & _). auto.
    - intros k Hk Hk' nm q Hq. apply amem_alookup in Hk as (x & Hx).
      destruct (alookup k props) as [pk|] eqn:Epk.
      2: { exfalso. apply alookup_None_notin in Epk. apply Epk. apply Hkeys. apply alookup_In in Hx.
           apply in_map_iff. exists (k, x). auto. }
      apply alookup_In in Epk.
      assert (Hnone : xfield_value e si sv (k, pk) = None).
      { destruct (xfield_value e si sv (k, pk)) as [y|] eqn:Ey; [|reflexivity]. exfalso.
        assert (amem k (xpresent e si sv props) = true); [|congruence].
        apply xr_amem_in. apply xpresent_in. exists (k, pk), y. auto. }
      pose proof (E3 (k, pk) x Epk Hx Hnone) as He.
      pose proof (xd_opt e props si Hdesc (k, pk) Epk) as Ho. apply andb_prop in Ho as [_ Ho].
      destruct (xempty_ok_spec props (k, pk) Ho He) as (_ & _ & _ & H4). exact (H4 nm q Hq). }
  (* every present value is the result of its property type's Unserialize *)
  assert (Hchild : forall np x, In np props -> xfield_value e si sv np = Some x ->
            xvalidate f' e (p_type (snd np)) x = Ok tt /\ exists y, xserialize f' e (p_type (snd np)) x = Ok y).
  { intros [k p] x Hin Hx. apply (E2 _ _ Hin) in Hx. cbn [fst] in Hx. apply alookup_In in Hx.
    destruct (Hval k x p Hx Hin) as (d & Hd). destruct (Hch (k, p) d x Hin Hd) as (_ & Hv & Hs). auto. }
  split.
  - apply (xvalidate_struct_iff words pu _ _ _ _ _ _ _ Hf). exists sv. split; [exact Harg|]. split; [exact Hrules'|].
    intros np x Hin Hx. apply (Hchild np x Hin Hx).
  - apply (xserialize_struct_iff words pu _ _ _ _ _ _ _ Hf). exists sv. split; [exact Harg|]. split; [exact Hrules'|].
    intros np x Hin Hx. apply (Hchild np x Hin Hx).
Qed.

End Shape.

Print Assumptions x_struct_roundtrip_partial.
