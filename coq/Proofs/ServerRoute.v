(* Proofs/ServerRoute.v — the server half of C05's protocol layer: a work-done message for run id r
   with output id o is only ever written for an execution that the server started for a work-start
   with run id r and whose behaviour is `BSuccess o`: the server never fabricates a result and never
   puts one run's output under another run id, whatever the schedule and however many runs overlap. *)
From Coq Require Import Lia.
From Verif Require Import Base.Prelude Base.Str ATP.Msg ATP.Server Proofs.ServerInv.
Open Scope string_scope.
Open Scope list_scope.
Open Scope nat_scope.

Definition has_step (ws : list worker) (r : runid) (st : stepid) (tok : Z) : Prop :=
  exists i w, nth_error ws i = Some w /\ w_run w = r /\ w_kind w = KStep st tok.

Lemma nth_error_upd_nth_other {A} : forall (l : list A) i j x, i <> j -> nth_error (upd_nth i x l) j = nth_error l j.
Proof.
  induction l as [|a l IH]; intros [|i] [|j] x H; simpl; auto; try congruence.
Qed.

Lemma nth_error_upd_nth_same {A} : forall (l : list A) i x y, nth_error l i = Some y -> nth_error (upd_nth i x l) i = Some x.
Proof. induction l as [|a l IH]; intros [|i] x y H; simpl in *; try discriminate; eauto. Qed.

Lemma has_step_app ws w r st tok : has_step ws r st tok -> has_step (ws ++ [w]) r st tok.
Proof.
  intros (i & x & Hn & H). exists i, x. split; [|exact H].
  rewrite nth_error_app1; [exact Hn|]. apply nth_error_Some. congruence.
Qed.

Lemma has_step_upd ws i wk wr wp pc r st tok :
  nth_error ws i = Some (mkW wk wr wp) -> has_step ws r st tok -> has_step (upd_nth i (mkW wk wr pc) ws) r st tok.
Proof.
  intros Hn (j & x & Hj & Hr & Hk). destruct (Nat.eq_dec i j) as [->|Hne].
  - rewrite Hn in Hj. inversion Hj; subst x. exists j, (mkW wk wr pc). split; [eapply nth_error_upd_nth_same; eauto|]. auto.
  - exists j, x. split; [rewrite nth_error_upd_nth_other; auto|]. auto.
Qed.

(* what a written (or lost) message must be backed by *)
Definition done_ok (c : cfg) (ws : list worker) (m : omsg) : Prop :=
  match m with
  | ODone r o => exists st tok, has_step ws r st tok /\ step_outcome c st tok = BSuccess o
  | _ => True
  end.

(* a goroutine about to write work-done(o) executes a step whose behaviour is BSuccess o *)
Definition senders_ok (c : cfg) (ws : list worker) : Prop :=
  forall i w o, nth_error ws i = Some w -> w_pc w = WSendDone o ->
    exists st tok, w_kind w = KStep st tok /\ step_outcome c st tok = BSuccess o.

Lemma done_ok_app c ws w l : Forall (done_ok c ws) l -> Forall (done_ok c (ws ++ [w])) l.
Proof.
  apply Forall_impl. intros [|r o|e] H; simpl in *; auto.
  destruct H as (st & tok & Hs & Ho). exists st, tok. split; [apply has_step_app|]; auto.
Qed.

Lemma done_ok_upd c ws i wk wr wp pc l :
  nth_error ws i = Some (mkW wk wr wp) -> Forall (done_ok c ws) l -> Forall (done_ok c (upd_nth i (mkW wk wr pc) ws)) l.
Proof.
  intros Hn. apply Forall_impl. intros [|r o|e] H; simpl in *; auto.
  destruct H as (st & tok & Hs & Ho). exists st, tok. split; [eapply has_step_upd; eauto|]; auto.
Qed.

Lemma senders_ok_app c ws w : senders_ok c ws -> w_pc w = WCall -> senders_ok c (ws ++ [w]).
Proof.
  intros H Hw i x o Hn Hp.
  destruct (Nat.lt_ge_cases i (List.length ws)) as [Hlt|Hge].
  - rewrite nth_error_app1 in Hn by exact Hlt. eapply H; eauto.
  - rewrite nth_error_app2 in Hn by exact Hge.
    destruct (i - List.length ws) as [|k]; simpl in Hn.
    + inversion Hn; subst x. congruence.
    + destruct k; discriminate Hn.
Qed.

Lemma senders_ok_upd c ws i wk wr wp pc :
  senders_ok c ws -> nth_error ws i = Some (mkW wk wr wp) ->
  (forall o, pc = WSendDone o -> exists st tok, wk = KStep st tok /\ step_outcome c st tok = BSuccess o) ->
  senders_ok c (upd_nth i (mkW wk wr pc) ws).
Proof.
  intros H Hn Hpc j x o Hj Hp. destruct (Nat.eq_dec i j) as [->|Hne].
  - erewrite nth_error_upd_nth_same in Hj by eauto. inversion Hj; subst x. simpl in *. apply Hpc. exact Hp.
  - rewrite nth_error_upd_nth_other in Hj by auto. eapply H; eauto.
Qed.

Lemma done_new c ws i wk wr o pc :
  senders_ok c ws -> nth_error ws i = Some (mkW wk wr (WSendDone o)) ->
  done_ok c (upd_nth i (mkW wk wr pc) ws) (ODone wr o).
Proof.
  intros H Hn. destruct (H i _ o Hn eq_refl) as (st & tok & Hk & Ho). simpl in Hk. subst wk.
  exists st, tok. split; [|exact Ho].
  exists i, (mkW (KStep st tok) wr pc). split; [eapply nth_error_upd_nth_same; eauto|]. auto.
Qed.

Definition RouteInv (c : cfg) (s : state) : Prop :=
  Forall (done_ok c (workers s)) (out s) /\ Forall (done_ok c (workers s)) (lost s) /\ senders_ok c (workers s).

Lemma route_init c : RouteInv c init.
Proof. repeat split; try constructor. intros i w o Hn. destruct i; discriminate Hn. Qed.

Ltac route_fin :=
  repeat split;
  repeat match goal with
  | |- Forall _ (_ ++ [_]) => apply Forall_app; split; [|constructor; [|constructor]]
  end;
  simpl done_ok; auto;
  try (apply done_ok_app; assumption);
  try (apply senders_ok_app; [assumption | reflexivity]);
  try (eapply done_ok_upd; eassumption);
  try (eapply done_new; eassumption);
  try (eapply senders_ok_upd; [eassumption | eassumption | intros ? Hq; try discriminate Hq; inversion Hq; subst; eauto]).

Lemma route_step c s l s' : RouteInv c s -> step c s l = Some s' -> RouteInv c s'.
Proof.
  intros I H. des s. unfold RouteInv in *. flat. destruct I as (Ho & Hl & Hs).
  destruct l as [ev|t| | | |rv|i]; unf_step; flat; destruct crashed0; try discriminate H.
  - inversion H; subst; flat; auto.
  - inversion H; subst; flat; auto.
  - inversion H; subst; flat; auto.
  - inversion H; subst; flat; auto.
  - brk; route_fin.
  - brk; route_fin.
  - worker_cases H. brk; route_fin.
Qed.

Lemma route_reachable c s : reachable c s -> RouteInv c s.
Proof. apply reachable_invariant; [apply route_init | apply route_step]. Qed.

(* every step goroutine executes a work-start the read loop has consumed, under that message's run id *)
Definition from_ws (h : list (event Z)) (w : worker) : Prop :=
  match w_kind w with
  | KStep st tok => In (EvMsg (WorkStart (w_run w) st tok)) h
  | KSignal _ _ _ => True
  end.
Definition workers_from (h : list (event Z)) (ws : list worker) : Prop :=
  forall j w, nth_error ws j = Some w -> from_ws h w.

Lemma workers_from_mono h ev ws : workers_from h ws -> workers_from (h ++ [ev]) ws.
Proof.
  intros H j w Hn. specialize (H j w Hn). unfold from_ws in *. destruct (w_kind w); auto. apply in_or_app. auto.
Qed.

Lemma workers_from_app h ws w : workers_from h ws -> from_ws h w -> workers_from h (ws ++ [w]).
Proof.
  intros H Hw j x Hn.
  destruct (Nat.lt_ge_cases j (List.length ws)) as [Hlt|Hge].
  - rewrite nth_error_app1 in Hn by exact Hlt. eapply H; eauto.
  - rewrite nth_error_app2 in Hn by exact Hge.
    destruct (j - List.length ws) as [|k]; simpl in Hn.
    + inversion Hn; subst x. exact Hw.
    + destruct k; discriminate Hn.
Qed.

Lemma workers_from_upd h ws i wk wr wp pc :
  workers_from h ws -> nth_error ws i = Some (mkW wk wr wp) -> workers_from h (upd_nth i (mkW wk wr pc) ws).
Proof.
  intros H Hn j x Hj. destruct (Nat.eq_dec i j) as [->|Hne].
  - erewrite nth_error_upd_nth_same in Hj by eauto. inversion Hj; subst x. exact (H j _ Hn).
  - rewrite nth_error_upd_nth_other in Hj by auto. eapply H; eauto.
Qed.

Definition WsInv (s : state) : Prop := workers_from (hist s) (workers s).

Lemma ws_step c s l s' : WsInv s -> step c s l = Some s' -> WsInv s'.
Proof.
  intros I H. des s. unfold WsInv in *. flat.
  destruct l as [ev|t| | | |rv|i]; unf_step; flat; destruct crashed0; try discriminate H.
  - inversion H; subst; flat; auto.
  - inversion H; subst; flat; auto.
  - inversion H; subst; flat; auto.
  - inversion H; subst; flat; auto.
  - brk; auto;
      try (apply workers_from_app; [apply workers_from_mono; assumption | unfold from_ws; flat; auto; apply in_or_app; right; left; reflexivity]);
      try (apply workers_from_mono; assumption).
  - brk; auto.
  - worker_cases H. brk; auto; try (eapply workers_from_upd; eassumption).
Qed.

Lemma ws_reachable c s : reachable c s -> WsInv s.
Proof. apply reachable_invariant; [intros j w Hn; destruct j; discriminate Hn | apply ws_step]. Qed.

(* the statement used by Properties/C05.v *)
Lemma c05_server_routes : forall (c : cfg) (ls : list label) (r : runid) (o : string),
  let s := run c init ls in
  In (ODone r o) (out s) ->
  exists st tok, In (EvMsg (WorkStart r st tok)) (hist s) /\ step_outcome c st tok = BSuccess o.
Proof.
  intros c ls r o s Hin.
  destruct (route_reachable c s (reach_run c ls)) as (Ho & _ & _).
  rewrite Forall_forall in Ho. specialize (Ho _ Hin). simpl in Ho.
  destruct Ho as (st & tok & (i & w & Hn & Hr & Hk) & Hb). exists st, tok. split; [|exact Hb].
  pose proof (ws_reachable c s (reach_run c ls) i w Hn) as Hw. unfold from_ws in Hw. rewrite Hk, Hr in Hw. exact Hw.
Qed.
