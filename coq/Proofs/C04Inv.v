(* Proofs/C04Inv.v — the node invariant behind wf_schema / no_inline_cycle / defaults_total:
   `all_env P e /\ all_nodes P e s` is preserved by every move an operation makes through the
   schema (sub-term, scope entry, reference resolution).  Plus the basic facts about `chain`
   and `vdepth` the totality proof needs. *)
From Coq Require Import Lia.
From Verif Require Import Base.Prelude Base.Str Base.Float Base.GoVal
  Schema.Regex Schema.Units Schema.Syntax Schema.Ops Schema.Wf Schema.Total.

Lemma alookup_in {A} k (l : list (string * A)) v : alookup k l = Some v -> In (k, v) l.
Proof.
  induction l as [|[k' v'] t IH]; cbn; [discriminate|].
  destruct (String.eqb k k') eqn:E.
  - apply String.eqb_eq in E. subst. intros H; inversion H; subst. now left.
  - intros H. right. now apply IH.
Qed.

Lemma is_str_any_map_some v kvs : is_str_any_map v = Some kvs -> exists t b, v = VMap t b kvs.
Proof.
  unfold is_str_any_map. destruct v; try discriminate. destruct (gtype_eqb t t_str_map); [|discriminate].
  intros H; inversion H; subst. eauto.
Qed.

Section Inv.
Variable P : env -> schema -> bool.

Definition Inv (e : env) (s : schema) : Prop := all_env P e = true /\ all_nodes P e s = true.

Lemma all_nodes_here e s : all_nodes P e s = true -> P e s = true.
Proof. destruct s; cbn; intros H; apply andb_prop in H; tauto. Qed.

Lemma inv_here e s : Inv e s -> P e s = true.
Proof. intros [_ H]. now apply all_nodes_here. Qed.

Lemma inv_list e it mn mx : Inv e (SList it mn mx) -> Inv e it.
Proof. intros [He H]. cbn in H. apply andb_prop in H. split; tauto. Qed.

Lemma inv_map_k e k v mn mx : Inv e (SMap k v mn mx) -> Inv e k.
Proof. intros [He H]. cbn in H. apply andb_prop in H as [_ H]. apply andb_prop in H. split; tauto. Qed.

Lemma inv_map_v e k v mn mx : Inv e (SMap k v mn mx) -> Inv e v.
Proof. intros [He H]. cbn in H. apply andb_prop in H as [_ H]. apply andb_prop in H. split; tauto. Qed.

Lemma inv_prop e id u props np : Inv e (SObject id u props) -> In np props -> Inv e (p_type (snd np)).
Proof.
  intros [He H] Hin. cbn in H. apply andb_prop in H as [_ H].
  rewrite forallb_forall in H. split; [exact He|]. now apply H.
Qed.

Lemma inv_member e types ik fld inld km : Inv e (SOneOf types ik fld inld) -> In km types -> Inv e (snd km).
Proof.
  intros [He H] Hin. cbn in H. apply andb_prop in H as [_ H].
  rewrite forallb_forall in H. split; [exact He|]. now apply H.
Qed.

Lemma all_tab_enter e objs tab : all_tab P (env_enter e objs) tab = all_tab P e tab.
Proof. reflexivity. Qed.

Lemma all_env_enter e tab :
  forallb (fun nt => all_tab P e (snd nt)) (e_ext e) = true ->
  all_tab P e tab = true -> all_env P (env_enter e tab) = true.
Proof.
  intros Hx Ht. unfold all_env. cbn [e_self e_ext env_enter]. apply andb_true_intro. split; [exact Ht|].
  rewrite forallb_forall in *. intros nt Hin. rewrite all_tab_enter. now apply Hx.
Qed.

Lemma inv_scope e objs root o : Inv e (SScope objs root) -> alookup root objs = Some o -> Inv (env_enter e objs) o.
Proof.
  intros [He H] Hl. cbn in H. apply andb_prop in H as [_ H].
  unfold all_env in He. apply andb_prop in He as [_ Hx].
  split.
  - now apply all_env_enter.
  - rewrite forallb_forall in H. apply alookup_in in Hl. now apply (H (root, o)).
Qed.

Lemma inv_resolve e id ns o e' : all_env P e = true -> resolve e id ns = Some (o, e') -> Inv e' o.
Proof.
  intros He Hr. unfold resolve in Hr. pose proof He as He0.
  unfold all_env in He. apply andb_prop in He as [Hs Hx].
  destruct (String.eqb ns "").
  - destruct (alookup id (e_self e)) eqn:El; [|discriminate]. inversion Hr; subst.
    split; [exact He0|]. rewrite forallb_forall in Hs. apply alookup_in in El. now apply (Hs (id, o)).
  - destruct (alookup ns (e_ext e)) as [tab|] eqn:En; [|discriminate].
    destruct (alookup id tab) eqn:El; [|discriminate]. inversion Hr; subst.
    assert (Ht : all_tab P e tab = true).
    { rewrite forallb_forall in Hx. apply alookup_in in En. now apply (Hx (ns, tab)). }
    split.
    + now apply all_env_enter.
    + unfold all_tab in Ht. rewrite forallb_forall in Ht. apply alookup_in in El. now apply (Ht (id, o)).
Qed.

Lemma inv_ref e id ns d o e' : Inv e (SRef id ns d) -> resolve e id ns = Some (o, e') -> Inv e' o.
Proof. intros [He _]. now apply inv_resolve. Qed.

End Inv.

(* ---------- structural induction over the nested schema type ---------- *)
Definition is_leaf (s : schema) : bool :=
  match s with
  | SList _ _ _ | SMap _ _ _ _ | SObject _ _ _ | SOneOf _ _ _ _ | SScope _ _ => false
  | _ => true
  end.

Section SchemaInd.
Variable Q : schema -> Prop.
Hypothesis HLeaf : forall s, is_leaf s = true -> Q s.
Hypothesis HList : forall it mn mx, Q it -> Q (SList it mn mx).
Hypothesis HMap : forall k v mn mx, Q k -> Q v -> Q (SMap k v mn mx).
Hypothesis HObj : forall id u props, Forall (fun np => Q (p_type (snd np))) props -> Q (SObject id u props).
Hypothesis HOne : forall types ik f inld, Forall (fun km => Q (snd km)) types -> Q (SOneOf types ik f inld).
Hypothesis HScope : forall objs root, Forall (fun io => Q (snd io)) objs -> Q (SScope objs root).

Fixpoint schema_ind' (s : schema) : Q s :=
  match s with
  | SList it mn mx => HList it mn mx (schema_ind' it)
  | SMap k v mn mx => HMap k v mn mx (schema_ind' k) (schema_ind' v)
  | SObject id u props =>
      HObj id u props
        ((fix go (l : list (string * property_ schema)) : Forall (fun np => Q (p_type (snd np))) l :=
            match l with
            | [] => Forall_nil _
            | np :: t => Forall_cons np (schema_ind' (p_type (snd np))) (go t)
            end) props)
  | SOneOf types ik f inld =>
      HOne types ik f inld
        ((fix go (l : list (okey * schema)) : Forall (fun km => Q (snd km)) l :=
            match l with
            | [] => Forall_nil _
            | km :: t => Forall_cons km (schema_ind' (snd km)) (go t)
            end) types)
  | SScope objs root =>
      HScope objs root
        ((fix go (l : list (string * schema)) : Forall (fun io => Q (snd io)) l :=
            match l with
            | [] => Forall_nil _
            | io :: t => Forall_cons io (schema_ind' (snd io)) (go t)
            end) objs)
  | s0 => HLeaf s0 eq_refl
  end.
End SchemaInd.

(* conjunction of local predicates *)
Lemma forallb_ext_in {A} (f g : A -> bool) l :
  Forall (fun x => f x = g x) l -> forallb f l = forallb g l.
Proof. induction 1; cbn; congruence. Qed.

Lemma forallb_andb {A} (f g : A -> bool) l :
  forallb (fun x => f x && g x) l = forallb f l && forallb g l.
Proof.
  induction l as [|x t IH]; cbn; [reflexivity|]. rewrite IH.
  destruct (f x), (g x), (forallb f t), (forallb g t); reflexivity.
Qed.

Lemma all_nodes_and P Q s : forall e,
  all_nodes (fun e s => P e s && Q e s) e s = all_nodes P e s && all_nodes Q e s.
Proof.
  induction s using schema_ind'; intros e.
  - destruct s; try discriminate; cbn; destruct (P e _), (Q e _); reflexivity.
  - cbn. rewrite IHs. destruct (P e _), (Q e _), (all_nodes P e s), (all_nodes Q e s); reflexivity.
  - cbn. rewrite IHs1, IHs2.
    destruct (P e _), (Q e _), (all_nodes P e s1), (all_nodes Q e s1), (all_nodes P e s2), (all_nodes Q e s2); reflexivity.
  - cbn.
    rewrite (forallb_ext_in _ (fun np => all_nodes P e (p_type (snd np)) && all_nodes Q e (p_type (snd np))) props).
    + rewrite forallb_andb. destruct (P e _), (Q e _), (forallb _ props), (forallb _ props); reflexivity.
    + eapply Forall_impl; [|exact H]. intros np Hnp. apply Hnp.
  - cbn.
    rewrite (forallb_ext_in _ (fun km => all_nodes P e (snd km) && all_nodes Q e (snd km)) types).
    + rewrite forallb_andb. destruct (P e _), (Q e _), (forallb _ types), (forallb _ types); reflexivity.
    + eapply Forall_impl; [|exact H]. intros km Hkm. apply Hkm.
  - cbn.
    rewrite (forallb_ext_in _ (fun io => all_nodes P (env_enter e objs) (snd io) && all_nodes Q (env_enter e objs) (snd io)) objs).
    + rewrite forallb_andb. destruct (P e _), (Q e _), (forallb _ objs), (forallb _ objs); reflexivity.
    + eapply Forall_impl; [|exact H]. intros io Hio. apply Hio.
Qed.

Lemma all_env_iff P e :
  all_env P e = true <->
  (forall io, In io (e_self e) -> all_nodes P e (snd io) = true) /\
  (forall nt, In nt (e_ext e) -> forall io, In io (snd nt) -> all_nodes P (env_enter e (snd nt)) (snd io) = true).
Proof.
  unfold all_env, all_tab. rewrite andb_true_iff, !forallb_forall.
  split; intros [H1 H2]; split; auto.
  - intros nt Hnt. specialize (H2 nt Hnt). now rewrite forallb_forall in H2.
  - intros nt Hnt. rewrite forallb_forall. now apply H2.
Qed.

Lemma inv_and P Q e s :
  Inv (fun e s => P e s && Q e s) e s <-> Inv P e s /\ Inv Q e s.
Proof.
  unfold Inv. rewrite all_nodes_and, andb_true_iff, !all_env_iff.
  split.
  - intros [[H1 H2] [H3 H4]]. repeat split; auto.
    + intros io Hio. specialize (H1 io Hio). rewrite all_nodes_and in H1. apply andb_prop in H1. tauto.
    + intros nt Hnt io Hio. specialize (H2 nt Hnt io Hio). rewrite all_nodes_and in H2. apply andb_prop in H2. tauto.
    + intros io Hio. specialize (H1 io Hio). rewrite all_nodes_and in H1. apply andb_prop in H1. tauto.
    + intros nt Hnt io Hio. specialize (H2 nt Hnt io Hio). rewrite all_nodes_and in H2. apply andb_prop in H2. tauto.
  - intros [[[H1 H2] H3] [[H4 H5] H6]]. repeat split; auto.
    + intros io Hio. rewrite all_nodes_and. apply andb_true_intro. split; auto.
    + intros nt Hnt io Hio. rewrite all_nodes_and. apply andb_true_intro. split; auto.
Qed.

(* ---------- chain ---------- *)
Lemma chain_le : forall n b e s c, chain n b e s = Some c -> (c <= n)%nat.
Proof.
  induction n as [|n IH]; intros b e s c H; [discriminate|].
  cbn in H.
  assert (Hs : forall o, osucc o = Some c -> (forall c', o = Some c' -> (c' <= n)%nat) -> (c <= S n)%nat).
  { intros [c'|] Ho Hc; [|discriminate]. inversion Ho; subst. specialize (Hc c' eq_refl). lia. }
  destruct s; try (inversion H; subst; lia).
  - destruct b; [inversion H; lia|].
    destruct props as [|[n0 p] [|]]; try (inversion H; lia).
    eapply Hs; [exact H|]. intros c' Hc'. eapply IH; eauto.
  - destruct b; [|inversion H; lia].
    eapply Hs; [exact H|]. clear H. induction types as [|km t IHt]; cbn; intros c' Hc'.
    + inversion Hc'. subst. lia.
    + unfold omax in Hc'. destruct (chain n true e (snd km)) eqn:E1; [|discriminate].
      destruct (fold_right _ _ t) eqn:E2; [|discriminate]. inversion Hc'; subst.
      apply IH in E1. specialize (IHt _ eq_refl). lia.
  - destruct (resolve e id ns) as [[o e']|]; [|inversion H; lia].
    eapply Hs; [exact H|]. intros c' Hc'. eapply IH; eauto.
  - destruct (alookup root objs); [|inversion H; lia].
    eapply Hs; [exact H|]. intros c' Hc'. eapply IH; eauto.
Qed.
