(* Proofs/C02NoCollide.v — the "result" half of C02 under the INPUT-level hypothesis of DESIGN §5:
   no two raw keys of a map denote the same native key (anywhere in the value).  Then what
   Unserialize accepts is native, satisfies every declared constraint - the minimum size of maps
   included - and passes Validate and Serialize. *)
From Coq Require Import Lia.
From Verif Require Import Base.Prelude Base.Str Base.Float Base.GoVal
  Schema.Regex Schema.Units Schema.Syntax Schema.Ops Schema.Spec Proofs.C02Scalars Proofs.C02Containers.
Open Scope Z_scope.
Open Scope list_scope.

Lemma map_built_impl2 (PK PV : gval -> Prop) (RK RV RK' RV' : gval -> gval -> Prop) kvs acc r :
  Forall (fun kv => PK (fst kv) /\ PV (snd kv)) kvs ->
  (forall x y, PK x -> RK x y -> RK' x y) -> (forall x y, PV x -> RV x y -> RV' x y) ->
  map_built RK RV kvs acc r -> map_built RK' RV' kvs acc r.
Proof.
  intros HP HK HV H. induction H as [|k v t acc k' v' r Hk Hv Hrest IH]; [constructor|].
  inversion HP as [|kv l [Pk Pv] Prest]; subst. cbn [fst snd] in *.
  econstructor; [apply HK; eassumption | apply HV; eassumption | apply IH; assumption].
Qed.

Section WithTables.
Variable words : list (string * bool).
Variable pu : units -> string -> option fl.
Notation accepts := (accepts words pu).

(* every map inside v keeps all its entries when read under s: whatever the entries denote, the map
   built from them has as many entries as the raw map (no two raw keys collapse) *)
Fixpoint no_collision (e : env) (s : schema) (v : gval) {struct s} : Prop :=
  match s with
  | SList it _ _ => match v with VSlice _ _ l => Forall (no_collision e it) l | _ => True end
  | SMap ks vs _ _ =>
      match v with
      | VMap _ _ kvs =>
          (forall r, map_built (accepts e ks) (accepts e vs) kvs [] r -> llen r = llen kvs) /\
          Forall (fun kv => no_collision e ks (fst kv) /\ no_collision e vs (snd kv)) kvs
      | _ => True
      end
  | _ => True
  end.

Theorem accepts_native_sat_nc : forall s, c02_schema s -> forall e v n,
  no_collision e s v -> accepts e s v n -> native s n /\ sat s n.
Proof.
  induction s as [mn mx u | mn mx u | mn mx pat | | | | vals u | named vals | it IHit mn mx | ks IHk vs IHv mn mx
                  | id un props | types ik field inl | id ns d | objs root];
    intros Hc e v n Hnc H; cbn [c02_schema] in Hc; try contradiction; cbn [Spec.accepts] in H; cbn [native sat].
  - destruct H as (z & -> & Hd & H1 & H2). apply int_denotes_in_i64 in Hd.
    split; [exists z; tauto | exists z; tauto].
  - destruct H as (x & -> & Hd & H1 & H2). split; [exists x; reflexivity | exists x; tauto].
  - destruct H as (t & -> & Hd & H1 & H2 & H3). split; [exists t; reflexivity | exists t; tauto].
  - destruct H as (b & -> & Hd). split; exists b; reflexivity.
  - destruct H as (t & -> & Hd & H1). split; exists t; reflexivity.
  - destruct H as (z & -> & Hd & H1). apply int_denotes_in_i64 in Hd.
    split; [exists z; tauto | exists z; tauto].
  - destruct H as (t & -> & Hd & H1). split; [exists t; reflexivity | exists t; tauto].
  - destruct H as (ty & nl & l & ns & -> & H1 & H2 & HF & ->). cbn [no_collision] in Hnc.
    assert (A : Forall (fun y => native it y /\ sat it y) ns).
    { clear H1 H2. induction HF as [|x y l ns Hxy Hrest IH]; [constructor|].
      inversion Hnc; subst. constructor; [eapply IHit; eassumption | apply IH; assumption]. }
    assert (L : llen ns = llen l).
    { unfold llen. f_equal. symmetry. eapply Forall2_len. exact HF. }
    split.
    + exists (TSlice (rtype it)), false, ns. split; [reflexivity|]. eapply Forall_impl; [|exact A]. cbn. tauto.
    + exists (TSlice (rtype it)), false, ns. rewrite L. repeat split; try assumption.
      eapply Forall_impl; [|exact A]. cbn. tauto.
  - destruct Hc as [Hck Hcv]. destruct H as (ty & nl & kvs & r & -> & H1 & H2 & HB & ->).
    cbn [no_collision] in Hnc. destruct Hnc as [Hlen Hch].
    assert (A : Forall (fun kv => (native ks (fst kv) /\ sat ks (fst kv)) /\ (native vs (snd kv) /\ sat vs (snd kv))) r).
    { assert (HB' : map_built (fun k k' => native ks k' /\ sat ks k') (fun x x' => native vs x' /\ sat vs x') kvs [] r).
      { eapply (map_built_impl2 (no_collision e ks) (no_collision e vs)); [exact Hch | | | exact HB];
          intros x y Hx Hxy; [eapply IHk | eapply IHv]; eassumption. }
      eapply map_built_forall; [| constructor | exact HB']. intros k v k' v' Hk Hv. cbv beta in Hk, Hv |- *. cbn [fst snd]. split; assumption. }
    rewrite <- (Hlen r HB) in H1, H2.
    split.
    + exists (TMap (rtype ks) (rtype vs)), false, r. split; [reflexivity|]. eapply Forall_impl; [|exact A]. cbn. tauto.
    + exists (TMap (rtype ks) (rtype vs)), false, r. repeat split; try assumption.
      eapply Forall_impl; [|exact A]. cbn. tauto.
Qed.

(* ---------- the hypothesis in its elementary form: pairwise different native keys ---------- *)
(* For every two entries of the raw map, the later one's key denotes a native key that Go's map
   assignment does not identify with the earlier one's (key_eqb is the map's key comparison; the
   argument order is the one map_set uses: new key first). *)
Definition distinct_keys (e : env) (ks : schema) (kvs : list (gval * gval)) : Prop :=
  forall l1 k1 x1 l2 k2 x2 l3 a b, kvs = l1 ++ (k1, x1) :: l2 ++ (k2, x2) :: l3 ->
    accepts e ks k1 a -> accepts e ks k2 b -> key_eqb b a = false.

Fixpoint distinct_everywhere (e : env) (s : schema) (v : gval) {struct s} : Prop :=
  match s with
  | SList it _ _ => match v with VSlice _ _ l => Forall (distinct_everywhere e it) l | _ => True end
  | SMap ks vs _ _ =>
      match v with
      | VMap _ _ kvs =>
          distinct_keys e ks kvs /\
          Forall (fun kv => distinct_everywhere e ks (fst kv) /\ distinct_everywhere e vs (snd kv)) kvs
      | _ => True
      end
  | _ => True
  end.

Lemma map_set_new k v l : Forall (fun kv : gval * gval => key_eqb k (fst kv) = false) l -> map_set k v l = l ++ [(k, v)].
Proof.
  induction l as [|[k0 v0] t IH]; intro H; [reflexivity|].
  inversion H as [|kv l' Hk Ht]; subst. cbn [fst] in Hk. cbn [map_set]. rewrite Hk, (IH Ht). reflexivity.
Qed.

Lemma map_built_len_distinct (RK RV : gval -> gval -> Prop) kvs acc r : map_built RK RV kvs acc r ->
  (forall l1 k x l2 b, kvs = l1 ++ (k, x) :: l2 -> RK k b -> Forall (fun kv => key_eqb b (fst kv) = false) acc) ->
  (forall l1 k1 x1 l2 k2 x2 l3 a b, kvs = l1 ++ (k1, x1) :: l2 ++ (k2, x2) :: l3 -> RK k1 a -> RK k2 b -> key_eqb b a = false) ->
  llen r = llen acc + llen kvs.
Proof.
  intro H. induction H as [acc | k v t acc k' v' r Hk Hv Hrest IH]; intros Hacc Hpair.
  - unfold llen. cbn [List.length]. lia.
  - assert (Hnew : map_set k' v' acc = acc ++ [(k', v')]).
    { apply map_set_new. exact (Hacc [] k v t k' eq_refl Hk). }
    rewrite Hnew in IH.
    assert (E : llen r = llen (acc ++ [(k', v')]) + llen t).
    { apply IH.
      - intros l1 k0 x0 l2 b Ht Hb. apply Forall_app. split.
        + apply (Hacc ((k, v) :: l1) k0 x0 l2 b); [rewrite Ht; reflexivity | exact Hb].
        + constructor; [|constructor]. cbn [fst].
          apply (Hpair [] k v l1 k0 x0 l2 k' b); [rewrite Ht; reflexivity | exact Hk | exact Hb].
      - intros l1 k1 x1 l2 k2 x2 l3 a b Ht Ha Hb.
        apply (Hpair ((k, v) :: l1) k1 x1 l2 k2 x2 l3 a b); [rewrite Ht; reflexivity | exact Ha | exact Hb]. }
    rewrite E. unfold llen. rewrite app_length. cbn [List.length]. lia.
Qed.

Theorem distinct_everywhere_no_collision : forall s e v, distinct_everywhere e s v -> no_collision e s v.
Proof.
  induction s as [mn mx u | mn mx u | mn mx pat | | | | vals u | named vals | it IHit mn mx | ks IHk vs IHv mn mx
                  | id un props | types ik field inl | id ns d | objs root];
    intros e v H; try exact I.
  - destruct v as [| t b | t z | t x | t s | t nl l | t nl l | t o | t fs | src | k d]; try exact I.
    cbn [no_collision distinct_everywhere] in *. eapply Forall_impl; [|exact H]. intros a Ha. apply IHit. exact Ha.
  - destruct v as [| t b | t z | t x | t s | t nl l | t nl l | t o | t fs | src | k d]; try exact I.
    cbn [no_collision distinct_everywhere] in *. destruct H as [Hd Hch]. split.
    + intros r HB.
      rewrite (map_built_len_distinct _ _ _ _ _ HB); [unfold llen; cbn [List.length]; lia | intros; constructor |].
      intros l1 k1 x1 l2 k2 x2 l3 a b Hl Ha Hb. exact (Hd l1 k1 x1 l2 k2 x2 l3 a b Hl Ha Hb).
    + eapply Forall_impl; [|exact Hch]. intros kv [Hk Hv]. split; [apply IHk | apply IHv]; assumption.
Qed.

Lemma result_is_denotation_nc s : c02_schema s -> forall f e v n,
  (sdepth s < f)%nat -> go_val v -> no_collision e s v -> unser words pu f e s v = Ok n ->
  accepts e s v n /\ native s n /\ sat s n.
Proof.
  intros Hc f e v n Hf Hg Hnc H. apply (unser_iff_accepts words pu s Hc f e v n Hf Hg) in H.
  split; [exact H | eapply accepts_native_sat_nc; eassumption].
Qed.

Lemma accepted_is_valid_nc s : c02_schema s -> forall f e v n,
  (sdepth s + 1 < f)%nat -> go_val v -> no_collision e s v -> unser words pu f e s v = Ok n ->
  validate words pu f e s n = Ok tt /\ exists w, serialize words pu f e s n = Ok w.
Proof.
  intros Hc f e v n Hf Hg Hnc H.
  assert (Hf' : (sdepth s < f)%nat) by lia.
  destruct (result_is_denotation_nc s Hc f e v n Hf' Hg Hnc H) as (_ & Hn & Hs).
  split; [apply validate_iff_sat; [exact Hc | lia | exact Hn | exact Hs]
         | apply serialize_iff_sat; [exact Hc | exact Hf | exact Hn | exact Hs]].
Qed.

End WithTables.
