(* Proofs/UnitsStringTok.v — the units template (Schema/Units.v: units_re) read through the
   declarative regexp semantics of UnitsStringRe.v:  a match of the template IS a
   tokenisation of the subject (useq), in both directions, with the capture list it builds. *)
From Coq Require Import Lia ZArith List Arith Bool.
From Verif Require Import Base.Prelude Base.Str Schema.Regex Schema.Units Proofs.UnitsStringRe.
Import ListNotations.
Open Scope nat_scope.
Open Scope list_scope.

Definition spaces (l : list ascii) : bool := forallb is_re_space l.

Lemma cls_digit_eq : forall c, cls_match false [("0"%char, "9"%char)] c = is_digit c.
Proof. intros [[] [] [] [] [] [] [] []]; vm_compute; reflexivity. Qed.

Lemma cls_space_eq : forall c,
  cls_match false [(" "%char, " "%char); (chrz 9, chrz 10); (chrz 12, chrz 13)] c = is_re_space c.
Proof. intros [[] [] [] [] [] [] [] []]; vm_compute; reflexivity. Qed.

Lemma all_digits_forallb : forall l, all_digits l = forallb is_digit l.
Proof. induction l as [|c l IH]; cbn [all_digits forallb]; [reflexivity | rewrite IH; reflexivity]. Qed.

Lemma forallb_ext_eq : forall (f g : ascii -> bool) l, (forall c, f c = g c) -> forallb f l = forallb g l.
Proof. intros f g l H. induction l as [|c l IH]; cbn [forallb]; [reflexivity | rewrite H, IH; reflexivity]. Qed.

(* ---------- Star / plus of a character class ---------- *)

Lemma star_cls_inv : forall w neg rs s s' cs cs',
  re_matches w (Star (Cls neg rs)) s s' cs cs' ->
  exists p, s = p ++ s' /\ forallb (cls_match neg rs) p = true /\ cs' = cs.
Proof.
  intros w neg rs s s' cs cs' M. remember (Star (Cls neg rs)) as r eqn:Er.
  induction M; try discriminate.
  - exists []. repeat split.
  - inversion Er; subst. inversion M1; subst.
    destruct (IHM2 eq_refl) as (p & E & F & C). subst.
    exists (x :: p). cbn [forallb app].
    match goal with Hc : cls_match _ _ _ = true |- _ => rewrite Hc end.
    repeat split. exact F.
Qed.

Lemma star_cls_intro : forall w neg rs p s' cs,
  forallb (cls_match neg rs) p = true -> re_matches w (Star (Cls neg rs)) (p ++ s') s' cs cs.
Proof.
  induction p as [|x p IH]; intros s' cs F; cbn [app].
  - constructor.
  - cbn [forallb] in F. apply andb_prop in F. destruct F as [Fx F].
    eapply RM_star1; [constructor; exact Fx | cbn [List.length]; lia | apply IH; exact F].
Qed.

Lemma plus_cls_inv : forall w neg rs s s' cs cs',
  re_matches w (plus (Cls neg rs)) s s' cs cs' ->
  exists p, p <> [] /\ s = p ++ s' /\ forallb (cls_match neg rs) p = true /\ cs' = cs.
Proof.
  intros w neg rs s s' cs cs' M. unfold plus in M. inversion M; subst.
  match goal with H1 : re_matches _ (Cls _ _) _ _ _ _ |- _ => inversion H1; subst end.
  match goal with H2 : re_matches _ (Star _) _ _ _ _ |- _ => apply star_cls_inv in H2; destruct H2 as (p & E & F & C) end.
  subst. exists (x :: p). cbn [forallb app].
  match goal with Hc : cls_match _ _ _ = true |- _ => rewrite Hc end.
  repeat split; [discriminate | exact F].
Qed.

Lemma plus_cls_intro : forall w neg rs p s' cs,
  p <> [] -> forallb (cls_match neg rs) p = true -> re_matches w (plus (Cls neg rs)) (p ++ s') s' cs cs.
Proof.
  intros w neg rs p s' cs Hne F. destruct p as [|x p]; [congruence|].
  cbn [forallb] in F. apply andb_prop in F. destruct F as [Fx F].
  unfold plus. cbn [app]. eapply RM_cat; [constructor; exact Fx | apply star_cls_intro; exact F].
Qed.

Lemma spaces_inv : forall w s s' cs cs',
  re_matches w (Star space_cls) s s' cs cs' -> exists p, s = p ++ s' /\ spaces p = true /\ cs' = cs.
Proof.
  intros w s s' cs cs' M. apply star_cls_inv in M. destruct M as (p & E & F & C).
  exists p. repeat split; auto. unfold spaces. rewrite (forallb_ext_eq _ _ p cls_space_eq) in F. exact F.
Qed.

Lemma spaces_intro : forall w p s' cs, spaces p = true -> re_matches w (Star space_cls) (p ++ s') s' cs cs.
Proof.
  intros w p s' cs F. apply star_cls_intro. rewrite (forallb_ext_eq _ _ p cls_space_eq). exact F.
Qed.

Lemma digits_inv : forall w s s' cs cs',
  re_matches w (plus digit_cls) s s' cs cs' -> exists p, p <> [] /\ s = p ++ s' /\ all_digits p = true /\ cs' = cs.
Proof.
  intros w s s' cs cs' M. apply plus_cls_inv in M. destruct M as (p & N & E & F & C).
  exists p. repeat split; auto. rewrite all_digits_forallb. rewrite (forallb_ext_eq _ _ p cls_digit_eq) in F. exact F.
Qed.

Lemma digits_intro : forall w p s' cs,
  p <> [] -> all_digits p = true -> re_matches w (plus digit_cls) (p ++ s') s' cs cs.
Proof.
  intros w p s' cs N F. apply plus_cls_intro; [exact N|]. rewrite (forallb_ext_eq _ _ p cls_digit_eq). rewrite <- all_digits_forallb. exact F.
Qed.

(* ---------- literals and alternatives ---------- *)

Lemma lit_l_cons : forall c l, lit_l (c :: l) = Cat (Chr c) (lit_l l).
Proof. reflexivity. Qed.

Lemma lit_l_inv : forall w l s s' cs cs', re_matches w (lit_l l) s s' cs cs' -> s = l ++ s' /\ cs' = cs.
Proof.
  induction l as [|c l IH]; intros s s' cs cs' M.
  - change (lit_l []) with Eps in M. inversion M; subst. split; reflexivity.
  - rewrite lit_l_cons in M. inversion M; subst.
    match goal with H1 : re_matches _ (Chr _) _ _ _ _ |- _ => inversion H1; subst end.
    match goal with H2 : re_matches _ (lit_l _) _ _ _ _ |- _ => apply IH in H2; destruct H2 as [E C] end.
    subst. split; reflexivity.
Qed.

Lemma lit_l_intro : forall w l s' cs, re_matches w (lit_l l) (l ++ s') s' cs cs.
Proof.
  induction l as [|c l IH]; intros s' cs.
  - change (lit_l []) with Eps. constructor.
  - rewrite lit_l_cons. cbn [app]. eapply RM_cat; [constructor | apply IH].
Qed.

Lemma alts_cons2 : forall x y t, alts (x :: y :: t) = Alt x (alts (y :: t)).
Proof. reflexivity. Qed.

Lemma alts_inv : forall w rs s s' cs cs',
  rs <> [] -> re_matches w (alts rs) s s' cs cs' -> exists r, In r rs /\ re_matches w r s s' cs cs'.
Proof.
  induction rs as [|x t IH]; intros s s' cs cs' N M; [congruence|].
  destruct t as [|y t'].
  - exists x. split; [left; reflexivity | exact M].
  - rewrite alts_cons2 in M. remember (alts (y :: t')) as r2 eqn:Er2. inversion M; subst.
    + exists x. split; [left; reflexivity | assumption].
    + match goal with H : re_matches _ (alts (y :: t')) _ _ _ _ |- _ => apply IH in H; [|discriminate]; destruct H as (r & I & R) end.
      exists r. split; [right; exact I | exact R].
Qed.

Lemma alts_intro : forall w rs r s s' cs cs',
  In r rs -> re_matches w r s s' cs cs' -> re_matches w (alts rs) s s' cs cs'.
Proof.
  induction rs as [|x t IH]; intros r s s' cs cs' I M; [destruct I|].
  destruct t as [|y t'].
  - destruct I as [E|[]]. subst. exact M.
  - rewrite alts_cons2. destruct I as [E|I].
    + subst. apply RM_altl. exact M.
    + apply RM_altr. eapply IH; eassumption.
Qed.

Lemma names_inv : forall w nms s s' cs cs',
  nms <> [] -> re_matches w (alts (map lit nms)) s s' cs cs' ->
  exists nm, In nm nms /\ s = chars nm ++ s' /\ cs' = cs.
Proof.
  intros w nms s s' cs cs' N M. apply alts_inv in M.
  - destruct M as (r & I & R). apply in_map_iff in I. destruct I as (nm & E & I). subst r.
    unfold lit in R. apply lit_l_inv in R. destruct R as [E C]. exists nm. auto.
  - destruct nms; [congruence | discriminate].
Qed.

Lemma names_intro : forall w nms nm s' cs,
  In nm nms -> re_matches w (alts (map lit nms)) (chars nm ++ s') s' cs cs.
Proof.
  intros w nms nm s' cs I. eapply alts_intro; [apply in_map; exact I|]. unfold lit. apply lit_l_intro.
Qed.

(* ---------- count tokens ---------- *)

(* the captured count: [0-9]+ for a multiplier group, [0-9]+(|\.[0-9]+) for the base group *)
Definition tok_re (fr : bool) : re :=
  if fr then Cat (plus digit_cls) (Alt Eps (Cat (Chr "."%char) (plus digit_cls))) else plus digit_cls.

Inductive utoken : bool -> list ascii -> Prop :=
| ut_int : forall fr ds, ds <> [] -> all_digits ds = true -> utoken fr ds
| ut_frac : forall ds fs, ds <> [] -> all_digits ds = true -> fs <> [] -> all_digits fs = true ->
    utoken true (ds ++ "."%char :: fs).

Lemma utoken_nonempty : forall fr tok, utoken fr tok -> tok <> [].
Proof.
  intros fr tok U. destruct U as [fr ds N _ | ds fs N _ _ _]; [exact N|].
  destruct ds; [congruence | discriminate].
Qed.

Lemma tok_re_inv : forall w fr s s' cs cs',
  re_matches w (tok_re fr) s s' cs cs' -> exists tok, s = tok ++ s' /\ utoken fr tok /\ cs' = cs.
Proof.
  intros w fr s s' cs cs' M. destruct fr; cbn [tok_re] in M.
  - inversion M; subst.
    match goal with H1 : re_matches _ (plus _) _ _ _ _ |- _ => apply digits_inv in H1; destruct H1 as (ds & N & E & F & C) end.
    subst.
    match goal with H2 : re_matches _ (Alt _ _) _ _ _ _ |- _ => inversion H2; subst end.
    + match goal with H3 : re_matches _ Eps _ _ _ _ |- _ => inversion H3; subst end.
      exists ds. repeat split. constructor; assumption.
    + match goal with H3 : re_matches _ (Cat _ _) _ _ _ _ |- _ => inversion H3; subst end.
      match goal with H4 : re_matches _ (Chr _) _ _ _ _ |- _ => inversion H4; subst end.
      match goal with H5 : re_matches _ (plus _) _ _ _ _ |- _ => apply digits_inv in H5; destruct H5 as (fs & N' & E' & F' & C') end.
      subst. exists (ds ++ "."%char :: fs). repeat split.
      * rewrite <- app_assoc. reflexivity.
      * constructor; assumption.
  - apply digits_inv in M. destruct M as (ds & N & E & F & C). exists ds. repeat split; auto. constructor; assumption.
Qed.

Lemma tok_re_intro : forall w fr tok s' cs, utoken fr tok -> re_matches w (tok_re fr) (tok ++ s') s' cs cs.
Proof.
  intros w fr tok s' cs U. destruct U as [fr ds N F | ds fs N F N' F'].
  - destruct fr; cbn [tok_re].
    + eapply RM_cat; [apply digits_intro; assumption | apply RM_altl; constructor].
    + apply digits_intro; assumption.
  - cbn [tok_re]. rewrite <- app_assoc. eapply RM_cat; [apply digits_intro; assumption|].
    apply RM_altr. cbn [app]. eapply RM_cat; [constructor | apply digits_intro; assumption].
Qed.

(* ---------- one part of the template ---------- *)

(* a part: capture key (the multiplier; 1 for the base unit), whether a fraction is allowed,
   the admissible names (for the base unit this list starts with the empty name) *)
Definition upart := (Z * bool * list string)%type.
Definition upart_key (p : upart) : Z := fst (fst p).

Definition part_re (p : upart) : re :=
  let '(k, fr, nms) := p in
  Alt Eps (Cat (Grp k (tok_re fr)) (Cat (Star space_cls) (alts (map lit nms)))).

(* segment of the subject matched by a part, and the captured token ([] = unit absent) *)
Inductive useg (fr : bool) (nms : list string) : list ascii -> list ascii -> Prop :=
| useg_absent : useg fr nms [] []
| useg_tok : forall tok sp nm, utoken fr tok -> spaces sp = true -> In nm nms ->
    useg fr nms (tok ++ sp ++ chars nm) tok.

Definition push1 (k : Z) (tok : list ascii) (cs : caps) : caps :=
  match tok with [] => cs | _ => (k, tok) :: cs end.

Lemma firstn_app_exact : forall (p q : list ascii), firstn (List.length (p ++ q) - List.length q) (p ++ q) = p.
Proof.
  intros p q. rewrite app_length. replace (List.length p + List.length q - List.length q) with (List.length p + 0) by lia.
  rewrite firstn_app_2. cbn [firstn]. apply app_nil_r.
Qed.

Lemma part_inv : forall w k fr nms s s' cs cs',
  nms <> [] -> re_matches w (part_re (k, fr, nms)) s s' cs cs' ->
  exists seg tok, s = seg ++ s' /\ useg fr nms seg tok /\ cs' = push1 k tok cs.
Proof.
  intros w k fr nms s s' cs cs' N M. cbn [part_re] in M. inversion M; subst.
  - match goal with H : re_matches _ Eps _ _ _ _ |- _ => inversion H; subst end.
    exists [], []. repeat split. constructor.
  - match goal with H : re_matches _ (Cat _ _) _ _ _ _ |- _ => inversion H; subst end.
    match goal with H : re_matches _ (Grp _ _) _ _ _ _ |- _ => inversion H; subst end.
    match goal with H : re_matches _ (tok_re _) _ _ _ _ |- _ => apply tok_re_inv in H; destruct H as (tok & E & U & C) end.
    subst.
    match goal with H : re_matches _ (Cat (Star _) _) _ _ _ _ |- _ => inversion H; subst end.
    match goal with H : re_matches _ (Star _) _ _ _ _ |- _ => apply spaces_inv in H; destruct H as (sp & E & F & C) end.
    subst.
    match goal with H : re_matches _ (alts _) _ _ _ _ |- _ => apply names_inv in H; [|exact N]; destruct H as (nm & I & E & C) end.
    subst. rewrite firstn_app_exact.
    exists (tok ++ sp ++ chars nm), tok. repeat split.
    + rewrite <- !app_assoc. reflexivity.
    + constructor; assumption.
    + unfold push1. pose proof (utoken_nonempty _ _ U). destruct tok; [congruence | reflexivity].
Qed.

Lemma part_intro : forall w k fr nms seg tok s' cs,
  useg fr nms seg tok -> re_matches w (part_re (k, fr, nms)) (seg ++ s') s' cs (push1 k tok cs).
Proof.
  intros w k fr nms seg tok s' cs U. cbn [part_re]. destruct U as [|tok sp nm U F I].
  - apply RM_altl. cbn [app push1]. constructor.
  - apply RM_altr. rewrite <- !app_assoc.
    replace (push1 k tok cs) with ((k, firstn (List.length (tok ++ sp ++ chars nm ++ s') - List.length (sp ++ chars nm ++ s')) (tok ++ sp ++ chars nm ++ s')) :: cs).
    + eapply RM_cat; [apply RM_grp; apply tok_re_intro; exact U|].
      eapply RM_cat; [apply spaces_intro; exact F | apply names_intro; exact I].
    + rewrite firstn_app_exact. unfold push1. pose proof (utoken_nonempty _ _ U). destruct tok; [congruence | reflexivity].
Qed.

(* ---------- the sequence of parts ---------- *)

(* subject = seg_1 sp_1 seg_2 sp_2 ... seg_k sp_k ; one token per part *)
Inductive useq : list upart -> list ascii -> list (list ascii) -> Prop :=
| useq_nil : useq [] [] []
| useq_cons : forall k fr nms ps seg tok sp s toks,
    useg fr nms seg tok -> spaces sp = true -> useq ps s toks ->
    useq ((k, fr, nms) :: ps) (seg ++ sp ++ s) (tok :: toks).

Lemma useq_length : forall ps s toks, useq ps s toks -> List.length toks = List.length ps.
Proof. intros ps s toks U. induction U; cbn [List.length]; congruence. Qed.

Definition push_caps (kts : list (Z * list ascii)) (cs : caps) : caps :=
  fold_left (fun acc kt => push1 (fst kt) (snd kt) acc) kts cs.

Definition parts_ok (ps : list upart) : Prop := Forall (fun p => snd p <> []) ps.

Lemma join_parts_cons2 : forall x y t, join_parts (x :: y :: t) = Cat x (Cat (Star space_cls) (join_parts (y :: t))).
Proof. reflexivity. Qed.

Lemma cat_inv : forall w a b s s2 cs cs2,
  re_matches w (Cat a b) s s2 cs cs2 ->
  exists s1 cs1, re_matches w a s s1 cs cs1 /\ re_matches w b s1 s2 cs1 cs2.
Proof. intros w a b s s2 cs cs2 M. inversion M; subst. eauto. Qed.

Lemma eol_inv : forall w s s' cs cs', re_matches w Eol s s' cs cs' -> s = [] /\ s' = [] /\ cs' = cs.
Proof. intros w s s' cs cs' M. inversion M; subst. auto. Qed.

Lemma bol_inv : forall w s s' cs cs', re_matches w Bol s s' cs cs' -> List.length s = w /\ s' = s /\ cs' = cs.
Proof. intros w s s' cs cs' M. inversion M; subst. auto. Qed.

Lemma tail_inv : forall w s s' cs cs',
  re_matches w (Cat (Star space_cls) Eol) s s' cs cs' -> spaces s = true /\ s' = [] /\ cs' = cs.
Proof.
  intros w s s' cs cs' M. apply cat_inv in M. destruct M as (s1 & cs1 & M1 & M2).
  apply spaces_inv in M1. destruct M1 as (sp & E & F & C). apply eol_inv in M2. destruct M2 as (E1 & E2 & C2).
  subst. rewrite app_nil_r. auto.
Qed.

Lemma join_tail_inv : forall w ps, ps <> [] -> parts_ok ps -> forall s s' cs cs',
  re_matches w (Cat (join_parts (map part_re ps)) (Cat (Star space_cls) Eol)) s s' cs cs' ->
  s' = [] /\ exists toks, useq ps s toks /\ cs' = push_caps (combine (map upart_key ps) toks) cs.
Proof.
  induction ps as [|p ps IH]; intros N OK s s' cs cs' M; [congruence|].
  inversion OK as [|? ? Hp OK']; subst. destruct p as [[k fr] nms]. cbn [snd] in Hp.
  destruct ps as [|q ps'].
  - change (join_parts (map part_re [(k, fr, nms)])) with (part_re (k, fr, nms)) in M.
    apply cat_inv in M. destruct M as (s1 & cs1 & M1 & M2).
    apply part_inv in M1; [|exact Hp]. destruct M1 as (seg & tok & E & U & C).
    apply tail_inv in M2. destruct M2 as (F & E2 & C2). subst.
    split; [reflexivity|]. exists [tok]. split.
    + replace (seg ++ s1) with (seg ++ s1 ++ []) by (rewrite app_nil_r; reflexivity).
      constructor; [exact U | exact F | constructor].
    + reflexivity.
  - change (map part_re ((k, fr, nms) :: q :: ps')) with (part_re (k, fr, nms) :: part_re q :: map part_re ps') in M.
    rewrite join_parts_cons2 in M.
    apply cat_inv in M. destruct M as (s3 & cs3 & M & Mt).
    apply cat_inv in M. destruct M as (s1 & cs1 & M1 & M).
    apply cat_inv in M. destruct M as (s2 & cs2 & M2 & M3).
    apply part_inv in M1; [|exact Hp]. destruct M1 as (seg & tok & E & U & C).
    apply spaces_inv in M2. destruct M2 as (sp & E2 & F & C2). subst.
    assert (M' : re_matches w (Cat (join_parts (map part_re (q :: ps'))) (Cat (Star space_cls) Eol)) s2 s' (push1 k tok cs) cs').
    { eapply RM_cat; eassumption. }
    apply IH in M'; [|discriminate|exact OK']. destruct M' as (E' & toks & U' & C').
    split; [exact E'|]. exists (tok :: toks). split.
    + constructor; assumption.
    + subst cs'. reflexivity.
Qed.

Lemma join_tail_intro : forall w ps s toks, useq ps s toks -> ps <> [] -> forall cs,
  re_matches w (Cat (join_parts (map part_re ps)) (Cat (Star space_cls) Eol)) s [] cs
    (push_caps (combine (map upart_key ps) toks) cs).
Proof.
  intros w ps s toks U. induction U as [|k fr nms ps seg tok sp s toks Us F U IH]; intros N cs; [congruence|].
  destruct ps as [|q ps'].
  - inversion U; subst. cbn [map join_parts combine upart_key fst push_caps fold_left snd].
    eapply RM_cat; [apply part_intro; exact Us|].
    eapply RM_cat; [apply spaces_intro; exact F | constructor].
  - change (map part_re ((k, fr, nms) :: q :: ps')) with (part_re (k, fr, nms) :: part_re q :: map part_re ps').
    rewrite join_parts_cons2.
    specialize (IH ltac:(discriminate) (push1 k tok cs)).
    apply cat_inv in IH. destruct IH as (s1 & cs1 & IH1 & IH2).
    change (push_caps (combine (map upart_key ((k, fr, nms) :: q :: ps')) (tok :: toks)) cs)
      with (push_caps (combine (map upart_key (q :: ps')) toks) (push1 k tok cs)).
    eapply RM_cat; [|exact IH2].
    eapply RM_cat; [apply part_intro; exact Us|].
    eapply RM_cat; [apply spaces_intro; exact F | exact IH1].
Qed.

(* ---------- the whole template ---------- *)

Definition uparts (u : units) : list upart :=
  map (fun mu => (fst mu, false, unit_names (snd mu))) (sorted_mults u)
  ++ [(1%Z, true, ""%string :: unit_names (u_base u))].

Lemma units_re_eq : forall u,
  units_re u = Cat Bol (Cat (Star space_cls)
                 (Cat (join_parts (map part_re (uparts u))) (Cat (Star space_cls) Eol))).
Proof. intro u. unfold units_re, uparts. rewrite map_app, map_map. reflexivity. Qed.

Lemma uparts_nonempty : forall u, uparts u <> [].
Proof. intro u. unfold uparts. destruct (map _ (sorted_mults u)); discriminate. Qed.

Lemma uparts_ok : forall u, parts_ok (uparts u).
Proof.
  intro u. unfold parts_ok, uparts. apply Forall_app. split.
  - apply Forall_forall. intros p I. apply in_map_iff in I. destruct I as (mu & E & _). subst p. discriminate.
  - constructor; [discriminate | constructor].
Qed.

Lemma uparts_keys : forall u, map upart_key (uparts u) = map fst (sorted_mults u) ++ [1%Z].
Proof. intro u. unfold uparts. rewrite map_app, map_map. reflexivity. Qed.

(* SOUNDNESS of the matcher on the template: an answer of re_match_at is a tokenisation *)
Lemma units_match_sound : forall u d cs,
  re_match_at (units_re u) (List.length d) d = Some cs ->
  exists sp0 body toks,
    d = sp0 ++ body /\ spaces sp0 = true /\ useq (uparts u) body toks
    /\ cs = push_caps (combine (map upart_key (uparts u)) toks) [].
Proof.
  intros u d cs H. apply re_match_at_sound in H. destruct H as (s' & M).
  rewrite units_re_eq in M.
  apply cat_inv in M. destruct M as (s1 & cs1 & M1 & M).
  apply bol_inv in M1. destruct M1 as (_ & E1 & C1). subst.
  apply cat_inv in M. destruct M as (s2 & cs2 & M2 & M).
  apply spaces_inv in M2. destruct M2 as (sp0 & E & F & C). subst.
  apply join_tail_inv in M; [|apply uparts_nonempty|apply uparts_ok].
  destruct M as (_ & toks & U & C). exists sp0, s2, toks. repeat split; assumption.
Qed.

(* (weak) COMPLETENESS: on a subject that has a tokenisation the matcher does not fail *)
Lemma units_match_exists : forall u sp0 body toks,
  spaces sp0 = true -> useq (uparts u) body toks ->
  re_match_at (units_re u) (List.length (sp0 ++ body)) (sp0 ++ body) <> None.
Proof.
  intros u sp0 body toks F U. rewrite units_re_eq.
  eapply re_match_at_complete with (s' := []).
  eapply RM_cat; [constructor; reflexivity|].
  eapply RM_cat; [apply spaces_intro; exact F|].
  apply join_tail_intro; [exact U | apply uparts_nonempty].
Qed.

(* ---------- reading the captures back ---------- *)

Lemma cap_get_push_notin : forall kts k cs,
  ~ In k (map fst kts) -> cap_get k (push_caps kts cs) = cap_get k cs.
Proof.
  induction kts as [|[k' t] kts IH]; intros k cs NI; [reflexivity|].
  cbn [push_caps fold_left fst snd]. fold (push_caps kts (push1 k' t cs)).
  rewrite IH by (intro I; apply NI; right; exact I).
  unfold push1. destruct t; [reflexivity|].
  unfold cap_get. cbn [zlookup]. destruct (Z.eqb_spec k k') as [E|E]; [|reflexivity].
  exfalso. apply NI. left. cbn [fst]. congruence.
Qed.

Lemma in_map_fst_combine : forall (ks : list Z) (ts : list (list ascii)) k,
  In k (map fst (combine ks ts)) -> In k ks.
Proof.
  induction ks as [|k' ks IH]; intros ts k I; [destruct I|].
  destruct ts as [|t ts]; [destruct I|]. cbn [combine map fst] in I. destruct I as [E|I]; [left; exact E | right; eapply IH; exact I].
Qed.

Lemma map_cap_get_push : forall keys toks cs,
  NoDup keys -> List.length toks = List.length keys ->
  (forall k, In k keys -> zlookup k cs = None) ->
  map (fun k => cap_get k (push_caps (combine keys toks) cs)) keys = toks.
Proof.
  induction keys as [|k ks IH]; intros toks cs ND L Z0.
  - destruct toks; [reflexivity | discriminate].
  - destruct toks as [|t ts]; [discriminate|]. inversion ND as [|? ? NI ND']; subst.
    cbn [combine push_caps fold_left fst snd map]. fold (push_caps (combine ks ts) (push1 k t cs)).
    f_equal.
    + rewrite cap_get_push_notin by (intro I; apply NI; eapply in_map_fst_combine; exact I).
      unfold push1, cap_get. destruct t.
      * rewrite (Z0 k (or_introl eq_refl)). reflexivity.
      * cbn [zlookup]. rewrite Z.eqb_refl. reflexivity.
    + apply IH; [exact ND' | cbn [List.length] in L; lia |].
      intros k' I. unfold push1. destruct t.
      * apply Z0. right. exact I.
      * cbn [zlookup]. destruct (Z.eqb_spec k' k) as [E|E]; [subst; contradiction|].
        apply Z0. right. exact I.
Qed.
