(* Proofs/Link2Inline.v — C14 (3): replacing references by their targets IN AN ARBITRARY CONTEXT
   preserves Unserialize / Validate / Serialize (and data-mode ValidateCompatibility) on ALL inputs.

   `inlines_to e s s'` : s' is s with any number of self-namespace references replaced by the object
   they denote (itself inlined further), under lists, maps, properties, one-of members and scopes.
   A scope whose objects are inlined is entered with the INLINED table, so the relation extends to
   environments (`inl_env`).  Fuel: the inlined schema never needs more fuel than the original, and
   the original at most twice the fuel of the inlined one (every removed reference costs one step,
   and a reference always denotes an object, never another reference).

   The proof is one congruence step lemma (`step_*`: if the sub-calls at fuel f / g agree, the calls
   at S f / S g agree) used for both directions. *)
From Coq Require Import Lia.
From Verif Require Import Base.Prelude Base.Str Base.Float Base.GoVal
  Schema.Regex Schema.Units Schema.Syntax Schema.Ops Schema.Link Schema.Wf
  Proofs.OpsEq Proofs.MonoEq Proofs.C04Inv.
Open Scope string_scope.

(* ---------- the relation ---------- *)
Definition with_type (p : property_ schema) (t : schema) : property_ schema :=
  mkProp t (p_display p) (p_required p) (p_required_if p) (p_required_if_not p) (p_conflicts p)
         (p_default p) (p_examples p) (p_empty_is_default p) (p_disabled p) (p_disabled_reason p).

Definition prop_rel (R : schema -> schema -> Prop) (np np' : string * property_ schema) : Prop :=
  exists t', np' = (fst np, with_type (snd np) t') /\ R (p_type (snd np)) t'.
Definition mem_rel (R : schema -> schema -> Prop) (km km' : okey * schema) : Prop :=
  fst km' = fst km /\ R (snd km) (snd km').
Definition obj_rel (R : schema -> schema -> Prop) (io io' : string * schema) : Prop :=
  fst io' = fst io /\ R (snd io) (snd io').

Inductive inlines_to : env -> schema -> schema -> Prop :=
| I_leaf e s : is_leaf s = true -> inlines_to e s s        (* scalars, any, a reference left alone *)
| I_list e it it' mn mx : inlines_to e it it' -> inlines_to e (SList it mn mx) (SList it' mn mx)
| I_map e k k' v v' mn mx : inlines_to e k k' -> inlines_to e v v' ->
    inlines_to e (SMap k v mn mx) (SMap k' v' mn mx)
| I_obj e id u ps ps' : Forall2 (prop_rel (inlines_to e)) ps ps' ->
    inlines_to e (SObject id u ps) (SObject id u ps')
| I_oneof e ts ts' ik fd il : Forall2 (mem_rel (inlines_to e)) ts ts' ->
    inlines_to e (SOneOf ts ik fd il) (SOneOf ts' ik fd il)
| I_scope e objs objs' root : Forall2 (obj_rel (inlines_to (env_enter e objs))) objs objs' ->
    inlines_to e (SScope objs root) (SScope objs' root)
| I_ref e id d i u ps ps' :                                  (* the reference replaced by its object *)
    resolve e id "" = Some (SObject i u ps, e) -> Forall2 (prop_rel (inlines_to e)) ps ps' ->
    inlines_to e (SRef id "" d) (SObject i u ps').

Definition tab_rel (x : list (string * objtab)) (o : oracles) (tab tab' : objtab) : Prop :=
  Forall2 (obj_rel (inlines_to (mkEnv tab x o))) tab tab'.
(* the environment whose tables hold the inlined objects *)
Definition inl_env (e e' : env) : Prop :=
  e_or e' = e_or e /\ tab_rel (e_ext e) (e_or e) (e_self e) (e_self e') /\
  Forall2 (fun nt nt' => fst nt' = fst nt /\ tab_rel (e_ext e) (e_or e) (snd nt) (snd nt')) (e_ext e) (e_ext e').

Definition str_like (s : schema) : bool := match s with SString _ _ _ => true | _ => false end.

(* ---------- list helpers ---------- *)
Lemma F2_impl {A B} (P Q : A -> B -> Prop) l l' : (forall a b, P a b -> Q a b) -> Forall2 P l l' -> Forall2 Q l l'.
Proof. intros H; induction 1; constructor; auto. Qed.
Lemma F2_flip {A B} (P : A -> B -> Prop) l l' : Forall2 P l l' -> Forall2 (fun b a => P a b) l' l.
Proof. induction 1; constructor; auto. Qed.
Lemma F2_refl {A} (Q : A -> A -> Prop) l : (forall x, In x l -> Q x x) -> Forall2 Q l l.
Proof. induction l as [|x t IH]; intros H; constructor; [apply H; left; reflexivity | apply IH; intros; apply H; right; assumption]. Qed.
Lemma F2_map {A B} (Q : A -> B -> Prop) (g : A -> B) l : (forall x, In x l -> Q x (g x)) -> Forall2 Q l (map g l).
Proof. induction l as [|x t IH]; intros H; cbn; constructor; [apply H; left; reflexivity | apply IH; intros; apply H; right; assumption]. Qed.

Lemma alookup_F2 {A B} (Q : A -> B -> Prop) (l : list (string * A)) (l' : list (string * B)) k :
  Forall2 (fun x y => fst y = fst x /\ Q (snd x) (snd y)) l l' ->
  match alookup k l, alookup k l' with
  | Some a, Some b => Q a b
  | None, None => True
  | _, _ => False
  end.
Proof.
  induction 1 as [|[n a] [n' b] t t' [Hn HQ] _ IH]; cbn; [exact I|].
  cbn in Hn, HQ. subst n'. destruct (String.eqb k n); [exact HQ | exact IH].
Qed.

Lemma with_type_id (p : property_ schema) : with_type p (p_type p) = p.
Proof. destruct p; reflexivity. Qed.
Lemma with_type_twice (p : property_ schema) t t' : with_type (with_type p t) t' = with_type p t'.
Proof. reflexivity. Qed.

Lemma prop_rel_refl (R : schema -> schema -> Prop) np : R (p_type (snd np)) (p_type (snd np)) -> prop_rel R np np.
Proof. intros H. exists (p_type (snd np)). split; [|exact H]. destruct np as [n p]; cbn. rewrite with_type_id. reflexivity. Qed.

Lemma prop_rel_flip (R : schema -> schema -> Prop) np np' : prop_rel R np np' -> prop_rel (fun a b => R b a) np' np.
Proof.
  intros (t' & -> & HR). exists (p_type (snd np)). cbn [fst snd]. split.
  - rewrite with_type_twice, with_type_id. destruct np; reflexivity.
  - exact HR.
Qed.

Section PropLists.
Variable R : schema -> schema -> Prop.

Lemma amem_props ps1 ps2 : Forall2 (prop_rel R) ps1 ps2 -> forall k, amem k ps2 = amem k ps1.
Proof.
  intros H k. unfold amem. induction H as [|[n p] y t t' (t0 & -> & _) _ IH]; cbn; [reflexivity|].
  destruct (String.eqb k n); [reflexivity | exact IH].
Qed.

Lemma alookup_props ps1 ps2 k : Forall2 (prop_rel R) ps1 ps2 ->
  match alookup k ps1 with
  | Some p1 => exists t', alookup k ps2 = Some (with_type p1 t') /\ R (p_type p1) t'
  | None => alookup k ps2 = None
  end.
Proof.
  induction 1 as [|[n p] y t t' (t0 & -> & HR) _ IH]; cbn; [reflexivity|].
  destruct (String.eqb k n); [exists t0; split; [reflexivity | exact HR] | exact IH].
Qed.

Lemma forM_props (g : string * property_ schema -> outcome unit) ps1 ps2 : Forall2 (prop_rel R) ps1 ps2 ->
  (forall np t', g (fst np, with_type (snd np) t') = g np) -> forM_ g ps2 = forM_ g ps1.
Proof.
  intros H Hg. induction H as [|np y t t' (t0 & -> & _) _ IH]; cbn; [reflexivity|].
  rewrite Hg, IH. reflexivity.
Qed.

Lemma check_rules_props ps1 ps2 set : Forall2 (prop_rel R) ps1 ps2 -> check_rules ps2 set = check_rules ps1 set.
Proof. intros H. unfold check_rules. apply forM_props; [exact H|]. intros np t'. reflexivity. Qed.

Lemma single_props ps1 ps2 : Forall2 (prop_rel R) ps1 ps2 ->
  (ps1 = [] /\ ps2 = []) \/
  (exists n p t', ps1 = [(n, p)] /\ ps2 = [(n, with_type p t')] /\ R (p_type p) t') \/
  (exists a b t a' b' t', ps1 = a :: b :: t /\ ps2 = a' :: b' :: t').
Proof.
  intros H. destruct H as [|[n p] y t t' (t0 & -> & HR) H]; [left; split; reflexivity|].
  destruct H as [|b b' tt1 tt2 _ _].
  - right; left. exists n, p, t0. cbn. repeat split; auto.
  - right; right. repeat eexists.
Qed.

Lemma type_id_str {A} (s : schema) (a b : A) :
  match type_id_of s with IdString => a | _ => b end = if str_like s then a else b.
Proof. destruct s; try reflexivity. cbn. destruct int_keys; reflexivity. Qed.

Hypothesis R_str : forall a b, R a b -> str_like a = str_like b.

Lemma decode_default_props o (np : string * property_ schema) t' txt : R (p_type (snd np)) t' ->
  decode_default o (with_type (snd np) t') txt = decode_default o (snd np) txt.
Proof.
  intros HR. unfold decode_default. destruct (o_json o txt); [reflexivity|].
  rewrite !type_id_str. cbn [with_type p_type]. rewrite <- (R_str _ _ HR). reflexivity.
Qed.

Definition dflt_step (o : oracles) (a : raw) (np : string * property_ schema) : raw :=
  if amem (fst np) a then a
  else match p_default (snd np) with
       | Some txt => match decode_default o (snd np) txt with
                     | Some d => (a ++ [(fst np, d)])%list
                     | None => a
                     end
       | None => a
       end.

Lemma dflt_step_with o a (np : string * property_ schema) t0 : R (p_type (snd np)) t0 ->
  dflt_step o a (fst np, with_type (snd np) t0) = dflt_step o a np.
Proof.
  intros HR. unfold dflt_step. cbn [fst snd].
  change (p_default (with_type (snd np) t0)) with (p_default (snd np)).
  destruct (p_default (snd np)) as [txt|]; [|reflexivity].
  rewrite (decode_default_props o np t0 txt HR). reflexivity.
Qed.

Lemma dflt_fold_step (o : oracles) ps1 ps2 : Forall2 (prop_rel R) ps1 ps2 -> forall r0 : raw,
  fold_left (dflt_step o) ps2 r0 = fold_left (dflt_step o) ps1 r0.
Proof.
  induction 1 as [|np y t t' (t0 & -> & HR) _ IH]; intros r0; cbn [fold_left]; [reflexivity|].
  rewrite IH. rewrite (dflt_step_with o r0 np t0 HR). reflexivity.
Qed.

Lemma dflt_fold_props (o : oracles) ps1 ps2 : Forall2 (prop_rel R) ps1 ps2 -> forall r0 : raw,
  fold_left (fun a np =>
               if amem (fst np) a then a
               else match p_default (snd np) with
                    | Some txt => match decode_default o (snd np) txt with
                                  | Some d => (a ++ [(fst np, d)])%list
                                  | None => a
                                  end
                    | None => a
                    end) ps2 r0 =
  fold_left (fun a np =>
               if amem (fst np) a then a
               else match p_default (snd np) with
                    | Some txt => match decode_default o (snd np) txt with
                                  | Some d => (a ++ [(fst np, d)])%list
                                  | None => a
                                  end
                    | None => a
                    end) ps1 r0.
Proof. intros H r0. exact (dflt_fold_step o ps1 ps2 H r0). Qed.
End PropLists.

Lemma find_rel (R : schema -> schema -> Prop) ts1 ts2 key : Forall2 (mem_rel R) ts1 ts2 ->
  match find (fun ks => okey_eqb (fst ks) key) ts1, find (fun ks => okey_eqb (fst ks) key) ts2 with
  | Some km1, Some km2 => fst km2 = fst km1 /\ R (snd km1) (snd km2)
  | None, None => True
  | _, _ => False
  end.
Proof.
  induction 1 as [|x y t t' [Hk HR] _ IH]; cbn; [exact I|].
  rewrite Hk. destruct (okey_eqb (fst x) key); [split; assumption | exact IH].
Qed.

(* ---------- le_out between results of different types ---------- *)
Definition le_rel {A B} (Q : A -> B -> Prop) (o1 : outcome A) (o2 : outcome B) : Prop :=
  o1 = OutOfFuel \/
  match o1, o2 with
  | Ok a, Ok b => Q a b
  | Err x, Err y => x = y
  | Panic x, Panic y => x = y
  | _, _ => False
  end.

Lemma le_rel_bind {A B C} (Q : A -> B -> Prop) o1 o2 (k1 : A -> outcome C) (k2 : B -> outcome C) :
  le_rel Q o1 o2 -> (forall a b, Q a b -> le_out (k1 a) (k2 b)) -> le_out (bind o1 k1) (bind o2 k2).
Proof.
  intros [H|H] Hk; [subst; left; reflexivity|].
  destruct o1, o2; cbn in *; try contradiction; subst; try (right; reflexivity). apply Hk; exact H.
Qed.

Lemma le_rel_guard {A B} (Q : A -> B -> Prop) (o1 o2 : outcome unit) a b :
  le_out o1 o2 -> Q a b -> le_rel Q (_ <- o1 ;; Ok a) (_ <- o2 ;; Ok b).
Proof.
  intros [H|H] HQ; subst; [left; reflexivity|].
  destruct o2 as [[]| | |]; cbn; [right; exact HQ | right; reflexivity | right; reflexivity | left; reflexivity].
Qed.

Lemma le_rel_err {A B} (Q : A -> B -> Prop) x : le_rel Q (Err x) (Err x).
Proof. right; reflexivity. Qed.

Lemma leo_trans {A} (a b c : outcome A) : le_out a b -> le_out b c -> le_out a c.
Proof. intros [H|H] H'; [left; exact H | subst; exact H']. Qed.

Lemma le_rel_trans_r {A B} (Q : A -> B -> Prop) a b c : le_rel Q a b -> le_out b c -> le_rel Q a c.
Proof.
  intros [H|H] [H'|H']; subst; [left; reflexivity | left; reflexivity | | right; exact H].
  destruct a; cbn in H; try contradiction; left; reflexivity.
Qed.

Lemma le_fold2 {A A' B} (Q : A -> A' -> Prop) (st : outcome B -> A -> outcome B) (st' : outcome B -> A' -> outcome B) l l' :
  Forall2 Q l l' ->
  (forall a a' x x', Q x x' -> le_out a a' -> le_out (st a x) (st' a' x')) ->
  forall acc acc', le_out acc acc' -> le_out (fold_left st l acc) (fold_left st' l' acc').
Proof. induction 1; intros Hs acc acc' Ha; cbn; [exact Ha|]. apply IHForall2; [exact Hs | apply Hs; assumption]. Qed.

(* ---------- the congruence step ---------- *)
Section Step.
Variable words : list (string * bool).
Variable pu : units -> string -> option fl.
Notation unser := (unser words pu).
Notation validate := (validate words pu).
Notation serialize := (serialize words pu).
Notation compat := (compat words pu).
Notation oneof_find := (oneof_find words pu).

Variable Rel : env -> schema -> env -> schema -> Prop.
Hypothesis Rel_or : forall e1 s1 e2 s2, Rel e1 s1 e2 s2 -> e_or e1 = e_or e2.
Hypothesis Rel_rtype : forall e1 s1 e2 s2, Rel e1 s1 e2 s2 -> rtype s1 = rtype s2.
Hypothesis Rel_str : forall e1 s1 e2 s2, Rel e1 s1 e2 s2 -> str_like s1 = str_like s2.

(* one layer of structure, the parts related by Rel *)
Inductive cong (e1 e2 : env) : schema -> schema -> Prop :=
| CG_leaf s : is_leaf s = true -> (forall id ns d, s <> SRef id ns d) -> cong e1 e2 s s
| CG_list it1 it2 mn mx : Rel e1 it1 e2 it2 -> cong e1 e2 (SList it1 mn mx) (SList it2 mn mx)
| CG_map k1 v1 k2 v2 mn mx : Rel e1 k1 e2 k2 -> Rel e1 v1 e2 v2 -> cong e1 e2 (SMap k1 v1 mn mx) (SMap k2 v2 mn mx)
| CG_obj id u ps1 ps2 : Forall2 (prop_rel (fun a b => Rel e1 a e2 b)) ps1 ps2 ->
    cong e1 e2 (SObject id u ps1) (SObject id u ps2)
| CG_oneof ts1 ts2 ik fd il : Forall2 (mem_rel (fun a b => Rel e1 a e2 b)) ts1 ts2 ->
    cong e1 e2 (SOneOf ts1 ik fd il) (SOneOf ts2 ik fd il)
| CG_ref id ns d1 d2 :
    match resolve e1 id ns, resolve e2 id ns with
    | Some (o1, e1'), Some (o2, e2') => Rel e1' o1 e2' o2
    | None, None => True
    | _, _ => False
    end -> cong e1 e2 (SRef id ns d1) (SRef id ns d2)
| CG_scope objs1 objs2 root :
    match alookup root objs1, alookup root objs2 with
    | Some o1, Some o2 => Rel (env_enter e1 objs1) o1 (env_enter e2 objs2) o2
    | None, None => True
    | _, _ => False
    end -> cong e1 e2 (SScope objs1 root) (SScope objs2 root).

Definition Qof (e1 e2 : env) (x y : okey * schema * gval) : Prop :=
  fst (fst y) = fst (fst x) /\ snd y = snd x /\ Rel e1 (snd (fst x)) e2 (snd (fst y)).

Definition ops_le (f g : nat) : Prop :=
  (forall e1 s1 e2 s2 v, Rel e1 s1 e2 s2 -> le_out (unser f e1 s1 v) (unser g e2 s2 v)) /\
  (forall e1 s1 e2 s2 v, Rel e1 s1 e2 s2 -> le_out (validate f e1 s1 v) (validate g e2 s2 v)) /\
  (forall e1 ts1 e2 ts2 ik fd il v, Forall2 (mem_rel (fun a b => Rel e1 a e2 b)) ts1 ts2 ->
      le_rel (Qof e1 e2) (oneof_find f e1 ts1 ik fd il v) (oneof_find g e2 ts2 ik fd il v)) /\
  (forall e1 s1 e2 s2 v, Rel e1 s1 e2 s2 -> le_out (serialize f e1 s1 v) (serialize g e2 s2 v)) /\
  (forall e1 s1 e2 s2 v, Rel e1 s1 e2 s2 -> le_out (compat f e1 s1 v) (compat g e2 s2 v)).

Lemma ops_le_0 g : ops_le 0 g.
Proof using All. repeat split; intros; try apply le_oof; left; reflexivity. Qed.

(* more fuel on the right *)
Lemma ops_le_mono f g g' : (g <= g')%nat -> ops_le f g -> ops_le f g'.
Proof using All.
  intros Hle (Hu & Hv & Ho & Hs & Hc).
  destruct (ops_mono words pu g g' Hle) as (Mu & Mv & Mo & Ms & Mc).
  repeat split; intros.
  - eapply leo_trans; [apply Hu; eassumption | apply Mu].
  - eapply leo_trans; [apply Hv; eassumption | apply Mv].
  - eapply le_rel_trans_r; [apply Ho; eassumption | apply Mo].
  - eapply leo_trans; [apply Hs; eassumption | apply Ms].
  - eapply leo_trans; [apply Hc; eassumption | apply Mc].
Qed.

Ltac find_case HM :=
  match goal with
  | |- le_out (match find (fun ks => okey_eqb (fst ks) ?key) ?t1 with _ => _ end)
              (match find _ ?t2 with _ => _ end) =>
      generalize (find_rel _ t1 t2 key HM);
      destruct (find (fun ks => okey_eqb (fst ks) key) t1) as [[? ?]|];
      destruct (find (fun ks => okey_eqb (fst ks) key) t2) as [[? ?]|];
      cbn [fst snd]; intros Hfind; try contradiction
  | |- le_rel _ (match find (fun ks => okey_eqb (fst ks) ?key) ?t1 with _ => _ end)
                (match find _ ?t2 with _ => _ end) =>
      generalize (find_rel _ t1 t2 key HM);
      destruct (find (fun ks => okey_eqb (fst ks) key) t1) as [[? ?]|];
      destruct (find (fun ks => okey_eqb (fst ks) key) t2) as [[? ?]|];
      cbn [fst snd]; intros Hfind; try contradiction
  end.

Ltac rel_solve :=
  repeat match goal with
  | |- le_rel _ (Err ?x) (Err ?x) => apply le_rel_err
  | |- le_rel _ (match ?d with _ => _ end) (match ?d with _ => _ end) => destruct d
  end.

Lemma step_oneof f g e1 ts1 e2 ts2 ik fd il v :
  ops_le f g -> Forall2 (mem_rel (fun a b => Rel e1 a e2 b)) ts1 ts2 ->
  le_rel (Qof e1 e2) (oneof_find (S f) e1 ts1 ik fd il v) (oneof_find (S g) e2 ts2 ik fd il v).
Proof using All.
  intros (Hu & Hv & Ho & Hs & Hc) HM. rewrite !(oneof_find_S words pu). cbv beta iota zeta.
  rel_solve; find_case HM; try apply le_rel_err.
  all: destruct Hfind as [Hk HR]; subst;
       (apply le_rel_guard; [apply le_rewrap_path; apply Hc; exact HR | unfold Qof; cbn [fst snd]; repeat split; exact HR]).
Qed.


Lemma step_unser f g e1 e2 s1 s2 : (f <= g)%nat -> ops_le f g -> Rel e1 s1 e2 s2 -> cong e1 e2 s1 s2 ->
  forall v, le_out (unser (S f) e1 s1 v) (unser (S g) e2 s2 v).
Proof using All.
  intros Hfg Hops HR HC v.
  destruct Hops as (Hu & Hv & Ho & Hs & Hc).
  pose proof (Rel_or _ _ _ _ HR) as Hor.
  rewrite !(unser_S words pu).
  inversion HC as [s Hl Hnr | it1 it2 mn mx HRi | k1 v1 k2 v2 mn mx HRk HRv | id u ps1 ps2 HPR
                  | ts1 ts2 ik fd il HMR | id ns d1 d2 Href | objs1 objs2 root Hsc]; subst; cbv beta iota zeta.
  - destruct s2; try discriminate; try (exfalso; eapply Hnr; reflexivity); try apply le_refl.
    + rewrite Hor; apply le_refl.
    + apply any_conv_mono; exact Hfg.
  - rewrite (Rel_rtype _ _ _ _ HRi). le_solve_with ltac:(first [apply Hu; assumption]).
  - rewrite (Rel_rtype _ _ _ _ HRk), (Rel_rtype _ _ _ _ HRv). le_solve_with ltac:(first [apply Hu; assumption]).
  - pose proof (amem_props _ _ _ HPR) as Ham.
    destruct v.
    1-6, 8-11:
      solve [ destruct (single_props _ _ _ HPR) as [[-> ->] | [(xn & xp & xt2 & -> & -> & HRt) | ([? ?] & xb & xt & [? ?] & xb' & xt' & -> & ->)]];
              cbv beta iota zeta; [apply le_refl | | apply le_refl];
              rewrite (check_rules_props _ _ _ _ HPR); cbn [with_type p_disabled p_type];
              le_solve_with ltac:(first [apply Hu; exact HRt]) ].
    apply le_bind.
    { le_solve_with ltac:(first [apply le_refl | rewrite Ham]). }
    intros r0. rewrite Hor.
    rewrite (dflt_fold_props (fun a b => Rel e1 a e2 b) (fun a b H => Rel_str _ _ _ _ H) (e_or e2) _ _ HPR).
    apply le_bind.
    { apply (le_fold2 (prop_rel (fun a b => Rel e1 a e2 b))); [exact HPR | | apply le_refl].
      intros a a' np np' (t' & -> & HRt) Ha. cbn [fst snd].
      apply le_bind; [exact Ha|]. intros r. destruct (alookup (fst np) r); [|apply le_refl].
      apply le_bind; [|intros; apply le_refl]. apply le_seg. cbn [with_type p_disabled p_type].
      destruct (p_disabled (snd np)); [apply le_refl|]. apply Hu. exact HRt. }
    intros r2. rewrite (check_rules_props _ _ _ _ HPR). apply le_refl.
  - le_solve_with ltac:(first [find_case HMR | apply Hu; apply Hfind]).
  - revert Href. destruct (resolve e1 id ns) as [[? ?]|]; destruct (resolve e2 id ns) as [[? ?]|];
      intros Href; cbv beta iota in Href; try contradiction; [apply Hu; exact Href | apply le_refl].
  - revert Hsc. destruct (alookup root objs1) as [?|]; destruct (alookup root objs2) as [?|];
      intros Hsc; cbv beta iota in Hsc; try contradiction; [apply Hu; exact Hsc | apply le_refl].
Qed.

Lemma step_validate f g e1 e2 s1 s2 : (f <= g)%nat -> ops_le f g -> Rel e1 s1 e2 s2 -> cong e1 e2 s1 s2 ->
  forall v, le_out (validate (S f) e1 s1 v) (validate (S g) e2 s2 v).
Proof using All.
  intros Hfg Hops HR HC v.
  destruct Hops as (Hu & Hv & Ho & Hs & Hc).
  rewrite !(validate_S words pu).
  inversion HC as [s Hl Hnr | it1 it2 mn mx HRi | k1 v1 k2 v2 mn mx HRk HRv | id u ps1 ps2 HPR
                  | ts1 ts2 ik fd il HMR | id ns d1 d2 Href | objs1 objs2 root Hsc]; subst; cbv beta iota zeta.
  - destruct s2; try discriminate; try (exfalso; eapply Hnr; reflexivity); try apply le_refl.
    apply le_bind; [apply any_conv_mono; exact Hfg | intros; apply le_refl].
  - le_solve_with ltac:(first [apply Hv; assumption]).
  - le_solve_with ltac:(first [apply Hv; assumption]).
  - destruct (is_str_any_map v); [|apply le_refl].
    rewrite (check_rules_props _ _ _ _ HPR). apply le_bind; [apply le_refl|]. intros _.
    apply le_forM. intros kv. pose proof (alookup_props _ _ _ (fst kv) HPR) as HL.
    destruct (alookup (fst kv) ps1) as [p1|]; [destruct HL as (t' & -> & HRt) | rewrite HL; apply le_refl].
    cbn [with_type p_type]. apply le_seg. apply Hv. exact HRt.
  - eapply le_rel_bind; [apply Ho; exact HMR|].
    intros [[k1 m1] d1] [[k2 m2] d2] (Hk & Hd & HRm). cbn [fst snd] in Hk, Hd, HRm. subst.
    apply le_seg. apply Hv. exact HRm.
  - revert Href. destruct (resolve e1 id ns) as [[? ?]|]; destruct (resolve e2 id ns) as [[? ?]|];
      intros Href; cbv beta iota in Href; try contradiction; [apply Hv; exact Href | apply le_refl].
  - revert Hsc. destruct (alookup root objs1) as [?|]; destruct (alookup root objs2) as [?|];
      intros Hsc; cbv beta iota in Hsc; try contradiction; [apply Hv; exact Hsc | apply le_refl].
Qed.

Lemma step_serialize f g e1 e2 s1 s2 : (f <= g)%nat -> ops_le f g -> Rel e1 s1 e2 s2 -> cong e1 e2 s1 s2 ->
  forall v, le_out (serialize (S f) e1 s1 v) (serialize (S g) e2 s2 v).
Proof using All.
  intros Hfg Hops HR HC v.
  destruct Hops as (Hu & Hv & Ho & Hs & Hc).
  rewrite !(serialize_S words pu).
  inversion HC as [s Hl Hnr | it1 it2 mn mx HRi | k1 v1 k2 v2 mn mx HRk HRv | id u ps1 ps2 HPR
                  | ts1 ts2 ik fd il HMR | id ns d1 d2 Href | objs1 objs2 root Hsc]; subst; cbv beta iota zeta.
  - destruct s2; try discriminate; try (exfalso; eapply Hnr; reflexivity); try apply le_refl.
    apply any_conv_mono; exact Hfg.
  - le_solve_with ltac:(first [apply Hs; assumption | apply Hv; assumption]).
  - le_solve_with ltac:(first [apply Hs; assumption | apply Hv; assumption]).
  - destruct (is_str_any_map v); [|apply le_refl].
    rewrite (check_rules_props _ _ _ _ HPR). apply le_bind; [apply le_refl|]. intros _.
    apply le_bind; [|intros; apply le_refl].
    apply le_mapM. intros kv. pose proof (alookup_props _ _ _ (fst kv) HPR) as HL.
    destruct (alookup (fst kv) ps1) as [p1|]; [destruct HL as (t' & -> & HRt) | rewrite HL; apply le_refl].
    cbn [with_type p_type]. apply le_bind; [|intros; apply le_refl]. apply le_seg. apply Hs. exact HRt.
  - eapply le_rel_bind; [apply Ho; exact HMR|].
    intros [[k1 m1] d1] [[k2 m2] d2] (Hk & Hd & HRm). cbn [fst snd] in Hk, Hd, HRm. subst.
    apply le_bind; [apply Hs; exact HRm | intros; apply le_refl].
  - revert Href. destruct (resolve e1 id ns) as [[? ?]|]; destruct (resolve e2 id ns) as [[? ?]|];
      intros Href; cbv beta iota in Href; try contradiction; [apply Hs; exact Href | apply le_refl].
  - revert Hsc. destruct (alookup root objs1) as [?|]; destruct (alookup root objs2) as [?|];
      intros Hsc; cbv beta iota in Hsc; try contradiction; [apply Hs; exact Hsc | apply le_refl].
Qed.

Lemma step_compat f g e1 e2 s1 s2 : (f <= g)%nat -> ops_le f g -> Rel e1 s1 e2 s2 -> cong e1 e2 s1 s2 ->
  forall v, le_out (compat (S f) e1 s1 v) (compat (S g) e2 s2 v).
Proof using All.
  intros Hfg Hops HR HC v.
  destruct Hops as (Hu & Hv & Ho & Hs & Hc).
  rewrite !(compat_S words pu).
  inversion HC as [s Hl Hnr | it1 it2 mn mx HRi | k1 v1 k2 v2 mn mx HRk HRv | id u ps1 ps2 HPR
                  | ts1 ts2 ik fd il HMR | id ns d1 d2 Href | objs1 objs2 root Hsc]; subst; cbv beta iota zeta.
  - pose proof (fun v0 => any_conv_mono f g v0 Hfg) as Ha.
    destruct s2; try discriminate; try (exfalso; eapply Hnr; reflexivity);
      le_solve_with ltac:(first [apply Hu; exact HR | apply Hv; exact HR | apply Hc; exact HR | apply Ha]).
  - le_solve_with ltac:(first [apply Hc; assumption]).
  - le_solve_with ltac:(first [apply Hc; assumption]).
  - destruct (is_str_any_map v).
    + rewrite (forM_props _ _ _ _ HPR); [|intros; reflexivity].
      apply le_bind; [|intros; apply le_refl].
      apply le_forM. intros kv. pose proof (alookup_props _ _ _ (fst kv) HPR) as HL.
      destruct (alookup (fst kv) ps1) as [p1|]; [destruct HL as (t' & -> & HRt) | rewrite HL; apply le_refl].
      cbn [with_type p_type p_disabled]. apply le_seg. apply le_bind; [|intros; apply le_refl].
      apply le_rewrap_path. apply Hc. exact HRt.
    + apply le_bind; [|intros; apply le_refl]. apply le_rewrap_path. apply Hu. exact HR.
  - destruct (is_str_any_map v).
    + eapply le_rel_bind; [apply Ho; exact HMR|]. intros; apply le_refl.
    + le_solve_with ltac:(first [apply Hv; exact HR]).
  - revert Href. destruct (resolve e1 id ns) as [[? ?]|]; destruct (resolve e2 id ns) as [[? ?]|];
      intros Href; cbv beta iota in Href; try contradiction; [apply Hc; exact Href | apply le_refl].
  - revert Hsc. destruct (alookup root objs1) as [?|]; destruct (alookup root objs2) as [?|];
      intros Hsc; cbv beta iota in Hsc; try contradiction; [apply Hc; exact Hsc | apply le_refl].
Qed.
End Step.

(* ---------- facts about the relation ---------- *)
Lemma inl_rtype : forall s e s', inlines_to e s s' -> rtype s = rtype s'.
Proof.
  induction s; intros e s' H; inversion H; subst; cbn; try reflexivity.
  - f_equal. eapply IHs; eauto.
  - f_equal; [eapply IHs1 | eapply IHs2]; eauto.
Qed.

Lemma inl_str : forall e s s', inlines_to e s s' -> str_like s = str_like s'.
Proof. intros e s s' H; inversion H; subst; reflexivity. Qed.

Lemma inl_refl : forall s e, inlines_to e s s.
Proof.
  induction s using schema_ind'; intros e.
  - apply I_leaf; assumption.
  - apply I_list; auto.
  - apply I_map; auto.
  - apply I_obj. apply F2_refl. intros np Hin. apply prop_rel_refl.
    rewrite Forall_forall in H. apply (H np Hin).
  - apply I_oneof. apply F2_refl. intros km Hin. split; [reflexivity|].
    rewrite Forall_forall in H. apply (H km Hin).
  - apply I_scope. apply F2_refl. intros io Hin. split; [reflexivity|].
    rewrite Forall_forall in H. apply (H io Hin).
Qed.

Lemma inl_env_refl e : inl_env e e.
Proof.
  split; [reflexivity|]. split.
  - apply F2_refl. intros io _. split; [reflexivity | apply inl_refl].
  - apply F2_refl. intros nt _. split; [reflexivity|].
    apply F2_refl. intros io _. split; [reflexivity | apply inl_refl].
Qed.

Lemma env_eta e : mkEnv (e_self e) (e_ext e) (e_or e) = e.
Proof. destruct e; reflexivity. Qed.

Lemma inl_env_enter e e' tab tab' :
  inl_env e e' -> tab_rel (e_ext e) (e_or e) tab tab' -> inl_env (env_enter e tab) (env_enter e' tab').
Proof.
  intros (Hor & _ & Hx) Ht. unfold inl_env, env_enter. cbn [e_self e_ext e_or].
  split; [exact Hor|]. split; [exact Ht | exact Hx].
Qed.

Lemma resolve_inl e e' id ns : inl_env e e' ->
  match resolve e id ns, resolve e' id ns with
  | Some (o, e1), Some (o', e1') => inl_env e1 e1' /\ inlines_to e1 o o'
  | None, None => True
  | _, _ => False
  end.
Proof.
  intros Hsim. pose proof Hsim as (Hor & Hs & Hx). unfold resolve.
  destruct (String.eqb ns "").
  - pose proof (alookup_F2 _ _ _ id Hs) as HL. unfold obj_rel in HL.
    destruct (alookup id (e_self e)), (alookup id (e_self e')); try contradiction; [|exact I].
    split; [exact Hsim|]. rewrite env_eta in HL. exact HL.
  - pose proof (alookup_F2 (tab_rel (e_ext e) (e_or e)) _ _ ns Hx) as HL.
    destruct (alookup ns (e_ext e)) as [tab|], (alookup ns (e_ext e')) as [tab'|]; try contradiction; [|exact I].
    pose proof (alookup_F2 _ _ _ id HL) as HL2.
    destruct (alookup id tab), (alookup id tab'); try contradiction; [|exact I].
    split; [apply inl_env_enter; assumption | exact HL2].
Qed.

(* ---------- both directions ---------- *)
Section Equiv.
Variable words : list (string * bool).
Variable pu : units -> string -> option fl.
Notation unser := (unser words pu).
Notation validate := (validate words pu).
Notation serialize := (serialize words pu).
Notation compat := (compat words pu).
Notation oneof_find := (oneof_find words pu).

(* original on the left, inlined on the right *)
Definition RelA (e1 : env) (s1 : schema) (e2 : env) (s2 : schema) : Prop := inl_env e1 e2 /\ inlines_to e1 s1 s2.
(* inlined on the left, original on the right *)
Definition RelB (e1 : env) (s1 : schema) (e2 : env) (s2 : schema) : Prop := inl_env e2 e1 /\ inlines_to e2 s2 s1.

Lemma RelA_or e1 s1 e2 s2 : RelA e1 s1 e2 s2 -> e_or e1 = e_or e2.
Proof. intros [(H & _) _]. symmetry; exact H. Qed.
Lemma RelA_rtype e1 s1 e2 s2 : RelA e1 s1 e2 s2 -> rtype s1 = rtype s2.
Proof. intros [_ H]. eapply inl_rtype; eauto. Qed.
Lemma RelA_str e1 s1 e2 s2 : RelA e1 s1 e2 s2 -> str_like s1 = str_like s2.
Proof. intros [_ H]. eapply inl_str; eauto. Qed.
Lemma RelB_or e1 s1 e2 s2 : RelB e1 s1 e2 s2 -> e_or e1 = e_or e2.
Proof. intros [(H & _) _]. exact H. Qed.
Lemma RelB_rtype e1 s1 e2 s2 : RelB e1 s1 e2 s2 -> rtype s1 = rtype s2.
Proof. intros [_ H]. symmetry. eapply inl_rtype; eauto. Qed.
Lemma RelB_str e1 s1 e2 s2 : RelB e1 s1 e2 s2 -> str_like s1 = str_like s2.
Proof. intros [_ H]. symmetry. eapply inl_str; eauto. Qed.

Lemma props_A e1 e2 ps ps' : inl_env e1 e2 -> Forall2 (prop_rel (inlines_to e1)) ps ps' ->
  Forall2 (prop_rel (fun a b => RelA e1 a e2 b)) ps ps'.
Proof. intros Hs. apply F2_impl. intros np np' (t' & E & H). exists t'. split; [exact E | split; assumption]. Qed.
Lemma props_B e1 e2 ps ps' : inl_env e2 e1 -> Forall2 (prop_rel (inlines_to e2)) ps ps' ->
  Forall2 (prop_rel (fun a b => RelB e1 a e2 b)) ps' ps.
Proof.
  intros Hs H. apply F2_flip in H. revert H. apply F2_impl. intros np' np H.
  apply prop_rel_flip in H. destruct H as (t' & E & H). exists t'. split; [exact E | split; assumption].
Qed.
Lemma mems_A e1 e2 ts ts' : inl_env e1 e2 -> Forall2 (mem_rel (inlines_to e1)) ts ts' ->
  Forall2 (mem_rel (fun a b => RelA e1 a e2 b)) ts ts'.
Proof. intros Hs. apply F2_impl. intros km km' [E H]. split; [exact E | split; assumption]. Qed.
Lemma mems_B e1 e2 ts ts' : inl_env e2 e1 -> Forall2 (mem_rel (inlines_to e2)) ts ts' ->
  Forall2 (mem_rel (fun a b => RelB e1 a e2 b)) ts' ts.
Proof.
  intros Hs H. apply F2_flip in H. revert H. apply F2_impl. intros km' km [E H].
  split; [symmetry; exact E | split; assumption].
Qed.

(* a structural rule of inlines_to gives one layer of congruence *)
Lemma cong_A e1 e2 s1 s2 : inl_env e1 e2 -> inlines_to e1 s1 s2 ->
  cong RelA e1 e2 s1 s2 \/
  exists id d i u ps ps', s1 = SRef id "" d /\ s2 = SObject i u ps' /\
    resolve e1 id "" = Some (SObject i u ps, e1) /\ Forall2 (prop_rel (inlines_to e1)) ps ps'.
Proof.
  intros Hs H. inversion H as [e s Hl | e it it' mn mx Hi | e k k' v v' mn mx Hk Hv | e id u ps ps' HP | e ts ts' ik fd il HM | e objs objs' root HO | e id d i u ps ps' Hres HP]; subst.
  - left. destruct s2; try discriminate; try (apply CG_leaf; [reflexivity | intros ? ? ? C; discriminate C]).
    apply CG_ref. pose proof (resolve_inl e1 e2 id ns Hs) as HL.
    destruct (resolve e1 id ns) as [[? ?]|], (resolve e2 id ns) as [[? ?]|]; try contradiction; [exact HL | exact I].
  - left. apply CG_list. split; assumption.
  - left. apply CG_map; split; assumption.
  - left. apply CG_obj. apply props_A; assumption.
  - left. apply CG_oneof. apply mems_A; assumption.
  - left. apply CG_scope.
    assert (Ht : tab_rel (e_ext e1) (e_or e1) objs objs') by exact HO.
    pose proof (alookup_F2 _ _ _ root Ht) as HL.
    destruct (alookup root objs), (alookup root objs'); try contradiction; [|exact I].
    split; [apply inl_env_enter; assumption | exact HL].
  - right. repeat eexists; eauto.
Qed.

Lemma cong_B e1 e2 s1 s2 : inl_env e2 e1 -> inlines_to e2 s2 s1 ->
  cong RelB e1 e2 s1 s2 \/
  exists id d i u ps ps', s2 = SRef id "" d /\ s1 = SObject i u ps' /\
    resolve e2 id "" = Some (SObject i u ps, e2) /\ Forall2 (prop_rel (inlines_to e2)) ps ps'.
Proof.
  intros Hs H. inversion H as [e s Hl | e it it' mn mx Hi | e k k' v v' mn mx Hk Hv | e id u ps ps' HP | e ts ts' ik fd il HM | e objs objs' root HO | e id d i u ps ps' Hres HP]; subst.
  - left. destruct s1; try discriminate; try (apply CG_leaf; [reflexivity | intros ? ? ? C; discriminate C]).
    apply CG_ref. pose proof (resolve_inl e2 e1 id ns Hs) as HL.
    destruct (resolve e2 id ns) as [[? ?]|], (resolve e1 id ns) as [[? ?]|]; try contradiction; [exact HL | exact I].
  - left. apply CG_list. split; assumption.
  - left. apply CG_map; split; assumption.
  - left. apply CG_obj. apply props_B; assumption.
  - left. apply CG_oneof. apply mems_B; assumption.
  - left. apply CG_scope.
    assert (Ht : tab_rel (e_ext e2) (e_or e2) objs objs') by exact HO.
    pose proof (alookup_F2 _ _ _ root Ht) as HL.
    destruct (alookup root objs), (alookup root objs'); try contradiction; [|exact I].
    split; [apply inl_env_enter; assumption | exact HL].
  - right. repeat eexists; eauto.
Qed.

(* (a) the inlined schema needs no more fuel than the original *)
Lemma inline_le : forall f, ops_le words pu RelA f f.
Proof.
  induction f as [|f IH]; [apply (ops_le_0 words pu RelA RelA_or RelA_rtype RelA_str)|].
  pose proof IH as (Hu & Hv & Ho & Hs & Hc).
  destruct (ops_mono words pu f (S f) (le_S _ _ (le_n f))) as (Mu & Mv & Mo & Ms & Mc).
  assert (Hobj : forall e1 e2 i u ps ps', inl_env e1 e2 -> Forall2 (prop_rel (inlines_to e1)) ps ps' ->
                   RelA e1 (SObject i u ps) e2 (SObject i u ps')).
  { intros. split; [assumption | apply I_obj; assumption]. }
  repeat split.
  - intros e1 s1 e2 s2 v [Hsim Hinl].
    destruct (cong_A _ _ _ _ Hsim Hinl) as [HC | (id & d & i & u & ps & ps' & -> & -> & Hres & HP)].
    + apply (step_unser words pu RelA RelA_or RelA_rtype RelA_str f f e1 e2 s1 s2 (le_n f) IH (conj Hsim Hinl) HC).
    + rewrite (unser_S words pu f e1). cbv beta iota zeta. rewrite Hres.
      eapply leo_trans; [apply Hu; apply Hobj; eassumption | apply Mu].
  - intros e1 s1 e2 s2 v [Hsim Hinl].
    destruct (cong_A _ _ _ _ Hsim Hinl) as [HC | (id & d & i & u & ps & ps' & -> & -> & Hres & HP)].
    + apply (step_validate words pu RelA RelA_or RelA_rtype RelA_str f f e1 e2 s1 s2 (le_n f) IH (conj Hsim Hinl) HC).
    + rewrite (validate_S words pu f e1). cbv beta iota zeta. rewrite Hres.
      eapply leo_trans; [apply Hv; apply Hobj; eassumption | apply Mv].
  - intros. apply (step_oneof words pu RelA RelA_or RelA_rtype RelA_str); assumption.
  - intros e1 s1 e2 s2 v [Hsim Hinl].
    destruct (cong_A _ _ _ _ Hsim Hinl) as [HC | (id & d & i & u & ps & ps' & -> & -> & Hres & HP)].
    + apply (step_serialize words pu RelA RelA_or RelA_rtype RelA_str f f e1 e2 s1 s2 (le_n f) IH (conj Hsim Hinl) HC).
    + rewrite (serialize_S words pu f e1). cbv beta iota zeta. rewrite Hres.
      eapply leo_trans; [apply Hs; apply Hobj; eassumption | apply Ms].
  - intros e1 s1 e2 s2 v [Hsim Hinl].
    destruct (cong_A _ _ _ _ Hsim Hinl) as [HC | (id & d & i & u & ps & ps' & -> & -> & Hres & HP)].
    + apply (step_compat words pu RelA RelA_or RelA_rtype RelA_str f f e1 e2 s1 s2 (le_n f) IH (conj Hsim Hinl) HC).
    + rewrite (compat_S words pu f e1). cbv beta iota zeta. rewrite Hres.
      eapply leo_trans; [apply Hc; apply Hobj; eassumption | apply Mc].
Qed.

(* (b) the original needs at most twice the fuel of the inlined schema *)
Lemma inline_ge : forall f, ops_le words pu RelB f (2 * f).
Proof.
  induction f as [|f IH]; [apply (ops_le_0 words pu RelB RelB_or RelB_rtype RelB_str)|].
  replace (2 * S f)%nat with (S (S (2 * f))) by lia.
  assert (IH1 : ops_le words pu RelB f (S (2 * f))).
  { eapply (ops_le_mono words pu RelB RelB_or RelB_rtype RelB_str); [|exact IH]. lia. }
  assert (Hf2 : (f <= 2 * f)%nat) by lia.
  assert (Hf1 : (f <= S (2 * f))%nat) by lia.
  assert (Hobj : forall e1 e2 i u ps ps', inl_env e2 e1 -> Forall2 (prop_rel (inlines_to e2)) ps ps' ->
                   RelB e1 (SObject i u ps') e2 (SObject i u ps) /\
                   cong RelB e1 e2 (SObject i u ps') (SObject i u ps)).
  { intros. split; [split; [assumption | apply I_obj; assumption] | apply CG_obj; apply props_B; assumption]. }
  repeat split.
  - intros e1 s1 e2 s2 v [Hsim Hinl].
    destruct (cong_B _ _ _ _ Hsim Hinl) as [HC | (id & d & i & u & ps & ps' & -> & -> & Hres & HP)].
    + apply (step_unser words pu RelB RelB_or RelB_rtype RelB_str f (S (2 * f)) e1 e2 s1 s2 Hf1 IH1 (conj Hsim Hinl) HC).
    + rewrite (unser_S words pu (S (2 * f)) e2). cbv beta iota zeta. rewrite Hres.
      destruct (Hobj e1 e2 i u ps ps' Hsim HP) as [HR HC].
      apply (step_unser words pu RelB RelB_or RelB_rtype RelB_str f (2 * f) e1 e2 _ _ Hf2 IH HR HC).
  - intros e1 s1 e2 s2 v [Hsim Hinl].
    destruct (cong_B _ _ _ _ Hsim Hinl) as [HC | (id & d & i & u & ps & ps' & -> & -> & Hres & HP)].
    + apply (step_validate words pu RelB RelB_or RelB_rtype RelB_str f (S (2 * f)) e1 e2 s1 s2 Hf1 IH1 (conj Hsim Hinl) HC).
    + rewrite (validate_S words pu (S (2 * f)) e2). cbv beta iota zeta. rewrite Hres.
      destruct (Hobj e1 e2 i u ps ps' Hsim HP) as [HR HC].
      apply (step_validate words pu RelB RelB_or RelB_rtype RelB_str f (2 * f) e1 e2 _ _ Hf2 IH HR HC).
  - intros. apply (step_oneof words pu RelB RelB_or RelB_rtype RelB_str); assumption.
  - intros e1 s1 e2 s2 v [Hsim Hinl].
    destruct (cong_B _ _ _ _ Hsim Hinl) as [HC | (id & d & i & u & ps & ps' & -> & -> & Hres & HP)].
    + apply (step_serialize words pu RelB RelB_or RelB_rtype RelB_str f (S (2 * f)) e1 e2 s1 s2 Hf1 IH1 (conj Hsim Hinl) HC).
    + rewrite (serialize_S words pu (S (2 * f)) e2). cbv beta iota zeta. rewrite Hres.
      destruct (Hobj e1 e2 i u ps ps' Hsim HP) as [HR HC].
      apply (step_serialize words pu RelB RelB_or RelB_rtype RelB_str f (2 * f) e1 e2 _ _ Hf2 IH HR HC).
  - intros e1 s1 e2 s2 v [Hsim Hinl].
    destruct (cong_B _ _ _ _ Hsim Hinl) as [HC | (id & d & i & u & ps & ps' & -> & -> & Hres & HP)].
    + apply (step_compat words pu RelB RelB_or RelB_rtype RelB_str f (S (2 * f)) e1 e2 s1 s2 Hf1 IH1 (conj Hsim Hinl) HC).
    + rewrite (compat_S words pu (S (2 * f)) e2). cbv beta iota zeta. rewrite Hres.
      destruct (Hobj e1 e2 i u ps ps' Hsim HP) as [HR HC].
      apply (step_compat words pu RelB RelB_or RelB_rtype RelB_str f (2 * f) e1 e2 _ _ Hf2 IH HR HC).
Qed.

Lemma le_out_eq {A} (a b r : outcome A) : le_out a b -> a = r -> r <> OutOfFuel -> b = r.
Proof. intros [H|H] E Hr; congruence. Qed.

Theorem inline_equiv_unser : forall e e' s s', inl_env e e' -> inlines_to e s s' ->
  forall f v r, r <> OutOfFuel ->
    (unser f e s v = r -> unser f e' s' v = r) /\ (unser f e' s' v = r -> unser (2 * f) e s v = r).
Proof.
  intros e e' s s' He Hs f v r Hr. split; intros E.
  - destruct (inline_le f) as (H & _). eapply le_out_eq; [apply H; split; eassumption | exact E | exact Hr].
  - destruct (inline_ge f) as (H & _). eapply le_out_eq; [apply H; split; eassumption | exact E | exact Hr].
Qed.

Theorem inline_equiv_validate : forall e e' s s', inl_env e e' -> inlines_to e s s' ->
  forall f v r, r <> OutOfFuel ->
    (validate f e s v = r -> validate f e' s' v = r) /\ (validate f e' s' v = r -> validate (2 * f) e s v = r).
Proof.
  intros e e' s s' He Hs f v r Hr. split; intros E.
  - destruct (inline_le f) as (_ & H & _). eapply le_out_eq; [apply H; split; eassumption | exact E | exact Hr].
  - destruct (inline_ge f) as (_ & H & _). eapply le_out_eq; [apply H; split; eassumption | exact E | exact Hr].
Qed.

Theorem inline_equiv_serialize : forall e e' s s', inl_env e e' -> inlines_to e s s' ->
  forall f v r, r <> OutOfFuel ->
    (serialize f e s v = r -> serialize f e' s' v = r) /\ (serialize f e' s' v = r -> serialize (2 * f) e s v = r).
Proof.
  intros e e' s s' He Hs f v r Hr. split; intros E.
  - destruct (inline_le f) as (_ & _ & _ & H & _). eapply le_out_eq; [apply H; split; eassumption | exact E | exact Hr].
  - destruct (inline_ge f) as (_ & _ & _ & H & _). eapply le_out_eq; [apply H; split; eassumption | exact E | exact Hr].
Qed.

Theorem inline_equiv_compat : forall e e' s s', inl_env e e' -> inlines_to e s s' ->
  forall f v r, r <> OutOfFuel ->
    (compat f e s v = r -> compat f e' s' v = r) /\ (compat f e' s' v = r -> compat (2 * f) e s v = r).
Proof.
  intros e e' s s' He Hs f v r Hr. split; intros E.
  - destruct (inline_le f) as (_ & _ & _ & _ & H). eapply le_out_eq; [apply H; split; eassumption | exact E | exact Hr].
  - destruct (inline_ge f) as (_ & _ & _ & _ & H). eapply le_out_eq; [apply H; split; eassumption | exact E | exact Hr].
Qed.

End Equiv.

(* ---------- the mechanical inliner of Schema/Link.v (the harness's metamorphic partner) ---------- *)
(* side condition: scope tables hold objects (in Go: map[string]*ObjectSchema), checked at every
   self-namespace reference *)
Lemma inv_scope_all P e objs root io : Inv P e (SScope objs root) -> In io objs -> Inv P (env_enter e objs) (snd io).
Proof.
  intros [He H] Hin. cbn in H. apply andb_prop in H. destruct H as [_ H].
  unfold all_env in He. apply andb_prop in He. destruct He as [_ Hx].
  split.
  - apply all_env_enter; [exact Hx | exact H].
  - rewrite forallb_forall in H. apply H; exact Hin.
Qed.

Lemma inl_obj_inv e i u ps X : inlines_to e (SObject i u ps) X ->
  exists ps', X = SObject i u ps' /\ Forall2 (prop_rel (inlines_to e)) ps ps'.
Proof.
  intros H; inversion H; subst.
  - exists ps. split; [reflexivity|]. apply F2_refl. intros np _. apply prop_rel_refl. apply inl_refl.
  - eauto.
Qed.

Lemma inline_refs_inl : forall n e stop s, Inv ref_obj e s -> inlines_to e s (inline_refs n (e_self e) stop s).
Proof.
  induction n as [|n IH]; intros e stop s Hinv; [apply inl_refl|].
  destruct s; cbn [inline_refs]; try (apply I_leaf; reflexivity).
  - apply I_list. apply IH. eapply inv_list; eauto.
  - apply I_map; apply IH; [eapply inv_map_k | eapply inv_map_v]; eauto.
  - apply I_obj. apply F2_map. intros np Hin. exists (inline_refs n (e_self e) stop (p_type (snd np))).
    split; [reflexivity|]. apply IH. eapply inv_prop; eauto.
  - apply I_oneof. apply F2_map. intros km Hin. split; [reflexivity|]. cbn [snd]. apply IH. eapply inv_member; eauto.
  - destruct (String.eqb ns "" && negb (str_in id stop)) eqn:E; [|apply I_leaf; reflexivity].
    apply andb_prop in E. destruct E as [E _]. apply String.eqb_eq in E. subst ns.
    destruct (alookup id (e_self e)) as [o|] eqn:Eo; [|apply I_leaf; reflexivity].
    pose proof (inv_here _ _ _ Hinv) as Hh. cbn in Hh. rewrite Eo in Hh.
    destruct o; try discriminate.
    assert (Hres : resolve e id "" = Some (SObject id0 unenforced props, e)).
    { unfold resolve. cbn. rewrite Eo. reflexivity. }
    assert (Hio : Inv ref_obj e (SObject id0 unenforced props)) by (eapply inv_ref; eauto).
    destruct (inl_obj_inv _ _ _ _ _ (IH e stop _ Hio)) as (ps' & EX & HP). rewrite EX.
    eapply I_ref; eauto.
  - apply I_scope. apply F2_map. intros io Hin. split; [reflexivity|]. cbn [snd].
    apply (IH (env_enter e objs) stop (snd io)). eapply inv_scope_all; eauto.
Qed.

Lemma refs_to_objects_inv e s : refs_to_objects e s = true -> Inv ref_obj e s.
Proof. unfold refs_to_objects, Inv. intros H. apply andb_prop in H. exact H. Qed.

Lemma inline_refs_inlines : forall n e stop s, refs_to_objects e s = true ->
  inlines_to e s (inline_refs n (e_self e) stop s).
Proof. intros n e stop s H. apply inline_refs_inl. apply refs_to_objects_inv. exact H. Qed.

Section InlineRefs.
Variable words : list (string * bool).
Variable pu : units -> string -> option fl.

(* the full statement of C14_inline_equiv for the inliner: same environment, same fuel, any number
   of inlining rounds n and any stop list *)
Theorem inline_refs_equiv : forall e s n stop, refs_to_objects e s = true ->
  forall f v,
    (forall r, unser words pu f e s v = r -> r <> OutOfFuel ->
               unser words pu f e (inline_refs n (e_self e) stop s) v = r) /\
    (forall r, validate words pu f e s v = r -> r <> OutOfFuel ->
               validate words pu f e (inline_refs n (e_self e) stop s) v = r) /\
    (forall r, serialize words pu f e s v = r -> r <> OutOfFuel ->
               serialize words pu f e (inline_refs n (e_self e) stop s) v = r).
Proof.
  intros e s n stop H f v. apply refs_to_objects_inv in H.
  pose proof (inline_refs_inl n e stop s H) as Hi. pose proof (inl_env_refl e) as He.
  repeat split; intros r E Hr.
  - apply (proj1 (inline_equiv_unser words pu e e _ _ He Hi f v r Hr) E).
  - apply (proj1 (inline_equiv_validate words pu e e _ _ He Hi f v r Hr) E).
  - apply (proj1 (inline_equiv_serialize words pu e e _ _ He Hi f v r Hr) E).
Qed.

(* and back: whatever the inlined schema returns, the original returns with twice the fuel *)
Theorem inline_refs_equiv_back : forall e s n stop, refs_to_objects e s = true ->
  forall f v,
    (forall r, unser words pu f e (inline_refs n (e_self e) stop s) v = r -> r <> OutOfFuel ->
               unser words pu (2 * f) e s v = r) /\
    (forall r, validate words pu f e (inline_refs n (e_self e) stop s) v = r -> r <> OutOfFuel ->
               validate words pu (2 * f) e s v = r) /\
    (forall r, serialize words pu f e (inline_refs n (e_self e) stop s) v = r -> r <> OutOfFuel ->
               serialize words pu (2 * f) e s v = r).
Proof.
  intros e s n stop H f v. apply refs_to_objects_inv in H.
  pose proof (inline_refs_inl n e stop s H) as Hi. pose proof (inl_env_refl e) as He.
  repeat split; intros r E Hr.
  - apply (proj2 (inline_equiv_unser words pu e e _ _ He Hi f v r Hr) E).
  - apply (proj2 (inline_equiv_validate words pu e e _ _ He Hi f v r Hr) E).
  - apply (proj2 (inline_equiv_serialize words pu e e _ _ He Hi f v r Hr) E).
Qed.
End InlineRefs.
