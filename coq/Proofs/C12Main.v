(* Proofs/C12Main.v — the statements of Properties/C12.v assembled from Proofs/C12{Order,Lookup,Schema,Schema2,Value,Value2}.v *)
From Coq Require Import Permutation Lia.
From Verif Require Import Base.Prelude Base.Str Base.Float Base.GoVal
  Schema.Regex Schema.Units Schema.Syntax Schema.Ops Schema.Wf Schema.Perm
  Proofs.C04Inv Proofs.C12Order Proofs.C12Lookup Proofs.C12History Proofs.C12Schema Proofs.C12Schema2
  Proofs.C12Value Proofs.C12Value2.
Open Scope string_scope.

Section Main.
Variable words : list (string * bool).
Variable pu : units -> string -> option fl.

Lemma c12_order_partial :
  (forall vals vals' u, Permutation vals vals' -> forall f e v,
     unser words pu f e (SEnumInt vals u) v = unser words pu f e (SEnumInt vals' u) v /\
     validate words pu f e (SEnumInt vals u) v = validate words pu f e (SEnumInt vals' u) v /\
     serialize words pu f e (SEnumInt vals u) v = serialize words pu f e (SEnumInt vals' u) v /\
     compat words pu f e (SEnumInt vals u) v = compat words pu f e (SEnumInt vals' u) v) /\
  (forall n vals vals', Permutation vals vals' -> forall f e v,
     unser words pu f e (SEnumStr n vals) v = unser words pu f e (SEnumStr n vals') v /\
     validate words pu f e (SEnumStr n vals) v = validate words pu f e (SEnumStr n vals') v /\
     serialize words pu f e (SEnumStr n vals) v = serialize words pu f e (SEnumStr n vals') v /\
     compat words pu f e (SEnumStr n vals) v = compat words pu f e (SEnumStr n vals') v) /\
  (forall props props' set set', Permutation props props' -> (forall k, set k = set' k) ->
     is_ok (check_rules props set) = is_ok (check_rules props' set')) /\
  (forall (A : Type) (g : A -> outcome unit) l l', Permutation l l' -> is_ok (forM_ g l) = is_ok (forM_ g l')).
Proof.
  split; [exact (enum_int_order words pu)|]. split; [exact (enum_str_order words pu)|].
  split; [exact check_rules_order | exact (@forM_verdict_perm)].
Qed.

Lemma c12_lookups :
  (forall (A : Type) k (l l' : list (string * A)), nodup_str (map fst l) = true -> Permutation l l' ->
     alookup k l = alookup k l') /\
  (forall (types types' : list (okey * schema)) key, nodup_by okey_eqb (map fst types) = true -> Permutation types types' ->
     find (fun ks => okey_eqb (fst ks) key) types = find (fun ks => okey_eqb (fst ks) key) types').
Proof. split; [exact (@alookup_perm) | exact find_key_perm]. Qed.

Lemma c12_collision :
  exists e s v1 v2 r1 r2,
    perm_val v1 v2 /\ has_key_collision v1 = true /\
    unser words pu 10 e s v1 = Ok r1 /\ unser words pu 10 e s v2 = Ok r2 /\ ~ perm_val r1 r2.
Proof.
  exists d19_env, d19_schema, d19_v1, d19_v2, d19_r1, d19_r2.
  split; [exact d19_perm|]. split; [exact d19_collides|].
  split; [exact (proj1 (d19_results words pu))|]. split; [exact (proj2 (d19_results words pu)) | exact d19_not_perm].
Qed.

Lemma wf_schema_inv e s : wf_schema e s = true -> Inv wf_local e s.
Proof. intros H. unfold wf_schema in H. apply andb_prop in H. exact H. Qed.

(* all four operations: the accept / reject decision is independent of the order of every association list
   of the schema and of the environment's tables *)
Lemma c12_schema_order_all : forall f e e' s s' v,
  perm_env e e' -> nodup_env e = true -> perm_schema s s' -> wf_schema e s = true -> wf_schema e' s' = true ->
  is_ok (unser words pu f e s v) = is_ok (unser words pu f e' s' v) /\
  is_ok (validate words pu f e s v) = is_ok (validate words pu f e' s' v) /\
  is_ok (serialize words pu f e s v) = is_ok (serialize words pu f e' s' v) /\
  is_ok (compat words pu f e s v) = is_ok (compat words pu f e' s' v).
Proof.
  intros f e e' s s' v He Hnd Hs Hwf Hwf'.
  apply wf_schema_inv in Hwf. apply wf_schema_inv in Hwf'.
  destruct (ord_all words pu f e e' He Hnd) as (HV & _ & HS & HC).
  split; [exact (unser_order words pu f e e' s s' v He Hnd Hs Hwf)|].
  split; [exact (HV s s' v Hs Hwf Hwf')|]. split; [exact (HS s s' v Hs Hwf Hwf') | exact (HC s s' v Hs Hwf Hwf')].
Qed.

(* the value side: all four operations take the same decision on two arguments that differ only in the order
   of the entries of their maps (at any depth), when no two keys of one map read the same *)
Lemma c12_value_order_all : forall f e s v v',
  perm_val v v' -> wf_schema e s = true -> no_key_collision v = true ->
  is_ok (unser words pu f e s v) = is_ok (unser words pu f e s v') /\
  is_ok (validate words pu f e s v) = is_ok (validate words pu f e s v') /\
  is_ok (serialize words pu f e s v) = is_ok (serialize words pu f e s v') /\
  is_ok (compat words pu f e s v) = is_ok (compat words pu f e s v').
Proof.
  intros f e s v v' Hv Hwf Hnc.
  apply wf_schema_inv in Hwf. unfold no_key_collision in Hnc. apply Bool.negb_true_iff in Hnc.
  destruct (val_all words pu f e) as (HV & _ & HS & HC).
  split; [exact (unser_value words pu f e s v v' Hv Hnc Hwf)|].
  split; [exact (HV s v v' Hv Hnc Hwf)|]. split; [exact (HS s v v' Hv Hnc Hwf) | exact (HC s v v' Hv Hnc Hwf)].
Qed.

(* both sides at once *)
Lemma c12_order_verdict : forall f e e' s s' v v',
  perm_env e e' -> nodup_env e = true -> perm_schema s s' -> perm_val v v' ->
  wf_schema e s = true -> wf_schema e' s' = true -> no_key_collision v = true ->
  is_ok (unser words pu f e s v) = is_ok (unser words pu f e' s' v') /\
  is_ok (validate words pu f e s v) = is_ok (validate words pu f e' s' v') /\
  is_ok (serialize words pu f e s v) = is_ok (serialize words pu f e' s' v') /\
  is_ok (compat words pu f e s v) = is_ok (compat words pu f e' s' v').
Proof.
  intros f e e' s s' v v' He Hnd Hs Hv Hwf Hwf' Hnc.
  destruct (c12_value_order_all f e s v v' Hv Hwf Hnc) as (U1 & V1 & S1 & C1).
  destruct (c12_schema_order_all f e e' s s' v' He Hnd Hs Hwf Hwf') as (U2 & V2 & S2 & C2).
  split; [exact (eq_trans U1 U2)|]. split; [exact (eq_trans V1 V2)|].
  split; [exact (eq_trans S1 S2) | exact (eq_trans C1 C2)].
Qed.

End Main.
