(* Proofs/DescribeBase.v — induction principle for schemas (nested lists), and the small lemmas about
   outcomes, association lists and the size of values used by the C09 / C10 proofs. *)
From Coq Require Import Lia.
From Verif Require Import Base.Prelude Base.Str Base.Float Base.GoVal
  Schema.Regex Schema.Units Schema.Syntax Schema.Ops Schema.Describe.
Open Scope string_scope.

(* ---------- structural induction over schemas ---------- *)
Section SchemaInd.
Variable P : schema -> Prop.
Hypothesis HInt : forall mn mx u, P (SInt mn mx u).
Hypothesis HFloat : forall mn mx u, P (SFloat mn mx u).
Hypothesis HString : forall mn mx p, P (SString mn mx p).
Hypothesis HBool : P SBool.
Hypothesis HPattern : P SPattern.
Hypothesis HAny : P SAny.
Hypothesis HEnumInt : forall vals u, P (SEnumInt vals u).
Hypothesis HEnumStr : forall n vals, P (SEnumStr n vals).
Hypothesis HList : forall it mn mx, P it -> P (SList it mn mx).
Hypothesis HMap : forall k v mn mx, P k -> P v -> P (SMap k v mn mx).
Hypothesis HObject : forall id un props, Forall (fun np => P (p_type (snd np))) props -> P (SObject id un props).
Hypothesis HOneOf : forall types ik f i, Forall (fun km => P (snd km)) types -> P (SOneOf types ik f i).
Hypothesis HRef : forall id ns d, P (SRef id ns d).
Hypothesis HScope : forall os root, Forall (fun io => P (snd io)) os -> P (SScope os root).

Fixpoint schema_ind' (s : schema) : P s :=
  match s with
  | SInt mn mx u => HInt mn mx u
  | SFloat mn mx u => HFloat mn mx u
  | SString mn mx p => HString mn mx p
  | SBool => HBool
  | SPattern => HPattern
  | SAny => HAny
  | SEnumInt vals u => HEnumInt vals u
  | SEnumStr n vals => HEnumStr n vals
  | SList it mn mx => HList it mn mx (schema_ind' it)
  | SMap k v mn mx => HMap k v mn mx (schema_ind' k) (schema_ind' v)
  | SObject id un props =>
      HObject id un props
        ((fix go (l : list (string * property)) : Forall (fun np => P (p_type (snd np))) l :=
            match l with
            | [] => Forall_nil _
            | (n, mkProp t d r ri rin c df ex em di rs) :: tl =>
                Forall_cons (n, mkProp t d r ri rin c df ex em di rs) (schema_ind' t) (go tl)
            end) props)
  | SOneOf types ik f i =>
      HOneOf types ik f i
        ((fix go (l : list (okey * schema)) : Forall (fun km => P (snd km)) l :=
            match l with
            | [] => Forall_nil _
            | (k, m) :: tl => Forall_cons (k, m) (schema_ind' m) (go tl)
            end) types)
  | SRef id ns d => HRef id ns d
  | SScope os root =>
      HScope os root
        ((fix go (l : list (string * schema)) : Forall (fun io => P (snd io)) l :=
            match l with
            | [] => Forall_nil _
            | (i, o) :: tl => Forall_cons (i, o) (schema_ind' o) (go tl)
            end) os)
  end.
End SchemaInd.

(* ---------- outcomes that are a value or an error ---------- *)
Definition safe {A} (o : outcome A) : Prop :=
  match o with Panic _ | OutOfFuel => False | _ => True end.

Lemma safe_ok {A} (a : A) : safe (Ok a). Proof. exact I. Qed.
Lemma safe_err {A} (e : err) : safe (@Err A e). Proof. exact I. Qed.
Lemma safe_bind {A B} (o : outcome A) (k : A -> outcome B) :
  safe o -> (forall a, o = Ok a -> safe (k a)) -> safe (bind o k).
Proof. destruct o; cbn; intros H Hk; try contradiction; auto. Qed.

Lemma safe_mapM {A B} (g : A -> outcome B) l : (forall x, In x l -> safe (g x)) -> safe (mapM g l).
Proof.
  induction l as [|x t IH]; cbn; intros H; [exact I|].
  apply safe_bind; [apply H; left; reflexivity|]. intros y _.
  apply safe_bind; [apply IH; intros; apply H; right; assumption|]. intros; exact I.
Qed.

Lemma safe_fold {A B} (st : outcome B -> A -> outcome B) l :
  (forall acc x, In x l -> safe acc -> safe (st acc x)) -> forall acc, safe acc -> safe (fold_left st l acc).
Proof.
  induction l as [|x t IH]; cbn; intros H acc Ha; [exact Ha|].
  apply IH; [intros; apply H; [right|]; assumption|]. apply H; [left; reflexivity | exact Ha].
Qed.
