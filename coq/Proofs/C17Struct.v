(* Proofs/C17Struct.v — C17 over the STRUCT layer (Schema/XOps.v): single-fault path theorems for
   struct-mapped objects (NewStructMappedObjectSchema[T] / [*T]).

   Unserialize (convertData -> per-property Unserialize -> rules -> unserializeToStruct):
     struct_unser_prop_error    a property's error comes back with the property id in front
     struct_unser_unknown_key   an undeclared key: constraint error at the object (empty path)
     struct_unser_not_a_map     a non-map for an object that is not a one-property object: at the object
     struct_unser_rule          a violated presence rule: path [the declaring property]
     struct_unser_missing_required   (instance of the former)
     struct_to_struct_error_path     "Field cannot be set": path [the property being assigned]
   Validate / Serialize (validateStruct / serializeStruct on a native struct value):
     struct_validate_prop_error / struct_serialize_prop_error   field value rejected: property id in front
     struct_validate_wrong_type / struct_serialize_wrong_type   not exactly a T (or nil *T): at the object
     struct_validate_rule / struct_serialize_rule               presence rule: path [the declaring property]
   The statements speak about the property ID (the json tag), never about the Go field name, and about
   the field FieldByName / FieldByIndex resolves (fr_nidx / fr_idx): promoted fields of embedded structs
   are covered by the same statements.  Members that are not struct-mapped: x_embed_* carries the
   map-based theorems of Proofs/C17ObjectU.v over (struct_unser_prop_fault_embedded). *)
From Coq Require Import Lia.
From Verif Require Import Base.Prelude Base.Str Base.Float Base.GoVal Base.XReflect
  Schema.Regex Schema.Units Schema.Syntax Schema.Ops Schema.XSyntax Schema.XOps
  Proofs.OpsLemmas Proofs.XOpsEq Proofs.XPaths Proofs.XEmbed Proofs.C17ObjectU.
Open Scope string_scope.
Open Scope list_scope.

(* Ops.raw spelled out, so that every `Ok []` below elaborates to one and the same term *)
Local Notation raw := (list (string * gval)).

(* ---------- presence rules: the first violated rule is the one reported ---------- *)
Lemma xcheck_prop_rules_outcome {S} set name (p : property_ S) :
  xcheck_prop_rules set name p = Ok tt \/ xcheck_prop_rules set name p = Err (cerr_at [name] EPresence).
Proof.
  unfold xcheck_prop_rules. destruct (set name).
  - destruct (existsb set (p_conflicts p)); [right | left]; reflexivity.
  - destruct (p_required p); [right; reflexivity|].
    destruct (existsb set (p_required_if p)); [right; reflexivity|].
    destruct (p_required_if_not p) as [|a l]; [left; reflexivity|].
    destruct (existsb set (a :: l)); [left | right]; reflexivity.
Qed.

Lemma xcheck_rules_single {S} (ps1 : list (string * property_ S)) name p ps2 set :
  Forall (fun np => xcheck_prop_rules set (fst np) (snd np) = Ok tt) ps1 ->
  xcheck_prop_rules set name p <> Ok tt ->
  xcheck_rules (ps1 ++ (name, p) :: ps2) set = Err (cerr_at [name] EPresence).
Proof.
  intros Hok Hbad. unfold xcheck_rules. induction ps1 as [|np t IH]; cbn [app forM_].
  - cbn [fst snd]. destruct (xcheck_prop_rules_outcome set name p) as [E | E]; [contradiction|].
    rewrite E. reflexivity.
  - inversion Hok as [|np' l Hnp Hrest]; subst. rewrite Hnp. cbn [bind]. apply IH. exact Hrest.
Qed.

Lemma xexistsb_ext (f g : string -> bool) l : (forall a, f a = g a) -> existsb f l = existsb g l.
Proof. intro H. induction l as [|a t IH]; cbn [existsb]; [reflexivity | rewrite H, IH; reflexivity]. Qed.

Lemma xcheck_prop_rules_ext {S} set set' name (p : property_ S) : (forall k, set k = set' k) ->
  xcheck_prop_rules set name p = xcheck_prop_rules set' name p.
Proof.
  intro H. unfold xcheck_prop_rules. rewrite (H name).
  rewrite (xexistsb_ext set set' (p_conflicts p) H), (xexistsb_ext set set' (p_required_if p) H).
  destruct (p_required_if_not p) as [|a l]; [reflexivity|].
  rewrite (xexistsb_ext set set' (a :: l) H). reflexivity.
Qed.

Section C17Struct.
Variable words : list (string * bool).
Variable pu : units -> string -> option fl.
Notation xunser := (xunser words pu).
Notation xvalidate := (xvalidate words pu).
Notation xserialize := (xserialize words pu).

(* ================= Unserialize ================= *)

(* the object code path of XOps.xunser, with its folds named *)
Definition xconv_step (props : list (string * xproperty)) (acc : outcome raw) (kv : gval * gval) : outcome raw :=
  a <- acc ;;
  match fst kv with
  | VStr TStr k => if amem k props then Ok (a ++ [(k, snd kv)]) else Err (cerr EKey)
  | _ => Err (cerr EKey)
  end.

Definition xdflt_step (e : xenv) (a : raw) (np : string * xproperty) : raw :=
  if amem (fst np) a then a
  else match p_default (snd np) with
       | Some txt => match xdecode_default (xe_or e) (snd np) txt with
                     | Some d => a ++ [(fst np, d)]
                     | None => a
                     end
       | None => a
       end.

Definition xsub_step (f : nat) (e : xenv) (r0 : raw) (acc : outcome raw) (np : string * xproperty) : outcome raw :=
  a <- acc ;; if amem (fst np) r0 then Ok a else xsub_defaults f e (fst np) (snd np) a.

Definition xprop_step (f : nat) (e : xenv) (acc : outcome raw) (np : string * xproperty) : outcome raw :=
  a <- acc ;;
  match alookup (fst np) a with
  | Some d =>
      x <- seg (fst np) (if p_disabled (snd np) then Err (cerr EDisabled) else xunser f e (p_type (snd np)) d) ;;
      Ok (raw_set (fst np) x a)
  | None => Ok a
  end.

(* [xobj_data f e props mapped r0]: the data convertData hands to the per-property loop: the supplied
   entries r0, the declared defaults of absent properties and - struct-mapped objects only - the defaults
   propagated from sub-objects (applySubObjectDefaultValues) *)
Definition xobj_data (f : nat) (e : xenv) (props : list (string * xproperty)) (mapped : option structinfo)
    (r0 : raw) : outcome raw :=
  let r1 := fold_left (xdflt_step e) props r0 in
  match mapped with
  | None => Ok r1
  | Some _ => fold_left (xsub_step f e r0) props (Ok r1)
  end.

Definition xobj_unser (f : nat) (e : xenv) (props : list (string * xproperty)) (mapped : option structinfo)
    (v : gval) : outcome gval :=
  match v with
  | VMap _ _ kvs =>
      r0 <- fold_left (xconv_step props) kvs (Ok []) ;;
      rd <- xobj_data f e props mapped r0 ;;
      r2 <- fold_left (xprop_step f e) props (Ok rd) ;;
      _ <- xcheck_rules props (fun k => amem k r2) ;;
      match mapped with
      | None => Ok (raw_to_val r2)
      | Some si => xto_struct e si r2
      end
  | _ =>
      match props with
      | [(name, p)] =>
          x <- seg name (if p_disabled p then Err (cerr EDisabled) else xunser f e (p_type p) v) ;;
          _ <- xcheck_rules props (fun k => String.eqb k name) ;;
          match mapped with
          | None => Ok (raw_to_val [(name, x)])
          | Some si => xto_struct e si [(name, x)]
          end
      | _ => Err (cerr ERepr)
      end
  end.

Lemma xunser_object_eq f e id un props mapped v :
  xunser (S f) e (XObject id un props mapped) v = xobj_unser f e props mapped v.
Proof. reflexivity. Qed.

Lemma xconv_fold_err props l : forall er, fold_left (xconv_step props) l (Err er) = Err er.
Proof. induction l as [|kv t IH]; intro er; cbn [fold_left]; [reflexivity | apply IH]. Qed.

Lemma xconv_fold_ok props : forall r acc, Forall (fun kv => amem (fst kv) props = true) r ->
  fold_left (xconv_step props) (map (fun kv : string * gval => (VStr TStr (fst kv), snd kv)) r) (Ok acc) = Ok (acc ++ r).
Proof.
  induction r as [|[k v] t IH]; intros acc H; cbn [map fold_left].
  - rewrite app_nil_r. reflexivity.
  - inversion H as [|kv l Hk Hrest]; subst. cbn [fst snd] in *.
    replace (xconv_step props (Ok acc) (VStr TStr k, v)) with (@Ok raw (acc ++ [(k, v)])).
    2: { unfold xconv_step. cbn [bind fst snd]. rewrite Hk. reflexivity. }
    rewrite (IH (acc ++ [(k, v)]) Hrest). rewrite <- app_assoc. reflexivity.
Qed.

Lemma xconv_fold_extra props r1 k x r2 : Forall (fun kv => amem (fst kv) props = true) r1 ->
  amem k props = false ->
  fold_left (xconv_step props) (map (fun kv : string * gval => (VStr TStr (fst kv), snd kv)) (r1 ++ (k, x) :: r2)) (Ok [])
  = Err (cerr EKey).
Proof.
  intros H1 Hk. rewrite map_app, fold_left_app, (xconv_fold_ok props r1 [] H1). cbn [map fold_left app fst snd].
  replace (xconv_step props (Ok r1) (VStr TStr k, x)) with (@Err raw (cerr EKey)).
  2: { unfold xconv_step. cbn [bind fst snd]. rewrite Hk. reflexivity. }
  apply xconv_fold_err.
Qed.

Lemma xprop_fold_err f e l : forall er, fold_left (xprop_step f e) l (Err er) = Err er.
Proof. induction l as [|np t IH]; intro er; cbn [fold_left]; [reflexivity | apply IH]. Qed.

(* a property is fine w.r.t. the data r: absent, or enabled and its value accepted *)
Definition xprop_fine (f : nat) (e : xenv) (r : raw) (np : string * xproperty) : Prop :=
  match alookup (fst np) r with
  | Some d => p_disabled (snd np) = false /\ exists y, xunser f e (p_type (snd np)) d = Ok y
  | None => True
  end.

Lemma xprops_fold_ok f e : forall ps a, NoDup (map fst ps) -> Forall (xprop_fine f e a) ps ->
  exists a', fold_left (xprop_step f e) ps (Ok a) = Ok a' /\
             (forall k, amem k a' = amem k a) /\
             (forall k, ~ In k (map fst ps) -> alookup k a' = alookup k a).
Proof.
  induction ps as [|[n p] t IH]; intros a Hnd Hf; cbn [fold_left].
  - exists a. repeat split; reflexivity.
  - cbn [map fst] in Hnd. inversion Hnd as [|n0 l0 Hnotin Hnd']; subst.
    inversion Hf as [|np l Hnp Hrest]; subst.
    unfold xprop_step at 2. cbn [bind fst snd]. unfold xprop_fine in Hnp. cbn [fst snd] in Hnp.
    destruct (alookup n a) as [d|] eqn:Ed.
    + destruct Hnp as [Hdis (y & Hy)]. rewrite Hdis, Hy. cbn [seg map_err bind].
      assert (Hm : amem n a = true) by (unfold amem; rewrite Ed; reflexivity).
      assert (Hf' : Forall (xprop_fine f e (raw_set n y a)) t).
      { apply Forall_forall. intros np' Hin. pose proof (proj1 (Forall_forall _ _) Hrest np' Hin) as Hq.
        unfold xprop_fine in *. rewrite alookup_raw_set_other; [exact Hq|].
        intro E. apply Hnotin. subst n. apply in_map. exact Hin. }
      destruct (IH (raw_set n y a) Hnd' Hf') as (a' & Ha' & Hmem & Hlook).
      exists a'. split; [exact Ha'|]. split.
      * intro k. rewrite Hmem. apply amem_raw_set_member. exact Hm.
      * intros k Hk. cbn [map fst In] in Hk. rewrite Hlook by tauto.
        apply alookup_raw_set_other. intro E. apply Hk. left. exact E.
    + destruct (IH a Hnd' Hrest) as (a' & Ha' & Hmem & Hlook).
      exists a'. split; [exact Ha'|]. split; [exact Hmem|].
      intros k Hk. cbn [map fst In] in Hk. apply Hlook. tauto.
Qed.

Lemma xprops_fold_err f e ps1 name p ps2 r x er :
  NoDup (map fst (ps1 ++ (name, p) :: ps2)) -> Forall (xprop_fine f e r) ps1 ->
  alookup name r = Some x -> p_disabled p = false -> xunser f e (p_type p) x = Err er ->
  fold_left (xprop_step f e) (ps1 ++ (name, p) :: ps2) (Ok r) = Err (add_seg name er).
Proof.
  intros Hnd Hf Hx Hdis Hu. rewrite fold_left_app.
  assert (Hnd1 : NoDup (map fst ps1) /\ ~ In name (map fst ps1)).
  { rewrite map_app in Hnd. cbn [map fst] in Hnd. split.
    - apply NoDup_prefix in Hnd. exact Hnd.
    - apply NoDup_remove_2 in Hnd. intro Hin. apply Hnd. apply in_or_app. left. exact Hin. }
  destruct Hnd1 as [Hnd1 Hnot].
  destruct (xprops_fold_ok f e ps1 r Hnd1 Hf) as (a1 & Ha1 & _ & Hlook). rewrite Ha1.
  cbn [fold_left]. unfold xprop_step at 2. cbn [bind fst snd]. rewrite (Hlook name Hnot), Hx, Hdis, Hu.
  cbn [seg map_err bind]. apply xprop_fold_err.
Qed.

(* (a) a property's error comes back with the property id in front: T and *T, and the map-based form *)
Theorem struct_unser_prop_error f e id un ps1 name p ps2 mapped t nl r rd x er :
  Forall (fun kv => amem (fst kv) (ps1 ++ (name, p) :: ps2) = true) r ->
  NoDup (map fst (ps1 ++ (name, p) :: ps2)) ->
  xobj_data f e (ps1 ++ (name, p) :: ps2) mapped r = Ok rd ->
  Forall (xprop_fine f e rd) ps1 ->
  alookup name rd = Some x -> p_disabled p = false ->
  xunser f e (p_type p) x = Err er ->
  xunser (S f) e (XObject id un (ps1 ++ (name, p) :: ps2) mapped) (obj_val t nl r) = Err (add_seg name er).
Proof.
  intros Hdecl Hnd Hd Hf Hx Hdis Hu. rewrite xunser_object_eq. unfold xobj_unser, obj_val.
  rewrite (xconv_fold_ok _ r [] Hdecl). cbn [bind app]. rewrite Hd. cbn [bind].
  rewrite (xprops_fold_err f e ps1 name p ps2 rd x er Hnd Hf Hx Hdis Hu). reflexivity.
Qed.

(* (c) an undeclared key is reported at the object itself *)
Theorem struct_unser_unknown_key f e id un props mapped t nl r1 k x r2 :
  Forall (fun kv => amem (fst kv) props = true) r1 -> amem k props = false ->
  xunser (S f) e (XObject id un props mapped) (obj_val t nl (r1 ++ (k, x) :: r2)) = Err (cerr EKey).
Proof.
  intros H1 Hk. rewrite xunser_object_eq. unfold xobj_unser, obj_val.
  rewrite (xconv_fold_extra props r1 k x r2 H1 Hk). reflexivity.
Qed.

(* (c) a value that is not a map, for an object that does not have exactly one property *)
Theorem struct_unser_not_a_map f e id un props mapped v :
  (forall t nl l, v <> VMap t nl l) -> (forall name p, props <> [(name, p)]) ->
  xunser (S f) e (XObject id un props mapped) v = Err (cerr ERepr).
Proof.
  intros Hno Hsingle. rewrite xunser_object_eq. unfold xobj_unser.
  destruct v as [| t b | t z | t x | t s | t nl l | t nl l | t o | t fs | src | k d];
    try (destruct props as [|[n0 p0] [|q rest]]; try reflexivity; exfalso; exact (Hsingle n0 p0 eq_refl)).
  exfalso. exact (Hno t nl l eq_refl).
Qed.

(* (c) a violated presence rule is reported at the property that declares it *)
Theorem struct_unser_rule f e id un ps1 name p ps2 mapped t nl r0 rd :
  Forall (fun kv => amem (fst kv) (ps1 ++ (name, p) :: ps2) = true) r0 ->
  NoDup (map fst (ps1 ++ (name, p) :: ps2)) ->
  xobj_data f e (ps1 ++ (name, p) :: ps2) mapped r0 = Ok rd ->
  Forall (xprop_fine f e rd) (ps1 ++ (name, p) :: ps2) ->
  Forall (fun np => xcheck_prop_rules (fun k => amem k rd) (fst np) (snd np) = Ok tt) ps1 ->
  xcheck_prop_rules (fun k => amem k rd) name p <> Ok tt ->
  xunser (S f) e (XObject id un (ps1 ++ (name, p) :: ps2) mapped) (obj_val t nl r0) = Err (cerr_at [name] EPresence).
Proof.
  intros Hdecl Hnd Hd Hf Hok Hbad. rewrite xunser_object_eq. unfold xobj_unser, obj_val.
  rewrite (xconv_fold_ok _ r0 [] Hdecl). cbn [bind app]. rewrite Hd. cbn [bind].
  destruct (xprops_fold_ok f e _ rd Hnd Hf) as (a' & Ha' & Hmem & _). rewrite Ha'. cbn [bind].
  assert (E : xcheck_rules (ps1 ++ (name, p) :: ps2) (fun k => amem k a') = Err (cerr_at [name] EPresence)).
  { apply xcheck_rules_single.
    - eapply Forall_impl; [|exact Hok]. intros np H.
      rewrite (xcheck_prop_rules_ext (fun k => amem k a') (fun k => amem k rd) (fst np) (snd np) Hmem). exact H.
    - rewrite (xcheck_prop_rules_ext (fun k => amem k a') (fun k => amem k rd) name p Hmem). exact Hbad. }
  rewrite E. reflexivity.
Qed.

Corollary struct_unser_missing_required f e id un ps1 name p ps2 mapped t nl r0 rd :
  Forall (fun kv => amem (fst kv) (ps1 ++ (name, p) :: ps2) = true) r0 ->
  NoDup (map fst (ps1 ++ (name, p) :: ps2)) ->
  xobj_data f e (ps1 ++ (name, p) :: ps2) mapped r0 = Ok rd ->
  Forall (xprop_fine f e rd) (ps1 ++ (name, p) :: ps2) ->
  Forall (fun np => xcheck_prop_rules (fun k => amem k rd) (fst np) (snd np) = Ok tt) ps1 ->
  p_required p = true -> amem name rd = false ->
  xunser (S f) e (XObject id un (ps1 ++ (name, p) :: ps2) mapped) (obj_val t nl r0) = Err (cerr_at [name] EPresence).
Proof.
  intros Hdecl Hnd Hd Hf Hok Hreq Habs.
  apply (struct_unser_rule f e id un ps1 name p ps2 mapped t nl r0 rd Hdecl Hnd Hd Hf Hok).
  unfold xcheck_prop_rules. rewrite Habs, Hreq. discriminate.
Qed.

(* (c) unserializeToStruct: the only error it can raise is "Field cannot be set", at a property of the data *)
Lemma xto_struct_fold_err (e : xenv) (si : structinfo) : forall (r : raw) (acc : outcome gval) er,
  fold_left (fun acc kv =>
     cur <- acc ;;
     match alookup (fst kv) (si_fields si) with
     | None => Panic "property without a struct field"
     | Some fr =>
         match set_path ZFUEL (xe_structs e) cur (fr_idx fr) true (xassign (fr_type fr) (snd kv)) with
         | Some s' => Ok s'
         | None => Err (cerr_at [fst kv] EOther)
         end
     end) r acc = Err er ->
  acc = Err er \/ exists k, In k (map fst r) /\ er = cerr_at [k] EOther.
Proof.
  induction r as [|kv t IH]; intros acc er H; cbn [fold_left] in H; [left; exact H|].
  apply IH in H. destruct H as [H | (k & Hk & ->)].
  - destruct acc as [cur | er0 | w |]; cbn [bind] in H; try discriminate.
    + right. exists (fst kv). split; [left; reflexivity|].
      destruct (alookup (fst kv) (si_fields si)) as [fr|]; [|discriminate].
      destruct (set_path ZFUEL (xe_structs e) cur (fr_idx fr) true (xassign (fr_type fr) (snd kv))); [discriminate|].
      inversion H. reflexivity.
    + left. exact H.
  - right. exists k. split; [right; exact Hk | reflexivity].
Qed.

Theorem struct_to_struct_error_path e si r er :
  xto_struct e si r = Err er -> exists k, In k (map fst r) /\ er = cerr_at [k] EOther.
Proof.
  unfold xto_struct. intros H.
  match type of H with bind ?o _ = _ => destruct o as [s | er0 | w |] eqn:Ho end; cbn [bind] in H; try discriminate.
  inversion H; subst er0. apply xto_struct_fold_err in Ho. destruct Ho as [Ho | Ho]; [discriminate | exact Ho].
Qed.

(* ---------- convertData keeps what the caller supplied ---------- *)
Lemma xdflt_fold_lookup e : forall props (r : raw) k x,
  alookup k r = Some x -> alookup k (fold_left (xdflt_step e) props r) = Some x.
Proof.
  induction props as [|np t IH]; intros r k x H; cbn [fold_left]; [exact H|]. apply IH.
  unfold xdflt_step. destruct (amem (fst np) r); [exact H|].
  destruct (p_default (snd np)) as [txt|]; [|exact H].
  destruct (xdecode_default (xe_or e) (snd np) txt) as [d|]; [|exact H].
  rewrite C17ObjectU.alookup_app, H. reflexivity.
Qed.

(* applySubObjectDefaultValues touches the entry of its own property only *)
Lemma xsub_defaults_shape f e pid p (r r' : raw) :
  xsub_defaults f e pid p r = Ok r' -> r' = r \/ exists d, r' = raw_set pid d r.
Proof.
  destruct f as [|f]; [discriminate|]. cbn [xsub_defaults].
  destruct (xsub_object e (p_type p)) as [so | er | w |]; cbn [bind]; try discriminate.
  destruct so as [[o e']|]; [|intros H; inversion H; left; reflexivity].
  destruct o; try (intros H; inversion H; left; reflexivity).
  destruct (match mapped with Some si => si_ptr si | None => false end); [intros H; inversion H; left; reflexivity|].
  destruct (alookup pid r) as [d0|]; [destruct (is_str_any_map d0) as [kvs|]; [|intros H; inversion H; left; reflexivity]|];
  (cbv beta iota;
   match goal with |- (bind ?o _ = _ -> _) => destruct o as [data2 | | |] end; cbn [bind]; try discriminate;
   destruct data2; intros H; inversion H; [left; reflexivity | right; eexists; reflexivity]).
Qed.

Lemma xsub_fold_lookup f e (r0 : raw) : forall props (a rd : raw) k x,
  amem k r0 = true -> fold_left (xsub_step f e r0) props (Ok a) = Ok rd -> alookup k a = Some x -> alookup k rd = Some x.
Proof.
  induction props as [|np t IH]; intros a rd k x Hk H Hx; cbn [fold_left] in H.
  - inversion H; subst; exact Hx.
  - destruct (xsub_step f e r0 (Ok a) np) as [a1 | er | w |] eqn:Es.
    + eapply IH; [exact Hk | exact H |]. unfold xsub_step in Es. cbn [bind] in Es.
      destruct (amem (fst np) r0) eqn:Em.
      * inversion Es; subst; exact Hx.
      * apply xsub_defaults_shape in Es. destruct Es as [-> | (d & ->)]; [exact Hx|].
        rewrite alookup_raw_set_other; [exact Hx|]. intro E. subst k. congruence.
    + destruct (fold_bind_from_ok (fun (a : raw) (np : string * xproperty) =>
                  if amem (fst np) r0 then Ok a else xsub_defaults f e (fst np) (snd np) a) t _ _ H) as (a1 & E).
      discriminate E.
    + destruct (fold_bind_from_ok (fun (a : raw) (np : string * xproperty) =>
                  if amem (fst np) r0 then Ok a else xsub_defaults f e (fst np) (snd np) a) t _ _ H) as (a1 & E).
      discriminate E.
    + destruct (fold_bind_from_ok (fun (a : raw) (np : string * xproperty) =>
                  if amem (fst np) r0 then Ok a else xsub_defaults f e (fst np) (snd np) a) t _ _ H) as (a1 & E).
      discriminate E.
Qed.

Theorem xobj_data_supplied f e props mapped (r0 rd : raw) k x :
  xobj_data f e props mapped r0 = Ok rd -> alookup k r0 = Some x -> alookup k rd = Some x.
Proof.
  unfold xobj_data. intros H Hx. pose proof (xdflt_fold_lookup e props r0 k x Hx) as H1.
  destruct mapped as [si|]; [|inversion H; subst; exact H1].
  eapply xsub_fold_lookup; [|exact H|exact H1]. unfold amem. rewrite Hx. reflexivity.
Qed.

(* (a) in the form "the raw map SUPPLIES for `name` a value the property type rejects" *)
Corollary struct_unser_prop_error_supplied f e id un ps1 name p ps2 mapped t nl r rd x er :
  Forall (fun kv => amem (fst kv) (ps1 ++ (name, p) :: ps2) = true) r ->
  NoDup (map fst (ps1 ++ (name, p) :: ps2)) ->
  xobj_data f e (ps1 ++ (name, p) :: ps2) mapped r = Ok rd ->
  Forall (xprop_fine f e rd) ps1 ->
  alookup name r = Some x -> p_disabled p = false ->
  xunser f e (p_type p) x = Err er ->
  xunser (S f) e (XObject id un (ps1 ++ (name, p) :: ps2) mapped) (obj_val t nl r) = Err (add_seg name er).
Proof.
  intros Hdecl Hnd Hd Hf Hx Hdis Hu.
  apply (struct_unser_prop_error f e id un ps1 name p ps2 mapped t nl r rd x er Hdecl Hnd Hd Hf); try assumption.
  exact (xobj_data_supplied f e _ mapped r rd name x Hd Hx).
Qed.

(* ================= Validate ================= *)

Lemma xvfold_err f e si sv : forall l er,
  fold_left (fun (acc : outcome Ops.raw) (np : string * xproperty) => a <- acc ;; xvbody words pu f e si sv a np) l (Err er) = Err er.
Proof. induction l as [|np t IH]; intro er; cbn [fold_left bind]; [reflexivity | apply IH]. Qed.

Lemma xvbody_err f e si sv a np x er :
  xfield_value e si sv np = Some x -> xvalidate f e (p_type (snd np)) x = Err er ->
  xvbody words pu f e si sv a np = Err (add_seg (fst np) er).
Proof.
  unfold xfield_value, xvbody. destruct (alookup (fst np) (si_fields si)) as [fr|]; [|discriminate]. cbv zeta.
  destruct (xextract _ fr sv) as [[value vt]|]; [|discriminate].
  destruct (p_empty_is_default (snd np) && xis_empty _ _ vt value); [discriminate|].
  intros H Hv. inversion H; subst. rewrite Hv. reflexivity.
Qed.

(* (b) Validate: the field value of property `name` is rejected by the property type *)
Theorem struct_validate_prop_error f e id un ps1 name p ps2 si v sv x er :
  xstruct_arg si v = Some sv ->
  has_fields si ps1 ->
  (forall np y, In np ps1 -> xfield_value e si sv np = Some y -> xvalidate f e (p_type (snd np)) y = Ok tt) ->
  xfield_value e si sv (name, p) = Some x ->
  xvalidate f e (p_type p) x = Err er ->
  xvalidate (S f) e (XObject id un (ps1 ++ (name, p) :: ps2) (Some si)) v = Err (add_seg name er).
Proof.
  intros Harg Hf Hok Hx Hv. rewrite (xvalidate_S words pu). cbv beta iota zeta. rewrite Harg.
  change (fold_left _ (ps1 ++ (name, p) :: ps2) (Ok []))
    with (fold_left (fun (acc : outcome Ops.raw) (np : string * xproperty) => a <- acc ;; xvbody words pu f e si sv a np) (ps1 ++ (name, p) :: ps2) (@Ok Ops.raw [])).
  rewrite fold_left_app.
  rewrite (proj2 (xvfold_ok words pu f e si sv ps1 Hf [] ([] ++ xpresent e si sv ps1)) (conj Hok eq_refl)).
  cbn [fold_left]. cbn [bind].
  rewrite (xvbody_err f e si sv _ (name, p) x er Hx Hv). rewrite xvfold_err. reflexivity.
Qed.

(* (c) Validate: not exactly a T (wrong Go type, or a nil *T) *)
Theorem struct_validate_wrong_type f e id un props si v :
  xstruct_arg si v = None -> xvalidate (S f) e (XObject id un props (Some si)) v = Err (cerr ERepr).
Proof. intros H. rewrite (xvalidate_S words pu). cbv beta iota zeta. rewrite H. reflexivity. Qed.

(* (c) Validate: every present field accepted, a presence rule violated *)
Theorem struct_validate_rule f e id un ps1 name p ps2 si v sv :
  xstruct_arg si v = Some sv ->
  has_fields si (ps1 ++ (name, p) :: ps2) ->
  (forall np y, In np (ps1 ++ (name, p) :: ps2) -> xfield_value e si sv np = Some y ->
                xvalidate f e (p_type (snd np)) y = Ok tt) ->
  Forall (fun np => xcheck_prop_rules (fun k => amem k (xpresent e si sv (ps1 ++ (name, p) :: ps2))) (fst np) (snd np) = Ok tt) ps1 ->
  xcheck_prop_rules (fun k => amem k (xpresent e si sv (ps1 ++ (name, p) :: ps2))) name p <> Ok tt ->
  xvalidate (S f) e (XObject id un (ps1 ++ (name, p) :: ps2) (Some si)) v = Err (cerr_at [name] EPresence).
Proof.
  intros Harg Hf Hok Hr1 Hbad. rewrite (xvalidate_S words pu). cbv beta iota zeta. rewrite Harg.
  change (fold_left _ (ps1 ++ (name, p) :: ps2) (Ok []))
    with (fold_left (fun (acc : outcome Ops.raw) (np : string * xproperty) => a <- acc ;; xvbody words pu f e si sv a np) (ps1 ++ (name, p) :: ps2) (@Ok Ops.raw [])).
  rewrite (proj2 (xvfold_ok words pu f e si sv _ Hf [] ([] ++ xpresent e si sv _)) (conj Hok eq_refl)).
  cbn [bind app]. apply xcheck_rules_single; assumption.
Qed.

(* ================= Serialize ================= *)

Lemma xsfold_err f e si sv : forall l er,
  fold_left (fun (acc : outcome Ops.raw) (np : string * xproperty) => a <- acc ;; xsbody words pu f e si sv a np) l (Err er) = Err er.
Proof. induction l as [|np t IH]; intro er; cbn [fold_left bind]; [reflexivity | apply IH]. Qed.

Lemma xsbody_err f e si sv a np x er :
  xfield_value e si sv np = Some x -> xserialize f e (p_type (snd np)) x = Err er ->
  xsbody words pu f e si sv a np = Err (add_seg (fst np) er).
Proof.
  unfold xfield_value, xsbody. destruct (alookup (fst np) (si_fields si)) as [fr|]; [|discriminate]. cbv zeta.
  destruct (xextract _ fr sv) as [[value vt]|]; [|discriminate].
  destruct (p_empty_is_default (snd np) && xis_empty _ _ vt value); [discriminate|].
  intros H Hv. inversion H; subst. rewrite Hv. reflexivity.
Qed.

(* (b) Serialize *)
Theorem struct_serialize_prop_error f e id un ps1 name p ps2 si v sv x er :
  xstruct_arg si v = Some sv ->
  has_fields si ps1 ->
  (forall np y, In np ps1 -> xfield_value e si sv np = Some y -> exists w, xserialize f e (p_type (snd np)) y = Ok w) ->
  xfield_value e si sv (name, p) = Some x ->
  xserialize f e (p_type p) x = Err er ->
  xserialize (S f) e (XObject id un (ps1 ++ (name, p) :: ps2) (Some si)) v = Err (add_seg name er).
Proof.
  intros Harg Hf Hok Hx Hv. rewrite (xserialize_S words pu). cbv beta iota zeta. rewrite Harg.
  change (fold_left _ (ps1 ++ (name, p) :: ps2) (Ok []))
    with (fold_left (fun (acc : outcome Ops.raw) (np : string * xproperty) => a <- acc ;; xsbody words pu f e si sv a np) (ps1 ++ (name, p) :: ps2) (@Ok Ops.raw [])).
  rewrite fold_left_app.
  destruct (proj2 (xser_entries_exist words pu f e si sv ps1) Hok) as (ys & Hys).
  rewrite (proj2 (xsfold_ok words pu f e si sv ps1 Hf [] ([] ++ ys)) (ex_intro _ ys (conj Hys eq_refl))).
  cbn [fold_left]. cbn [bind].
  rewrite (xsbody_err f e si sv _ (name, p) x er Hx Hv). rewrite xsfold_err. reflexivity.
Qed.

Theorem struct_serialize_wrong_type f e id un props si v :
  xstruct_arg si v = None -> xserialize (S f) e (XObject id un props (Some si)) v = Err (cerr ERepr).
Proof. intros H. rewrite (xserialize_S words pu). cbv beta iota zeta. rewrite H. reflexivity. Qed.

Theorem struct_serialize_rule f e id un ps1 name p ps2 si v sv :
  xstruct_arg si v = Some sv ->
  has_fields si (ps1 ++ (name, p) :: ps2) ->
  (forall np y, In np (ps1 ++ (name, p) :: ps2) -> xfield_value e si sv np = Some y ->
                exists w, xserialize f e (p_type (snd np)) y = Ok w) ->
  Forall (fun np => xcheck_prop_rules (fun k => amem k (xpresent e si sv (ps1 ++ (name, p) :: ps2))) (fst np) (snd np) = Ok tt) ps1 ->
  xcheck_prop_rules (fun k => amem k (xpresent e si sv (ps1 ++ (name, p) :: ps2))) name p <> Ok tt ->
  xserialize (S f) e (XObject id un (ps1 ++ (name, p) :: ps2) (Some si)) v = Err (cerr_at [name] EPresence).
Proof.
  intros Harg Hf Hok Hr1 Hbad. rewrite (xserialize_S words pu). cbv beta iota zeta. rewrite Harg.
  change (fold_left _ (ps1 ++ (name, p) :: ps2) (Ok []))
    with (fold_left (fun (acc : outcome Ops.raw) (np : string * xproperty) => a <- acc ;; xsbody words pu f e si sv a np) (ps1 ++ (name, p) :: ps2) (@Ok Ops.raw [])).
  destruct (proj2 (xser_entries_exist words pu f e si sv _) Hok) as (ys & Hys).
  rewrite (proj2 (xsfold_ok words pu f e si sv _ Hf [] ([] ++ ys)) (ex_intro _ ys (conj Hys eq_refl))).
  cbn [bind app].
  assert (Hk : forall k, amem k ys = amem k (xpresent e si sv (ps1 ++ (name, p) :: ps2))).
  { intro k. apply x_amem_keys. eapply xser_entries_keys. exact Hys. }
  assert (E : xcheck_rules (ps1 ++ (name, p) :: ps2) (fun k => amem k ys) = Err (cerr_at [name] EPresence)).
  { apply xcheck_rules_single.
    - eapply Forall_impl; [|exact Hr1]. intros np H.
      rewrite (xcheck_prop_rules_ext (fun k => amem k ys) _ (fst np) (snd np) Hk). exact H.
    - rewrite (xcheck_prop_rules_ext (fun k => amem k ys) _ name p Hk). exact Hbad. }
  rewrite E. reflexivity.
Qed.

(* ================= members that are not struct-mapped: the map-based theorems carry over ================= *)

(* the member type is a map-based schema s0 (embed s0): the position of the single fault inside the member is the
   position relation of Proofs/C17ObjectU.v, the path is the property id followed by the path to the fault *)
Corollary struct_unser_prop_fault_embedded st e0 f id un ps1 name p ps2 mapped t nl r rd x s0 q :
  Forall (fun kv => amem (fst kv) (ps1 ++ (name, p) :: ps2) = true) r ->
  NoDup (map fst (ps1 ++ (name, p) :: ps2)) ->
  xobj_data f (embed_env st e0) (ps1 ++ (name, p) :: ps2) mapped r = Ok rd ->
  Forall (xprop_fine f (embed_env st e0) rd) ps1 ->
  alookup name rd = Some x -> p_disabled p = false ->
  p_type p = embed s0 -> fault_uo words pu e0 f s0 x q ->
  exists c, xunser (S f) (embed_env st e0) (XObject id un (ps1 ++ (name, p) :: ps2) mapped) (obj_val t nl r)
            = Err (mkErr true (name :: q) c).
Proof.
  intros Hdecl Hnd Hd Hf Hx Hdis Hty Hfault.
  destruct (single_fault_path_unser_all words pu e0 f s0 x q Hfault) as (c & Hc). exists c.
  rewrite (struct_unser_prop_error f (embed_env st e0) id un ps1 name p ps2 mapped t nl r rd x (mkErr true q c)
             Hdecl Hnd Hd Hf Hx Hdis); [reflexivity|].
  rewrite Hty, (x_embed_unser st words pu). exact Hc.
Qed.

End C17Struct.
