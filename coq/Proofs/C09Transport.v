(* Proofs/C09Transport.v — the meta-schema reader does not see what a CBOR round trip changes.
   `wire v`: v is built from int / float64 / string / bool leaves, slices and maps (what SelfSerialize
   produces).  For every wire value and every depth n, every reader of Schema/Describe.v gives the same
   result on `cbor_norm n v` (maps become map[any]any, slices []any, non-negative integers uint64) as on v. *)
From Coq Require Import Lia.
From Verif Require Import Base.Prelude Base.Str Base.Float Base.GoVal
  Schema.Regex Schema.Units Schema.Syntax Schema.Ops Schema.Cbor Schema.Describe
  Proofs.DescribeBase Proofs.C09Describe Proofs.C09Behaviour.
Open Scope string_scope.

Fixpoint wire (v : gval) : bool :=
  match v with
  | VNil => true
  | VInt (TInt _) _ => true
  | VFloat TF64 _ => true
  | VStr TStr _ => true
  | VBool TBool _ => true
  | VSlice _ _ l => forallb wire l
  | VMap _ _ kvs => forallb (fun kv => match kv with (k, x) => wire k && wire x end) kvs
  | _ => false
  end.
Definition wire_kv (kv : gval * gval) : bool := match kv with (k, x) => wire k && wire x end.

Definition Np (n : nat) (kv : gval * gval) : gval * gval := (cbor_norm n (fst kv), cbor_norm n (snd kv)).
Lemma norm_map n t b kvs : cbor_norm (S n) (VMap t b kvs) = VMap t_any_map false (map (Np n) kvs).
Proof. reflexivity. Qed.
Lemma norm_slice n t b l : cbor_norm (S n) (VSlice t b l) = VSlice t_any_slice false (map (cbor_norm n) l).
Proof. reflexivity. Qed.
Lemma wire_map t b kvs : wire (VMap t b kvs) = forallb wire_kv kvs.
Proof. reflexivity. Qed.
Lemma norm_skey n s : cbor_norm n (VStr TStr s) = VStr TStr s.
Proof. destruct n; reflexivity. Qed.

Definition inv {A} (R : gval -> outcome A) : Prop := forall n v, wire v = true -> R (cbor_norm n v) = R v.
Definition invo {A} (R : gval -> option A) : Prop := forall n v, wire v = true -> R (cbor_norm n v) = R v.
Definition tagfree {A} (R : gval -> outcome A) : Prop := forall t b t' b' l, R (VMap t b l) = R (VMap t' b' l).

(* a leaf: decide the tag, compute *)
Ltac leafcase Hw :=
  match goal with t : gtype |- _ => destruct t; try discriminate Hw end; cbn [cbor_norm];
  try (match goal with |- context [Z.leb 0 ?z] => destruct (Z.leb 0 z) end); reflexivity.
(* the six shapes of a wire value, at depth S n *)
Ltac start n v Hw :=
  intros n v Hw; destruct n as [|n]; [reflexivity|];
  destruct v as [|t b0|t z|t f0|t s|t b0 l|t b0 l|t o|t fs0|src|ok d]; try discriminate Hw; [reflexivity | ..].

Lemma int_mapper_norm u : invo (int_mapper u).
Proof. start n v Hw; [leafcase Hw | leafcase Hw | leafcase Hw | leafcase Hw | reflexivity | reflexivity]. Qed.
Lemma float_mapper_norm pu u : invo (float_mapper pu u).
Proof. start n v Hw; [leafcase Hw | leafcase Hw | leafcase Hw | leafcase Hw | reflexivity | reflexivity]. Qed.
Lemma string_mapper_norm : invo string_mapper.
Proof. start n v Hw; [leafcase Hw | leafcase Hw | leafcase Hw | leafcase Hw | reflexivity | reflexivity]. Qed.
Lemma bool_unser_norm words : inv (bool_unser words).
Proof. start n v Hw; [leafcase Hw | leafcase Hw | leafcase Hw | leafcase Hw | reflexivity | reflexivity]. Qed.
Definition is_skey (kv : gval * gval) : bool := match fst kv with VStr TStr _ => true | _ => false end.
Lemma is_skey_norm n k x : wire k = true -> is_skey (Np n (k, x)) = is_skey (k, x).
Proof.
  intros Hw. unfold is_skey, Np. cbn [fst snd]. destruct n as [|n]; [reflexivity|].
  destruct k as [|t b0|t z|t f0|t s|t b0 l|t b0 l|t o|t fs0|src|ok d]; try discriminate Hw;
    [reflexivity | leafcase Hw | leafcase Hw | leafcase Hw | leafcase Hw | reflexivity | reflexivity].
Qed.

(* ---------- scalar readers ---------- *)
Lemma rd_int_norm mn mx u : inv (rd_int mn mx u).
Proof. intros n v Hw. unfold rd_int. rewrite int_mapper_norm by exact Hw. reflexivity. Qed.
Lemma rd_float_norm pu : inv (rd_float pu).
Proof. intros n v Hw. unfold rd_float. rewrite float_mapper_norm by exact Hw. reflexivity. Qed.
Lemma rd_str_norm mn mx pat : inv (rd_str mn mx pat).
Proof. intros n v Hw. unfold rd_str. rewrite string_mapper_norm by exact Hw. reflexivity. Qed.
Lemma rd_any_str_norm : inv rd_any_str.
Proof. apply rd_str_norm. Qed.
Lemma rd_id_norm : inv rd_id.
Proof. apply rd_str_norm. Qed.
Lemma rd_bool_norm words : inv (rd_bool words).
Proof. intros n v Hw. unfold rd_bool. rewrite bool_unser_norm by exact Hw. reflexivity. Qed.
Lemma rd_pattern_norm rp : inv (rd_pattern rp).
Proof. intros n v Hw. unfold rd_pattern. rewrite string_mapper_norm by exact Hw. reflexivity. Qed.

Lemma mapM_norm {A} (r : gval -> outcome A) n l :
  inv r -> forallb wire l = true -> mapM r (map (cbor_norm n) l) = mapM r l.
Proof.
  intros Hr. induction l as [|x tl IH]; cbn [map mapM forallb]; intros H; [reflexivity|].
  apply andb_prop in H. destruct H as [Hx Ht]. rewrite Hr by exact Hx. rewrite IH by exact Ht. reflexivity.
Qed.
Lemma rd_strs_norm : inv rd_strs.
Proof.
  start n v Hw; [leafcase Hw | leafcase Hw | leafcase Hw | leafcase Hw | | reflexivity].
  rewrite norm_slice. cbn [rd_strs]. apply mapM_norm; [apply rd_any_str_norm | exact Hw].
Qed.

(* ---------- struct-mapped objects: conv_fields, opt_field, req_field ---------- *)
Definition nf (n : nat) (fs : fields) : fields := map (fun kx => (fst kx, cbor_norm n (snd kx))) fs.
Definition fm (n : nat) (o : outcome fields) : outcome fields := match o with Ok a => Ok (nf n a) | x => x end.
Definition cf_step (allowed : list string) (acc : outcome fields) (kv : gval * gval) : outcome fields :=
  a <- acc ;;
  match fst kv with
  | VStr TStr k => if str_in k allowed then Ok (a ++ [(k, snd kv)])%list else Err (cerr EKey)
  | _ => Err (cerr EKey)
  end.
Lemma conv_fields_step allowed t b kvs : conv_fields allowed (VMap t b kvs) = fold_left (cf_step allowed) kvs (Ok []).
Proof. reflexivity. Qed.

Lemma cf_step_norm allowed n acc kv :
  wire (fst kv) = true -> cf_step allowed (fm n acc) (Np n kv) = fm n (cf_step allowed acc kv).
Proof.
  intros Hw. destruct kv as [k x]. cbn [fst] in Hw. unfold cf_step, Np. cbn [fst snd].
  destruct acc as [a|e|w|]; cbn [fm bind]; try reflexivity.
  destruct n as [|n].
  - cbn [cbor_norm]. destruct k as [|t b0|t z|t f0|t s|t b0 l|t b0 l|t o|t fs0|src|ok d]; try reflexivity.
    destruct t; try reflexivity. destruct (str_in s allowed); [|reflexivity].
    cbn [fm]. unfold nf. rewrite map_app. reflexivity.
  - destruct k as [|t b0|t z|t f0|t s|t b0 l|t b0 l|t o|t fs0|src|ok d]; try discriminate Hw; try reflexivity;
      destruct t; try discriminate Hw; cbn [cbor_norm]; try reflexivity.
    + match goal with |- context [Z.leb 0 ?z] => destruct (Z.leb 0 z) end; reflexivity.
    + destruct (str_in s allowed); [|reflexivity]. cbn [fm]. unfold nf. rewrite map_app. reflexivity.
Qed.

Lemma forallb_In {A} (f : A -> bool) l x : forallb f l = true -> In x l -> f x = true.
Proof. intros H Hin. rewrite forallb_forall in H. apply H. exact Hin. Qed.

Lemma conv_fields_norm allowed n t b kvs :
  forallb wire_kv kvs = true ->
  conv_fields allowed (cbor_norm (S n) (VMap t b kvs)) = fm n (conv_fields allowed (VMap t b kvs)).
Proof.
  intros Hw. rewrite norm_map, !conv_fields_step.
  change (Ok [] : outcome fields) with (fm n (Ok [])) at 1.
  generalize (Ok [] : outcome fields) as acc. revert Hw.
  induction kvs as [|kv tl IH]; intros Hw acc; [reflexivity|].
  cbn [forallb] in Hw. apply andb_prop in Hw. destruct Hw as [Hkv Ht].
  cbn [map fold_left]. rewrite cf_step_norm.
  - apply IH. exact Ht.
  - destruct kv as [k x]. cbn in Hkv |- *. apply andb_prop in Hkv. apply Hkv.
Qed.

Definition wfields (fs : fields) : Prop := Forall (fun kx : string * gval => wire (snd kx) = true) fs.
Lemma conv_fields_wire allowed t b kvs fs :
  forallb wire_kv kvs = true -> conv_fields allowed (VMap t b kvs) = Ok fs -> wfields fs.
Proof.
  rewrite conv_fields_step. intros Hw.
  assert (G : forall acc, match acc with Ok a => wfields a | _ => True end ->
                          match fold_left (cf_step allowed) kvs acc with Ok a => wfields a | _ => True end).
  { revert Hw. induction kvs as [|kv tl IH]; intros Hw acc Hacc; [exact Hacc|].
    cbn [forallb] in Hw. apply andb_prop in Hw. destruct Hw as [Hkv Ht]. cbn [fold_left]. apply IH; [exact Ht|].
    destruct acc as [a|e|w|]; cbn; try exact I. destruct kv as [k x]. cbn [fst snd].
    cbn in Hkv. apply andb_prop in Hkv. destruct Hkv as [_ Hx].
    destruct k; try exact I. destruct t0; try exact I. destruct (str_in s allowed); [|exact I].
    apply Forall_app. split; [exact Hacc|]. constructor; [exact Hx | constructor]. }
  intros E. specialize (G (Ok []) (Forall_nil _)). rewrite E in G. exact G.
Qed.

Lemma alookup_nf n k fs : alookup k (nf n fs) = option_map (cbor_norm n) (alookup k fs).
Proof.
  induction fs as [|[k' x] tl IH]; [reflexivity|]. cbn. destruct (String.eqb k k'); [reflexivity | exact IH].
Qed.
Lemma alookup_wire k fs x : wfields fs -> alookup k fs = Some x -> wire x = true.
Proof.
  induction 1 as [|[k' y] tl Hy _ IH]; cbn; [discriminate|].
  destruct (String.eqb k k'); [intros [= <-]; exact Hy | exact IH].
Qed.
Lemma opt_field_norm {A} (r : gval -> outcome A) n fs k :
  inv r -> wfields fs -> opt_field (nf n fs) k r = opt_field fs k r.
Proof.
  intros Hr HF. unfold opt_field. rewrite alookup_nf. destruct (alookup k fs) as [x|] eqn:E; [|reflexivity].
  cbn [option_map]. rewrite Hr by (eapply alookup_wire; eassumption). reflexivity.
Qed.
Lemma req_field_norm {A} (r : gval -> outcome A) n fs k :
  inv r -> wfields fs -> req_field (nf n fs) k r = req_field fs k r.
Proof.
  intros Hr HF. unfold req_field. rewrite alookup_nf. destruct (alookup k fs) as [x|] eqn:E; [|reflexivity].
  cbn [option_map]. apply Hr. eapply alookup_wire; eassumption.
Qed.

(* ---------- maps ---------- *)
Lemma fold_left_ext_in {A B} (f g : A -> B -> A) l :
  (forall a x, In x l -> f a x = g a x) -> forall a, fold_left f l a = fold_left g l a.
Proof.
  induction l as [|x t IH]; intros H a; cbn; [reflexivity|]. rewrite H by (left; reflexivity).
  apply IH. intros a' y Hy. apply H. right. exact Hy.
Qed.
Lemma rd_map_norm {K V} (rk : gval -> outcome K) (rv : gval -> outcome V) keq mn :
  inv rk -> inv rv -> inv (rd_map rk rv keq mn).
Proof.
  intros Hk Hv. start n v Hw; [leafcase Hw | leafcase Hw | leafcase Hw | leafcase Hw | reflexivity |].
  rewrite norm_map. rewrite wire_map in Hw. cbn [rd_map]. unfold zlen. rewrite map_length.
  destruct (size_ok mn None (Z.of_nat (List.length l))); [|reflexivity].
  rewrite fold_left_map. apply fold_left_ext_in. intros a [k x] Hin.
  pose proof (forallb_In _ _ _ Hw Hin) as Hkx. cbn in Hkx. apply andb_prop in Hkx. destruct Hkx as [Hwk Hwx].
  destruct a as [a|e|w|]; cbn [bind]; try reflexivity. cbn [Np fst snd].
  rewrite Hk by exact Hwk. rewrite Hv by exact Hwx. reflexivity.
Qed.

(* ---------- the readers of the meta-schema ---------- *)
Create HintDb inv.
#[local] Hint Resolve rd_int_norm rd_float_norm rd_str_norm rd_any_str_norm rd_id_norm rd_bool_norm rd_pattern_norm
  rd_strs_norm rd_map_norm : inv.

(* a reader that starts with conv_fields *)
Ltac fields_norm HF :=
  repeat first [ rewrite opt_field_norm by first [exact HF | eauto with inv]
               | rewrite req_field_norm by first [exact HF | eauto with inv] ].
Ltac struct_reader n v Hw :=
  start n v Hw; [leafcase Hw | leafcase Hw | leafcase Hw | leafcase Hw | reflexivity |];
  rewrite wire_map in Hw;
  match goal with
  | |- ?R (cbor_norm (S n) (VMap ?t ?b ?l)) = _ =>
      let R' := eval hnf in R in idtac
  end.
Ltac after_conv n Hw :=
  rewrite (conv_fields_norm _ n _ _ _ Hw);
  match goal with
  | |- context [conv_fields ?ks (VMap ?t ?b ?l)] =>
      let fs := fresh "fs" in let E := fresh "E" in let HF := fresh "HF" in
      destruct (conv_fields ks (VMap t b l)) as [fs|?|?|] eqn:E; cbn [fm bind]; try reflexivity;
      pose proof (conv_fields_wire _ _ _ _ _ Hw E) as HF; fields_norm HF; try reflexivity
  end.

Lemma rd_display_norm : inv rd_display.
Proof. struct_reader n v Hw. unfold rd_display. after_conv n Hw. Qed.
#[local] Hint Resolve rd_display_norm : inv.
Lemma rd_unit_norm : inv rd_unit.
Proof. struct_reader n v Hw. unfold rd_unit. after_conv n Hw. Qed.
#[local] Hint Resolve rd_unit_norm : inv.
Lemma rd_units_norm : inv rd_units.
Proof. struct_reader n v Hw. unfold rd_units. after_conv n Hw. Qed.
#[local] Hint Resolve rd_units_norm : inv.
Lemma mp_int_norm : inv mp_int.
Proof. struct_reader n v Hw. unfold mp_int. after_conv n Hw. Qed.
Lemma mp_float_norm pu : inv (mp_float pu).
Proof. struct_reader n v Hw. unfold mp_float. after_conv n Hw. Qed.
Lemma mp_string_norm cu rp : inv (mp_string cu rp).
Proof. struct_reader n v Hw. unfold mp_string. after_conv n Hw. Qed.
Lemma parse_empty_norm sch : inv (parse_empty sch).
Proof. struct_reader n v Hw. unfold parse_empty. after_conv n Hw. Qed.
Lemma parse_enum_int_norm : inv parse_enum_int.
Proof. struct_reader n v Hw. unfold parse_enum_int. after_conv n Hw. Qed.
Lemma parse_enum_str_norm : inv parse_enum_str.
Proof. struct_reader n v Hw. unfold parse_enum_str. after_conv n Hw. Qed.
Lemma parse_ref_norm : inv parse_ref.
Proof. struct_reader n v Hw. unfold parse_ref. after_conv n Hw. Qed.
#[local] Hint Resolve mp_int_norm mp_float_norm mp_string_norm parse_empty_norm parse_enum_int_norm
  parse_enum_str_norm parse_ref_norm : inv.

(* ---------- the one-of over type_id ---------- *)
Lemma oneof_split_eq t b kvs :
  oneof_split (VMap t b kvs) =
  if forallb is_skey kvs then
    match smap_get "type_id" kvs with
    | None => Err (cerr EKey)
    | Some d => match string_mapper d with
                | None => Err (cerr ERepr)
                | Some tid => Ok (tid, VMap t_str_map false (smap_del "type_id" kvs))
                end
    end
  else Err (cerr EKey).
Proof. reflexivity. Qed.

Lemma skeys_norm n kvs : forallb wire_kv kvs = true -> forallb is_skey (map (Np n) kvs) = forallb is_skey kvs.
Proof.
  induction kvs as [|[k x] tl IH]; cbn [map forallb]; intros Hw; [reflexivity|].
  apply andb_prop in Hw. destruct Hw as [Hkx Ht]. cbn in Hkx. apply andb_prop in Hkx. destruct Hkx as [Hk _].
  rewrite IH by exact Ht. rewrite is_skey_norm by exact Hk. reflexivity.
Qed.
Lemma smap_get_norm n k kvs :
  forallb is_skey kvs = true -> smap_get k (map (Np n) kvs) = option_map (cbor_norm n) (smap_get k kvs).
Proof.
  induction kvs as [|[k0 x] tl IH]; cbn [map forallb]; intros C; [reflexivity|].
  apply andb_prop in C. destruct C as [C1 C2]. unfold is_skey in C1. cbn [fst] in C1.
  destruct k0; try discriminate C1. destruct t; try discriminate C1.
  unfold Np at 1. cbn [fst snd]. rewrite norm_skey. cbn [smap_get].
  destruct (String.eqb k s); [reflexivity | apply IH; exact C2].
Qed.
Lemma smap_del_norm n k kvs :
  forallb is_skey kvs = true -> smap_del k (map (Np n) kvs) = map (Np n) (smap_del k kvs).
Proof.
  induction kvs as [|[k0 x] tl IH]; cbn [map forallb]; intros C; [reflexivity|].
  apply andb_prop in C. destruct C as [C1 C2]. unfold is_skey in C1. cbn [fst] in C1.
  destruct k0; try discriminate C1. destruct t; try discriminate C1.
  unfold Np at 1. cbn [fst snd]. rewrite norm_skey. cbn [smap_del].
  destruct (String.eqb k s); [apply IH; exact C2|].
  cbn [map]. rewrite IH by exact C2. unfold Np at 2. cbn [fst snd]. rewrite norm_skey. reflexivity.
Qed.
Lemma smap_get_wire k kvs d : forallb wire_kv kvs = true -> smap_get k kvs = Some d -> wire d = true.
Proof.
  induction kvs as [|[k0 x] tl IH]; cbn [forallb]; intros Hw G; [discriminate G|].
  apply andb_prop in Hw. destruct Hw as [Hkx Ht]. cbn in Hkx. apply andb_prop in Hkx. destruct Hkx as [_ Hx].
  destruct k0; cbn [smap_get] in G; try (apply IH; assumption).
  destruct (String.eqb k s); [injection G as <-; exact Hx | apply IH; assumption].
Qed.
Lemma smap_del_wire k kvs : forallb wire_kv kvs = true -> forallb wire_kv (smap_del k kvs) = true.
Proof.
  induction kvs as [|[k0 x] tl IH]; cbn [forallb]; intros Hw; [reflexivity|].
  apply andb_prop in Hw. destruct Hw as [Hkx Ht]. specialize (IH Ht).
  destruct k0; cbn [smap_del forallb]; try (rewrite Hkx, IH; reflexivity).
  destruct (String.eqb k s); [exact IH | cbn [forallb]; rewrite Hkx, IH; reflexivity].
Qed.

Definition retag (n : nat) (v : gval) : gval :=
  match v with VMap _ _ l => VMap t_str_map false (map (Np n) l) | x => x end.
Lemma oneof_split_norm n t b kvs :
  forallb wire_kv kvs = true ->
  oneof_split (cbor_norm (S n) (VMap t b kvs)) = tv <- oneof_split (VMap t b kvs) ;; Ok (fst tv, retag n (snd tv)).
Proof.
  intros Hw. rewrite norm_map, !oneof_split_eq. rewrite skeys_norm by exact Hw.
  destruct (forallb is_skey kvs) eqn:C; [|reflexivity].
  rewrite smap_get_norm by exact C. destruct (smap_get "type_id" kvs) as [d|] eqn:G; cbn [option_map]; [|reflexivity].
  rewrite string_mapper_norm by (eapply smap_get_wire; eassumption).
  destruct (string_mapper d); [|reflexivity]. rewrite smap_del_norm by exact C. reflexivity.
Qed.
Lemma inv_retag {A} (R : gval -> outcome A) n t b l :
  tagfree R -> inv R -> forallb wire_kv l = true -> R (retag n (VMap t b l)) = R (VMap t b l).
Proof.
  intros Ht Hi Hw. cbn [retag]. rewrite (Ht t_str_map false t_any_map false). rewrite <- (norm_map n t b l).
  apply Hi. exact Hw.
Qed.
Lemma split_dispatch_norm {A} (K : string -> gval -> outcome A) :
  (forall tid, tagfree (K tid)) -> (forall tid, inv (K tid)) ->
  inv (fun v => tv <- oneof_split v ;; K (fst tv) (snd tv)).
Proof.
  intros Ht Hi. start n v Hw; [leafcase Hw | leafcase Hw | leafcase Hw | leafcase Hw | reflexivity |].
  rewrite wire_map in Hw. cbv beta. rewrite oneof_split_norm by exact Hw. rewrite oneof_split_eq.
  destruct (forallb is_skey l); [|reflexivity]. destruct (smap_get "type_id" l); [|reflexivity].
  destruct (string_mapper g); [|reflexivity]. cbn [bind fst snd].
  apply inv_retag; [apply Ht | apply Hi | apply smap_del_wire; exact Hw].
Qed.

Ltac disp_tf :=
  intros tid t b t' b' l; cbv beta;
  repeat match goal with |- (if ?c then _ else _) = _ => destruct c end; reflexivity.
Ltac disp_inv :=
  let n0 := fresh "n" in let v0 := fresh "v" in let Hw0 := fresh "Hw" in
  intros tid n0 v0 Hw0; cbv beta;
  repeat match goal with |- (if ?c then _ else _) = _ => destruct c end; try reflexivity;
  match goal with
  | |- ?R (cbor_norm _ _) = _ => let H := fresh in assert (H : inv R) by eauto with inv; exact (H n0 v0 Hw0)
  end.

Lemma parse_key_norm cu rp : inv (parse_key cu rp).
Proof.
  intros n v Hw.
  exact (split_dispatch_norm
           (fun tid rest => if String.eqb tid "integer" then mp_int rest
                            else if String.eqb tid "string" then mp_string cu rp rest else Err (cerr EKey))
           ltac:(disp_tf) ltac:(disp_inv) n v Hw).
Qed.
#[local] Hint Resolve parse_key_norm : inv.

Section Rec.
Variable words : list (string * bool).
Variable rec : gval -> outcome schema.
Hypothesis Hrec : inv rec.
#[local] Hint Resolve Hrec : inv.

Lemma parse_property_norm : inv (parse_property words rec).
Proof. struct_reader n v Hw. unfold parse_property. after_conv n Hw. Qed.
#[local] Hint Resolve parse_property_norm : inv.
Lemma parse_object_norm : inv (parse_object words rec).
Proof. struct_reader n v Hw. unfold parse_object. after_conv n Hw. Qed.
#[local] Hint Resolve parse_object_norm : inv.
Lemma parse_scope_norm : inv (parse_scope words rec).
Proof. struct_reader n v Hw. unfold parse_scope. after_conv n Hw. Qed.
#[local] Hint Resolve parse_scope_norm : inv.
Lemma parse_member_norm : inv (parse_member words rec).
Proof.
  intros n v Hw.
  exact (split_dispatch_norm
           (fun tid rest => if String.eqb tid "ref" then parse_ref rest
                            else if String.eqb tid "scope" then parse_scope words rec rest
                            else if String.eqb tid "object" then parse_object words rec rest
                            else Err (cerr EKey))
           ltac:(disp_tf) ltac:(disp_inv) n v Hw).
Qed.
#[local] Hint Resolve parse_member_norm : inv.
Lemma okey_reader_norm ik :
  inv (fun k => if ik : bool then z <- rd_int None None None k ;; Ok (KI z) else s <- rd_any_str k ;; Ok (KS s)).
Proof.
  intros n v Hw. destruct ik; cbv beta iota;
    [rewrite (rd_int_norm None None None n v Hw) | rewrite (rd_any_str_norm n v Hw)]; reflexivity.
Qed.
#[local] Hint Resolve okey_reader_norm : inv.
Lemma parse_oneof_norm ik : inv (parse_oneof words rec ik).
Proof. struct_reader n v Hw. unfold parse_oneof. after_conv n Hw. Qed.
Lemma parse_list_norm : inv (parse_list rec).
Proof. struct_reader n v Hw. unfold parse_list. after_conv n Hw. Qed.
Lemma parse_map_norm cu rp : inv (parse_map cu rp rec).
Proof. struct_reader n v Hw. unfold parse_map. after_conv n Hw. Qed.
Lemma parse_signal_norm : inv (parse_signal words rec).
Proof. struct_reader n v Hw. unfold parse_signal. after_conv n Hw. Qed.
Lemma parse_output_norm : inv (parse_output words rec).
Proof. struct_reader n v Hw. unfold parse_output. after_conv n Hw. Qed.
#[local] Hint Resolve parse_signal_norm parse_output_norm : inv.
Lemma parse_step_norm : inv (parse_step words rec).
Proof. struct_reader n v Hw. unfold parse_step. after_conv n Hw. Qed.
End Rec.
#[local] Hint Resolve parse_object_norm parse_scope_norm parse_oneof_norm parse_list_norm parse_map_norm : inv.

Lemma parse_type_norm words pu cu rp : forall f, inv (parse_type words pu cu rp f).
Proof.
  induction f as [|f IH]; intros n v Hw; [reflexivity|].
  exact (split_dispatch_norm
           (fun tid rest =>
              if String.eqb tid "any" then parse_empty SAny rest
              else if String.eqb tid "bool" then parse_empty SBool rest
              else if String.eqb tid "pattern" then parse_empty SPattern rest
              else if String.eqb tid "integer" then mp_int rest
              else if String.eqb tid "float" then mp_float pu rest
              else if String.eqb tid "string" then mp_string cu rp rest
              else if String.eqb tid "enum_integer" then parse_enum_int rest
              else if String.eqb tid "enum_string" then parse_enum_str rest
              else if String.eqb tid "list" then parse_list (parse_type words pu cu rp f) rest
              else if String.eqb tid "map" then parse_map cu rp (parse_type words pu cu rp f) rest
              else if String.eqb tid "object" then parse_object words (parse_type words pu cu rp f) rest
              else if String.eqb tid "one_of_int" then parse_oneof words (parse_type words pu cu rp f) true rest
              else if String.eqb tid "one_of_string" then parse_oneof words (parse_type words pu cu rp f) false rest
              else if String.eqb tid "ref" then parse_ref rest
              else if String.eqb tid "scope" then parse_scope words (parse_type words pu cu rp f) rest
              else Err (cerr EKey))
           ltac:(disp_tf) ltac:(disp_inv) n v Hw).
Qed.

(* ---------- the loaders ---------- *)
Lemma gsize_norm : forall n v, gsize (cbor_norm n v) = gsize v.
Proof.
  induction n as [|n IH]; intros v; [reflexivity|].
  destruct v as [|t b0|t z|t f0|t s|t b0 l|t b0 l|t o|t fs0|src|ok d]; try reflexivity.
  - cbn [cbor_norm]. destruct (Z.leb 0 z); reflexivity.
  - rewrite norm_slice. cbn [gsize]. f_equal.
    induction l as [|x tl IHl]; cbn [map fold_right]; [reflexivity|]. rewrite IH, IHl. reflexivity.
  - rewrite norm_map. cbn [gsize]. f_equal.
    induction l as [|[k x] tl IHl]; cbn [map fold_right]; [reflexivity|].
    unfold Np at 1 2. cbn [fst snd]. rewrite !IH, IHl. reflexivity.
Qed.

Theorem rebuild_norm words pu cu rp jor n d :
  wire d = true -> rebuild words pu cu rp jor (cbor_norm n d) = rebuild words pu cu rp jor d.
Proof.
  intros Hw. unfold rebuild. rewrite gsize_norm.
  rewrite (parse_scope_norm words _ (parse_type_norm words pu cu rp (gsize d)) n d Hw). reflexivity.
Qed.

Theorem rebuild_plugin_norm words pu cu rp jor n d :
  wire d = true -> rebuild_plugin words pu cu rp jor (cbor_norm n d) = rebuild_plugin words pu cu rp jor d.
Proof.
  intros Hw. unfold rebuild_plugin. rewrite gsize_norm.
  set (rec := parse_type words pu cu rp (gsize d)).
  assert (Hrec : inv rec) by apply parse_type_norm.
  assert (Hstep : inv (parse_step words rec)) by (apply parse_step_norm; exact Hrec).
  destruct n as [|n]; [reflexivity|].
  destruct d as [|t b0|t z|t f0|t s|t b0 l|t b0 l|t o|t fs0|src|ok d]; try discriminate Hw;
    [reflexivity | leafcase Hw | leafcase Hw | leafcase Hw | leafcase Hw | reflexivity |].
  rewrite wire_map in Hw. after_conv n Hw.
Qed.

(* ---------- a description is a wire value ---------- *)
Definition W (fs : list (string * gval)) : Prop := Forall (fun kx : string * gval => wire (snd kx) = true) fs.
Lemma wire_dobj fs : W fs -> wire (dobj fs) = true.
Proof.
  unfold dobj. cbn [wire]. induction 1 as [|[k x] tl Hx _ IH]; cbn [map forallb fst snd]; [reflexivity|].
  cbn [snd] in Hx. cbn [vstr wire]. rewrite Hx. exact IH.
Qed.
Lemma wire_dmap_map {X} (f : X -> gval * gval) l :
  Forall (fun x => wire (fst (f x)) = true /\ wire (snd (f x)) = true) l -> wire (dmap (map f l)) = true.
Proof.
  unfold dmap. cbn [wire]. induction 1 as [|x tl Hx _ IH]; cbn [map forallb]; [reflexivity|].
  destruct (f x) as [k v]. cbn [fst snd] in Hx. destruct Hx as [-> ->]. exact IH.
Qed.
Lemma wire_dstrs l : wire (dstrs l) = true.
Proof. unfold dstrs, dlist. cbn [wire]. induction l as [|x tl IH]; cbn [map forallb]; [reflexivity | exact IH]. Qed.
Lemma W_ofield {A} k (f : A -> gval) o : (forall a, wire (f a) = true) -> W (ofield k f o).
Proof. intros H. destruct o; cbn; constructor; [apply H | constructor]. Qed.
Lemma W_app a b : W a -> W b -> W (a ++ b).
Proof. intros. apply Forall_app. split; assumption. Qed.
Lemma W_cons k x tl : wire x = true -> W tl -> W ((k, x) :: tl).
Proof. intros. constructor; assumption. Qed.
Lemma wire_display d : wire (d_display d) = true.
Proof. apply wire_dobj. repeat apply W_app; apply W_ofield; reflexivity. Qed.
Lemma wire_unit u : wire (d_unit u) = true.
Proof. reflexivity. Qed.
Lemma wire_units u : wire (d_units u) = true.
Proof.
  apply wire_dobj. apply W_cons; [apply wire_unit|]. apply W_cons; [|constructor].
  apply wire_dmap_map. apply Forall_forall. intros [z mu] _. split; reflexivity.
Qed.
Lemma wire_odisp o : wire (d_odisp o) = true.
Proof. destruct o; [apply wire_display | reflexivity]. Qed.
Lemma wire_tagged t : W (d_fields t) -> wire (dobj (("type_id", vstr (tid_of t)) :: d_fields t)) = true.
Proof. intros H. apply wire_dobj. apply W_cons; [reflexivity | exact H]. Qed.

Ltac Wsolve :=
  repeat first [ apply W_app | apply W_cons | apply Forall_nil
               | apply W_ofield; intros
               | apply wire_units | apply wire_display | apply wire_dstrs | apply wire_tagged
               | reflexivity | assumption ].

Lemma W_fields : forall s, W (d_fields s).
Proof.
  apply (schema_ind' (fun s => W (d_fields s))); intros; cbn [d_fields]; Wsolve.
  - (* enum int *) apply wire_dmap_map. apply Forall_forall. intros [z d] _. split; [reflexivity | apply wire_odisp].
  - (* enum str *) apply wire_dmap_map. apply Forall_forall. intros [z d] _. split; [reflexivity | apply wire_odisp].
  - (* object *) apply wire_dmap_map. eapply Forall_impl; [|exact H]. intros [name p] Hp. destruct p.
    cbn [fst snd Syntax.p_type] in *. split; [reflexivity|]. apply wire_dobj. Wsolve.
  - (* one-of *) apply wire_dmap_map. eapply Forall_impl; [|exact H]. intros [k m] Hm. cbn [fst snd] in *.
    split; [destruct k; reflexivity | apply wire_tagged; exact Hm].
  - (* scope *) apply wire_dmap_map. eapply Forall_impl; [|exact H]. intros [i o] Ho. cbn [fst snd] in *.
    split; [reflexivity | apply wire_dobj; exact Ho].
Qed.
Lemma wire_describe s : wire (describe s) = true.
Proof. apply wire_dobj. apply W_fields. Qed.

Lemma wire_signals l : wire (d_signals l) = true.
Proof.
  apply wire_dmap_map. apply Forall_forall. intros [k g] _. split; [reflexivity|]. cbn [snd].
  apply wire_dobj. Wsolve; first [apply wire_describe | apply W_fields].
Qed.
Lemma wire_describe_plugin p : wire (describe_plugin p) = true.
Proof.
  apply wire_dobj. apply W_cons; [|constructor]. apply wire_dmap_map. apply Forall_forall.
  intros [k st] _. split; [reflexivity|]. cbn [snd]. apply wire_dobj.
  Wsolve; try apply wire_describe; try apply W_fields; try apply wire_signals.
  apply wire_dmap_map. apply Forall_forall. intros [ko o] _. split; [reflexivity|]. cbn [snd].
  apply wire_dobj. Wsolve; first [apply wire_describe | apply W_fields].
Qed.

(* The CBOR round trip of a description is invisible to UnserializeScope / UnserializeSchema. *)
Theorem rebuild_describe_cbor words pu cu rp jor n s :
  rebuild words pu cu rp jor (cbor_norm n (describe s)) = rebuild words pu cu rp jor (describe s).
Proof. apply rebuild_norm. apply wire_describe. Qed.
Theorem rebuild_plugin_describe_cbor words pu cu rp jor n p :
  rebuild_plugin words pu cu rp jor (cbor_norm n (describe_plugin p)) = rebuild_plugin words pu cu rp jor (describe_plugin p).
Proof. apply rebuild_plugin_norm. apply wire_describe_plugin. Qed.
