(* Proofs/C04Refuted.v — the two places where the faithful model does NOT terminate (both are fatal
   stack overflows in the Go code), with concrete witnesses:
     D11  scope(A{x: ref A}).Unserialize("foo")            inline shorthand through a self reference
     D50  scope(A{x: ref A = {}; n: any}).Unserialize({})  a declared default that leads back to itself *)
From Coq Require Import Lia.
From Verif Require Import Base.Prelude Base.Str Base.Float Base.GoVal
  Schema.Regex Schema.Units Schema.Syntax Schema.Ops Schema.Wf Schema.Total Proofs.C04Inv.
Open Scope string_scope.

Definition rf_prop (t : schema) (dflt : option string) : property :=
  mkProp t None false [] [] [] dflt [] false false None.

(* D11 *)
Definition d11_A : schema := SObject "A" false [("x", rf_prop (SRef "A" "" None) None)].
Definition d11_scope : schema := SScope [("A", d11_A)] "A".
Definition d11_oracles : oracles := mkOracles (fun _ => None) (fun _ => false).
Definition d11_env : env := mkEnv [] [] d11_oracles.
Definition d11_input : gval := VStr TStr "foo".

(* D50 *)
Definition d50_A : schema :=
  SObject "A" false [("x", rf_prop (SRef "A" "" None) (Some "{}")); ("n", rf_prop SAny None)].
Definition d50_scope : schema := SScope [("A", d50_A)] "A".
Definition d50_empty : gval := VMap t_str_map false [].
Definition d50_oracles : oracles :=
  mkOracles (fun txt => if String.eqb txt "{}" then Some d50_empty else None) (fun _ => false).
Definition d50_env : env := mkEnv [] [] d50_oracles.

Section Refuted.
Variable words : list (string * bool).
Variable pu : units -> string -> option fl.
Notation unser := (unser words pu).

Lemma d11_inner : forall f,
  unser f (env_enter d11_env [("A", d11_A)]) d11_A d11_input = OutOfFuel /\
  unser f (env_enter d11_env [("A", d11_A)]) (SRef "A" "" None) d11_input = OutOfFuel.
Proof.
  induction f as [|f [IHa IHr]]; [split; reflexivity|]. split.
  - cbn [Ops.unser d11_A d11_input p_type p_disabled rf_prop]. cbn [Ops.unser] in IHr. rewrite IHr. reflexivity.
  - cbn [Ops.unser]. cbn [resolve String.eqb Ascii.eqb Bool.eqb env_enter e_self alookup]. exact IHa.
Qed.

Lemma d11_diverges : forall f, unser f d11_env d11_scope d11_input = OutOfFuel.
Proof.
  destruct f as [|f]; [reflexivity|]. cbn [Ops.unser d11_scope]. cbn [alookup String.eqb Ascii.eqb Bool.eqb].
  apply d11_inner.
Qed.

Lemma d11_wf : wf_schema d11_env d11_scope = true.
Proof. vm_compute. reflexivity. Qed.
Lemma d11_cyclic : no_inline_cycle d11_env d11_scope = false.
Proof. vm_compute. reflexivity. Qed.
(* the class predicate is exact here: no bound at all is enough *)
Lemma d11_cyclic_n : forall n, no_inline_cycle_n n d11_env d11_scope = false.
Proof.
  assert (H : forall n, chain n false (env_enter d11_env [("A", d11_A)]) d11_A = None /\
                        chain n false (env_enter d11_env [("A", d11_A)]) (SRef "A" "" None) = None).
  { induction n as [|n [IHa IHr]]; [split; reflexivity|]. split.
    - cbn [chain d11_A p_type rf_prop]. rewrite IHr. reflexivity.
    - cbn [chain]. cbn [resolve String.eqb Ascii.eqb Bool.eqb env_enter e_self alookup]. rewrite IHa. reflexivity. }
  intros n. destruct (no_inline_cycle_n n d11_env d11_scope) eqn:E; [|reflexivity]. exfalso.
  unfold no_inline_cycle_n in E. apply andb_prop in E as [_ E].
  cbn [all_nodes d11_scope forallb snd] in E. apply andb_prop in E as [_ E]. apply andb_prop in E as [E _].
  apply all_nodes_here in E. unfold nic_local in E. destruct (H n) as [Ha _]. rewrite Ha in E. discriminate.
Qed.

Lemma d50_inner : forall f,
  unser f (env_enter d50_env [("A", d50_A)]) d50_A d50_empty = OutOfFuel /\
  unser f (env_enter d50_env [("A", d50_A)]) (SRef "A" "" None) d50_empty = OutOfFuel.
Proof.
  induction f as [|f [IHa IHr]]; [split; reflexivity|]. split.
  - unfold d50_A in *. unfold d50_empty.
    simpl.
    rewrite IHr. reflexivity.
  - cbn [Ops.unser]. cbn [resolve String.eqb Ascii.eqb Bool.eqb env_enter e_self alookup]. exact IHa.
Qed.

Lemma d50_diverges : forall f, unser f d50_env d50_scope d50_empty = OutOfFuel.
Proof.
  destruct f as [|f]; [reflexivity|]. cbn [Ops.unser d50_scope]. cbn [alookup String.eqb Ascii.eqb Bool.eqb].
  apply d50_inner.
Qed.

Lemma d50_wf : wf_schema d50_env d50_scope = true.
Proof. vm_compute. reflexivity. Qed.
Lemma d50_no_inline_cycle : no_inline_cycle d50_env d50_scope = true.
Proof. vm_compute. reflexivity. Qed.

Lemma d50_defaults_diverge : forall K, defaults_total words pu K d50_env d50_scope = false.
Proof.
  intros K. destruct (defaults_total words pu K d50_env d50_scope) eqn:E; [|reflexivity]. exfalso.
  unfold defaults_total in E. apply andb_prop in E as [_ E].
  cbn [all_nodes d50_scope forallb snd] in E. apply andb_prop in E as [_ E]. apply andb_prop in E as [E _].
  apply all_nodes_here in E. destruct (d50_inner K) as [_ Hr].
  unfold d50_A in *. simpl in E. rewrite Hr in E. discriminate.
Qed.

End Refuted.
