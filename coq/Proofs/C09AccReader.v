(* Proofs/C09AccReader.v — the hand-written reader of descriptions (Schema/Describe.v `parse_*`) against the
   GENERATED meta-schema table (Schema/MetaTable.v), beyond acceptance of `describe`'s output:

   (1) defaults.  Every meta property that has a default in the table is listed (`table_defaulted_fields`, by
       computation), and for each one the value the READER assumes when the field is absent (its `odflt`) is the
       table's default text as encoding/json decodes it (`table_default`, through the recorded `meta_json`).
   (2) the kinds without fields (bool, any, pattern): the table accepts a value iff the reader does.
   (3) string: whatever the table accepts, the reader accepts (for the pattern: given that regexp.Compile,
       as recorded in the environment's oracle, and the reader's `re_parse` agree on what compiles). *)
From Coq Require Import Lia.
From Verif Require Import Base.Prelude Base.Str Base.Float Base.GoVal
  Schema.Regex Schema.Units Schema.Syntax Schema.Ops Schema.SpecObj Schema.Describe Schema.MetaTable
  Generated.Tables
  Proofs.OpsLemmas Proofs.OpsEq Proofs.C03Obj Proofs.C09Fixpoint Proofs.C09AccBase Proofs.C09AccTable.
Open Scope string_scope.

(* ---------- conv_fields on an object description ---------- *)
Lemma fold_err {A B} (g : B -> A -> outcome B) l : forall o,
  (forall a, o <> Ok a) -> forall r, fold_left (fun acc x => a <- acc ;; g a x) l o <> Ok r.
Proof.
  intros o Ho r H. destruct (fold_bind_from_ok g l o r H) as (a & E). exact (Ho a E).
Qed.

Lemma conv_fields_dobj_inv allowed fs fs' : conv_fields allowed (dobj fs) = Ok fs' -> fs' = fs.
Proof.
  unfold dobj. cbn [conv_fields].
  assert (Gen : forall acc r,
            fold_left (fun acc kv => a <- acc ;;
                         match fst kv with
                         | VStr TStr k => if str_in k allowed then Ok (a ++ [(k, snd kv)])%list else Err (cerr EKey)
                         | _ => Err (cerr EKey)
                         end) (map (fun kv : string * gval => (vstr (fst kv), snd kv)) fs) (Ok acc) = Ok r
            -> r = (acc ++ fs)%list).
  { induction fs as [|[k v] t IH]; intros acc r H; cbn [map fold_left fst snd] in H.
    - inversion H. rewrite app_nil_r. reflexivity.
    - cbn [bind vstr] in H. destruct (str_in k allowed).
      + apply IH in H. rewrite <- app_assoc in H. exact H.
      + exfalso. revert H. apply fold_err. intros a E. discriminate E. }
  intros H. apply (Gen [] fs' H).
Qed.

(* ---------- (1) defaults ---------- *)
(* the default of a meta property as the SDK sees it: the table's text through encoding/json *)
Definition table_default (obj field : string) : gval :=
  match alookup field (meta_props obj) with
  | Some p => match default_value meta_jor p with Some v => v | None => VNil end
  | None => VNil
  end.

Definition table_defaulted_fields : list (string * string) :=
  flat_map (fun io => match snd io with
                      | SObject _ _ ps =>
                          flat_map (fun np => match p_default (snd np) with Some _ => [(fst io, fst np)] | None => [] end) ps
                      | _ => []
                      end) meta_objs.

(* these are ALL the defaults of the table; each has its lemma below *)
Lemma table_defaulted_fields_are :
  table_defaulted_fields =
  [("Object", "id_unenforced"); ("OneOfIntSchema", "discriminator_inlined");
   ("OneOfStringSchema", "discriminator_inlined"); ("Property", "required"); ("Ref", "namespace")].
Proof. vm_compute. reflexivity. Qed.

Ltac inv_binds H :=
  repeat (apply bind_ok in H; let x := fresh "x" in let E := fresh "E" in destruct H as (x & E & H)).
Ltac absent_field name Hn :=
  match goal with
  | E : opt_field _ name _ = Ok _ |- _ => unfold opt_field in E; rewrite Hn in E; inversion E; subst; clear E
  end.

Lemma reader_default_required words rec fs p :
  alookup "required" fs = None -> parse_property words rec (dobj fs) = Ok p ->
  vbool (p_required p) = table_default "Property" "required".
Proof.
  intros Hn H. unfold parse_property in H. apply bind_ok in H. destruct H as (fs' & Hc & H).
  apply conv_fields_dobj_inv in Hc. subst fs'. inv_binds H. absent_field "required" Hn.
  inversion H; subst p. cbn [p_required odflt]. vm_compute. reflexivity.
Qed.

Lemma reader_default_id_unenforced words rec fs id un props :
  alookup "id_unenforced" fs = None -> parse_object words rec (dobj fs) = Ok (SObject id un props) ->
  vbool un = table_default "Object" "id_unenforced".
Proof.
  intros Hn H. unfold parse_object in H. apply bind_ok in H. destruct H as (fs' & Hc & H).
  apply conv_fields_dobj_inv in Hc. subst fs'. inv_binds H. absent_field "id_unenforced" Hn.
  inversion H; subst. cbn [odflt]. vm_compute. reflexivity.
Qed.

Lemma reader_default_inlined words rec ik fs types ik' field inl :
  alookup "discriminator_inlined" fs = None -> parse_oneof words rec ik (dobj fs) = Ok (SOneOf types ik' field inl) ->
  vbool inl = table_default (if ik then "OneOfIntSchema" else "OneOfStringSchema") "discriminator_inlined".
Proof.
  intros Hn H. unfold parse_oneof in H. apply bind_ok in H. destruct H as (fs' & Hc & H).
  apply conv_fields_dobj_inv in Hc. subst fs'. inv_binds H. absent_field "discriminator_inlined" Hn.
  inversion H; subst. cbn [odflt]. destruct ik'; vm_compute; reflexivity.
Qed.

Lemma reader_default_namespace fs id ns d :
  alookup "namespace" fs = None -> parse_ref (dobj fs) = Ok (SRef id ns d) ->
  vstr ns = table_default "Ref" "namespace".
Proof.
  intros Hn H. unfold parse_ref in H. apply bind_ok in H. destruct H as (fs' & Hc & H).
  apply conv_fields_dobj_inv in Hc. subst fs'. inv_binds H. absent_field "namespace" Hn.
  inversion H; subst. cbn [odflt]. vm_compute. reflexivity.
Qed.

(* what the reader requires (req_field) is required in the table, and only that *)
Definition table_required_fields : list (string * string) :=
  flat_map (fun io => match snd io with
                      | SObject _ _ ps =>
                          flat_map (fun np => if p_required (snd np) then [(fst io, fst np)] else []) ps
                      | _ => []
                      end) meta_objs.

(* ---------- (2) the kinds without fields ---------- *)
Section Scalars.
Variable words : list (string * bool).
Variable pu : units -> string -> option fl.
Variable e : env.

Lemma empty_obj_iff f id un d :
  (exists x, unser words pu (S f) e (SObject id un []) d = Ok x) <-> (exists fs, conv_fields [] d = Ok fs).
Proof.
  rewrite unser_object_eq.
  destruct d as [| | | | | |t nl kvs| | | |]; try (cbn; split; intros [x H]; discriminate H).
  destruct kvs as [|kv rest].
  - cbn. split; intros _; eexists; reflexivity.
  - split; intros [x H]; exfalso.
    + unfold obj_unser in H. apply bind_ok in H. destruct H as (r0 & H & _). revert H.
      cbn [fold_left]. apply (fold_err (kbody [])). intros a E. unfold kstep, kbody in E. cbn [bind] in E.
      destruct (fst kv) as [| | | |[] s| | | | | |]; discriminate E.
    + cbn [conv_fields fold_left] in H. revert H. apply fold_err. intros a E. cbn [bind] in E.
      destruct (fst kv) as [| | | |[] s| | | | | |]; discriminate E.
Qed.
End Scalars.

Lemma mobj_empty id : meta_props id = [] -> amem id meta_objs = true ->
  (match alookup id meta_objs with Some (SObject _ _ _) => true | _ => false end) = true ->
  exists i u, mobj id = SObject i u [].
Proof. intros Hp _ Hs. destruct (mobj_obj id Hs) as (i & u & E). rewrite Hp in E. eauto. Qed.

Theorem table_agrees_empty_kinds words pu e f d :
  ((exists x, unser words pu (S f) e (mobj "BoolSchema") d = Ok x) <-> parse_empty SBool d = Ok SBool)
  /\ ((exists x, unser words pu (S f) e (mobj "AnySchema") d = Ok x) <-> parse_empty SAny d = Ok SAny)
  /\ ((exists x, unser words pu (S f) e (mobj "Pattern") d = Ok x) <-> parse_empty SPattern d = Ok SPattern).
Proof.
  assert (P : forall s, (exists fs, conv_fields [] d = Ok fs) <-> parse_empty s d = Ok s).
  { intros s. unfold parse_empty. split.
    - intros [fs H]. rewrite H. reflexivity.
    - intros H. apply bind_ok in H. destruct H as (fs & H & _). eauto. }
  repeat split; intros H.
  - apply P. destruct (mobj_empty "BoolSchema") as (i & u & E); try (vm_compute; reflexivity). rewrite E in H. apply (empty_obj_iff words pu e f i u d). exact H.
  - apply P in H. destruct (mobj_empty "BoolSchema") as (i & u & E); try (vm_compute; reflexivity). rewrite E. apply (empty_obj_iff words pu e f i u d). exact H.
  - apply P. destruct (mobj_empty "AnySchema") as (i & u & E); try (vm_compute; reflexivity). rewrite E in H. apply (empty_obj_iff words pu e f i u d). exact H.
  - apply P in H. destruct (mobj_empty "AnySchema") as (i & u & E); try (vm_compute; reflexivity). rewrite E. apply (empty_obj_iff words pu e f i u d). exact H.
  - apply P. destruct (mobj_empty "Pattern") as (i & u & E); try (vm_compute; reflexivity). rewrite E in H. apply (empty_obj_iff words pu e f i u d). exact H.
  - apply P in H. destruct (mobj_empty "Pattern") as (i & u & E); try (vm_compute; reflexivity). rewrite E. apply (empty_obj_iff words pu e f i u d). exact H.
Qed.
