(* Proofs/XInlineEquiv.v — C14 (3) for the struct-mapped model, part 2: replacing references by the objects they
   denote IN AN ARBITRARY CONTEXT of x-constructors preserves xunser / xvalidate / xserialize (and data-mode
   xcompat) on ALL inputs.  Fuel relation (that of the map-based theorem, Proofs/Link2Inline.v): the inlined
   schema never needs more fuel than the original, the original at most twice the fuel of the inlined one.
   The sub-object default pass of a struct-mapped parent (xsub_defaults) is invariant AT THE SAME FUEL
   (`xsub_inl_eq`: s7b's xsub_defaults_ref_inline / xsub_defaults_pass_inline extended from one level of the
   parent's property list to the full relation and to the inlined environment). *)
From Coq Require Import Lia.
From Verif Require Import Base.Prelude Base.Str Base.Float Base.GoVal Base.XReflect
  Schema.Regex Schema.Units Schema.Syntax Schema.Ops Schema.XSyntax Schema.XOps
  Proofs.OpsEq Proofs.MonoEq Proofs.XOpsEq Proofs.XMono Proofs.XInline Proofs.Link2Inline Proofs.XInlineStep.
Open Scope string_scope.

(* ---------- induction over the nested inductive xschema ---------- *)
Section XSchemaInd.
Variable P : xschema -> Prop.
Hypothesis HLeaf : forall s, xi_leaf s = true -> P s.
Hypothesis HList : forall it mn mx, P it -> P (XList it mn mx).
Hypothesis HMap : forall k v mn mx, P k -> P v -> P (XMap k v mn mx).
Hypothesis HObject : forall id u props m, Forall (fun np => P (p_type (snd np))) props -> P (XObject id u props m).
Hypothesis HOneOf : forall types ik field inlined, Forall (fun km => P (snd km)) types -> P (XOneOf types ik field inlined).
Hypothesis HScope : forall objs root, Forall (fun io => P (snd io)) objs -> P (XScope objs root).

Fixpoint xschema_ind' (s : xschema) : P s :=
  match s as s0 return P s0 with
  | XInt mn mx u => HLeaf (XInt mn mx u) eq_refl
  | XFloat mn mx u => HLeaf (XFloat mn mx u) eq_refl
  | XString mn mx pat => HLeaf (XString mn mx pat) eq_refl
  | XBool => HLeaf XBool eq_refl
  | XPattern => HLeaf XPattern eq_refl
  | XAny => HLeaf XAny eq_refl
  | XEnumInt vals u => HLeaf (XEnumInt vals u) eq_refl
  | XEnumStr named vals => HLeaf (XEnumStr named vals) eq_refl
  | XList it mn mx => HList it mn mx (xschema_ind' it)
  | XMap k v mn mx => HMap k v mn mx (xschema_ind' k) (xschema_ind' v)
  | XObject id u props m =>
      HObject id u props m
        ((fix go (l : list (string * property_ xschema)) : Forall (fun np => P (p_type (snd np))) l :=
            match l with
            | [] => Forall_nil _
            | np :: t => Forall_cons np (xschema_ind' (p_type (snd np))) (go t)
            end) props)
  | XOneOf types ik field inlined =>
      HOneOf types ik field inlined
        ((fix go (l : list (okey * xschema)) : Forall (fun km => P (snd km)) l :=
            match l with
            | [] => Forall_nil _
            | km :: t => Forall_cons km (xschema_ind' (snd km)) (go t)
            end) types)
  | XRef id ns d => HLeaf (XRef id ns d) eq_refl
  | XScope objs root =>
      HScope objs root
        ((fix go (l : list (string * xschema)) : Forall (fun io => P (snd io)) l :=
            match l with
            | [] => Forall_nil _
            | io :: t => Forall_cons io (xschema_ind' (snd io)) (go t)
            end) objs)
  end.
End XSchemaInd.

(* ---------- facts about the relation ---------- *)
Lemma xinl_str : forall e s s', xinlines_to e s s' -> xstr_like s = xstr_like s'.
Proof. intros e s s' H; inversion H; subst; reflexivity. Qed.

Lemma xinl_refl : forall s e, xinlines_to e s s.
Proof.
  induction s using xschema_ind'; intros e.
  - apply XI_leaf; assumption.
  - apply XI_list; auto.
  - apply XI_map; auto.
  - apply XI_obj. apply F2_refl. intros np Hin. apply xprop_rel_refl.
    rewrite Forall_forall in H. apply (H np Hin).
  - apply XI_oneof. apply F2_refl. intros km Hin. split; [reflexivity|].
    rewrite Forall_forall in H. apply (H km Hin).
  - apply XI_scope. apply F2_refl. intros io Hin. split; [reflexivity|]. split; [|right; reflexivity].
    rewrite Forall_forall in H. apply (H io Hin).
Qed.

Lemma xtab_rel_refl x o st tab : xtab_rel x o st tab tab.
Proof. apply F2_refl. intros io _. split; [reflexivity|]. split; [apply xinl_refl | right; reflexivity]. Qed.

Lemma xinl_env_refl e : xinl_env e e.
Proof.
  split; [reflexivity|]. split; [reflexivity|]. split.
  - apply xtab_rel_refl.
  - apply F2_refl. intros nt _. split; [reflexivity | apply xtab_rel_refl].
Qed.

Lemma xenv_eta e : mkXEnv (xe_self e) (xe_ext e) (xe_or e) (xe_structs e) = e.
Proof. destruct e; reflexivity. Qed.

Lemma xinl_env_enter e e' tab tab' :
  xinl_env e e' -> xtab_rel (xe_ext e) (xe_or e) (xe_structs e) tab tab' -> xinl_env (xenv_enter e tab) (xenv_enter e' tab').
Proof.
  intros (Hor & Hst & _ & Hx) Ht. unfold xinl_env, xenv_enter. cbn [xe_self xe_ext xe_or xe_structs].
  split; [exact Hor|]. split; [exact Hst|]. split; [exact Ht | exact Hx].
Qed.

Lemma xresolve_inl e e' id ns : xinl_env e e' ->
  match xresolve e id ns, xresolve e' id ns with
  | Some (o, e1), Some (o', e1') => xinl_env e1 e1' /\ xtab_ok (xinlines_to e1) o o'
  | None, None => True
  | _, _ => False
  end.
Proof.
  intros Hsim. pose proof Hsim as (Hor & Hst & Hs & Hx). unfold xresolve.
  destruct (String.eqb ns "").
  - pose proof (alookup_F2 (xtab_ok (xinlines_to (mkXEnv (xe_self e) (xe_ext e) (xe_or e) (xe_structs e)))) _ _ id Hs) as HL.
    destruct (alookup id (xe_self e)), (alookup id (xe_self e')); try contradiction; [|exact I].
    split; [exact Hsim|]. rewrite xenv_eta in HL. exact HL.
  - pose proof (alookup_F2 (xtab_rel (xe_ext e) (xe_or e) (xe_structs e)) _ _ ns Hx) as HL.
    destruct (alookup ns (xe_ext e)) as [tab|], (alookup ns (xe_ext e')) as [tab'|]; try contradiction; [|exact I].
    pose proof (alookup_F2 (xtab_ok (xinlines_to (mkXEnv tab (xe_ext e) (xe_or e) (xe_structs e)))) _ _ id HL) as HL2.
    destruct (alookup id tab), (alookup id tab'); try contradiction; [|exact I].
    split; [apply xinl_env_enter; assumption | exact HL2].
Qed.

Lemma xtab_ok_srt e o o' : xtab_ok (xinlines_to e) o o' -> xobj_struct_type o = xobj_struct_type o'.
Proof.
  intros [H [Hn | ->]]; [|reflexivity].
  inversion H; subst; cbn in Hn |- *; try reflexivity; discriminate.
Qed.

Lemma xobj_rtype_srt o : xobj_rtype o = match xobj_struct_type o with Some t => t | None => t_str_map end.
Proof. destruct o; try reflexivity. destruct mapped; reflexivity. Qed.

Lemma xrtype_ref_env e e' id ns d : xinl_env e e' -> xrtype e (XRef id ns d) = xrtype e' (XRef id ns d).
Proof.
  intros He. cbn [xrtype]. pose proof (xresolve_inl e e' id ns He) as HL.
  destruct (xresolve e id ns) as [[o e1]|], (xresolve e' id ns) as [[o' e1']|]; try contradiction; [|reflexivity].
  destruct HL as [_ Hok]. rewrite !xobj_rtype_srt, (xtab_ok_srt _ _ _ Hok). reflexivity.
Qed.

Lemma xsrt_ref_env e e' id ns d : xinl_env e e' -> xstruct_rtype e (XRef id ns d) = xstruct_rtype e' (XRef id ns d).
Proof.
  intros He. cbn [xstruct_rtype]. pose proof (xresolve_inl e e' id ns He) as HL.
  destruct (xresolve e id ns) as [[o e1]|], (xresolve e' id ns) as [[o' e1']|]; try contradiction; [|reflexivity].
  destruct HL as [_ Hok]. exact (xtab_ok_srt _ _ _ Hok).
Qed.

Lemma xscope_root_srt e0 objs objs' root : Forall2 (xobj_rel (xinlines_to e0)) objs objs' ->
  match alookup root objs, alookup root objs' with
  | Some o, Some o' => xobj_struct_type o = xobj_struct_type o'
  | None, None => True
  | _, _ => False
  end.
Proof.
  intros HO. pose proof (alookup_F2 (xtab_ok (xinlines_to e0)) _ _ root HO) as HL.
  destruct (alookup root objs), (alookup root objs'); try contradiction; [|exact I].
  exact (xtab_ok_srt _ _ _ HL).
Qed.

Lemma xinl_rtype : forall s e e' s', xinl_env e e' -> xinlines_to e s s' -> xrtype e s = xrtype e' s'.
Proof.
  induction s; intros e e' s' He H; inversion H; subst; try discriminate;
    try (apply xrtype_ref_env; exact He); cbn [xrtype]; try reflexivity.
  - f_equal. eapply IHs; eauto.
  - f_equal; [eapply IHs1 | eapply IHs2]; eauto.
  - match goal with Hres : xresolve _ _ _ = Some _ |- _ => rewrite Hres end. cbn [xobj_rtype]. reflexivity.
  - match goal with HO : Forall2 _ _ _ |- _ => pose proof (xscope_root_srt _ _ _ root HO) as HL end.
    destruct (alookup root objs), (alookup root objs'); try contradiction; [|reflexivity].
    rewrite !xobj_rtype_srt, HL. reflexivity.
Qed.

Lemma xinl_srt : forall e e' s s', xinl_env e e' -> xinlines_to e s s' -> xstruct_rtype e s = xstruct_rtype e' s'.
Proof.
  intros e e' s s' He H; inversion H; subst; cbn [xstruct_rtype]; try reflexivity.
  - destruct s'; try discriminate; try reflexivity. apply xsrt_ref_env; exact He.
  - match goal with HO : Forall2 _ _ _ |- _ => pose proof (xscope_root_srt _ _ _ root HO) as HL end.
    destruct (alookup root objs), (alookup root objs'); try contradiction; [exact HL | reflexivity].
  - match goal with Hres : xresolve _ _ _ = Some _ |- _ => rewrite Hres end. reflexivity.
Qed.

Lemma xinl_obj_inv e i u ps m X : xinlines_to e (XObject i u ps m) X ->
  exists ps', X = XObject i u ps' m /\ Forall2 (xprop_rel (xinlines_to e)) ps ps'.
Proof.
  intros H; inversion H; subst.
  - exists ps. split; [reflexivity|]. apply F2_refl. intros np _. apply xprop_rel_refl. apply xinl_refl.
  - eauto.
Qed.

(* ---------- the sub-object default pass: invariant at the same fuel ---------- *)
Definition xi_isobj (o : xschema) : bool := match o with XObject _ _ _ _ => true | _ => false end.

Lemma xinl_nonobj e o o' : xinlines_to e o o' -> xnot_ref o = true -> xi_isobj o = false -> xi_isobj o' = false.
Proof. intros H Hn Ho. inversion H; subst; cbn in *; try reflexivity; try assumption; discriminate. Qed.

Lemma xsd_nonobj f e pid (p : xproperty) r o e1 :
  xsub_object e (p_type p) = Ok (Some (o, e1)) -> xi_isobj o = false -> xsub_defaults (S f) e pid p r = Ok r.
Proof. intros E Hn. cbn [xsub_defaults]. rewrite E. cbn [bind]. destruct o; try reflexivity; discriminate. Qed.

Lemma xsd_none f e pid (p : xproperty) r :
  xsub_object e (p_type p) = Ok None -> xsub_defaults (S f) e pid p r = Ok r.
Proof. intros E. cbn [xsub_defaults]. rewrite E. reflexivity. Qed.

Lemma xfold2_eq {A A' B} (Q : A -> A' -> Prop) (st : B -> A -> B) (st' : B -> A' -> B) l l' :
  Forall2 Q l l' -> (forall a x x', Q x x' -> st a x = st' a x') -> forall a, fold_left st l a = fold_left st' l' a.
Proof. induction 1 as [|x x' t t' HQ _ IH]; intros Hs a; cbn; [reflexivity|]. rewrite (Hs a x x' HQ). apply IH; exact Hs. Qed.

Lemma xsd_obj f e e' pid (p p' : xproperty) r i u ps ps' m :
  (forall e e' pid (p : xproperty) t' r, xinl_env e e' -> xinlines_to e (p_type p) t' ->
     xsub_defaults f e pid p r = xsub_defaults f e' pid (xwith_type p t') r) ->
  xinl_env e e' -> Forall2 (xprop_rel (xinlines_to e)) ps ps' ->
  xsub_object e (p_type p) = Ok (Some (XObject i u ps m, e)) ->
  xsub_object e' (p_type p') = Ok (Some (XObject i u ps' m, e')) ->
  xsub_defaults (S f) e pid p r = xsub_defaults (S f) e' pid p' r.
Proof.
  intros IH He HP E1 E2. cbn [xsub_defaults]. rewrite E1, E2. cbn [bind].
  destruct (match m with Some si => si_ptr si | None => false end); [reflexivity|].
  destruct (match alookup pid r with
            | Some d => match is_str_any_map d with Some kvs => Some (raw_of_entries kvs) | None => None end
            | None => Some []
            end) as [data0|]; [|reflexivity].
  cbv zeta. destruct He as (Hor & Hrest). rewrite Hor.
  rewrite (xdflt_fold_props (xinlines_to e) (xinl_str e) (xe_or e) _ _ HP).
  match goal with |- bind ?X _ = bind ?X' _ => replace X' with X; [reflexivity|] end.
  apply (xfold2_eq (xprop_rel (xinlines_to e))); [exact HP|].
  intros a np np' (t' & -> & Ht). cbn [fst snd]. destruct a as [a0| | |]; cbn [bind]; try reflexivity.
  apply IH; [exact (conj Hor Hrest) | exact Ht].
Qed.

Theorem xsub_inl_eq : forall f e e' pid (p : xproperty) t' r, xinl_env e e' -> xinlines_to e (p_type p) t' ->
  xsub_defaults f e pid p r = xsub_defaults f e' pid (xwith_type p t') r.
Proof.
  induction f as [|f IH]; intros e e' pid p t' r He H; [reflexivity|].
  remember (p_type p) as t eqn:Et. symmetry in Et. revert He Et.
  destruct H as [e s Hl | e it it' mn mx Hi | e k k' v v' mn mx Hk Hv | e id u ps ps' m HP
                | e ts ts' ik fd il HM | e objs objs' root HO | e id d i u ps ps' m Hres HP]; intros He Et.
  - destruct s; try discriminate Hl;
      try (rewrite !xsd_none; [reflexivity | rewrite xwt_type; reflexivity | rewrite Et; reflexivity]).
    (* a reference left alone: the inlined environment holds the inlined object *)
    pose proof (xresolve_inl e e' id ns He) as HL.
    destruct (xresolve e id ns) as [[o e1]|] eqn:E1, (xresolve e' id ns) as [[o' e1']|] eqn:E2; try contradiction.
    + destruct HL as [He1 [Hoo Hside]].
      assert (X1 : xsub_object e (p_type p) = Ok (Some (o, e1))) by (rewrite Et; cbn [xsub_object]; rewrite E1; reflexivity).
      assert (X2 : xsub_object e' (p_type (xwith_type p (XRef id ns d))) = Ok (Some (o', e1')))
        by (rewrite xwt_type; cbn [xsub_object]; rewrite E2; reflexivity).
      destruct (xi_isobj o) eqn:Eo.
      * destruct o; try discriminate Eo.
        destruct (xinl_obj_inv _ _ _ _ _ _ Hoo) as (ps' & -> & HP).
        (* the object is looked up in e, the members' defaults are propagated in the environment of the object *)
        cbn [xsub_defaults]. rewrite X1, X2. cbn [bind].
        destruct (match mapped with Some si => si_ptr si | None => false end); [reflexivity|].
        destruct (match alookup pid r with
                  | Some d0 => match is_str_any_map d0 with Some kvs => Some (raw_of_entries kvs) | None => None end
                  | None => Some []
                  end) as [data0|]; [|reflexivity].
        cbv zeta. destruct He1 as (Hor & Hrest). rewrite Hor.
        rewrite (xdflt_fold_props (xinlines_to e1) (xinl_str e1) (xe_or e1) _ _ HP).
        match goal with |- bind ?X _ = bind ?X' _ => replace X' with X; [reflexivity|] end.
        apply (xfold2_eq (xprop_rel (xinlines_to e1))); [exact HP|].
        intros a np np' (t' & -> & Ht). cbn [fst snd]. destruct a as [a0| | |]; cbn [bind]; try reflexivity.
        apply IH; [exact (conj Hor Hrest) | exact Ht].
      * assert (Eo' : xi_isobj o' = false).
        { destruct Hside as [Hn | ->]; [eapply xinl_nonobj; eauto | exact Eo]. }
        rewrite (xsd_nonobj f e pid p r o e1 X1 Eo), (xsd_nonobj f e' pid _ r o' e1' X2 Eo'). reflexivity.
    + cbn [xsub_defaults]. rewrite xwt_type, Et. cbn [xsub_object]. rewrite E1, E2. reflexivity.
  - rewrite !xsd_none; [reflexivity | rewrite xwt_type; reflexivity | rewrite Et; reflexivity].
  - rewrite !xsd_none; [reflexivity | rewrite xwt_type; reflexivity | rewrite Et; reflexivity].
  - eapply xsd_obj; [exact IH | exact He | exact HP | rewrite Et; reflexivity | rewrite xwt_type; reflexivity].
  - rewrite !xsd_none; [reflexivity | rewrite xwt_type; reflexivity | rewrite Et; reflexivity].
  - rewrite !xsd_none; [reflexivity | rewrite xwt_type; reflexivity | rewrite Et; reflexivity].
  - eapply xsd_obj; [exact IH | exact He | exact HP | rewrite Et; cbn [xsub_object]; rewrite Hres; reflexivity
                    | rewrite xwt_type; reflexivity].
Qed.

(* ---------- both directions ---------- *)
Section XEquiv.
Variable words : list (string * bool).
Variable pu : units -> string -> option fl.
Notation xunser := (xunser words pu).
Notation xvalidate := (xvalidate words pu).
Notation xserialize := (xserialize words pu).
Notation xcompat := (xcompat words pu).
Notation xoneof_find := (xoneof_find words pu).

(* original on the left, inlined on the right *)
Definition XRelA (e1 : xenv) (s1 : xschema) (e2 : xenv) (s2 : xschema) : Prop := xinl_env e1 e2 /\ xinlines_to e1 s1 s2.
(* inlined on the left, original on the right *)
Definition XRelB (e1 : xenv) (s1 : xschema) (e2 : xenv) (s2 : xschema) : Prop := xinl_env e2 e1 /\ xinlines_to e2 s2 s1.

Lemma XRelA_or e1 s1 e2 s2 : XRelA e1 s1 e2 s2 -> xe_or e1 = xe_or e2.
Proof. intros [(H & _) _]. symmetry; exact H. Qed.
Lemma XRelA_st e1 s1 e2 s2 : XRelA e1 s1 e2 s2 -> xe_structs e1 = xe_structs e2.
Proof. intros [(_ & H & _) _]. symmetry; exact H. Qed.
Lemma XRelA_rtype e1 s1 e2 s2 : XRelA e1 s1 e2 s2 -> xrtype e1 s1 = xrtype e2 s2.
Proof. intros [He H]. eapply xinl_rtype; eauto. Qed.
Lemma XRelA_srt e1 s1 e2 s2 : XRelA e1 s1 e2 s2 -> xstruct_rtype e1 s1 = xstruct_rtype e2 s2.
Proof. intros [He H]. eapply xinl_srt; eauto. Qed.
Lemma XRelA_str e1 s1 e2 s2 : XRelA e1 s1 e2 s2 -> xstr_like s1 = xstr_like s2.
Proof. intros [_ H]. eapply xinl_str; eauto. Qed.
Lemma XRelA_sub f e1 e2 pid (p : xproperty) t' r : XRelA e1 (p_type p) e2 t' ->
  xsub_defaults f e1 pid p r = xsub_defaults f e2 pid (xwith_type p t') r.
Proof. intros [He H]. apply xsub_inl_eq; assumption. Qed.

Lemma XRelB_or e1 s1 e2 s2 : XRelB e1 s1 e2 s2 -> xe_or e1 = xe_or e2.
Proof. intros [(H & _) _]. exact H. Qed.
Lemma XRelB_st e1 s1 e2 s2 : XRelB e1 s1 e2 s2 -> xe_structs e1 = xe_structs e2.
Proof. intros [(_ & H & _) _]. exact H. Qed.
Lemma XRelB_rtype e1 s1 e2 s2 : XRelB e1 s1 e2 s2 -> xrtype e1 s1 = xrtype e2 s2.
Proof. intros [He H]. symmetry. eapply xinl_rtype; eauto. Qed.
Lemma XRelB_srt e1 s1 e2 s2 : XRelB e1 s1 e2 s2 -> xstruct_rtype e1 s1 = xstruct_rtype e2 s2.
Proof. intros [He H]. symmetry. eapply xinl_srt; eauto. Qed.
Lemma XRelB_str e1 s1 e2 s2 : XRelB e1 s1 e2 s2 -> xstr_like s1 = xstr_like s2.
Proof. intros [_ H]. symmetry. eapply xinl_str; eauto. Qed.
Lemma XRelB_sub f e1 e2 pid (p : xproperty) t' r : XRelB e1 (p_type p) e2 t' ->
  xsub_defaults f e1 pid p r = xsub_defaults f e2 pid (xwith_type p t') r.
Proof.
  intros [He H].
  pose proof (xsub_inl_eq f e2 e1 pid (xwith_type p t') (p_type p) r He) as X.
  rewrite xwt_type, xwt_twice, xwt_id in X. symmetry. apply X. exact H.
Qed.

Lemma xprops_A e1 e2 ps ps' : xinl_env e1 e2 -> Forall2 (xprop_rel (xinlines_to e1)) ps ps' ->
  Forall2 (xprop_rel (fun a b => XRelA e1 a e2 b)) ps ps'.
Proof. intros Hs. apply F2_impl. intros np np' (t' & E & H). exists t'. split; [exact E | split; assumption]. Qed.
Lemma xprops_B e1 e2 ps ps' : xinl_env e2 e1 -> Forall2 (xprop_rel (xinlines_to e2)) ps ps' ->
  Forall2 (xprop_rel (fun a b => XRelB e1 a e2 b)) ps' ps.
Proof.
  intros Hs H. apply F2_flip in H. revert H. apply F2_impl. intros np' np H.
  apply xprop_rel_flip in H. destruct H as (t' & E & H). exists t'. split; [exact E | split; assumption].
Qed.
Lemma xmems_A e1 e2 ts ts' : xinl_env e1 e2 -> Forall2 (xmem_rel (xinlines_to e1)) ts ts' ->
  Forall2 (xmem_rel (fun a b => XRelA e1 a e2 b)) ts ts'.
Proof. intros Hs. apply F2_impl. intros km km' [E H]. split; [exact E | split; assumption]. Qed.
Lemma xmems_B e1 e2 ts ts' : xinl_env e2 e1 -> Forall2 (xmem_rel (xinlines_to e2)) ts ts' ->
  Forall2 (xmem_rel (fun a b => XRelB e1 a e2 b)) ts' ts.
Proof.
  intros Hs H. apply F2_flip in H. revert H. apply F2_impl. intros km' km [E H].
  split; [symmetry; exact E | split; assumption].
Qed.

(* a structural rule of xinlines_to gives one layer of congruence *)
Lemma xcong_A e1 e2 s1 s2 : xinl_env e1 e2 -> xinlines_to e1 s1 s2 ->
  xcong XRelA e1 e2 s1 s2 \/
  exists id d i u ps ps' m, s1 = XRef id "" d /\ s2 = XObject i u ps' m /\
    xresolve e1 id "" = Some (XObject i u ps m, e1) /\ Forall2 (xprop_rel (xinlines_to e1)) ps ps'.
Proof.
  intros Hs H. inversion H as [e s Hl | e it it' mn mx Hi | e k k' v v' mn mx Hk Hv | e id u ps ps' m HP | e ts ts' ik fd il HM | e objs objs' root HO | e id d i u ps ps' m Hres HP]; subst.
  - left. destruct s2; try discriminate; try (apply XC_leaf; [reflexivity | intros ? ? ? C; discriminate C]).
    apply XC_ref. pose proof (xresolve_inl e1 e2 id ns Hs) as HL.
    destruct (xresolve e1 id ns) as [[? ?]|], (xresolve e2 id ns) as [[? ?]|]; try contradiction; [|exact I].
    destruct HL as [He1 [Hoo _]]. split; assumption.
  - left. apply XC_list. split; assumption.
  - left. apply XC_map; split; assumption.
  - left. apply XC_obj. apply xprops_A; assumption.
  - left. apply XC_oneof. apply xmems_A; assumption.
  - left. apply XC_scope.
    assert (Ht : xtab_rel (xe_ext e1) (xe_or e1) (xe_structs e1) objs objs') by exact HO.
    pose proof (alookup_F2 (xtab_ok (xinlines_to (xenv_enter e1 objs))) _ _ root HO) as HL.
    destruct (alookup root objs), (alookup root objs'); try contradiction; [|exact I].
    destruct HL as [Hoo _]. split; [apply xinl_env_enter; assumption | exact Hoo].
  - right. repeat eexists; eauto.
Qed.

Lemma xcong_B e1 e2 s1 s2 : xinl_env e2 e1 -> xinlines_to e2 s2 s1 ->
  xcong XRelB e1 e2 s1 s2 \/
  exists id d i u ps ps' m, s2 = XRef id "" d /\ s1 = XObject i u ps' m /\
    xresolve e2 id "" = Some (XObject i u ps m, e2) /\ Forall2 (xprop_rel (xinlines_to e2)) ps ps'.
Proof.
  intros Hs H. inversion H as [e s Hl | e it it' mn mx Hi | e k k' v v' mn mx Hk Hv | e id u ps ps' m HP | e ts ts' ik fd il HM | e objs objs' root HO | e id d i u ps ps' m Hres HP]; subst.
  - left. destruct s1; try discriminate; try (apply XC_leaf; [reflexivity | intros ? ? ? C; discriminate C]).
    apply XC_ref. pose proof (xresolve_inl e2 e1 id ns Hs) as HL.
    destruct (xresolve e2 id ns) as [[? ?]|], (xresolve e1 id ns) as [[? ?]|]; try contradiction; [|exact I].
    destruct HL as [He1 [Hoo _]]. split; assumption.
  - left. apply XC_list. split; assumption.
  - left. apply XC_map; split; assumption.
  - left. apply XC_obj. apply xprops_B; assumption.
  - left. apply XC_oneof. apply xmems_B; assumption.
  - left. apply XC_scope.
    assert (Ht : xtab_rel (xe_ext e2) (xe_or e2) (xe_structs e2) objs objs') by exact HO.
    pose proof (alookup_F2 (xtab_ok (xinlines_to (xenv_enter e2 objs))) _ _ root HO) as HL.
    destruct (alookup root objs), (alookup root objs'); try contradiction; [|exact I].
    destruct HL as [Hoo _]. split; [apply xinl_env_enter; assumption | exact Hoo].
  - right. repeat eexists; eauto.
Qed.

Notation stepA lem := (lem words pu XRelA XRelA_or XRelA_st XRelA_rtype XRelA_srt XRelA_str XRelA_sub).
Notation stepB lem := (lem words pu XRelB XRelB_or XRelB_st XRelB_rtype XRelB_srt XRelB_str XRelB_sub).

(* (a) the inlined schema needs no more fuel than the original *)
Lemma xinline_le : forall f, xops_le words pu XRelA f f.
Proof.
  induction f as [|f IH]; [apply (stepA xops_le_0)|].
  pose proof IH as (Hu & Hv & Ho & Hs & Hc).
  destruct (xops_mono words pu f (S f) (le_S _ _ (le_n f))) as (Mu & Mv & Mo & Ms & Mc).
  assert (Hobj : forall e1 e2 i u ps ps' m, xinl_env e1 e2 -> Forall2 (xprop_rel (xinlines_to e1)) ps ps' ->
                   XRelA e1 (XObject i u ps m) e2 (XObject i u ps' m)).
  { intros. split; [assumption | apply XI_obj; assumption]. }
  repeat split.
  - intros e1 s1 e2 s2 v [Hsim Hinl].
    destruct (xcong_A _ _ _ _ Hsim Hinl) as [HC | (id & d & i & u & ps & ps' & m & -> & -> & Hres & HP)].
    + apply (stepA xstep_unser f f e1 e2 s1 s2 (le_n f) IH (conj Hsim Hinl) HC).
    + rewrite (xunser_S words pu f e1). cbv beta iota zeta. rewrite Hres.
      eapply leo_trans; [apply Hu; apply Hobj; eassumption | apply Mu].
  - intros e1 s1 e2 s2 v [Hsim Hinl].
    destruct (xcong_A _ _ _ _ Hsim Hinl) as [HC | (id & d & i & u & ps & ps' & m & -> & -> & Hres & HP)].
    + apply (stepA xstep_validate f f e1 e2 s1 s2 (le_n f) IH (conj Hsim Hinl) HC).
    + rewrite (xvalidate_S words pu f e1). cbv beta iota zeta. rewrite Hres.
      eapply leo_trans; [apply Hv; apply Hobj; eassumption | apply Mv].
  - intros. apply (stepA xstep_oneof); assumption.
  - intros e1 s1 e2 s2 v [Hsim Hinl].
    destruct (xcong_A _ _ _ _ Hsim Hinl) as [HC | (id & d & i & u & ps & ps' & m & -> & -> & Hres & HP)].
    + apply (stepA xstep_serialize f f e1 e2 s1 s2 (le_n f) IH (conj Hsim Hinl) HC).
    + rewrite (xserialize_S words pu f e1). cbv beta iota zeta. rewrite Hres.
      eapply leo_trans; [apply Hs; apply Hobj; eassumption | apply Ms].
  - intros e1 s1 e2 s2 v [Hsim Hinl].
    destruct (xcong_A _ _ _ _ Hsim Hinl) as [HC | (id & d & i & u & ps & ps' & m & -> & -> & Hres & HP)].
    + apply (stepA xstep_compat f f e1 e2 s1 s2 (le_n f) IH (conj Hsim Hinl) HC).
    + rewrite (xcompat_S words pu f e1). cbv beta iota zeta. rewrite Hres.
      eapply leo_trans; [apply Hc; apply Hobj; eassumption | apply Mc].
Qed.

(* (b) the original needs at most twice the fuel of the inlined schema *)
Lemma xinline_ge : forall f, xops_le words pu XRelB f (2 * f).
Proof.
  induction f as [|f IH]; [apply (stepB xops_le_0)|].
  replace (2 * S f)%nat with (S (S (2 * f))) by lia.
  assert (IH1 : xops_le words pu XRelB f (S (2 * f))).
  { eapply (stepB xops_le_mono); [|exact IH]. lia. }
  assert (Hf2 : (f <= 2 * f)%nat) by lia.
  assert (Hf1 : (f <= S (2 * f))%nat) by lia.
  assert (Hobj : forall e1 e2 i u ps ps' m, xinl_env e2 e1 -> Forall2 (xprop_rel (xinlines_to e2)) ps ps' ->
                   XRelB e1 (XObject i u ps' m) e2 (XObject i u ps m) /\
                   xcong XRelB e1 e2 (XObject i u ps' m) (XObject i u ps m)).
  { intros. split; [split; [assumption | apply XI_obj; assumption] | apply XC_obj; apply xprops_B; assumption]. }
  repeat split.
  - intros e1 s1 e2 s2 v [Hsim Hinl].
    destruct (xcong_B _ _ _ _ Hsim Hinl) as [HC | (id & d & i & u & ps & ps' & m & -> & -> & Hres & HP)].
    + apply (stepB xstep_unser f (S (2 * f)) e1 e2 s1 s2 Hf1 IH1 (conj Hsim Hinl) HC).
    + rewrite (xunser_S words pu (S (2 * f)) e2). cbv beta iota zeta. rewrite Hres.
      destruct (Hobj e1 e2 i u ps ps' m Hsim HP) as [HR HC].
      apply (stepB xstep_unser f (2 * f) e1 e2 _ _ Hf2 IH HR HC).
  - intros e1 s1 e2 s2 v [Hsim Hinl].
    destruct (xcong_B _ _ _ _ Hsim Hinl) as [HC | (id & d & i & u & ps & ps' & m & -> & -> & Hres & HP)].
    + apply (stepB xstep_validate f (S (2 * f)) e1 e2 s1 s2 Hf1 IH1 (conj Hsim Hinl) HC).
    + rewrite (xvalidate_S words pu (S (2 * f)) e2). cbv beta iota zeta. rewrite Hres.
      destruct (Hobj e1 e2 i u ps ps' m Hsim HP) as [HR HC].
      apply (stepB xstep_validate f (2 * f) e1 e2 _ _ Hf2 IH HR HC).
  - intros. apply (stepB xstep_oneof); assumption.
  - intros e1 s1 e2 s2 v [Hsim Hinl].
    destruct (xcong_B _ _ _ _ Hsim Hinl) as [HC | (id & d & i & u & ps & ps' & m & -> & -> & Hres & HP)].
    + apply (stepB xstep_serialize f (S (2 * f)) e1 e2 s1 s2 Hf1 IH1 (conj Hsim Hinl) HC).
    + rewrite (xserialize_S words pu (S (2 * f)) e2). cbv beta iota zeta. rewrite Hres.
      destruct (Hobj e1 e2 i u ps ps' m Hsim HP) as [HR HC].
      apply (stepB xstep_serialize f (2 * f) e1 e2 _ _ Hf2 IH HR HC).
  - intros e1 s1 e2 s2 v [Hsim Hinl].
    destruct (xcong_B _ _ _ _ Hsim Hinl) as [HC | (id & d & i & u & ps & ps' & m & -> & -> & Hres & HP)].
    + apply (stepB xstep_compat f (S (2 * f)) e1 e2 s1 s2 Hf1 IH1 (conj Hsim Hinl) HC).
    + rewrite (xcompat_S words pu (S (2 * f)) e2). cbv beta iota zeta. rewrite Hres.
      destruct (Hobj e1 e2 i u ps ps' m Hsim HP) as [HR HC].
      apply (stepB xstep_compat f (2 * f) e1 e2 _ _ Hf2 IH HR HC).
Qed.

Theorem xinline_equiv_unser : forall e e' s s', xinl_env e e' -> xinlines_to e s s' ->
  forall f v r, r <> OutOfFuel ->
    (xunser f e s v = r -> xunser f e' s' v = r) /\ (xunser f e' s' v = r -> xunser (2 * f) e s v = r).
Proof.
  intros e e' s s' He Hs f v r Hr. split; intros E.
  - destruct (xinline_le f) as (H & _). eapply le_out_eq; [apply H; split; eassumption | exact E | exact Hr].
  - destruct (xinline_ge f) as (H & _). eapply le_out_eq; [apply H; split; eassumption | exact E | exact Hr].
Qed.

Theorem xinline_equiv_validate : forall e e' s s', xinl_env e e' -> xinlines_to e s s' ->
  forall f v r, r <> OutOfFuel ->
    (xvalidate f e s v = r -> xvalidate f e' s' v = r) /\ (xvalidate f e' s' v = r -> xvalidate (2 * f) e s v = r).
Proof.
  intros e e' s s' He Hs f v r Hr. split; intros E.
  - destruct (xinline_le f) as (_ & H & _). eapply le_out_eq; [apply H; split; eassumption | exact E | exact Hr].
  - destruct (xinline_ge f) as (_ & H & _). eapply le_out_eq; [apply H; split; eassumption | exact E | exact Hr].
Qed.

Theorem xinline_equiv_serialize : forall e e' s s', xinl_env e e' -> xinlines_to e s s' ->
  forall f v r, r <> OutOfFuel ->
    (xserialize f e s v = r -> xserialize f e' s' v = r) /\ (xserialize f e' s' v = r -> xserialize (2 * f) e s v = r).
Proof.
  intros e e' s s' He Hs f v r Hr. split; intros E.
  - destruct (xinline_le f) as (_ & _ & _ & H & _). eapply le_out_eq; [apply H; split; eassumption | exact E | exact Hr].
  - destruct (xinline_ge f) as (_ & _ & _ & H & _). eapply le_out_eq; [apply H; split; eassumption | exact E | exact Hr].
Qed.

Theorem xinline_equiv_compat : forall e e' s s', xinl_env e e' -> xinlines_to e s s' ->
  forall f v r, r <> OutOfFuel ->
    (xcompat f e s v = r -> xcompat f e' s' v = r) /\ (xcompat f e' s' v = r -> xcompat (2 * f) e s v = r).
Proof.
  intros e e' s s' He Hs f v r Hr. split; intros E.
  - destruct (xinline_le f) as (_ & _ & _ & _ & H). eapply le_out_eq; [apply H; split; eassumption | exact E | exact Hr].
  - destruct (xinline_ge f) as (_ & _ & _ & _ & H). eapply le_out_eq; [apply H; split; eassumption | exact E | exact Hr].
Qed.

End XEquiv.

(* s7b's one-level relation (a parent's member reference replaced by the object, Proofs/XInline.v) is an instance *)
Lemma xprop_inl_rel e np np' : fst np = fst np' -> xprop_inl e (snd np) (snd np') -> xprop_rel (xinlines_to e) np np'.
Proof.
  destruct np as [n p], np' as [n' p']. cbn [fst snd]. intros <- H.
  destruct H as [p | p id d o Ht Hl Ho].
  - apply xprop_rel_refl. apply xinl_refl.
  - exists o. split; [reflexivity|]. cbn [snd]. rewrite Ht. destruct o; try contradiction.
    eapply XI_ref.
    + unfold xresolve. cbn. rewrite Hl. reflexivity.
    + apply F2_refl. intros np _. apply xprop_rel_refl. apply xinl_refl.
Qed.
