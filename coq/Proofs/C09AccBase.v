(* Proofs/C09AccBase.v — "accepted at every fuel from n on": sufficient conditions for the generic
   Unserialize of Schema/Ops.v to ACCEPT a value, one schema constructor at a time.  Used by
   Proofs/C09AccTable.v to evaluate the generated meta-schema table (Schema/MetaTable.v) symbolically, one
   meta object at a time, on the descriptions `describe` produces (C09_accepted).

     acc n T d  :=  forall fuel >= n, exists x, unser fuel e T d = Ok x

   The levels compose by +1 per constructor, so no fuel-monotonicity lemma is needed. *)
From Coq Require Import Lia.
From Verif Require Import Base.Prelude Base.Str Base.Float Base.GoVal
  Schema.Regex Schema.Units Schema.Syntax Schema.Ops Schema.SpecObj Schema.Describe
  Proofs.OpsLemmas Proofs.OpsEq Proofs.C03Obj Proofs.C09Fixpoint.
Open Scope string_scope.

Lemma amem_same_keys {A B} k (l : list (string * A)) (l' : list (string * B)) :
  map fst l = map fst l' -> amem k l = amem k l'.
Proof.
  intros E. destruct (amem k l) eqn:E1, (amem k l') eqn:E2; try reflexivity.
  - apply amem_false, alookup_None_notin in E2. apply amem_alookup in E1. destruct E1 as (v & Hv).
    apply alookup_In in Hv. apply (in_map fst) in Hv. rewrite E in Hv. contradiction.
  - apply amem_false, alookup_None_notin in E1. apply amem_alookup in E2. destruct E2 as (v & Hv).
    apply alookup_In in Hv. apply (in_map fst) in Hv. rewrite <- E in Hv. contradiction.
Qed.

Lemma mapMi_exists {A B} (g : Z -> A -> outcome B) l :
  (forall x, In x l -> forall i, exists y, g i x = Ok y) -> forall i, exists out, mapMi g i l = Ok out.
Proof.
  induction l as [|x t IH]; intros H i; [exists []; reflexivity|].
  cbn [mapMi]. destruct (H x (or_introl eq_refl) i) as [y Hy]. rewrite Hy. cbn [bind].
  destruct (IH (fun z Hz => H z (or_intror Hz)) (i + 1)%Z) as [ys Hys]. rewrite Hys. cbn [bind].
  eexists; reflexivity.
Qed.

Lemma kfold_dobj props (fs : list (string * gval)) :
  forallb (fun kv => amem (fst kv) props) fs = true ->
  forall a, fold_left (kstep props) (map (fun kv : string * gval => (vstr (fst kv), snd kv)) fs) (Ok a)
            = Ok (a ++ fs)%list.
Proof.
  induction fs as [|[k v] t IH]; intros H a; cbn [map fold_left fst snd].
  - rewrite app_nil_r. reflexivity.
  - cbn [forallb fst] in H. apply andb_true_iff in H. destruct H as [Hk Ht].
    replace (kstep props (Ok a) (vstr k, v)) with (Ok (a ++ [(k, v)])%list : outcome raw).
    + rewrite (IH Ht). rewrite <- app_assoc. reflexivity.
    + unfold kstep, kbody. cbn [bind fst snd vstr]. rewrite Hk. reflexivity.
Qed.

Section Acc.
Variable words : list (string * bool).
Variable pu : units -> string -> option fl.
Variable e : env.
Notation unser := (unser words pu).

Definition acc (n : nat) (T : schema) (d : gval) : Prop :=
  forall f, (n <= f)%nat -> exists x, unser f e T d = Ok x.

Lemma acc_weaken n m T d : acc n T d -> (n <= m)%nat -> acc m T d.
Proof. intros H Hle f Hf. apply H. lia. Qed.

(* ---------- scalars ---------- *)
Lemma acc_int n mn mx u z : in_i64 z = true -> size_ok mn mx z = true -> acc (S n) (SInt mn mx u) (vi64 z).
Proof.
  intros Hi Hs f Hf. destruct f as [|f']; [lia|]. rewrite (unser_S words pu). cbv beta iota.
  unfold in_i64 in Hi. apply andb_true_iff in Hi. destruct Hi as [_ Hmax].
  unfold int_unser. change (int_mapper u (vi64 z)) with (if (z <=? max_i64)%Z then Some z else None).
  rewrite Hmax. unfold int_bounds. rewrite Hs. eexists; reflexivity.
Qed.

Lemma acc_float n mn mx u x : float_bounds mn mx x = Ok (vf64 x) -> acc (S n) (SFloat mn mx u) (vf64 x).
Proof.
  intros Hb f Hf. destruct f as [|f']; [lia|]. rewrite (unser_S words pu). cbv beta iota.
  unfold float_unser. change (float_mapper pu u (vf64 x)) with (Some x). cbv beta iota. rewrite Hb.
  eexists; reflexivity.
Qed.

Lemma acc_string n mn mx pat s :
  size_ok mn mx (slen s) = true ->
  match pat with Some (_, r) => re_match_string r s = true | None => True end ->
  acc (S n) (SString mn mx pat) (vstr s).
Proof.
  intros Hs Hp f Hf. destruct f as [|f']; [lia|]. rewrite (unser_S words pu). cbv beta iota.
  unfold string_unser. change (string_mapper (vstr s)) with (Some s). cbv beta iota.
  unfold string_check. rewrite Hs. destruct pat as [[src r]|]; [rewrite Hp|]; eexists; reflexivity.
Qed.

Lemma acc_bool n b : acc (S n) SBool (vbool b).
Proof. intros f Hf. destruct f as [|f']; [lia|]. rewrite (unser_S words pu). eexists; reflexivity. Qed.

Lemma acc_pattern n s : o_re_ok (e_or e) s = true -> acc (S n) SPattern (vstr s).
Proof.
  intros H f Hf. destruct f as [|f']; [lia|]. rewrite (unser_S words pu). cbv beta iota.
  unfold pattern_unser. change (string_mapper (vstr s)) with (Some s). cbv beta iota. rewrite H.
  eexists; reflexivity.
Qed.

(* ---------- containers ---------- *)
Lemma acc_list n it mn mx l :
  size_ok mn mx (zlen l) = true -> Forall (acc n it) l -> acc (S n) (SList it mn mx) (dlist l).
Proof.
  intros Hs Hall f Hf. destruct f as [|f']; [lia|]. rewrite (unser_S words pu). unfold dlist. cbv beta iota.
  rewrite Hs.
  match goal with |- context [mapMi ?g 0%Z l] => destruct (mapMi_exists g l) with (i := 0%Z) as [ys Hys] end.
  - intros x Hx i. rewrite Forall_forall in Hall. destruct (Hall x Hx f') as [y Hy]; [lia|].
    exists y. cbv beta. rewrite Hy. reflexivity.
  - rewrite Hys. cbn [bind]. eexists; reflexivity.
Qed.

Lemma acc_strs n l : acc (S (S n)) (SList (SString None None None) None None) (dstrs l).
Proof.
  unfold dstrs. apply acc_list; [reflexivity|]. apply Forall_forall. intros x Hx.
  apply in_map_iff in Hx. destruct Hx as (s & <- & _). apply acc_string; [reflexivity | exact I].
Qed.

Lemma acc_map n ks vs mn mx kvs :
  size_ok mn mx (zlen kvs) = true ->
  Forall (fun kv => acc n ks (fst kv) /\ acc n vs (snd kv)) kvs ->
  acc (S n) (SMap ks vs mn mx) (dmap kvs).
Proof.
  intros Hs Hall f Hf. destruct f as [|f']; [lia|]. rewrite (unser_S words pu). unfold dmap. cbv beta iota.
  rewrite Hs. clear Hs.
  match goal with |- context [fold_left ?g kvs (Ok [])] =>
    assert (G : forall a, exists r, fold_left g kvs (Ok a) = Ok r) end.
  { induction Hall as [|kv t [Hk Hv] _ IH]; intros a; [exists a; reflexivity|].
    cbn [fold_left]. destruct (Hk f') as [k' Ek]; [lia|]. destruct (Hv f') as [v' Ev]; [lia|].
    cbn [bind]. rewrite Ek. cbn [seg map_err bind]. rewrite Ev. cbn [seg map_err bind]. apply IH. }
  destruct (G []) as [r Hr]. rewrite Hr. cbn [bind]. eexists; reflexivity.
Qed.

(* ---------- references into the scope's own table ---------- *)
Lemma acc_ref n id d o v : alookup id (e_self e) = Some o -> acc n o v -> acc (S n) (SRef id "" d) v.
Proof.
  intros Hl Ho f Hf. destruct f as [|f']; [lia|]. rewrite (unser_S words pu). cbv beta iota.
  unfold resolve. cbn [String.eqb]. cbv beta iota. rewrite Hl. apply Ho. lia.
Qed.

(* ---------- a string-keyed one-of whose discriminator is not inlined ---------- *)
Lemma acc_oneof n types field fs tid k0 member :
  forallb (fun kv => negb (String.eqb field (fst kv))) fs = true ->
  find (fun ks => okey_eqb (fst ks) (KS tid)) types = Some (k0, member) ->
  acc n member (dobj fs) ->
  acc (S n) (SOneOf types false field false) (dobj ((field, vstr tid) :: fs)).
Proof.
  intros Hnf Hfind Hm f Hf. destruct f as [|f']; [lia|]. rewrite (unser_S words pu). unfold dobj. cbv beta iota.
  cbn [map fst snd].
  assert (K : forallb (fun kv : gval * gval => match fst kv with VStr TStr _ => true | _ => false end)
                ((vstr field, vstr tid) :: map (fun kv : string * gval => (vstr (fst kv), snd kv)) fs) = true).
  { cbn. apply keys_are_strings. }
  rewrite K. clear K.
  change (vstr field) with (VStr TStr field). change (vstr tid) with (VStr TStr tid).
  cbn [smap_get]. rewrite String.eqb_refl. cbv beta iota.
  cbn [string_mapper option_map]. cbv beta iota. rewrite Hfind. cbv beta iota zeta.
  cbn [smap_del]. rewrite String.eqb_refl. rewrite smap_del_absent by exact Hnf.
  destruct (Hm f') as [x Hx]; [lia|]. unfold dobj in Hx. rewrite Hx. cbn [bind].
  destruct (is_str_any_map x); eexists; reflexivity.
Qed.

(* ---------- objects ---------- *)
(* what one declared property needs: no inter-field rule; if the field is there (or a default decodes) the
   property is enabled and its type accepts the value; if it is absent without default it is optional *)
Definition prop_ok (n : nat) (fs : list (string * gval)) (np : string * property) : Prop :=
  p_required_if (snd np) = [] /\ p_required_if_not (snd np) = [] /\ p_conflicts (snd np) = [] /\
  match alookup (fst np) fs with
  | Some d => p_disabled (snd np) = false /\ acc n (p_type (snd np)) d
  | None => match default_value (e_or e) (snd np) with
            | Some d => p_disabled (snd np) = false /\ acc n (p_type (snd np)) d
            | None => p_required (snd np) = false
            end
  end.

Lemma acc_object n id un props fs :
  nodup_str (map fst props) = true ->
  forallb (fun kv => amem (fst kv) props) fs = true ->
  Forall (prop_ok n fs) props ->
  acc (S n) (SObject id un props) (dobj fs).
Proof.
  intros Hndp Hdecl Hall f Hf. destruct f as [|f']; [lia|].
  rewrite unser_object_eq. unfold obj_unser, dobj. cbv beta iota.
  apply nodup_str_NoDup in Hndp.
  match goal with |- context [fold_left (kstep props) ?l ?o] =>
    replace (fold_left (kstep props) l o) with (Ok fs : outcome raw)
      by (symmetry; exact (kfold_dobj props fs Hdecl []))
  end.
  cbn [bind app]. cbv zeta.
  set (r1 := fold_left (dstep (e_or e)) props fs).
  assert (Hin_of : forall k p, alookup k props = Some p -> alookup k r1 = input_of (e_or e) fs k p).
  { intros k p Hp. unfold r1. apply r1_input; assumption. }
  assert (Hpk : forall k p, alookup k props = Some p -> prop_ok n fs (k, p)).
  { intros k p Hp. rewrite Forall_forall in Hall. apply Hall. apply alookup_In. exact Hp. }
  destruct (ufold_complete (unser f' e) props Hndp r1) as [r2 Hr2].
  { intros k p d Hp Hd. rewrite (Hin_of k p Hp) in Hd. unfold input_of in Hd.
    destruct (Hpk k p Hp) as (_ & _ & _ & Hc). cbn [fst snd] in Hc. unfold prop_reads.
    destruct (alookup k fs) as [d0|].
    - inversion Hd; subst d0. destruct Hc as [Hdis Hacc]. destruct (Hacc f') as [x Hx]; [lia|]. exists x. auto.
    - rewrite Hd in Hc. destruct Hc as [Hdis Hacc]. destruct (Hacc f') as [x Hx]; [lia|]. exists x. auto. }
  match goal with |- context [fold_left (ustep ?u) props ?o] =>
    replace (fold_left (ustep u) props o) with (Ok r2 : outcome raw) by (symmetry; exact Hr2)
  end.
  cbn [bind].
  assert (Hrules : check_rules props (fun k => amem k r2) = Ok tt).
  { apply check_rules_ok. intros name p Hin. unfold rule_holds. cbv beta.
    assert (Hp : alookup name props = Some p) by (apply In_alookup_nodup; assumption).
    destruct (Hpk name p Hp) as (Hrif & Hrifn & Hconf & Hc). cbn [fst snd] in *.
    destruct (amem name r2) eqn:Es.
    - intros c Hcin. rewrite Hconf in Hcin. destruct Hcin.
    - split; [|split].
      + destruct (ufold_sound (unser f' e) props Hndp r1 r2 Hr2) as (Hkeys & _).
        rewrite (amem_same_keys name r2 r1 Hkeys) in Es.
        apply amem_false in Es. rewrite (Hin_of name p Hp) in Es. unfold input_of in Es.
        destruct (alookup name fs); [discriminate|]. rewrite Es in Hc. exact Hc.
      + intros r Hr. rewrite Hrif in Hr. destruct Hr.
      + intros Hne. rewrite Hrifn in Hne. exfalso. apply Hne. reflexivity. }
  match goal with |- context [check_rules props ?st] =>
    replace (check_rules props st) with (Ok tt : outcome unit) by (symmetry; exact Hrules)
  end.
  cbn [bind]. eexists; reflexivity.
Qed.

End Acc.

(* the top of a description: a scope over a table, evaluated in the empty environment *)
Lemma acc_scope words pu e objs root o n v :
  alookup root objs = Some o ->
  acc words pu (env_enter e objs) n o v -> acc words pu e (S n) (SScope objs root) v.
Proof.
  intros Hl Ho f Hf. destruct f as [|f']; [lia|]. rewrite (unser_S words pu). cbv beta iota. rewrite Hl.
  apply Ho. lia.
Qed.
