(* Proofs/C01Base.v — groundwork of the full round-trip proof (C01): an induction principle for Go values,
   the strong wire form (swire => SpecRT.wire, CborNorm.decodable), what CBOR does to a wire value, Ops.key_eqb
   is a partial equivalence (IEEE == included), maps built by map_set keep pairwise different keys and re-build
   to themselves, and the generic characterisation of the map folds of Ops.v. *)
From Coq Require Import Lia.
From Verif Require Import Base.Prelude Base.Str Base.Float Base.GoVal
  Schema.Regex Schema.Units Schema.Syntax Schema.Ops Schema.Cbor Schema.Wf Schema.SpecRT Schema.C01Spec
  Proofs.OpsLemmas Proofs.C01Round Proofs.CborNorm.
Open Scope string_scope.
Open Scope Z_scope.

(* ---------- structural induction over Go values ---------- *)
Section GvalInd.
Variable P : gval -> Prop.
Hypothesis Hnil : P VNil.
Hypothesis Hbool : forall t b, P (VBool t b).
Hypothesis Hint : forall t z, P (VInt t z).
Hypothesis Hfloat : forall t x, P (VFloat t x).
Hypothesis Hstr : forall t s, P (VStr t s).
Hypothesis Hslice : forall t b l, Forall P l -> P (VSlice t b l).
Hypothesis Hmap : forall t b kvs, Forall (fun kv => P (fst kv) /\ P (snd kv)) kvs -> P (VMap t b kvs).
Hypothesis HptrN : forall t, P (VPtr t None).
Hypothesis HptrS : forall t x, P x -> P (VPtr t (Some x)).
Hypothesis Hstruct : forall t fs, Forall (fun nv => P (snd nv)) fs -> P (VStruct t fs).
Hypothesis Hregexp : forall s, P (VRegexp s).
Hypothesis Hopaque : forall k d, P (VOpaque k d).

Fixpoint gval_ind' (v : gval) : P v :=
  match v with
  | VNil => Hnil
  | VBool t b => Hbool t b
  | VInt t z => Hint t z
  | VFloat t x => Hfloat t x
  | VStr t s => Hstr t s
  | VSlice t b l =>
      Hslice t b l ((fix go (l : list gval) : Forall P l :=
                       match l with
                       | [] => Forall_nil P
                       | x :: r => Forall_cons x (gval_ind' x) (go r)
                       end) l)
  | VMap t b kvs =>
      Hmap t b kvs ((fix go (l : list (gval * gval)) : Forall (fun kv => P (fst kv) /\ P (snd kv)) l :=
                       match l with
                       | [] => Forall_nil _
                       | kv :: r => Forall_cons kv (conj (gval_ind' (fst kv)) (gval_ind' (snd kv))) (go r)
                       end) kvs)
  | VPtr t None => HptrN t
  | VPtr t (Some x) => HptrS t x (gval_ind' x)
  | VStruct t fs =>
      Hstruct t fs ((fix go (l : list (string * gval)) : Forall (fun nv => P (snd nv)) l :=
                       match l with
                       | [] => Forall_nil _
                       | nv :: r => Forall_cons nv (gval_ind' (snd nv)) (go r)
                       end) fs)
  | VRegexp s => Hregexp s
  | VOpaque k d => Hopaque k d
  end.
End GvalInd.

(* ---------- the strong wire form ---------- *)
Lemma is_pstr_inv k : is_pstr k = true -> exists s, k = VStr TStr s.
Proof. destruct k as [| | | |t s| | | | | |]; try discriminate. destruct t; try discriminate. eauto. Qed.

Lemma swire_wire : forall v, swire v = true -> wire v = true.
Proof.
  apply (gval_ind' (fun v => swire v = true -> wire v = true)).
  - discriminate.
  - intros t b H. destruct t; cbn [swire] in H; try discriminate H. reflexivity.
  - intros t z H. destruct t as [| k | | | | | | | | | | |]; cbn [swire] in H; try discriminate H.
    destruct k; try discriminate H. reflexivity.
  - intros t x H. destruct t; cbn [swire] in H; try discriminate H. reflexivity.
  - intros t s H. destruct t; cbn [swire] in H; try discriminate H. reflexivity.
  - intros t b l IH H. destruct t as [| | | | | | | el | | | | |]; cbn [swire] in H; try discriminate H.
    destruct el; try discriminate H. destruct b; try discriminate H.
    cbn [wire]. change (gtype_eqb (TSlice TAny) t_any_slice) with true. cbn [andb].
    rewrite forallb_forall in *. rewrite Forall_forall in IH. intros x Hx. apply IH; [exact Hx | apply H; exact Hx].
  - intros t b kvs IH H. destruct t as [| | | | | | | | kt vt | | | |]; cbn [swire] in H; try discriminate H.
    rewrite Forall_forall in IH.
    destruct kt; try discriminate H; destruct vt; try discriminate H; destruct b; try discriminate H; cbn [wire].
    + change (gtype_eqb (TMap TStr TAny) t_any_map || gtype_eqb (TMap TStr TAny) t_str_map) with true. cbn [andb].
      rewrite forallb_forall in *. intros [k x] Hin. specialize (H _ Hin). cbn beta iota in H.
      apply andb_prop in H. destruct H as [Hk Hx]. destruct (IH _ Hin) as [_ IHx]. cbn [fst snd] in IHx.
      destruct (is_pstr_inv k Hk) as (s0 & ->). rewrite (IHx Hx). reflexivity.
    + change (gtype_eqb (TMap TAny TAny) t_any_map || gtype_eqb (TMap TAny TAny) t_str_map) with true. cbn [andb].
      rewrite forallb_forall in *. intros [k x] Hin. specialize (H _ Hin). cbn beta iota in H.
      apply andb_prop in H. destruct H as [Hk Hx]. destruct (IH _ Hin) as [IHk IHx]. cbn [fst snd] in IHk, IHx.
      rewrite (IHk Hk), (IHx Hx). reflexivity.
  - discriminate.
  - discriminate.
  - discriminate.
  - discriminate.
  - discriminate.
Qed.

Lemma swire_decodable : forall v, swire v = true -> decodable v.
Proof.
  apply (gval_ind' (fun v => swire v = true -> decodable v)).
  - discriminate.
  - intros t b H. destruct t; cbn [swire] in H; try discriminate H. constructor.
  - intros t z H. destruct t as [| k | | | | | | | | | | |]; cbn [swire] in H; try discriminate H.
    destruct k; try discriminate H. constructor. exact H.
  - intros t x H. destruct t; cbn [swire] in H; try discriminate H. constructor.
  - intros t s H. destruct t; cbn [swire] in H; try discriminate H. constructor.
  - intros t b l IH H. destruct t as [| | | | | | | el | | | | |]; cbn [swire] in H; try discriminate H.
    destruct el; try discriminate H. destruct b; try discriminate H.
    apply dec_slice. rewrite forallb_forall in H. rewrite Forall_forall in *. intros x Hx. apply IH; [exact Hx | apply H; exact Hx].
  - intros t b kvs IH H. destruct t as [| | | | | | | | kt vt | | | |]; cbn [swire] in H; try discriminate H.
    rewrite Forall_forall in IH.
    destruct kt; try discriminate H; destruct vt; try discriminate H; destruct b; try discriminate H.
    + apply dec_smap. rewrite forallb_forall in H. apply Forall_forall. intros [k x] Hin. specialize (H _ Hin). cbn beta iota in H.
      apply andb_prop in H. destruct H as [Hk Hx]. destruct (IH _ Hin) as [_ IHx]. cbn [fst snd] in *.
      split; [apply is_pstr_inv; exact Hk | apply IHx; exact Hx].
    + apply dec_amap. rewrite forallb_forall in H. apply Forall_forall. intros [k x] Hin. specialize (H _ Hin). cbn beta iota in H.
      apply andb_prop in H. destruct H as [Hk Hx]. destruct (IH _ Hin) as [IHk IHx]. cbn [fst snd] in *.
      split; [apply IHk; exact Hk | apply IHx; exact Hx].
  - discriminate.
  - discriminate.
  - discriminate.
  - discriminate.
  - discriminate.
Qed.

(* what CBOR does to a wire value: the result differs only in integer width / container type (CborNorm.neq),
   is again decodable, and every schema reads it exactly as it reads the original *)
Lemma cbor_norm_wire D w : swire w = true ->
  neq w (cbor_norm D w) /\ decodable (cbor_norm D w)
  /\ forall words pu f e s, unser words pu f e s (cbor_norm D w) = unser words pu f e s w.
Proof.
  intros H. pose proof (swire_decodable w H) as Hd.
  split; [apply cbor_norm_neq; exact Hd|]. split; [apply cbor_norm_decodable; exact Hd|].
  intros words pu f e s. apply norm_invariant. exact Hd.
Qed.

(* one level of it, spelled out: non-negative integers become uint64, floats stay float64, strings and booleans
   are unchanged, []any stays []any, both map types become map[any]any *)
Lemma cbor_norm_wire_shape D w : swire w = true ->
  match w with
  | VInt _ z => cbor_norm (S D) w = VInt (TInt (if 0 <=? z then U64 else I64)) z
  | VFloat _ x => cbor_norm (S D) w = vf64 x
  | VStr _ s => cbor_norm (S D) w = vstr s
  | VBool _ b => cbor_norm (S D) w = vbool b
  | VSlice _ _ l => cbor_norm (S D) w = VSlice t_any_slice false (map (cbor_norm D) l)
  | VMap _ _ kvs => cbor_norm (S D) w = VMap t_any_map false (map (fun kv => (cbor_norm D (fst kv), cbor_norm D (snd kv))) kvs)
  | _ => False
  end.
Proof.
  intros H. destruct w; cbn [swire] in H; try discriminate H; cbn [cbor_norm]; try reflexivity.
  destruct (0 <=? z); reflexivity.
Qed.

(* ---------- IEEE == is a partial equivalence ---------- *)
Lemma mag_eq_iff m1 e1 m2 e2 E : E <= e1 -> E <= e2 ->
  (mag_cmp m1 e1 m2 e2 = Eq <-> Zpos m1 * 2 ^ (e1 - E) = Zpos m2 * 2 ^ (e2 - E)).
Proof.
  intros H1 H2. unfold mag_cmp. cbv zeta. rewrite Z.compare_eq_iff.
  set (e := Z.min e1 e2). assert (He : E <= e /\ e <= e1 /\ e <= e2) by (unfold e; lia).
  replace (e1 - E) with ((e1 - e) + (e - E)) by lia. replace (e2 - E) with ((e2 - e) + (e - E)) by lia.
  rewrite !Z.pow_add_r by lia. rewrite !Z.mul_assoc.
  assert (Hp : 2 ^ (e - E) <> 0) by (apply Z.pow_nonzero; lia).
  split; intros H; [rewrite H; reflexivity | apply (proj1 (Z.mul_cancel_r _ _ _ Hp)); exact H].
Qed.

Lemma mag_eq_trans m1 e1 m2 e2 m3 e3 : mag_cmp m1 e1 m2 e2 = Eq ->
  (mag_cmp m3 e3 m1 e1 = Eq <-> mag_cmp m3 e3 m2 e2 = Eq) /\ (mag_cmp m1 e1 m3 e3 = Eq <-> mag_cmp m2 e2 m3 e3 = Eq).
Proof.
  intros H. pose (E := Z.min e1 (Z.min e2 e3)).
  assert (HE : E <= e1 /\ E <= e2 /\ E <= e3) by (unfold E; lia). destruct HE as (E1 & E2 & E3).
  rewrite (mag_eq_iff m1 e1 m2 e2 E E1 E2) in H.
  rewrite (mag_eq_iff m3 e3 m1 e1 E E3 E1), (mag_eq_iff m3 e3 m2 e2 E E3 E2),
          (mag_eq_iff m1 e1 m3 e3 E E1 E3), (mag_eq_iff m2 e2 m3 e3 E E2 E3).
  rewrite H. split; tauto.
Qed.

Lemma cmp_eq_bool (c c' : comparison) : (c = Eq <-> c' = Eq) ->
  match c with Eq => true | _ => false end = match c' with Eq => true | _ => false end.
Proof.
  intros [H1 H2]. destruct c, c'; try reflexivity;
    try (discriminate (H1 eq_refl)); try (discriminate (H2 eq_refl)).
Qed.

Lemma feq_trans a b c : feq a b = true -> feq c a = feq c b.
Proof.
  unfold feq. intros H.
  destruct a as [|sa|sa|sa ma ea], b as [|sb|sb|sb mb eb]; cbn [fcmp] in H;
    try discriminate H; try (destruct sa; cbn in H; discriminate H); try (destruct sb; cbn in H; discriminate H).
  - (* inf, inf *)
    destruct sa, sb; cbn in H; try discriminate H; reflexivity.
  - (* zero, zero *)
    destruct c as [|sc|sc|sc mc ec]; reflexivity.
  - (* finite, finite *)
    destruct sa, sb; cbn [fcmp] in H; try discriminate H.
    + destruct (mag_cmp mb eb ma ea) eqn:Em; try discriminate H.
      destruct c as [|sc|sc|sc mc ec]; cbn [fcmp]; try reflexivity.
      destruct sc; try reflexivity.
      destruct (mag_eq_trans mb eb ma ea mc ec Em) as [_ T]. apply cmp_eq_bool. tauto.
    + destruct (mag_cmp ma ea mb eb) eqn:Em; try discriminate H.
      destruct c as [|sc|sc|sc mc ec]; cbn [fcmp]; try reflexivity.
      destruct sc; try reflexivity.
      destruct (mag_eq_trans ma ea mb eb mc ec Em) as [T _]. apply cmp_eq_bool. tauto.
Qed.

Lemma key_eqb_trans a b c : key_eqb a b = true -> key_eqb c a = key_eqb c b.
Proof.
  destruct a, b; cbn [key_eqb]; try discriminate; intros H; destruct c; cbn [key_eqb]; try reflexivity.
  - apply Bool.eqb_prop in H. subst. reflexivity.
  - apply Z.eqb_eq in H. subst. reflexivity.
  - apply feq_trans. exact H.
  - apply String.eqb_eq in H. subst. reflexivity.
Qed.

(* ---------- maps built by map_set ---------- *)
Definition mfold (cs acc : list (gval * gval)) : list (gval * gval) :=
  fold_left (fun a c => map_set (fst c) (snd c) a) cs acc.

(* every key differs from the earlier ones, compared the way map_set compares (new key first) *)
Fixpoint nodupk (l : list (gval * gval)) : Prop :=
  match l with
  | [] => True
  | c :: t => Forall (fun c2 => key_eqb (fst c2) (fst c) = false) t /\ nodupk t
  end.

Lemma map_set_forall (P : gval * gval -> Prop) k v l : P (k, v) -> Forall P l -> Forall P (map_set k v l).
Proof.
  intros Hk. induction l as [|[k0 v0] t IH]; intros H; cbn [map_set].
  - constructor; [exact Hk | constructor].
  - inversion H as [|? ? H0 Ht]; subst. destruct (key_eqb k k0).
    + constructor; [exact Hk | exact Ht].
    + constructor; [exact H0 | apply IH; exact Ht].
Qed.

Lemma nodupk_map_set k v l : nodupk l -> nodupk (map_set k v l).
Proof.
  induction l as [|[k0 v0] t IH]; intros H; cbn [map_set].
  - cbn. split; [constructor | exact I].
  - destruct H as [H0 Ht]. destruct (key_eqb k k0) eqn:E.
    + cbn [nodupk fst]. split; [|exact Ht].
      eapply Forall_impl; [|exact H0]. intros c2 Hc. cbn [fst] in Hc. rewrite (key_eqb_trans k k0 (fst c2) E). exact Hc.
    + cbn [nodupk fst]. split; [|apply IH; exact Ht].
      apply map_set_forall; [exact E | exact H0].
Qed.

Lemma nodupk_mfold cs : forall acc, nodupk acc -> nodupk (mfold cs acc).
Proof.
  induction cs as [|c t IH]; intros acc H; [exact H|]. cbn [mfold fold_left]. apply IH. apply nodupk_map_set. exact H.
Qed.

Lemma mfold_forall (P : gval * gval -> Prop) cs : forall acc, Forall P cs -> Forall P acc -> Forall P (mfold cs acc).
Proof.
  induction cs as [|[k v] t IH]; intros acc Hc Ha; [exact Ha|]. inversion Hc; subst.
  cbn [mfold fold_left fst snd]. apply IH; [assumption|]. apply map_set_forall; assumption.
Qed.

Lemma map_set_new' k v l : Forall (fun kv : gval * gval => key_eqb k (fst kv) = false) l -> map_set k v l = (l ++ [(k, v)])%list.
Proof.
  induction l as [|[k0 v0] t IH]; intro H; [reflexivity|].
  inversion H as [|kv l' Hk Ht]; subst. cbn [fst] in Hk. cbn [map_set]. rewrite Hk, (IH Ht). reflexivity.
Qed.

(* re-building a list whose keys are pairwise different gives the list itself *)
Lemma mfold_new cs : forall acc,
  Forall (fun c => Forall (fun a : gval * gval => key_eqb (fst c) (fst a) = false) acc) cs -> nodupk cs ->
  mfold cs acc = (acc ++ cs)%list.
Proof.
  induction cs as [|[k v] t IH]; intros acc Hn Hd; [rewrite app_nil_r; reflexivity|].
  inversion Hn as [|? ? Hk Ht]; subst. destruct Hd as [Hd0 Hd]. cbn [fst] in Hk, Hd0.
  cbn [mfold fold_left fst snd]. rewrite (map_set_new' k v acc Hk).
  change (mfold t (acc ++ [(k, v)]) = (acc ++ (k, v) :: t)%list).
  rewrite (IH (acc ++ [(k, v)])%list); [rewrite <- app_assoc; reflexivity | | exact Hd].
  rewrite Forall_forall in *. intros c Hc. apply Forall_app. split; [apply Ht; exact Hc|].
  constructor; [apply Hd0; exact Hc | constructor].
Qed.

Lemma mfold_self r : nodupk r -> mfold r [] = r.
Proof.
  intros H. rewrite mfold_new; [reflexivity | | exact H]. apply Forall_forall. intros c _. constructor.
Qed.

Lemma nodupkb_nodupk (cs : list (gval * gval)) : nodupkb (map fst cs) = true -> nodupk cs.
Proof.
  induction cs as [|c t IH]; cbn [map nodupkb nodupk]; [intros _; exact I|].
  intros H. apply andb_prop in H. destruct H as [H1 H2]. split; [|apply IH; exact H2].
  rewrite forallb_forall in H1. apply Forall_forall. intros c2 Hc2.
  specialize (H1 (fst c2) (in_map fst _ _ Hc2)). apply Bool.negb_true_iff in H1. exact H1.
Qed.

(* two keys that every comparison treats alike *)
Definition ksame (a b : gval) : Prop := forall c, key_eqb c a = key_eqb c b /\ key_eqb a c = key_eqb b c.

Lemma ksame_refl a : ksame a a.
Proof. intros c. split; reflexivity. Qed.

Lemma nodupk_rel r ws : Forall2 (fun c c' : gval * gval => ksame (fst c) (fst c')) r ws -> nodupk r -> nodupk ws.
Proof.
  induction 1 as [|c c' t t' Hc Ht IH]; intros Hd; [exact I|].
  destruct Hd as [Hd0 Hd]. split; [|apply IH; exact Hd].
  clear IH Hd. induction Ht as [|c2 c2' u u' Hc2 _ IHu]; [constructor|].
  inversion Hd0 as [|? ? H2 Hu]; subst. constructor; [|apply IHu; exact Hu].
  destruct (Hc (fst c2')) as [E1 _]. destruct (Hc2 (fst c)) as [_ E2]. rewrite <- E1, <- E2. exact H2.
Qed.

(* ---------- the map folds of Ops.v (Unserialize, Serialize, checkAndConvert) ---------- *)
Definition gbody (hk hv : gval -> outcome gval) (s1 : gval * gval -> string) (s2 : gval * gval -> gval -> string)
    (a : list (gval * gval)) (kv : gval * gval) : outcome (list (gval * gval)) :=
  k' <- seg (s1 kv) (hk (fst kv)) ;; v' <- seg (s2 kv k') (hv (snd kv)) ;; Ok (map_set k' v' a).
Definition gstep hk hv s1 s2 (acc : outcome (list (gval * gval))) (kv : gval * gval) : outcome (list (gval * gval)) :=
  a <- acc ;; gbody hk hv s1 s2 a kv.

Lemma gbody_ok hk hv s1 s2 a kv r :
  gbody hk hv s1 s2 a kv = Ok r <-> exists k' v', hk (fst kv) = Ok k' /\ hv (snd kv) = Ok v' /\ r = map_set k' v' a.
Proof.
  unfold gbody. rewrite bind_ok. split.
  - intros (k' & Hk & H). apply bind_ok in H. destruct H as (v' & Hv & H). inversion H; subst.
    apply seg_ok in Hk. apply seg_ok in Hv. eauto.
  - intros (k' & v' & Hk & Hv & ->). exists k'. split; [apply seg_ok; exact Hk|].
    apply bind_ok. exists v'. split; [apply seg_ok; exact Hv | reflexivity].
Qed.

Definition conv_pair (hk hv : gval -> outcome gval) (kv c : gval * gval) : Prop :=
  hk (fst kv) = Ok (fst c) /\ hv (snd kv) = Ok (snd c).

Lemma gfold_ok hk hv s1 s2 kvs : forall acc r,
  fold_left (gstep hk hv s1 s2) kvs (Ok acc) = Ok r <->
  exists cs, Forall2 (conv_pair hk hv) kvs cs /\ r = mfold cs acc.
Proof.
  induction kvs as [|kv t IH]; intros acc r.
  - cbn [fold_left]. split.
    + intros H. inversion H; subst. exists []. split; [constructor | reflexivity].
    + intros (cs & H2 & ->). inversion H2; subst. reflexivity.
  - unfold gstep at 1. rewrite (fold_bind_cons (gbody hk hv s1 s2) kv t acc r). split.
    + intros (a' & Hb & Hf). apply gbody_ok in Hb. destruct Hb as (k' & v' & Hk & Hv & ->).
      apply IH in Hf. destruct Hf as (cs & H2 & ->). exists ((k', v') :: cs). split; [|reflexivity].
      constructor; [split; assumption | exact H2].
    + intros (cs & H2 & ->). inversion H2 as [| ? c ? cs' [Hk Hv] H2']; subst.
      exists (map_set (fst c) (snd c) acc). split.
      * apply gbody_ok. exists (fst c), (snd c). auto.
      * apply IH. exists cs'. split; [exact H2' | reflexivity].
Qed.

Lemma conv_pairs_keys hk hv kvs cs : Forall2 (conv_pair hk hv) kvs cs ->
  flat_map (fun kv : gval * gval => match hk (fst kv) with Ok k' => [k'] | _ => [] end) kvs = map fst cs.
Proof.
  induction 1 as [|kv c t t' [Hk _] _ IH]; [reflexivity|]. cbn [flat_map map]. rewrite Hk, IH. reflexivity.
Qed.

Lemma zlen_forall2 {A B} (R : A -> B -> Prop) l l' : Forall2 R l l' -> zlen l = zlen l'.
Proof. intros H. unfold zlen. rewrite (forall2_length _ _ _ H). reflexivity. Qed.
