(* Proofs/C09AccReader2.v — table => reader for the string kind: whatever value the GENERATED String meta object
   accepts (through the generic Unserialize of Schema/Ops.v), the hand-written reader `mp_string` of
   Schema/Describe.v accepts too - for ARBITRARY values, not only descriptions `describe` produces.  The reader's
   unit table for min / max is the one the TABLE carries (and that one is Generated/Tables.v unit_characters). *)
From Coq Require Import Lia.
From Verif Require Import Base.Prelude Base.Str Base.Float Base.GoVal
  Schema.Regex Schema.Units Schema.Syntax Schema.Ops Schema.SpecObj Schema.Describe Schema.MetaTable
  Generated.Tables
  Proofs.OpsLemmas Proofs.OpsEq Proofs.C03Obj Proofs.C09Fixpoint Proofs.C09AccBase Proofs.C09AccTable.
Open Scope string_scope.

Definition tab_chars_units : units :=
  Eval vm_compute in match meta_ptype "String" "min" with
                     | SInt _ _ (Some u) => u
                     | _ => mkUnits (mkUnit "" "" "" "") []
                     end.
(* the units of a string's length bounds, as the table describes them, are Generated/Tables.v unit_characters *)
Lemma tab_chars_units_eq : tab_chars_units = unit_characters.
Proof. vm_compute. reflexivity. Qed.

Lemma conv_fields_entries allowed t nl kvs es :
  Forall2 kv_entry kvs es -> Forall (fun e => str_in (fst e) allowed = true) es ->
  conv_fields allowed (VMap t nl kvs) = Ok es.
Proof.
  intros H2 Hd. cbn [conv_fields].
  assert (Gen : forall acc,
            fold_left (fun acc kv => a <- acc ;;
                         match fst kv with
                         | VStr TStr k => if str_in k allowed then Ok (a ++ [(k, snd kv)])%list else Err (cerr EKey)
                         | _ => Err (cerr EKey)
                         end) kvs (Ok acc) = Ok (acc ++ es)%list).
  { induction H2 as [|[k v] [k' v'] tl es' [Ek Ev] _ IH]; intros acc.
    - rewrite app_nil_r. reflexivity.
    - cbn [fst snd] in Ek, Ev. subst k v. inversion Hd as [| ? ? Hk Hd']; subst. cbn [fst] in Hk.
      cbn [fold_left bind fst snd]. rewrite Hk. rewrite (IH Hd'). rewrite <- app_assoc. reflexivity. }
  apply (Gen []).
Qed.

Section StringKind.
Variable words : list (string * bool).
Variable pu : units -> string -> option fl.
Variable e : env.
Variable rp : string -> option re.
(* regexp.Compile as the environment records it and the reader's parser agree on what compiles *)
Hypothesis Hrp : forall s, o_re_ok (e_or e) s = true -> exists r, rp s = Some r.

Lemma int_read f mn mx u dd x :
  unser words pu (S f) e (SInt mn mx u) dd = Ok x -> exists z, rd_int mn mx u dd = Ok z.
Proof.
  rewrite (unser_S words pu). cbv beta iota. unfold int_unser, rd_int.
  destruct (int_mapper u dd) as [z|]; [|discriminate]. unfold int_bounds.
  destruct (size_ok mn mx z); [|discriminate]. eauto.
Qed.

Lemma pattern_read f dd x :
  unser words pu (S f) e SPattern dd = Ok x -> exists p, rd_pattern rp dd = Ok p.
Proof.
  rewrite (unser_S words pu). cbv beta iota. unfold pattern_unser, rd_pattern.
  destruct (string_mapper dd) as [s|]; [|discriminate].
  destruct (o_re_ok (e_or e) s) eqn:E; [|discriminate]. destruct (Hrp s E) as [r Hr]. rewrite Hr. eauto.
Qed.

Theorem table_string_implies_reader f d x :
  unser words pu (S (S f)) e (mobj "String") d = Ok x ->
  exists s', mp_string tab_chars_units rp d = Ok s'.
Proof.
  intros H.
  assert (Hs : (match alookup "String" meta_objs with Some (SObject _ _ _) => true | _ => false end) = true)
    by (vm_compute; reflexivity).
  destruct (mobj_obj "String" Hs) as (i & u & E). rewrite E in H. clear E Hs.
  let ps := eval vm_compute in (meta_props "String") in change (meta_props "String") with ps in H.
  match type of H with unser _ _ _ _ (SObject _ _ ?ps) _ = _ => set (props := ps) in * end.
  assert (Hnd : NoDup (map fst props)) by (apply nodup_str_NoDup; vm_compute; reflexivity).
  assert (Hallowed : forall k, amem k props = true -> str_in k ["min"; "max"; "pattern"] = true).
  { intros k. unfold props, amem. cbn [alookup str_in].
    destruct (String.eqb k "max"), (String.eqb k "min"), (String.eqb k "pattern"); cbn; congruence. }
  rewrite unser_object_eq in H. unfold obj_unser in H.
  destruct d as [| | | | | |t nl kvs| | | |]; try (unfold props in H; discriminate H).
  apply bind_ok in H. destruct H as (r0 & Hk & H). cbv zeta in H.
  apply bind_ok in H. destruct H as (r2 & Hu & _).
  apply (kfold_ok props kvs [] r0) in Hk. destruct Hk as (es & HF2 & Hdecl & ->). cbn [app] in Hu.
  destruct (ufold_sound (unser words pu (S f) e) props Hnd _ r2 Hu) as (_ & Hl).
  assert (Hfield : forall k p, alookup k props = Some p -> forall dd, alookup k es = Some dd ->
            exists x0, unser words pu (S f) e (p_type p) dd = Ok x0).
  { intros k p Hp dd Hdd. specialize (Hl k). rewrite r1_lookup in Hl by exact Hnd. rewrite Hdd, Hp in Hl.
    destruct Hl as (x0 & (_ & Hx) & _). eauto. }
  unfold mp_string, tab_chars_units.
  rewrite (conv_fields_entries ["min"; "max"; "pattern"] t nl kvs es HF2).
  2:{ eapply Forall_impl; [|exact Hdecl]. intros a Ha. apply Hallowed. exact Ha. }
  cbn [bind]. unfold opt_field.
  destruct (alookup "min" es) as [dmin|] eqn:Emin.
  - destruct (Hfield "min" _ eq_refl dmin Emin) as (x0 & Hx). cbn [p_type] in Hx.
    destruct (int_read _ _ _ _ _ _ Hx) as (z & Hz). rewrite Hz. cbn [bind].
    destruct (alookup "max" es) as [dmax|] eqn:Emax.
    + destruct (Hfield "max" _ eq_refl dmax Emax) as (x1 & Hx1). cbn [p_type] in Hx1.
      destruct (int_read _ _ _ _ _ _ Hx1) as (z1 & Hz1). rewrite Hz1. cbn [bind].
      destruct (alookup "pattern" es) as [dp|] eqn:Ep.
      * destruct (Hfield "pattern" _ eq_refl dp Ep) as (x2 & Hx2). cbn [p_type] in Hx2.
        destruct (pattern_read _ _ _ Hx2) as (pp & Hpp). rewrite Hpp. cbn [bind]. eexists; reflexivity.
      * cbn [bind]. eexists; reflexivity.
    + cbn [bind]. destruct (alookup "pattern" es) as [dp|] eqn:Ep.
      * destruct (Hfield "pattern" _ eq_refl dp Ep) as (x2 & Hx2). cbn [p_type] in Hx2.
        destruct (pattern_read _ _ _ Hx2) as (pp & Hpp). rewrite Hpp. cbn [bind]. eexists; reflexivity.
      * cbn [bind]. eexists; reflexivity.
  - cbn [bind]. destruct (alookup "max" es) as [dmax|] eqn:Emax.
    + destruct (Hfield "max" _ eq_refl dmax Emax) as (x1 & Hx1). cbn [p_type] in Hx1.
      destruct (int_read _ _ _ _ _ _ Hx1) as (z1 & Hz1). rewrite Hz1. cbn [bind].
      destruct (alookup "pattern" es) as [dp|] eqn:Ep.
      * destruct (Hfield "pattern" _ eq_refl dp Ep) as (x2 & Hx2). cbn [p_type] in Hx2.
        destruct (pattern_read _ _ _ Hx2) as (pp & Hpp). rewrite Hpp. cbn [bind]. eexists; reflexivity.
      * cbn [bind]. eexists; reflexivity.
    + cbn [bind]. destruct (alookup "pattern" es) as [dp|] eqn:Ep.
      * destruct (Hfield "pattern" _ eq_refl dp Ep) as (x2 & Hx2). cbn [p_type] in Hx2.
        destruct (pattern_read _ _ _ Hx2) as (pp & Hpp). rewrite Hpp. cbn [bind]. eexists; reflexivity.
      * cbn [bind]. eexists; reflexivity.
Qed.
End StringKind.
