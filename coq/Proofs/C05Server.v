(* Proofs/C05Server.v — the SERVER side of the composition of C05's protocol layer (ATP/System.v), over the server
   model ATP/Server.v: when everything that arrives on the server's stdin is a message the client model may write
   (`c05_cwm calls`: work-starts of the session's calls with step "s" and the call's own run id and input, signals,
   client-done) and the transport is healthy (output open, no cancellation), then

     OrigInv   every step goroutine executes one of the session's calls under that call's run id; a goroutine about to
               write work-done(o) runs a call whose behaviour is BSuccess o; every error report in flight is either
               non-fatal (the answer to a signal) or the step-fatal report of one of the calls whose behaviour is not a
               success; the server never takes its fatal exits, never closes stdin from the handler side, the output
               stays open;
     step_out  what one step appends to the output: nothing, or the work-done of the goroutine that moved, or the
               error report the closure handler holds. *)
From Coq Require Import Lia.
From Verif Require Import Base.Prelude Base.Str ATP.Msg ATP.Server Proofs.ServerInv Proofs.ServerRoute Proofs.C05Vocab.
Local Open Scope string_scope.
Local Open Scope list_scope.
Local Open Scope nat_scope.

Lemma Forall_nth_error {A} (P : A -> Prop) : forall l i x, Forall P l -> nth_error l i = Some x -> P x.
Proof. intros l i x F H. rewrite Forall_forall in F. apply F. eapply nth_error_In; eauto. Qed.

Lemma Forall_upd_nth {A} (P : A -> Prop) : forall l i x, Forall P l -> P x -> Forall P (upd_nth i x l).
Proof.
  induction l as [|a l IH]; intros [|i] x F Hx; simpl; auto; inversion F; subst; constructor; auto.
Qed.

Section C05Server.
Variable c : cfg.
Variable calls : list (runid * Z).
Hypothesis calls_named : forall r t, In (r, t) calls -> r <> "".

Definition okin (ev : event Z) : Prop := exists m, ev = EvMsg m /\ c05_cwm calls m.
Definition nosucc (t : Z) : Prop := forall o, step_outcome c "s" t <> BSuccess o.

Definition oke (e : srverr) : Prop :=
  (se_sf e = false /\ se_vf e = false) \/ (exists r t, In (r, t) calls /\ e = mkSE r true false /\ nosucc t).

Definition okw (w : worker) : Prop :=
  match w_kind w with
  | KStep st t =>
      st = "s" /\ In (w_run w, t) calls /\
      match w_pc w with
      | WSendDone o => step_outcome c "s" t = BSuccess o
      | WReport e => e = mkSE (w_run w) true false /\ nosucc t
      | _ => True
      end
  | KSignal _ _ _ =>
      match w_pc w with
      | WSendDone _ => False
      | WReport e => se_sf e = false /\ se_vf e = false
      | _ => True
      end
  end.

Definition okrl (s : state) : Prop :=
  match rl s with
  | RLoop => stdin_closed s = false
  | RReport e k => oke e /\ k = KLoop /\ stdin_closed s = false
  | RDefer | RGone => stdin_closed s = true
  | _ => False
  end.

Record OrigInv (s : state) : Prop := mkOrig {
  o_inq : Forall okin (inq s);
  o_workers : Forall okw (workers s);
  o_rl : okrl s;
  o_wd : Forall oke (wd s);
  o_hp : match hp s with HForward e => oke e | HClose => False | _ => True end;
  o_open : out_closed s = false /\ send_failed s = false }.

(* the labels the composition uses *)
Definition sys_label (l : label) : Prop :=
  match l with LArrive ev => okin ev | LRelease _ | LRead | LHandler _ | LWorker _ => True | _ => False end.

Lemma oke_vf : forall e, oke e -> se_vf e = false.
Proof. intros e [[_ H]|(r & t & _ & -> & _)]; auto. Qed.

Ltac osolve :=
  repeat match goal with
  | |- Forall _ (_ ++ [_]) => apply Forall_app; split; [auto|constructor; [|constructor]]
  | |- Forall okw (upd_nth _ _ _) => apply Forall_upd_nth; [auto|]
  end.
Ltac ofin H := inversion H; subst; clear H; constructor; flat; unfold okrl; flat; auto; osolve; auto.

Lemma orig_step s l s' : OrigInv s -> sys_label l -> step c s l = Some s' -> OrigInv s'.
Proof.
  intros I Hl H. des s. destruct I as [I1 I2 I3 I4 I5 [I6 I7]]. unfold okrl in *. flat. subst.
  destruct l as [ev|t| | | |rv|i]; try (destruct Hl; fail); unf_step; flat; destruct crashed0; try discriminate H.
  - ofin H.
  - ofin H.
  - (* read loop *)
    destruct rl0 as [| | |e k| |]; try contradiction.
    + rewrite I3 in H. destruct inq0 as [|ev q]; [discriminate|]. inversion I1 as [|? ? (m & -> & Hm) Hq]; subst.
      destruct Hm as [(r & t & Hin & ->)|[(r & d & ->)| ->]]; flat.
      * pose proof (calls_named _ _ Hin) as Hr. apply String.eqb_neq in Hr. rewrite Hr in H.
        change (String.eqb "s" "") with false in H. cbn [orb] in H.
        ofin H; try (unfold okw; flat; auto).
      * destruct (String.eqb r ""); [ofin H; split; auto; left; auto|].
        destruct (alookup r running0); ofin H; try (unfold okw; flat; auto; fail); split; auto; left; auto.
      * ofin H.
    + destruct I3 as (He & -> & Hs). destruct wd_closed0; [ofin H|].
      destruct (3 <=? List.length wd0); [discriminate|]. ofin H.
    + destruct nworkers0; [|discriminate]. ofin H.
    + discriminate.
  - (* closure handler *)
    destruct hp0 as [|e| | |]; try contradiction.
    + destruct rv.
      * destruct wd0 as [|e q]; [destruct wd_closed0; [ofin H|discriminate]|].
        inversion I4; subst. ofin H.
      * destruct (ctx_cancelled0 && negb ctx_seen0); [ofin H|discriminate].
    + destruct rv; [|discriminate]. cbv zeta in H. cbn in H. rewrite (oke_vf _ I5) in H. cbn in H. ofin H.
    + destruct rv; [|discriminate]. destruct rl0; try discriminate. destruct nworkers0; [|discriminate]. ofin H.
    + discriminate.
  - (* step / signal goroutine *)
    worker_cases H. pose proof (Forall_nth_error _ _ _ _ I2 Hn) as Hw. unfold okw in Hw; flat.
    destruct wp; flat.
    + destruct wk as [st t|st sg ok]; flat.
      * destruct Hw as (-> & Hin & _).
        destruct (handler_reached c "s" t && c_slow c t && negb (zmem t released0)); [discriminate|].
        destruct (step_outcome c "s" t) eqn:Eo; ofin H; unfold okw; flat;
          (split; [reflexivity|split; [exact Hin|]]); auto; split; auto; unfold nosucc; intros; congruence.
      * destruct (c_step_known c st && c_sig_known c sg && ok); ofin H; unfold okw; flat; auto.
    + cbn in H. ofin H. unfold okw; flat. destruct wk; flat; [tauto|contradiction].
    + destruct wd_closed0; [ofin H|]. destruct (3 <=? List.length wd0); [discriminate|]. ofin H.
      * unfold okw; flat. destruct wk; flat; tauto.
      * destruct wk as [st t|st sg ok]; flat.
        -- destruct Hw as (_ & Hin & -> & Hns). right. eauto.
        -- left. exact Hw.
    + ofin H; try (unfold okw; flat; destruct wk; flat; tauto).
    + discriminate.
Qed.

(* what one step appends to the output *)
Lemma step_out s l s' : step c s l = Some s' ->
  out s' = out s \/
  (rl s = RHello /\ out s' = out s ++ [OHello]) \/
  (exists i w o, l = LWorker i /\ nth_error (workers s) i = Some w /\ w_pc w = WSendDone o /\
                 out s' = out s ++ [ODone (w_run w) o]) \/
  (exists e, hp s = HForward e /\ out s' = out s ++ [OErr e]).
Proof.
  intros H. des s. flat.
  destruct l as [ev|t| | | |rv|i]; unf_step; flat; destruct crashed0; try discriminate H.
  - inversion H; subst; flat; auto.
  - inversion H; subst; flat; auto.
  - inversion H; subst; flat; auto.
  - inversion H; subst; flat; auto.
  - brk; auto; right; left; auto.
  - brk; auto; right; right; right; eauto.
  - worker_cases H. brk; auto; right; right; left; exists i; eexists; eexists; repeat split; eauto; reflexivity.
Qed.

End C05Server.
