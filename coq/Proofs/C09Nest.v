(* Proofs/C09Nest.v — the nesting of a description is bounded by a structural function of the schema
   (5 per scope, 5 per one-of over objects, 3 per inline object, 1 per list / map, at most 4 at a leaf):
   the budget the generator of family c09hello fills. *)
From Coq Require Import Lia List.
From Verif Require Import Base.Prelude Base.Str Base.Float Base.GoVal
  Schema.Regex Schema.Units Schema.Syntax Schema.Ops Schema.Describe Schema.DescribeNest Proofs.DescribeBase.
Import ListNotations.
Open Scope string_scope.

Fixpoint tnest (s : schema) : nat :=
  match s with
  | SInt _ _ u | SFloat _ _ u => match u with Some _ => 4 | None => 1 end
  | SEnumInt _ u => match u with Some _ => 4 | None => 3 end
  | SEnumStr _ _ => 3
  | SString _ _ _ | SBool | SPattern | SAny => 1
  | SRef _ _ _ => 2
  | SList it _ _ => S (tnest it)
  | SMap k v _ _ => S (Nat.max (tnest k) (tnest v))
  | SObject _ _ props => 3 + fold_right (fun np acc => Nat.max (tnest (p_type (snd np))) acc) 1 props
  | SOneOf types _ _ _ => 2 + fold_right (fun km acc => Nat.max (tnest (snd km)) acc) 0 types
  | SScope objs _ => 2 + fold_right (fun io acc => Nat.max (tnest (snd io)) acc) 0 objs
  end%nat.

Lemma gnest_dobj fs n : Forall (fun kv => gnest (snd kv) <= n)%nat fs -> (gnest (dobj fs) <= S n)%nat.
Proof.
  intros H. unfold dobj. cbn [gnest]. apply le_n_S.
  induction H as [|kv t Hk _ IH]; cbn; [lia|]. lia.
Qed.

Lemma gnest_dmap kvs n :
  Forall (fun kv => gnest (fst kv) <= n /\ gnest (snd kv) <= n)%nat kvs -> (gnest (dmap kvs) <= S n)%nat.
Proof.
  intros H. unfold dmap. cbn [gnest]. apply le_n_S.
  induction H as [|kv t Hk _ IH]; cbn; [lia|]. lia.
Qed.

Lemma gnest_dstrs l : (gnest (dstrs l) <= 1)%nat.
Proof.
  unfold dstrs, dlist. cbn [gnest]. apply le_n_S. induction l; cbn; [lia|]. lia.
Qed.

Lemma Forall_ofield {A} (Q : string * gval -> Prop) k (f : A -> gval) o :
  (forall a, Q (k, f a)) -> Forall Q (ofield k f o).
Proof. destruct o; cbn; auto. Qed.

Lemma gnest_display d : (gnest (d_display d) <= 1)%nat.
Proof.
  unfold d_display. apply gnest_dobj. repeat (apply Forall_app; split); apply Forall_ofield; intros; cbn; lia.
Qed.

Lemma gnest_unit u : (gnest (d_unit u) <= 1)%nat.
Proof. unfold d_unit. apply gnest_dobj. repeat constructor. Qed.

Lemma gnest_units u : (gnest (d_units u) <= 3)%nat.
Proof.
  unfold d_units. apply gnest_dobj. constructor; [cbn [snd]; pose proof (gnest_unit (u_base u)); lia|].
  constructor; [|constructor]. cbn [snd].
  apply gnest_dmap. apply Forall_forall. intros kv Hin. apply in_map_iff in Hin. destruct Hin as [mu [<- _]].
  cbn [fst snd]. pose proof (gnest_unit (snd mu)). split; [cbn; lia|lia].
Qed.

Lemma gnest_odisp o : (gnest (d_odisp o) <= 1)%nat.
Proof. destruct o; cbn [d_odisp]; [apply gnest_display|cbn; lia]. Qed.

Lemma fold_max_ge {A} (f : A -> nat) b l x : In x l -> (f x <= fold_right (fun y acc => Nat.max (f y) acc) b l)%nat.
Proof. induction l as [|y t IH]; cbn; [tauto|]. intros [->|H]; [lia|]. specialize (IH H). lia. Qed.

Lemma fold_base_le {A} (f : A -> nat) b l : (b <= fold_right (fun y acc => Nat.max (f y) acc) b l)%nat.
Proof. induction l; cbn; lia. Qed.

Lemma gnest_dmap_map {A} (F : A -> gval * gval) l n :
  (forall x, In x l -> gnest (fst (F x)) <= n /\ gnest (snd (F x)) <= n)%nat -> (gnest (dmap (map F l)) <= S n)%nat.
Proof.
  intros H. apply gnest_dmap. apply Forall_forall. intros kv Hin. apply in_map_iff in Hin.
  destruct Hin as [x [<- Hin]]. auto.
Qed.

Definition fields_le (s : schema) : Prop := Forall (fun kv => S (gnest (snd kv)) <= tnest s)%nat (d_fields s).

Lemma tnest_pos s : (1 <= tnest s)%nat.
Proof.
  destruct s; cbn; repeat match goal with |- context [match ?o with _ => _ end] => destruct o end; lia.
Qed.

Lemma d_type_le s : fields_le s -> (gnest (dobj (("type_id", vstr (tid_of s)) :: d_fields s)) <= tnest s)%nat.
Proof.
  intros H. pose proof (tnest_pos s). destruct (tnest s) as [|n] eqn:E; [lia|].
  apply gnest_dobj. constructor; [cbn; lia|].
  eapply Forall_impl; [|exact H]. cbn beta. intros; lia.
Qed.

Lemma describe_fields_le s : fields_le s -> (gnest (dobj (d_fields s)) <= tnest s)%nat.
Proof.
  intros H. pose proof (tnest_pos s). destruct (tnest s) as [|n] eqn:E; [lia|].
  apply gnest_dobj. eapply Forall_impl; [|exact H]. cbn beta. intros; lia.
Qed.

Ltac fcons := repeat (apply Forall_cons || apply Forall_nil).
Ltac fld := repeat (apply Forall_app; split); try (apply Forall_ofield; intros); fcons; cbn [snd gnest vi64 vf64 vstr vbool]; try lia.

Lemma fields_le_all s : fields_le s.
Proof.
  induction s using schema_ind'; unfold fields_le; cbn [d_fields tnest].
  - destruct u as [u|]; cbn [ofield]; fld; try (pose proof (gnest_units u); lia).
  - destruct u as [u|]; cbn [ofield]; fld; try (pose proof (gnest_units u); lia).
  - fld.
  - apply Forall_nil.
  - apply Forall_nil.
  - apply Forall_nil.
  - assert (gnest (dmap (map (fun zd => (vi64 (fst zd), d_odisp (snd zd))) vals)) <= 2)%nat as Hv; [|destruct u as [u|]; cbn [ofield]; fld; try (pose proof (gnest_units u); lia)].
    apply gnest_dmap. apply Forall_forall. intros kv Hin. apply in_map_iff in Hin. destruct Hin as [zd [<- _]].
    cbn [fst snd]. pose proof (gnest_odisp (snd zd)). split; [cbn; lia|lia].
  - fld.
    assert (gnest (dmap (map (fun sd => (vstr (fst sd), d_odisp (snd sd))) vals)) <= 2)%nat; [|lia].
    apply gnest_dmap. apply Forall_forall. intros kv Hin. apply in_map_iff in Hin. destruct Hin as [zd [<- _]].
    cbn [fst snd]. pose proof (gnest_odisp (snd zd)). split; [cbn; lia|lia].
  - fld. pose proof (d_type_le s IHs). lia.
  - fld; [pose proof (d_type_le s1 IHs1); lia | pose proof (d_type_le s2 IHs2); lia].
  - apply Forall_cons; [cbn; lia|]. apply Forall_cons; [cbn; lia|]. apply Forall_cons; [|apply Forall_nil].
    cbn [snd]. apply le_n_S. apply gnest_dmap_map. intros np Hin.
    rewrite Forall_forall in H. pose proof (H np Hin) as Hnp.
    pose proof (fold_max_ge (fun np => tnest (p_type (snd np))) 1%nat props np Hin) as Hge. cbn beta in Hge.
    pose proof (fold_base_le (fun np : string * property_ schema => tnest (p_type (snd np))) 1%nat props) as HM. cbn beta in HM.
    destruct np as [name [t d req rif rifn confl dflt ex em dis reason]]. cbn [fst snd p_type] in *.
    split; [cbn; lia|].
    apply gnest_dobj.
    pose proof (d_type_le t Hnp).
    repeat (apply Forall_app; split); try (apply Forall_ofield; intros); fcons; cbn [snd];
      try (pose proof (gnest_dstrs confl); pose proof (gnest_dstrs ex); pose proof (gnest_dstrs rif); pose proof (gnest_dstrs rifn); lia);
      try (cbn; lia).
    all: try (match goal with |- context [d_display ?x] => pose proof (gnest_display x) end; lia).
  - apply Forall_cons; [cbn; lia|]. apply Forall_cons; [cbn; lia|]. apply Forall_cons; [|apply Forall_nil].
    cbn [snd]. apply le_n_S. apply gnest_dmap_map. intros km Hin.
    rewrite Forall_forall in H. pose proof (H km Hin) as Hkm.
    pose proof (fold_max_ge (fun km : okey * schema => tnest (snd km)) 0%nat types km Hin) as Hge. cbn beta in Hge.
    destruct km as [k m]. cbn [fst snd] in *. pose proof (d_type_le m Hkm).
    split; [destruct k; cbn; lia|lia].
  - fld. pose proof (gnest_display a). lia.
  - apply Forall_cons; [|apply Forall_cons; [cbn; lia|apply Forall_nil]].
    cbn [snd]. apply le_n_S. apply gnest_dmap_map. intros io Hin.
    rewrite Forall_forall in H. pose proof (H io Hin) as Hio.
    pose proof (fold_max_ge (fun io : string * schema => tnest (snd io)) 0%nat os io Hin) as Hge. cbn beta in Hge.
    destruct io as [i o]. cbn [fst snd] in *. pose proof (describe_fields_le o Hio).
    split; [cbn; lia|lia].
Qed.

Theorem describe_nest_bound s : (gnest (describe s) <= tnest s)%nat.
Proof. unfold describe. apply describe_fields_le, fields_le_all. Qed.

(* ---------- whole plugin schemas: the hello message ---------- *)
Definition sigs_nest (l : list (string * dsignal)) : nat :=
  fold_right (fun kg acc => Nat.max (tnest (sg_data (snd kg))) acc) 0%nat l.
Definition outs_nest (l : list (string * doutput)) : nat :=
  fold_right (fun ko acc => Nat.max (tnest (so_schema (snd ko))) acc) 0%nat l.
(* an input starts at level 5 of the hello message (hello > schema > steps > step > input); the schema of an
   output and the data schema of a signal two maps deeper (step > outputs > output > schema) *)
Definition step_nest (st : dstep) : nat :=
  Nat.max (tnest (st_input st))
          (2 + Nat.max (outs_nest (st_outputs st)) (Nat.max (sigs_nest (st_handlers st)) (sigs_nest (st_emitters st)))).
Definition plugin_nest (p : dplugin) : nat :=
  fold_right (fun ks acc => Nat.max (step_nest (snd ks)) acc) 0%nat p.

Lemma gnest_signal g : (gnest (d_signal g) <= 1 + tnest (sg_data g))%nat.
Proof.
  unfold d_signal. apply gnest_dobj. pose proof (describe_nest_bound (sg_data g)). pose proof (tnest_pos (sg_data g)).
  repeat (apply Forall_app; split); try (apply Forall_ofield; intros); fcons; cbn [snd]; try (cbn; lia); try lia.
  all: match goal with |- context [d_display ?x] => pose proof (gnest_display x) end; lia.
Qed.

Lemma gnest_signals l : (gnest (d_signals l) <= 2 + sigs_nest l)%nat.
Proof.
  unfold d_signals. apply gnest_dmap_map. intros kg Hin. cbn [fst snd].
  pose proof (gnest_signal (snd kg)).
  pose proof (fold_max_ge (fun kg : string * dsignal => tnest (sg_data (snd kg))) 0%nat l kg Hin) as Hge. cbn beta in Hge.
  unfold sigs_nest. split; [cbn; lia|lia].
Qed.

Lemma gnest_output o : (gnest (d_output o) <= 1 + tnest (so_schema o))%nat.
Proof.
  unfold d_output. apply gnest_dobj. pose proof (describe_nest_bound (so_schema o)). pose proof (tnest_pos (so_schema o)).
  repeat (apply Forall_app; split); try (apply Forall_ofield; intros); fcons; cbn [snd]; try (cbn; lia); try lia.
  all: match goal with |- context [d_display ?x] => pose proof (gnest_display x) end; lia.
Qed.

Lemma gnest_step st : (gnest (d_step st) <= 1 + step_nest st)%nat.
Proof.
  unfold d_step. apply gnest_dobj.
  pose proof (describe_nest_bound (st_input st)). pose proof (tnest_pos (st_input st)).
  pose proof (gnest_signals (st_handlers st)). pose proof (gnest_signals (st_emitters st)).
  assert (gnest (dmap (map (fun ko : string * doutput => (vstr (fst ko), d_output (snd ko))) (st_outputs st)))
          <= 2 + outs_nest (st_outputs st))%nat as Ho.
  { apply gnest_dmap_map. intros ko Hin. cbn [fst snd]. pose proof (gnest_output (snd ko)).
    pose proof (fold_max_ge (fun ko : string * doutput => tnest (so_schema (snd ko))) 0%nat (st_outputs st) ko Hin) as Hge.
    cbn beta in Hge. unfold outs_nest. split; [cbn; lia|lia]. }
  unfold step_nest.
  repeat (apply Forall_app; split); try (apply Forall_ofield; intros); fcons; cbn [snd]; try (cbn; lia); try lia.
  all: match goal with |- context [d_display ?x] => pose proof (gnest_display x) end; lia.
Qed.

Theorem hello_nest_bound p : (hello_nest (describe_plugin p) <= 4 + plugin_nest p)%nat.
Proof.
  unfold hello_nest, describe_plugin. apply le_n_S. apply gnest_dobj. apply Forall_cons; [|apply Forall_nil]. cbn [snd].
  apply gnest_dmap_map. intros ks Hin. cbn [fst snd]. pose proof (gnest_step (snd ks)).
  pose proof (fold_max_ge (fun ks : string * dstep => step_nest (snd ks)) 0%nat p ks Hin) as Hge. cbn beta in Hge.
  unfold plugin_nest. split; [cbn; lia|lia].
Qed.

Theorem hello_within_transport p : (plugin_nest p <= 28)%nat -> (hello_nest (describe_plugin p) <= cbor_max_nested)%nat.
Proof. intros H. pose proof (hello_nest_bound p). unfold cbor_max_nested. lia. Qed.

Definition nest_demo : dplugin :=
  [("s", mkStep "s"
      (SScope [("A", SObject "A" false
         [("deep", mkProp (SScope [("B", SObject "B" false
              [("n", mkProp (SList (SInt (Some 0%Z) None None) None None) None true [] [] [] None [] false false None)])] "B")
            None true [] [] [] None [] false false None)])] "A")
      [("success", mkOutput (SScope [("R", SObject "R" false [])] "R") None false)] [] [] None)].
Example nest_demo_exact : hello_nest (describe_plugin nest_demo) = 16%nat /\ (4 + plugin_nest nest_demo = 16)%nat.
Proof. vm_compute. split; reflexivity. Qed.
