(* Proofs/C05TransparentEx.v — non-vacuity of C05_transparent_end_to_end: a plugin whose step "s" takes a list of
   integers 0..100 and echoes it; three OVERLAPPING calls with inputs as a YAML / JSON front end produces them (small
   ints, a float32, a numeric string, a bool - all of which the CBOR round trip changes), the third one out of bounds
   (rejected by the input schema); Close is called while they are in flight; the schedule of Proofs/C05CloseEx.v. *)
From Coq Require Import Lia.
From Verif Require Import Base.Prelude Base.Str Base.Float Base.GoVal
  Schema.Regex Schema.Units Schema.FloatUnits Schema.Syntax Schema.Ops Schema.Cbor Generated.Tables
  ATP.Msg ATP.System Call.Step ATP.SystemV Proofs.CborNorm.
From Verif Require Proofs.ATPClientInv.
From Verif Require Import Proofs.C05Examples Proofs.C05CloseEx.
Local Open Scope string_scope.
Local Open Scope list_scope.

Definition exv_in : schema := SList (SInt (Some 0%Z) (Some 100%Z) None) None None.
Definition exv_out : schema := SList (SInt None None None) None None.
Definition exv_e0 : env := mkEnv [] [] (mkOracles (fun _ => None) (fun _ => true)).

Definition exv_D : vcfg :=
  mkVCfg bool_words parse_units_float exv_e0 9
         [("s", mkStepD exv_in [("success", exv_out)] [] false)]
         (fun _ v => ("success", v))
         (fun t => Z.eqb t 0) (fun sg => String.eqb sg "sg") 3 3.

Definition exv_a : gval :=
  VSlice t_any_slice false
    [VInt (TInt I8) 3; VInt (TInt U16) 40; VFloat TF32 (fl_of_Z b32 7); VStr TStr "12"; VBool TBool true].
Definition exv_b : gval := VSlice t_any_slice false [VInt (TInt I0) 5].
Definition exv_c : gval := VSlice t_any_slice false [VInt (TInt I8) 3; VInt (TInt I16) (-1)].

Definition exv_calls : list (C.callspec gval) :=
  [C.mkCall "a" None None false exv_a; C.mkCall "b" None None false exv_b; C.mkCall "c" None None false exv_c].

Definition exv_sched : list slabel :=
  map (fun y => match y with YRelease _ => YRelease 0%Z | _ => y end) exc_sched.

Definition exv_final : option sstate :=
  sys_run (v_scfg exv_D exv_calls) (sys_init (tok_calls exv_calls) true) exv_sched.

(* what the caller of Execute "a" gets: the echoed list, every element uint64 in a []any after the way back *)
Definition exv_ra : C.result gval :=
  C.ROk "success" (VSlice (TSlice TAny) false
                     [VInt (TInt U64) 3; VInt (TInt U64) 40; VInt (TInt U64) 7; VInt (TInt U64) 12; VInt (TInt U64) 1]).
Definition exv_rb : C.result gval := C.ROk "success" (VSlice (TSlice TAny) false [VInt (TInt U64) 5]).
(* what the handler of "a" is invoked on, in-process and behind the wire alike *)
Definition exv_seen_a : gval :=
  VSlice (TSlice (TInt I64)) false [VInt (TInt I64) 3; VInt (TInt I64) 40; VInt (TInt I64) 7; VInt (TInt I64) 12; VInt (TInt I64) 1].

Lemma exv_run_ok :
  match exv_final with
  | Some s => sys_quietb (v_scfg exv_D exv_calls) s = true /\
              vsys_result exv_D exv_calls s 0 = Some exv_ra /\ v_spec exv_D exv_a = exv_ra /\
              vsys_result exv_D exv_calls s 1 = Some exv_rb /\ v_spec exv_D exv_b = exv_rb /\
              vsys_result exv_D exv_calls s 2 = Some (C.RErr C.ErrStep) /\ v_spec exv_D exv_c = C.RErr C.ErrStep /\
              C.closer (cl s) = C.KDone C.CloseOk
  | None => False
  end.
Proof. vm_compute. repeat split; reflexivity. Qed.

(* the wire really changes the input of "a", yet the handler is invoked on the same value; the rejected input never
   reaches the handler *)
Lemma exv_wire_changes :
  cbor_norm 3 exv_a <> exv_a /\
  v_seen exv_D exv_a = [exv_seen_a] /\ v_seen exv_D (cbor_norm 3 exv_a) = [exv_seen_a] /\
  v_seen exv_D exv_c = [] /\ v_seen exv_D (cbor_norm 3 exv_c) = [].
Proof. split; [discriminate|]. vm_compute. repeat split; reflexivity. Qed.

Lemma exv_transparent :
  exists s, exv_final = Some s /\ sys_final (v_scfg exv_D exv_calls) s /\
            vsys_result exv_D exv_calls s 0 = Some exv_ra /\ v_spec exv_D exv_a = exv_ra /\
            vsys_result exv_D exv_calls s 1 = Some exv_rb /\ v_spec exv_D exv_b = exv_rb /\
            vsys_result exv_D exv_calls s 2 = Some (C.RErr C.ErrStep) /\ v_spec exv_D exv_c = C.RErr C.ErrStep /\
            C.closer (cl s) = C.KDone C.CloseOk.
Proof.
  pose proof exv_run_ok as H. destruct exv_final as [s|] eqn:E; [|contradiction].
  destruct H as (Q & R). exists s. split; [reflexivity|split; [apply sys_quietb_final; exact Q|exact R]].
Qed.

Lemma exv_hyps :
  (forall x, In x exv_calls -> C.cs_run x <> "") /\
  Verif.Proofs.ATPClientInv.wf_session (C.mkSession exv_calls true [] None None) /\
  (forall x, In x exv_calls -> decodable (C.cs_input x)).
Proof.
  split; [|split].
  - intros x [<-|[<-|[<-|[]]]]; discriminate.
  - split; [|reflexivity]. cbn. repeat constructor; cbn; intuition discriminate.
  - intros x [<-|[<-|[<-|[]]]]; cbn; repeat constructor.
Qed.
