(* Proofs/C01Wire.v — C01_serialize_emits_wire: whatever Serialize returns (any schema, any input value, any fuel)
   is in wire form: a nil-free tree of int64 / float64 / string / bool / []any / map[any]any / map[string]any. *)
From Coq Require Import Lia.
From Verif Require Import Base.Prelude Base.Str Base.Float Base.GoVal
  Schema.Regex Schema.Units Schema.Syntax Schema.Ops Schema.Cbor Schema.Wf Schema.SpecRT Schema.C01Spec
  Proofs.OpsLemmas Proofs.C01Round Proofs.CborNorm Proofs.C04Inv Proofs.C01Base Proofs.OpsEq Proofs.C01Any Proofs.C01Facts.
Open Scope string_scope.
Open Scope Z_scope.

Definition pwire (kv : gval * gval) : Prop := wire (fst kv) = true /\ wire (snd kv) = true.

Lemma wire_map_intro t kvs : gtype_eqb t t_any_map || gtype_eqb t t_str_map = true -> Forall pwire kvs ->
  wire (VMap t false kvs) = true.
Proof.
  intros Ht H. cbn [wire]. rewrite Ht. cbn [andb]. apply forallb_forall. rewrite Forall_forall in H.
  intros [k x] Hin. destruct (H _ Hin) as [A B]. cbn [fst snd] in *. rewrite A, B. reflexivity.
Qed.

Lemma wire_map_elim t b kvs : wire (VMap t b kvs) = true -> Forall pwire kvs.
Proof.
  cbn [wire]. destruct b; [discriminate|]. intros H. apply andb_prop in H. destruct H as [_ H].
  rewrite forallb_forall in H. apply Forall_forall. intros [k x] Hin. specialize (H _ Hin). cbn beta iota in H.
  apply andb_prop in H. exact H.
Qed.

Lemma wire_slice_intro ys : Forall (fun y => wire y = true) ys -> wire (VSlice t_any_slice false ys) = true.
Proof.
  intros H. cbn [wire]. change (gtype_eqb t_any_slice t_any_slice) with true. cbn [andb].
  apply forallb_forall. rewrite Forall_forall in H. exact H.
Qed.

Lemma any_conv_wire : forall f v n, any_conv f v = Ok n -> wire n = true.
Proof.
  induction f as [|f IH]; intros v n H; [discriminate H|].
  rewrite any_conv_S in H.
  destruct (kind_of v) as [| | i | | | | | | | | |] eqn:Ek; try discriminate H.
  - unfold bool_ser in H. destruct (conv_bool v); inversion H. reflexivity.
  - destruct i; try (destruct (int_mapper None v); inversion H; reflexivity).
    destruct v; try discriminate H. inversion H. reflexivity.
  - destruct (float_mapper (fun _ _ => None) None v); inversion H. reflexivity.
  - destruct (conv_float64 v); inversion H. reflexivity.
  - destruct v; try discriminate H. inversion H. reflexivity.
  - destruct v as [| | | | |t0 nl l| | | | |]; try discriminate H.
    apply bind_ok in H. destruct H as (ys & Hys & H). inversion H; subst n. clear H.
    apply mapMi_seg_ok in Hys. apply wire_slice_intro.
    clear Ek. induction Hys as [|x y l' ys' Hxy _ IHl]; constructor; [apply (IH x y Hxy) | exact IHl].
  - destruct v as [| | | | | |t0 nl kvs| | | |]; try discriminate H.
    apply bind_ok in H. destruct H as (r & Hr & H). inversion H; subst n. clear H.
    apply gfold_ok in Hr. destruct Hr as (cs & Hcs & ->).
    apply wire_map_intro; [reflexivity|]. apply mfold_forall; [|constructor].
    clear Ek. induction Hcs as [|kv c l' cs' [Hk Hv] _ IHl]; constructor; [|exact IHl].
    split; [apply (IH _ _ Hk) | apply (IH _ _ Hv)].
Qed.

Section Wire.
Variable words : list (string * bool).
Variable pu : units -> string -> option fl.
Notation serialize := (serialize words pu).

Theorem serialize_emits_wire : forall f e s v w, serialize f e s v = Ok w -> wire w = true.
Proof.
  induction f as [|f IH]; intros e s v w H; [discriminate H|].
  rewrite (serialize_S words pu) in H.
  destruct s as [mn mx u|mn mx u|mn mx pat| | | |vals u|named vals|it mn mx|ks vs mn mx|id un props|types ik field inlined|id ns d|objs root];
    cbv beta iota in H.
  - unfold int_ser, int_bounds in H. destruct (conv_int64 v) as [z|]; [|discriminate H].
    destruct (size_ok mn mx z); inversion H. reflexivity.
  - unfold float_ser, float_bounds in H. destruct (conv_float64 v) as [x|]; [|discriminate H].
    destruct (_ && _); inversion H. reflexivity.
  - unfold string_ser, string_check in H. destruct (conv_string v) as [s0|]; [|discriminate H].
    destruct (size_ok mn mx (slen s0)); [|discriminate H].
    destruct pat as [[src r]|]; [destruct (re_match_string r s0)|]; inversion H; reflexivity.
  - unfold bool_ser in H. destruct (conv_bool v); inversion H. reflexivity.
  - unfold pattern_ser in H. destruct v; inversion H. reflexivity.
  - apply (any_conv_wire f v w H).
  - unfold enum_int_ser in H. destruct (conv_int64 v) as [z|]; [|discriminate H].
    destruct (enum_int_mem vals z); inversion H. reflexivity.
  - unfold enum_str_ser in H. destruct (conv_string v) as [s0|]; [|discriminate H].
    destruct (enum_str_mem vals s0); inversion H. reflexivity.
  - (* list *)
    apply bind_ok in H. destruct H as (u0 & _ & H).
    destruct v as [| | | | |t0 nl l| | | | |]; try discriminate H.
    apply bind_ok in H. destruct H as (ys & Hys & H). inversion H; subst w. clear H.
    apply mapMi_seg_ok in Hys. apply wire_slice_intro.
    induction Hys as [|x y l' ys' Hxy _ IHl]; constructor; [apply (IH e it x y Hxy) | exact IHl].
  - (* map *)
    apply bind_ok in H. destruct H as (u0 & _ & H).
    destruct v as [| | | | | |t0 nl kvs| | | |]; try discriminate H.
    apply bind_ok in H. destruct H as (r & Hr & H). inversion H; subst w. clear H.
    change (fold_left (gstep (serialize f e ks) (serialize f e vs) (fun kv => mkey_seg (fst kv)) (fun kv _ => mval_seg (fst kv)))
              kvs (Ok []) = Ok r) in Hr.
    apply gfold_ok in Hr. destruct Hr as (cs & Hcs & ->).
    apply wire_map_intro; [reflexivity|]. apply mfold_forall; [|constructor].
    induction Hcs as [|kv c l' cs' [Hk Hv] _ IHl]; constructor; [|exact IHl].
    split; [apply (IH e ks _ _ Hk) | apply (IH e vs _ _ Hv)].
  - (* object *)
    destruct (is_str_any_map v) as [kvs|]; [|discriminate H]. cbv zeta in H.
    apply bind_ok in H. destruct H as (u0 & _ & H).
    apply bind_ok in H. destruct H as (out & Hm & H). inversion H; subst w. clear H.
    apply mapM_ok in Hm. unfold raw_to_val. apply wire_map_intro; [reflexivity|].
    apply Forall_forall. intros kv Hin. apply in_map_iff in Hin. destruct Hin as ([k x] & <- & Hin).
    destruct (forall2_in_r _ _ _ _ Hm Hin) as (kv0 & _ & Hb).
    destruct (alookup (fst kv0) props) as [p|]; [|discriminate Hb].
    apply bind_ok in Hb. destruct Hb as (x0 & Hx0 & Hb). inversion Hb; subst. apply seg_ok in Hx0.
    split; [reflexivity | apply (IH e _ _ _ Hx0)].
  - (* one-of *)
    apply bind_ok in H. destruct H as ([[key member] d'] & _ & H). cbv beta iota zeta in H.
    apply bind_ok in H. destruct H as (x & Hx & H). pose proof (IH e member d' x Hx) as Hwx.
    destruct (is_str_any_map x) as [xs|] eqn:Em; [|discriminate H].
    destruct (is_str_any_map_some x xs Em) as (t0 & b0 & ->).
    destruct (smap_get field xs); inversion H; subst w; [exact Hwx|].
    apply wire_map_intro; [reflexivity|]. apply map_set_forall; [|apply (wire_map_elim _ _ _ Hwx)].
    split; [reflexivity | destruct key; reflexivity].
  - destruct (resolve e id ns) as [[o e']|]; [apply (IH e' o v w H) | discriminate H].
  - destruct (alookup root objs) as [o|]; [apply (IH _ o v w H) | discriminate H].
Qed.

End Wire.
