(* Proofs/C01Facts.v — the invariant of the full round-trip induction (C01) and its instances for the kinds
   that need no key reasoning: scalars, enums, pattern, any, lists, references, scopes.

   rtf b e s F n w : at fuel F, the unserialized value n of schema s (environment e) passes Validate, Serialize
   gives the wire value w, Unserialize reads w back as n; n is not nil; when one-ofs are in scope (b = true) n also
   passes ValidateCompatibility (what OneOf.Validate / Serialize run on a member's data); and an object-like schema
   returns / emits map[string]any values with the same declared keys.  Monotone in the fuel. *)
From Coq Require Import Lia.
From Verif Require Import Base.Prelude Base.Str Base.Float Base.GoVal
  Schema.Regex Schema.Units Schema.Syntax Schema.Ops Schema.Cbor Schema.Wf Schema.SpecRT Schema.C01Spec
  Proofs.OpsLemmas Proofs.C01Round Proofs.CborNorm Proofs.C01Base Proofs.OpsEq Proofs.MonoEq Proofs.C01Any.
Open Scope string_scope.
Open Scope Z_scope.

Lemma forall2_in_r {A B} (R : A -> B -> Prop) l l' y :
  Forall2 R l l' -> In y l' -> exists x, In x l /\ R x y.
Proof.
  induction 1 as [| a b0 t t' Hab _ IH]; intros Hin; [contradiction|].
  destruct Hin as [E | Hin].
  - subst. exists a. split; [left; reflexivity | exact Hab].
  - destruct (IH Hin) as (x & Hx & Hr). exists x. split; [right; exact Hx | exact Hr].
Qed.

Lemma Forall2_impl {A B} (R R' : A -> B -> Prop) : (forall x y, R x y -> R' x y) ->
  forall l l', Forall2 R l l' -> Forall2 R' l l'.
Proof. intros H l l' H2. induction H2; constructor; [apply H; assumption | assumption]. Qed.

Lemma Forall2_flip {A B} (R : A -> B -> Prop) l l' : Forall2 R l l' -> Forall2 (fun y x => R x y) l' l.
Proof. induction 1; constructor; assumption. Qed.

Lemma mapMi_all_ok {A B} (h : Z -> string) (g : A -> outcome B) (d : A -> B) l i :
  (forall x, In x l -> g x = Ok (d x)) -> mapMi (fun j x => seg (h j) (g x)) i l = Ok (map d l).
Proof.
  intros H. apply mapMi_seg_ok. induction l as [|x t IH]; cbn [map]; constructor.
  - apply H. left. reflexivity.
  - apply IH. intros y Hy. apply H. right. exact Hy.
Qed.

Section Facts.
Variable words : list (string * bool).
Variable pu : units -> string -> option fl.
Notation unser := (unser words pu).
Notation validate := (validate words pu).
Notation serialize := (serialize words pu).
Notation compat := (compat words pu).

Record rtf (b : bool) (e : env) (s : schema) (F : nat) (n w : gval) : Prop := mk_rtf {
  rt_wire : swire w = true;
  rt_nonnil : n <> VNil;
  rt_val : validate F e s n = Ok tt;
  rt_ser : serialize F e s n = Ok w;
  rt_uns : unser F e s w = Ok n;
  rt_cmp : b = true -> compat F e s n = Ok tt;
  rt_shape : forall ps, member_props e s = Some ps ->
      exists r2 out, n = raw_to_val r2 /\ w = raw_to_val out /\ map fst out = map fst r2
                     /\ (forall k, In k (map fst r2) -> amem k ps = true) }.

Lemma rtf_mono b e s F F' n w : (F <= F')%nat -> rtf b e s F n w -> rtf b e s F' n w.
Proof.
  intros Hle [H1 H2 H3 H4 H5 H6 H7]. constructor; try assumption.
  - apply (validate_mono words pu F F' e s n _ Hle H3). discriminate.
  - apply (serialize_mono words pu F F' e s n _ Hle H4). discriminate.
  - apply (unser_mono words pu F F' e s w _ Hle H5). discriminate.
  - intros Hb. apply (compat_mono words pu F F' e s n _ Hle (H6 Hb)). discriminate.
Qed.

Definition is_scalar_kind (s : schema) : Prop :=
  match s with
  | SInt _ _ _ | SFloat _ _ _ | SString _ _ _ | SBool | SPattern | SEnumInt _ _ | SEnumStr _ _ => True
  | _ => False
  end.

Lemma scalar_rtf b e s f v n k : is_scalar_kind s ->
  unser (S f) e s v = Ok n -> ints_in_range n = true -> exists w, rtf b e s (S (S k)) n w.
Proof.
  intros Hk H Hr. rewrite (unser_S words pu) in H. destruct s; try contradiction; cbv beta iota in H.
  - (* int *)
    destruct (int_rt mn mx u v n H Hr) as (Hs & _ & Hu & _).
    assert (Hz : exists z, n = vi64 z).
    { unfold int_unser, int_bounds in H. destruct (int_mapper u v) as [z|]; [|discriminate H].
      destruct (size_ok mn mx z); inversion H. eauto. }
    destruct Hz as (z & ->). exists (vi64 z). constructor.
    + exact Hr.
    + discriminate.
    + rewrite (validate_S words pu). cbv beta iota. rewrite Hs. reflexivity.
    + rewrite (serialize_S words pu). exact Hs.
    + rewrite (unser_S words pu). exact Hu.
    + intros _. rewrite (compat_S words pu). cbv beta iota. rewrite (unser_S words pu). cbv beta iota. rewrite Hu. reflexivity.
    + intros ps Hm. discriminate Hm.
  - (* float *)
    destruct (float_rt pu mn mx u v n H) as (Hs & _ & Hu & _).
    assert (Hz : exists x, n = vf64 x).
    { unfold float_unser, float_bounds in H. destruct (float_mapper pu u v) as [x|]; [|discriminate H].
      destruct (_ && _); inversion H. eauto. }
    destruct Hz as (x & ->). exists (vf64 x). constructor.
    + reflexivity.
    + discriminate.
    + rewrite (validate_S words pu). cbv beta iota. rewrite Hs. reflexivity.
    + rewrite (serialize_S words pu). exact Hs.
    + rewrite (unser_S words pu). exact Hu.
    + intros _. rewrite (compat_S words pu). cbv beta iota. rewrite (unser_S words pu). cbv beta iota. rewrite Hu. reflexivity.
    + intros ps Hm. discriminate Hm.
  - (* string *)
    destruct (string_rt mn mx pat v n H) as (Hs & _ & Hu & _).
    assert (Hz : exists s0, n = VStr TStr s0).
    { unfold string_unser, string_check in H. destruct (string_mapper v) as [s0|]; [|discriminate H].
      destruct (size_ok mn mx (slen s0)); [|discriminate H].
      destruct pat as [[src r]|]; [destruct (re_match_string r s0)|]; inversion H; eauto. }
    destruct Hz as (s0 & ->). exists (VStr TStr s0). constructor.
    + reflexivity.
    + discriminate.
    + rewrite (validate_S words pu). cbv beta iota. rewrite Hs. reflexivity.
    + rewrite (serialize_S words pu). exact Hs.
    + rewrite (unser_S words pu). exact Hu.
    + intros _. rewrite (compat_S words pu). cbv beta iota. rewrite (unser_S words pu). cbv beta iota. rewrite Hu. reflexivity.
    + intros ps Hm. discriminate Hm.
  - (* bool *)
    destruct (bool_rt words v n H) as (Hs & _ & Hu & _).
    assert (Hz : exists b0, n = vbool b0) by (unfold bool_unser in H; inv_ok H; eauto).
    destruct Hz as (b0 & ->). exists (vbool b0). constructor.
    + reflexivity.
    + discriminate.
    + rewrite (validate_S words pu). cbv beta iota. rewrite Hs. reflexivity.
    + rewrite (serialize_S words pu). exact Hs.
    + rewrite (unser_S words pu). exact Hu.
    + intros _. rewrite (compat_S words pu). cbv beta iota. rewrite (unser_S words pu). cbv beta iota. rewrite Hu. reflexivity.
    + intros ps Hm. discriminate Hm.
  - (* pattern *)
    destruct (pattern_rt (e_or e) v n H) as (s0 & Hv & Hs & Hu & _).
    assert (Hval : forall j, validate (S j) e SPattern n = Ok tt).
    { intros j. rewrite (validate_S words pu). cbv beta iota. rewrite Hv. reflexivity. }
    exists (vstr s0). constructor.
    + reflexivity.
    + intros ->. discriminate Hv.
    + apply Hval.
    + rewrite (serialize_S words pu). exact Hs.
    + rewrite (unser_S words pu). exact Hu.
    + intros _. rewrite (compat_S words pu). cbv beta iota. apply Hval.
    + intros ps Hm. discriminate Hm.
  - (* int enum *)
    destruct (enum_int_rt vals u v n H Hr) as (Hs & _ & Hu & _).
    assert (Hz : exists z, n = vi64 z).
    { unfold enum_int_unser in H. destruct (int_mapper u v) as [z|]; [|discriminate H].
      destruct (enum_int_mem vals z); inversion H. eauto. }
    destruct Hz as (z & ->).
    assert (Hval : forall j, validate (S j) e (SEnumInt vals u) (vi64 z) = Ok tt).
    { intros j. rewrite (validate_S words pu). cbv beta iota. rewrite Hs. reflexivity. }
    exists (vi64 z). constructor.
    + exact Hr.
    + discriminate.
    + apply Hval.
    + rewrite (serialize_S words pu). exact Hs.
    + rewrite (unser_S words pu). exact Hu.
    + intros _. rewrite (compat_S words pu). cbv beta iota. apply Hval.
    + intros ps Hm. discriminate Hm.
  - (* string enum *)
    destruct (enum_str_rt named vals v n H) as (s0 & Hs & Hu & _).
    assert (Hval : forall j, validate (S j) e (SEnumStr named vals) n = Ok tt).
    { intros j. rewrite (validate_S words pu). cbv beta iota. rewrite Hs. reflexivity. }
    exists (vstr s0). constructor.
    + reflexivity.
    + intros ->. discriminate Hs.
    + apply Hval.
    + rewrite (serialize_S words pu). exact Hs.
    + rewrite (unser_S words pu). exact Hu.
    + intros _. rewrite (compat_S words pu). cbv beta iota. apply Hval.
    + intros ps Hm. discriminate Hm.
Qed.

(* ---------- any ---------- *)
Lemma any_rtf b e f v n g : unser (S f) e SAny v = Ok n -> ints_in_range n = true ->
  (b = true -> any_clean n = true) -> (f <= g)%nat -> rtf b e SAny (S g) n n.
Proof.
  intros H Hr Hc Hg. rewrite (unser_S words pu) in H. cbv beta iota in H.
  destruct (any_facts words pu f v n H) as (_ & Hnn & Hw & Hcm).
  pose proof (any_conv_idem words pu f v n H g Hg) as Hi.
  constructor.
  - apply Hw. exact Hr.
  - exact Hnn.
  - rewrite (validate_S words pu). cbv beta iota. rewrite Hi. reflexivity.
  - rewrite (serialize_S words pu). exact Hi.
  - rewrite (unser_S words pu). exact Hi.
  - intros Hb. apply Hcm; [apply Hc; exact Hb | exact Hg].
  - intros ps Hm. discriminate Hm.
Qed.

(* ---------- lists ---------- *)
Lemma list_rtf b e it mn mx F ys ws :
  size_ok mn mx (zlen ys) = true -> Forall2 (rtf b e it F) ys ws ->
  rtf b e (SList it mn mx) (S (S F)) (VSlice (TSlice (rtype it)) false ys) (VSlice t_any_slice false ws).
Proof.
  intros Es H0.
  assert (H1 : Forall2 (rtf b e it (S F)) ys ws).
  { eapply Forall2_impl; [|exact H0]. intros y w. apply rtf_mono. lia. }
  assert (Hlenw : zlen ws = zlen ys) by (symmetry; apply (zlen_forall2 _ _ _ H0)).
  assert (Hval : forall j, Forall2 (rtf b e it j) ys ws ->
            validate (S j) e (SList it mn mx) (VSlice (TSlice (rtype it)) false ys) = Ok tt).
  { intros j Hj. rewrite (validate_S words pu). cbv beta iota. rewrite Es. apply bind_ok.
    exists (map (fun _ => tt) ys). split; [|reflexivity]. apply mapMi_all_ok. intros y Hy.
    destruct (forall2_in_l _ _ _ _ Hj Hy) as (w & _ & Hw). apply (rt_val _ _ _ _ _ _ Hw). }
  constructor.
  - cbn [swire t_any_slice]. apply forallb_forall. intros w Hw.
    destruct (forall2_in_r _ _ _ _ H0 Hw) as (y & _ & Hy). apply (rt_wire _ _ _ _ _ _ Hy).
  - discriminate.
  - apply Hval. exact H1.
  - rewrite (serialize_S words pu). cbv beta iota. apply bind_ok. exists tt. split; [apply Hval; exact H0|].
    apply bind_ok. exists ws. split; [|reflexivity]. apply mapMi_seg_ok.
    eapply Forall2_impl; [|exact H1]. intros y w Hyw. apply (rt_ser _ _ _ _ _ _ Hyw).
  - rewrite (unser_S words pu). cbv beta iota. rewrite Hlenw, Es. apply bind_ok. exists ys. split; [|reflexivity].
    apply mapMi_seg_ok.
    assert (X : Forall2 (fun y w => unser (S F) e it w = Ok y) ys ws).
    { eapply Forall2_impl; [|exact H1]. intros y w Hyw. apply (rt_uns _ _ _ _ _ _ Hyw). }
    apply Forall2_flip in X. exact X.
  - intros Hb. rewrite (compat_S words pu). cbv beta iota. apply bind_ok.
    exists (map (fun _ => tt) ys). split; [|reflexivity]. apply mapMi_all_ok. intros y Hy.
    destruct (forall2_in_l _ _ _ _ H1 Hy) as (w & _ & Hw). apply (rt_cmp _ _ _ _ _ _ Hw Hb).
  - intros ps Hm. discriminate Hm.
Qed.

(* ---------- references and scopes ---------- *)
Lemma ref_rtf b e id ns d o e' F n w :
  resolve e id ns = Some (o, e') -> rtf b e' o F n w -> rtf b e (SRef id ns d) (S F) n w.
Proof.
  intros Hres H. constructor.
  - apply (rt_wire _ _ _ _ _ _ H).
  - apply (rt_nonnil _ _ _ _ _ _ H).
  - rewrite (validate_S words pu). cbv beta iota. rewrite Hres. apply (rt_val _ _ _ _ _ _ H).
  - rewrite (serialize_S words pu). cbv beta iota. rewrite Hres. apply (rt_ser _ _ _ _ _ _ H).
  - rewrite (unser_S words pu). cbv beta iota. rewrite Hres. apply (rt_uns _ _ _ _ _ _ H).
  - intros Hb. rewrite (compat_S words pu). cbv beta iota. rewrite Hres. apply (rt_cmp _ _ _ _ _ _ H Hb).
  - intros ps Hm. cbn [member_props] in Hm. rewrite Hres in Hm. destruct o; try discriminate Hm.
    inversion Hm; subst. apply (rt_shape _ _ _ _ _ _ H). reflexivity.
Qed.

Lemma scope_rtf b e objs root o F n w :
  alookup root objs = Some o -> rtf b (env_enter e objs) o F n w -> rtf b e (SScope objs root) (S F) n w.
Proof.
  intros Hres H. constructor.
  - apply (rt_wire _ _ _ _ _ _ H).
  - apply (rt_nonnil _ _ _ _ _ _ H).
  - rewrite (validate_S words pu). cbv beta iota. rewrite Hres. apply (rt_val _ _ _ _ _ _ H).
  - rewrite (serialize_S words pu). cbv beta iota. rewrite Hres. apply (rt_ser _ _ _ _ _ _ H).
  - rewrite (unser_S words pu). cbv beta iota. rewrite Hres. apply (rt_uns _ _ _ _ _ _ H).
  - intros Hb. rewrite (compat_S words pu). cbv beta iota. rewrite Hres. apply (rt_cmp _ _ _ _ _ _ H Hb).
  - intros ps Hm. cbn [member_props] in Hm. rewrite Hres in Hm. destruct o; try discriminate Hm.
    inversion Hm; subst. apply (rt_shape _ _ _ _ _ _ H). reflexivity.
Qed.

End Facts.
