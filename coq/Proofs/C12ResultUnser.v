(* Proofs/C12ResultUnser.v — the RESULT half of C12 for Unserialize: on two descriptions of one schema that differ
   in the order of their association lists (and of the environment's tables), and two arguments that differ in
   the order of the entries of their maps (any depth), with pairwise distinct keys (keys_distinct, and the
   decoded property defaults likewise), the two RESULTS are equal up to the order of map entries. *)
From Coq Require Import Permutation Lia Bool.
From Verif Require Import Base.Prelude Base.Str Base.Float Base.GoVal
  Schema.Regex Schema.Units Schema.Syntax Schema.Ops Schema.Wf Schema.Perm
  Proofs.C04Term Proofs.OpsLemmas Proofs.OpsEq Proofs.C04Inv Proofs.C12Order Proofs.C12Lookup Proofs.C12History
  Proofs.C12Schema Proofs.C12Value Proofs.C12ResultBase.
Open Scope string_scope.

Notation Q0 := (fun a b : gval * gval => perm_val (fst a) (fst b) /\ perm_val (snd a) (snd b)).

(* ---------- object helpers (independent of the operation) ---------- *)
Lemma nodup_snoc n (d : gval) (a : raw) :
  nodup_str (map fst a) = true -> amem n a = false -> nodup_str (map fst (a ++ [(n, d)])) = true.
Proof.
  intros H1 H2. rewrite map_app. cbn [map fst].
  rewrite (nodup_str_perm (map fst a ++ [n]) (n :: map fst a)) by (apply Permutation_sym, Permutation_cons_append).
  cbn [nodup_str]. rewrite <- amem_keys, H2, H1. reflexivity.
Qed.

Lemma r1_nodup (o : oracles) : forall (ps : list (string * property)) (r0 : raw),
  nodup_str (map fst r0) = true ->
  nodup_str (map fst (fold_left (fun a np =>
                          if amem (fst np) a then a
                          else match p_default (snd np) with
                               | Some txt => match decode_default o (snd np) txt with
                                             | Some d => (a ++ [(fst np, d)])%list
                                             | None => a
                                             end
                               | None => a
                               end) ps r0)) = true.
Proof.
  induction ps as [|[n p] t IH]; intros r0 H; cbn [fold_left]; [exact H|]. apply IH. cbn [fst snd].
  destruct (amem n r0) eqn:Em; [exact H|].
  destruct (p_default p) as [txt|]; [|exact H]. destruct (decode_default o p txt) as [d|]; [|exact H].
  now apply nodup_snoc.
Qed.

Lemma r0_fold (ps : list (string * property)) kvs r0 :
  fold_left (fun acc kv =>
               a <- acc ;;
               match fst kv with
               | VStr TStr k => if amem k ps then Ok (a ++ [(k, snd kv)])%list else Err (cerr EKey)
               | _ => Err (cerr EKey)
               end) kvs (Ok []) = Ok r0 -> r0 = raw_by sel_tstr kvs.
Proof.
  intros H.
  match type of H with fold_left ?st _ _ = _ =>
    assert (Hst : forall a kv, st (Ok a) kv = match sel_tstr (fst kv) with
                                              | Some k => if amem k ps then Ok (a ++ [(k, snd kv)])%list else Err (cerr EKey)
                                              | None => Err (cerr EKey)
                                              end)
      by (intros a kv; cbn [bind]; destruct (fst kv); try reflexivity;
          match goal with ty : gtype |- _ => destruct ty; reflexivity end);
    assert (Hbad : forall acc kv, is_ok acc = false -> is_ok (st acc kv) = false)
      by (intros acc kv Ha; destruct acc; cbn in *; congruence);
    pose proof (r0_char ps st Hst Hbad kvs []) as C0
  end.
  destruct (forallb (obj_key_ok ps) kvs); cbv beta iota in C0.
  - pose proof (eq_trans (eq_sym H) C0) as E. inversion E. reflexivity.
  - pose proof (eq_trans (eq_sym C0) (f_equal is_ok H)) as E. discriminate E.
Qed.

Lemma props_fold_lookup (G : string * property -> gval -> outcome gval) :
  forall (ps : list (string * property)) (a0 r2 : raw),
  nodup_str (map fst ps) = true ->
  fold_left (fun acc np =>
               a <- acc ;;
               match alookup (fst np) a with
               | Some d0 => x <- seg (fst np) (G np d0) ;; Ok (raw_set (fst np) x a)
               | None => Ok a
               end) ps (Ok a0) = Ok r2 ->
  map fst r2 = map fst a0 /\
  forall k, match alookup k a0, alookup k r2 with
            | None, None => True
            | Some d, Some x => match alookup k ps with None => x = d | Some p => G (k, p) d = Ok x end
            | _, _ => False
            end.
Proof.
  induction ps as [|[n p] t IH]; intros a0 r2 Hnd H.
  - cbn in H. inversion H; subst. split; [reflexivity|]. intros k. cbn [alookup]. destruct (alookup k r2); cbv beta iota; [reflexivity | exact I].
  - cbn [map fst] in Hnd. apply nodup_str_in in Hnd as [Hnin Hnd].
    apply (fold_bind_cons (fun a np => match alookup (fst np) a with
                                       | Some d0 => x <- seg (fst np) (G np d0) ;; Ok (raw_set (fst np) x a)
                                       | None => Ok a
                                       end)) in H.
    destruct H as (a1 & H1 & H2). cbn [fst snd] in H1.
    assert (Hnt : alookup n t = None) by (apply alookup_none_in; exact Hnin).
    destruct (alookup n a0) as [d0|] eqn:El.
    + apply bind_ok in H1. destruct H1 as (x0 & Hx0 & H1). inversion H1; subst a1. clear H1. apply seg_ok in Hx0.
      assert (Hm : amem n a0 = true) by (unfold amem; now rewrite El).
      destruct (raw_set_present n x0 a0 Hm) as [Kk Kl].
      destruct (IH _ _ Hnd H2) as [I1 I2]. split; [now rewrite I1|].
      intros k. specialize (I2 k). rewrite Kl in I2. cbn [alookup]. destruct (String.eqb k n) eqn:E.
      * apply String.eqb_eq in E. subst k. rewrite El. rewrite Hnt in I2.
        destruct (alookup n r2) as [x|]; cbv beta iota in I2 |- *; [|contradiction]. subst x. exact Hx0.
      * exact I2.
    + inversion H1; subst a1. clear H1. destruct (IH _ _ Hnd H2) as [I1 I2]. split; [exact I1|].
      intros k. specialize (I2 k). cbn [alookup]. destruct (String.eqb k n) eqn:E; [|exact I2].
      apply String.eqb_eq in E. subst k. rewrite El in *. destruct (alookup n r2); cbv beta iota in I2 |- *; [contradiction | exact I].
Qed.

Lemma f2_inj_raw (l l1 : raw) :
  Forall2 (fun a b => fst a = fst b /\ perm_val (snd a) (snd b)) l l1 -> Forall2 Q0 (inj_raw l) (inj_raw l1).
Proof.
  induction 1 as [|[k x] [k' x'] l l1 [Hk Hx] _ IH]; cbn [inj_raw map]; constructor; [|exact IH].
  cbn [fst snd] in *. subst k'. split; [apply pv_refl | exact Hx].
Qed.

Lemma raw_to_val_rp (r r' : raw) :
  nodup_str (map fst r) = true -> nodup_str (map fst r') = true ->
  (forall k, match alookup k r, alookup k r' with Some x, Some y => perm_val x y | None, None => True | _, _ => False end) ->
  perm_val (raw_to_val r) (raw_to_val r').
Proof.
  intros Hn Hn' H. destruct (rp_of_lookups perm_val r r' Hn Hn' H) as (l1 & HF & HP).
  change (perm_val (VMap t_str_map false (inj_raw r)) (VMap t_str_map false (inj_raw r'))).
  apply (pv_map _ _ _ (inj_raw l1)); [now apply f2_inj_raw | now apply Permutation_map].
Qed.

Lemma resolve_or e id ns o e2 : resolve e id ns = Some (o, e2) -> e_or e2 = e_or e.
Proof.
  unfold resolve. destruct (String.eqb ns "").
  - destruct (alookup id (e_self e)); [|discriminate]. intros H. inversion H; subst. reflexivity.
  - destruct (alookup ns (e_ext e)) as [tab|]; [|discriminate]. destruct (alookup id tab); [|discriminate].
    intros H. inversion H; subst. reflexivity.
Qed.

(* the units under which the int-keyed maps of a schema read their keys *)
Definition key_units_ok (Ub : option units -> bool) (ks : schema) : bool :=
  match ks with SInt _ _ u | SEnumInt _ u => Ub u | _ => true end.
Definition ku_local (Ub : option units -> bool) (e : env) (s : schema) : bool :=
  match s with SMap k _ _ _ => key_units_ok Ub k | _ => true end.
Definition map_key_units (Ub : option units -> bool) (e : env) (s : schema) : bool :=
  all_env (ku_local Ub) e && all_nodes (ku_local Ub) e s.

Section Result.
Variable words : list (string * bool).
Variable pu : units -> string -> option fl.
Variable Ub : option units -> bool.
Notation unser := (unser words pu).
Notation WF := (Inv wf_local).
Notation WU := (Inv (ku_local Ub)).
Notation kc := (@kc Ub).
Notation knc := (@knc Ub).
Notation kfree := (@kfree Ub).
Notation or_free := (@or_free Ub).
Notation Qk := (@Qk Ub).
Notation raw_by_nodup_k := (@raw_by_nodup_k Ub).
Notation raw_by_nodup_side := (@raw_by_nodup_side Ub).
Notation raw_by_lookup_k := (@raw_by_lookup_k Ub).
Notation sel_tstr_kc := (@sel_tstr_kc Ub).
Notation sel_str_kc := (@sel_str_kc Ub).
Notation kfree_map := (@kfree_map Ub).
Notation kfree_slice := (@kfree_slice Ub).
Notation kfree_filter := (@kfree_filter Ub).
Notation dfl_free := (@dfl_free Ub).
Notation any_conv_result := (@any_conv_result Ub).
Notation map_result_rel := (@map_result_rel Ub).
Notation kf_map := (@kf_map Ub).
Notation kc_sym := (@kc_sym Ub).

(* ---------- key conversion is injective on keys that cannot be read as the same key ---------- *)
Lemma unser_key_inj f e ks k1 k2 r1 r2 : key_kind_ok ks = true -> key_units_ok Ub ks = true ->
  unser f e ks k1 = Ok r1 -> unser f e ks k2 = Ok r2 -> key_eqb r1 r2 = true -> kc k1 k2.
Proof.
  intros Hkk Hku H1 H2 E.
  destruct f as [|f]; [discriminate H1|]. rewrite (unser_S words pu) in H1, H2.
  destruct ks; try discriminate Hkk; cbv beta iota in H1, H2; cbn [key_units_ok] in Hku.
  - unfold int_unser, int_bounds in H1, H2.
    destruct (int_mapper u k1) as [z1|] eqn:E1; [|discriminate H1]. destruct (int_mapper u k2) as [z2|] eqn:E2; [|discriminate H2].
    destruct (size_ok mn mx z1); [|discriminate H1]. destruct (size_ok mn mx z2); [|discriminate H2].
    inversion H1; inversion H2; subst. cbn in E. apply Z.eqb_eq in E. subst z2. left. exists u, z1. auto.
  - unfold string_unser, string_check in H1, H2.
    destruct (string_mapper k1) as [s1|] eqn:E1; [|discriminate H1]. destruct (string_mapper k2) as [s2|] eqn:E2; [|discriminate H2].
    destruct (size_ok mn mx (slen s1)); [|discriminate H1]. destruct (size_ok mn mx (slen s2)); [|discriminate H2].
    assert (R1 : r1 = vstr s1) by (destruct pat as [[src re]|]; [destruct (re_match_string re s1); [|discriminate H1]|]; inversion H1; reflexivity).
    assert (R2 : r2 = vstr s2) by (destruct pat as [[src re]|]; [destruct (re_match_string re s2); [|discriminate H2]|]; inversion H2; reflexivity).
    subst. cbn in E. apply String.eqb_eq in E. subst s2. right; left. eauto.
  - unfold enum_int_unser in H1, H2.
    destruct (int_mapper u k1) as [z1|] eqn:E1; [|discriminate H1]. destruct (int_mapper u k2) as [z2|] eqn:E2; [|discriminate H2].
    destruct (enum_int_mem vals z1); [|discriminate H1]. destruct (enum_int_mem vals z2); [|discriminate H2].
    inversion H1; inversion H2; subst. cbn in E. apply Z.eqb_eq in E. subst z2. left. exists u, z1. auto.
  - unfold enum_str_unser in H1, H2.
    destruct (string_mapper k1) as [s1|] eqn:E1; [|discriminate H1]. destruct (string_mapper k2) as [s2|] eqn:E2; [|discriminate H2].
    destruct (enum_str_mem vals s1); [|discriminate H1]. destruct (enum_str_mem vals s2); [|discriminate H2].
    inversion H1; inversion H2; subst. cbn in E. apply String.eqb_eq in E. subst s2. right; left. eauto.
Qed.

Lemma unser_key_kd f e ks k1 k2 r1 r2 : key_kind_ok ks = true -> key_units_ok Ub ks = true ->
  unser f e ks k1 = Ok r1 -> unser f e ks k2 = Ok r2 -> ~ kc k1 k2 ->
  key_eqb r1 r2 = false /\ key_eqb r2 r1 = false.
Proof.
  intros Hkk Hku H1 H2 Hn. split.
  - destruct (key_eqb r1 r2) eqn:E; [|reflexivity]. exfalso. apply Hn. exact (unser_key_inj f e ks k1 k2 r1 r2 Hkk Hku H1 H2 E).
  - destruct (key_eqb r2 r1) eqn:E; [|reflexivity]. exfalso. apply Hn. apply kc_sym.
    exact (unser_key_inj f e ks k2 k1 r2 r1 Hkk Hku H2 H1 E).
Qed.

Lemma wf_map_key e ks vs mn mx : WF e (SMap ks vs mn mx) -> key_kind_ok ks = true.
Proof. intros H. apply inv_here in H. exact H. Qed.

(* ---------- objects ---------- *)
Lemma unser_obj_notmap f e id u (ps : list (string * property)) v : is_vmap v = false ->
  unser (S f) e (SObject id u ps) v =
  match ps with
  | [(name, p)] =>
      x <- seg name (if p_disabled p then Err (cerr EDisabled) else unser f e (p_type p) v) ;;
      _ <- check_rules ps (fun k => String.eqb k name) ;;
      Ok (raw_to_val [(name, x)])
  | _ => Err (cerr ERepr)
  end.
Proof. intros H. rewrite (unser_S words pu). destruct v; try reflexivity. discriminate H. Qed.

(* the result of an object-like schema is a string-keyed map with unique keys *)
Lemma unser_objlike_shape : forall f e s v r, WF e s -> objlike s = true -> kfree v ->
  unser f e s v = Ok r -> exists rr, r = raw_to_val rr /\ nodup_str (map fst rr) = true.
Proof.
  induction f as [|f IH]; intros e s v r Hwf Hobj Hk H; [discriminate H|].
  destruct s; try discriminate Hobj.
  - (* object *)
    unfold property in *. pose proof (wf_object_nodup _ _ _ _ Hwf) as Hnps.
    destruct (is_vmap v) eqn:Em.
    + destruct v as [| | | | | |t b kvs| | | |]; try discriminate Em.
      rewrite (unser_S words pu) in H. cbv beta iota zeta in H.
      apply bind_ok in H. destruct H as (r0 & H0 & H). apply bind_ok in H. destruct H as (r2 & H2 & H).
      apply bind_ok in H. destruct H as (u0 & _ & H). inversion H; subst r. exists r2. split; [reflexivity|].
      apply r0_fold in H0. subst r0.
      destruct (kfree_map _ _ _ Hk) as [Hpw _].
      destruct (props_fold_lookup _ props _ r2 Hnps H2) as [K2 _]. rewrite K2.
      apply r1_nodup. apply raw_by_nodup_k; [exact sel_tstr_kc | exact Hpw].
    + rewrite (unser_obj_notmap f e id unenforced props v Em) in H.
      destruct props as [|[pn0 pp0] [|pq0 ptl0]]; try discriminate H.
      apply bind_ok in H. destruct H as (x & _ & H). apply bind_ok in H. destruct H as (u0 & _ & H).
      inversion H; subst r. exists [(pn0, x)]. split; reflexivity.
  - (* reference *)
    rewrite (unser_S words pu) in H. cbv beta iota in H.
    destruct (resolve e id ns) as [[o e2]|] eqn:R1; [|discriminate H].
    pose proof (inv_here _ _ _ Hwf) as Hl. cbn [wf_local] in Hl. rewrite R1 in Hl.
    apply (IH e2 o v r); [exact (inv_ref _ _ _ _ _ _ _ Hwf R1) | destruct o; try discriminate Hl; reflexivity | exact Hk | exact H].
  - (* scope *)
    rewrite (unser_S words pu) in H. cbv beta iota in H.
    destruct (alookup root objs) as [o|] eqn:R1; [|discriminate H].
    pose proof (inv_here _ _ _ Hwf) as Hl. cbn [wf_local] in Hl.
    apply andb_prop in Hl as [Hl _]. apply andb_prop in Hl as [_ Hl]. rewrite forallb_forall in Hl.
    specialize (Hl _ (alookup_in _ _ _ R1)). cbn [fst snd] in Hl.
    apply (IH (env_enter e objs) o v r); [exact (inv_scope _ _ _ _ _ Hwf R1) | destruct o; try discriminate Hl; reflexivity | exact Hk | exact H].
Qed.

(* ---------- the main induction ---------- *)
Lemma unser_result : forall f e e' s s' v v',
  perm_env e e' -> nodup_env e = true -> perm_schema s s' -> perm_val v v' -> WF e s -> WU e s ->
  or_free (e_or e) -> kfree v -> res_rel (unser f e s v) (unser f e' s' v').
Proof.
  induction f as [|f IH]; intros e e' s s' v v' He Hnd Hs Hv Hwf Hwu Hof Hk; [intros r r' H; discriminate H|].
  destruct Hs as [mn mx u|mn mx u|mn mx p| | | |vals vals' u HPv|n vals vals' HPv|sa sb mn mx Hs1
                 |ks ks' vs vs' mn mx Hsk Hsv|id u ps ps1 ps' HFp HPp|ts ts1 ts' ik fld inl HFt HPt|id ns d
                 |os os1 os' root HFo HPo].
  - rewrite !(unser_S words pu). cbv beta iota. apply res_rel_eq. destruct Hv; reflexivity.
  - rewrite !(unser_S words pu). cbv beta iota. apply res_rel_eq. destruct Hv; reflexivity.
  - rewrite !(unser_S words pu). cbv beta iota. apply res_rel_eq. destruct Hv; reflexivity.
  - rewrite !(unser_S words pu). cbv beta iota. apply res_rel_eq. destruct Hv; reflexivity.
  - rewrite !(unser_S words pu). cbv beta iota. destruct He as (_ & _ & Hor). rewrite Hor.
    apply res_rel_eq. destruct Hv; reflexivity.
  - rewrite !(unser_S words pu). cbv beta iota. exact (any_conv_result f v v' Hv Hk).
  - rewrite !(unser_S words pu). cbv beta iota. apply res_rel_eq. unfold enum_int_unser.
    replace (int_mapper u v') with (int_mapper u v) by (destruct Hv; reflexivity).
    destruct (int_mapper u v) as [z|]; [|reflexivity]. now rewrite (enum_int_mem_perm _ _ z HPv).
  - rewrite !(unser_S words pu). cbv beta iota. apply res_rel_eq. unfold enum_str_unser.
    replace (string_mapper v') with (string_mapper v) by (destruct Hv; reflexivity).
    destruct (string_mapper v) as [s|]; [|reflexivity]. now rewrite (enum_str_mem_perm _ _ s HPv).
  - (* list *)
    rewrite !(unser_S words pu). cbv beta iota.
    destruct (is_vslice v) eqn:Em.
    2: { apply res_rel_notok_l. destruct v; try reflexivity; discriminate Em. }
    destruct v as [| | | | |t b l| | | | |]; try discriminate Em.
    destruct (pv_slice_view _ _ _ _ Hv) as (l' & -> & HF). cbv beta iota.
    unfold zlen. rewrite (f2_length _ _ _ HF).
    destruct (size_ok mn mx (Z.of_nat (List.length l))); [|apply res_rel_notok_l; reflexivity].
    apply res_rel_bind. intros ys ys' H1 H2 r r' Hr Hr'. inversion Hr; inversion Hr'; subst.
    rewrite <- (perm_rtype _ _ Hs1). apply pv_slice.
    apply kfree_slice in Hk. rewrite Forall_forall in Hk.
    apply (mapMi_f2_rel perm_val perm_val (fun i x => seg (idx_seg i) (unser f e sa x))
             (fun i x => seg (idx_seg i) (unser f e' sb x)) l l' HF) with (i := 0%Z) (ys := ys) (ys' := ys');
      [|exact H1 | exact H2].
    intros j x x' y y' Hin Hx Hy Hy'. apply seg_ok in Hy. apply seg_ok in Hy'.
    exact (IH e e' sa sb x x' He Hnd Hs1 Hx (inv_list _ _ _ _ _ Hwf) (inv_list _ _ _ _ _ Hwu) Hof (Hk x Hin) y y' Hy Hy').
  - (* map *)
    rewrite !(unser_S words pu). cbv beta iota.
    destruct (is_vmap v) eqn:Em.
    2: { apply res_rel_notok_l. destruct v; try reflexivity; discriminate Em. }
    destruct v as [| | | | | |t b kvs| | | |]; try discriminate Em.
    destruct (pv_map_view _ _ _ _ Hv) as (kvs1 & kvs' & -> & HF & HP). cbv beta iota.
    unfold zlen. rewrite (f2_len_perm _ _ _ _ HF HP).
    destruct (size_ok mn mx (Z.of_nat (List.length kvs))); [|apply res_rel_notok_l; reflexivity].
    apply res_rel_bind. intros rs rs' H1 H2 r r' Hr Hr'. inversion Hr; inversion Hr'; subst.
    apply (fold_set2 (fun kv => seg (mkey_seg (fst kv)) (unser f e ks (fst kv)))
                     (fun kv _ => seg (mval_seg (fst kv)) (unser f e vs (snd kv)))) in H1.
    apply (fold_set2 (fun kv => seg (mkey_seg (fst kv)) (unser f e' ks' (fst kv)))
                     (fun kv _ => seg (mval_seg (fst kv)) (unser f e' vs' (snd kv)))) in H2.
    destruct H1 as (cs & HF1 & ->). destruct H2 as (cs' & HF2 & ->).
    rewrite <- (perm_rtype _ _ Hsk), <- (perm_rtype _ _ Hsv).
    apply kfree_map in Hk. destruct Hk as [Hpw Hall]. rewrite Forall_forall in Hall.
    pose proof (wf_map_key _ _ _ _ _ Hwf) as Hkk.
    eapply (map_result_rel _ _ kvs kvs1 kvs' cs cs'); [exact HF | exact HP | exact Hpw | exact HF1 | exact HF2 | |].
    + intros x x' c c' Hin [Hxk Hxv] [Hg1 Hg2] [Hg1' Hg2']. cbv beta in *.
      apply seg_ok in Hg1. apply seg_ok in Hg2. apply seg_ok in Hg1'. apply seg_ok in Hg2'.
      destruct (Hall x Hin) as [Hfk Hfv]. split.
      * exact (IH e e' ks ks' _ _ He Hnd Hsk Hxk (inv_map_k _ _ _ _ _ _ Hwf) (inv_map_k _ _ _ _ _ _ Hwu) Hof Hfk _ _ Hg1 Hg1').
      * exact (IH e e' vs vs' _ _ He Hnd Hsv Hxv (inv_map_v _ _ _ _ _ _ Hwf) (inv_map_v _ _ _ _ _ _ Hwu) Hof Hfv _ _ Hg2 Hg2').
    + intros x y c q [Hg1 _] [Hg2 _] Hn. cbv beta in *. apply seg_ok in Hg1. apply seg_ok in Hg2.
      exact (unser_key_kd f e ks _ _ _ _ Hkk (inv_here _ _ _ Hwu) Hg1 Hg2 Hn).
  - (* object *)
    unfold property in *.
    pose proof (wf_object_nodup _ _ _ _ Hwf) as Hnps.
    assert (Hnps' : nodup_str (map fst ps') = true) by exact (eq_trans (rel_nodup rel_prop ps ps1 ps' HFp HPp) Hnps).
    assert (Hor : e_or e' = e_or e) by (destruct He as (_ & _ & Hor); now rewrite Hor).
    destruct (is_vmap v) eqn:Em.
    + (* both arguments are maps *)
      destruct v as [| | | | | |t b kvs| | | |]; try discriminate Em.
      destruct (pv_map_view _ _ _ _ Hv) as (kvs1 & kvs' & -> & HF & HP).
      rewrite !(unser_S words pu). cbv beta iota zeta. rewrite Hor.
      destruct (kfree_map _ _ _ Hk) as [Hpw Hall].
      apply res_rel_bind. intros r0 r0' H0 H0'. apply r0_fold in H0. apply r0_fold in H0'. subst r0 r0'.
      apply res_rel_bind. intros r2 r2' H2 H2'.
      apply res_rel_bind. intros u0 u0' _ _ r r' Hr Hr'. inversion Hr; inversion Hr'; subst. clear Hr Hr'.
      set (G := fun (np : string * property) (d0 : gval) =>
                  if p_disabled (snd np) then @Err gval (cerr EDisabled) else unser f e (p_type (snd np)) d0) in *.
      set (G' := fun (np : string * property) (d0 : gval) =>
                  if p_disabled (snd np) then @Err gval (cerr EDisabled) else unser f e' (p_type (snd np)) d0) in *.
      match type of H2 with fold_left _ ps (Ok ?r1) = _ => set (R1 := r1) in * end.
      match type of H2' with fold_left _ ps' (Ok ?r1) = _ => set (R1' := r1) in * end.
      destruct (props_fold_lookup G ps R1 r2 Hnps H2) as [K2 L2].
      destruct (props_fold_lookup G' ps' R1' r2' Hnps' H2') as [K2' L2'].
      assert (Hn0 : nodup_str (map fst (raw_by sel_tstr kvs)) = true) by (apply raw_by_nodup_k; [exact sel_tstr_kc | exact Hpw]).
      assert (Hn0' : nodup_str (map fst (raw_by sel_tstr kvs')) = true)
        by (apply (raw_by_nodup_side sel_tstr sel_tstr_kc sel_tstr_leaf kvs kvs1 kvs'); assumption).
      assert (HnR : nodup_str (map fst R1) = true) by (apply r1_nodup; exact Hn0).
      assert (HnR' : nodup_str (map fst R1') = true) by (apply r1_nodup; exact Hn0').
      assert (E1 : forall k, alookup k R1 = match alookup k (raw_by sel_tstr kvs) with Some d0 => Some d0 | None => dfl (e_or e) ps k end)
        by (intros k; exact (r1_char (e_or e) ps _ k Hnps)).
      assert (E1' : forall k, alookup k R1' = match alookup k (raw_by sel_tstr kvs') with Some d0 => Some d0 | None => dfl (e_or e) ps' k end)
        by (intros k; exact (r1_char (e_or e) ps' _ k Hnps')).
      assert (HR : forall k, match alookup k R1, alookup k R1' with
                             | Some d0, Some d0' => Qk d0 d0'
                             | None, None => True
                             | _, _ => False
                             end).
      { intros k. rewrite E1, E1'.
        pose proof (raw_by_lookup_k sel_tstr sel_tstr_kc sel_tstr_leaf kvs kvs1 kvs' k Hpw Hall HF HP) as HL.
        rewrite <- (rel_dfl (e_or e) ps ps1 ps' k Hnps HFp HPp).
        destruct (alookup k (raw_by sel_tstr kvs)), (alookup k (raw_by sel_tstr kvs')); cbv beta iota in HL |- *;
          try contradiction; [exact HL|].
        destruct (dfl (e_or e) ps k) as [d0|] eqn:Ed; cbv beta iota; [|exact I].
        split; [apply pv_refl | exact (dfl_free _ _ _ _ Hof Ed)]. }
      apply raw_to_val_rp; [now rewrite K2 | now rewrite K2' |].
      intros k. specialize (L2 k). specialize (L2' k). specialize (HR k).
      pose proof (rel_alookup rel_prop k ps ps1 ps' Hnps HFp HPp) as HPk.
      unfold property in *.
      destruct (alookup k R1) as [d0|], (alookup k R1') as [d0'|]; cbv beta iota in HR, L2, L2' |- *; try contradiction.
      * destruct (alookup k r2) as [x|]; cbv beta iota in L2 |- *; [|contradiction].
        destruct (alookup k r2') as [x'|]; cbv beta iota in L2' |- *; [|contradiction].
        destruct (alookup k ps) as [p|] eqn:Ep, (alookup k ps') as [p'|]; cbv beta iota in HPk, L2, L2' |- *; try contradiction.
        -- unfold G in L2. unfold G' in L2'. cbn [fst snd] in L2, L2'.
           inversion HPk as [t0 t0' dd0 rq0 ri0 rin0 c0 df0 ex0 em0 dis0 reason0 Hst]; subst p p'.
           cbn [p_disabled p_type] in L2, L2'. destruct dis0; [discriminate L2|]. destruct HR as [Hp Hfr].
           refine (IH e e' t0 t0' d0 d0' He Hnd Hst Hp _ _ Hof Hfr x x' L2 L2').
           ++ exact (inv_prop _ _ _ _ _ (k, _) Hwf (alookup_in _ _ _ Ep)).
           ++ exact (inv_prop _ _ _ _ _ (k, _) Hwu (alookup_in _ _ _ Ep)).
        -- subst x x'. exact (proj1 HR).
      * destruct (alookup k r2); cbv beta iota in L2 |- *; [contradiction|].
        destruct (alookup k r2'); cbv beta iota in L2' |- *; [contradiction | exact I].
    + (* a lone non-map value: the single-property shorthand *)
      assert (Em' : is_vmap v' = false) by (rewrite <- (pv_is_vmap _ _ Hv); exact Em).
      rewrite (unser_obj_notmap f e id u ps v Em), (unser_obj_notmap f e' id u ps' v' Em').
      destruct ps as [|[pn0 pp0] [|pq0 ptl0]].
      * apply res_rel_notok_l; reflexivity.
      * inversion HFp as [|? [pn1 pp1] ? ? [Hk1 Hr1] HF']; subst. inversion HF'; subst. cbn [fst snd] in *. subst pn1.
        apply Permutation_length_1_inv in HPp. subst ps'.
        inversion Hr1 as [t0 t0' dd0 rq0 ri0 rin0 c0 df0 ex0 em0 dis0 reason0 Hst]; subst pp0 pp1.
        cbn [p_disabled p_type].
        apply res_rel_bind. intros x x' Hx Hx'. apply res_rel_bind. intros u0 u0' _ _ r r' Hr Hr'.
        inversion Hr; inversion Hr'; subst. clear Hr Hr'.
        apply seg_ok in Hx. apply seg_ok in Hx'. destruct dis0; [discriminate Hx|].
        assert (Hxx : perm_val x x').
        { refine (IH e e' t0 t0' v v' He Hnd Hst Hv _ _ Hof Hk x x' Hx Hx').
          - exact (inv_prop _ _ _ _ _ (pn0, _) Hwf (or_introl eq_refl)).
          - exact (inv_prop _ _ _ _ _ (pn0, _) Hwu (or_introl eq_refl)). }
        apply raw_to_val_rp; [reflexivity | reflexivity |].
        intros k. cbn [alookup]. destruct (String.eqb k pn0); cbv beta iota; [exact Hxx | exact I].
      * apply res_rel_notok_l; reflexivity.
  - (* one-of *)
    destruct (is_vmap v) eqn:Em.
    2: { apply res_rel_notok_l. rewrite (unser_S words pu). destruct v; try reflexivity; discriminate Em. }
    destruct v as [| | | | | |t b kvs| | | |]; try discriminate Em.
    destruct (pv_map_view _ _ _ _ Hv) as (kvs1 & kvs' & -> & HF & HP).
    rewrite !(unser_S words pu). cbv beta iota zeta.
    pose proof (wf_oneof_nodup _ _ _ _ _ Hwf) as Hnts.
    destruct (kfree_map _ _ _ Hk) as [Hpw Hall].
    match goal with |- context [forallb ?p kvs] =>
      assert (Hallb : forallb p kvs = forallb p kvs')
        by (rewrite <- (forallb_perm _ kvs1 kvs' HP); apply (forallb_f2 _ _ _ _ _ HF);
            intros a b0 _ [Hka _]; cbv beta; revert Hka; generalize (fst a), (fst b0); apply pv_leaf; reflexivity);
      rewrite <- Hallb; destruct (forallb p kvs); [|apply res_rel_notok_l; reflexivity]
    end.
    cbv beta iota. rewrite !smap_get_raw.
    pose proof (raw_by_lookup_k sel_str sel_str_kc sel_str_leaf kvs kvs1 kvs' fld Hpw Hall HF HP) as HL.
    destruct (alookup fld (raw_by sel_str kvs)) as [d0|], (alookup fld (raw_by sel_str kvs')) as [d0'|];
      cbv beta iota in HL |- *; try contradiction; [|apply res_rel_notok_l; reflexivity].
    destruct HL as [Hd _]. destruct (pv_mappers _ _ Hd) as [Ei Es]. rewrite <- Ei, <- Es.
    match goal with |- res_rel (match ?c with _ => _ end) _ => destruct c as [key|]; [|apply res_rel_notok_l; reflexivity] end.
    pose proof (rel_find key _ _ _ Hnts HFt HPt) as Hf.
    destruct (find (fun ks0 : okey * schema => okey_eqb (fst ks0) key) ts) as [[k1 m]|] eqn:E1;
      destruct (find (fun ks0 : okey * schema => okey_eqb (fst ks0) key) ts') as [[k2 m']|];
      cbv beta iota in Hf |- *; try contradiction; [|apply res_rel_notok_l; reflexivity].
    apply find_some in E1 as [E1 _].
    set (cl := if inl then kvs else smap_del fld kvs). set (cl' := if inl then kvs' else smap_del fld kvs').
    assert (Hcl : perm_val (VMap t_str_map false cl) (VMap t_str_map false cl')).
    { unfold cl, cl'. destruct inl; [exact (pv_map _ _ _ _ _ HF HP)|].
      rewrite !smap_del_filter. apply (pv_map _ _ _ (filter (keep_key fld) kvs1)).
      - apply f2_filter; [exact HF|]. intros a b0 [Hka _]. unfold keep_key. now rewrite (sel_str_leaf _ _ Hka).
      - now apply perm_filter. }
    assert (Hkcl : kfree (VMap t_str_map false cl)).
    { unfold cl. destruct inl; [apply kf_map; assumption|]. rewrite smap_del_filter. exact (kfree_filter _ _ _ _ _ _ Hk). }
    clearbody cl cl'.
    assert (Hwm : WF e m) by exact (inv_member _ _ _ _ _ _ (k1, m) Hwf E1).
    assert (Hwum : WU e m) by exact (inv_member _ _ _ _ _ _ (k1, m) Hwu E1).
    assert (Hobj : objlike m = true).
    { pose proof (inv_here _ _ _ Hwf) as Hl. cbn [wf_local] in Hl. apply andb_prop in Hl as [_ Hl].
      rewrite forallb_forall in Hl. specialize (Hl _ E1). unfold wf_member in Hl. cbn [fst snd] in Hl.
      apply andb_prop in Hl as [Hl _]. apply andb_prop in Hl as [_ Hl]. exact Hl. }
    apply res_rel_bind. intros x x' Hx Hx'.
    pose proof (IH e e' m m' _ _ He Hnd Hf Hcl Hwm Hwum Hof Hkcl x x' Hx Hx') as Hxx.
    destruct (unser_objlike_shape f e m _ x Hwm Hobj Hkcl Hx) as (rr & -> & Hnr).
    pose proof Hxx as Hxx0. unfold raw_to_val in Hxx.
    destruct (pv_map_view _ _ _ _ Hxx) as (xs1 & xs' & -> & HFx & HPx).
    change (is_str_any_map (raw_to_val rr)) with (Some (inj_raw rr)).
    change (is_str_any_map (VMap t_str_map false xs')) with (Some xs').
    cbv beta iota. destruct inl.
    + intros r r' Hr Hr'. inversion Hr; inversion Hr'; subst. exact Hxx0.
    + intros r r' Hr Hr'. inversion Hr; inversion Hr'; subst.
      destruct (map_set_rp (vstr fld) (match key with KI z => vi64 z | KS s0 => vstr s0 end)
                  (match key with KI z => vi64 z | KS s0 => vstr s0 end) (inj_raw rr) xs1 xs'
                  (pv_refl _) (kcnt_raw fld rr Hnr) HFx HPx) as (m1 & Hm1 & Hm2).
      exact (pv_map _ _ _ m1 _ Hm1 Hm2).
  - (* reference *)
    rewrite !(unser_S words pu). cbv beta iota.
    pose proof (rel_resolve e e' id ns He Hnd) as Hr.
    destruct (resolve e id ns) as [[o e2]|] eqn:R1, (resolve e' id ns) as [[o' e2']|]; cbv beta iota in Hr |- *; try contradiction;
      [|apply res_rel_notok_l; reflexivity].
    destruct Hr as (Ho & He2 & Hn2).
    apply (IH e2 e2' o o' v v' He2 Hn2 Ho Hv (inv_ref _ _ _ _ _ _ _ Hwf R1) (inv_ref _ _ _ _ _ _ _ Hwu R1)); [|exact Hk].
    rewrite (resolve_or _ _ _ _ _ R1). exact Hof.
  - (* scope *)
    rewrite !(unser_S words pu). cbv beta iota.
    pose proof (wf_scope_nodup _ _ _ Hwf) as Hnos.
    pose proof (rel_alookup rel_schema root os os1 os' Hnos HFo HPo) as Hl.
    destruct (alookup root os) as [o|] eqn:R1, (alookup root os') as [o'|]; cbv beta iota in Hl |- *; try contradiction;
      [|apply res_rel_notok_l; reflexivity].
    apply (IH (env_enter e os) (env_enter e' os') o o' v v').
    + now apply (rel_env_enter e e' os os1 os').
    + unfold nodup_env in *. cbn [env_enter e_self e_ext]. apply andb_prop in Hnd as [_ Hx]. now rewrite Hnos, Hx.
    + exact Hl.
    + exact Hv.
    + exact (inv_scope _ _ _ _ _ Hwf R1).
    + exact (inv_scope _ _ _ _ _ Hwu R1).
    + exact Hof.
    + exact Hk.
Qed.

End Result.
