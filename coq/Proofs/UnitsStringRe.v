(* Proofs/UnitsStringRe.v — a declarative semantics for the regular expressions of
   Schema/Regex.v (ALL constructors, not only the fragment the units template uses), and the
   relation of the CPS backtracking matcher `mt` to it:
     - soundness: whatever `mt` answers is a declarative match (any fuel);
     - weak completeness with an explicit fuel bound: if a declarative match exists whose
       continuation succeeds, `mt` does not fail, and `re_fuel` is enough fuel.
   (Which of several matches is found — leftmost-first priority — is not characterised here;
   the units theorems obtain it from uniqueness of the match.) *)
From Coq Require Import Lia ZArith List Arith.
From Verif Require Import Base.Prelude Base.Str Schema.Regex.
Import ListNotations.
Open Scope nat_scope.

(* re_matches whole r s s' cs cs' : r matches a prefix of s leaving s', and turns the capture
   list cs into cs'.  Star iterations must consume (the matcher refuses empty iterations). *)
Inductive re_matches (whole : nat) : re -> list ascii -> list ascii -> caps -> caps -> Prop :=
| RM_eps : forall s cs, re_matches whole Eps s s cs cs
| RM_chr : forall c s cs, re_matches whole (Chr c) (c :: s) s cs cs
| RM_any : forall x s cs, (zchr x =? 10)%Z = false -> re_matches whole AnyC (x :: s) s cs cs
| RM_cls : forall neg rs x s cs, cls_match neg rs x = true -> re_matches whole (Cls neg rs) (x :: s) s cs cs
| RM_cat : forall a b s s1 s2 cs cs1 cs2,
    re_matches whole a s s1 cs cs1 -> re_matches whole b s1 s2 cs1 cs2 ->
    re_matches whole (Cat a b) s s2 cs cs2
| RM_altl : forall a b s s' cs cs', re_matches whole a s s' cs cs' -> re_matches whole (Alt a b) s s' cs cs'
| RM_altr : forall a b s s' cs cs', re_matches whole b s s' cs cs' -> re_matches whole (Alt a b) s s' cs cs'
| RM_star0 : forall a s cs, re_matches whole (Star a) s s cs cs
| RM_star1 : forall a s s1 s2 cs cs1 cs2,
    re_matches whole a s s1 cs cs1 -> List.length s1 <> List.length s ->
    re_matches whole (Star a) s1 s2 cs1 cs2 ->
    re_matches whole (Star a) s s2 cs cs2
| RM_grp : forall n a s s' cs cs',
    re_matches whole a s s' cs cs' ->
    re_matches whole (Grp n a) s s' cs ((n, firstn (List.length s - List.length s') s) :: cs')
| RM_bol : forall s cs, List.length s = whole -> re_matches whole Bol s s cs cs
| RM_eol : forall cs, re_matches whole Eol [] [] cs cs.

(* ---------- soundness ---------- *)

Lemma mt_sound : forall fuel whole r s cs k res,
  mt fuel whole r s cs k = Some res ->
  exists s' cs', re_matches whole r s s' cs cs' /\ k s' cs' = Some res.
Proof.
  induction fuel as [|f IH]; intros whole r s cs k res H; [discriminate|].
  destruct r; cbn [mt] in H.
  - exists s, cs. split; [constructor | exact H].
  - destruct s as [|x t]; [discriminate|]. destruct (Ascii.eqb x c) eqn:E; [|discriminate].
    apply Ascii.eqb_eq in E. subst. exists t, cs. split; [constructor | exact H].
  - destruct s as [|x t]; [discriminate|]. destruct (zchr x =? 10)%Z eqn:E; [discriminate|].
    exists t, cs. split; [constructor; exact E | exact H].
  - destruct s as [|x t]; [discriminate|]. destruct (cls_match neg rs x) eqn:E; [|discriminate].
    exists t, cs. split; [constructor; exact E | exact H].
  - apply IH in H. destruct H as (s1 & cs1 & M1 & H). apply IH in H. destruct H as (s2 & cs2 & M2 & H).
    exists s2, cs2. split; [econstructor; eassumption | exact H].
  - destruct (mt f whole r1 s cs k) eqn:E.
    + inversion H; subst. apply IH in E. destruct E as (s1 & cs1 & M1 & E).
      exists s1, cs1. split; [apply RM_altl; exact M1 | exact E].
    + apply IH in H. destruct H as (s1 & cs1 & M1 & H).
      exists s1, cs1. split; [apply RM_altr; exact M1 | exact H].
  - match type of H with match ?X with _ => _ end = _ => destruct X eqn:E end.
    + inversion H; subst. apply IH in E. destruct E as (s1 & cs1 & M1 & E).
      destruct (Nat.eqb (List.length s1) (List.length s)) eqn:L; [discriminate|].
      apply Nat.eqb_neq in L. apply IH in E. destruct E as (s2 & cs2 & M2 & E).
      exists s2, cs2. split; [eapply RM_star1; eassumption | exact E].
    + exists s, cs. split; [constructor | exact H].
  - apply IH in H. destruct H as (s1 & cs1 & M1 & H).
    exists s1, ((n, firstn (List.length s - List.length s1) s) :: cs1). split; [constructor; exact M1 | exact H].
  - destruct (Nat.eqb (List.length s) whole) eqn:E; [|discriminate]. apply Nat.eqb_eq in E.
    exists s, cs. split; [constructor; exact E | exact H].
  - destruct s; [|discriminate]. exists [], cs. split; [constructor | exact H].
Qed.

Lemma re_match_at_sound : forall r whole s cs,
  re_match_at r whole s = Some cs -> exists s', re_matches whole r s s' [] cs.
Proof.
  intros r whole s cs H. unfold re_match_at in H. apply mt_sound in H.
  destruct H as (s' & cs' & M & H). inversion H; subst. exists s'. exact M.
Qed.

(* a match consumes a prefix *)
Lemma re_matches_suffix : forall whole r s s' cs cs',
  re_matches whole r s s' cs cs' -> exists pre, s = pre ++ s'.
Proof.
  intros whole r s s' cs cs' M. induction M.
  - exists []. reflexivity.
  - exists [c]. reflexivity.
  - exists [x]. reflexivity.
  - exists [x]. reflexivity.
  - destruct IHM1 as (p1 & E1). destruct IHM2 as (p2 & E2). exists (p1 ++ p2). subst. rewrite app_assoc. reflexivity.
  - exact IHM.
  - exact IHM.
  - exists []. reflexivity.
  - destruct IHM1 as (p1 & E1). destruct IHM2 as (p2 & E2). exists (p1 ++ p2). subst. rewrite app_assoc. reflexivity.
  - exact IHM.
  - exists []. reflexivity.
  - exists []. reflexivity.
Qed.

Lemma re_matches_length : forall whole r s s' cs cs',
  re_matches whole r s s' cs cs' -> List.length s' <= List.length s.
Proof.
  intros whole r s s' cs cs' M. destruct (re_matches_suffix _ _ _ _ _ _ M) as (p & E). subst.
  rewrite app_length. lia.
Qed.

(* ---------- weak completeness with a fuel bound ---------- *)

(* recursion depth `mt` needs on a subject of n bytes: continuations carry the fuel of the
   node that built them, so only Star (one level per iteration, each consuming) depends on n *)
Fixpoint re_need (r : re) (n : nat) : nat :=
  match r with
  | Cat a b | Alt a b => S (Nat.max (re_need a n) (re_need b n))
  | Star a => S (n + re_need a n)
  | Grp _ a => S (re_need a n)
  | _ => 1
  end.

Lemma re_need_mono : forall r n m, n <= m -> re_need r n <= re_need r m.
Proof.
  induction r; intros n' m' H; cbn [re_need]; try lia.
  - specialize (IHr1 _ _ H). specialize (IHr2 _ _ H). lia.
  - specialize (IHr1 _ _ H). specialize (IHr2 _ _ H). lia.
  - specialize (IHr _ _ H). lia.
  - specialize (IHr _ _ H). lia.
Qed.

Lemma mt_complete_weak : forall whole r s s' cs cs',
  re_matches whole r s s' cs cs' ->
  forall fuel k, re_need r (List.length s) <= fuel -> k s' cs' <> None ->
  mt fuel whole r s cs k <> None.
Proof.
  intros whole r s s' cs cs' M. induction M; intros fuel k Hf Hk;
    (destruct fuel as [|f]; [cbn [re_need] in Hf; lia|]); cbn [mt].
  - exact Hk.
  - rewrite Ascii.eqb_refl. exact Hk.
  - rewrite H. exact Hk.
  - rewrite H. exact Hk.
  - cbn [re_need] in Hf.
    pose proof (Nat.le_max_l (re_need a (List.length s)) (re_need b (List.length s))) as Ml.
    pose proof (Nat.le_max_r (re_need a (List.length s)) (re_need b (List.length s))) as Mr.
    apply IHM1; [lia|]. apply IHM2; [|exact Hk].
    pose proof (re_matches_length _ _ _ _ _ _ M1) as L.
    pose proof (re_need_mono b _ _ L). lia.
  - cbn [re_need] in Hf.
    pose proof (Nat.le_max_l (re_need a (List.length s)) (re_need b (List.length s))) as Ml.
    destruct (mt f whole a s cs k) eqn:E; [discriminate|].
    exfalso. revert E. apply IHM; [lia | exact Hk].
  - cbn [re_need] in Hf.
    pose proof (Nat.le_max_r (re_need a (List.length s)) (re_need b (List.length s))) as Mr.
    destruct (mt f whole a s cs k) eqn:E; [discriminate|].
    apply IHM; [lia | exact Hk].
  - match goal with |- match ?X with _ => _ end <> None => destruct X end; [discriminate | exact Hk].
  - cbn [re_need] in Hf.
    match goal with |- match ?X with _ => _ end <> None => destruct X eqn:E end; [discriminate|].
    exfalso. revert E. apply IHM1; [lia|].
    pose proof H as Hne. apply Nat.eqb_neq in H. rewrite H.
    apply IHM2; [|exact Hk].
    pose proof (re_matches_length _ _ _ _ _ _ M1) as L.
    assert (L' : S (List.length s1) <= List.length s) by lia.
    pose proof (re_need_mono a _ _ L). cbn [re_need]. lia.
  - cbn [re_need] in Hf. apply IHM; [lia | exact Hk].
  - apply Nat.eqb_eq in H. rewrite H. exact Hk.
  - exact Hk.
Qed.

Lemma re_need_le_size : forall r n, re_need r n <= re_size r * (n + 1).
Proof.
  induction r; intro n'; cbn [re_need re_size]; try lia.
  - specialize (IHr1 n'). specialize (IHr2 n'). nia.
  - specialize (IHr1 n'). specialize (IHr2 n'). nia.
  - specialize (IHr n'). nia.
  - specialize (IHr n'). nia.
Qed.

Lemma re_fuel_enough : forall r s, re_need r (List.length s) <= re_fuel r s.
Proof.
  intros r s. pose proof (re_need_le_size r (List.length s)). unfold re_fuel. nia.
Qed.

(* if the expression has a declarative match of the subject, the matcher (with the fuel the
   model gives it) answers with SOME match *)
Lemma re_match_at_complete : forall r whole s s' cs,
  re_matches whole r s s' [] cs -> re_match_at r whole s <> None.
Proof.
  intros r whole s s' cs M. unfold re_match_at.
  eapply mt_complete_weak; [exact M | apply re_fuel_enough | discriminate].
Qed.
