(* Proofs/ServerInv.v — inductive invariants of the server model (ATP/Server.v): one lemma per invariant
   shows that every transition preserves it; reachability lifts them to arbitrary schedules. *)
From Coq Require Import Lia.
From Verif Require Import Base.Prelude Base.Str ATP.Msg ATP.Server.
Open Scope string_scope.
Open Scope list_scope.
Open Scope nat_scope.

(* ------------------------------------------------------------------------------------- *)
(* sums over lists *)

Definition sumf {A} (f : A -> nat) (l : list A) : nat := list_sum (map f l).

Lemma sumf_nil {A} (f : A -> nat) : sumf f [] = 0.
Proof. reflexivity. Qed.

Lemma sumf_cons {A} (f : A -> nat) x l : sumf f (x :: l) = f x + sumf f l.
Proof. reflexivity. Qed.

Lemma sumf_app {A} (f : A -> nat) l1 l2 : sumf f (l1 ++ l2) = sumf f l1 + sumf f l2.
Proof. unfold sumf. rewrite map_app, list_sum_app. reflexivity. Qed.

Lemma sumf_snoc {A} (f : A -> nat) l x : sumf f (l ++ [x]) = sumf f l + f x.
Proof. rewrite sumf_app, sumf_cons, sumf_nil. lia. Qed.

Lemma sumf_upd_nth {A} (f : A -> nat) : forall l i x y,
  nth_error l i = Some x -> sumf f (upd_nth i y l) + f x = sumf f l + f y.
Proof.
  induction l as [|a l IH]; intros [|i] x y H; simpl in H; try discriminate.
  - inversion H; subst. simpl. rewrite !sumf_cons. lia.
  - simpl. rewrite !sumf_cons. specialize (IH i x y H). lia.
Qed.

Lemma sumf_nth_le {A} (f : A -> nat) : forall l i x, nth_error l i = Some x -> f x <= sumf f l.
Proof.
  induction l as [|a l IH]; intros [|i] x H; simpl in H; try discriminate.
  - inversion H; subst. rewrite sumf_cons. lia.
  - rewrite sumf_cons. specialize (IH i x H). lia.
Qed.

Lemma sumf_pos_ex {A} (f : A -> nat) : forall l, 0 < sumf f l -> exists i x, nth_error l i = Some x /\ 0 < f x.
Proof.
  induction l as [|a l IH]; intros H.
  - rewrite sumf_nil in H. lia.
  - rewrite sumf_cons in H. destruct (f a) eqn:E.
    + destruct IH as (i & x & Hn & Hx); [lia|]. exists (S i), x. split; assumption.
    + exists 0, a. split; [reflexivity | lia].
Qed.

Lemma sumf_zero_dom {A} (f g : A -> nat) : forall l,
  (forall x, f x = 0 -> g x = 0) -> sumf f l = 0 -> sumf g l = 0.
Proof.
  induction l as [|a l IH]; intros Hd H; [reflexivity|].
  rewrite sumf_cons in *. assert (f a = 0) by lia. assert (sumf f l = 0) by lia.
  rewrite (Hd a), IH; auto.
Qed.

(* ------------------------------------------------------------------------------------- *)
(* reachability *)

Lemma run_invariant (c : cfg) (P : state -> Prop) :
  (forall s l s', P s -> step c s l = Some s' -> P s') ->
  forall ls s, P s -> P (run c s ls).
Proof.
  intros Hstep ls. induction ls as [|l ls IH]; intros s Hs; [exact Hs|].
  simpl. apply IH. unfold step_or_stay. destruct (step c s l) eqn:E; [eapply Hstep; eauto | exact Hs].
Qed.

Definition reachable (c : cfg) (s : state) : Prop := exists ls, s = run c init ls.

Lemma reachable_invariant (c : cfg) (P : state -> Prop) :
  P init -> (forall s l s', P s -> step c s l = Some s' -> P s') -> forall s, reachable c s -> P s.
Proof. intros H0 Hs s [ls ->]. apply run_invariant; assumption. Qed.

Lemma reach_run c ls : reachable c (run c init ls).
Proof. exists ls. reflexivity. Qed.

(* ------------------------------------------------------------------------------------- *)
(* case analysis of one step: the state is taken apart into its components first, so that
   every record update computes to a flat constructor application *)

Ltac flat :=
  cbn [set_inq set_stdin_closed set_rl set_running set_wd set_wd_closed set_workers set_nworkers set_hp
       set_h_closed_stdin set_send_failed set_ctx_cancelled set_ctx_seen set_out set_out_closed set_ret
       set_released set_crashed set_hist set_raised set_lost
       inq stdin_closed rl running wd wd_closed workers nworkers hp h_closed_stdin send_failed ctx_cancelled
       ctx_seen out out_closed ret released crashed hist raised lost
       w_kind w_run w_pc se_run se_sf se_vf] in *.

Ltac des s :=
  destruct s as [inq0 stdin_closed0 rl0 running0 wd0 wd_closed0 workers0 nworkers0 hp0 h_closed_stdin0 send_failed0
                 ctx_cancelled0 ctx_seen0 out0 out_closed0 ret0 released0 crashed0 hist0 raised0 lost0].

Ltac unf_step :=
  unfold step, step_read, step_handler, step_worker, handle_msg, raise, spawn, consume, set_wpc, fatal_err in *.

Ltac brk1 :=
  match goal with
  | H : None = Some _ |- _ => discriminate H
  | H : Some _ = None |- _ => discriminate H
  | H : context [if ?b then _ else _] |- _ => destruct b eqn:?
  | H : context [match ?x with _ => _ end] |- _ => destruct x eqn:?
  | H : Some _ = Some _ |- _ => inversion H; clear H; subst
  | k : rcont |- _ => destruct k
  end.
Ltac brk := repeat (brk1; flat).

(* the worker taken apart as well *)
Ltac worker_cases H :=
  match type of H with
  | context [nth_error ?ws ?i] =>
      let w := fresh "w" in let Hn := fresh "Hn" in
      destruct (nth_error ws i) as [w|] eqn:Hn; [destruct w as [wk wr wp]; flat | discriminate H]
  end.

(* livew: 1 for a goroutine that has not yet done its wg.Done() *)
Definition livepc (p : wpc) : nat := match p with WGone => 0 | _ => 1 end.
Definition livew (w : worker) : nat := livepc (w_pc w).

Definition hdone (p : hpc) : bool := match p with HWait | HReturned => true | _ => false end.

Record Inv (s : state) : Prop := mkInv {
  inv_nocrash : crashed s = false;
  inv_nw : nworkers s = sumf livew (workers s);
  inv_closed_rl : wd_closed s = true -> rl s = RGone;
  inv_rl_closed : rl s = RGone -> wd_closed s = true;
  inv_closed_nw : wd_closed s = true -> nworkers s = 0;
  inv_hdone : hdone (hp s) = true -> wd_closed s = true /\ wd s = [] }.

Lemma inv_init : Inv init.
Proof. constructor; simpl; auto; discriminate. Qed.

Ltac fin :=
  intros;
  repeat match goal with
  | H : ?a = ?b -> _, H' : ?a = ?b |- _ => specialize (H H')
  | H : ?a = ?a -> _ |- _ => specialize (H eq_refl)
  | H : _ /\ _ |- _ => destruct H
  end;
  try discriminate; try congruence; try lia; try (exfalso; lia); auto.

Lemma inv_step c s l s' : Inv s -> step c s l = Some s' -> Inv s'.
Proof.
  intros I H. des s. destruct I as [I1 I2 I3 I4 I5 I6]. flat. subst.
  destruct l as [ev|t| | | |r|i]; unf_step; flat.
  - inversion H; subst; constructor; flat; auto.
  - inversion H; subst; constructor; flat; auto.
  - inversion H; subst; constructor; flat; auto.
  - inversion H; subst; constructor; flat; auto.
  - (* read loop *)
    brk; constructor; flat; simpl hdone in *; fin;
      try (rewrite sumf_snoc; cbn [livew livepc w_pc]; lia).
  - (* handler *)
    brk; constructor; flat; simpl hdone in *; fin.
  - (* worker *)
    worker_cases H.
    pose proof (sumf_nth_le livew _ _ _ Hn) as Hle.
    pose proof (fun y => sumf_upd_nth livew _ _ _ y Hn) as Hupd.
    brk; try (match goal with |- context [upd_nth _ ?y _] => specialize (Hupd y) end);
      cbn [livew livepc w_pc] in *; constructor; flat; simpl hdone in *; fin.
Qed.

Lemma inv_reachable c s : reachable c s -> Inv s.
Proof. apply reachable_invariant; [exact inv_init | apply inv_step]. Qed.

Lemma no_crash c ls : crashed (run c init ls) = false.
Proof. apply inv_nocrash, (inv_reachable c). apply reach_run. Qed.

(* ------------------------------------------------------------------------------------- *)
(* terminal messages: one per accepted work-start *)

Definition b2n (b : bool) : nat := if b then 1 else 0.

(* a step-fatal report for run r *)
Definition term (r : runid) (e : srverr) : nat := b2n (String.eqb (se_run e) r && se_sf e).
(* a terminal message for run r on the output *)
Definition oterm (r : runid) (m : omsg) : nat :=
  match m with OHello => 0 | ODone r' _ => b2n (String.eqb r' r) | OErr e => term r e end.
(* the goroutine executes a work-start of run r *)
Definition w_owes (r : runid) (w : worker) : nat :=
  match w_kind w with KStep _ _ => b2n (String.eqb (w_run w) r) | KSignal _ _ _ => 0 end.
(* ... and has not yet handed its terminal message on *)
Definition w_pending (r : runid) (w : worker) : nat :=
  match w_pc w with
  | WCall => w_owes r w
  | WSendDone _ => b2n (String.eqb (w_run w) r)
  | WReport e => term r e
  | WExit | WGone => 0
  end.
Definition rl_pending (g : srverr -> nat) (p : rpc) : nat := match p with RReport e _ => g e | _ => 0 end.
Definition h_pending (g : srverr -> nat) (p : hpc) : nat := match p with HForward e => g e | _ => 0 end.

(* what the consumed events owe to run r: an accepted work-start, or a work-start whose payload
   does not decode (reported step-fatal under its run id) *)
Definition ev_accepted (r : runid) (ev : event Z) : nat :=
  match ev with
  | EvMsg (WorkStart r' st _) => b2n (String.eqb r' r && negb (String.eqb r' "" || String.eqb st ""))
  | _ => 0
  end.
Definition ev_badws (r : runid) (ev : event Z) : nat :=
  match ev with
  | EvMsg (BadPayload id r') => b2n (Z.eqb id 1 && String.eqb r' r)
  | _ => 0
  end.

Definition TermInv (r : runid) (s : state) : Prop :=
  sumf (w_owes r) (workers s) = sumf (ev_accepted r) (hist s) /\
  sumf (w_owes r) (workers s) + sumf (ev_badws r) (hist s)
  = sumf (w_pending r) (workers s) + rl_pending (term r) (rl s) + sumf (term r) (wd s) + h_pending (term r) (hp s)
    + sumf (oterm r) (out s) + sumf (oterm r) (lost s).

Lemma eqb_false_empty r : r <> "" -> String.eqb "" r = false.
Proof. intros H. destruct (String.eqb "" r) eqn:E; [apply String.eqb_eq in E; congruence | reflexivity]. Qed.

Lemma term_empty r sf vf : r <> "" -> term r (mkSE "" sf vf) = 0.
Proof. intros H. unfold term. cbn [se_run se_sf]. rewrite (eqb_false_empty r H). reflexivity. Qed.

Lemma term_nonfatal r r' vf : term r (mkSE r' false vf) = 0.
Proof. unfold term. cbn [se_run se_sf]. rewrite andb_false_r. reflexivity. Qed.

Lemma term_sf r r' vf : term r (mkSE r' true vf) = b2n (String.eqb r' r).
Proof. unfold term. cbn [se_run se_sf]. rewrite andb_true_r. reflexivity. Qed.

Lemma term_init r : TermInv r init.
Proof. split; reflexivity. Qed.

Ltac sums :=
  repeat rewrite sumf_snoc in *; repeat rewrite sumf_cons in *; repeat rewrite sumf_nil in *.

Ltac use_eqs :=
  repeat match goal with
  | Hq : ?b = true |- context [?b] => rewrite Hq
  | Hq : ?b = false |- context [?b] => rewrite Hq
  end.

Lemma term_step c r s l s' : r <> "" -> TermInv r s -> step c s l = Some s' -> TermInv r s'.
Proof.
  intros Hr I H. des s. unfold TermInv in *. flat. destruct I as [A T].
  destruct l as [ev|t| | | |rv|i]; unf_step; flat; destruct crashed0; try discriminate H.
  - inversion H; subst; flat; split; assumption.
  - inversion H; subst; flat; split; assumption.
  - inversion H; subst; flat; split; assumption.
  - inversion H; subst; flat; split; assumption.
  - (* read loop *)
    brk; sums;
      cbn [rl_pending h_pending oterm w_owes w_pending ev_accepted ev_badws w_kind w_run w_pc] in *;
      rewrite ?(term_empty r _ _ Hr), ?term_nonfatal, ?term_sf in *;
      use_eqs; cbn [negb andb b2n]; rewrite ?andb_true_r, ?andb_false_r; cbn [b2n]; try (split; lia).
  - (* handler *)
    brk; sums; cbn [rl_pending h_pending oterm] in *; try (split; lia).
  - (* worker *)
    worker_cases H.
    pose proof (fun y => sumf_upd_nth (w_owes r) _ _ _ y Hn) as Ho.
    pose proof (fun y => sumf_upd_nth (w_pending r) _ _ _ y Hn) as Hp.
    brk; try (match goal with wk0 : wkind |- _ => destruct wk0 end);
      try (match goal with |- context [upd_nth _ ?y _] => specialize (Ho y); specialize (Hp y) end);
      sums; cbn [rl_pending h_pending oterm w_owes w_pending w_kind w_run w_pc] in *;
      rewrite ?term_nonfatal, ?term_sf in *; try (split; lia).
Qed.

Lemma term_reachable c r s : r <> "" -> reachable c s -> TermInv r s.
Proof. intros Hr. apply reachable_invariant; [apply term_init | intros; eapply term_step; eauto]. Qed.

(* ------------------------------------------------------------------------------------- *)
(* error reports: created = in flight + returned; returned = being written + written + lost *)

Definition og (g : srverr -> nat) (m : omsg) : nat := match m with OErr e => g e | _ => 0 end.
Definition w_pendE (g : srverr -> nat) (w : worker) : nat := match w_pc w with WReport e => g e | _ => 0 end.

Definition ErrInv (g : srverr -> nat) (s : state) : Prop :=
  sumf g (raised s) = rl_pending g (rl s) + sumf (w_pendE g) (workers s) + sumf g (wd s) + sumf g (ret s) /\
  sumf g (ret s) = h_pending g (hp s) + sumf (og g) (out s) + sumf (og g) (lost s).

Lemma err_init g : ErrInv g init.
Proof. split; reflexivity. Qed.

Lemma err_step c g s l s' : ErrInv g s -> step c s l = Some s' -> ErrInv g s'.
Proof.
  intros I H. des s. unfold ErrInv in *. flat. destruct I as [A B].
  destruct l as [ev|t| | | |rv|i]; unf_step; flat; destruct crashed0; try discriminate H.
  - inversion H; subst; flat; split; assumption.
  - inversion H; subst; flat; split; assumption.
  - inversion H; subst; flat; split; assumption.
  - inversion H; subst; flat; split; assumption.
  - brk; sums; cbn [rl_pending h_pending og w_pendE w_pc] in *; try (split; lia).
  - brk; sums; cbn [rl_pending h_pending og w_pendE w_pc] in *; try (split; lia).
  - worker_cases H.
    pose proof (fun y => sumf_upd_nth (w_pendE g) _ _ _ y Hn) as Hp.
    brk; try (match goal with |- context [upd_nth _ ?y _] => specialize (Hp y) end);
      sums; cbn [rl_pending h_pending og w_pendE w_pc] in *; try (split; lia).
Qed.

Lemma err_reachable c g s : reachable c s -> ErrInv g s.
Proof. apply reachable_invariant; [apply err_init | intros; eapply err_step; eauto]. Qed.

(* nothing is lost while the output is open *)
Definition OutInv (s : state) : Prop := out_closed s = false -> lost s = [] /\ send_failed s = false.

Lemma out_step c s l s' : OutInv s -> step c s l = Some s' -> OutInv s'.
Proof.
  unfold OutInv. intros I H. des s. flat.
  destruct l as [ev|t| | | |rv|i]; unf_step; flat; destruct crashed0; try discriminate H.
  - inversion H; subst; flat; assumption.
  - inversion H; subst; flat; assumption.
  - inversion H; subst; flat; assumption.
  - inversion H; subst; flat; intros; discriminate.
  - brk; fin.
  - brk; fin.
  - worker_cases H. brk; fin.
Qed.

Lemma out_reachable c s : reachable c s -> OutInv s.
Proof. apply reachable_invariant; [intros _; split; reflexivity | apply out_step]. Qed.

(* ------------------------------------------------------------------------------------- *)
(* what holds once RunATPServer has returned *)

Lemma all_gone_sum (f : worker -> nat) ws :
  (forall w, w_pc w = WGone -> f w = 0) -> sumf livew ws = 0 -> sumf f ws = 0.
Proof.
  intros Hf. apply sumf_zero_dom. intros w Hw. apply Hf. unfold livew, livepc in Hw. destruct (w_pc w); congruence.
Qed.

Lemma returned_facts s : Inv s -> hp s = HReturned ->
  rl s = RGone /\ wd s = [] /\ sumf livew (workers s) = 0.
Proof.
  intros [I1 I2 I3 I4 I5 I6] Hh. destruct I6 as [Hc Hw]; [rewrite Hh; reflexivity|].
  repeat split; auto. rewrite <- I2. auto.
Qed.

