(* Proofs/ServerRaised.v — WHICH ServerErrors the server creates: exactly the problems of the runtime
   messages it has consumed (classified as documented in atp/server.go), one per failed execution of
   a step or signal handler, and at most one server-fatal report for a failed handshake or a read on
   the stdin the server closed itself.  Together with ErrInv (Proofs/ServerInv.v: created = in flight
   + returned) this gives the "problems are reported" half of C07. *)
From Coq Require Import Lia.
From Verif Require Import Base.Prelude Base.Str ATP.Msg ATP.Server Proofs.ServerInv.
Open Scope string_scope.
Open Scope list_scope.
Open Scope nat_scope.

(* the documented classification: message -> reports (none or one), given runningSteps *)
Definition msg_problem (rn : list (runid * stepid)) (m : msg Z) : list srverr :=
  match m with
  | WorkStart r st _ =>
      if String.eqb r "" || String.eqb st "" then [mkSE "" true false] else []      (* missing run id / step id: step-fatal, no run *)
  | Signal r _ _ =>
      if String.eqb r "" then [mkSE "" false false]                                     (* signal without run id *)
      else match alookup r rn with None => [mkSE r false false] | Some _ => [] end      (* signal for a run never started *)
  | ClientDone => []
  | BadPayload id r =>
      if Z.eqb id 1 then [mkSE r true false]                                            (* undecodable work-start: step-fatal for its run *)
      else if Z.eqb id 3 then [mkSE r false false]                                      (* undecodable signal *)
      else if Z.eqb id 4 then [] else [mkSE "" false false]
  | WorkDone _ _ _ _ _ | ErrMsg _ _ _ | Unknown _ _ => [mkSE "" false false]           (* unknown message id *)
  end.

Definition ev_problem (rn : list (runid * stepid)) (ev : event Z) : list srverr :=
  match ev with
  | EvMsg m => msg_problem rn m
  | EvHello _ => [mkSE "" false false]
  | _ => [fatal_err]                      (* garbage, a message cut short, end of input, read error: server-fatal *)
  end.

Definition ev_running (rn : list (runid * stepid)) (ev : event Z) : list (runid * stepid) :=
  match ev with
  | EvMsg (WorkStart r st _) => if String.eqb r "" || String.eqb st "" then rn else (r, st) :: rn
  | _ => rn
  end.

Definition hist_step (acc : list (runid * stepid) * list srverr) (ev : event Z) :=
  (ev_running (fst acc) ev, snd acc ++ ev_problem (fst acc) ev).
Definition hist_fold (h : list (event Z)) : list (runid * stepid) * list srverr := fold_left hist_step h ([], []).

Lemma hist_fold_snoc h ev : hist_fold (h ++ [ev]) = hist_step (hist_fold h) ev.
Proof. unfold hist_fold. rewrite fold_left_app. reflexivity. Qed.

(* the report of a goroutine that has made its call *)
Definition w_problem (c : cfg) (w : worker) : list srverr :=
  match w_pc w with
  | WCall => []
  | _ => match w_kind w with
         | KStep st tok => match step_outcome c st tok with BSuccess _ => [] | _ => [mkSE (w_run w) true false] end
         | KSignal st sg ok => if c_step_known c st && c_sig_known c sg && ok then [] else [mkSE (w_run w) false false]
         end
  end.

Definition rl_ended (p : rpc) : Prop :=
  match p with RReport _ KDefer | RDefer | RGone => True | _ => False end.

Definition RaisedInv (c : cfg) (g : srverr -> nat) (s : state) : Prop :=
  exists x,
    (x = 0 \/ (x = 1 /\ rl_ended (rl s))) /\
    running s = fst (hist_fold (hist s)) /\
    sumf g (raised s)
    = sumf g (snd (hist_fold (hist s))) + sumf (fun w => sumf g (w_problem c w)) (workers s) + x * g fatal_err.

Lemma raised_init c g : RaisedInv c g init.
Proof. exists 0. repeat split; auto. Qed.

Ltac close_with n :=
  exists n; split; [cbn [rl_ended]; tauto | split; [try reflexivity; congruence | lia]].
Ltac close_raised := first [close_with 0 | close_with 1].
Ltac split_x Hx x :=
  destruct Hx as [Hx | [Hx ?He]]; subst x; cbn [rl_ended] in *; try contradiction.

Lemma raised_step c g s l s' : RaisedInv c g s -> step c s l = Some s' -> RaisedInv c g s'.
Proof.
  intros I H. des s. unfold RaisedInv in *. flat. destruct I as (x & Hx & Hrun & Heq).
  destruct l as [ev|t| | | |rv|i]; unf_step; flat; destruct crashed0; try discriminate H.
  - inversion H; subst; flat; exists x; auto.
  - inversion H; subst; flat; exists x; auto.
  - inversion H; subst; flat; exists x; auto.
  - inversion H; subst; flat; exists x; auto.
  - (* read loop *)
    brk; split_x Hx x;
      rewrite ?hist_fold_snoc; unfold hist_step; cbn [fst snd]; rewrite <- ?Hrun;
      cbn [ev_problem msg_problem ev_running] in *; use_eqs;
      repeat match goal with Hq : ?t = _ |- context [match ?t with _ => _ end] => rewrite Hq end;
      cbn [ev_problem msg_problem ev_running]; unfold fatal_err in *;
      rewrite ?sumf_app; sums; cbn [w_problem w_pc]; sums; close_raised.
  - (* handler *)
    brk; split_x Hx x; close_raised.
  - (* worker *)
    worker_cases H.
    pose proof (fun y => sumf_upd_nth (fun w => sumf g (w_problem c w)) _ _ _ y Hn) as Hp.
    brk; split_x Hx x;
      try (match goal with |- context [upd_nth _ ?y _] => specialize (Hp y) end);
      cbn [w_problem w_pc w_kind w_run] in *;
      repeat match goal with Hq : step_outcome _ _ _ = _ |- _ => rewrite Hq in * end;
      repeat match goal with Hq : (_ && _) = _ |- _ => rewrite Hq in * end;
      sums; close_raised.
Qed.

Lemma raised_reachable c g s : reachable c s -> RaisedInv c g s.
Proof. apply reachable_invariant; [apply raised_init | intros; eapply raised_step; eauto]. Qed.

(* the statement used by Properties/C07.v *)
Lemma c07_errors_are_the_problems : forall (c : cfg) (ls : list label) (g : srverr -> nat),
  let s := run c init ls in
  exists x, x <= 1 /\
    sumf g (raised s)
    = sumf g (snd (hist_fold (hist s))) + sumf (fun w => sumf g (w_problem c w)) (workers s) + x * g fatal_err.
Proof.
  intros c ls g s. destruct (raised_reachable c g s (reach_run c ls)) as (x & Hx & _ & Heq).
  exists x. split; [destruct Hx as [->|[-> _]]; lia | exact Heq].
Qed.
