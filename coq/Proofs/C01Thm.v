(* Proofs/C01Thm.v — C01_roundtrip assembled: the induction of Proofs/C01Full.v closed with the one-of case of
   Proofs/C01OneOf.v, lifted to every larger fuel and to the CBOR wire; the hypotheses are necessary (witnesses by
   computation); non-vacuity instances. *)
From Coq Require Import Lia.
From Verif Require Import Base.Prelude Base.Str Base.Float Base.GoVal
  Schema.Regex Schema.Units Schema.Syntax Schema.Ops Schema.Cbor Schema.Wf Schema.SpecRT Schema.SpecObj Schema.C01Spec
  Proofs.OpsLemmas Proofs.C01Round Proofs.CborNorm Proofs.C03Obj Proofs.C04Inv Proofs.C01Base Proofs.OpsEq Proofs.MonoEq
  Proofs.C01Any Proofs.C01Facts Proofs.C01Maps Proofs.C01Objects Proofs.C01OneOf Proofs.C01Full.
Open Scope string_scope.
Open Scope Z_scope.

Section Thm.
Variable words : list (string * bool).
Variable pu : units -> string -> option fl.
Notation unser := (unser words pu).
Notation validate := (validate words pu).
Notation serialize := (serialize words pu).
Notation rtf := (rtf words pu).

Lemma rtf_conclusion b e s F n w : rtf b e s F n w -> roundtrips_strong words pu e s n F.
Proof.
  intros H. exists w. split; [apply (rt_wire _ _ _ _ _ _ _ _ H)|]. intros f' Hf.
  pose proof (rtf_mono words pu b e s F f' n w Hf H) as H'.
  split; [apply (rt_val _ _ _ _ _ _ _ _ H')|]. split; [apply (rt_ser _ _ _ _ _ _ _ _ H')|].
  split; [apply (rt_uns _ _ _ _ _ _ _ _ H')|]. split.
  - intros D. destruct (cbor_norm_wire D w (rt_wire _ _ _ _ _ _ _ _ H)) as (_ & _ & E). rewrite E. apply (rt_uns _ _ _ _ _ _ _ _ H').
  - intros n2 H2. rewrite (rt_uns _ _ _ _ _ _ _ _ H') in H2. inversion H2; subst n2. apply (rt_ser _ _ _ _ _ _ _ _ H').
Qed.

Lemma oneof_case_all b : forall f, rt_goal words pu b f -> forall e types ik field inlined v n,
  Inv wf_local e (SOneOf types ik field inlined) -> Inv (c01_local b) e (SOneOf types ik field inlined) ->
  unser (S f) e (SOneOf types ik field inlined) v = Ok n ->
  distinct_in words pu (S f) e (SOneOf types ik field inlined) v = true -> ints_in_range n = true ->
  (b = true -> any_clean n = true) ->
  exists w, rtf b e (SOneOf types ik field inlined) (S (S (2 * f))) n w.
Proof.
  intros f IH e types ik field inlined v n Hwf Hsc H Hdi Hr Hac. destruct b.
  - assert (IH' : forall e s v n, Inv wf_local e s -> Inv (c01_local true) e s -> unser f e s v = Ok n ->
               distinct_in words pu f e s v = true -> ints_in_range n = true -> any_clean n = true ->
               exists w, rtf true e s (2 * f) n w).
    { intros e0 s0 v0 n0 A B C D E G. apply (IH e0 s0 v0 n0 A B C D E). intros _. exact G. }
    exact (oneof_rtf words pu f IH' e types ik field inlined v n Hwf Hsc H Hdi Hr (Hac eq_refl)).
  - exfalso. pose proof (inv_here (c01_local false) e _ Hsc) as Hl. cbn in Hl. discriminate Hl.
Qed.

Theorem roundtrip_full oneofs e s f v n :
  wf_schema e s = true -> c01_scope oneofs e s = true ->
  distinct_in words pu f e s v = true -> unser f e s v = Ok n -> ints_in_range n = true ->
  (oneofs = true -> any_clean n = true) ->
  roundtrips_strong words pu e s n (2 * f).
Proof.
  intros Hwf Hsc Hdi H Hr Hac.
  unfold wf_schema in Hwf. apply andb_prop in Hwf. destruct Hwf as [W1 W2].
  unfold c01_scope in Hsc. apply andb_prop in Hsc. destruct Hsc as [S1 S2].
  destruct (rt_all words pu oneofs (oneof_case_all oneofs) f e s v n) as (w & Hw); try assumption; try (split; assumption).
  apply (rtf_conclusion oneofs e s (2 * f) n w Hw).
Qed.

Corollary roundtrip_full_wire oneofs e s f v n :
  wf_schema e s = true -> c01_scope oneofs e s = true ->
  distinct_in words pu f e s v = true -> unser f e s v = Ok n -> ints_in_range n = true ->
  (oneofs = true -> any_clean n = true) ->
  roundtrips words pu e s n (2 * f).
Proof.
  intros Hwf Hsc Hdi H Hr Hac. destruct (roundtrip_full oneofs e s f v n Hwf Hsc Hdi H Hr Hac) as (w & Hw & Hall).
  exists w. split; [apply swire_wire; exact Hw | exact Hall].
Qed.

End Thm.

Lemma swire_wire_decodable w : swire w = true -> wire w = true /\ decodable w.
Proof. intros H. split; [exact (swire_wire w H) | exact (swire_decodable w H)]. Qed.

(* ---------- the hypotheses are necessary ---------- *)
Definition c01_nopu : units -> string -> option fl := fun _ _ => None.
Definition c01_env0 : env := mkEnv [] [] (mkOracles (fun _ => None) (fun _ => true)).
Definition c01_prop (t : schema) : property := mkProp t None false [] [] [] None [] false false None.

Lemma never_valid words pu e s n :
  validate words pu 12 e s n <> Ok tt -> validate words pu 12 e s n <> OutOfFuel ->
  forall f', validate words pu f' e s n <> Ok tt.
Proof.
  intros H1 H2 f' Hv. destruct (Nat.le_ge_cases f' 12) as [Hle | Hle].
  - apply H1. apply (validate_mono words pu f' 12 e s n _ Hle Hv). discriminate.
  - pose proof (validate_mono words pu 12 f' e s n _ Hle eq_refl H2) as E. rewrite Hv in E. apply H1. symmetry. exact E.
Qed.

(* two raw keys that denote the same key (1 and "1" under integer keys, D19): the map Unserialize returns has one
   entry and fails the schema's minimum size - Validate rejects it at every fuel *)
Definition c01_coll_schema : schema := SMap (SInt None None None) (SInt None None None) (Some 2) None.
Definition c01_coll_raw : gval := VMap t_any_map false [(vi64 1, vi64 10); (vstr "1", vi64 20)].

Lemma roundtrip_collision_refuted :
  exists n, wf_schema c01_env0 c01_coll_schema = true /\ c01_scope false c01_env0 c01_coll_schema = true
    /\ unser [] c01_nopu 3 c01_env0 c01_coll_schema c01_coll_raw = Ok n /\ ints_in_range n = true
    /\ distinct_in [] c01_nopu 3 c01_env0 c01_coll_schema c01_coll_raw = false
    /\ forall f', validate [] c01_nopu f' c01_env0 c01_coll_schema n <> Ok tt.
Proof.
  eexists. split; [vm_compute; reflexivity|]. split; [vm_compute; reflexivity|]. split; [vm_compute; reflexivity|].
  split; [vm_compute; reflexivity|]. split; [vm_compute; reflexivity|].
  apply never_valid; vm_compute; discriminate.
Qed.

(* an `any` property of a one-of member holding a heterogeneous list: Unserialize accepts, but OneOf.Validate runs the
   member's ValidateCompatibility on the data, AnySchema's demands homogeneous lists - the unserialized value fails
   Validate (and Serialize) at every fuel.  Every other hypothesis of the theorem holds. *)
Definition c01_oa_schema : schema :=
  SOneOf [(KS "a", SObject "A" false [("x", c01_prop SAny)])] false "_type" false.
Definition c01_oa_raw : gval :=
  VMap t_str_map false [(vstr "_type", vstr "a"); (vstr "x", VSlice t_any_slice false [vi64 1; vstr "s"])].

Lemma roundtrip_oneof_any_refuted :
  exists n, wf_schema c01_env0 c01_oa_schema = true /\ c01_scope true c01_env0 c01_oa_schema = true
    /\ distinct_in [] c01_nopu 6 c01_env0 c01_oa_schema c01_oa_raw = true
    /\ unser [] c01_nopu 6 c01_env0 c01_oa_schema c01_oa_raw = Ok n /\ ints_in_range n = true
    /\ any_clean n = false
    /\ forall f', validate [] c01_nopu f' c01_env0 c01_oa_schema n <> Ok tt.
Proof.
  eexists. split; [vm_compute; reflexivity|]. split; [vm_compute; reflexivity|]. split; [vm_compute; reflexivity|].
  split; [vm_compute; reflexivity|]. split; [vm_compute; reflexivity|]. split; [vm_compute; reflexivity|].
  apply never_valid; vm_compute; discriminate.
Qed.

(* an INLINED discriminator typed as a named string enum: the member returns the discriminator as a value of the
   named type, which the one-of's own typed lookup (`.(string)`) does not accept - Validate rejects what Unserialize
   returned.  This is exactly the case c01_scope excludes (disc_plain); every other hypothesis holds. *)
Definition c01_inl_schema : schema :=
  SOneOf [(KS "a", SObject "A" false [("_type", c01_prop (SEnumStr (Some "Kind") [("a", None)]))])] false "_type" true.
Definition c01_inl_raw : gval := VMap t_str_map false [(vstr "_type", vstr "a")].

Lemma roundtrip_inlined_named_refuted :
  exists n, wf_schema c01_env0 c01_inl_schema = true /\ c01_scope true c01_env0 c01_inl_schema = false
    /\ distinct_in [] c01_nopu 6 c01_env0 c01_inl_schema c01_inl_raw = true
    /\ unser [] c01_nopu 6 c01_env0 c01_inl_schema c01_inl_raw = Ok n /\ ints_in_range n = true /\ any_clean n = true
    /\ forall f', validate [] c01_nopu f' c01_env0 c01_inl_schema n <> Ok tt.
Proof.
  eexists. split; [vm_compute; reflexivity|]. split; [vm_compute; reflexivity|]. split; [vm_compute; reflexivity|].
  split; [vm_compute; reflexivity|]. split; [vm_compute; reflexivity|]. split; [vm_compute; reflexivity|].
  apply never_valid; vm_compute; discriminate.
Qed.

(* ---------- non-vacuity ---------- *)
Definition c01_ex_words : list (string * bool) := [("yes", true)].
Definition c01_ex_schema : schema :=
  SScope [("root", SObject "root" false
             [("m", c01_prop (SMap (SString None None None) (SList (SInt None None None) None None) (Some 1) None));
              ("a", c01_prop SAny);
              ("r", c01_prop (SRef "leaf" "" None))]);
          ("leaf", SObject "leaf" false [("x", c01_prop SBool)])] "root".
Definition c01_ex_raw : gval :=
  VMap t_str_map false
    [(vstr "m", VMap t_any_map false [(vstr "k", VSlice t_any_slice false [VInt (TInt U64) 3; vstr "4"])]);
     (vstr "a", VSlice t_any_slice false [VInt (TInt I8) 1; vstr "s"; VMap t_str_map false [(vstr "q", vbool true)]]);
     (vstr "r", VMap t_str_map false [(vstr "x", vstr "yes")])].

Example roundtrip_full_example :
  exists n, unser c01_ex_words c01_nopu 8 c01_env0 c01_ex_schema c01_ex_raw = Ok n
            /\ roundtrips_strong c01_ex_words c01_nopu c01_env0 c01_ex_schema n 16.
Proof.
  eexists. split; [vm_compute; reflexivity|].
  apply (roundtrip_full c01_ex_words c01_nopu false c01_env0 c01_ex_schema 8 c01_ex_raw);
    try (vm_compute; reflexivity); intros C; discriminate C.
Qed.

Definition c01_ex1_schema : schema :=
  SOneOf [(KI 1, SObject "A" false [("x", c01_prop (SInt (Some 0) None None)); ("l", c01_prop SAny)]);
          (KI 2, SObject "B" false [])] true "kind" false.
Definition c01_ex1_raw : gval :=
  VMap t_str_map false [(vstr "kind", vstr "1"); (vstr "x", VInt (TInt U64) 5);
                        (vstr "l", VSlice t_any_slice false [VInt (TInt U8) 1; VInt (TInt U64) 2])].

(* an inlined string discriminator declared by the members (one through a reference into the scope), given as a number *)
Definition c01_ex2_schema : schema :=
  SScope [("root", SObject "root" false
             [("u", c01_prop (SOneOf [(KS "7", SRef "seven" "" None);
                                      (KS "x", SObject "X" false [("t", c01_prop (SString None None None))])]
                                     false "t" true))]);
          ("seven", SObject "seven" false [("t", c01_prop (SEnumStr None [("7", None)])); ("v", c01_prop (SFloat None None None))])]
         "root".
Definition c01_ex2_raw : gval :=
  VMap t_str_map false [(vstr "u", VMap t_str_map false [(vstr "t", VInt (TInt U64) 7); (vstr "v", VInt (TInt I64) (-2))])].

Example roundtrip_inlined_example :
  exists n, unser [] c01_nopu 9 c01_env0 c01_ex2_schema c01_ex2_raw = Ok n
            /\ roundtrips_strong [] c01_nopu c01_env0 c01_ex2_schema n 18.
Proof.
  eexists. split; [vm_compute; reflexivity|].
  apply (roundtrip_full [] c01_nopu true c01_env0 c01_ex2_schema 9 c01_ex2_raw);
    try (vm_compute; reflexivity); intros _; vm_compute; reflexivity.
Qed.

Example roundtrip_oneof_example :
  exists n, unser [] c01_nopu 8 c01_env0 c01_ex1_schema c01_ex1_raw = Ok n
            /\ roundtrips_strong [] c01_nopu c01_env0 c01_ex1_schema n 16.
Proof.
  eexists. split; [vm_compute; reflexivity|].
  apply (roundtrip_full [] c01_nopu true c01_env0 c01_ex1_schema 8 c01_ex1_raw);
    try (vm_compute; reflexivity); intros _; vm_compute; reflexivity.
Qed.
