(* Proofs/XInlineRefs.v — the mechanical inliner over xschema (the struct-mapped counterpart of Schema/Link.v
   inline_refs; what the harness family c14xinline does to a scope descriptor: every self-namespace reference to an
   object replaced by that object, n rounds deep, a stop list for recursive ids) produces an inlining in the sense of
   `xinlines_to` — unconditionally: it only replaces references whose target IS an object and leaves a table entry
   that is itself a bare reference alone —, hence (Proofs/XInlineEquiv.v) the scope and its inlined partner agree on
   every input in the SAME environment: what c14xinline compares. *)
From Coq Require Import Lia.
From Verif Require Import Base.Prelude Base.Str Base.Float Base.GoVal Base.XReflect
  Schema.Regex Schema.Units Schema.Syntax Schema.Ops Schema.XSyntax Schema.XOps
  Proofs.XInline Proofs.Link2Inline Proofs.XInlineStep Proofs.XInlineEquiv.
Open Scope string_scope.

Fixpoint xinline_refs (fuel : nat) (tab : xobjtab) (stop : list string) (s : xschema) {struct fuel} : xschema :=
  match fuel with
  | O => s
  | S f =>
    match s with
    | XList it mn mx => XList (xinline_refs f tab stop it) mn mx
    | XMap k v mn mx => XMap (xinline_refs f tab stop k) (xinline_refs f tab stop v) mn mx
    | XObject id u props m =>
        XObject id u (map (fun np : string * property_ xschema =>
                             (fst np, xwith_type (snd np) (xinline_refs f tab stop (p_type (snd np))))) props) m
    | XOneOf types ik fd inlx => XOneOf (map (fun km => (fst km, xinline_refs f tab stop (snd km))) types) ik fd inlx
    | XRef id ns d =>
        if String.eqb ns "" && negb (str_in id stop) then
          match alookup id tab with
          | Some o => if xi_isobj o then xinline_refs f tab stop o else s
          | None => s
          end
        else s
    | XScope objs root =>
        XScope (map (fun io : string * xschema =>
                       (fst io, if xnot_ref (snd io) then xinline_refs f objs stop (snd io) else snd io)) objs) root
    | _ => s
    end
  end.

Lemma xinline_refs_inlines : forall n e stop s, xinlines_to e s (xinline_refs n (xe_self e) stop s).
Proof.
  induction n as [|n IH]; intros e stop s; [apply xinl_refl|].
  destruct s; cbn [xinline_refs]; try (apply XI_leaf; reflexivity).
  - apply XI_list. apply IH.
  - apply XI_map; apply IH.
  - apply XI_obj. apply F2_map. intros np _. exists (xinline_refs n (xe_self e) stop (p_type (snd np))).
    split; [reflexivity|]. apply IH.
  - apply XI_oneof. apply F2_map. intros km _. split; [reflexivity|]. cbn [snd]. apply IH.
  - destruct (String.eqb ns "" && negb (str_in id stop)) eqn:E; [|apply XI_leaf; reflexivity].
    apply andb_prop in E. destruct E as [E _]. apply String.eqb_eq in E. subst ns.
    destruct (alookup id (xe_self e)) as [o|] eqn:Eo; [|apply XI_leaf; reflexivity].
    destruct (xi_isobj o) eqn:Eobj; [|apply XI_leaf; reflexivity].
    destruct o; try discriminate Eobj.
    assert (Hres : xresolve e id "" = Some (XObject id0 unenforced props mapped, e)).
    { unfold xresolve. cbn. rewrite Eo. reflexivity. }
    destruct (xinl_obj_inv _ _ _ _ _ _ (IH e stop (XObject id0 unenforced props mapped))) as (ps' & EX & HP).
    rewrite EX. eapply XI_ref; eauto.
  - apply XI_scope. apply F2_map. intros io _. split; [reflexivity|]. cbn [snd].
    destruct (xnot_ref (snd io)) eqn:En.
    + split; [apply (IH (xenv_enter e objs) stop (snd io)) | left; exact En].
    + split; [apply xinl_refl | right; reflexivity].
Qed.

Section XInlineRefs.
Variable words : list (string * bool).
Variable pu : units -> string -> option fl.

(* the statement the family c14xinline checks: same environment, same fuel, any number of rounds, any stop list *)
Theorem xinline_refs_equiv : forall e s n stop f v,
    (forall r, xunser words pu f e s v = r -> r <> OutOfFuel ->
               xunser words pu f e (xinline_refs n (xe_self e) stop s) v = r) /\
    (forall r, xvalidate words pu f e s v = r -> r <> OutOfFuel ->
               xvalidate words pu f e (xinline_refs n (xe_self e) stop s) v = r) /\
    (forall r, xserialize words pu f e s v = r -> r <> OutOfFuel ->
               xserialize words pu f e (xinline_refs n (xe_self e) stop s) v = r).
Proof.
  intros e s n stop f v.
  pose proof (xinline_refs_inlines n e stop s) as Hi. pose proof (xinl_env_refl e) as He.
  repeat split; intros r E Hr.
  - apply (proj1 (xinline_equiv_unser words pu e e _ _ He Hi f v r Hr) E).
  - apply (proj1 (xinline_equiv_validate words pu e e _ _ He Hi f v r Hr) E).
  - apply (proj1 (xinline_equiv_serialize words pu e e _ _ He Hi f v r Hr) E).
Qed.

(* and back: whatever the inlined schema returns, the original returns with twice the fuel *)
Theorem xinline_refs_equiv_back : forall e s n stop f v,
    (forall r, xunser words pu f e (xinline_refs n (xe_self e) stop s) v = r -> r <> OutOfFuel ->
               xunser words pu (2 * f) e s v = r) /\
    (forall r, xvalidate words pu f e (xinline_refs n (xe_self e) stop s) v = r -> r <> OutOfFuel ->
               xvalidate words pu (2 * f) e s v = r) /\
    (forall r, xserialize words pu f e (xinline_refs n (xe_self e) stop s) v = r -> r <> OutOfFuel ->
               xserialize words pu (2 * f) e s v = r).
Proof.
  intros e s n stop f v.
  pose proof (xinline_refs_inlines n e stop s) as Hi. pose proof (xinl_env_refl e) as He.
  repeat split; intros r E Hr.
  - apply (proj2 (xinline_equiv_unser words pu e e _ _ He Hi f v r Hr) E).
  - apply (proj2 (xinline_equiv_validate words pu e e _ _ He Hi f v r Hr) E).
  - apply (proj2 (xinline_equiv_serialize words pu e e _ _ He Hi f v r Hr) E).
Qed.
End XInlineRefs.
