(* Proofs/UnitsStringSpec.v — C16: an EXACT specification of ParseInt for definitions with plain
   names (no digit, no space, no point inside a name; different units share no name — the five
   built-in sets are such):  ParseInt s = n  IFF  the trimmed input is non-empty and is a
   tokenisation whose counts, products and partial sums are int64 and whose sum is n.
   "=>" is parse_sound; "<=" (every well-formed string is accepted, with the right number) is
   proved here: any two tokenisations of one string carry the same tokens (useq_det). *)
From Coq Require Import Lia ZArith List Arith Bool Permutation.
From Verif Require Import Base.Prelude Base.Str Schema.Regex Schema.Units Generated.Tables
  Proofs.UnitsArith Proofs.UnitsStringRe Proofs.UnitsStringTok Proofs.UnitsStringSound
  Proofs.UnitsStringRound Proofs.UnitsStringRT.
Import ListNotations.
Open Scope Z_scope.
Open Scope list_scope.

(* ================= character classes and runs ================= *)

Definition numchar (c : ascii) : bool := is_digit c || Ascii.eqb c "."%char.
Definition namechar (c : ascii) : bool := negb (is_digit c) && negb (is_re_space c) && negb (Ascii.eqb c "."%char).
Definition plain (l : list ascii) : bool := match l with [] => false | _ => forallb namechar l end.

Definition nohead (P : ascii -> bool) (l : list ascii) : Prop :=
  match l with [] => True | c :: _ => P c = false end.

Lemma run_eq : forall (P : ascii -> bool) a X b Y,
  forallb P a = true -> forallb P b = true -> nohead P X -> nohead P Y ->
  a ++ X = b ++ Y -> a = b /\ X = Y.
Proof.
  intros P. induction a as [|x a IH]; intros X b Y Fa Fb HX HY E.
  - destruct b as [|y b]; [split; [reflexivity | exact E]|].
    cbn [app] in E. subst X. cbn [nohead] in HX. cbn [forallb] in Fb. apply andb_prop in Fb. destruct Fb as [Fy _]. congruence.
  - cbn [forallb] in Fa. apply andb_prop in Fa. destruct Fa as [Fx Fa].
    destruct b as [|y b].
    + cbn [app] in E. subst Y. cbn [nohead] in HY. congruence.
    + cbn [app] in E. inversion E as [[Exy E']]. cbn [forallb] in Fb. apply andb_prop in Fb. destruct Fb as [_ Fb].
      destruct (IH X b Y Fa Fb HX HY E') as [E1 E2]. subst. split; reflexivity.
Qed.

Lemma spaces_app : forall a b, spaces (a ++ b) = spaces a && spaces b.
Proof. intros a b. unfold spaces. apply forallb_app. Qed.

Lemma space_not_num : forall c, is_re_space c = true -> numchar c = false.
Proof. intros [[] [] [] [] [] [] [] []] H; vm_compute in H; try discriminate; reflexivity. Qed.

Lemma namechar_inv : forall c, namechar c = true -> is_digit c = false /\ is_re_space c = false /\ numchar c = false.
Proof.
  intros c H. unfold namechar in H. apply andb_prop in H. destruct H as [H H3]. apply andb_prop in H. destruct H as [H1 H2].
  apply negb_true_iff in H1, H2, H3. unfold numchar. rewrite H1, H3. auto.
Qed.

Lemma dig_or_space_not_name : forall c, dig_or_space c = true -> namechar c = false.
Proof.
  intros c H. unfold dig_or_space in H. unfold namechar. apply orb_prop in H. destruct H as [H|H]; rewrite H; cbn [negb andb]; [reflexivity|].
  rewrite andb_false_r. reflexivity.
Qed.

Lemma plain_inv : forall l, plain l = true -> l <> [] /\ forallb namechar l = true.
Proof. intros [|c l] H; [discriminate|]. split; [discriminate | exact H]. Qed.

Lemma all_digits_numchars : forall l, all_digits l = true -> forallb numchar l = true.
Proof.
  induction l as [|c l IH]; intro H; [reflexivity|]. cbn [all_digits] in H. apply andb_prop in H. destruct H as [D F].
  cbn [forallb]. unfold numchar at 1. rewrite D, (IH F). reflexivity.
Qed.

Lemma utoken_numchars : forall fr tok, utoken fr tok -> forallb numchar tok = true.
Proof.
  intros fr tok U. destruct U as [fr ds N F | ds fs N F N' F'].
  - apply all_digits_numchars. exact F.
  - rewrite forallb_app. cbn [forallb]. rewrite (all_digits_numchars _ F), (all_digits_numchars _ F'). reflexivity.
Qed.

Lemma utoken_not_spaces : forall fr tok z rest, utoken fr tok -> spaces (z ++ tok ++ rest) = false.
Proof.
  intros fr tok z rest U. destruct (utoken_head _ _ U) as (c & t & E & D). subst tok.
  rewrite spaces_app. cbn [app]. unfold spaces at 2. cbn [forallb].
  destruct (digit_not_space c D) as [S _]. rewrite S. cbn [andb]. apply andb_false_r.
Qed.

(* ================= two readings of the same token-name pair ================= *)

Lemma pair_analysis : forall frA tokA spA nmA tlA frB tokB spB nmB tlB,
  utoken frA tokA -> utoken frB tokB -> spaces spA = true -> spaces spB = true ->
  (nmA = [] \/ plain nmA = true) -> (nmB = [] \/ plain nmB = true) ->
  (nmA = [] -> spaces tlA = true) -> (nmB = [] -> spaces tlB = true) ->
  head_is dig_or_space tlA -> head_is dig_or_space tlB ->
  tokA ++ spA ++ nmA ++ tlA = tokB ++ spB ++ nmB ++ tlB ->
  tokA = tokB /\ nmA = nmB /\ (nmA <> [] -> tlA = tlB).
Proof.
  intros frA tokA spA nmA tlA frB tokB spB nmB tlB UA UB FA FB HA HB BA BB TA TB E.
  assert (NH : forall sp nm tl, spaces sp = true -> (nm = [] \/ plain nm = true) -> (nm = [] -> spaces tl = true) ->
                nohead numchar (sp ++ nm ++ tl)).
  { intros sp nm tl F H B. destruct sp as [|c sp0].
    - cbn [app]. destruct H as [H|H].
      + subst nm. cbn [app]. specialize (B eq_refl). destruct tl as [|c tl0]; [exact I|].
        apply spaces_cons in B. destruct B as [B _]. cbn [nohead]. apply space_not_num. exact B.
      + destruct (plain_inv _ H) as [N Fn]. destruct nm as [|c nm0]; [congruence|].
        cbn [forallb] in Fn. apply andb_prop in Fn. destruct Fn as [Fc _]. cbn [app nohead]. apply (namechar_inv c Fc).
    - apply spaces_cons in F. destruct F as [F _]. cbn [app nohead]. apply space_not_num. exact F. }
  destruct (run_eq numchar tokA _ tokB _ (utoken_numchars _ _ UA) (utoken_numchars _ _ UB)
              (NH spA nmA tlA FA HA BA) (NH spB nmB tlB FB HB BB) E) as [E1 E2].
  split; [exact E1|].
  destruct HA as [HA|HA]; destruct HB as [HB|HB].
  - subst. split; [reflexivity | intro N; congruence].
  - exfalso. subst nmA. cbn [app] in E2. specialize (BA eq_refl).
    assert (S1 : spaces (spA ++ tlA) = true) by (rewrite spaces_app, FA, BA; reflexivity).
    rewrite E2 in S1. destruct (plain_inv _ HB) as [N Fn]. destruct nmB as [|c nm0]; [congruence|].
    cbn [forallb] in Fn. apply andb_prop in Fn. destruct Fn as [Fc _]. destruct (namechar_inv c Fc) as (_ & Sc & _).
    rewrite spaces_app in S1. cbn [app] in S1. unfold spaces at 2 in S1. cbn [forallb] in S1. rewrite Sc in S1.
    cbn [andb] in S1. rewrite andb_false_r in S1. discriminate.
  - exfalso. subst nmB. cbn [app] in E2. specialize (BB eq_refl).
    assert (S1 : spaces (spB ++ tlB) = true) by (rewrite spaces_app, FB, BB; reflexivity).
    rewrite <- E2 in S1. destruct (plain_inv _ HA) as [N Fn]. destruct nmA as [|c nm0]; [congruence|].
    cbn [forallb] in Fn. apply andb_prop in Fn. destruct Fn as [Fc _]. destruct (namechar_inv c Fc) as (_ & Sc & _).
    rewrite spaces_app in S1. cbn [app] in S1. unfold spaces at 2 in S1. cbn [forallb] in S1. rewrite Sc in S1.
    cbn [andb] in S1. rewrite andb_false_r in S1. discriminate.
  - destruct (plain_inv _ HA) as [NA FnA]. destruct (plain_inv _ HB) as [NB FnB].
    assert (NS : forall nm tl, nm <> [] -> forallb namechar nm = true -> nohead is_re_space (nm ++ tl)).
    { intros nm tl N Fn. destruct nm as [|c nm0]; [congruence|]. cbn [forallb] in Fn. apply andb_prop in Fn. destruct Fn as [Fc _].
      cbn [app nohead]. apply (namechar_inv c Fc). }
    destruct (run_eq is_re_space spA _ spB _ FA FB (NS nmA tlA NA FnA) (NS nmB tlB NB FnB) E2) as [E3 E4].
    assert (NT : forall tl, head_is dig_or_space tl -> nohead namechar tl).
    { intros tl H. destruct tl as [|c tl0]; [exact I|]. cbn [head_is] in H. cbn [nohead]. apply dig_or_space_not_name. exact H. }
    destruct (run_eq namechar nmA tlA nmB tlB FnA FnB (NT tlA TA) (NT tlB TB) E4) as [E5 E6].
    split; [exact E5 | intros _; exact E6].
Qed.

(* ================= definitions with plain names ================= *)

Record plain_good (G : list upart) : Prop := mkPlainGood {
  pg_plain : forall p x, In p G -> In x (pnames p) -> x <> ""%string -> plain (chars x) = true;
  pg_func : forall p q x, In p G -> In q G -> In x (pnames p) -> In x (pnames q) -> x <> ""%string ->
             upart_key p = upart_key q }.

Definition names_plain (u : units) : bool :=
  forallb (fun x => plain (chars x)) (all_names u)
  && forallb (fun kd1 => forallb (fun kd2 => (fst kd1 =? fst kd2) || negb (share_name (snd kd1) (snd kd2))) (keyed u)) (keyed u).

Lemma plain_good_of : forall u, names_plain u = true -> plain_good (uparts u).
Proof.
  intros u H. unfold names_plain in H. apply andb_prop in H. destruct H as [H1 H3].
  rewrite forallb_forall in H1, H3. constructor.
  - intros p x Ip Ix Nx. destruct (upart_in u p Ip) as (kd & Ik & _ & Sub).
    apply H1. apply (in_all_names u kd x Ik (Sub x Ix Nx)).
  - intros p q x Ip Iq Ix Ix' Nx.
    destruct (upart_in u p Ip) as (kd & Ik & Ek & Sub). destruct (upart_in u q Iq) as (kd' & Ik' & Ek' & Sub').
    specialize (H3 kd Ik). rewrite forallb_forall in H3. specialize (H3 kd' Ik').
    rewrite Ek, Ek'. apply orb_prop in H3. destruct H3 as [H3|H3]; [apply Z.eqb_eq; exact H3|].
    exfalso. apply negb_true_iff in H3. unfold share_name in H3.
    assert (T : existsb (fun x0 => str_in x0 (unit_names (snd kd'))) (unit_names (snd kd)) = true).
    { apply existsb_exists. exists x. split; [apply Sub; assumption | apply str_in_In; apply Sub'; assumption]. }
    congruence.
Qed.

Lemma name_side : forall G, plain_good G -> forall p nm, In p G -> In nm (pnames p) ->
  chars nm = [] \/ plain (chars nm) = true.
Proof.
  intros G PG p nm Ip Inm. destruct (string_dec nm ""%string) as [E|E]; [left; subst; reflexivity | right].
  eapply pg_plain; eassumption.
Qed.

Lemma bare_tail : forall k fr nms ps nm s toks, bare_last ((k, fr, nms) :: ps) -> In nm nms -> chars nm = [] ->
  useq ps s toks -> ps = [] /\ s = [] /\ toks = [].
Proof.
  intros k fr nms ps nm s toks BL I E U. apply chars_nil in E. subst nm. destruct BL as [B _].
  destruct ps as [|q ps']; [|exfalso; apply (B ltac:(discriminate)); exact I].
  apply useq_nil_inv in U. destruct U as [E1 E2]. auto.
Qed.

Lemma tail_head : forall ps sp s toks, spaces sp = true -> useq ps s toks -> head_is dig_or_space (sp ++ s).
Proof.
  intros ps sp s toks F U. destruct sp as [|c sp0]; [exact (useq_head _ _ _ U)|].
  cbn [app head_is]. apply spaces_cons in F. destruct F as [Fc _]. unfold dig_or_space. rewrite Fc. apply orb_true_r.
Qed.

(* a token-name pair of a unit that is not among the remaining parts cannot be read by them *)
Lemma no_later2 : forall G, plain_good G -> forall ps, incl ps G -> bare_last ps ->
  forall p0 nm, In p0 G -> In nm (pnames p0) -> nm <> ""%string -> ~ In (upart_key p0) (map upart_key ps) ->
  forall fr tok sp' tl z1 z2 s toks, utoken fr tok -> spaces sp' = true -> head_is dig_or_space tl ->
  spaces z1 = true -> spaces z2 = true ->
  z1 ++ tok ++ sp' ++ chars nm ++ tl = z2 ++ s -> useq ps s toks -> False.
Proof.
  intros G PG ps. induction ps as [|q ps IH]; intros Ips BL p0 nm I0 In0 Nn NK fr tok sp' tl z1 z2 s toks Ut Fs' Ht F1 F2 E U.
  - apply useq_nil_inv in U. destruct U as [Es _]. subst s. rewrite app_nil_r in E.
    pose proof (utoken_not_spaces fr tok z1 (sp' ++ chars nm ++ tl) Ut) as S. rewrite E in S. congruence.
  - destruct q as [[k frq] nms]. apply useq_cons_inv in U.
    destruct U as (seg & tokq & sp & s1 & toks1 & Es & Et & Us & Fs & U). subst s toks.
    assert (Iq : In (k, frq, nms) G) by (apply Ips; left; reflexivity).
    assert (Ips' : incl ps G) by (intros r Ir; apply Ips; right; exact Ir).
    destruct Us as [|tokq sq' nmq Utq Fsq' Inq].
    + cbn [app] in E. destruct BL as [_ BL'].
      apply (IH Ips' BL' p0 nm I0 In0 Nn ltac:(intro I; apply NK; right; exact I) fr tok sp' tl z1 (z2 ++ sp) s1 toks1 Ut Fs' Ht F1);
        [rewrite spaces_app, F2, Fs; reflexivity | rewrite <- app_assoc; exact E | exact U].
    + rewrite <- !app_assoc in E.
      assert (ND : forall t r, utoken fr t -> nohead is_re_space (t ++ r)).
      { intros t r Ht'. destruct (utoken_head _ _ Ht') as (c & t0 & Ec & Dc). subst t. cbn [app nohead]. apply (digit_not_space c Dc). }
      assert (NDq : nohead is_re_space (tokq ++ sq' ++ chars nmq ++ sp ++ s1)).
      { destruct (utoken_head _ _ Utq) as (c & t0 & Ec & Dc). subst tokq. cbn [app nohead]. apply (digit_not_space c Dc). }
      destruct (run_eq is_re_space z1 _ z2 _ F1 F2 (ND tok _ Ut) NDq E) as [_ E2].
      destruct (pair_analysis fr tok sp' (chars nm) tl frq tokq sq' (chars nmq) (sp ++ s1) Ut Utq Fs' Fsq'
                  (name_side G PG p0 nm I0 In0) (name_side G PG _ nmq Iq Inq)) as (_ & En & _); try assumption.
      * intro E0. apply chars_nil in E0. congruence.
      * intro E0. destruct (bare_tail k frq nms ps nmq s1 toks1 BL Inq E0 U) as (_ & Es1 & _). subst s1. rewrite app_nil_r. exact Fs.
      * apply (tail_head ps sp s1 toks1 Fs U).
      * apply chars_inj in En. subst nmq. apply NK. left.
        symmetry. apply (pg_func G PG p0 (k, frq, nms) nm I0 Iq In0 Inq Nn).
Qed.

(* DETERMINACY: two tokenisations of the same string (up to leading spaces) carry the same tokens *)
Lemma useq_det : forall G, plain_good G -> forall ps, incl ps G -> NoDup (map upart_key ps) -> bare_last ps ->
  forall zA zB sA sB tA tB, spaces zA = true -> spaces zB = true -> zA ++ sA = zB ++ sB ->
  useq ps sA tA -> useq ps sB tB -> tA = tB.
Proof.
  intros G PG ps. induction ps as [|p ps IH]; intros Ips ND BL zA zB sA sB tA tB FA FB E UA UB.
  - apply useq_nil_inv in UA. apply useq_nil_inv in UB. destruct UA as [_ EA]. destruct UB as [_ EB]. subst. reflexivity.
  - destruct p as [[k fr] nms]. apply useq_cons_inv in UA. apply useq_cons_inv in UB.
    destruct UA as (segA & tokA & spA & sA' & tA' & EA & ETA & UsA & FsA & UA).
    destruct UB as (segB & tokB & spB & sB' & tB' & EB & ETB & UsB & FsB & UB). subst sA sB tA tB.
    assert (Ip : In (k, fr, nms) G) by (apply Ips; left; reflexivity).
    assert (Ips' : incl ps G) by (intros r Ir; apply Ips; right; exact Ir).
    cbn [map] in ND. inversion ND as [|? ? NK ND']; subst.
    pose proof BL as BL0. destruct BL as [_ BL'].
    destruct UsA as [|tokA spA' nmA UtA FsA' InA]; destruct UsB as [|tokB spB' nmB UtB FsB' InB].
    + f_equal. cbn [app] in E.
      apply (IH Ips' ND' BL' (zA ++ spA) (zB ++ spB) sA' sB');
        [rewrite spaces_app, FA, FsA; reflexivity | rewrite spaces_app, FB, FsB; reflexivity
         | rewrite <- !app_assoc; exact E | exact UA | exact UB].
    + exfalso. cbn [app] in E. rewrite <- !app_assoc in E.
      destruct (string_dec nmB ""%string) as [E0|E0].
      * subst nmB. destruct (bare_tail k fr nms ps ""%string sA' tA' BL0 InB eq_refl UA) as (_ & Es & _). subst sA'.
        rewrite app_nil_r in E.
        pose proof (utoken_not_spaces fr tokB zB (spB' ++ chars "" ++ spB ++ sB') UtB) as S. rewrite <- E in S.
        rewrite spaces_app, FA, FsA in S. discriminate.
      * apply (no_later2 G PG ps Ips' BL' (k, fr, nms) nmB Ip InB E0 NK fr tokB spB' (spB ++ sB') zB (zA ++ spA) sA' tA'
                 UtB FsB' (tail_head ps spB sB' tB' FsB UB) FB);
          [rewrite spaces_app, FA, FsA; reflexivity | rewrite <- app_assoc; symmetry; exact E | exact UA].
    + exfalso. cbn [app] in E. rewrite <- !app_assoc in E.
      destruct (string_dec nmA ""%string) as [E0|E0].
      * subst nmA. destruct (bare_tail k fr nms ps ""%string sB' tB' BL0 InA eq_refl UB) as (_ & Es & _). subst sB'.
        rewrite app_nil_r in E.
        pose proof (utoken_not_spaces fr tokA zA (spA' ++ chars "" ++ spA ++ sA') UtA) as S. rewrite E in S.
        rewrite spaces_app, FB, FsB in S. discriminate.
      * apply (no_later2 G PG ps Ips' BL' (k, fr, nms) nmA Ip InA E0 NK fr tokA spA' (spA ++ sA') zA (zB ++ spB) sB' tB'
                 UtA FsA' (tail_head ps spA sA' tA' FsA UA) FA);
          [rewrite spaces_app, FB, FsB; reflexivity | rewrite <- app_assoc; exact E | exact UB].
    + rewrite <- !app_assoc in E.
      assert (NDA : nohead is_re_space (tokA ++ spA' ++ chars nmA ++ spA ++ sA')).
      { destruct (utoken_head _ _ UtA) as (c & t0 & Ec & Dc). subst tokA. cbn [app nohead]. apply (digit_not_space c Dc). }
      assert (NDB : nohead is_re_space (tokB ++ spB' ++ chars nmB ++ spB ++ sB')).
      { destruct (utoken_head _ _ UtB) as (c & t0 & Ec & Dc). subst tokB. cbn [app nohead]. apply (digit_not_space c Dc). }
      destruct (run_eq is_re_space zA _ zB _ FA FB NDA NDB E) as [_ E2].
      destruct (pair_analysis fr tokA spA' (chars nmA) (spA ++ sA') fr tokB spB' (chars nmB) (spB ++ sB') UtA UtB FsA' FsB'
                  (name_side G PG _ nmA Ip InA) (name_side G PG _ nmB Ip InB)) as (Et & En & Etl); try assumption.
      * intro E0. destruct (bare_tail k fr nms ps nmA sA' tA' BL0 InA E0 UA) as (_ & Es & _). subst sA'. rewrite app_nil_r. exact FsA.
      * intro E0. destruct (bare_tail k fr nms ps nmB sB' tB' BL0 InB E0 UB) as (_ & Es & _). subst sB'. rewrite app_nil_r. exact FsB.
      * apply (tail_head ps spA sA' tA' FsA UA).
      * apply (tail_head ps spB sB' tB' FsB UB).
      * subst tokB. f_equal.
        destruct (chars nmA) as [|c0 r0] eqn:Ec.
        -- destruct (bare_tail k fr nms ps nmA sA' tA' BL0 InA Ec UA) as (_ & _ & ETA).
           symmetry in En. destruct (bare_tail k fr nms ps nmB sB' tB' BL0 InB En UB) as (_ & _ & ETB). subst. reflexivity.
        -- apply (IH Ips' ND' BL' spA spB sA' sB' tA' tB' FsA FsB (Etl ltac:(discriminate)) UA UB).
Qed.

(* ================= the accumulator on arbitrary integer tokens ================= *)

Lemma acc_complete_toks : forall toks keys a,
  Forall int_tok toks -> List.length toks = List.length keys -> in_i64 a = true ->
  (forall k, in_i64 (a + dot (firstn k (map tok_count toks)) keys) = true) ->
  Forall (fun cm => in_i64 (fst cm) = true /\ in_i64 (fst cm * snd cm) = true) (combine (map tok_count toks) keys) ->
  fold_left (fun acc tm => accumulate_tok acc (fst tm) (snd tm)) (combine toks keys) (Some a)
  = Some (a + dot (map tok_count toks) keys).
Proof.
  induction toks as [|tok toks IH]; intros keys a F L Ha P Q.
  - cbn. f_equal; lia.
  - destruct keys as [|m keys]; [discriminate|]. inversion F as [|? ? Ft F']; subst.
    cbn [List.length] in L. cbn [map combine] in Q. inversion Q as [|? ? Q1 Q']; subst. cbn [fst snd] in Q1. destruct Q1 as [Qc Qp].
    cbn [combine fold_left fst snd map dot].
    assert (P1 : in_i64 (a + tok_count tok * m) = true).
    { specialize (P 1%nat). cbn [firstn map dot] in P. rewrite Z.add_0_r in P. exact P. }
    assert (P' : forall k, in_i64 (a + tok_count tok * m + dot (firstn k (map tok_count toks)) keys) = true).
    { intro k. specialize (P (S k)). cbn [firstn map dot] in P. rewrite Z.add_assoc in P. exact P. }
    destruct Ft as [E|[N D]].
    + subst tok. cbn [accumulate_tok]. cbn [tok_count] in P' |- *.
      rewrite (IH keys a F' ltac:(lia) Ha) by (try assumption; intro k; specialize (P' k); rewrite Z.mul_0_l, Z.add_0_r in P'; exact P').
      f_equal; lia.
    + unfold accumulate_tok at 2. destruct tok as [|c t]; [congruence|].
      change (tok_count (c :: t)) with (digits_val (c :: t)) in *.
      rewrite (parse_int_digits (c :: t) N D), Qc, Qp, P1. cbn [andb].
      rewrite (IH keys _ F' ltac:(lia) P1 P' Q'). f_equal; lia.
Qed.

(* ================= completeness and the exact specification ================= *)

Definition in_range (u : units) (toks : list (list ascii)) : Prop :=
  (forall k, in_i64 (dot (firstn k (map tok_count toks)) (units_keys u)) = true)
  /\ Forall (fun cm => in_i64 (fst cm) = true /\ in_i64 (fst cm * snd cm) = true) (combine (map tok_count toks) (units_keys u)).

Theorem parse_complete : forall u s toks,
  wf_units u = true -> names_plain u = true -> chars (trim_space s) <> [] ->
  tokenisation u (chars (trim_space s)) toks -> in_range u toks ->
  parse_units_int u s = Some (dot (map tok_count toks) (units_keys u)).
Proof.
  intros u s toks W NP Nd (sp0 & body & Ed & F0 & U & IT) (P & Q).
  pose proof (plain_good_of u NP) as PG.
  assert (Lk : List.length toks = List.length (units_keys u)).
  { rewrite (useq_length _ _ _ U). unfold units_keys. rewrite <- uparts_keys, map_length. reflexivity. }
  destruct (re_match_at (units_re u) (List.length (chars (trim_space s))) (chars (trim_space s))) as [cs|] eqn:Em.
  2:{ exfalso. rewrite Ed in Em. apply (units_match_exists u sp0 body toks F0 U). exact Em. }
  pose proof Em as Em'. apply units_match_sound in Em'. destruct Em' as (sp0' & body' & toks' & E0 & F0' & U0 & Ec0).
  assert (Etoks : toks' = toks).
  { apply (useq_det (uparts u) PG (uparts u) (incl_refl _)) with (zA := sp0') (zB := sp0) (sA := body') (sB := body);
      try assumption.
    - rewrite uparts_keys. apply units_keys_nodup. exact W.
    - apply bare_last_uparts. exact W.
    - rewrite <- E0, <- Ed. reflexivity. }
  subst toks'. rewrite uparts_keys in Ec0. fold (units_keys u) in Ec0.
  apply (parse_units_int_intro u s _ cs Nd Em).
  - subst cs. rewrite (model_toks_eq u _ W Lk).
    clear -IT Lk. revert Lk. generalize (units_keys u) as keys. induction IT as [|tok toks Ht IT IH]; intros keys Lk; [reflexivity|].
    destruct keys as [|m keys]; [reflexivity|]. cbn [combine existsb fst]. cbn [List.length] in Lk.
    rewrite (IH keys ltac:(lia)), orb_false_r. destruct Ht as [E|[N D]]; [subst; reflexivity | apply all_digits_no_dot; exact D].
  - subst cs. rewrite (model_toks_eq u _ W Lk).
    rewrite (acc_complete_toks toks (units_keys u) 0 IT Lk eq_refl) by (try assumption; intro k; rewrite Z.add_0_l; apply P).
    rewrite Z.add_0_l. reflexivity.
Qed.

(* ParseInt, exactly: for a definition with plain names the parser accepts precisely the
   tokenisations whose arithmetic stays inside int64, and returns their sum *)
Theorem parse_spec : forall u s n, wf_units u = true -> names_plain u = true ->
  (parse_units_int u s = Some n
   <-> chars (trim_space s) <> []
       /\ exists toks, tokenisation u (chars (trim_space s)) toks /\ in_range u toks
                       /\ n = dot (map tok_count toks) (units_keys u)).
Proof.
  intros u s n W NP. split.
  - intro H. split.
    + apply parse_units_int_inv in H. destruct H as (cs & N & _). exact N.
    + destruct (parse_sound u s n W H) as (toks & T & En & P & Q & _). exists toks. repeat split; assumption.
  - intros (N & toks & T & R & En). subst n. apply parse_complete; assumption.
Qed.

Lemma builtin_plain : forallb (fun u => wf_units u && names_plain u) builtin_units = true.
Proof. vm_compute. reflexivity. Qed.

Theorem builtin_parse_spec : forall u s n, In u builtin_units ->
  (parse_units_int u s = Some n
   <-> chars (trim_space s) <> []
       /\ exists toks, tokenisation u (chars (trim_space s)) toks /\ in_range u toks
                       /\ n = dot (map tok_count toks) (units_keys u)).
Proof.
  intros u s n I. pose proof builtin_plain as H. rewrite forallb_forall in H. specialize (H u I).
  apply andb_prop in H. destruct H as [W NP]. apply parse_spec; assumption.
Qed.
