(* Proofs/Step.v — lemmas about Call/Step.v for Properties/C11.v. *)
From Coq Require Import List ZArith NArith Bool String Lia.
From Verif Require Import Base.Prelude Base.Str Base.Float Base.GoVal
  Schema.Regex Schema.Units Schema.Syntax Schema.Ops ATP.Msg Call.Step.
Import ListNotations.
Open Scope list_scope.

Definition res_of {A B C} (x : A * B * C) : A := fst (fst x).
Definition log_of {A B C} (x : A * B * C) : B := snd (fst x).
Definition state_of {A B C} (x : A * B * C) : C := snd x.

(* ---------- association lists ---------- *)
Lemma alookup_In : forall A k (l : list (string * A)) v, alookup k l = Some v -> In (k, v) l.
Proof.
  induction l as [|[k' v'] t IH]; simpl; intros v H; [discriminate|].
  destruct (String.eqb k k') eqn:E.
  - apply String.eqb_eq in E. inversion H; subst. left; reflexivity.
  - right; auto.
Qed.

Lemma alookup_None_notin : forall A k (l : list (string * A)), alookup k l = None -> ~ In k (map fst l).
Proof.
  induction l as [|[k' v'] t IH]; simpl; intros H; [tauto|].
  destruct (String.eqb k k') eqn:E; [discriminate|].
  apply String.eqb_neq in E. intros [H1|H1]; [congruence|]. exact (IH H H1).
Qed.

Lemma alookup_notin_None : forall A k (l : list (string * A)), ~ In k (map fst l) -> alookup k l = None.
Proof.
  induction l as [|[k' v'] t IH]; simpl; intros H; [reflexivity|].
  destruct (String.eqb k k') eqn:E.
  - apply String.eqb_eq in E. subst. exfalso; apply H; left; reflexivity.
  - apply IH. intros H1; apply H; right; exact H1.
Qed.

Lemma alookup_Some_in_keys : forall A k (l : list (string * A)) v, alookup k l = Some v -> In k (map fst l).
Proof. intros A k l v H. apply alookup_In in H. apply (in_map fst) in H. exact H. Qed.

(* ---------- setupStepData ---------- *)
Definition tab_inv (hi : bool) (t : sd_table) : Prop :=
  NoDup (map fst (t_entries t)) /\
  (hi = true -> (forall r d, In (r, d) (t_entries t) -> exists k, d = Some k /\ (k < t_inits t)%N)
                /\ NoDup (map snd (t_entries t))
                /\ N.of_nat (List.length (t_entries t)) = t_inits t) /\
  (hi = false -> t_inits t = 0%N /\ forall r d, In (r, d) (t_entries t) -> d = None).

Lemma tab_inv_empty : forall hi, tab_inv hi tab_empty.
Proof.
  intros hi. unfold tab_inv, tab_empty; simpl. split; [constructor|]. split; intros _.
  - split; [intros r d []|]. split; [constructor|reflexivity].
  - split; [reflexivity|intros r d []].
Qed.

Lemma setup_found : forall hi run t d, alookup run (t_entries t) = Some d -> setup_step_data hi run t = (t, d).
Proof. intros hi run t d H. unfold setup_step_data. rewrite H. reflexivity. Qed.

Lemma setup_spec : forall hi run t t' d,
  tab_inv hi t -> setup_step_data hi run t = (t', d) ->
  tab_inv hi t' /\ alookup run (t_entries t') = Some d /\
  (forall r x, alookup r (t_entries t) = Some x -> alookup r (t_entries t') = Some x) /\
  (forall r, r <> run -> alookup r (t_entries t') = alookup r (t_entries t)) /\
  (t_inits t' = if hi then (match alookup run (t_entries t) with Some _ => t_inits t | None => N.succ (t_inits t) end)
                else t_inits t).
Proof.
  intros hi run t t' d Hinv Hs. unfold setup_step_data in Hs.
  destruct (alookup run (t_entries t)) as [d0|] eqn:E.
  - inversion Hs; subst. split; [exact Hinv|]. split; [exact E|]. split; [auto|]. split; [auto|].
    destruct hi; reflexivity.
  - destruct Hinv as [Hnd [Ht Hf]]. pose proof (alookup_None_notin _ _ _ E) as Hnotin.
    destruct hi; inversion Hs; subst; clear Hs; simpl.
    + destruct (Ht eq_refl) as [Hk [Hnd2 Hlen]].
      assert (Hlen' : N.of_nat (List.length ((run, Some (t_inits t)) :: t_entries t)) = N.succ (t_inits t))
        by (cbn [List.length]; rewrite Nat2N.inj_succ; f_equal; exact Hlen).
      split; [|split; [|split; [|split]]].
      * unfold tab_inv; simpl. split; [constructor; assumption|]. split; [|intros Hc; discriminate].
        intros _. split; [|split].
        -- intros r d [H|H].
           ++ inversion H; subst. exists (t_inits t). split; [reflexivity|lia].
           ++ destruct (Hk _ _ H) as [k [-> Hlt]]. exists k. split; [reflexivity|lia].
        -- constructor; [|assumption]. intros Hin. apply in_map_iff in Hin. destruct Hin as [[r d] [Hd Hin]].
           simpl in Hd. subst d. destruct (Hk _ _ Hin) as [k [Hk1 Hk2]]. inversion Hk1; subst. lia.
        -- exact Hlen'.
      * rewrite String.eqb_refl. reflexivity.
      * intros r x Hr. destruct (String.eqb r run) eqn:Er; [|exact Hr].
        apply String.eqb_eq in Er. subst. congruence.
      * intros r Hr. apply String.eqb_neq in Hr. rewrite Hr. reflexivity.
      * reflexivity.
    + destruct (Hf eq_refl) as [H0 Hnone].
      split; [|split; [|split; [|split]]].
      * unfold tab_inv; simpl. split; [constructor; assumption|]. split; [intros Hc; discriminate|].
        intros _. split; [exact H0|]. intros r d [H|H]; [inversion H; reflexivity|eauto].
      * rewrite String.eqb_refl. reflexivity.
      * intros r x Hr. destruct (String.eqb r run) eqn:Er; [|exact Hr].
        apply String.eqb_eq in Er. subst. congruence.
      * intros r Hr. apply String.eqb_neq in Hr. rewrite Hr. reflexivity.
      * reflexivity.
Qed.

(* ---------- the table of tables ---------- *)
Lemma alookup_tab_set_same : forall sid t ps, alookup sid (tab_set sid t ps) = Some t.
Proof.
  induction ps as [|[k v] r IH]; simpl.
  - rewrite String.eqb_refl. reflexivity.
  - destruct (String.eqb sid k) eqn:E; simpl; rewrite E; [reflexivity|exact IH].
Qed.

Lemma alookup_tab_set_other : forall sid sid' t ps, sid' <> sid -> alookup sid' (tab_set sid t ps) = alookup sid' ps.
Proof.
  intros sid sid' t ps Hne. induction ps as [|[k v] r IH]; simpl.
  - apply String.eqb_neq in Hne. rewrite Hne. reflexivity.
  - destruct (String.eqb sid k) eqn:E; simpl.
    + apply String.eqb_eq in E. subst k. apply String.eqb_neq in Hne. rewrite Hne. reflexivity.
    + destruct (String.eqb sid' k); [reflexivity|exact IH].
Qed.

Lemma tab_of_set_same : forall sid t ps, tab_of (tab_set sid t ps) sid = t.
Proof. intros. unfold tab_of. rewrite alookup_tab_set_same. reflexivity. Qed.
Lemma tab_of_set_other : forall sid sid' t ps, sid' <> sid -> tab_of (tab_set sid t ps) sid' = tab_of ps sid'.
Proof. intros. unfold tab_of. rewrite alookup_tab_set_other by assumption. reflexivity. Qed.

Definition log_key (en : log_entry) : stepid * runid * sdata :=
  match en with LStep s r d _ => (s, r, d) | LSignal s _ r d _ => (s, r, d) end.
Definition lk_step (en : log_entry) : stepid := fst (fst (log_key en)).
Definition lk_run (en : log_entry) : runid := snd (fst (log_key en)).
Definition lk_data (en : log_entry) : sdata := snd (log_key en).

Definition ps_inv (p : plugin) (ps : pstate) : Prop :=
  forall sid st, alookup sid p = Some st -> tab_inv (sd_has_init st) (tab_of ps sid).
Definition ps_grows (ps ps' : pstate) : Prop :=
  forall s r d, alookup r (t_entries (tab_of ps s)) = Some d -> alookup r (t_entries (tab_of ps' s)) = Some d.
Definition log_ok (ps : pstate) (l : list log_entry) : Prop :=
  forall en, In en l -> alookup (lk_run en) (t_entries (tab_of ps (lk_step en))) = Some (lk_data en).

Lemma ps_grows_refl : forall ps, ps_grows ps ps.
Proof. intros ps s r d H; exact H. Qed.
Lemma ps_grows_trans : forall a b c, ps_grows a b -> ps_grows b c -> ps_grows a c.
Proof. intros a b c H1 H2 s r d H. apply H2, H1, H. Qed.
Lemma log_ok_grows : forall ps ps' l, log_ok ps l -> ps_grows ps ps' -> log_ok ps' l.
Proof. intros ps ps' l H Hg en Hin. apply Hg, H, Hin. Qed.
Lemma log_ok_nil : forall ps, log_ok ps [].
Proof. intros ps en []. Qed.
Lemma log_ok_app : forall ps a b, log_ok ps a -> log_ok ps b -> log_ok ps (a ++ b).
Proof. intros ps a b Ha Hb en Hin. apply in_app_or in Hin. destruct Hin; auto. Qed.
Lemma ps_inv_nil : forall p, ps_inv p [].
Proof. intros p sid st _. unfold tab_of; simpl. apply tab_inv_empty. Qed.

Lemma setup_in_ps : forall p ps sid st run t' d,
  alookup sid p = Some st -> ps_inv p ps ->
  setup_step_data (sd_has_init st) run (tab_of ps sid) = (t', d) ->
  ps_inv p (tab_set sid t' ps) /\ ps_grows ps (tab_set sid t' ps) /\
  alookup run (t_entries (tab_of (tab_set sid t' ps) sid)) = Some d.
Proof.
  intros p ps sid st run t' d Hst Hinv Hs.
  destruct (setup_spec _ _ _ _ _ (Hinv _ _ Hst) Hs) as [Hi [Hl [Hg _]]].
  split; [|split].
  - intros sid' st' Hst'. destruct (string_dec sid' sid) as [->|Hne].
    + rewrite tab_of_set_same. rewrite Hst in Hst'. inversion Hst'; subst. exact Hi.
    + rewrite tab_of_set_other by assumption. apply Hinv; assumption.
  - intros s r x Hx. destruct (string_dec s sid) as [->|Hne].
    + rewrite tab_of_set_same. apply Hg, Hx.
    + rewrite tab_of_set_other by assumption. exact Hx.
  - rewrite tab_of_set_same. exact Hl.
Qed.

Section Calls.
Variable words : list (string * bool).
Variable pu : units -> string -> option fl.
Variable e : env.
Variable fuel : nat.

Notation UNSER := (s_unser words pu e fuel).
Notation VALID := (s_validate words pu e fuel).
Notation SERIAL := (s_serialize words pu e fuel).
Notation CALL := (call_step words pu e fuel).
Notation SIGNAL := (call_signal words pu e fuel).

(* the argument the handler must be called with, if any: the step exists, the raw input
   unserializes, and the unserialized value passes the step's own re-validation *)
Definition handler_input (p : plugin) (sid : stepid) (raw : gval) : option gval :=
  match alookup sid p with
  | Some st =>
      match UNSER (sd_input st) raw with
      | Ok n => match VALID (sd_input st) n with Ok _ => Some n | _ => None end
      | _ => None
      end
  | None => None
  end.

(* Unserialize's results validate (that is C01's business; the step re-checks it at run time) *)
Definition revalidates (p : plugin) : Prop :=
  forall sid st raw n, alookup sid p = Some st -> UNSER (sd_input st) raw = Ok n -> VALID (sd_input st) n = Ok tt.

Ltac unit_ok := repeat match goal with u : unit |- _ => destruct u end.

Lemma handler_log : forall h ps p run sid raw,
  match handler_input p sid raw with
  | Some n => exists d, log_of (CALL h ps p run sid raw) = [LStep sid run d n]
  | None => log_of (CALL h ps p run sid raw) = []
  end.
Proof.
  intros. unfold handler_input, call_step, log_of.
  destruct (alookup sid p) as [st|]; [|reflexivity].
  destruct (UNSER (sd_input st) raw) as [n| | |]; try reflexivity.
  destruct (VALID (sd_input st) n) as [u| | |]; try reflexivity.
  destruct (setup_step_data (sd_has_init st) run (tab_of ps sid)) as [t' d].
  destruct (h sid n) as [oid od]. simpl. eexists; reflexivity.
Qed.

Lemma handler_iff : forall h ps p run sid raw n,
  (exists d, log_of (CALL h ps p run sid raw) = [LStep sid run d n]) <-> handler_input p sid raw = Some n.
Proof.
  intros. pose proof (handler_log h ps p run sid raw) as H.
  destruct (handler_input p sid raw) as [n'|].
  - destruct H as [d Hd]. split.
    + intros [d' Hd']. rewrite Hd in Hd'. inversion Hd'; reflexivity.
    + intros Hn. inversion Hn; subst. exists d; exact Hd.
  - split; [|discriminate]. intros [d Hd]. rewrite H in Hd. discriminate.
Qed.

Lemma handler_never_twice : forall h ps p run sid raw,
  (List.length (log_of (CALL h ps p run sid raw)) <= 1)%nat.
Proof.
  intros. pose proof (handler_log h ps p run sid raw) as H.
  destruct (handler_input p sid raw); [destruct H as [d ->]|rewrite H]; simpl; lia.
Qed.

Lemma handler_iff_pure : forall h ps p run sid raw n, revalidates p ->
  ((exists d, log_of (CALL h ps p run sid raw) = [LStep sid run d n]) <->
   (exists st, alookup sid p = Some st /\ UNSER (sd_input st) raw = Ok n)).
Proof.
  intros h ps p run sid raw n Hrv. rewrite handler_iff. unfold handler_input. split.
  - destruct (alookup sid p) as [st|]; [|discriminate].
    destruct (UNSER (sd_input st) raw) as [n'| | |] eqn:EU; try discriminate.
    destruct (VALID (sd_input st) n'); try discriminate. intros H; inversion H; subst. eauto.
  - intros [st [Hst HU]]. rewrite Hst, HU. rewrite (Hrv _ _ _ _ Hst HU). reflexivity.
Qed.

Lemma no_handler_iff : forall h ps p run sid raw,
  log_of (CALL h ps p run sid raw) = [] <-> handler_input p sid raw = None.
Proof.
  intros. pose proof (handler_log h ps p run sid raw) as H.
  destruct (handler_input p sid raw) as [n|].
  - destruct H as [d Hd]. rewrite Hd. split; discriminate.
  - tauto.
Qed.

(* ---- outputs ---- *)
Lemma output_checked : forall h ps p run sid raw oid w,
  res_of (CALL h ps p run sid raw) = SOk (oid, w) <->
  exists st n os od,
    alookup sid p = Some st /\ handler_input p sid raw = Some n /\ h sid n = (oid, od) /\
    alookup oid (sd_outputs st) = Some os /\ VALID os od = Ok tt /\ SERIAL os od = Ok w.
Proof.
  intros. unfold handler_input, call_step, res_of, check_output. split.
  - destruct (alookup sid p) as [st|]; [|discriminate].
    destruct (UNSER (sd_input st) raw) as [n| | |]; try discriminate.
    destruct (VALID (sd_input st) n) as [u| | |]; try discriminate.
    destruct (setup_step_data (sd_has_init st) run (tab_of ps sid)) as [t' d].
    destruct (h sid n) as [oid' od] eqn:Eh. simpl.
    destruct (alookup oid' (sd_outputs st)) as [os|] eqn:Eo; [|discriminate].
    destruct (VALID os od) as [u'| | |] eqn:Ev; try discriminate.
    destruct (SERIAL os od) as [w'| | |] eqn:Es; try discriminate.
    intros H; inversion H; subst. unit_ok. exists st, n, os, od. repeat split; auto.
  - intros [st [n [os [od [Hst [Hn [Hh [Ho [Hv Hs]]]]]]]]]. rewrite Hst in *.
    destruct (UNSER (sd_input st) raw) as [n'| | |]; try discriminate.
    destruct (VALID (sd_input st) n') as [u| | |]; try discriminate.
    inversion Hn; subst n'.
    destruct (setup_step_data (sd_has_init st) run (tab_of ps sid)) as [t' d].
    rewrite Hh. simpl. rewrite Ho, Hv, Hs. reflexivity.
Qed.

(* ---- error provenance ---- *)
Lemma err_no_such_step : forall h ps p run sid raw,
  res_of (CALL h ps p run sid raw) = SErr CENoSuchStep <-> alookup sid p = None.
Proof.
  intros. unfold call_step, res_of, check_output. split.
  - destruct (alookup sid p) as [st|]; [|reflexivity].
    destruct (UNSER (sd_input st) raw) as [n| | |]; try discriminate.
    destruct (VALID (sd_input st) n) as [u| | |]; try discriminate.
    destruct (setup_step_data (sd_has_init st) run (tab_of ps sid)) as [t' d].
    destruct (h sid n) as [oid od]. simpl.
    destruct (alookup oid (sd_outputs st)) as [os|]; [|discriminate].
    destruct (VALID os od); try discriminate. destruct (SERIAL os od); discriminate.
  - intros ->. reflexivity.
Qed.

Lemma err_invalid_input : forall h ps p run sid raw er,
  res_of (CALL h ps p run sid raw) = SErr (CEInvalidInput er) <->
  exists st, alookup sid p = Some st /\
    (UNSER (sd_input st) raw = Err er \/ exists n, UNSER (sd_input st) raw = Ok n /\ VALID (sd_input st) n = Err er).
Proof.
  intros. unfold call_step, res_of, check_output. split.
  - destruct (alookup sid p) as [st|]; [|discriminate].
    destruct (UNSER (sd_input st) raw) as [n|er'| |] eqn:EU; try discriminate.
    + destruct (VALID (sd_input st) n) as [u|er'| |] eqn:EV; try discriminate.
      * destruct (setup_step_data (sd_has_init st) run (tab_of ps sid)) as [t' d].
        destruct (h sid n) as [oid od]. simpl.
        destruct (alookup oid (sd_outputs st)) as [os|]; [|discriminate].
        destruct (VALID os od); try discriminate. destruct (SERIAL os od); discriminate.
      * intros H; inversion H; subst. exists st. split; [reflexivity|]. right. eauto.
    + intros H; inversion H; subst. exists st. split; [reflexivity|]. left; exact EU.
  - intros [st [Hst [HU|[n [HU HV]]]]]; rewrite Hst, HU; [reflexivity|]. rewrite HV. reflexivity.
Qed.

Lemma err_after_handler : forall h ps p run sid raw c,
  (c = CEUndeclaredOutput \/ (exists er, c = CEOutputData er) \/ (exists er, c = CEOutputSerialize er)) ->
  (res_of (CALL h ps p run sid raw) = SErr c <->
   exists st n, alookup sid p = Some st /\ handler_input p sid raw = Some n /\
     check_output words pu e fuel st (fst (h sid n)) (snd (h sid n)) = SErr c).
Proof.
  intros h ps p run sid raw c Hc. unfold handler_input, call_step, res_of. split.
  - destruct (alookup sid p) as [st|]; [|intros H; inversion H; subst; destruct Hc as [Hc|[[? Hc]|[? Hc]]]; discriminate].
    destruct (UNSER (sd_input st) raw) as [n| | |];
      try (intros H; inversion H; subst; destruct Hc as [Hc|[[? Hc]|[? Hc]]]; discriminate).
    destruct (VALID (sd_input st) n) as [u| | |];
      try (intros H; inversion H; subst; destruct Hc as [Hc|[[? Hc]|[? Hc]]]; discriminate).
    destruct (setup_step_data (sd_has_init st) run (tab_of ps sid)) as [t' d].
    destruct (h sid n) as [oid od] eqn:Eh. simpl. intros H. exists st, n. rewrite Eh. repeat split; auto.
  - intros [st [n [Hst [Hn Hco]]]]. rewrite Hst in *.
    destruct (UNSER (sd_input st) raw) as [n'| | |]; try discriminate.
    destruct (VALID (sd_input st) n') as [u| | |]; try discriminate.
    inversion Hn; subst n'.
    destruct (setup_step_data (sd_has_init st) run (tab_of ps sid)) as [t' d].
    destruct (h sid n) as [oid od]. simpl in *. exact Hco.
Qed.

Lemma check_output_undeclared : forall st oid od,
  check_output words pu e fuel st oid od = SErr CEUndeclaredOutput <-> alookup oid (sd_outputs st) = None.
Proof.
  intros. unfold check_output. destruct (alookup oid (sd_outputs st)) as [os|]; [|tauto].
  split; [|discriminate]. destruct (VALID os od); try discriminate. destruct (SERIAL os od); discriminate.
Qed.

Lemma check_output_data : forall st oid od er,
  check_output words pu e fuel st oid od = SErr (CEOutputData er) <->
  exists os, alookup oid (sd_outputs st) = Some os /\ VALID os od = Err er.
Proof.
  intros. unfold check_output. destruct (alookup oid (sd_outputs st)) as [os|].
  - destruct (VALID os od) as [u|er'| |] eqn:EV.
    + split; [destruct (SERIAL os od); discriminate|]. intros [os' [H1 H2]]. inversion H1; subst. congruence.
    + split; [intros H; inversion H; subst; eauto|]. intros [os' [H1 H2]]. inversion H1; subst. congruence.
    + split; [discriminate|]. intros [os' [H1 H2]]. inversion H1; subst. congruence.
    + split; [discriminate|]. intros [os' [H1 H2]]. inversion H1; subst. congruence.
  - split; [discriminate|]. intros [os' [H1 _]]. discriminate.
Qed.

Lemma check_output_serialize : forall st oid od er,
  check_output words pu e fuel st oid od = SErr (CEOutputSerialize er) <->
  exists os, alookup oid (sd_outputs st) = Some os /\ VALID os od = Ok tt /\ SERIAL os od = Err er.
Proof.
  intros. unfold check_output. destruct (alookup oid (sd_outputs st)) as [os|].
  - destruct (VALID os od) as [u|er'| |] eqn:EV.
    + destruct u. destruct (SERIAL os od) as [w|er'| |] eqn:ES.
      * split; [discriminate|]. intros [os' [H1 [_ H2]]]. inversion H1; subst. congruence.
      * split; [intros H; inversion H; subst; eauto|]. intros [os' [H1 [_ H2]]]. inversion H1; subst. congruence.
      * split; [discriminate|]. intros [os' [H1 [_ H2]]]. inversion H1; subst. congruence.
      * split; [discriminate|]. intros [os' [H1 [_ H2]]]. inversion H1; subst. congruence.
    + split; [discriminate|]. intros [os' [H1 [H2 _]]]. inversion H1; subst. congruence.
    + split; [discriminate|]. intros [os' [H1 [H2 _]]]. inversion H1; subst. congruence.
    + split; [discriminate|]. intros [os' [H1 [H2 _]]]. inversion H1; subst. congruence.
  - split; [discriminate|]. intros [os' [H1 _]]. discriminate.
Qed.

Lemma types_distinguish : forall e1,
  go_type CENoSuchStep <> go_type (CEInvalidInput e1) /\
  go_type CENoSuchStep <> go_type CEUndeclaredOutput /\
  go_type (CEInvalidInput e1) <> go_type CEUndeclaredOutput.
Proof. intros; repeat split; discriminate. Qed.

(* ---- unknown ids ---- *)
Lemma unknown_step_call : forall h ps p run sid raw,
  alookup sid p = None -> CALL h ps p run sid raw = (SErr CENoSuchStep, [], ps).
Proof. intros. unfold call_step. rewrite H. reflexivity. Qed.
Lemma unknown_step_signal : forall ps p run sid sig raw,
  alookup sid p = None -> SIGNAL ps p run sid sig raw = (SErr CENoSuchStep, [], ps).
Proof. intros. unfold call_signal, call_signal_gen. rewrite H. reflexivity. Qed.
Lemma unknown_signal : forall ps p run sid st sig raw,
  alookup sid p = Some st -> alookup sig (sd_signals st) = None ->
  SIGNAL ps p run sid sig raw = (SErr CENoSuchSignal, [], ps).
Proof. intros. unfold call_signal, call_signal_gen. rewrite H, H0. reflexivity. Qed.
Lemma unknown_signal_prefix : forall ps p run sid st sig raw,
  alookup sid p = Some st -> alookup sig (sd_signals st) = None ->
  is_spanic (res_of (call_signal_prefix words pu e fuel ps p run sid sig raw)) = true.
Proof. intros. unfold call_signal_prefix, call_signal_gen, res_of. rewrite H, H0. reflexivity. Qed.

(* a panic can only come out of the data layer *)
Lemma call_panics_only_in_data_layer : forall h ps p run sid raw,
  is_spanic (res_of (CALL h ps p run sid raw)) = true ->
  exists st, alookup sid p = Some st /\
    (is_panic (UNSER (sd_input st) raw) = true \/
     (exists n, UNSER (sd_input st) raw = Ok n /\
        (is_panic (VALID (sd_input st) n) = true \/
         exists os, alookup (fst (h sid n)) (sd_outputs st) = Some os /\
           (is_panic (VALID os (snd (h sid n))) = true \/ is_panic (SERIAL os (snd (h sid n))) = true)))).
Proof.
  intros h ps p run sid raw. unfold call_step, res_of, check_output.
  destruct (alookup sid p) as [st|]; [|discriminate].
  intros H. exists st. split; [reflexivity|]. revert H.
  destruct (UNSER (sd_input st) raw) as [n| | |] eqn:EU; try discriminate; [|intros _; left; reflexivity].
  intros H. right. exists n. split; [reflexivity|]. revert H.
  destruct (VALID (sd_input st) n) as [u| | |] eqn:EV; try discriminate; [|intros _; left; reflexivity].
  destruct (setup_step_data (sd_has_init st) run (tab_of ps sid)) as [t' d].
  destruct (h sid n) as [oid od]. simpl.
  destruct (alookup oid (sd_outputs st)) as [os|] eqn:Eo; [|discriminate].
  intros H. right. exists os. split; [reflexivity|]. revert H.
  destruct (VALID os od) as [u'| | |]; try discriminate; [|intros _; left; reflexivity].
  destruct (SERIAL os od); try discriminate. intros _. right; reflexivity.
Qed.

(* ---------- histories ---------- *)
Lemma call_step_inv : forall h p ps run sid raw,
  ps_inv p ps ->
  ps_inv p (state_of (CALL h ps p run sid raw)) /\ ps_grows ps (state_of (CALL h ps p run sid raw)) /\
  log_ok (state_of (CALL h ps p run sid raw)) (log_of (CALL h ps p run sid raw)).
Proof.
  intros h p ps run sid raw Hinv. unfold call_step, state_of, log_of.
  destruct (alookup sid p) as [st|] eqn:Hst; [|simpl; auto using ps_grows_refl, log_ok_nil].
  destruct (UNSER (sd_input st) raw) as [n| | |]; try (simpl; auto using ps_grows_refl, log_ok_nil).
  destruct (VALID (sd_input st) n) as [u| | |]; try (simpl; auto using ps_grows_refl, log_ok_nil).
  destruct (setup_step_data (sd_has_init st) run (tab_of ps sid)) as [t' d] eqn:Es.
  destruct (h sid n) as [oid od]. simpl.
  destruct (setup_in_ps _ _ _ _ _ _ _ Hst Hinv Es) as [H1 [H2 H3]].
  split; [exact H1|]. split; [exact H2|].
  intros en [<-|[]]. exact H3.
Qed.

Lemma call_signal_inv : forall p ps run sid sig raw,
  ps_inv p ps ->
  ps_inv p (state_of (SIGNAL ps p run sid sig raw)) /\ ps_grows ps (state_of (SIGNAL ps p run sid sig raw)) /\
  log_ok (state_of (SIGNAL ps p run sid sig raw)) (log_of (SIGNAL ps p run sid sig raw)).
Proof.
  intros p ps run sid sig raw Hinv. unfold call_signal, call_signal_gen, state_of, log_of.
  destruct (alookup sid p) as [st|] eqn:Hst; [|simpl; auto using ps_grows_refl, log_ok_nil].
  destruct (alookup sig (sd_signals st)) as [ss|]; [|simpl; auto using ps_grows_refl, log_ok_nil].
  destruct (UNSER ss raw) as [n| | |]; try (simpl; auto using ps_grows_refl, log_ok_nil).
  destruct (setup_step_data (sd_has_init st) run (tab_of ps sid)) as [t' d] eqn:Es.
  destruct (setup_in_ps _ _ _ _ _ _ _ Hst Hinv Es) as [H1 [H2 H3]].
  destruct (VALID ss n) as [u| | |]; simpl; (split; [exact H1|]); (split; [exact H2|]); try apply log_ok_nil.
  intros en [<-|[]]. exact H3.
Qed.

(* ---------- CallableStep.Call called directly with a native input ---------- *)
Notation DIRECT := (call_direct words pu e fuel).

Lemma direct_log : forall h ps p run sid v,
  match alookup sid p with
  | Some st => match VALID (sd_input st) v with
               | Ok _ => exists d, log_of (DIRECT h ps p run sid v) = [LStep sid run d v]
               | _ => log_of (DIRECT h ps p run sid v) = []
               end
  | None => log_of (DIRECT h ps p run sid v) = []
  end.
Proof.
  intros. unfold call_direct, log_of.
  destruct (alookup sid p) as [st|]; [|reflexivity].
  destruct (VALID (sd_input st) v) as [u| | |]; try reflexivity.
  destruct (setup_step_data (sd_has_init st) run (tab_of ps sid)) as [t' d].
  destruct (h sid v) as [oid od]. simpl. eexists; reflexivity.
Qed.

(* the handler runs — once, with exactly the value passed in — iff that value passes the step's input
   schema: the re-validation in step.go is what shields the handler on this path *)
Lemma direct_handler_iff : forall h ps p run sid v,
  (exists d, log_of (DIRECT h ps p run sid v) = [LStep sid run d v]) <->
  (exists st, alookup sid p = Some st /\ VALID (sd_input st) v = Ok tt).
Proof.
  intros. pose proof (direct_log h ps p run sid v) as H.
  destruct (alookup sid p) as [st|].
  - destruct (VALID (sd_input st) v) as [u|er|w|] eqn:EV.
    + destruct u. split; [intros _; exists st; split; [reflexivity|exact EV]|intros _; exact H].
    + split; [intros [d Hd]; rewrite H in Hd; discriminate|].
      intros [st' [E1 E2]]. inversion E1; subst st'. congruence.
    + split; [intros [d Hd]; rewrite H in Hd; discriminate|].
      intros [st' [E1 E2]]. inversion E1; subst st'. congruence.
    + split; [intros [d Hd]; rewrite H in Hd; discriminate|].
      intros [st' [E1 E2]]. inversion E1; subst st'. congruence.
  - split; [intros [d Hd]; rewrite H in Hd; discriminate|]. intros [st [E1 _]]. discriminate.
Qed.

Lemma direct_handler_none_iff : forall h ps p run sid v,
  log_of (DIRECT h ps p run sid v) = [] <->
  ~ (exists st, alookup sid p = Some st /\ VALID (sd_input st) v = Ok tt).
Proof.
  intros. rewrite <- (direct_handler_iff h ps p run sid v).
  pose proof (direct_log h ps p run sid v) as H.
  destruct (alookup sid p) as [st|].
  - destruct (VALID (sd_input st) v) as [u| | |].
    + destruct H as [d Hd]. rewrite Hd. split; [discriminate|]. intros Hn. exfalso. apply Hn. exists d. reflexivity.
    + rewrite H. split; [intros _ [d Hd]; discriminate|reflexivity].
    + rewrite H. split; [intros _ [d Hd]; discriminate|reflexivity].
    + rewrite H. split; [intros _ [d Hd]; discriminate|reflexivity].
  - rewrite H. split; [intros _ [d Hd]; discriminate|reflexivity].
Qed.

Lemma direct_handler_never_twice : forall h ps p run sid v,
  (List.length (log_of (DIRECT h ps p run sid v)) <= 1)%nat.
Proof.
  intros. pose proof (direct_log h ps p run sid v) as H.
  destruct (alookup sid p) as [st|]; [|rewrite H; simpl; lia].
  destruct (VALID (sd_input st) v); [destruct H as [d ->]|rewrite H..]; simpl; lia.
Qed.

(* a value the input schema rejects — a correctly typed one that violates a constraint included — is
   answered with InvalidInputError and nothing else happens: no handler, no step data *)
Lemma direct_invalid_input : forall h ps p run sid v er,
  res_of (DIRECT h ps p run sid v) = SErr (CEInvalidInput er) <->
  exists st, alookup sid p = Some st /\ VALID (sd_input st) v = Err er.
Proof.
  intros. unfold call_direct, res_of, check_output_direct. split.
  - destruct (alookup sid p) as [st|]; [|discriminate].
    destruct (VALID (sd_input st) v) as [u|er'| |] eqn:EV; try discriminate.
    + destruct (setup_step_data (sd_has_init st) run (tab_of ps sid)) as [t' d].
      destruct (h sid v) as [oid od]. simpl.
      destruct (alookup oid (sd_outputs st)) as [os|]; [|discriminate].
      destruct (VALID os od); discriminate.
    + intros H; inversion H; subst. exists st. split; [reflexivity|exact EV].
  - intros [st [Hst HV]]. rewrite Hst, HV. reflexivity.
Qed.

Lemma direct_rejected_untouched : forall h ps p run sid v st er,
  alookup sid p = Some st -> VALID (sd_input st) v = Err er ->
  DIRECT h ps p run sid v = (SErr (CEInvalidInput er), [], ps).
Proof. intros h ps p run sid v st er Hst HV. unfold call_direct. rewrite Hst, HV. reflexivity. Qed.

Lemma direct_output_checked : forall h ps p run sid v oid od,
  res_of (DIRECT h ps p run sid v) = SOk (oid, od) <->
  exists st os, alookup sid p = Some st /\ VALID (sd_input st) v = Ok tt /\ h sid v = (oid, od) /\
    alookup oid (sd_outputs st) = Some os /\ VALID os od = Ok tt.
Proof.
  intros. unfold call_direct, res_of, check_output_direct. split.
  - destruct (alookup sid p) as [st|]; [|discriminate].
    destruct (VALID (sd_input st) v) as [u| | |] eqn:EV; try discriminate.
    destruct (setup_step_data (sd_has_init st) run (tab_of ps sid)) as [t' d].
    destruct (h sid v) as [oid' od'] eqn:Eh. simpl.
    destruct (alookup oid' (sd_outputs st)) as [os|] eqn:Eo; [|discriminate].
    destruct (VALID os od') as [u'| | |] eqn:Ev; try discriminate.
    intros H; inversion H; subst. unit_ok. exists st, os. repeat split; auto.
  - intros [st [os [Hst [Hv [Hh [Ho Hov]]]]]]. rewrite Hst, Hv.
    destruct (setup_step_data (sd_has_init st) run (tab_of ps sid)) as [t' d].
    rewrite Hh. simpl. rewrite Ho, Hov. reflexivity.
Qed.

(* CallStep = Unserialize ; Call ; Serialize: on an input that unserializes to n, CallableSchema.CallStep
   makes exactly the handler invocations and run-table changes of the direct call with n, and its result
   is the direct call's result with the output data serialized *)
Definition serialize_result (st : step_d) (r : sres (string * gval)) : sres (string * gval) :=
  match r with
  | SOk (oid, od) =>
      match alookup oid (sd_outputs st) with
      | None => SErr CEUndeclaredOutput
      | Some os =>
          match SERIAL os od with
          | Ok w => SOk (oid, w)
          | Err er => SErr (CEOutputSerialize er)
          | Panic w => SPanic w
          | OutOfFuel => SFuel
          end
      end
  | other => other
  end.

Lemma call_step_factors : forall h ps p run sid raw st n,
  alookup sid p = Some st -> UNSER (sd_input st) raw = Ok n ->
  CALL h ps p run sid raw =
  (serialize_result st (res_of (DIRECT h ps p run sid n)), log_of (DIRECT h ps p run sid n),
   state_of (DIRECT h ps p run sid n)).
Proof.
  intros h ps p run sid raw st n Hst HU. unfold call_step, call_direct, res_of, log_of, state_of.
  rewrite Hst, HU.
  destruct (VALID (sd_input st) n) as [u| | |]; try reflexivity.
  destruct (setup_step_data (sd_has_init st) run (tab_of ps sid)) as [t' d].
  destruct (h sid n) as [oid od]. simpl.
  unfold check_output, check_output_direct.
  destruct (alookup oid (sd_outputs st)) as [os|] eqn:Eo; [|reflexivity].
  destruct (VALID os od) as [u'| | |]; try reflexivity.
  simpl. rewrite Eo. destruct (SERIAL os od); reflexivity.
Qed.

Lemma call_direct_inv : forall h p ps run sid v,
  ps_inv p ps ->
  ps_inv p (state_of (DIRECT h ps p run sid v)) /\ ps_grows ps (state_of (DIRECT h ps p run sid v)) /\
  log_ok (state_of (DIRECT h ps p run sid v)) (log_of (DIRECT h ps p run sid v)).
Proof.
  intros h p ps run sid v Hinv. unfold call_direct, state_of, log_of.
  destruct (alookup sid p) as [st|] eqn:Hst; [|simpl; auto using ps_grows_refl, log_ok_nil].
  destruct (VALID (sd_input st) v) as [u| | |]; try (simpl; auto using ps_grows_refl, log_ok_nil).
  destruct (setup_step_data (sd_has_init st) run (tab_of ps sid)) as [t' d] eqn:Es.
  destruct (h sid v) as [oid od]. simpl.
  destruct (setup_in_ps _ _ _ _ _ _ _ Hst Hinv Es) as [H1 [H2 H3]].
  split; [exact H1|]. split; [exact H2|].
  intros en [<-|[]]. exact H3.
Qed.

Notation EXEC_OP := (exec_op words pu e fuel).
Notation EXEC_ACC := (exec_acc words pu e fuel).
Notation EXEC_OPS := (exec_ops words pu e fuel).

Lemma exec_op_inv : forall p ps o,
  ps_inv p ps ->
  ps_inv p (state_of (EXEC_OP p ps o)) /\ ps_grows ps (state_of (EXEC_OP p ps o)) /\
  log_ok (state_of (EXEC_OP p ps o)) (log_of (EXEC_OP p ps o)).
Proof.
  intros p ps o Hinv. destruct o as [run sid raw h|run sid sig raw|run sid v h]; unfold exec_op.
  - pose proof (call_step_inv h p ps run sid raw Hinv) as H.
    destruct (CALL h ps p run sid raw) as [[r l] ps']. exact H.
  - pose proof (call_signal_inv p ps run sid sig raw Hinv) as H.
    destruct (SIGNAL ps p run sid sig raw) as [[r l] ps']. exact H.
  - pose proof (call_direct_inv h p ps run sid v Hinv) as H.
    destruct (DIRECT h ps p run sid v) as [[r l] ps']. exact H.
Qed.

Definition all_logs (res : list (op_result * list log_entry)) : list log_entry := flat_map snd res.

Lemma fold_inv : forall p ops acc,
  ps_inv p (snd acc) -> log_ok (snd acc) (all_logs (fst acc)) ->
  ps_inv p (snd (fold_left (EXEC_ACC p) ops acc)) /\
  log_ok (snd (fold_left (EXEC_ACC p) ops acc)) (all_logs (fst (fold_left (EXEC_ACC p) ops acc))) /\
  ps_grows (snd acc) (snd (fold_left (EXEC_ACC p) ops acc)).
Proof.
  intros p ops. induction ops as [|o ops IH]; intros acc Hinv Hlog; simpl.
  - auto using ps_grows_refl.
  - pose proof (exec_op_inv p (snd acc) o Hinv) as [H1 [H2 H3]].
    assert (Hacc : EXEC_ACC p acc o =
                   (fst acc ++ [(res_of (EXEC_OP p (snd acc) o), log_of (EXEC_OP p (snd acc) o))],
                    state_of (EXEC_OP p (snd acc) o))).
    { unfold exec_acc, res_of, log_of, state_of. destruct (EXEC_OP p (snd acc) o) as [[r l] ps']. reflexivity. }
    rewrite Hacc.
    destruct (IH (fst acc ++ [(res_of (EXEC_OP p (snd acc) o), log_of (EXEC_OP p (snd acc) o))],
                  state_of (EXEC_OP p (snd acc) o))) as [I1 [I2 I3]].
    + exact H1.
    + simpl. unfold all_logs. rewrite flat_map_app. apply log_ok_app.
      * eapply log_ok_grows; [exact Hlog|exact H2].
      * simpl. rewrite app_nil_r. exact H3.
    + split; [exact I1|]. split; [exact I2|]. eapply ps_grows_trans; [exact H2|exact I3].
Qed.

Lemma exec_ops_inv : forall p ops,
  ps_inv p (snd (EXEC_OPS p ops)) /\ log_ok (snd (EXEC_OPS p ops)) (all_logs (fst (EXEC_OPS p ops))).
Proof.
  intros p ops. unfold exec_ops.
  destruct (fold_inv p ops ([], [])) as [H1 [H2 _]]; simpl; auto using ps_inv_nil, log_ok_nil.
Qed.

Lemma exec_ops_app : forall p ops1 ops2,
  EXEC_OPS p (ops1 ++ ops2) = fold_left (EXEC_ACC p) ops2 (EXEC_OPS p ops1).
Proof. intros. unfold exec_ops. apply fold_left_app. Qed.

Lemma exec_ops_stable : forall p ops1 ops2,
  ps_grows (snd (EXEC_OPS p ops1)) (snd (EXEC_OPS p (ops1 ++ ops2))).
Proof.
  intros. rewrite exec_ops_app. destruct (exec_ops_inv p ops1) as [H1 H2].
  destruct (fold_inv p ops2 (EXEC_OPS p ops1) H1 H2) as [_ [_ H]]. exact H.
Qed.

(* the log of a prefix is a prefix of the log *)
Lemma fold_logs_prefix : forall p ops acc,
  exists more, fst (fold_left (EXEC_ACC p) ops acc) = fst acc ++ more.
Proof.
  intros p ops. induction ops as [|o ops IH]; intros acc; simpl.
  - exists []. rewrite app_nil_r. reflexivity.
  - destruct (IH (EXEC_ACC p acc o)) as [more Hm]. rewrite Hm.
    unfold exec_acc. destruct (EXEC_OP p (snd acc) o) as [[r l] ps']. simpl.
    exists ((r, l) :: more). rewrite <- app_assoc. reflexivity.
Qed.

(* THE statement for histories *)
Lemma stepdata_once_history : forall p ops,
  let res := fst (EXEC_OPS p ops) in
  let ps := snd (EXEC_OPS p ops) in
  (* exactly once per run id: the number of initialiser runs of a step is the number of run ids in
     its table, every run id is there once, and different run ids hold different values *)
  (forall sid st, alookup sid p = Some st -> sd_has_init st = true ->
     t_inits (tab_of ps sid) = N.of_nat (List.length (t_entries (tab_of ps sid))) /\
     NoDup (map fst (t_entries (tab_of ps sid))) /\ NoDup (map snd (t_entries (tab_of ps sid)))) /\
  (* every handler invocation of the whole history saw the table's value for its run ... *)
  (forall en, In en (all_logs res) ->
     alookup (lk_run en) (t_entries (tab_of ps (lk_step en))) = Some (lk_data en)) /\
  (* ... hence two handler invocations for the same step and run saw the same value *)
  (forall e1 e2, In e1 (all_logs res) -> In e2 (all_logs res) ->
     lk_step e1 = lk_step e2 -> lk_run e1 = lk_run e2 -> lk_data e1 = lk_data e2).
Proof.
  intros p ops res ps. subst res ps. destruct (exec_ops_inv p ops) as [Hinv Hlog].
  split; [|split].
  - intros sid st Hst Hi. destruct (Hinv _ _ Hst) as [Hnd [Ht _]]. destruct (Ht Hi) as [_ [Hnd2 Hlen]].
    auto.
  - exact Hlog.
  - intros e1 e2 H1 H2 Hs Hr. pose proof (Hlog _ H1) as L1. pose proof (Hlog _ H2) as L2.
    rewrite Hs, Hr in L1. rewrite L1 in L2. inversion L2; reflexivity.
Qed.

End Calls.

(* ---------- interleavings of setupStepData critical sections and handler invocations ---------- *)
Definition is_setup_of (run : runid) (ev : sd_event) : bool :=
  match ev with ESetup _ r => String.eqb r run | EHandler _ => false end.

Lemma nlookup_In : forall A k (l : list (N * A)) v, nlookup k l = Some v -> In (k, v) l.
Proof.
  induction l as [|[k' v'] t IH]; simpl; intros v H; [discriminate|].
  destruct (N.eqb k k') eqn:E.
  - apply N.eqb_eq in E. inversion H; subst. left; reflexivity.
  - right; auto.
Qed.

Record il_inv (hi : bool) (evs : list sd_event) (s : il_state) : Prop := mkIlInv {
  ii_tab : tab_inv hi (il_tab s);
  ii_keys : forall run, In run (map fst (t_entries (il_tab s))) <-> existsb (is_setup_of run) evs = true;
  ii_initby_keys : map fst (il_initby s) = map fst (t_entries (il_tab s));
  ii_first : forall run tid, In (run, tid) (il_initby s) ->
      exists pre post, evs = pre ++ ESetup tid run :: post /\ existsb (is_setup_of run) pre = false;
  ii_local : forall tid run d, In (tid, (run, d)) (il_local s) -> alookup run (t_entries (il_tab s)) = Some d;
  ii_seen : forall run d, In (run, d) (il_seen s) -> alookup run (t_entries (il_tab s)) = Some d }.

Lemma il_inv_init : forall hi, il_inv hi [] il_init.
Proof.
  intros hi. constructor; simpl.
  - apply tab_inv_empty.
  - intros run. split; [intros []|discriminate].
  - reflexivity.
  - intros run tid [].
  - intros tid run d [].
  - intros run d [].
Qed.

Lemma existsb_snoc : forall A (f : A -> bool) l x, existsb f (l ++ [x]) = existsb f l || f x.
Proof. intros. rewrite existsb_app. simpl. rewrite orb_false_r. reflexivity. Qed.

Lemma il_inv_step : forall hi evs s ev, il_inv hi evs s -> il_inv hi (evs ++ [ev]) (il_step hi s ev).
Proof.
  intros hi evs s ev [Htab Hkeys Hik Hfirst Hlocal Hseen]. destruct ev as [tid run|tid]; simpl.
  - destruct (setup_step_data hi run (il_tab s)) as [t' d] eqn:Es.
    destruct (setup_spec _ _ _ _ _ Htab Es) as [Hi [Hl [Hg [Hother Hn]]]].
    assert (Hkeys' : forall r, In r (map fst (t_entries t')) <-> (In r (map fst (t_entries (il_tab s))) \/ r = run)).
    { intros r. destruct (string_dec r run) as [->|Hne].
      - split; [auto|]. intros _. eapply alookup_Some_in_keys; exact Hl.
      - specialize (Hother r Hne). split.
        + intros Hin. left. destruct (alookup r (t_entries (il_tab s))) eqn:E.
          * eapply alookup_Some_in_keys; exact E.
          * exfalso. assert (Hn' : alookup r (t_entries t') = None) by congruence.
            apply (alookup_None_notin _ _ _ Hn'). exact Hin.
        + intros [Hin|Hc]; [|contradiction].
          destruct (alookup r (t_entries t')) eqn:E.
          * eapply alookup_Some_in_keys; exact E.
          * exfalso. assert (Hn' : alookup r (t_entries (il_tab s)) = None) by congruence.
            apply (alookup_None_notin _ _ _ Hn'). exact Hin. }
    constructor; simpl.
    + exact Hi.
    + intros r. rewrite Hkeys', existsb_snoc, orb_true_iff, Hkeys. simpl.
      split; (intros [H|H]; [left; exact H|right]).
      * subst. apply String.eqb_refl.
      * apply String.eqb_eq in H. congruence.
    + unfold setup_step_data in Es. destruct (alookup run (t_entries (il_tab s))) as [d0|] eqn:E.
      * inversion Es; subst. exact Hik.
      * destruct hi; inversion Es; subst; simpl; rewrite Hik; reflexivity.
    + intros r t Hin.
      assert (Hold : In (r, t) (il_initby s) -> exists pre post, evs ++ [ESetup tid run] = pre ++ ESetup t r :: post /\ existsb (is_setup_of r) pre = false).
      { intros Ho. destruct (Hfirst _ _ Ho) as [pre [post [He Hp]]]. exists pre, (post ++ [ESetup tid run]).
        split; [|exact Hp]. rewrite He. rewrite <- app_assoc. reflexivity. }
      destruct (alookup run (t_entries (il_tab s))) as [d0|] eqn:E; [auto|].
      destruct Hin as [Hin|Hin]; [|auto]. inversion Hin; subst.
      exists evs, []. split; [reflexivity|].
      destruct (existsb (is_setup_of r) evs) eqn:Ex; [|reflexivity].
      exfalso. apply Hkeys in Ex. apply (alookup_None_notin _ _ _ E). exact Ex.
    + intros t r x [Hin|Hin].
      * inversion Hin; subst. exact Hl.
      * apply Hg. eapply Hlocal; exact Hin.
    + intros r x Hin. apply Hg. apply Hseen; exact Hin.
  - destruct (nlookup tid (il_local s)) as [[r d]|] eqn:E.
    + constructor; simpl; auto.
      * intros run. rewrite existsb_snoc. simpl. rewrite orb_false_r. apply Hkeys.
      * intros run t Hin. destruct (Hfirst _ _ Hin) as [pre [post [He Hp]]]. exists pre, (post ++ [EHandler tid]).
        split; [|exact Hp]. rewrite He, <- app_assoc. reflexivity.
      * intros run x [Hin|Hin]; [|auto]. inversion Hin; subst. apply nlookup_In in E. eapply Hlocal; exact E.
    + constructor; simpl; auto.
      * intros run. rewrite existsb_snoc. simpl. rewrite orb_false_r. apply Hkeys.
      * intros run t Hin. destruct (Hfirst _ _ Hin) as [pre [post [He Hp]]]. exists pre, (post ++ [EHandler tid]).
        split; [|exact Hp]. rewrite He, <- app_assoc. reflexivity.
Qed.

Lemma il_run_inv : forall hi evs, il_inv hi evs (il_run hi evs).
Proof.
  intros hi evs. induction evs as [|ev evs IH] using rev_ind.
  - apply il_inv_init.
  - unfold il_run. rewrite fold_left_app. simpl. apply il_inv_step. exact IH.
Qed.

Lemma count_occ_nodup : forall (l : list string) x, NoDup l ->
  count_occ string_dec l x = if in_dec string_dec x l then 1%nat else 0%nat.
Proof.
  intros l x Hnd. destruct (in_dec string_dec x l) as [Hin|Hnin].
  - apply NoDup_count_occ' ; assumption.
  - apply count_occ_not_In; assumption.
Qed.

Lemma stepdata_once_interleaved : forall hi evs,
  let s := il_run hi evs in
  (* the initialiser ran exactly once for a run id iff some setup for it arrived, never otherwise *)
  (forall run, count_occ string_dec (map fst (il_initby s)) run =
               if existsb (is_setup_of run) evs then 1%nat else 0%nat) /\
  (hi = true -> t_inits (il_tab s) = N.of_nat (List.length (il_initby s))) /\
  (hi = false -> t_inits (il_tab s) = 0%N) /\
  (* ... by whichever thread arrived first *)
  (forall run tid, In (run, tid) (il_initby s) ->
     exists pre post, evs = pre ++ ESetup tid run :: post /\ existsb (is_setup_of run) pre = false) /\
  (* every handler of a run saw the one value of that run *)
  (forall run d, In (run, d) (il_seen s) -> alookup run (t_entries (il_tab s)) = Some d) /\
  (forall run d1 d2, In (run, d1) (il_seen s) -> In (run, d2) (il_seen s) -> d1 = d2) /\
  (* different runs hold different values (when there is an initialiser) *)
  (hi = true -> NoDup (map snd (t_entries (il_tab s)))).
Proof.
  intros hi evs s. pose proof (il_run_inv hi evs) as HI. change (il_run hi evs) with s in HI. clearbody s.
  destruct HI as [Htab Hkeys Hik Hfirst Hlocal Hseen].
  destruct Htab as [Hnd [Ht Hf]].
  split; [|split; [|split; [|split; [|split; [|split]]]]].
  - intros run. rewrite Hik. rewrite count_occ_nodup by exact Hnd.
    destruct (in_dec string_dec run (map fst (t_entries (il_tab s)))) as [Hin|Hnin].
    + apply Hkeys in Hin. rewrite Hin. reflexivity.
    + destruct (existsb (is_setup_of run) evs) eqn:Ex; [|reflexivity]. exfalso. apply Hnin, Hkeys, Ex.
  - intros Hi. destruct (Ht Hi) as [_ [_ Hlen]]. rewrite <- Hlen.
    rewrite <- (map_length fst (il_initby s)), Hik, map_length. reflexivity.
  - intros Hi. destruct (Hf Hi) as [H0 _]. exact H0.
  - exact Hfirst.
  - exact Hseen.
  - intros run d1 d2 H1 H2. apply Hseen in H1. apply Hseen in H2. congruence.
  - intros Hi. destruct (Ht Hi) as [_ [H _]]. exact H.
Qed.
