(* Proofs/C02Scalars.v — the scalar kinds: each input mapper of Ops.v reads exactly the values the
   declarative denotation relations of Spec.v name, and the bound / pattern / membership checks
   are exactly the declared constraints; on all three paths. *)
From Coq Require Import Lia.
From Verif Require Import Base.Prelude Base.Str Base.Float Base.GoVal
  Schema.Regex Schema.Units Schema.Syntax Schema.Ops Schema.Spec.
Open Scope Z_scope.

(* ---------- bounds ---------- *)
Lemma ole_iff mn z : ole mn z = true <-> z_lower mn z.
Proof. destruct mn as [m|]; cbn [ole z_lower]; [apply Z.leb_le | tauto]. Qed.
Lemma oge_iff mx z : oge mx z = true <-> z_upper mx z.
Proof. destruct mx as [m|]; cbn [oge z_upper]; [apply Z.leb_le | tauto]. Qed.
Lemma size_ok_iff mn mx z : size_ok mn mx z = true <-> z_lower mn z /\ z_upper mx z.
Proof. unfold size_ok. rewrite andb_true_iff, ole_iff, oge_iff. tauto. Qed.

Lemma fle_iff a b : fle a b = true <-> f_le a b.
Proof.
  unfold fle, f_le. destruct (fcmp a b) as [[| |]|]; split; intro H;
    try reflexivity; try discriminate H; try (left; reflexivity); try (right; reflexivity);
    destruct H as [H|H]; discriminate H.
Qed.
Lemma fbounds_iff mn mx x :
  ((match mn with Some m => fle m x | None => true end) && (match mx with Some m => fle x m | None => true end)) = true
  <-> f_lower mn x /\ f_upper mx x.
Proof.
  rewrite andb_true_iff. unfold f_lower, f_upper.
  destruct mn, mx; rewrite ?fle_iff; tauto.
Qed.

(* ---------- ranges of the integer kinds ---------- *)
Lemma in_i64_iff z : in_i64 z = true <-> min_i64 <= z <= max_i64.
Proof. unfold in_i64. rewrite andb_true_iff, !Z.leb_le. tauto. Qed.

Lemma ik_in_range k z : ik_in k z = true -> min_i64 <= z < two64.
Proof.
  unfold ik_in. rewrite andb_true_iff, !Z.leb_le. intros [H1 H2].
  assert (L : min_i64 <= ik_min k) by (destruct k; vm_compute; discriminate).
  assert (U : ik_max k < two64) by (destruct k; vm_compute; reflexivity).
  lia.
Qed.

Lemma two64_val : two64 = 18446744073709551616. Proof. reflexivity. Qed.
Lemma max_i64_val : max_i64 = 9223372036854775807. Proof. reflexivity. Qed.
Lemma min_i64_val : min_i64 = -9223372036854775808. Proof. reflexivity. Qed.

Lemma wrap_cases z : min_i64 <= z < two64 ->
  (z <= max_i64 /\ wrap_i64 z = z) \/ (max_i64 < z /\ wrap_i64 z = z - two64).
Proof.
  intros Hz. unfold wrap_i64.
  assert (Hpos : 0 < two64) by reflexivity.
  pose proof (Z.mod_pos_bound z two64 Hpos) as Hb.
  pose proof (Z.div_mod z two64 ltac:(discriminate)) as Hd.
  remember (z / two64) as q. remember (z mod two64) as r.
  rewrite two64_val, ?max_i64_val, ?min_i64_val in *.
  destruct (r <=? 9223372036854775807) eqn:E; [apply Z.leb_le in E | apply Z.leb_gt in E]; lia.
Qed.

Lemma wrap_id z : in_i64 z = true -> wrap_i64 z = z.
Proof.
  intros H. apply in_i64_iff in H.
  destruct (wrap_cases z) as [[_ W] | [C _]]; [ | exact W | ].
  - rewrite two64_val, max_i64_val in *. lia.
  - lia.
Qed.

Lemma wrap_is_small k z c : ik_in k z = true -> 0 <= c <= 1 -> (wrap_i64 z = c <-> z = c).
Proof.
  intros Hk Hc. apply ik_in_range in Hk.
  destruct (wrap_cases z Hk) as [[A W] | [A W]]; rewrite W.
  - tauto.
  - rewrite two64_val, max_i64_val, min_i64_val in *. lia.
Qed.

(* ---------- floats that are integers ---------- *)
Lemma size_to_nat m : Pos.to_nat (Pos.size m) = Pos.size_nat m.
Proof. induction m; cbn [Pos.size Pos.size_nat]; rewrite ?Pos2Nat.inj_succ, ?IHm; reflexivity. Qed.

Lemma strip_pos_val fuel : forall m e m' e', strip_pos fuel m e = (m', e') ->
  e <= e' /\ Zpos m = Zpos m' * 2 ^ (e' - e).
Proof.
  induction fuel as [|fuel IH]; intros m e m' e' H; cbn [strip_pos] in H.
  - inversion H; subst. split; [lia|]. rewrite Z.sub_diag, Z.pow_0_r. lia.
  - destruct m as [p|p|].
    + inversion H; subst. split; [lia|]. rewrite Z.sub_diag, Z.pow_0_r. lia.
    + apply IH in H. destruct H as [H1 H2]. split; [lia|].
      rewrite Pos2Z.inj_xO, H2.
      replace (e' - e) with (Z.succ (e' - (e + 1))) by lia.
      rewrite Z.pow_succ_r by lia. ring.
    + inversion H; subst. split; [lia|]. rewrite Z.sub_diag, Z.pow_0_r. lia.
Qed.

Lemma strip_pos_odd fuel : forall m e m' e', (Pos.size_nat m <= fuel)%nat ->
  strip_pos fuel m e = (m', e') -> exists p, Zpos m' = 2 * p + 1.
Proof.
  induction fuel as [|fuel IH]; intros m e m' e' Hs H.
  - destruct m; cbn [Pos.size_nat] in Hs; lia.
  - cbn [strip_pos] in H. destruct m as [p|p|].
    + inversion H; subst. exists (Zpos p). rewrite Pos2Z.inj_xI. reflexivity.
    + cbn [Pos.size_nat] in Hs. apply IH in H; [exact H | lia].
    + inversion H; subst. exists 0. reflexivity.
Qed.

Lemma pow2_pos k : 0 <= k -> 0 < 2 ^ k.
Proof. intro H. apply Z.pow_pos_nonneg; lia. Qed.

Lemma fl_int_value_spec f z : fl_int_value f = Some z <-> fl_is_Z f z.
Proof.
  destruct f as [| sg | sg | s m e].
  - cbn. split; [discriminate | tauto].
  - cbn. split; [discriminate | tauto].
  - cbn. split; [intro H; inversion H; reflexivity | intros ->; reflexivity].
  - unfold fl_int_value, fnorm. cbn [fl_is_Z].
    destruct (strip_pos (Pos.to_nat (Pos.size m)) m e) as [m' e'] eqn:E. cbv beta iota zeta.
    pose proof (strip_pos_val _ _ _ _ _ E) as [Hle Hv].
    assert (Hodd : exists p, Zpos m' = 2 * p + 1).
    { eapply strip_pos_odd; [|exact E]. rewrite size_to_nat. lia. }
    change (if s then -1 else 1) with (sgnz s).
    set (K := e' - e) in *.
    assert (HK : 0 < 2 ^ K) by (apply pow2_pos; unfold K; lia).
    destruct (0 <=? e') eqn:E'; [apply Z.leb_le in E' | apply Z.leb_gt in E'].
    + (* the normal form is an integer *)
      destruct (0 <=? e) eqn:Ee; [apply Z.leb_le in Ee | apply Z.leb_gt in Ee].
      * assert (P : 2 ^ e' = 2 ^ K * 2 ^ e).
        { rewrite <- Z.pow_add_r by lia. f_equal; try (unfold K; lia). }
        rewrite Hv, P. split; [intro H; inversion H; ring | intros ->; f_equal; ring].
      * assert (P : 2 ^ K = 2 ^ e' * 2 ^ (- e)).
        { rewrite <- Z.pow_add_r by lia. f_equal; try (unfold K; lia). }
        assert (Hp : 0 < 2 ^ (- e)) by (apply pow2_pos; lia).
        rewrite Hv, P. split.
        -- intro H; inversion H. ring.
        -- intro H. f_equal. apply (Z.mul_cancel_r _ _ (2 ^ (- e))); [lia|]. rewrite H. ring.
    + (* a fraction: no integer equals it *)
      split; [discriminate|]. intro H. exfalso.
      assert (Ee : (0 <=? e) = false) by (apply Z.leb_gt; lia). rewrite Ee in H.
      assert (P : 2 ^ (- e) = 2 ^ (- e') * 2 ^ K).
      { rewrite <- Z.pow_add_r by lia. f_equal; try (unfold K; lia). }
      assert (Q : 2 ^ (- e') = 2 * 2 ^ (- e' - 1)).
      { rewrite <- Z.pow_succ_r by lia. f_equal. lia. }
      rewrite Hv, P in H.
      assert (H' : z * 2 ^ (- e') = sgnz s * Zpos m').
      { apply (Z.mul_cancel_r _ _ (2 ^ K)); [lia|].
        transitivity (z * (2 ^ (- e') * 2 ^ K)); [ring | rewrite H; ring]. }
      destruct Hodd as [p Hp]. rewrite Hp, Q in H'.
      set (W := z * 2 ^ (- e' - 1)) in *.
      assert (HW : z * (2 * 2 ^ (- e' - 1)) = 2 * W) by (unfold W; ring).
      rewrite HW in H'. destruct s; cbn [sgnz] in H'; lia.
Qed.

Lemma fl_is_Z_unique f a b : fl_is_Z f a -> fl_is_Z f b -> a = b.
Proof.
  destruct f as [| sg | sg | s m e]; cbn [fl_is_Z]; try tauto; try (intros; lia).
  destruct (0 <=? e) eqn:Ee; [intros; congruence | apply Z.leb_gt in Ee].
  intros Ha Hb. assert (Hp : 0 < 2 ^ (- e)) by (apply pow2_pos; lia).
  apply (Z.mul_cancel_r _ _ (2 ^ (- e))); [lia | congruence].
Qed.

Lemma fl_to_i64_exact_spec f z : fl_to_i64_exact f = Some z <-> fl_is_Z f z /\ in_i64 z = true.
Proof.
  unfold fl_to_i64_exact. destruct (fl_int_value f) as [w|] eqn:E.
  - apply fl_int_value_spec in E. destruct (in_i64 w) eqn:I.
    + split; [intro H; inversion H; subst; tauto | intros [H _]; f_equal; eapply fl_is_Z_unique; eassumption].
    + split; [discriminate|]. intros [H I'].
      assert (w = z) by (eapply fl_is_Z_unique; eassumption). subst. congruence.
  - split; [discriminate|]. intros [H _]. apply fl_int_value_spec in H. congruence.
Qed.

(* ---------- the mappers ---------- *)
Lemma int_mapper_spec u v z : go_int v -> (int_mapper u v = Some z <-> int_denotes u v z).
Proof.
  intros Hg. split.
  - intro H. destruct v as [| t b | t z0 | t f | t s | t nl l | t nl l | t o | t fs | src | k d];
      cbn [int_mapper] in H; try discriminate H; destruct t; try discriminate H.
    + inversion H; subst. constructor.
    + revert H. destruct (z0 <=? max_i64) eqn:E; intro H; [|discriminate H]. inversion H; subst.
      apply Z.leb_le in E. cbn [go_int] in Hg. apply ik_in_range in Hg.
      constructor. apply in_i64_iff. lia.
    + apply fl_to_i64_exact_spec in H. destruct H. apply ID_f32; assumption.
    + apply fl_to_i64_exact_spec in H. destruct H. apply ID_f64; assumption.
    + destruct u as [us|]; [eapply ID_units; [reflexivity | exact H] | apply ID_dec; [reflexivity | exact H]].
  - intro H. destruct H; cbn [int_mapper].
    + apply in_i64_iff in H. destruct (z <=? max_i64) eqn:E; [reflexivity | apply Z.leb_gt in E; lia].
    + apply fl_to_i64_exact_spec. tauto.
    + apply fl_to_i64_exact_spec. tauto.
    + reflexivity.
    + subst u. exact H0.
    + subst u. exact H0.
Qed.

Section WithTables.
Variable words : list (string * bool).
Variable pu : units -> string -> option fl.

Lemma float_mapper_spec u v x : float_mapper pu u v = Some x <-> float_denotes pu u v x.
Proof.
  split.
  - intro H. destruct v as [| t b | t z0 | t f | t s | t nl l | t nl l | t o | t fs | src | k d];
      cbn [float_mapper] in H; try discriminate H; destruct t; try discriminate H.
    + inversion H; subst. constructor.
    + inversion H; subst. constructor.
    + inversion H; subst. constructor.
    + inversion H; subst. constructor.
    + destruct u as [us|]; [eapply FD_units; [reflexivity | exact H] | apply FD_dec; [reflexivity | exact H]].
  - intro H. destruct H; cbn [float_mapper]; try reflexivity; subst u; assumption.
Qed.

Lemma string_mapper_spec v t : string_mapper v = Some t <-> string_denotes v t.
Proof.
  split.
  - intro H. destruct v as [| ty b | ty z0 | ty f | ty s | ty nl l | ty nl l | ty o | ty fs | src | k d];
      cbn [string_mapper] in H; try discriminate H; destruct ty; try discriminate H;
      inversion H; subst; constructor.
  - intro H. destruct H; reflexivity.
Qed.

(* ---------- Unserialize, per kind ---------- *)
Lemma int_unser_iff mn mx u v n : go_int v ->
  (int_unser mn mx u v = Ok n <-> exists z, n = vi64 z /\ int_denotes u v z /\ z_lower mn z /\ z_upper mx z).
Proof.
  intros Hg. unfold int_unser, int_bounds. split.
  - destruct (int_mapper u v) as [z|] eqn:E; [|discriminate].
    destruct (size_ok mn mx z) eqn:Hs; [|discriminate].
    intro H; inversion H. exists z. split; [reflexivity|]. split; [apply int_mapper_spec; assumption|].
    apply size_ok_iff; assumption.
  - intros (z & -> & Hd & Hb). apply (int_mapper_spec u v z Hg) in Hd. rewrite Hd.
    apply size_ok_iff in Hb. rewrite Hb. reflexivity.
Qed.

Lemma float_unser_iff mn mx u v n :
  float_unser pu mn mx u v = Ok n <-> exists x, n = vf64 x /\ float_denotes pu u v x /\ f_lower mn x /\ f_upper mx x.
Proof.
  unfold float_unser, float_bounds. split.
  - destruct (float_mapper pu u v) as [x|] eqn:E; [|discriminate].
    match goal with |- (if ?c then _ else _) = _ -> _ => destruct c eqn:B end; [|discriminate].
    intro H; inversion H. exists x. split; [reflexivity|]. split; [apply float_mapper_spec; assumption|].
    apply fbounds_iff; assumption.
  - intros (x & -> & Hd & Hb). apply float_mapper_spec in Hd. rewrite Hd.
    apply fbounds_iff in Hb. rewrite Hb. reflexivity.
Qed.

Lemma string_check_iff mn mx pat t n :
  string_check mn mx pat t = Ok n <-> n = vstr t /\ z_lower mn (blen t) /\ z_upper mx (blen t) /\ pat_ok pat t.
Proof.
  unfold string_check. change (slen t) with (blen t). split.
  - destruct (size_ok mn mx (blen t)) eqn:Hs; [|discriminate]. apply size_ok_iff in Hs. destruct Hs as [H1 H2].
    destruct pat as [[src r]|]; cbn [pat_ok].
    + destruct (re_match_string r t) eqn:M; [|discriminate]. intro H; inversion H; subst. repeat split; assumption.
    + intro H; inversion H; subst. repeat split; assumption.
  - intros (-> & H1 & H2 & H3). assert (Hs : size_ok mn mx (blen t) = true) by (apply size_ok_iff; tauto).
    rewrite Hs. destruct pat as [[src r]|]; cbn [pat_ok] in H3; [rewrite H3|]; reflexivity.
Qed.

Lemma string_unser_iff mn mx pat v n :
  string_unser mn mx pat v = Ok n <->
  exists t, n = vstr t /\ string_denotes v t /\ z_lower mn (blen t) /\ z_upper mx (blen t) /\ pat_ok pat t.
Proof.
  unfold string_unser. split.
  - destruct (string_mapper v) as [t|] eqn:E; [|discriminate]. intro H. apply string_check_iff in H.
    exists t. apply string_mapper_spec in E. tauto.
  - intros (t & Hn & Hd & Hr). apply string_mapper_spec in Hd. rewrite Hd. apply string_check_iff. tauto.
Qed.

Lemma bool_unser_iff v n : go_int v ->
  (bool_unser words v = Ok n <-> exists b, n = vbool b /\ bool_denotes words v b).
Proof.
  intros Hg. split.
  - intro H. destruct v as [| t b | t z0 | t f | t s | t nl l | t nl l | t o | t fs | src | k d];
      cbn [bool_unser] in H; try discriminate H; destruct t; try discriminate H.
    + inversion H. exists b. split; [reflexivity | constructor].
    + cbn [go_int] in Hg. revert H. cbv zeta.
      destruct (wrap_i64 z0 =? 1) eqn:E1; [|destruct (wrap_i64 z0 =? 0) eqn:E0]; intro H; try discriminate H.
      * apply Z.eqb_eq in E1. apply (wrap_is_small _ _ 1 Hg) in E1; [|lia]. subst.
        inversion H. exists true. split; [reflexivity | constructor].
      * apply Z.eqb_eq in E0. apply (wrap_is_small _ _ 0 Hg) in E0; [|lia]. subst.
        inversion H. exists false. split; [reflexivity | constructor].
    + revert H. destruct (alookup (to_lower s) words) as [b|] eqn:E; intro H; [|discriminate H].
      inversion H. exists b. split; [reflexivity | constructor; assumption].
  - intros (b & -> & H). destruct H; cbn [bool_unser]; try reflexivity.
    + rewrite H. reflexivity.
Qed.

Lemma enum_int_mem_iff vals z : enum_int_mem vals z = true <-> In z (map fst vals).
Proof.
  unfold enum_int_mem. rewrite existsb_exists, in_map_iff. split.
  - intros (p & Hin & E). apply Z.eqb_eq in E. exists p. tauto.
  - intros (p & E & Hin). exists p. split; [assumption | apply Z.eqb_eq; assumption].
Qed.
Lemma enum_str_mem_iff vals t : enum_str_mem vals t = true <-> In t (map fst vals).
Proof.
  unfold enum_str_mem. rewrite existsb_exists, in_map_iff. split.
  - intros (p & Hin & E). apply String.eqb_eq in E. exists p. tauto.
  - intros (p & E & Hin). exists p. split; [assumption | apply String.eqb_eq; assumption].
Qed.

Lemma enum_int_unser_iff vals u v n : go_int v ->
  (enum_int_unser vals u v = Ok n <-> exists z, n = vi64 z /\ int_denotes u v z /\ In z (map fst vals)).
Proof.
  intros Hg. unfold enum_int_unser. split.
  - destruct (int_mapper u v) as [z|] eqn:E; [|discriminate].
    destruct (enum_int_mem vals z) eqn:M; [|discriminate].
    intro H; inversion H. exists z. split; [reflexivity|]. split; [apply int_mapper_spec; assumption | apply enum_int_mem_iff; assumption].
  - intros (z & -> & Hd & Hm). apply (int_mapper_spec u v z Hg) in Hd. rewrite Hd.
    apply enum_int_mem_iff in Hm. rewrite Hm. reflexivity.
Qed.

Lemma enum_str_unser_iff named vals v n :
  enum_str_unser named vals v = Ok n <->
  exists t, n = VStr (str_enum_type named) t /\ string_denotes v t /\ In t (map fst vals).
Proof.
  unfold enum_str_unser. change (enum_str_type named) with (str_enum_type named). split.
  - destruct (string_mapper v) as [t|] eqn:E; [|discriminate].
    destruct (enum_str_mem vals t) eqn:M; [|discriminate].
    intro H; inversion H. exists t. split; [reflexivity|]. split; [apply string_mapper_spec; assumption | apply enum_str_mem_iff; assumption].
  - intros (t & -> & Hd & Hm). apply string_mapper_spec in Hd. rewrite Hd.
    apply enum_str_mem_iff in Hm. rewrite Hm. reflexivity.
Qed.

Lemma pattern_unser_iff o v n :
  pattern_unser o v = Ok n <-> exists t, n = VRegexp t /\ string_denotes v t /\ o_re_ok o t = true.
Proof.
  unfold pattern_unser. split.
  - destruct (string_mapper v) as [t|] eqn:E; [|discriminate].
    destruct (o_re_ok o t) eqn:M; [|discriminate].
    intro H; inversion H. exists t. split; [reflexivity|]. split; [apply string_mapper_spec; assumption | assumption].
  - intros (t & -> & Hd & Hm). apply string_mapper_spec in Hd. rewrite Hd, Hm. reflexivity.
Qed.

(* ---------- Validate / Serialize on native values, per kind ---------- *)
Lemma int_ser_native mn mx z : in_i64 z = true ->
  int_ser mn mx (vi64 z) = if size_ok mn mx z then Ok (vi64 z) else Err (cerr EBound).
Proof. intros Hi. unfold int_ser, int_bounds, vi64. cbn [conv_int64]. rewrite (wrap_id z Hi). reflexivity. Qed.

Lemma enum_int_ser_native vals z : in_i64 z = true ->
  enum_int_ser vals (vi64 z) = if enum_int_mem vals z then Ok (vi64 z) else Err (cerr EEnum).
Proof. intros Hi. unfold enum_int_ser, vi64. cbn [conv_int64]. rewrite (wrap_id z Hi). reflexivity. Qed.

End WithTables.
