(* Proofs/ATPClientFinal.v — what the inductive invariant of Proofs/ATPClientInv.v gives for MAXIMAL executions
   (states in which no label is enabled) of the ATP client model:

     1. progress without a side condition: a reachable state with an unreturned Execute has an enabled step; hence in a
        final state every Execute has returned; the number of return events of caller i along the execution is 1
     2. the Close half: in a final state of a session without write failures Close has returned nil, the wait group is
        0, the read loop has exited, every signal writer has exited: nothing the client started is left blocked
     3. the ghost invariant for `decoded`: a result of class Ok (in an entry or returned to a caller) is backed by an
        intact work-done message for that run id that a read loop decoded
     4. after the read loop has taken its fatal exit on a broken stream (`noticed`), every Execute that has not returned
        yet returns an error, in every continuation; `invF` (a read-ahead buffer holds messages only; a loop in Fatal has
        the fault at the head of the stream) makes the fatal exit of ANY reachable state establish `noticed` *)
From Coq Require Import Lia.
From Verif Require Import Base.Prelude Base.Str ATP.Msg ATP.Client Proofs.ATPClient Proofs.ATPClientInv.
Local Open Scope nat_scope.

Ltac fbs H :=
  repeat (cbn beta iota zeta in H;
          match type of H with
          | None = Some _ => discriminate H
          | Some _ = Some _ => injection H as H; subst
          | context [if c_hassig ?c then _ else _] => destruct (c_hassig c) eqn:?
          | context [match ?x with _ => _ end] =>
              lazymatch x with
              | context [match _ with _ => _ end] => fail
              | _ => destruct x eqn:?
              end
          end).
Ltac fbg :=
  unfold handle, loop_exit;
  repeat (cbn;
          match goal with
          | |- context [match ?x with _ => _ end] =>
              lazymatch x with
              | context [match _ with _ => _ end] => fail
              | _ => destruct x eqn:?
              end
          end).
Ltac funfold_step H :=
  cbn [step] in H;
  unfold step_caller, step_sig, step_loop, step_closer, step_timeout, step_accept, step_send, cwrite in H.

Section Final.
Variable payload : Type.
Notation state := (state payload).
Notation caller := (caller payload).
Notation event := (event payload).
Notation msg := (msg payload).
Notation loop := (loop payload).
Notation result := (result payload).
Notation session := (session payload).

Definition final (s : state) : Prop := forall l, step s l = None.

(* ------------------------------------------------------------------------------------------------ *)
(* 1. progress, every Execute returns, exactly once                                                  *)
(* ------------------------------------------------------------------------------------------------ *)

Theorem inv_progress : forall s : state, inv s ->
  forall i c, nth_error (callers s) i = Some c -> caller_done c = false -> exists l, step s l <> None.
Proof. intros s I. apply caller_progress; [exact (i_A _ _ I)|apply inv_flight_ok; exact I]. Qed.

Theorem final_all_done : forall s : state, inv s -> final s ->
  forall i c, nth_error (callers s) i = Some c -> caller_done c = true.
Proof.
  intros s I F i c Hc. destruct (caller_done c) eqn:Hd; auto.
  destruct (inv_progress _ I _ _ Hc Hd) as [l Hl]. now rewrite F in Hl.
Qed.

Definition result_at (s : state) (i : nat) : option result :=
  match nth_error (callers s) i with
  | Some c => match c_pc c with CDone v => Some v | _ => None end
  | None => None
  end.
Definition returned (s : state) (i : nat) : bool := match result_at s i with Some _ => true | None => false end.

(* the number of return events of caller i along a label list: steps in which it goes from not returned to returned *)
Fixpoint returns (s : state) (ls : list label) (i : nat) : nat :=
  match ls with
  | [] => 0
  | l :: t => match step s l with
              | Some s' => (if negb (returned s i) && returned s' i then 1 else 0) + returns s' t i
              | None => 0
              end
  end.

Lemma view_pc_nth : forall (l1 l2 : list caller) i, map cview l1 = map cview l2 ->
  option_map (@c_pc payload) (nth_error l1 i) = option_map (@c_pc payload) (nth_error l2 i).
Proof.
  induction l1 as [|x t IH]; intros l2 i E; destruct l2 as [|y u]; try discriminate; auto.
  change (cview x :: map cview t = cview y :: map cview u) in E. injection E as E1 E2 E3 E4.
  destruct i; cbn; [now rewrite E2|auto].
Qed.

(* a result, once returned, is never changed or returned again *)
Lemma result_stable : forall (s s' : state) l i v, step s l = Some s' -> result_at s i = Some v -> result_at s' i = Some v.
Proof.
  intros s s' l i v H R. destruct (step_callers _ _ _ _ H) as [Ev|(j & c & c' & _ & Hc & Hnd & _ & _ & Ecs)].
  - unfold result_at in *. pose proof (view_pc_nth _ _ i Ev) as E.
    destruct (nth_error (callers s') i), (nth_error (callers s) i); cbn in E; try discriminate;
      injection E as E; rewrite E; exact R.
  - unfold result_at in *. rewrite Ecs. destruct (Nat.eq_dec i j) as [->|Hne].
    + rewrite Hc in R. unfold caller_done in Hnd. destruct (c_pc c); discriminate.
    + rewrite nth_error_upd_other; auto.
Qed.

Lemma returns_count : forall ls (s s' : state) i, run s ls = Some s' ->
  returns s ls i + (if returned s i then 1 else 0) = (if returned s' i then 1 else 0).
Proof.
  induction ls as [|l t IH]; intros s s' i H; cbn in *.
  - injection H as <-. reflexivity.
  - destruct (step s l) as [s1|] eqn:Hs; [|discriminate]. specialize (IH _ _ i H).
    destruct (returned s i) eqn:R0; cbn.
    + assert (returned s1 i = true) as R1.
      { unfold returned in *. destruct (result_at s i) eqn:Ra; [|discriminate]. rewrite (result_stable _ _ _ _ _ Hs Ra). reflexivity. }
      rewrite R1 in IH. lia.
    + destruct (returned s1 i); cbn; lia.
Qed.

Lemma returned_done : forall (s : state) i c, nth_error (callers s) i = Some c -> returned s i = caller_done c.
Proof. intros s i c H. unfold returned, result_at, caller_done. rewrite H. destruct (c_pc c); reflexivity. Qed.

Lemma returned_init : forall (se : session) i, returned (init se) i = false.
Proof.
  intros se i. unfold returned, result_at. cbn. destruct (nth_error (map (@init_caller payload) (se_calls se)) i) eqn:E; auto.
  apply init_nth in E. destruct E as (x & _ & ->). reflexivity.
Qed.

Lemma step_skel : forall (s s' : state) l, step s l = Some s' ->
  map (@c_run payload) (callers s') = map (@c_run payload) (callers s).
Proof.
  intros s s' l H. destruct (step_callers _ _ _ _ H) as [Ev|(j & c & c' & _ & Hc & _ & Er & _ & ->)].
  - apply view_run. exact Ev.
  - eapply map_upd_same; eauto.
Qed.

Lemma run_skel : forall ls (s s' : state), run s ls = Some s' ->
  map (@c_run payload) (callers s') = map (@c_run payload) (callers s).
Proof.
  induction ls as [|l t IH]; intros s s' H; cbn in H.
  - now injection H as <-.
  - destruct (step s l) as [s1|] eqn:Hs; [|discriminate]. rewrite (IH _ _ H). eapply step_skel; eauto.
Qed.

(* ------------------------------------------------------------------------------------------------ *)
(* 2. the Close half                                                                                 *)
(* ------------------------------------------------------------------------------------------------ *)

Lemma loop_enabled : forall (s : state) lo, cur s = Some lo -> l_pc lo <> LExited ->
  (l_pc lo = LDecode -> l_buf lo = [] -> from_server s = [] -> False) -> step_loop s 0 <> None.
Proof.
  intros s lo Hcur Hne Hin. unfold step_loop. rewrite Hcur. destruct (l_pc lo) eqn:Hlp; cbn; try discriminate.
  - destruct (l_buf lo) as [|ev rest] eqn:Hb.
    + destruct (from_server s) as [|ev q] eqn:Hf; [exfalso; auto|].
      destruct (is_fault ev) eqn:Hfa; cbn; destruct ev; cbn in *; discriminate.
    + destruct ev; discriminate.
  - destruct (has_pending (entries s)); discriminate.
  - congruence.
Qed.

Lemma has_pending_key : forall es : list (runid * option result), has_pending es = true -> exists r, amem r es = true.
Proof.
  unfold has_pending. intros es H. apply existsb_exists in H. destruct H as [[k v] [Hin _]]. exists k.
  unfold amem. destruct (in_keys_alookup _ es k) as [x Hx].
  - apply in_map_iff. exists (k, v). auto.
  - now rewrite Hx.
Qed.

Lemma final_no_pending : forall s : state, inv s -> wr_left s = None -> final s -> has_pending (entries s) = false.
Proof.
  intros s I Hw F. destruct (has_pending (entries s)) eqn:Hp; auto. exfalso.
  destruct (has_pending_key _ Hp) as [r Hm].
  destruct (e_owner _ _ (i_E _ _ I) _ Hm) as (i & c & Hc & _ & [Hin|[_ Hz]]).
  - pose proof (final_all_done _ I F _ _ Hc) as Hd. unfold caller_done in Hd. destruct (c_pc c); cbn in Hin; discriminate.
  - congruence.
Qed.

Lemma final_loop_dead : forall s : state, inv s -> wr_left s = None -> final s -> loop_live (cur s) = false.
Proof.
  intros s I Hw F. destruct (loop_live (cur s)) eqn:Hl; auto. exfalso. unfold loop_live in Hl.
  destruct (cur s) as [lo|] eqn:Hcur; [|discriminate].
  apply (loop_enabled s lo Hcur).
  - intros E. rewrite E in Hl. discriminate.
  - intros Hlp Hb Hf. pose proof (a_decode _ _ (i_A _ _ I)) as Hd. unfold decode_has_pending in Hd. rewrite Hcur, Hlp in Hd.
    rewrite (final_no_pending _ I Hw F) in Hd. discriminate.
  - exact (F (LLoop 0)).
Qed.

Lemma final_sig_quiet : forall s : state, final s -> cancelled s = true ->
  forall i c, nth_error (callers s) i = Some c -> c_spc c = SNone \/ c_spc c = SExit.
Proof.
  intros s F Hc i c Hi. pose proof (F (LSig i)) as Hs. cbn [step] in Hs. unfold step_sig in Hs. rewrite Hi in Hs.
  destruct (c_spc c); auto; [destruct (cdone s); discriminate|rewrite Hc in Hs; discriminate].
Qed.

Lemma n_sig_zero : forall l : list caller,
  (forall i c, nth_error l i = Some c -> c_spc c = SNone \/ c_spc c = SExit) -> n_sig l = 0.
Proof.
  induction l as [|c t IH]; intros H; cbn; auto. rewrite IH.
  - destruct (H 0 c eq_refl) as [E|E]; unfold sig_live; rewrite E; reflexivity.
  - intros i d Hd. apply (H (S i) d Hd).
Qed.

(* a maximal execution of a session in which Close is called and no write fails ends with: Close returned nil, every
   Execute returned, wait group 0, read loop gone, every signal writer gone *)
Theorem final_closed : forall s : state, inv s -> wr_left s = None -> final s -> closer s <> KNone ->
  closer s = KDone CloseOk /\ wg s = 0 /\ loop_live (cur s) = false /\
  (forall i c, nth_error (callers s) i = Some c -> caller_done c = true /\ (c_spc c = SNone \/ c_spc c = SExit)).
Proof.
  intros s I Hw F Hk.
  pose proof (final_all_done _ I F) as Hdone. pose proof (final_loop_dead _ I Hw F) as Hloop.
  assert (closer s <> KCancel) as Hk2.
  { intros E. pose proof (F LCloser) as Hs. cbn [step] in Hs. unfold step_closer in Hs. rewrite E in Hs.
    assert (forallb (@caller_sent payload) (callers s) = true) as Hall.
    { apply forallb_forall. intros c Hin. apply In_nth_error in Hin. destruct Hin as [i Hi]. specialize (Hdone _ _ Hi).
      unfold caller_done in Hdone. unfold caller_sent. destruct (c_pc c); auto; discriminate. }
    rewrite Hall in Hs. discriminate. }
  assert (cancelled s = true) as Hcan.
  { pose proof (k_cancel _ _ (i_K _ _ I)) as K. destruct (closer s); auto; congruence. }
  pose proof (final_sig_quiet _ F Hcan) as Hq.
  assert (wg s = 0) as Hwg. { rewrite (w_wg _ _ (i_W _ _ I)), Hloop, (n_sig_zero _ Hq). reflexivity. }
  split; [|split; [exact Hwg|split; [exact Hloop|intros i c Hi; split; eauto]]].
  pose proof (k_nofail _ _ (i_K _ _ I) Hw) as K2.
  pose proof (F LCloser) as Hs. cbn [step] in Hs. unfold step_closer in Hs.
  destruct (closer s) as [| | | | | |[| |]]; try congruence; try (exfalso; exact K2).
  - destruct (cdone s); discriminate.
  - unfold cwrite in Hs. rewrite Hw in Hs. discriminate.
  - rewrite Hwg in Hs. discriminate.
Qed.

(* without Close: every Execute returned and the read loop has exited (signal writers may still wait on a channel the
   harness never closes - that is the harness's doing, not the client's) *)
Theorem final_open : forall s : state, inv s -> wr_left s = None -> final s ->
  loop_live (cur s) = false /\ forall i c, nth_error (callers s) i = Some c -> caller_done c = true.
Proof. intros s I Hw F. split; [apply final_loop_dead; auto|apply final_all_done; auto]. Qed.

Lemma step_wr_none : forall (s s' : state) l, step s l = Some s' -> wr_left s = None -> wr_left s' = None.
Proof. intros s s' l H Hw. destruct l; funfold_step H; rewrite ?Hw in H; fbs H; fbg; cbn; auto. Qed.

Lemma run_wr_none : forall ls (s s' : state), run s ls = Some s' -> wr_left s = None -> wr_left s' = None.
Proof.
  induction ls as [|l t IH]; intros s s' H Hw; cbn in H.
  - now injection H as <-.
  - destruct (step s l) as [s1|] eqn:Hs; [|discriminate]. eapply IH; eauto. eapply step_wr_none; eauto.
Qed.

Lemma step_closer_none : forall (s s' : state) l, step s l = Some s' -> closer s' = KNone -> closer s = KNone.
Proof.
  intros s s' l H E. destruct l; funfold_step H; fbs H; revert E; fbg; cbn; auto; try (intros; discriminate).
Qed.

Lemma run_closer_none : forall ls (s s' : state), run s ls = Some s' -> closer s' = KNone -> closer s = KNone.
Proof.
  induction ls as [|l t IH]; intros s s' H E; cbn in H.
  - now injection H as <-.
  - destruct (step s l) as [s1|] eqn:Hs; [|discriminate]. eapply step_closer_none; eauto.
Qed.

(* ------------------------------------------------------------------------------------------------ *)
(* 3. no fabricated success: the ghost `decoded`                                                     *)
(* ------------------------------------------------------------------------------------------------ *)

Definition backed (s : state) (r : runid) (v : result) : Prop :=
  match v with
  | ROk o d => exists st lg, In (WorkDone r st o d lg) (decoded s)
  | RErr _ => True
  end.

Record invD (s : state) : Prop := mkInvD {
  d_entries : forall r v, In (r, Some v) (entries s) -> backed s r v;
  d_callers : forall i c v, nth_error (callers s) i = Some c -> c_pc c = CDone v -> backed s (c_run c) v;
  d_handle : forall lo m, cur s = Some lo -> l_pc lo = LHandle m -> In m (decoded s) }.

Lemma backed_mono : forall (s s1 : state) r v, (forall m, In m (decoded s) -> In m (decoded s1)) -> backed s r v -> backed s1 r v.
Proof. intros s s1 r v H B. destruct v; cbn in *; auto. destruct B as (st & lg & B). eauto. Qed.

Lemma invD_ext : forall s s1 : state, invD s -> map cview (callers s1) = map cview (callers s) ->
  (forall x, In x (entries s1) -> In x (entries s)) -> (forall m, In m (decoded s) -> In m (decoded s1)) ->
  (forall lo m, cur s1 = Some lo -> l_pc lo = LHandle m -> In m (decoded s1)) -> invD s1.
Proof.
  intros s s1 [D1 D2 D3] Ev He Hd Hh. constructor; auto.
  - intros r v Hin. eapply backed_mono; eauto.
  - intros i c1 v Hc Hpc. destruct (view_nth _ _ _ _ _ Ev Hc) as (c & Hc' & Er & Epc). rewrite <- Er.
    eapply backed_mono; eauto. eapply D2; eauto. congruence.
Qed.

Lemma invD_upd : forall (s s1 : state) i c c', invD s -> nth_error (callers s) i = Some c ->
  callers s1 = upd (callers s) i c' -> c_run c' = c_run c ->
  (forall v, c_pc c' = CDone v -> backed s (c_run c) v) ->
  (forall x, In x (entries s1) -> In x (entries s) \/ snd x = None) -> decoded s1 = decoded s ->
  (forall lo m, cur s1 = Some lo -> l_pc lo = LHandle m -> cur s = Some lo) -> invD s1.
Proof.
  intros s s1 i c c' [D1 D2 D3] Hc Ecs Er Hv He Ed Hcur.
  assert (forall r v, backed s r v -> backed s1 r v) as Hb.
  { intros r v. apply backed_mono. rewrite Ed. auto. }
  constructor.
  - intros r v Hin. destruct (He _ Hin) as [H|H]; [auto|discriminate].
  - intros j d v Hj Hpc. rewrite Ecs in Hj. apply nth_error_upd_inv in Hj. destruct Hj as [[-> ->]|[Hne Hj]].
    + rewrite Er. auto.
    + apply Hb. eapply D2; eauto.
  - intros lo m H1 H2. rewrite Ed. eapply D3; eauto.
Qed.

Lemma invD_caller : forall (s : state) i s', invD s -> step_caller s i = Some s' -> invD s'.
Proof.
  intros s i s' ID H. unfold step_caller in H. destruct (nth_error (callers s) i) as [c|] eqn:Hc; [|discriminate].
  destruct (c_pc c) eqn:Hpc.
  - destruct (negb (pred_done s c)); [discriminate|].
    destruct (c_hassig c); cbn in H; destruct (amem (c_run c) (entries s));
      try (destruct (c_sigfrom c); cbn in H; destruct (running s) eqn:Hr); injection H as <-;
      (eapply invD_upd with (c := c); [exact ID|exact Hc|reflexivity|reflexivity| | |reflexivity|]; cbn;
       [intros v Hv; try discriminate Hv; injection Hv as <-; exact I
       |intros x Hin; try (apply in_app_or in Hin; destruct Hin as [Hin|[<-|[]]]); auto
       |intros lo m H1 H2; try exact H1; injection H1 as <-; discriminate H2]).
  - destruct (cwrite s _) as [s1|] eqn:Hw; injection H as <-.
    + apply cwrite_fields in Hw. destruct Hw as (E1 & E2 & E3 & _ & _ & _ & _ & _ & _ & _ & _ & _ & _ & E14 & _).
      eapply invD_upd with (c := c); [exact ID|exact Hc|cbn; rewrite E1; reflexivity|reflexivity| | |exact E14|]; cbn.
      * intros v Hv. discriminate Hv.
      * intros x Hin. rewrite E2 in Hin. auto.
      * intros lo m H1 H2. rewrite E3 in H1. exact H1.
    + eapply invD_upd with (c := c); [exact ID|exact Hc|reflexivity|reflexivity| | |reflexivity|]; cbn; auto.
      intros v Hv. injection Hv as <-. exact I.
  - destruct (alookup (c_run c) (entries s)) as [[v|]|] eqn:Hl; injection H as <-.
    + eapply invD_upd with (c := c); [exact ID|exact Hc|reflexivity|reflexivity| | |reflexivity|]; cbn; auto.
      * intros v0 Hv. injection Hv as <-. apply (d_entries _ ID). eapply alookup_In_pair; eauto.
      * intros x Hin. left. eapply In_adel_incl; eauto.
    + eapply invD_upd with (c := c); [exact ID|exact Hc|reflexivity|reflexivity| | |reflexivity|]; cbn; auto.
      intros v Hv. discriminate Hv.
    + eapply invD_upd with (c := c); [exact ID|exact Hc|reflexivity|reflexivity| | |reflexivity|]; cbn; auto.
      intros v Hv. injection Hv as <-. exact I.
  - destruct (alookup (c_run c) (entries s)) as [[v|]|] eqn:Hl; try discriminate. injection H as <-.
    eapply invD_upd with (c := c); [exact ID|exact Hc|reflexivity|reflexivity| | |reflexivity|]; cbn; auto.
    + intros v0 Hv. injection Hv as <-. apply (d_entries _ ID). eapply alookup_In_pair; eauto.
    + intros x Hin. left. eapply In_adel_incl; eauto.
  - discriminate.
Qed.

Lemma In_fan : forall (es : list (runid * option result)) (w : result) r v,
  In (r, Some v) (map (fun e => (fst e, Some w)) es) -> v = w.
Proof. intros es w r v H. apply in_map_iff in H. destruct H as [x [E _]]. congruence. Qed.

Lemma invD_handle : forall (s : state) lo m, invD s -> cur s = Some lo -> l_pc lo = LHandle m -> invD (handle s lo m).
Proof.
  intros s lo m ID Hcur Hlp. pose proof (d_handle _ ID _ _ Hcur Hlp) as Hm.
  assert (forall s1 : state, map cview (callers s1) = map cview (callers s) -> decoded s1 = decoded s ->
          (forall lo' m', cur s1 = Some lo' -> l_pc lo' = LHandle m' -> False) ->
          (forall r v, In (r, Some v) (entries s1) -> In (r, Some v) (entries s) \/ backed s r v) -> invD s1) as K.
  { intros s1 Ev Ed Hc He. destruct ID as [D1 D2 D3]. constructor.
    - intros r v Hin. apply (backed_mono s s1); [rewrite Ed; auto|]. destruct (He _ _ Hin); auto.
    - intros i c1 v Hc1 Hpc. destruct (view_nth _ _ _ _ _ Ev Hc1) as (c & Hc' & Er & Epc). rewrite <- Er.
      apply (backed_mono s s1); [rewrite Ed; auto|]. eapply D2; eauto. congruence.
    - intros lo' m' H1 H2. exfalso. eauto. }
  unfold handle, loop_exit, fan_out, send_result.
  destruct m; cbn; repeat match goal with |- context [if ?b then _ else _] => destruct b; cbn end;
    (apply K; cbn;
     [first [reflexivity|apply deliver_view]|reflexivity|intros lo' m' H1 H2; injection H1 as <-; discriminate H2|]);
    intros r v Hin; try (apply In_fan in Hin; subst; right; exact I);
    try (apply In_aset in Hin; destruct Hin as [Hin|Hin]; [auto|injection Hin as -> ->; right; cbn; eauto]); auto.
Qed.

Lemma invD_loop : forall (s s' : state) k, invD s -> step_loop s k = Some s' -> invD s'.
Proof.
  intros s s' k ID H. unfold step_loop in H. destruct (cur s) as [lo|] eqn:Hcur; [|discriminate].
  destruct (l_pc lo) eqn:Hlp.
  - assert (forall ev buf (s0 : state), callers s0 = callers s -> entries s0 = entries s -> decoded s0 = decoded s ->
            after_dec ev buf s0 = Some s' -> invD s') as K.
    { intros ev buf s0 E1 E2 E3 Ha. destruct ev; injection Ha as <-;
        (eapply invD_ext; [exact ID|cbn; now rewrite E1|cbn; intros x Hx; now rewrite <- E2|cbn; rewrite ?E3; intros; auto using in_or_app|]);
        cbn; intros lo' m' H1 H2; injection H1 as <-; cbn in H2; try discriminate H2.
      destruct (needs_handling m); [|discriminate H2]. injection H2 as <-. apply in_or_app. right. left. reflexivity. }
    destruct (l_buf lo) as [|ev rest].
    + destruct (from_server s) as [|ev q]; [discriminate|]. destruct (is_fault ev).
      * destruct (Nat.eqb k 0); [|discriminate]. eapply (K ev [] s); eauto.
      * destruct (Nat.leb k (List.length q) && all_msgs (firstn k q)); [|discriminate].
        eapply (K ev (firstn k q) (set_from_server s (skipn k q))); eauto.
    + destruct (Nat.eqb k 0); [|discriminate]. eapply (K ev rest s); eauto.
  - destruct (Nat.eqb k 0); [|discriminate]. injection H as <-. apply invD_handle; auto.
  - destruct (Nat.eqb k 0); [|discriminate]. injection H as <-. unfold loop_exit, fan_out.
    destruct ID as [D1 D2 D3]. constructor; cbn; auto.
    + intros r v Hin. apply In_fan in Hin. subst. exact I.
    + intros lo' m' H1 H2. injection H1 as <-. discriminate H2.
  - destruct (negb (Nat.eqb k 0)); [discriminate|].
    destruct (has_pending (entries s)); injection H as <-; unfold loop_exit; destruct ID as [D1 D2 D3]; constructor; cbn; auto;
      intros lo' m' H1 H2; injection H1 as <-; discriminate H2.
  - discriminate.
Qed.

Lemma step_frameD : forall (s s' : state) l, step s l = Some s' ->
  ((exists i, l = LSig i) \/ l = LCloser \/ l = LTimeout \/ l = LPeerAccept \/ exists r, l = LPeerSend r) ->
  entries s' = entries s /\ decoded s' = decoded s /\ cur s' = cur s.
Proof.
  intros s s' l H [[i ->]|[ -> |[ -> |[ -> |[r ->]]]]]; funfold_step H; fbs H; cbn; auto.
Qed.

Theorem invD_step : forall (s s' : state) l, invD s -> step s l = Some s' -> invD s'.
Proof.
  intros s s' l ID H. destruct l as [i|i|k| | | |r];
    try (cbn [step] in H; first [eapply invD_caller; eauto; fail|eapply invD_loop; eauto; fail]);
    (destruct (step_callers _ _ _ _ H) as [Ev|(j & c & c' & Hl & _)]; [|discriminate Hl]);
    (destruct (step_frameD _ _ _ H) as (E1 & E2 & E3); [eauto 8|]);
    (eapply invD_ext; [exact ID|exact Ev|now rewrite E1|now rewrite E2|]);
    intros lo m H1 H2; rewrite E2; rewrite E3 in H1; eapply (d_handle _ ID); eauto.
Qed.

Lemma invD_init : forall se : session, invD (init se).
Proof.
  intros se. constructor; cbn.
  - intros r v [].
  - intros i c v Hc Hp. apply init_nth in Hc. destruct Hc as (x & _ & ->). discriminate Hp.
  - intros lo m H. discriminate H.
Qed.

Theorem invD_run : forall ls (s s' : state), invD s -> run s ls = Some s' -> invD s'.
Proof.
  induction ls as [|l t IH]; intros s s' I H; cbn in H.
  - now injection H as <-.
  - destruct (step s l) as [s1|] eqn:Hs; [|discriminate]. eapply IH; [|exact H]. eapply invD_step; eauto.
Qed.

(* ------------------------------------------------------------------------------------------------ *)
(* 4. after the fatal exit on a broken stream every later return is an error                          *)
(* ------------------------------------------------------------------------------------------------ *)

(* the stream is broken: a sticky fault sits at its head *)
Definition poisoned (s : state) : Prop := exists f q, from_server s = f :: q /\ is_fault f = true.

(* the client has NOTICED the broken stream: no entry holds a success, and a live read loop (one started after the
   fatal exit) has an empty read-ahead buffer and can only meet the fault again *)
Record noticed (s : state) : Prop := mkNoticed {
  n_poison : poisoned s;
  n_entries : forall r o d, ~ In (r, Some (ROk o d)) (entries s);
  n_loop : forall lo, cur s = Some lo -> l_pc lo = LExited \/ (l_buf lo = [] /\ (l_pc lo = LDecode \/ l_pc lo = LFatal)) }.

Lemma result_at_view : forall (s s' : state) i, map cview (callers s') = map cview (callers s) -> result_at s' i = result_at s i.
Proof.
  intros s s' i Ev. unfold result_at. pose proof (view_pc_nth _ _ i Ev) as E.
  destruct (nth_error (callers s') i), (nth_error (callers s) i); cbn in E; try discriminate; auto.
  injection E as E. now rewrite E.
Qed.

Lemma run_result_stable : forall ls (s s' : state) i v, run s ls = Some s' -> result_at s i = Some v -> result_at s' i = Some v.
Proof.
  induction ls as [|l t IH]; intros s s' i v H R; cbn in H.
  - now injection H as <-.
  - destruct (step s l) as [s1|] eqn:Hs; [|discriminate]. eapply IH; eauto. eapply result_stable; eauto.
Qed.

(* the fatal exit of the read loop on a broken stream establishes `noticed` *)
Lemma fatal_exit_noticed : forall (s s' : state) lo, cur s = Some lo -> l_pc lo = LFatal -> poisoned s ->
  step s (LLoop 0) = Some s' -> noticed s'.
Proof.
  intros s s' lo Hcur Hlp Hp H. cbn in H. unfold step_loop in H. rewrite Hcur, Hlp in H. cbn in H. injection H as <-.
  unfold loop_exit, fan_out. constructor; cbn.
  - exact Hp.
  - intros r o d Hin. apply In_fan in Hin. discriminate.
  - intros lo' H1. injection H1 as <-. left. reflexivity.
Qed.

Lemma noticed_caller : forall (s : state) i s', noticed s -> step_caller s i = Some s' ->
  noticed s' /\ forall j v, result_at s j = None -> result_at s' j = Some v -> exists e, v = RErr e.
Proof.
  intros s i s' [N1 N2 N3] H. unfold step_caller in H. destruct (nth_error (callers s) i) as [c|] eqn:Hc; [|discriminate].
  assert (forall (s1 : state) c', callers s1 = upd (callers s) i c' -> from_server s1 = from_server s ->
            (forall x, In x (entries s1) -> In x (entries s) \/ snd x = None) ->
            (cur s1 = cur s \/ cur s1 = Some (mkLoop LDecode [])) ->
            (forall v, c_pc c' = CDone v -> exists e, v = RErr e) ->
            noticed s1 /\ forall j v, result_at s j = None -> result_at s1 j = Some v -> exists e, v = RErr e) as K.
  { intros s1 c' Ecs Ef He Ecur Hv. split.
    - constructor.
      + destruct N1 as (f & q & Hq & Hi). exists f, q. rewrite Ef. auto.
      + intros r o d Hin. destruct (He _ Hin) as [Hin'|Hn]; [eapply N2; eauto|discriminate Hn].
      + intros lo Hlo. destruct Ecur as [Ecur|Ecur]; rewrite Ecur in Hlo; [auto|]. injection Hlo as <-. right. cbn. auto.
    - intros j v R0 R1. unfold result_at in *. rewrite Ecs in R1. destruct (Nat.eq_dec j i) as [->|Hne].
      + rewrite (nth_error_upd_same _ _ _ _ _ Hc) in R1. destruct (c_pc c') eqn:Hpc; try discriminate. injection R1 as <-. auto.
      + rewrite nth_error_upd_other in R1 by auto. rewrite R0 in R1. discriminate. }
  destruct (c_pc c) eqn:Hpc.
  - destruct (negb (pred_done s c)); [discriminate|].
    destruct (c_hassig c); cbn in H; destruct (amem (c_run c) (entries s));
      try (destruct (c_sigfrom c); cbn in H; destruct (running s)); injection H as <-;
      (eapply K; [reflexivity|reflexivity| | |]; cbn;
       [intros x Hin; try (apply in_app_or in Hin; destruct Hin as [Hin|[<-|[]]]); auto
       |auto
       |intros v Hv; try discriminate Hv; injection Hv as <-; eauto]).
  - destruct (cwrite s _) as [s1|] eqn:Hw; injection H as <-.
    + apply cwrite_fields in Hw. destruct Hw as (E1 & E2 & E3 & E4 & _).
      eapply K; [cbn; rewrite E1; reflexivity|exact E4| | |]; cbn.
      * intros x Hin. rewrite E2 in Hin. auto.
      * auto.
      * intros v Hv. discriminate Hv.
    + eapply K; [reflexivity|reflexivity| | |]; cbn; auto. intros v Hv. injection Hv as <-. eauto.
  - destruct (alookup (c_run c) (entries s)) as [[v|]|] eqn:Hl; injection H as <-.
    + eapply K; [reflexivity|reflexivity| | |]; cbn; auto.
      * intros x Hin. left. eapply In_adel_incl; eauto.
      * intros v0 Hv. injection Hv as <-. apply alookup_In_pair in Hl. destruct v; [exfalso; eapply N2; eauto|eauto].
    + eapply K; [reflexivity|reflexivity| | |]; cbn; auto. intros v Hv. discriminate Hv.
    + eapply K; [reflexivity|reflexivity| | |]; cbn; auto. intros v Hv. injection Hv as <-. eauto.
  - destruct (alookup (c_run c) (entries s)) as [[v|]|] eqn:Hl; try discriminate. injection H as <-.
    eapply K; [reflexivity|reflexivity| | |]; cbn; auto.
    + intros x Hin. left. eapply In_adel_incl; eauto.
    + intros v0 Hv. injection Hv as <-. apply alookup_In_pair in Hl. destruct v; [exfalso; eapply N2; eauto|eauto].
  - discriminate.
Qed.

Lemma noticed_loop : forall (s s' : state) k, noticed s -> step_loop s k = Some s' -> noticed s' /\ callers s' = callers s.
Proof.
  intros s s' k [N1 N2 N3] H. unfold step_loop in H. destruct (cur s) as [lo|] eqn:Hcur; [|discriminate].
  destruct N1 as (f & q & Hq & Hi).
  destruct (N3 _ eq_refl) as [Hx|[Hb [Hp|Hp]]]; rewrite Hp in H || rewrite Hx in H; try discriminate.
  - rewrite Hb, Hq, Hi in H. destruct (Nat.eqb k 0); [|discriminate].
    assert (s' = set_cur s (Some (mkLoop LFatal []))) as -> by (destruct f; cbn in Hi; try discriminate; injection H as <-; reflexivity).
    split; [|reflexivity]. constructor; cbn; auto.
    + exists f, q. auto.
    + intros lo' H1. injection H1 as <-. right. cbn. auto.
  - destruct (Nat.eqb k 0); [|discriminate]. injection H as <-. unfold loop_exit, fan_out. split; [|reflexivity].
    constructor; cbn.
    + exists f, q. auto.
    + intros r o d Hin. apply In_fan in Hin. discriminate.
    + intros lo' H1. injection H1 as <-. left. reflexivity.
Qed.

Lemma poisoned_ext : forall s s1 : state, (from_server s1 = from_server s \/ exists x, from_server s1 = from_server s ++ [x]) ->
  poisoned s -> poisoned s1.
Proof.
  unfold poisoned. intros s s1 [E|[x E]] (f & q & Hq & Hi); rewrite E, Hq; [exists f, q|exists f, (q ++ [x])]; auto.
Qed.

Lemma step_frameN : forall (s s' : state) l, step s l = Some s' ->
  ((exists i, l = LSig i) \/ l = LCloser \/ l = LTimeout \/ l = LPeerAccept \/ exists r, l = LPeerSend r) ->
  from_server s' = from_server s \/ exists x, from_server s' = from_server s ++ [x].
Proof.
  intros s s' l H [[i ->]|[ -> |[ -> |[ -> |[r ->]]]]]; funfold_step H; fbs H; cbn; auto; right; eexists; reflexivity.
Qed.

(* invF (every session): a read-ahead buffer holds messages only, and a loop in Fatal got there by meeting the fault at
   the head of the stream, where it still is.  Hence `poisoned` need not be assumed at the fatal exit. *)
Record invF (s : state) : Prop := mkInvF {
  f_buf : forall lo, cur s = Some lo -> all_msgs (l_buf lo) = true;
  f_fatal : forall lo, cur s = Some lo -> l_pc lo = LFatal -> poisoned s }.

Lemma step_frameF : forall (s s' : state) l, step s l = Some s' -> (forall k, l <> LLoop k) ->
  (cur s' = cur s \/ cur s' = Some (mkLoop LDecode [])) /\
  (from_server s' = from_server s \/ exists x, from_server s' = from_server s ++ [x]).
Proof.
  intros s s' l H N. destruct l; try (exfalso; eapply N; reflexivity); funfold_step H; fbs H; fbg; cbn;
    (split; [first [left; reflexivity|right; reflexivity]|first [left; reflexivity|right; eexists; reflexivity]]).
Qed.

Lemma handle_cur : forall (s : state) lo m,
  exists pc, cur (handle s lo m) = Some (mkLoop pc (l_buf lo)) /\ pc <> LFatal /\ from_server (handle s lo m) = from_server s.
Proof.
  intros s lo m. unfold handle, loop_exit, fan_out, send_result.
  destruct m; cbn; repeat match goal with |- context [if ?b then _ else _] => destruct b; cbn end;
    eexists; (split; [reflexivity|split; [discriminate|reflexivity]]).
Qed.

Lemma invF_loop : forall (s s' : state) k, invF s -> step_loop s k = Some s' -> invF s'.
Proof.
  intros s s' k [F1 F2] H. unfold step_loop in H. destruct (cur s) as [lo|] eqn:Hcur; [|discriminate].
  pose proof (F1 _ eq_refl) as Hb.
  destruct (l_pc lo) eqn:Hlp.
  - destruct (l_buf lo) as [|ev rest] eqn:Hbuf.
    + destruct (from_server s) as [|ev q] eqn:Hfs; [discriminate|]. destruct (is_fault ev) eqn:Hfa.
      * destruct (Nat.eqb k 0); [|discriminate]. change (after_dec ev [] s = Some s') in H.
        destruct (after_dec_fields _ _ _ _ _ H) as (_ & _ & _ & _ & _ & _ & _ & E8 & E9).
        constructor; intros lo' H1; rewrite E9 in H1; injection H1 as <-; cbn.
        -- reflexivity.
        -- intros _. unfold poisoned. exists ev, q. rewrite E8, Hfs. auto.
      * destruct (Nat.leb k (List.length q) && all_msgs (firstn k q)) eqn:Hk; [|discriminate].
        apply andb_true_iff in Hk. destruct Hk as [_ Hk].
        change (after_dec ev (firstn k q) (set_from_server s (skipn k q)) = Some s') in H.
        destruct (after_dec_fields _ _ _ _ _ H) as (_ & _ & _ & _ & _ & _ & _ & E8 & E9).
        constructor; intros lo' H1; rewrite E9 in H1; injection H1 as <-; cbn.
        -- exact Hk.
        -- intros H2. destruct ev; cbn in Hfa, H2; try discriminate. destruct (needs_handling m); discriminate.
    + destruct (Nat.eqb k 0); [|discriminate]. change (after_dec ev rest s = Some s') in H.
      destruct (after_dec_fields _ _ _ _ _ H) as (_ & _ & _ & _ & _ & _ & _ & E8 & E9).
      unfold all_msgs in Hb. cbn in Hb. apply andb_true_iff in Hb. destruct Hb as [Hev Hrest].
      constructor; intros lo' H1; rewrite E9 in H1; injection H1 as <-; cbn.
      * exact Hrest.
      * intros H2. destruct ev; cbn in Hev, H2; try discriminate. destruct (needs_handling m); discriminate.
  - destruct (Nat.eqb k 0); [|discriminate]. injection H as <-.
    destruct (handle_cur s lo m) as (pc & Ec & Hpc & Ef).
    constructor; intros lo' H1; rewrite Ec in H1; injection H1 as <-; cbn; auto. intros H2. congruence.
  - destruct (Nat.eqb k 0); [|discriminate]. injection H as <-. unfold loop_exit, fan_out.
    constructor; cbn; intros lo' H1; injection H1 as <-; cbn; auto. intros H2. discriminate.
  - destruct (negb (Nat.eqb k 0)); [discriminate|].
    destruct (has_pending (entries s)); injection H as <-; unfold loop_exit;
      (constructor; cbn; intros lo' H1; injection H1 as <-; cbn; auto; intros H2; discriminate).
  - discriminate.
Qed.

Theorem invF_step : forall (s s' : state) l, invF s -> step s l = Some s' -> invF s'.
Proof.
  intros s s' l IF H.
  destruct l as [i|i|k| | | |r]; try (cbn [step] in H; eapply invF_loop; eauto; fail);
    destruct IF as [F1 F2];
    (destruct (step_frameF _ _ _ H) as [Ec Ef]; [intros k0; discriminate|]);
    (constructor; intros lo H1;
     (destruct Ec as [Ec|Ec]; rewrite Ec in H1; [|injection H1 as <-; cbn; try reflexivity; intros H2; discriminate H2]);
     [eapply F1; eauto|intros H2; eapply poisoned_ext; [exact Ef|eapply F2; eauto]]).
Qed.

Lemma invF_init : forall se : session, invF (init se).
Proof. intros se. constructor; cbn; intros lo H; discriminate H. Qed.

Theorem invF_run : forall ls (s s' : state), invF s -> run s ls = Some s' -> invF s'.
Proof.
  induction ls as [|l t IH]; intros s s' I H; cbn in H.
  - now injection H as <-.
  - destruct (step s l) as [s1|] eqn:Hs; [|discriminate]. eapply IH; [|exact H]. eapply invF_step; eauto.
Qed.

(* in a reachable state of ANY session the fatal exit of the read loop establishes `noticed` *)
Theorem reachable_fatal_exit_noticed : forall (se : session) ls (s s' : state) lo,
  run (init se) ls = Some s -> cur s = Some lo -> l_pc lo = LFatal -> step s (LLoop 0) = Some s' -> noticed s'.
Proof.
  intros se ls s s' lo H Hcur Hlp Hs. eapply fatal_exit_noticed; eauto.
  assert (invF s) as IF by (eapply invF_run; [apply invF_init|exact H]). eapply (f_fatal _ IF); eauto.
Qed.

Theorem noticed_step : forall (s s' : state) l, noticed s -> step s l = Some s' ->
  noticed s' /\ forall j v, result_at s j = None -> result_at s' j = Some v -> exists e, v = RErr e.
Proof.
  intros s s' l N H. destruct l as [i|i|k| | | |r].
  - cbn [step] in H. eapply noticed_caller; eauto.
  - destruct (step_callers _ _ _ _ H) as [Ev|(j & c & c' & Hl & _)]; [|discriminate Hl].
    destruct (step_frameD _ _ _ H) as (E1 & E2 & E3); [eauto 8|]. assert (E4 := step_frameN _ _ _ H ltac:(eauto 8)).
    split; [|intros j v R0 R1; rewrite (result_at_view _ _ j Ev), R0 in R1; discriminate].
    destruct N as [N1 N2 N3]. constructor; rewrite ?E1, ?E3; auto. eapply poisoned_ext; eauto 8.
  - cbn [step] in H. destruct (noticed_loop _ _ _ N H) as [N' Ec]. split; auto.
    intros j v R0 R1. unfold result_at in *. rewrite Ec, R0 in R1. discriminate.
  - destruct (step_callers _ _ _ _ H) as [Ev|(j & c & c' & Hl & _)]; [|discriminate Hl].
    destruct (step_frameD _ _ _ H) as (E1 & E2 & E3); [eauto 8|]. assert (E4 := step_frameN _ _ _ H ltac:(eauto 8)).
    split; [|intros j v R0 R1; rewrite (result_at_view _ _ j Ev), R0 in R1; discriminate].
    destruct N as [N1 N2 N3]. constructor; rewrite ?E1, ?E3; auto. eapply poisoned_ext; eauto 8.
  - destruct (step_callers _ _ _ _ H) as [Ev|(j & c & c' & Hl & _)]; [|discriminate Hl].
    destruct (step_frameD _ _ _ H) as (E1 & E2 & E3); [eauto 8|]. assert (E4 := step_frameN _ _ _ H ltac:(eauto 8)).
    split; [|intros j v R0 R1; rewrite (result_at_view _ _ j Ev), R0 in R1; discriminate].
    destruct N as [N1 N2 N3]. constructor; rewrite ?E1, ?E3; auto. eapply poisoned_ext; eauto 8.
  - destruct (step_callers _ _ _ _ H) as [Ev|(j & c & c' & Hl & _)]; [|discriminate Hl].
    destruct (step_frameD _ _ _ H) as (E1 & E2 & E3); [eauto 8|]. assert (E4 := step_frameN _ _ _ H ltac:(eauto 8)).
    split; [|intros j v R0 R1; rewrite (result_at_view _ _ j Ev), R0 in R1; discriminate].
    destruct N as [N1 N2 N3]. constructor; rewrite ?E1, ?E3; auto. eapply poisoned_ext; eauto 8.
  - destruct (step_callers _ _ _ _ H) as [Ev|(j & c & c' & Hl & _)]; [|discriminate Hl].
    destruct (step_frameD _ _ _ H) as (E1 & E2 & E3); [eauto 8|]. assert (E4 := step_frameN _ _ _ H ltac:(eauto 8)).
    split; [|intros j v R0 R1; rewrite (result_at_view _ _ j Ev), R0 in R1; discriminate].
    destruct N as [N1 N2 N3]. constructor; rewrite ?E1, ?E3; auto. eapply poisoned_ext; eauto 8.
Qed.

(* once noticed, every Execute that has not returned yet can only return an error - in every continuation *)
Theorem noticed_run : forall ls (s s' : state), noticed s -> run s ls = Some s' ->
  forall i v, result_at s i = None -> result_at s' i = Some v -> exists e, v = RErr e.
Proof.
  induction ls as [|l t IH]; intros s s' N H i v R0 R1; cbn in H.
  - injection H as <-. congruence.
  - destruct (step s l) as [s1|] eqn:Hs; [|discriminate]. destruct (noticed_step _ _ _ N Hs) as [N' Hr].
    destruct (result_at s1 i) as [w|] eqn:Rw.
    + pose proof (run_result_stable _ _ _ _ _ H Rw) as E. rewrite E in R1. injection R1 as <-. eapply Hr; eauto.
    + eapply IH; eauto.
Qed.

End Final.

Arguments poisoned {payload}. Arguments noticed {payload}.
Arguments final {payload}. Arguments returns {payload}. Arguments returned {payload}. Arguments result_at {payload}.
Arguments backed {payload}. Arguments invD {payload}.
