(* Proofs/C03Main.v — the statements of property C03 about the model's own functions
   (unser / validate / serialize of Schema/Ops.v), assembled from Proofs/C03Obj.v. *)
From Coq Require Import Lia Permutation.
From Verif Require Import Base.Prelude Base.Str Base.Float Base.GoVal
  Schema.Regex Schema.Units Schema.Syntax Schema.Ops Schema.SpecObj Proofs.OpsLemmas Proofs.C03Obj.
Open Scope string_scope.

Section Main.
Variable words : list (string * bool).
Variable pu : units -> string -> option fl.
Notation unser := (unser words pu).
Notation validate := (validate words pu).
Notation serialize := (serialize words pu).
Notation compat := (compat words pu).

Lemma c03_object_result f e id u props v n :
  nodup_str (map fst props) = true -> raw_keys_unique v = true ->
  unser (S f) e (SObject id u props) v = Ok n ->
  object_accepts (unser f e) (e_or e) props v n.
Proof.
  intros Hnd Hku H. rewrite unser_object_eq in H. apply object_sound; [apply nodup_str_NoDup; exact Hnd | exact Hku | exact H].
Qed.

Lemma c03_object_complete f e id u props v n :
  nodup_str (map fst props) = true -> raw_keys_unique v = true ->
  object_accepts (unser f e) (e_or e) props v n ->
  exists n', unser (S f) e (SObject id u props) v = Ok n' /\ same_entries n n'.
Proof.
  intros Hnd Hku H. destruct (object_complete _ _ props v n (proj1 (nodup_str_NoDup _) Hnd) Hku H) as (n' & Hn & Hs).
  exists n'. rewrite unser_object_eq. split; assumption.
Qed.

Lemma c03_object_iff f e id u props v :
  nodup_str (map fst props) = true -> raw_keys_unique v = true ->
  ((exists n, unser (S f) e (SObject id u props) v = Ok n) <->
   (exists n, object_accepts (unser f e) (e_or e) props v n)).
Proof.
  intros Hnd Hku. split.
  - intros (n & H). exists n. apply (c03_object_result f e id u); assumption.
  - intros (n & H). destruct (c03_object_complete f e id u props v n Hnd Hku H) as (n' & Hn & _). exists n'; exact Hn.
Qed.

Lemma c03_object_order_independent f e id u props props' v n :
  Permutation props props' -> nodup_str (map fst props) = true -> raw_keys_unique v = true ->
  unser (S f) e (SObject id u props) v = Ok n ->
  exists n', unser (S f) e (SObject id u props') v = Ok n' /\ same_entries n n'.
Proof.
  intros HP Hnd Hku H.
  assert (Hnd' : nodup_str (map fst props') = true).
  { apply nodup_str_NoDup. eapply Permutation_NoDup; [apply Permutation_map; exact HP | apply nodup_str_NoDup; exact Hnd]. }
  apply (c03_object_complete f e id u props' v n Hnd' Hku).
  apply (object_accepts_perm _ _ props props'); [exact HP | apply nodup_str_NoDup; exact Hnd|].
  apply (c03_object_result f e id u); assumption.
Qed.

Lemma c03_object_reject_order_independent f e id u props props' v :
  Permutation props props' -> nodup_str (map fst props) = true -> raw_keys_unique v = true ->
  ((exists n, unser (S f) e (SObject id u props) v = Ok n) <-> (exists n, unser (S f) e (SObject id u props') v = Ok n)).
Proof.
  intros HP Hnd Hku.
  assert (Hnd' : nodup_str (map fst props') = true).
  { apply nodup_str_NoDup. eapply Permutation_NoDup; [apply Permutation_map; exact HP | apply nodup_str_NoDup; exact Hnd]. }
  split; intros (n & H).
  - destruct (c03_object_order_independent f e id u props props' v n HP Hnd Hku H) as (n' & Hn & _). eauto.
  - destruct (c03_object_order_independent f e id u props' props v n (Permutation_sym HP) Hnd' Hku H) as (n' & Hn & _). eauto.
Qed.

Lemma c03_oneof_routes f e types ik field inlined v n :
  unser (S f) e (SOneOf types ik field inlined) v = Ok n <->
  oneof_routes (unser f e) types ik field inlined v n.
Proof. apply oneof_unser_iff. Qed.

Lemma c03_paths_agree_object f e id u props v :
  (validate (S f) e (SObject id u props) v = Ok tt <->
     obj_native_ok (fun s x => validate f e s x = Ok tt) props v) /\
  ((exists w, serialize (S f) e (SObject id u props) v = Ok w) <->
     obj_native_ok (fun s x => exists y, serialize f e s x = Ok y) props v).
Proof. split; [apply validate_object_iff | apply serialize_object_iff]. Qed.

Lemma c03_paths_agree_oneof f e types ik field inlined v :
  (validate (S (S f)) e (SOneOf types ik field inlined) v = Ok tt <->
     exists key member d',
       oneof_native_routes (fun m x => compat f e m x = Ok tt) types ik field inlined v key member d'
       /\ validate (S f) e member d' = Ok tt) /\
  ((exists w, serialize (S (S f)) e (SOneOf types ik field inlined) v = Ok w) <->
     exists key member d',
       oneof_native_routes (fun m x => compat f e m x = Ok tt) types ik field inlined v key member d'
       /\ exists x xs, serialize (S f) e member d' = Ok x /\ is_str_any_map x = Some xs).
Proof.
  split.
  - rewrite validate_oneof_iff. split; intros (key & member & d' & Hf & Hv); exists key, member, d';
      (split; [apply oneof_find_iff; exact Hf | exact Hv]).
  - rewrite serialize_oneof_iff. split; intros (key & member & d' & Hf & Hv); exists key, member, d';
      (split; [apply oneof_find_iff; exact Hf | exact Hv]).
Qed.

End Main.
