(* Proofs/C05ImageEx.v — non-vacuity of C05_transparent_values: the session of Proofs/C05TransparentEx.v run by the
   VALUE-LEVEL system ATP/SystemVal.v (real values in the callers, on the wire and in the results), same schedule. *)
From Verif Require Import Base.Prelude Base.Str Base.Float Base.GoVal
  Schema.Regex Schema.Units Schema.FloatUnits Schema.Syntax Schema.Ops Schema.Cbor Generated.Tables
  ATP.Msg ATP.System Call.Step ATP.SystemV ATP.SystemVal Proofs.CborNorm.
From Verif Require Proofs.ATPClientInv.
From Verif Require Import Proofs.C05Examples Proofs.C05CloseEx Proofs.C05TransparentEx Proofs.C05Image.
Local Open Scope string_scope.
Local Open Scope list_scope.

Definition exv_vfinal : option vstate := vsys_run exv_D exv_calls (vsys_init exv_calls true) exv_sched.
(* the kernel compares these two names with their bodies by unfolding the NAME (never by evaluating the run lazily) *)
Strategy expand [exv_final exv_vfinal].

Lemma exv_values :
  exists vs, exv_vfinal = Some vs /\ vsys_final exv_D exv_calls vs /\
             vsys_res vs 0 = Some exv_ra /\ vsys_res vs 1 = Some exv_rb /\ vsys_res vs 2 = Some (C.RErr C.ErrStep) /\
             C.closer (vcl vs) = C.KDone C.CloseOk.
Proof.
  destruct exv_hyps as (Hn & Hw & _).
  destruct exv_transparent as (s & Hs & Fs & R0 & _ & R1 & _ & R2 & _ & K).
  exists (img exv_D exv_calls s). unfold exv_vfinal. unfold exv_final in Hs.
  split; [rewrite (vsys_is_image exv_D exv_calls true Hn Hw); rewrite Hs; reflexivity|].
  split; [exact (image_final exv_D exv_calls true Hn Hw _ _ Hs Fs)|].
  clear Hs Fs. rewrite !res_img. exact (conj R0 (conj R1 (conj R2 K))).
Qed.

(* the same by direct evaluation of the value-level step function: the results are real values *)
Lemma exv_values_computed :
  match exv_vfinal with
  | Some vs => vsys_res vs 0 = Some exv_ra /\ vsys_res vs 1 = Some exv_rb /\ vsys_res vs 2 = Some (C.RErr C.ErrStep)
  | None => False
  end.
Proof. vm_compute. repeat split; reflexivity. Qed.
