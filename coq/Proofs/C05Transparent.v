(* Proofs/C05Transparent.v — C05 END TO END: the protocol layer (Proofs/C05Close.v sys_refines_close over the composition
   ATP/System.v) composed with the data layer (Proofs/CborNorm.v norm_invariant) at the data-level instantiation
   ATP/SystemV.v.

     call_step_norm     CallStep on the CBOR round trip of a decodable value IS CallStep on the value: same result, same
                        handler log (the handler saw the same unserialized input), same step-data tables
     call_step_indep    the result and the handler's argument do not depend on run id / step-data tables
     transparent        in every maximal execution of a session (with or without Close) over decodable inputs, Execute
                        number i returns v_spec of ITS OWN input value: the in-process CallStep result, output data
                        after one CBOR round trip *)
From Coq Require Import Lia.
From Verif Require Import Base.Prelude Base.Str Base.Float Base.GoVal
  Schema.Regex Schema.Units Schema.Syntax Schema.Ops Schema.Cbor ATP.Msg ATP.System Call.Step ATP.SystemV Proofs.CborNorm.
From Verif Require Proofs.ATPClientInv Proofs.C05System Proofs.C05Close Proofs.C05Param.
Local Open Scope string_scope.
Local Open Scope list_scope.
Local Open Scope nat_scope.

Module CI := Verif.Proofs.ATPClientInv.

Lemma call_step_norm : forall words pu e fuel h ps p run sid n v, decodable v ->
  call_step words pu e fuel h ps p run sid (cbor_norm n v) = call_step words pu e fuel h ps p run sid v.
Proof.
  intros words pu e fuel h ps p run sid n v Hd. unfold call_step. destruct (alookup sid p) as [st|]; [|reflexivity].
  unfold s_unser. rewrite (norm_invariant words pu n v Hd). reflexivity.
Qed.

Lemma call_step_indep : forall words pu e fuel h ps ps' p run run' sid raw,
  fst (fst (call_step words pu e fuel h ps p run sid raw)) = fst (fst (call_step words pu e fuel h ps' p run' sid raw)) /\
  map log_arg (snd (fst (call_step words pu e fuel h ps p run sid raw))) =
  map log_arg (snd (fst (call_step words pu e fuel h ps' p run' sid raw))).
Proof.
  intros. unfold call_step. destruct (alookup sid p) as [st|]; [|split; reflexivity].
  destruct (s_unser words pu e fuel (sd_input st) raw) as [n0|er|w|]; try (split; reflexivity).
  destruct (s_validate words pu e fuel (sd_input st) n0) as [u|er|w|]; try (split; reflexivity).
  destruct (setup_step_data (sd_has_init st) run (tab_of ps sid)) as [t1 d1].
  destruct (setup_step_data (sd_has_init st) run' (tab_of ps' sid)) as [t2 d2].
  destruct (h sid n0) as [oid odata]. split; reflexivity.
Qed.

Lemma v_call_norm : forall D n v, decodable v -> v_call D (cbor_norm n v) = v_call D v.
Proof. intros D n v Hd. unfold v_call. apply call_step_norm. exact Hd. Qed.

(* how v_spec and v_seen read on the success path: the data the caller receives is cbor_norm of the SERIALIZED output of
   the handler, the handler having been invoked on the UNSERIALIZED input *)
Lemma v_spec_reads : forall D v st n oid odata os w,
  alookup "s" (v_plugin D) = Some st ->
  unser (v_words D) (v_pu D) (v_fuel D) (v_env D) (sd_input st) v = Ok n ->
  validate (v_words D) (v_pu D) (v_fuel D) (v_env D) (sd_input st) n = Ok tt ->
  v_handler D "s" n = (oid, odata) ->
  alookup oid (sd_outputs st) = Some os ->
  validate (v_words D) (v_pu D) (v_fuel D) (v_env D) os odata = Ok tt ->
  serialize (v_words D) (v_pu D) (v_fuel D) (v_env D) os odata = Ok w ->
  v_spec D v = C.ROk oid (cbor_norm (v_nout D) w) /\ v_seen D v = [n].
Proof.
  intros D v st n oid odata os w Hs Hu Hv Hh Ho Hov Hos.
  unfold v_spec, v_seen, v_result, v_call, call_step. rewrite Hs. unfold s_unser. rewrite Hu. unfold s_validate. rewrite Hv.
  destruct (setup_step_data (sd_has_init st) "" (tab_of [] "s")) as [t1 d1]. rewrite Hh.
  unfold check_output, s_validate, s_serialize. rewrite Ho, Hov, Hos. split; reflexivity.
Qed.

(* ---- the token names ---- *)
Lemma tok_from_runs : forall l k, map (@C.cs_run Z) (tok_from k l) = map (@C.cs_run gval) l.
Proof. induction l as [|x t IH]; intros k; cbn; [reflexivity|]. rewrite IH. reflexivity. Qed.

Lemma tok_from_afters : forall l k, map (@C.cs_after Z) (tok_from k l) = map (@C.cs_after gval) l.
Proof. induction l as [|x t IH]; intros k; cbn; [reflexivity|]. rewrite IH. reflexivity. Qed.

Lemma tok_from_nth : forall l k i x, nth_error l i = Some x ->
  nth_error (tok_from k l) i = Some (C.mkCall (C.cs_run x) (C.cs_after x) (C.cs_sig x) (C.cs_sigfrom x) (Z.of_nat (k + i))).
Proof.
  induction l as [|a t IH]; intros k [|i] x H; cbn in H; try discriminate.
  - injection H as <-. cbn. rewrite Nat.add_0_r. reflexivity.
  - cbn. rewrite (IH (S k) i x H). replace (k + S i) with (S k + i) by lia. reflexivity.
Qed.

Lemma tok_from_named : forall l k y, In y (tok_from k l) -> exists x, In x l /\ C.cs_run y = C.cs_run x.
Proof.
  induction l as [|a t IH]; intros k y H; cbn in H; [destruct H|]. destruct H as [<-|H].
  - exists a. split; [left; reflexivity|reflexivity].
  - destruct (IH _ _ H) as (x & Hx & E). exists x. split; [right; exact Hx|exact E].
Qed.

Lemma v_input_nth : forall l i x, nth_error l i = Some x -> v_input l (Z.of_nat i) = C.cs_input x.
Proof.
  intros l i x H. unfold v_input. destruct (Z.ltb_spec (Z.of_nat i) 0) as [Hl|_]; [lia|].
  rewrite Nat2Z.id, H. reflexivity.
Qed.

Lemma v_den_out : forall D l i o w, v_result D (v_wire_in D l (Z.of_nat i)) = SOk (o, w) ->
  v_den D l (-1 - Z.of_nat i)%Z = cbor_norm (v_nout D) w.
Proof.
  intros D l i o w H. unfold v_den. destruct (Z.ltb_spec (-1 - Z.of_nat i) 0) as [_|Hge]; [|lia].
  replace (-1 - (-1 - Z.of_nat i))%Z with (Z.of_nat i) by lia. unfold v_outval. rewrite H. reflexivity.
Qed.

Section Transparent.
Variable D : vcfg.
Variable vcalls : list (C.callspec gval).
Variable close : bool.
Hypothesis runs_named : forall x, In x vcalls -> C.cs_run x <> "".
Hypothesis session_wf : CI.wf_session (C.mkSession vcalls close [] None None).
Hypothesis inputs_decodable : forall x, In x vcalls -> decodable (C.cs_input x).

Lemma tok_named : forall y, In y (tok_calls vcalls) -> C.cs_run y <> "".
Proof. intros y H. destruct (tok_from_named _ _ _ H) as (x & Hx & ->). auto. Qed.

Lemma tok_wf : CI.wf_session (sys_session (tok_calls vcalls) close).
Proof.
  destruct session_wf as [N A]. split; cbn in *; unfold tok_calls.
  - rewrite tok_from_runs. exact N.
  - rewrite tok_from_afters. exact A.
Qed.

(* what the server's CallStep on the decoded value is, for call number i *)
Lemma wire_in_call : forall i x, nth_error vcalls i = Some x ->
  v_call D (v_wire_in D vcalls (Z.of_nat i)) = v_call D (C.cs_input x).
Proof.
  intros i x H. unfold v_wire_in. rewrite (v_input_nth _ _ _ H). apply v_call_norm.
  apply inputs_decodable. eapply nth_error_In; eauto.
Qed.

Theorem transparent : forall sched s,
  sys_run (v_scfg D vcalls) (sys_init (tok_calls vcalls) close) sched = Some s -> sys_final (v_scfg D vcalls) s ->
  (forall i x, nth_error vcalls i = Some x ->
     vsys_result D vcalls s i = Some (v_spec D (C.cs_input x)) /\
     v_call D (v_wire_in D vcalls (Z.of_nat i)) = v_call D (C.cs_input x)) /\
  (close = true -> C.closer (cl s) = C.KDone C.CloseOk).
Proof.
  intros sched s H F.
  destruct (Verif.Proofs.C05Close.sys_refines_close (v_scfg D vcalls) (tok_calls vcalls) close tok_named tok_wf sched s H F)
    as [R K].
  split; [|intros Hc; apply (K Hc)].
  intros i x Hx. pose proof (wire_in_call _ _ Hx) as Ew. split; [|exact Ew].
  pose proof (tok_from_nth _ 0 _ _ Hx) as Ht. cbn [Nat.add] in Ht.
  unfold vsys_result. rewrite (R _ _ Ht). cbn [option_map C.cs_input]. f_equal.
  unfold spec_callstep, S.step_outcome, v_spec. cbn [sc_srv sc_data v_scfg S.c_step_known S.c_beh].
  assert (v_result D (v_wire_in D vcalls (Z.of_nat i)) = v_result D (C.cs_input x)) as Er
    by (unfold v_result; rewrite Ew; reflexivity).
  destruct (alookup "s" (v_plugin D)) as [st|] eqn:Hs.
  - rewrite Er. destruct (v_result D (C.cs_input x)) as [[o w]|ce|w|] eqn:Ev; cbn [v_beh v_out].
    + rewrite (v_den_out _ _ _ _ _ Er). reflexivity.
    + destruct ce; reflexivity.
    + reflexivity.
    + reflexivity.
  - assert (v_result D (C.cs_input x) = SErr CENoSuchStep) as Ev.
    { unfold v_result, v_call, call_step. rewrite Hs. reflexivity. }
    rewrite Ev. reflexivity.
Qed.

End Transparent.

(* ---- why the payloads of the composition may be read as names (Proofs/C05Param.v): the client model over the real
   values, started on the session as the harness states it, has exactly the images of the executions of the client model
   over tokens - same labels, every payload t replaced by the value v_input t it names ---- *)
Module PM := Verif.Proofs.C05Param.

Lemma tok_from_image : forall l k (den : Z -> gval),
  (forall i x, nth_error l i = Some x -> den (Z.of_nat (k + i)) = C.cs_input x) ->
  map (PM.map_callspec Z gval den) (tok_from k l) = l.
Proof.
  induction l as [|a t IH]; intros k den H; cbn [tok_from map]; [reflexivity|]. f_equal.
  - unfold PM.map_callspec. cbn. pose proof (H 0 a eq_refl) as E. rewrite Nat.add_0_r in E. rewrite E. destruct a; reflexivity.
  - apply IH. intros i x Hx. replace (S k + i) with (k + S i) by lia. apply (H (S i) x Hx).
Qed.

Theorem client_over_values : forall (vcalls : list (C.callspec gval)) close ls,
  C.run (C.init (C.mkSession vcalls close [] None None)) ls =
  option_map (PM.map_state Z gval (v_input vcalls)) (C.run (C.init (sys_session (tok_calls vcalls) close)) ls).
Proof.
  intros vcalls close ls. rewrite <- PM.run_map. f_equal. unfold sys_session.
  rewrite <- (PM.init_map Z gval (v_input vcalls)). unfold tok_calls.
  rewrite (tok_from_image vcalls 0 (v_input vcalls)); [reflexivity|].
  intros i x Hx. cbn [Nat.add]. apply v_input_nth. exact Hx.
Qed.
