(* Proofs/C05ClientAbs.v — footprint facts about the client model (ATP/Client.v) that let the composition
   ATP/System.v REUSE the client model's conservation invariant (Proofs/ATPClientInv.v `inv`, proved for the
   scripted peer) with the real server in the peer's place:

     step_plan_comm   a step of a client goroutine (and the pipe step LPeerAccept) neither reads nor writes the scripted
                      peer's plan: it commutes with replacing p_plan by any other plan.  Hence the composition, which
                      never uses p_plan, can be viewed at every moment as a client-model state whose plan is "what the
                      real server still owes" (Proofs/C05Live.v plan_of);
     inv_push         the arrival of further events on the server -> client stream preserves `inv`;
     step_send_spec   what the scripted peer's send step does when it is enabled;
     step_to_server2  what one step does to the client -> server stream, with the writer's program counter;
     step_peer_frame  a step of a client goroutine leaves the peer's bookkeeping alone. *)
From Coq Require Import Lia.
From Verif Require Import Base.Prelude Base.Str ATP.Msg ATP.Client Proofs.ATPClient Proofs.ATPClientInv Proofs.ATPClientFinal.
Local Open Scope nat_scope.
Local Open Scope string_scope.
Local Open Scope list_scope.

Section Abs.
Variable payload : Type.
Notation state := (state payload).
Notation msg := (msg payload).
Notation event := (event payload).

Lemma handle_plan_comm : forall (s : state) p lo m, handle (set_p_plan s p) lo m = set_p_plan (handle s lo m) p.
Proof.
  intros s p lo m. destruct s. unfold handle, loop_exit, fan_out, send_result.
  destruct m; cbn; repeat match goal with |- context [if ?b then _ else _] => destruct b; cbn end; reflexivity.
Qed.

Lemma cwrite_plan_comm : forall (s : state) p m,
  cwrite (set_p_plan s p) m = match cwrite s m with Some s' => Some (set_p_plan s' p) | None => None end.
Proof. intros s p m. destruct s. unfold cwrite. cbn. destruct wr_left as [[|n]|]; reflexivity. Qed.

Lemma step_plan_comm : forall (s : state) p l, (forall r, l <> LPeerSend r) ->
  step (set_p_plan s p) l = match step s l with Some s' => Some (set_p_plan s' p) | None => None end.
Proof.
  intros s p l Hl. destruct l as [i|i|k| | | |r]; cbn [step].
  - unfold step_caller. change (callers (set_p_plan s p)) with (callers s).
    destruct (nth_error (callers s) i) as [c|]; [|reflexivity].
    destruct (c_pc c); try reflexivity.
    + change (pred_done (set_p_plan s p) c) with (pred_done s c). destruct (negb (pred_done s c)); [reflexivity|].
      destruct s. cbn. destruct (c_hassig c); cbn; destruct (amem (c_run c) entries); cbn; try reflexivity;
        destruct (c_sigfrom c); cbn; destruct running; cbn; reflexivity.
    + rewrite cwrite_plan_comm. destruct (cwrite s _) as [s1|]; [destruct s1|destruct s]; reflexivity.
    + change (entries (set_p_plan s p)) with (entries s).
      destruct (alookup (c_run c) (entries s)) as [[v|]|]; destruct s; reflexivity.
    + change (entries (set_p_plan s p)) with (entries s).
      destruct (alookup (c_run c) (entries s)) as [[v|]|]; destruct s; reflexivity.
  - unfold step_sig. change (callers (set_p_plan s p)) with (callers s).
    destruct (nth_error (callers s) i) as [c|]; [|reflexivity].
    destruct (c_spc c); try reflexivity.
    + change (cdone (set_p_plan s p)) with (cdone s). destruct (cdone s); destruct s; reflexivity.
    + change (cancelled (set_p_plan s p)) with (cancelled s). destruct (cancelled s); [destruct s; reflexivity|].
      destruct (c_sleft c).
      * destruct (c_sclose c); [destruct s|]; reflexivity.
      * rewrite cwrite_plan_comm. destruct (cwrite s _) as [s1|]; [destruct s1|destruct s]; reflexivity.
  - unfold step_loop. change (cur (set_p_plan s p)) with (cur s).
    destruct (cur s) as [lo|]; [|reflexivity].
    destruct (l_pc lo).
    + change (from_server (set_p_plan s p)) with (from_server s).
      destruct (l_buf lo) as [|ev rest].
      * destruct (from_server s) as [|ev q]; [reflexivity|]. destruct (is_fault ev).
        -- destruct (Nat.eqb k 0); [|reflexivity]. destruct ev; destruct s; reflexivity.
        -- destruct (Nat.leb k (List.length q) && all_msgs (firstn k q)); [|reflexivity].
           destruct ev; destruct s; reflexivity.
      * destruct (Nat.eqb k 0); [|reflexivity]. destruct ev; destruct s; reflexivity.
    + destruct (Nat.eqb k 0); [|reflexivity]. rewrite handle_plan_comm. reflexivity.
    + destruct (Nat.eqb k 0); [|reflexivity]. destruct s; reflexivity.
    + destruct (negb (Nat.eqb k 0)); [reflexivity|]. change (entries (set_p_plan s p)) with (entries s).
      destruct (has_pending (entries s)); destruct s; reflexivity.
    + reflexivity.
  - unfold step_closer. change (closer (set_p_plan s p)) with (closer s).
    destruct (closer s); try reflexivity.
    + change (callers (set_p_plan s p)) with (callers s). destruct (forallb _ _); [destruct s|]; reflexivity.
    + change (cdone (set_p_plan s p)) with (cdone s). destruct (cdone s); destruct s; reflexivity.
    + rewrite cwrite_plan_comm. destruct (cwrite s _) as [s1|]; [destruct s1|destruct s]; reflexivity.
    + change (wg (set_p_plan s p)) with (wg s). destruct (Nat.eqb (wg s) 0); [destruct s|]; reflexivity.
    + change (wg (set_p_plan s p)) with (wg s). destruct (Nat.eqb (wg s) 0); [destruct s|]; reflexivity.
  - unfold step_timeout. change (closer (set_p_plan s p)) with (closer s).
    destruct (closer s); try reflexivity.
    change (wg (set_p_plan s p)) with (wg s). destruct (Nat.eqb (wg s) 0); [|destruct s]; reflexivity.
  - unfold step_accept. change (to_server (set_p_plan s p)) with (to_server s).
    destruct (to_server s) as [|m q]; [reflexivity|]. destruct m; destruct s; reflexivity.
  - exfalso. eapply Hl; reflexivity.
Qed.

(* the arrival of events *)
Definition pushev (s : state) (evs : list event) : state := set_from_server s (from_server s ++ evs).

Lemma inv_push : forall (s : state) evs, inv s -> inv (pushev s evs).
Proof.
  intros s evs [[A1 A2 A3 A4] [E1 E2 E3 E4 E5] [W1 W2] [K1 K2] [P1 P2 P3 P4]]. constructor.
  - constructor; auto.
  - constructor; auto.
  - constructor; auto.
  - constructor; auto.
  - constructor; cbn; auto.
    + intros i c Hc Hp Hl. specialize (P2 i c Hc Hp Hl). unfold in_flight in *. cbn. rewrite existsb_app.
      unfold owed in *. cbn.
      destruct (existsb (decisive (c_run c)) (from_server s)); [reflexivity|].
      destruct (held (c_run c) (cur s)); [rewrite orb_true_r; reflexivity|].
      cbn in P2. rewrite P2. apply orb_true_r.
    + intros Hd. rewrite existsb_app. rewrite (P3 Hd). reflexivity.
Qed.

(* the scripted peer's send step, when the script for run r is exactly [ev] and no fault is scripted *)
Lemma step_send_spec : forall (s : state) r ev rest, p_dead s = false -> p_fault s = None -> str_in r (p_acc s) = true ->
  alookup r (p_plan s) = Some (ev :: rest) ->
  step s (LPeerSend r) = Some (set_p_plan (pushev s [ev]) (aset r rest (p_plan s))).
Proof.
  intros s r ev rest Hd Hf Ha Hp. cbn [step]. unfold step_send. rewrite Hd, Ha, Hp, Hf. cbn. reflexivity.
Qed.

Lemma step_send_enabled : forall (s : state) r, step s (LPeerSend r) <> None ->
  str_in r (p_acc s) = true /\ exists ev rest, alookup r (p_plan s) = Some (ev :: rest).
Proof.
  intros s r H. cbn [step] in H. unfold step_send in H.
  destruct (p_dead s); cbn in H; [congruence|]. destruct (str_in r (p_acc s)); cbn in H; [|congruence].
  split; auto. destruct (alookup r (p_plan s)) as [[|ev rest]|]; try congruence. eauto.
Qed.

(* what one step does to the client -> server stream *)
Lemma step_to_server2 : forall (s s' : state) l, step s l = Some s' ->
  to_server s' = to_server s \/
  (exists m, to_server s = m :: to_server s' /\ l = LPeerAccept) \/
  (exists i c, nth_error (callers s) i = Some c /\ c_pc c = CSend /\
               to_server s' = to_server s ++ [WorkStart (c_run c) "s" (c_input c)]) \/
  (exists r d, to_server s' = to_server s ++ [Signal r "sg" d]) \/
  (closer s = KSend /\ to_server s' = to_server s ++ [ClientDone]).
Proof.
  intros s s' l H. destruct l; funfold_step H; fbs H; fbg; cbn;
    first [left; reflexivity
          |right; left; eexists; split; reflexivity
          |right; right; left; do 2 eexists;
           split; [first [reflexivity|eassumption]|split; [first [reflexivity|eassumption]|reflexivity]]
          |right; right; right; left; do 2 eexists; reflexivity
          |right; right; right; right; split; [first [reflexivity|assumption]|reflexivity]].
Qed.

Lemma step_peer_frame : forall (s s' : state) l, step s l = Some s' -> (forall r, l <> LPeerSend r) ->
  p_dead s' = p_dead s /\ p_fault s' = p_fault s /\ p_plan s' = p_plan s /\
  (l <> LPeerAccept -> p_acc s' = p_acc s).
Proof.
  intros s s' l H Hl. destruct l; try (exfalso; eapply Hl; reflexivity); funfold_step H; fbs H; fbg; cbn;
    repeat split; auto; intros; congruence.
Qed.

Lemma step_accept_spec : forall (s s' : state), step s LPeerAccept = Some s' ->
  exists m q, to_server s = m :: q /\ to_server s' = q /\
              p_acc s' = match m with WorkStart r _ _ => r :: p_acc s | _ => p_acc s end.
Proof.
  intros s s' H. cbn [step] in H. unfold step_accept in H. destruct (to_server s) as [|m q]; [discriminate|].
  exists m, q. destruct m; injection H as <-; cbn; auto.
Qed.

Lemma step_closer_knone : forall (s s' : state) l, step s l = Some s' -> closer s = KNone -> closer s' = KNone.
Proof.
  intros s s' l H Hk. destruct l; funfold_step H; rewrite ?Hk in H; fbs H; fbg; cbn; auto.
Qed.

End Abs.
