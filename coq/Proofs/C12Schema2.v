(* Proofs/C12Schema2.v — order independence on the schema side for Validate, Serialize and data-mode
   ValidateCompatibility (with the one-of member lookup they share): the accept / reject decision does
   not depend on the order of any association list of the schema or of the environment's tables.
   Continues Proofs/C12Schema.v (Unserialize). *)
From Coq Require Import Permutation Lia.
From Verif Require Import Base.Prelude Base.Str Base.Float Base.GoVal
  Schema.Regex Schema.Units Schema.Syntax Schema.Ops Schema.Wf Schema.Perm
  Proofs.OpsEq Proofs.C04Inv Proofs.C04NoPanic Proofs.C12Order Proofs.C12Lookup Proofs.C12History Proofs.C12Schema.
Open Scope string_scope.

Lemma ok_seq {A B} (o1 : outcome A) (o2 : outcome B) : is_ok (_ <- o1 ;; o2) = is_ok o1 && is_ok o2.
Proof. destruct o1; reflexivity. Qed.

Lemma is_ok_mapM {A B} (g : A -> outcome B) l : is_ok (mapM g l) = forallb (fun x => is_ok (g x)) l.
Proof.
  induction l as [|x t IH]; cbn; [reflexivity|].
  destruct (g x); cbn; [|reflexivity|reflexivity|reflexivity].
  rewrite <- IH. destruct (mapM g t); reflexivity.
Qed.

(* what two runs of the one-of member lookup on related schemas have in common *)
Definition of_rel (o o' : outcome (okey * schema * gval)) : Prop :=
  match o, o' with
  | Ok (k, m, d), Ok (k', m', d') => k = k' /\ d = d' /\ perm_schema m m'
  | Ok _, _ | _, Ok _ => False
  | _, _ => True
  end.

Ltac same_scrut :=
  repeat match goal with
         | |- is_ok (match ?d with _ => _ end) = is_ok (match ?d with _ => _ end) => destruct d; try reflexivity
         | |- is_ok (if ?d then _ else _) = is_ok (if ?d then _ else _) => destruct d; try reflexivity
         end.

Ltac same_scrut_of :=
  repeat match goal with
         | |- of_rel (match ?d with _ => _ end) (match ?d with _ => _ end) => destruct d; try exact I
         | |- of_rel (if ?d then _ else _) (if ?d then _ else _) => destruct d; try exact I
         end.

Section Rest.
Variable words : list (string * bool).
Variable pu : units -> string -> option fl.
Notation unser := (unser words pu).
Notation validate := (validate words pu).
Notation serialize := (serialize words pu).
Notation compat := (compat words pu).
Notation oneof_find := (oneof_find words pu).
Notation WF := (Inv wf_local).

Definition ord_at (f : nat) : Prop :=
  forall e e', perm_env e e' -> nodup_env e = true ->
    (forall s s' v, perm_schema s s' -> WF e s -> WF e' s' ->
       is_ok (validate f e s v) = is_ok (validate f e' s' v)) /\
    (forall ts ts1 ts' ik fld i v,
       Forall2 (fun a b => fst a = fst b /\ perm_schema (snd a) (snd b)) ts ts1 -> Permutation ts1 ts' ->
       WF e (SOneOf ts ik fld i) -> WF e' (SOneOf ts' ik fld i) ->
       of_rel (oneof_find f e ts ik fld i v) (oneof_find f e' ts' ik fld i v)) /\
    (forall s s' v, perm_schema s s' -> WF e s -> WF e' s' ->
       is_ok (serialize f e s v) = is_ok (serialize f e' s' v)) /\
    (forall s s' v, perm_schema s s' -> WF e s -> WF e' s' ->
       is_ok (compat f e s v) = is_ok (compat f e' s' v)).

Lemma wf_obj_nodup e id u ps : WF e (SObject id u ps) -> nodup_str (map fst ps) = true.
Proof. intros H. apply inv_here in H. cbn in H. apply andb_prop in H. tauto. Qed.
Lemma wf_one_nodup e ts ik f i : WF e (SOneOf ts ik f i) -> nodup_by okey_eqb (map fst ts) = true.
Proof. intros H. apply inv_here in H. cbn in H. apply andb_prop in H. tauto. Qed.
Lemma wf_sco_nodup e os root : WF e (SScope os root) -> nodup_str (map fst os) = true.
Proof. intros H. apply inv_here in H. cbn in H. apply andb_prop in H as [H _]. apply andb_prop in H. tauto. Qed.

Lemma nodup_env_enter e os : nodup_env e = true -> nodup_str (map fst os) = true -> nodup_env (env_enter e os) = true.
Proof.
  unfold nodup_env. cbn [env_enter e_self e_ext]. intros H Ho. apply andb_prop in H as [_ Hx]. now rewrite Ho, Hx.
Qed.

Lemma ord_all : forall f, ord_at f.
Proof.
  induction f as [|f IH]; intros e e' He Hnd.
  { repeat split; intros; try reflexivity; try exact I. }
  pose proof (IH e e' He Hnd) as (IHv & IHo & IHs & IHc).
  pose proof (unser_order words pu f) as IHu.
  (* ---------- the one-of member lookup ---------- *)
  assert (HO : forall ts ts1 ts' ik fld i val,
             Forall2 (fun a b => fst a = fst b /\ perm_schema (snd a) (snd b)) ts ts1 -> Permutation ts1 ts' ->
             WF e (SOneOf ts ik fld i) -> WF e' (SOneOf ts' ik fld i) ->
             of_rel (oneof_find (S f) e ts ik fld i val) (oneof_find (S f) e' ts' ik fld i val)).
  { intros ts ts1 ts' ik fld i val H H0 Hwf Hwf'. rewrite !(oneof_find_S words pu). cbv beta iota zeta.
    pose proof (wf_one_nodup _ _ _ _ _ Hwf) as Hnts.
    same_scrut_of.
    all: match goal with
         | |- of_rel (match find (fun ks => okey_eqb (fst ks) ?key) _ with _ => _ end) _ =>
             pose proof (rel_find key _ _ _ Hnts H H0) as Hf;
             destruct (find (fun ks : okey * schema => okey_eqb (fst ks) key) ts) as [[k1 m]|] eqn:E1;
             destruct (find (fun ks : okey * schema => okey_eqb (fst ks) key) ts') as [[k2 m']|] eqn:E2;
             try contradiction; [|exact I]
         end.
    all: apply find_some in E1 as [E1 _]; apply find_some in E2 as [E2 _].
    all: match goal with
         | |- of_rel (bind (rewrap_path (Ops.compat _ _ _ _ ?mm ?cl)) _) _ =>
             assert (Hc : is_ok (compat f e m cl) = is_ok (compat f e' m' cl))
               by (apply IHc; [exact Hf | exact (inv_member _ _ _ _ _ _ (k1, m) Hwf E1) | exact (inv_member _ _ _ _ _ _ (k2, m') Hwf' E2)]);
             destruct (compat f e m cl), (compat f e' m' cl); cbn in Hc; try discriminate; cbn; auto
         end. }
  (* ---------- validate ---------- *)
  assert (HV : forall s s' val, perm_schema s s' -> WF e s -> WF e' s' ->
             is_ok (validate (S f) e s val) = is_ok (validate (S f) e' s' val)).
  { intros s s' val Hs Hwf Hwf'. rewrite !(validate_S words pu).
    destruct Hs; cbv beta iota zeta; try reflexivity.
    - unfold enum_int_ser. destruct (conv_int64 val); [|reflexivity]. now rewrite (enum_int_mem_perm _ _ z H).
    - unfold enum_str_ser. destruct (conv_string val); [|reflexivity]. now rewrite (enum_str_mem_perm _ _ s H).
    - destruct val; try reflexivity.
      match goal with |- context [size_ok mn mx ?z] => destruct (size_ok mn mx z) end; [|reflexivity].
      rewrite !ok_then_ok by reflexivity. apply ok_mapMi_cong. intros j x. unfold seg. rewrite !ok_map_err.
      apply IHv; [assumption | exact (inv_list _ _ _ _ _ Hwf) | exact (inv_list _ _ _ _ _ Hwf')].
    - destruct val; try reflexivity.
      match goal with |- context [size_ok mn mx ?z] => destruct (size_ok mn mx z) end; [|reflexivity].
      rewrite !is_ok_forM. apply forallb_ext'. intros kv. unfold seg. rewrite !ok_seq, !ok_map_err.
      rewrite (IHv k k' (fst kv) Hs1 (inv_map_k _ _ _ _ _ _ Hwf) (inv_map_k _ _ _ _ _ _ Hwf')).
      now rewrite (IHv v v' (snd kv) Hs2 (inv_map_v _ _ _ _ _ _ Hwf) (inv_map_v _ _ _ _ _ _ Hwf')).
    - unfold property in *. pose proof (wf_obj_nodup _ _ _ _ Hwf) as Hnps.
      destruct (is_str_any_map val) as [kvs|]; [|reflexivity].
      apply ok_bind2; [exact (check_rules_rel ps ps1 ps' _ _ H H0 (fun k => eq_refl))|]. intros _ _ _ _.
      rewrite !is_ok_forM. apply forallb_ext'. intros kv.
      pose proof (rel_alookup perm_prop (fst kv) ps ps1 ps' Hnps H H0) as Hl. unfold property in Hl.
      destruct (alookup (fst kv) ps) as [p|] eqn:E1, (alookup (fst kv) ps') as [p'|] eqn:E2; try contradiction; [|reflexivity].
      unfold seg. rewrite !ok_map_err. inversion Hl; subst. cbn [p_type].
      apply IHv; [assumption | exact (inv_prop _ _ _ _ _ (fst kv, _) Hwf (alookup_in _ _ _ E1))
                 | exact (inv_prop _ _ _ _ _ (fst kv, _) Hwf' (alookup_in _ _ _ E2))].
    - pose proof (HOf := IHo ts ts1 ts' ik f0 i val H H0 Hwf Hwf').
      destruct (oneof_find f e ts ik f0 i val) as [[[k1 m] d1]| | |] eqn:E1,
               (oneof_find f e' ts' ik f0 i val) as [[[k2 m'] d2]| | |] eqn:E2; cbn in HOf; try contradiction; try reflexivity.
      destruct HOf as (-> & -> & Hm). cbn [bind]. unfold seg. rewrite !ok_map_err.
      apply oneof_find_ok in E1 as (t1 & b1 & kvs1 & kk1 & _ & Hin1 & _).
      apply oneof_find_ok in E2 as (t2 & b2 & kvs2 & kk2 & _ & Hin2 & _).
      apply IHv; [exact Hm | exact (inv_member _ _ _ _ _ _ (kk1, m) Hwf Hin1) | exact (inv_member _ _ _ _ _ _ (kk2, m') Hwf' Hin2)].
    - pose proof (rel_resolve e e' id ns He Hnd) as Hr.
      destruct (resolve e id ns) as [[o e2]|] eqn:R1, (resolve e' id ns) as [[o' e2']|] eqn:R2; try contradiction; [|reflexivity].
      destruct Hr as (Ho & He2 & Hn2).
      destruct (IH e2 e2' He2 Hn2) as (IHv2 & _).
      apply IHv2; [exact Ho | exact (inv_ref _ _ _ _ _ _ _ Hwf R1) | exact (inv_ref _ _ _ _ _ _ _ Hwf' R2)].
    - pose proof (wf_sco_nodup _ _ _ Hwf) as Hnos.
      pose proof (rel_alookup perm_schema root os os1 os' Hnos H H0) as Hl.
      destruct (alookup root os) as [o|] eqn:R1, (alookup root os') as [o'|] eqn:R2; try contradiction; [|reflexivity].
      destruct (IH (env_enter e os) (env_enter e' os') (rel_env_enter e e' os os1 os' He H H0) (nodup_env_enter e os Hnd Hnos)) as (IHv2 & _).
      apply IHv2; [exact Hl | exact (inv_scope _ _ _ _ _ Hwf R1) | exact (inv_scope _ _ _ _ _ Hwf' R2)]. }
  (* ---------- serialize ---------- *)
  assert (HS : forall s s' val, perm_schema s s' -> WF e s -> WF e' s' ->
             is_ok (serialize (S f) e s val) = is_ok (serialize (S f) e' s' val)).
  { intros s s' val Hs Hwf Hwf'. rewrite !(serialize_S words pu).
    destruct Hs; cbv beta iota zeta; try reflexivity.
    - unfold enum_int_ser. destruct (conv_int64 val); [|reflexivity]. now rewrite (enum_int_mem_perm _ _ z H).
    - unfold enum_str_ser. destruct (conv_string val); [|reflexivity]. now rewrite (enum_str_mem_perm _ _ s H).
    - apply ok_bind2; [apply IHv; [now constructor | exact Hwf | exact Hwf']|]. intros _ _ _ _.
      destruct val; try reflexivity.
      rewrite !ok_then_ok by reflexivity. apply ok_mapMi_cong. intros j x. unfold seg. rewrite !ok_map_err.
      apply IHs; [assumption | exact (inv_list _ _ _ _ _ Hwf) | exact (inv_list _ _ _ _ _ Hwf')].
    - apply ok_bind2; [apply IHv; [now constructor | exact Hwf | exact Hwf']|]. intros _ _ _ _.
      destruct val; try reflexivity.
      rewrite !ok_then_ok by reflexivity.
      rewrite (ok_fold _ (fun kv => is_ok (serialize f e k (fst kv)) && is_ok (serialize f e v (snd kv)))).
      + rewrite (ok_fold _ (fun kv => is_ok (serialize f e' k' (fst kv)) && is_ok (serialize f e' v' (snd kv)))).
        * apply forallb_ext'. intros kv.
          rewrite (IHs k k' (fst kv) Hs1 (inv_map_k _ _ _ _ _ _ Hwf) (inv_map_k _ _ _ _ _ _ Hwf')).
          now rewrite (IHs v v' (snd kv) Hs2 (inv_map_v _ _ _ _ _ _ Hwf) (inv_map_v _ _ _ _ _ _ Hwf')).
        * intros a x. cbn [bind]. unfold seg. rewrite ok_two_binds, !ok_map_err. reflexivity.
        * intros acc x Ha. destruct acc; cbn in *; congruence.
      + intros a x. cbn [bind]. unfold seg. rewrite ok_two_binds, !ok_map_err. reflexivity.
      + intros acc x Ha. destruct acc; cbn in *; congruence.
    - unfold property in *. pose proof (wf_obj_nodup _ _ _ _ Hwf) as Hnps.
      destruct (is_str_any_map val) as [kvs|]; [|reflexivity].
      apply ok_bind2; [exact (check_rules_rel ps ps1 ps' _ _ H H0 (fun k => eq_refl))|]. intros _ _ _ _.
      rewrite !ok_then_ok by reflexivity. rewrite !is_ok_mapM. apply forallb_ext'. intros kv.
      pose proof (rel_alookup perm_prop (fst kv) ps ps1 ps' Hnps H H0) as Hl. unfold property in Hl.
      destruct (alookup (fst kv) ps) as [p|] eqn:E1, (alookup (fst kv) ps') as [p'|] eqn:E2; try contradiction; [|reflexivity].
      rewrite !ok_then_ok by reflexivity. unfold seg. rewrite !ok_map_err. inversion Hl; subst. cbn [p_type].
      apply IHs; [assumption | exact (inv_prop _ _ _ _ _ (fst kv, _) Hwf (alookup_in _ _ _ E1))
                 | exact (inv_prop _ _ _ _ _ (fst kv, _) Hwf' (alookup_in _ _ _ E2))].
    - pose proof (HOf := IHo ts ts1 ts' ik f0 i val H H0 Hwf Hwf').
      destruct (oneof_find f e ts ik f0 i val) as [[[k1 m] d1]| | |] eqn:E1,
               (oneof_find f e' ts' ik f0 i val) as [[[k2 m'] d2]| | |] eqn:E2; cbn in HOf; try contradiction; try reflexivity.
      destruct HOf as (-> & -> & Hm). cbn [bind].
      apply oneof_find_ok in E1 as (t1 & b1 & kvs1 & kk1 & _ & Hin1 & _).
      apply oneof_find_ok in E2 as (t2 & b2 & kvs2 & kk2 & _ & Hin2 & _).
      pose proof (inv_member _ _ _ _ _ _ (kk1, m) Hwf Hin1) as Hwm.
      pose proof (inv_member _ _ _ _ _ _ (kk2, m') Hwf' Hin2) as Hwm'.
      apply ok_bind2; [apply IHs; assumption|]. intros x x' Hx Hx'.
      destruct (ser_objlike_map words pu _ _ _ _ _ Hwm (wf_member_objlike _ _ _ _ _ (kk1, m) (inv_here _ _ _ Hwf) Hin1) Hx) as [xs ->].
      destruct (ser_objlike_map words pu _ _ _ _ _ Hwm' (wf_member_objlike _ _ _ _ _ (kk2, m') (inv_here _ _ _ Hwf') Hin2) Hx') as [xs' ->].
      destruct (smap_get f0 xs), (smap_get f0 xs'); reflexivity.
    - pose proof (rel_resolve e e' id ns He Hnd) as Hr.
      destruct (resolve e id ns) as [[o e2]|] eqn:R1, (resolve e' id ns) as [[o' e2']|] eqn:R2; try contradiction; [|reflexivity].
      destruct Hr as (Ho & He2 & Hn2).
      destruct (IH e2 e2' He2 Hn2) as (_ & _ & IHs2 & _).
      apply IHs2; [exact Ho | exact (inv_ref _ _ _ _ _ _ _ Hwf R1) | exact (inv_ref _ _ _ _ _ _ _ Hwf' R2)].
    - pose proof (wf_sco_nodup _ _ _ Hwf) as Hnos.
      pose proof (rel_alookup perm_schema root os os1 os' Hnos H H0) as Hl.
      destruct (alookup root os) as [o|] eqn:R1, (alookup root os') as [o'|] eqn:R2; try contradiction; [|reflexivity].
      destruct (IH (env_enter e os) (env_enter e' os') (rel_env_enter e e' os os1 os' He H H0) (nodup_env_enter e os Hnd Hnos)) as (_ & _ & IHs2 & _).
      apply IHs2; [exact Hl | exact (inv_scope _ _ _ _ _ Hwf R1) | exact (inv_scope _ _ _ _ _ Hwf' R2)]. }
  (* ---------- data-mode compatibility ---------- *)
  assert (HC : forall s s' val, perm_schema s s' -> WF e s -> WF e' s' ->
             is_ok (compat (S f) e s val) = is_ok (compat (S f) e' s' val)).
  { intros s s' val Hs Hwf Hwf'. rewrite !(compat_S words pu).
    assert (HsU : is_ok (unser f e s val) = is_ok (unser f e' s' val)) by (apply IHu; assumption).
    assert (HsV : is_ok (validate f e s val) = is_ok (validate f e' s' val)) by (apply IHv; assumption).
    destruct Hs; cbv beta iota zeta.
    - now rewrite !ok_then_ok by reflexivity.
    - now rewrite !ok_then_ok by reflexivity.
    - destruct val; try reflexivity. destruct t; try reflexivity. now rewrite !ok_then_ok by reflexivity.
    - now rewrite !ok_then_ok by reflexivity.
    - exact HsV.
    - (* any: no association list of the schema is involved, only the environment changes *)
      assert (HA : forall x, is_ok (compat f e SAny x) = is_ok (compat f e' SAny x))
        by (intros x; apply IHc; [constructor | exact Hwf | exact Hwf']).
      destruct val; try reflexivity.
      + same_scrut. rewrite !ok_seq. f_equal.
        rewrite !is_ok_forM. apply forallb_ext'. intros x. unfold rewrap. rewrite !ok_map_err. apply HA.
      + same_scrut.
        all: try (rewrite !is_ok_forM; apply forallb_ext'; intros kv; unfold rewrap; rewrite !ok_map_err; apply HA).
        all: try (rewrite !is_ok_forM; apply forallb_ext'; intros kv; same_scrut; unfold rewrap; rewrite !ok_map_err; apply HA).
    - exact HsV.
    - exact HsV.
    - destruct val; try reflexivity.
      + rewrite !ok_then_ok by reflexivity. apply ok_mapMi_cong. intros j x. unfold seg. rewrite !ok_map_err.
        apply IHc; [assumption | exact (inv_list _ _ _ _ _ Hwf) | exact (inv_list _ _ _ _ _ Hwf')].
      + same_scrut.
        rewrite !ok_then_ok by reflexivity. apply ok_mapMi_cong. intros j x. unfold seg. rewrite !ok_map_err.
        apply IHc; [assumption | exact (inv_list _ _ _ _ _ Hwf) | exact (inv_list _ _ _ _ _ Hwf')].
    - destruct val; try reflexivity.
      match goal with |- context [size_ok mn mx ?z] => destruct (size_ok mn mx z) end; [|reflexivity].
      rewrite !is_ok_forM. apply forallb_ext'. intros kv. unfold seg. rewrite !ok_seq, !ok_map_err.
      rewrite (IHc k k' (fst kv) Hs1 (inv_map_k _ _ _ _ _ _ Hwf) (inv_map_k _ _ _ _ _ _ Hwf')).
      now rewrite (IHc v v' (snd kv) Hs2 (inv_map_v _ _ _ _ _ _ Hwf) (inv_map_v _ _ _ _ _ _ Hwf')).
    - unfold property in *. pose proof (wf_obj_nodup _ _ _ _ Hwf) as Hnps.
      destruct (is_str_any_map val) as [kvs|].
      + rewrite !ok_seq. f_equal.
        * rewrite !is_ok_forM. apply forallb_ext'. intros kv.
          pose proof (rel_alookup perm_prop (fst kv) ps ps1 ps' Hnps H H0) as Hl. unfold property in Hl.
          destruct (alookup (fst kv) ps) as [p|] eqn:E1, (alookup (fst kv) ps') as [p'|] eqn:E2; try contradiction; [|reflexivity].
          unfold seg, rewrap_path. rewrite !ok_map_err, !ok_seq, !ok_map_err. inversion Hl; subst. cbn [p_type p_disabled]. f_equal.
          apply IHc; [assumption | exact (inv_prop _ _ _ _ _ (fst kv, _) Hwf (alookup_in _ _ _ E1))
                     | exact (inv_prop _ _ _ _ _ (fst kv, _) Hwf' (alookup_in _ _ _ E2))].
        * rewrite !is_ok_forM. rewrite <- (forallb_perm _ ps1 ps' H0). apply (forallb_f2 _ _ _ _ _ H).
          intros [n p] [n' p'] _ [Hk Hr]. cbn [fst snd] in *. subst n'. inversion Hr; subst. reflexivity.
      + rewrite !ok_then_ok by reflexivity. unfold rewrap_path. rewrite !ok_map_err. exact HsU.
    - destruct (is_str_any_map val) as [kvs|].
      + rewrite !ok_then_ok by reflexivity.
        pose proof (HOf := IHo ts ts1 ts' ik f0 i val H H0 Hwf Hwf').
        destruct (oneof_find f e ts ik f0 i val) as [[[k1 m] d1]| | |], (oneof_find f e' ts' ik f0 i val) as [[[k2 m'] d2]| | |];
          cbn in HOf; try contradiction; reflexivity.
      + same_scrut; exact HsV.
    - pose proof (rel_resolve e e' id ns He Hnd) as Hr.
      destruct (resolve e id ns) as [[o e2]|] eqn:R1, (resolve e' id ns) as [[o' e2']|] eqn:R2; try contradiction; [|reflexivity].
      destruct Hr as (Ho & He2 & Hn2).
      destruct (IH e2 e2' He2 Hn2) as (_ & _ & _ & IHc2).
      apply IHc2; [exact Ho | exact (inv_ref _ _ _ _ _ _ _ Hwf R1) | exact (inv_ref _ _ _ _ _ _ _ Hwf' R2)].
    - pose proof (wf_sco_nodup _ _ _ Hwf) as Hnos.
      pose proof (rel_alookup perm_schema root os os1 os' Hnos H H0) as Hl.
      destruct (alookup root os) as [o|] eqn:R1, (alookup root os') as [o'|] eqn:R2; try contradiction; [|reflexivity].
      destruct (IH (env_enter e os) (env_enter e' os') (rel_env_enter e e' os os1 os' He H H0) (nodup_env_enter e os Hnd Hnos)) as (_ & _ & _ & IHc2).
      apply IHc2; [exact Hl | exact (inv_scope _ _ _ _ _ Hwf R1) | exact (inv_scope _ _ _ _ _ Hwf' R2)]. }
  repeat split; assumption.
Qed.

End Rest.
