(* Proofs/C09AccRe.v — two regular expressions of the same shape whose character classes contain the
   same bytes match the same strings (Schema/Regex.v matcher).  Needed because the id pattern of the
   meta-schema table is translated from Go's regexp/syntax parse (classes sorted and merged), while
   Schema/Describe.v `id_re` is written in source order. *)
From Coq Require Import Lia.
From Verif Require Import Base.Prelude Base.Str Schema.Regex.

Inductive re_sim : re -> re -> Prop :=
| sim_eps : re_sim Eps Eps
| sim_chr c : re_sim (Chr c) (Chr c)
| sim_any : re_sim AnyC AnyC
| sim_cls n rs rs' : (forall c, cls_match n rs c = cls_match n rs' c) -> re_sim (Cls n rs) (Cls n rs')
| sim_cat a a' b b' : re_sim a a' -> re_sim b b' -> re_sim (Cat a b) (Cat a' b')
| sim_alt a a' b b' : re_sim a a' -> re_sim b b' -> re_sim (Alt a b) (Alt a' b')
| sim_star a a' : re_sim a a' -> re_sim (Star a) (Star a')
| sim_grp n a a' : re_sim a a' -> re_sim (Grp n a) (Grp n a')
| sim_bol : re_sim Bol Bol
| sim_eol : re_sim Eol Eol.

Lemma re_sim_size r r' : re_sim r r' -> re_size r = re_size r'.
Proof. induction 1; cbn; congruence. Qed.

Lemma mt_sim : forall fuel whole r r' s cs k k',
  re_sim r r' -> (forall s0 cs0, k s0 cs0 = k' s0 cs0) ->
  mt fuel whole r s cs k = mt fuel whole r' s cs k'.
Proof.
  induction fuel as [|fuel IH]; intros whole r r' s cs k k' Hs Hk; [reflexivity|].
  destruct Hs; cbn [mt].
  - apply Hk.
  - destruct s as [|x t]; [reflexivity|]. destruct (Ascii.eqb x c); [apply Hk | reflexivity].
  - destruct s as [|x t]; [reflexivity|]. destruct (zchr x =? 10)%Z; [reflexivity | apply Hk].
  - destruct s as [|x t]; [reflexivity|]. rewrite H. destruct (cls_match n rs' x); [apply Hk | reflexivity].
  - apply IH; [assumption|]. intros s0 cs0. apply IH; assumption.
  - rewrite (IH whole a a' s cs k k') by assumption.
    destruct (mt fuel whole a' s cs k'); [reflexivity|]. apply IH; assumption.
  - rewrite (IH whole a a' s cs
               (fun s' cs' => if Nat.eqb (List.length s') (List.length s) then None
                              else mt fuel whole (Star a) s' cs' k)
               (fun s' cs' => if Nat.eqb (List.length s') (List.length s) then None
                              else mt fuel whole (Star a') s' cs' k')).
    + destruct (mt fuel whole a' s cs _); [reflexivity | apply Hk].
    + assumption.
    + intros s0 cs0. destruct (Nat.eqb (List.length s0) (List.length s)); [reflexivity|].
      apply IH; [constructor; assumption | assumption].
  - apply IH; [assumption|]. intros s0 cs0. apply Hk.
  - destruct (Nat.eqb (List.length s) whole); [apply Hk | reflexivity].
  - destruct s; [apply Hk | reflexivity].
Qed.

Lemma re_match_string_sim r r' s : re_sim r r' -> re_match_string r s = re_match_string r' s.
Proof.
  intros Hs. unfold re_match_string.
  generalize (List.length (chars s)) at 1 3. generalize (List.length (chars s)). generalize (chars s).
  intros l n whole. revert n. induction l as [|x t IH]; intros n; destruct n as [|n]; cbn [search_from];
    unfold re_match_at, re_fuel; rewrite (re_sim_size _ _ Hs);
    rewrite (mt_sim _ whole r r' _ [] (fun _ cs => Some cs) (fun _ cs => Some cs) Hs (fun _ _ => eq_refl));
    (destruct (mt _ whole r' _ [] _); [reflexivity|]); try reflexivity; apply IH.
Qed.
