(* Proofs/SchemaInd.v — the induction principle for the nested inductive `schema`
   (Schema/Syntax.v): the automatically generated `schema_ind` gives no hypothesis for the
   schemas nested inside the property list of an object, the member list of a one-of and the
   object table of a scope.  `schema_ind'` supplies them as `Forall`s.
   Usage:  induction s using schema_ind'. *)
From Verif Require Import Base.Prelude Base.Str Base.Float Base.GoVal Schema.Regex Schema.Units Schema.Syntax.

Section SchemaInd.
Variable P : schema -> Prop.
Hypothesis HInt : forall mn mx u, P (SInt mn mx u).
Hypothesis HFloat : forall mn mx u, P (SFloat mn mx u).
Hypothesis HString : forall mn mx pat, P (SString mn mx pat).
Hypothesis HBool : P SBool.
Hypothesis HPattern : P SPattern.
Hypothesis HAny : P SAny.
Hypothesis HEnumInt : forall vals u, P (SEnumInt vals u).
Hypothesis HEnumStr : forall named vals, P (SEnumStr named vals).
Hypothesis HList : forall it mn mx, P it -> P (SList it mn mx).
Hypothesis HMap : forall k v mn mx, P k -> P v -> P (SMap k v mn mx).
Hypothesis HObject : forall id u props, Forall (fun np => P (p_type (snd np))) props -> P (SObject id u props).
Hypothesis HOneOf : forall types ik field inlined, Forall (fun km => P (snd km)) types -> P (SOneOf types ik field inlined).
Hypothesis HRef : forall id ns d, P (SRef id ns d).
Hypothesis HScope : forall objs root, Forall (fun io => P (snd io)) objs -> P (SScope objs root).

Fixpoint schema_ind' (s : schema) : P s :=
  match s as s0 return P s0 with
  | SInt mn mx u => HInt mn mx u
  | SFloat mn mx u => HFloat mn mx u
  | SString mn mx pat => HString mn mx pat
  | SBool => HBool
  | SPattern => HPattern
  | SAny => HAny
  | SEnumInt vals u => HEnumInt vals u
  | SEnumStr named vals => HEnumStr named vals
  | SList it mn mx => HList it mn mx (schema_ind' it)
  | SMap k v mn mx => HMap k v mn mx (schema_ind' k) (schema_ind' v)
  | SObject id u props =>
      HObject id u props
        ((fix go (l : list (string * property_ schema)) : Forall (fun np => P (p_type (snd np))) l :=
            match l with
            | [] => Forall_nil _
            | np :: t => Forall_cons np (schema_ind' (p_type (snd np))) (go t)
            end) props)
  | SOneOf types ik field inlined =>
      HOneOf types ik field inlined
        ((fix go (l : list (okey * schema)) : Forall (fun km => P (snd km)) l :=
            match l with
            | [] => Forall_nil _
            | km :: t => Forall_cons km (schema_ind' (snd km)) (go t)
            end) types)
  | SRef id ns d => HRef id ns d
  | SScope objs root =>
      HScope objs root
        ((fix go (l : list (string * schema)) : Forall (fun io => P (snd io)) l :=
            match l with
            | [] => Forall_nil _
            | io :: t => Forall_cons io (schema_ind' (snd io)) (go t)
            end) objs)
  end.
End SchemaInd.

(* a use of the principle: the size of a schema is positive *)
Fixpoint schema_size (s : schema) : nat :=
  match s with
  | SList it _ _ => S (schema_size it)
  | SMap k v _ _ => S (schema_size k + schema_size v)
  | SObject _ _ props => S (fold_right (fun np a => schema_size (p_type (snd np)) + a) 0 props)%nat
  | SOneOf types _ _ _ => S (fold_right (fun km a => schema_size (snd km) + a) 0 types)%nat
  | SScope objs _ => S (fold_right (fun io a => schema_size (snd io) + a) 0 objs)%nat
  | _ => 1%nat
  end.
Lemma schema_size_pos s : (1 <= schema_size s)%nat.
Proof. induction s using schema_ind'; cbn; auto with arith. Qed.
