(* Proofs/UnitsStringSound.v — C16 "parsing never returns a wrong number", string level, for
   ARBITRARY well-formed definitions: a successful parse_units_int is the exact sum of a
   tokenisation of the (trimmed) input. *)
From Coq Require Import Lia ZArith List Arith Bool Permutation Sorted.
From Verif Require Import Base.Prelude Base.Str Schema.Regex Schema.Units
  Proofs.UnitsArith Proofs.UnitsStringRe Proofs.UnitsStringTok.
Import ListNotations.
Open Scope Z_scope.
Open Scope list_scope.

(* ---------- sorted_mults ---------- *)

Lemma insert_desc_perm : forall x l, Permutation (insert_desc x l) (x :: l).
Proof.
  intros x l. induction l as [|y t IH]; cbn [insert_desc]; [apply Permutation_refl|].
  destruct (fst y <? fst x); [apply Permutation_refl|].
  eapply Permutation_trans; [apply perm_skip; exact IH | apply perm_swap].
Qed.

Lemma sorted_mults_perm : forall u, Permutation (sorted_mults u) (u_mults u).
Proof.
  intro u. unfold sorted_mults. induction (u_mults u) as [|x l IH]; cbn [fold_right]; [constructor|].
  eapply Permutation_trans; [apply insert_desc_perm | apply perm_skip; exact IH].
Qed.

Lemma z_in_In : forall x l, z_in x l = true <-> In x l.
Proof.
  intros x l. induction l as [|y t IH]; cbn [z_in In]; [split; [discriminate | tauto]|].
  rewrite orb_true_iff, IH, Z.eqb_eq. split; intros [H|H]; auto.
Qed.

Lemma nodup_z_NoDup : forall l, nodup_z l = true -> NoDup l.
Proof.
  induction l as [|x t IH]; intro H; [constructor|]. cbn [nodup_z] in H. apply andb_prop in H. destruct H as [H1 H2].
  constructor; [|apply IH; exact H2]. intro I. apply z_in_In in I. rewrite I in H1. discriminate.
Qed.

Definition wf_mult (mu : Z * unit_def) : Prop :=
  2 <= fst mu /\ in_i64 (fst mu) = true /\ wf_unit_def (snd mu) = true.

Lemma wf_units_inv : forall u, wf_units u = true ->
  wf_unit_def (u_base u) = true /\ Forall wf_mult (u_mults u) /\ NoDup (map fst (u_mults u)).
Proof.
  intros u H. unfold wf_units in H. apply andb_prop in H. destruct H as [H H3]. apply andb_prop in H. destruct H as [H1 H2].
  split; [exact H1|]. split; [|apply nodup_z_NoDup; exact H3].
  rewrite forallb_forall in H2. apply Forall_forall. intros mu I. specialize (H2 mu I).
  apply andb_prop in H2. destruct H2 as [H2 Hc]. apply andb_prop in H2. destruct H2 as [Ha Hb].
  unfold wf_mult. repeat split; auto. apply Z.leb_le. exact Ha.
Qed.

Lemma sorted_mults_wf : forall u, wf_units u = true -> Forall wf_mult (sorted_mults u).
Proof.
  intros u H. destruct (wf_units_inv u H) as (_ & F & _). apply Forall_forall. intros mu I.
  rewrite Forall_forall in F. apply F. eapply Permutation_in; [apply sorted_mults_perm | exact I].
Qed.

Lemma sorted_mults_nodup : forall u, wf_units u = true -> NoDup (map fst (sorted_mults u)).
Proof.
  intros u H. destruct (wf_units_inv u H) as (_ & _ & N).
  eapply Permutation_NoDup; [|exact N]. apply Permutation_map. apply Permutation_sym. apply sorted_mults_perm.
Qed.

Definition units_keys (u : units) : list Z := map fst (sorted_mults u) ++ [1].

Lemma units_keys_nodup : forall u, wf_units u = true -> NoDup (units_keys u).
Proof.
  intros u H. unfold units_keys. eapply Permutation_NoDup; [apply Permutation_cons_append|].
  constructor; [|apply sorted_mults_nodup; exact H].
  intro I. apply in_map_iff in I. destruct I as (mu & E & I).
  pose proof (sorted_mults_wf u H) as F. rewrite Forall_forall in F. destruct (F mu I) as (L & _). lia.
Qed.

(* "largest unit first": the template lists the multipliers in strictly descending order *)
Definition mult_gt (a b : Z * unit_def) : Prop := fst b < fst a.

Lemma insert_desc_sorted : forall x l,
  StronglySorted mult_gt l -> ~ In (fst x) (map fst l) -> StronglySorted mult_gt (insert_desc x l).
Proof.
  intros x l S. induction S as [|y t S IH F]; intro NI; cbn [insert_desc].
  - constructor; constructor.
  - destruct (Z.ltb_spec (fst y) (fst x)) as [L|L].
    + constructor; [constructor; assumption|]. constructor; [exact L|].
      rewrite Forall_forall in *. intros z I. specialize (F z I). unfold mult_gt in *. lia.
    + assert (L' : fst x < fst y).
      { assert (fst y <> fst x) by (intro E; apply NI; left; exact E). lia. }
      constructor.
      * apply IH. intro I. apply NI. right. exact I.
      * apply Forall_forall. intros z I.
        apply (Permutation_in _ (insert_desc_perm x t)) in I. destruct I as [E|I].
        -- subst z. exact L'.
        -- rewrite Forall_forall in F. apply F. exact I.
Qed.

Lemma sorted_mults_desc : forall u, wf_units u = true -> StronglySorted mult_gt (sorted_mults u).
Proof.
  intros u H. destruct (wf_units_inv u H) as (_ & _ & N). unfold sorted_mults.
  induction (u_mults u) as [|x l IH]; cbn [fold_right]; [constructor|].
  cbn [map] in N. inversion N as [|? ? NI N']; subst.
  apply insert_desc_sorted; [apply IH; exact N'|].
  intro I. apply NI. apply in_map_iff in I. destruct I as (mu & E & I). apply in_map_iff. exists mu. split; [exact E|].
  eapply Permutation_in; [|exact I].
  change (fold_right insert_desc [] l) with (sorted_mults (mkUnits (u_base u) l)).
  apply (sorted_mults_perm (mkUnits (u_base u) l)).
Qed.

(* ---------- integer tokens ---------- *)

Lemma digit_not_sign : forall c, is_digit c = true -> Ascii.eqb c "-"%char = false /\ Ascii.eqb c "+"%char = false.
Proof. intros [[] [] [] [] [] [] [] []] H; vm_compute in H; try discriminate; split; reflexivity. Qed.

Lemma chars_unchars : forall l, chars (unchars l) = l.
Proof. intro l. unfold chars, unchars. apply list_ascii_of_string_of_list_ascii. Qed.

Lemma unchars_chars : forall s, unchars (chars s) = s.
Proof. intro s. unfold chars, unchars. apply string_of_list_ascii_of_string. Qed.

(* strconv.ParseInt on a non-empty run of digits *)
Lemma parse_int_digits : forall ds, ds <> [] -> all_digits ds = true ->
  parse_int (unchars ds) = if in_i64 (digits_val ds) then Some (digits_val ds) else None.
Proof.
  intros ds N F. unfold parse_int. rewrite chars_unchars. destruct ds as [|c t]; [congruence|].
  pose proof F as F'. cbn [all_digits] in F'. apply andb_prop in F'. destruct F' as [Fc _].
  destruct (digit_not_sign c Fc) as [E1 E2]. rewrite E1, E2. rewrite F. reflexivity.
Qed.

(* the count a token stands for: an absent unit counts 0 *)
Definition tok_count (tok : list ascii) : Z := match tok with [] => 0 | _ => digits_val tok end.

Definition int_tok (tok : list ascii) : Prop := tok = [] \/ (tok <> [] /\ all_digits tok = true).

(* the accumulator of parse_units over integer tokens: exact sum, every partial sum an int64 *)
Lemma acc_sound : forall toks keys a z,
  Forall int_tok toks -> List.length toks = List.length keys -> in_i64 a = true ->
  fold_left (fun acc tm => accumulate_tok acc (fst tm) (snd tm)) (combine toks keys) (Some a) = Some z ->
  z = a + dot (map tok_count toks) keys
  /\ (forall k, in_i64 (a + dot (firstn k (map tok_count toks)) keys) = true)
  /\ Forall (fun cm => in_i64 (fst cm) = true /\ in_i64 (fst cm * snd cm) = true) (combine (map tok_count toks) keys).
Proof.
  induction toks as [|tok toks IH]; intros keys a z F L Ha H.
  - cbn in H. inversion H; subst. cbn [map dot]. split; [lia|]. split; [|constructor]. intro k. destruct k; cbn [firstn dot]; rewrite Z.add_0_r; exact Ha.
  - destruct keys as [|m keys]; [discriminate|]. inversion F as [|? ? Ft F']; subst.
    cbn [combine fold_left fst snd] in H. cbn [List.length] in L.
    destruct Ft as [E|[N D]].
    + subst tok. cbn [accumulate_tok] in H. destruct (IH keys a z F' ltac:(lia) Ha H) as (Ez & P & Q).
      cbn [map tok_count dot combine]. split; [lia|]. split; [|constructor; [cbn [fst snd]; split; reflexivity | exact Q]].
      intro k. destruct k; cbn [firstn dot].
      * rewrite Z.add_0_r. exact Ha.
      * specialize (P k). replace (a + (0 * m + dot (firstn k (map tok_count toks)) keys)) with (a + dot (firstn k (map tok_count toks)) keys) by lia. exact P.
    + unfold accumulate_tok at 2 in H. destruct tok as [|c t]; [congruence|].
      rewrite (parse_int_digits (c :: t) N D) in H.
      destruct (in_i64 (digits_val (c :: t))) eqn:Ec; [|rewrite accumulate_none in H; discriminate].
      destruct (in_i64 (digits_val (c :: t) * m) && in_i64 (a + digits_val (c :: t) * m)) eqn:Eb;
        [|rewrite accumulate_none in H; discriminate].
      apply andb_prop in Eb. destruct Eb as [Hp Hs].
      destruct (IH keys _ z F' ltac:(lia) Hs H) as (Ez & P & Q).
      cbn [map dot combine]. change (tok_count (c :: t)) with (digits_val (c :: t)). split; [lia|].
      split; [|constructor; [cbn [fst snd]; split; assumption | exact Q]].
      intro k. destruct k; cbn [firstn dot].
      * rewrite Z.add_0_r. exact Ha.
      * specialize (P k). rewrite Z.add_assoc. exact P.
Qed.

(* ---------- unfolding parse_units_int ---------- *)

Definition model_toks (u : units) (cs : caps) : list (list ascii * Z) :=
  map (fun mu => (cap_get (fst mu) cs, fst mu)) (sorted_mults u) ++ [(cap_get 1 cs, 1)].

Lemma parse_units_int_inv : forall u s n, parse_units_int u s = Some n ->
  exists cs, chars (trim_space s) <> []
    /\ re_match_at (units_re u) (List.length (chars (trim_space s))) (chars (trim_space s)) = Some cs
    /\ existsb (fun tm => contains_chr "."%char (fst tm)) (model_toks u cs) = false
    /\ fold_left (fun acc tm => accumulate_tok acc (fst tm) (snd tm)) (model_toks u cs) (Some 0) = Some n.
Proof.
  intros u s n H. unfold parse_units_int, parse_units in H. fold (model_toks u) in H.
  remember (chars (trim_space s)) as d eqn:Ed.
  destruct d as [|c d']; [discriminate|].
  destruct (re_match_at (units_re u) (List.length (c :: d')) (c :: d')) as [cs|] eqn:Em; [|discriminate].
  fold (model_toks u cs) in H.
  destruct (existsb (fun tm => contains_chr "."%char (fst tm)) (model_toks u cs)) eqn:Ex; [discriminate|].
  destruct (fold_left _ (model_toks u cs) (Some 0)) as [z|] eqn:Ef; [|discriminate].
  inversion H; subst. exists cs. repeat split; auto. discriminate.
Qed.

Lemma parse_units_int_intro : forall u s n cs, chars (trim_space s) <> [] ->
  re_match_at (units_re u) (List.length (chars (trim_space s))) (chars (trim_space s)) = Some cs ->
  existsb (fun tm => contains_chr "."%char (fst tm)) (model_toks u cs) = false ->
  fold_left (fun acc tm => accumulate_tok acc (fst tm) (snd tm)) (model_toks u cs) (Some 0) = Some n ->
  parse_units_int u s = Some n.
Proof.
  intros u s n cs N Em Ex Ef. unfold parse_units_int, parse_units.
  destruct (chars (trim_space s)) as [|c d'] eqn:Ed; [congruence|].
  rewrite Em. fold (model_toks u cs). rewrite Ex, Ef. reflexivity.
Qed.

Lemma model_toks_eq : forall u toks, wf_units u = true -> List.length toks = List.length (units_keys u) ->
  model_toks u (push_caps (combine (units_keys u) toks) []) = combine toks (units_keys u).
Proof.
  intros u toks W L. set (cs := push_caps (combine (units_keys u) toks) []).
  assert (E : model_toks u cs = map (fun k => (cap_get k cs, k)) (units_keys u)).
  { unfold model_toks, units_keys. rewrite map_app, map_map. reflexivity. }
  rewrite E.
  assert (G : forall (f : Z -> list ascii) ks, map (fun k => (f k, k)) ks = combine (map f ks) ks).
  { intros f ks. induction ks as [|k ks IH]; cbn [map combine]; [reflexivity | rewrite IH; reflexivity]. }
  rewrite G. f_equal. unfold cs. apply map_cap_get_push; [apply units_keys_nodup; exact W | exact L | reflexivity].
Qed.

(* ---------- tokens of a tokenisation ---------- *)

Lemma useq_tokens : forall ps s toks, useq ps s toks ->
  Forall2 (fun p tok => tok = [] \/ utoken (snd (fst p)) tok) ps toks.
Proof.
  intros ps s toks U. induction U as [|k fr nms ps seg tok sp s toks Us F U IH]; constructor; [|exact IH].
  cbn [fst snd]. destruct Us; [left; reflexivity | right; assumption].
Qed.

Lemma contains_chr_app : forall c a b, contains_chr c (a ++ b) = contains_chr c a || contains_chr c b.
Proof. intros c a b. induction a as [|x a IH]; cbn [app contains_chr]; [reflexivity | rewrite IH, orb_assoc; reflexivity]. Qed.

Lemma utoken_no_dot : forall fr tok, utoken fr tok -> contains_chr "."%char tok = false -> tok <> [] /\ all_digits tok = true.
Proof.
  intros fr tok U H. destruct U as [fr ds N F | ds fs N F N' F']; [split; assumption|].
  rewrite contains_chr_app in H. cbn [contains_chr] in H. rewrite Ascii.eqb_refl in H.
  rewrite orb_true_r in H. discriminate.
Qed.

Lemma int_toks_of : forall ps toks keys,
  Forall2 (fun (p : upart) tok => tok = [] \/ utoken (snd (fst p)) tok) ps toks ->
  List.length keys = List.length toks ->
  existsb (fun tm : list ascii * Z => contains_chr "."%char (fst tm)) (combine toks keys) = false ->
  Forall int_tok toks.
Proof.
  intros ps toks keys F. revert keys. induction F as [|p tok ps toks Hp F IH]; intros keys L Ex; [constructor|].
  destruct keys as [|k keys]; [discriminate|]. cbn [combine existsb fst] in Ex. apply orb_false_iff in Ex. destruct Ex as [Ex1 Ex2].
  constructor; [|apply (IH keys); [cbn [List.length] in L; lia | exact Ex2]].
  destruct Hp as [E|U]; [left; exact E | right; eapply utoken_no_dot; eassumption].
Qed.

(* ---------- C16_parse_sound ---------- *)

(* A tokenisation of the subject d for the definition u:  optional leading spaces, then for
   every multiplier in DESCENDING order and finally for the base unit either nothing or
   count, optional spaces, one of the four declared names of that unit (the base unit may
   also have no name), each followed by optional spaces; the counts are runs of digits. *)
Definition tokenisation (u : units) (d : list ascii) (toks : list (list ascii)) : Prop :=
  exists sp0 body, d = sp0 ++ body /\ spaces sp0 = true /\ useq (uparts u) body toks /\ Forall int_tok toks.

Theorem parse_sound : forall u s n, wf_units u = true -> parse_units_int u s = Some n ->
  exists toks,
    tokenisation u (chars (trim_space s)) toks
    /\ n = dot (map tok_count toks) (units_keys u)
    /\ (forall k, in_i64 (dot (firstn k (map tok_count toks)) (units_keys u)) = true)
    /\ Forall (fun cm => in_i64 (fst cm) = true /\ in_i64 (fst cm * snd cm) = true) (combine (map tok_count toks) (units_keys u))
    /\ StronglySorted mult_gt (sorted_mults u).
Proof.
  intros u s n W H. apply parse_units_int_inv in H. destruct H as (cs & N & Em & Ex & Ef).
  apply units_match_sound in Em. destruct Em as (sp0 & body & toks & Ed & Fs & U & Ec).
  rewrite uparts_keys in Ec. fold (units_keys u) in Ec.
  assert (L : List.length toks = List.length (units_keys u)).
  { rewrite (useq_length _ _ _ U). unfold units_keys. rewrite <- uparts_keys. rewrite map_length. reflexivity. }
  subst cs. rewrite (model_toks_eq u toks W L) in Ex, Ef.
  assert (IT : Forall int_tok toks).
  { eapply int_toks_of; [exact (useq_tokens _ _ _ U) | symmetry; exact L | exact Ex]. }
  destruct (acc_sound toks (units_keys u) 0 n IT L eq_refl Ef) as (En & P & Q).
  exists toks. split; [exists sp0, body; repeat split; assumption|].
  split; [lia|]. split; [|split; [exact Q | apply sorted_mults_desc; exact W]].
  intro k. specialize (P k). rewrite Z.add_0_l in P. exact P.
Qed.
