(* Proofs/XRoundFull.v — C01 for struct-mapped objects, the third conjunct: re-Unserialize of the serialized
   form gives the value back (up to treat-empty-as-default: `xstruct_sim`, the same properties present with the
   same values; and the re-unserialized value serializes to the same map again).
   Pieces: (1) the key fold on the serialized map returns it unchanged, property defaults add nothing;
   (2) sub-object defaults re-run on the absent keys add nothing (`xsub_defaults_absent`: the outcome depends
   on the raw map only through the property's own entry); (3) the success direction of unserializeToStruct
   (`xto_fold_succ`) and the field-by-field agreement of two assignments (`xto_struct_fields`). *)
From Coq Require Import Lia.
From Verif Require Import Base.Prelude Base.Str Base.Float Base.GoVal Base.XReflect
  Schema.Regex Schema.Units Schema.Syntax Schema.Ops Schema.SpecObj Schema.XSyntax Schema.XOps Schema.XWf
  Proofs.OpsLemmas Proofs.XOpsEq Proofs.XPaths Proofs.XRound Proofs.XRoundThm.
Open Scope string_scope.

(* ---------- (2) sub-object defaults depend on the raw map only through the property's own entry ---------- *)
Lemma xsub_defaults_absent f e pid p (r r' a : raw) :
  alookup pid r = None -> alookup pid r' = None ->
  xsub_defaults f e pid p r = Ok a -> amem pid a = false ->
  xsub_defaults f e pid p r' = Ok r'.
Proof.
  destruct f as [|f]; [discriminate|]. cbn [xsub_defaults]. intros Hr Hr' H Ha.
  apply bind_ok in H as (so & Eso & H). rewrite Eso. cbn [bind].
  destruct so as [[o e']|]; [|reflexivity].
  destruct o; try reflexivity.
  destruct (match mapped with Some si => si_ptr si | None => false end); [reflexivity|].
  rewrite Hr in H. rewrite Hr'. cbv beta iota zeta in H |- *.
  apply bind_ok in H as (data2 & Ed & H). rewrite Ed. cbn [bind].
  destruct data2 as [|kv data2]; [reflexivity|].
  exfalso. inversion H; subst a. unfold raw_set in Ha.
  assert (Hm : amem pid r = false) by (now apply amem_false). rewrite Hm in Ha.
  rewrite xr_amem_snoc in Ha. discriminate.
Qed.

(* ---------- (1) the folds of convertData on a map whose keys are property ids ---------- *)
Lemma xk_fold_raw (props : list (string * xproperty)) (ys : raw) : forall a : raw,
  (forall k, In k (map fst ys) -> amem k props = true) ->
  fold_left (fun acc kv => a <- acc ;;
               match fst kv with
               | VStr TStr k => if amem k props then Ok (a ++ [(k, snd kv)])%list else Err (cerr EKey)
               | _ => Err (cerr EKey)
               end) (map (fun kv => (vstr (fst kv), snd kv)) ys) (Ok a) = Ok (a ++ ys)%list.
Proof.
  induction ys as [|[k y] ys IH]; intros a H.
  - cbn. rewrite app_nil_r. reflexivity.
  - cbn [map fst snd]. apply fold_bind_cons. exists (a ++ [(k, y)])%list. split.
    + cbn [fst snd]. unfold vstr. rewrite (H k) by (now left). reflexivity.
    + rewrite IH by (intros k0 H0; apply H; now right). rewrite <- app_assoc. reflexivity.
Qed.

Lemma xd_fold_id (e : xenv) (l : list (string * xproperty)) (a : raw) :
  (forall np, In np l -> xhas_default e np = true -> amem (fst np) a = true) ->
  fold_left (fun a np =>
               if amem (fst np) a then a
               else match p_default (snd np) with
                    | Some txt => match xdecode_default (xe_or e) (snd np) txt with
                                  | Some d => (a ++ [(fst np, d)])%list
                                  | None => a
                                  end
                    | None => a
                    end) l a = a.
Proof.
  unfold xproperty in *.
  induction l as [|np0 l IH]; intros H; cbn [fold_left]; [reflexivity|].
  assert (IH' := IH (fun np Hin => H np (or_intror Hin))).
  destruct (amem (fst np0) a) eqn:Ea; [exact IH'|].
  specialize (H np0 (or_introl eq_refl)). unfold xhas_default in H. unfold xproperty in *.
  destruct (p_default (snd np0)) as [txt|]; [|exact IH'].
  destruct (xdecode_default (xe_or e) (snd np0) txt); [|exact IH'].
  specialize (H eq_refl). congruence.
Qed.

Lemma xsub_fold_id f e (q0 : raw) (l : list (string * xproperty)) : forall a0, a0 = q0 ->
  (forall np, In np l -> amem (fst np) q0 = false -> xsub_defaults f e (fst np) (snd np) q0 = Ok q0) ->
  fold_left (fun acc np => a <- acc ;;
               if amem (fst np) q0 then Ok a else xsub_defaults f e (fst np) (snd np) a) l (Ok a0) = Ok q0.
Proof.
  intros a0 ->. induction l as [|np0 l IH]; intros H; [reflexivity|].
  apply fold_bind_cons. exists q0. split.
  - destruct (amem (fst np0) q0) eqn:Ea; [reflexivity|]. apply H; [now left | exact Ea].
  - apply IH. intros np Hin. apply H. now right.
Qed.

Lemma xr_forall2_in_r {A B} (R : A -> B -> Prop) l l' y :
  Forall2 R l l' -> In y l' -> exists x, In x l /\ R x y.
Proof.
  induction 1 as [| a b t t' Hab _ IH]; intros Hin; [contradiction|].
  destruct Hin as [E | Hin].
  - subst. exists a. split; [left; reflexivity | exact Hab].
  - destruct (IH Hin) as (x & Hx & Hr). exists x. split; [right; exact Hx | exact Hr].
Qed.

(* ---------- (3) unserializeToStruct: success, and the fields it sets ---------- *)
Lemma xto_fold_succ e si t : forall (r : raw) fs,
  (forall k x, In (k, x) r -> exists fr i c, alookup k (si_fields si) = Some fr /\ fr_idx fr = [i] /\
                                            xassign (fr_type fr) x VNil = Some c /\ nth_field fs i <> None) ->
  exists sN, fold_left (fun acc kv => cur <- acc ;; xtstep e si cur kv) r (Ok (VStruct t fs)) = Ok sN.
Proof.
  induction r as [|[k x] r IH]; intros fs H.
  - eexists. reflexivity.
  - destruct (H k x (or_introl eq_refl)) as (fr & i & c & Hfr & Hidx & Hc & Hn).
    destruct (IH (set_nth_field fs i c)) as (sN & HsN).
    { intros k' x' Hin. destruct (H k' x' (or_intror Hin)) as (fr' & i' & c' & Hfr' & Hidx' & Hc' & Hn').
      exists fr', i', c'. repeat split; auto.
      destruct (Nat.eq_dec i i') as [<- | Hne].
      - rewrite nth_set_same by exact Hn. discriminate.
      - rewrite nth_set_other by exact Hne. exact Hn'. }
    exists sN. apply fold_bind_cons. exists (VStruct t (set_nth_field fs i c)). split; [|exact HsN].
    unfold xtstep. cbn [fst snd]. rewrite Hfr, Hidx, set_path_direct.
    destruct (nth_field fs i) as [fv|]; [|congruence].
    change (xassign (fr_type fr) x fv) with (xassign (fr_type fr) x VNil). rewrite Hc. reflexivity.
Qed.

Section Fields.
Variable e : xenv.
Variable props : list (string * xproperty).
Variable si : structinfo.
Notation st := (xe_structs e).
Hypothesis Hdesc : xrt_desc e props si = true.

Definition xzero_fields (sfs : xsfields) : list (string * gval) :=
  map (fun nt => (fst nt, zero_of ZF1 st (snd nt))) sfs.

Lemma xto_struct_fields (r : raw) (n : gval) :
  NoDup (map fst r) -> (forall k, In k (map fst r) -> In k (map fst props)) ->
  xto_struct e si r = Ok n ->
  exists sfs fsN, alookup (si_name si) st = Some sfs /\
    xstruct_arg si n = Some (VStruct (TStruct (si_name si)) fsN) /\
    (forall k x, In (k, x) r -> exists fr i c, alookup k (si_fields si) = Some fr /\ fr_idx fr = [i] /\
                                             xassign (fr_type fr) x VNil = Some c /\ nth_field fsN i = Some c) /\
    (forall i, (forall k, In k (map fst r) -> xkidx si k <> Some i) -> nth_field fsN i = nth_field (xzero_fields sfs) i).
Proof.
  intros Hnd Hkeys Hto.
  destruct (xd_sfs e props si Hdesc) as (sfs & Hsfs & Hft).
  unfold xto_struct in Hto. apply bind_ok in Hto as (sN & Hfold & Hn). inversion Hn; subst n. clear Hn.
  rewrite (zero_struct _ _ _ Hsfs) in Hfold.
  change (fold_left _ r (Ok ?z)) with (fold_left (fun acc kv => cur <- acc ;; xtstep e si cur kv) r (Ok z)) in Hfold.
  assert (Hkp : forall k, In k (map fst r) -> exists p, In (k, p) props).
  { intros k Hk. apply Hkeys in Hk. apply in_map_iff in Hk as ([k0 p] & <- & Hin). eauto. }
  apply xto_fold in Hfold as (fsN & -> & Hset & Hother); [|exact Hnd| |].
  2: { intros k Hk. destruct (Hkp k Hk) as (p & Hp). destruct (xd_kidx e props si sfs (k, p) Hft Hp) as (i & Hi).
       cbn [fst] in Hi. congruence. }
  2: { intros k k' Hk Hk' E. destruct (Hkp k Hk) as (p & Hp). destruct (xd_kidx e props si sfs (k, p) Hft Hp) as (i & Hi).
       cbn [fst] in Hi. eapply (xkidx_inj si props (xd_inj e props si Hdesc) (xd_nodup e props si Hdesc) k k' i); auto; congruence. }
  exists sfs, fsN. split; [exact Hsfs|]. split.
  { unfold xstruct_arg. destruct (si_ptr si); cbn [negb andb]; rewrite xr_gtype_eqb_refl; reflexivity. }
  split; [exact Hset | exact Hother].
Qed.

(* the value of a property in a struct with direct fields is read off one field *)
Lemma xfield_value_nth t fs fs' np fr i :
  alookup (fst np) (si_fields si) = Some fr -> fr_nidx fr = [i] ->
  nth_field fs i = nth_field fs' i ->
  xfield_value e si (VStruct t fs) np = xfield_value e si (VStruct t fs') np.
Proof.
  intros Hfr Hn E. unfold xfield_value. rewrite Hfr. cbv zeta.
  rewrite !xextract_eq, Hn, !get_path_direct, E. reflexivity.
Qed.

(* two assignments that agree on a property's entry agree on the property's value *)
Lemma xto_struct_agree (r r' : raw) (n n' : gval) np :
  In np props ->
  NoDup (map fst r) -> (forall k, In k (map fst r) -> In k (map fst props)) -> xto_struct e si r = Ok n ->
  NoDup (map fst r') -> (forall k, In k (map fst r') -> In k (map fst props)) -> xto_struct e si r' = Ok n' ->
  alookup (fst np) r = alookup (fst np) r' ->
  exists sv sv', xstruct_arg si n = Some sv /\ xstruct_arg si n' = Some sv' /\
    xfield_value e si sv np = xfield_value e si sv' np.
Proof.
  intros Hin Hnd Hk Hto Hnd' Hk' Hto' Eq.
  destruct (xto_struct_fields r n Hnd Hk Hto) as (sfs & fsN & Hsfs & Harg & Hset & Hoth).
  destruct (xto_struct_fields r' n' Hnd' Hk' Hto') as (sfs' & fsN' & Hsfs' & Harg' & Hset' & Hoth').
  rewrite Hsfs in Hsfs'. inversion Hsfs'; subst sfs'. clear Hsfs'.
  destruct (xd_sfs e props si Hdesc) as (sfs0 & Hsfs0 & Hft). rewrite Hsfs in Hsfs0. inversion Hsfs0; subst sfs0.
  destruct (xd_field e props si sfs np Hft Hin) as (fr & i & nt & Hfr & Hidx & Hnidx & Hnt & Hty & Hok).
  exists (VStruct (TStruct (si_name si)) fsN), (VStruct (TStruct (si_name si)) fsN').
  split; [exact Harg|]. split; [exact Harg'|].
  apply (xfield_value_nth _ _ _ _ fr i Hfr Hnidx).
  assert (Hki : xkidx si (fst np) = Some i) by (unfold xkidx; rewrite Hfr, Hidx; reflexivity).
  destruct (alookup (fst np) r) as [x|] eqn:Er.
  - symmetry in Eq. apply alookup_In in Er. apply alookup_In in Eq.
    destruct (Hset _ _ Er) as (fr1 & i1 & c1 & Hfr1 & Hidx1 & Hc1 & Hn1).
    destruct (Hset' _ _ Eq) as (fr2 & i2 & c2 & Hfr2 & Hidx2 & Hc2 & Hn2).
    rewrite Hfr in Hfr1, Hfr2. inversion Hfr1; subst fr1. inversion Hfr2; subst fr2.
    rewrite Hidx in Hidx1, Hidx2. inversion Hidx1; subst i1. inversion Hidx2; subst i2.
    congruence.
  - symmetry in Eq.
    assert (Hfree : forall (r0 : raw), (forall k, In k (map fst r0) -> In k (map fst props)) ->
              alookup (fst np) r0 = None -> forall k, In k (map fst r0) -> xkidx si k <> Some i).
    { intros r0 Hk0 E0 k Hin0 E.
      assert (k = fst np).
      { apply (xkidx_inj si props (xd_inj e props si Hdesc) (xd_nodup e props si Hdesc) k (fst np) i).
        - apply Hk0; exact Hin0.
        - apply in_map. exact Hin.
        - exact E.
        - exact Hki. }
      subst k. apply alookup_None_notin in E0. contradiction. }
    rewrite (Hoth i (Hfree r Hk Er)), (Hoth' i (Hfree r' Hk' Eq)). reflexivity.
Qed.

Lemma xto_struct_succ (r : raw) :
  (forall k x, In (k, x) r -> In k (map fst props) /\
     exists fr c, alookup k (si_fields si) = Some fr /\ xassign (fr_type fr) x VNil = Some c) ->
  exists n, xto_struct e si r = Ok n.
Proof.
  intros H. destruct (xd_sfs e props si Hdesc) as (sfs & Hsfs & Hft).
  destruct (xto_fold_succ e si (TStruct (si_name si)) r (xzero_fields sfs)) as (sN & HsN).
  { intros k x Hin. destruct (H k x Hin) as (Hkp & fr & c & Hfr & Hc).
    apply in_map_iff in Hkp as ([k0 p] & <- & Hp).
    destruct (xd_field e props si sfs (k0, p) Hft Hp) as (fr' & i & nt & Hfr' & Hidx & _ & Hnt & _).
    cbn [fst] in *. rewrite Hfr in Hfr'. inversion Hfr'; subst fr'.
    exists fr, i, c. repeat split; auto.
    unfold xzero_fields. rewrite nth_field_map, Hnt. discriminate. }
  unfold xto_struct. rewrite (zero_struct _ _ _ Hsfs).
  change (fold_left _ r (Ok ?z)) with (fold_left (fun acc kv => cur <- acc ;; xtstep e si cur kv) r (Ok z)).
  fold (xzero_fields sfs). rewrite HsN. cbn [bind]. eexists. reflexivity.
Qed.

End Fields.

(* ---------- what Unserialize hands to unserializeToStruct, with the disabled flag recorded ---------- *)
Section Shape2.
Variable words : list (string * bool).
Variable pu : units -> string -> option fl.
Notation xunser := (xunser words pu).
Notation xvalidate := (xvalidate words pu).
Notation xserialize := (xserialize words pu).
Notation xubody := (xubody words pu).

Definition xdone2 (f : nat) (e : xenv) (props : list (string * xproperty)) (a : raw) (D : list string) : Prop :=
  forall k x, In (k, x) a -> In k D ->
    exists p d, In (k, p) props /\ p_disabled p = false /\ xunser f e (p_type p) d = Ok x.

Lemma xu_fold_done2 f e props : forall l D a r,
  (forall np, In np l -> In np props) -> xdone2 f e props a D ->
  fold_left (fun acc np => a <- acc ;; xubody f e a np) l (Ok a) = Ok r -> xdone2 f e props r (D ++ map fst l).
Proof.
  induction l as [|[k0 p0] l IH]; intros D a r Hl Hd H.
  - cbn in H. inversion H; subst. cbn. rewrite app_nil_r. exact Hd.
  - apply fold_bind_cons in H as (a' & Hb & H).
    replace (D ++ map fst ((k0, p0) :: l))%list with ((D ++ [k0]) ++ map fst l)%list by (rewrite <- app_assoc; reflexivity).
    eapply IH; [intros; apply Hl; now right | | exact H].
    unfold XRoundThm.xubody in Hb. cbn [fst snd] in Hb.
    destruct (alookup k0 a) as [d|] eqn:Ed.
    + apply bind_ok in Hb as (x & Hx & Hb). inversion Hb; subst a'. apply seg_ok in Hx.
      destruct (p_disabled p0) eqn:Edis; [discriminate|].
      assert (Ham : amem k0 a = true) by (unfold amem; rewrite Ed; reflexivity).
      unfold raw_set. rewrite Ham.
      intros k y Hin HD. apply in_map_iff in Hin as ([k1 y1] & E & Hin). cbn [fst] in E.
      destruct (String.eqb k1 k0) eqn:E1.
      * inversion E; subst k y. exists p0, d. split; [apply Hl; now left | split; [exact Edis | exact Hx]].
      * inversion E; subst k1 y1. apply (Hd k y Hin).
        apply in_app_iff in HD as [HD | [HD | []]]; [exact HD|]. subst k. rewrite String.eqb_refl in E1. discriminate.
    + inversion Hb; subst a'. intros k y Hin HD.
      apply in_app_iff in HD as [HD | [HD | []]]; [apply (Hd k y Hin HD)|]. subst k.
      exfalso. apply alookup_None_notin in Ed. apply Ed. apply in_map_iff. exists (k0, y). auto.
Qed.

Lemma xunser_struct_shape2 f e id u props si v n :
  raw_keys_unique v = true ->
  xunser (S f) e (XObject id u props (Some si)) v = Ok n ->
  exists r2 : raw,
    NoDup (map fst r2) /\ (forall k, In k (map fst r2) -> In k (map fst props)) /\
    (forall k x, In (k, x) r2 -> exists p d, In (k, p) props /\ p_disabled p = false /\ xunser f e (p_type p) d = Ok x) /\
    (forall np, In np props -> xhas_default e np = true -> amem (fst np) r2 = true) /\
    (forall np, In np props -> amem (fst np) r2 = false ->
       forall r' : raw, alookup (fst np) r' = None -> xsub_defaults f e (fst np) (snd np) r' = Ok r') /\
    xcheck_rules props (fun k => amem k r2) = Ok tt /\ xto_struct e si r2 = Ok n.
Proof.
  intros Hu H. rewrite (xunser_S words pu) in H. cbv beta iota zeta in H.
  assert (Hin_names : forall np : string * xproperty, In np props -> In (fst np) (map fst props)) by (intros; now apply in_map).
  destruct v.
  7: { (* a map *)
    apply bind_ok in H as (r0 & Hr0 & H). apply bind_ok in H as (r1' & Hr1' & H).
    apply bind_ok in H as (r2 & Hr2 & H). apply bind_ok in H as (u0 & Hrules & Hto). destruct u0.
    exists r2.
    assert (G0 : raw_good props r0).
    { apply (xk_fold_keys) in Hr0 as [Hk Hp]. cbn [map app] in Hk. unfold raw_good. rewrite Hk. split.
      - apply nodup_str_NoDup. exact Hu.
      - intros k Hin. apply xr_amem_in. apply Hp. exact Hin. }
    match type of Hr1' with fold_left _ _ (Ok ?r1) = _ => assert (G1 : raw_good props r1) end.
    { apply xr_fold_inv; [exact G0|]. intros a np0 Hin Ha.
      destruct (amem (fst np0) a) eqn:Ea; [exact Ha|]. destruct (p_default (snd np0)); [|exact Ha].
      destruct (xdecode_default _ _ _); [|exact Ha].
      apply raw_good_app; [exact Ha | now apply amem_false | now apply Hin_names]. }
    assert (G1' : raw_good props r1').
    { revert Hr1'. apply xr_fold_bind_inv; [exact G1|].
      intros a np0 a' Hin Ha Hst. destruct (amem (fst np0) r0); [inversion Hst; subst; exact Ha|].
      apply xsub_defaults_shape in Hst as [-> | (y & ->)]; [exact Ha|].
      apply raw_good_set; [exact Ha | now apply Hin_names]. }
    change (fold_left _ props (Ok r1')) with (fold_left (fun acc np => a <- acc ;; xubody f e a np) props (Ok r1')) in Hr2.
    assert (G2 : raw_good props r2).
    { revert Hr2. apply xr_fold_bind_inv; [exact G1'|].
      intros a np0 a' Hin Ha Hst. unfold XRoundThm.xubody in Hst. destruct (alookup (fst np0) a); [|inversion Hst; subst; exact Ha].
      apply bind_ok in Hst as (x & _ & Hst). inversion Hst; subst.
      apply raw_good_set; [exact Ha | now apply Hin_names]. }
    (* keys persist through the fourth fold *)
    assert (P2 : forall k a, amem k a = true ->
              fold_left (fun acc np => a <- acc ;; xubody f e a np) props (Ok a) = Ok r2 -> amem k r2 = true).
    { intros k a Ha. apply (xr_fold_bind_inv _ (fun r : raw => amem k r = true)); [exact Ha|].
      intros a0 np0 a' _ Ha0 Hst. unfold XRoundThm.xubody in Hst.
      destruct (alookup (fst np0) a0); [|inversion Hst; subst; exact Ha0].
      apply bind_ok in Hst as (x & _ & Hst). inversion Hst; subst. now apply xr_amem_raw_set. }
    destruct G2 as [Hnd Hkeys].
    split; [exact Hnd|]. split; [exact Hkeys|]. split; [|split; [|split; [|split; [exact Hrules | exact Hto]]]].
    - intros k x Hin.
      apply (xu_fold_done2 f e props props [] r1' r2 (fun np H0 => H0)) in Hr2; [|intros ? ? ? []].
      apply (Hr2 k x Hin). cbn [app]. apply Hkeys. apply in_map_iff. exists (k, x). auto.
    - intros np Hin Hd.
      match type of Hr1' with fold_left _ _ (Ok ?r1) = _ => assert (M1 : amem (fst np) r1 = true) end.
      { apply xd_fold_mem. right. exists np. auto. }
      assert (M1' : amem (fst np) r1' = true).
      { revert Hr1'. apply (xr_fold_bind_inv _ (fun r : raw => amem (fst np) r = true)); [exact M1|].
        intros a np0 a' _ Ha Hst.
        destruct (amem (fst np0) r0); [inversion Hst; subst; exact Ha|].
        apply xsub_defaults_shape in Hst as [-> | (y & ->)]; [exact Ha | now apply xr_amem_raw_set]. }
      exact (P2 _ _ M1' Hr2).
    - (* an absent property: its sub-object defaults ran in the first pass and added nothing *)
      intros np Hin Habs r' Hr'.
      assert (Hstep : forall lp a rr,
                fold_left (fun acc np0 => a <- acc ;;
                   if amem (fst np0) r0 then Ok a else xsub_defaults f e (fst np0) (snd np0) a) lp (Ok a) = Ok rr ->
                (forall k, amem k rr = true -> amem k r2 = true) ->
                In np lp -> amem (fst np) r0 = false -> xsub_defaults f e (fst np) (snd np) r' = Ok r').
      { induction lp as [|np0 lp IHl]; intros a rr Hf Hper Hinl Hr0n; [destruct Hinl|].
        apply fold_bind_cons in Hf as (a' & Hst & Hf).
        destruct Hinl as [-> | Hinl]; [|exact (IHl a' rr Hf Hper Hinl Hr0n)].
        cbv beta in Hst. unfold xproperty in *. rewrite Hr0n in Hst.
        assert (Ha' : amem (fst np) a' = false).
        { destruct (amem (fst np) a') eqn:Ea'; [|reflexivity].
          assert (amem (fst np) rr = true); [|rewrite (Hper _ H) in Habs; discriminate].
          revert Hf. apply (xr_fold_bind_inv _ (fun r : raw => amem (fst np) r = true)); [exact Ea'|].
          intros a0 np1 a1 _ Ha0 Hst1.
          destruct (amem (fst np1) r0); [inversion Hst1; subst; exact Ha0|].
          apply xsub_defaults_shape in Hst1 as [-> | (y & ->)]; [exact Ha0 | now apply xr_amem_raw_set]. }
        assert (Ha : alookup (fst np) a = None).
        { apply amem_false. destruct (amem (fst np) a) eqn:Ea; [|reflexivity].
          apply xsub_defaults_shape in Hst as [-> | (y & ->)]; [congruence|].
          rewrite (xr_amem_raw_set _ _ _ _ Ea) in Ha'. discriminate. }
        exact (xsub_defaults_absent f e (fst np) (snd np) a r' a' Ha Hr' Hst Ha'). }
      assert (Hr0n : amem (fst np) r0 = false).
      { destruct (amem (fst np) r0) eqn:E0; [|reflexivity].
        match type of Hr1' with fold_left _ _ (Ok ?r1) = _ => assert (M1 : amem (fst np) r1 = true) end.
        { apply xd_fold_mem. left. exact E0. }
        assert (M1' : amem (fst np) r1' = true).
        { revert Hr1'. apply (xr_fold_bind_inv _ (fun r : raw => amem (fst np) r = true)); [exact M1|].
          intros a np0 a' _ Ha Hst.
          destruct (amem (fst np0) r0); [inversion Hst; subst; exact Ha|].
          apply xsub_defaults_shape in Hst as [-> | (y & ->)]; [exact Ha | now apply xr_amem_raw_set]. }
        rewrite (P2 _ _ M1' Hr2) in Habs. discriminate. }
      eapply Hstep; [exact Hr1' | | exact Hin | exact Hr0n].
      intros k Hk. exact (P2 _ _ Hk Hr2). }
  (* not a map: the single-property shorthand *)
  all: destruct props as [|[name p] [|? ?]]; try discriminate.
  all: apply bind_ok in H as (x & Hx & H); apply bind_ok in H as (u0 & Hrules & Hto); destruct u0.
  all: apply seg_ok in Hx; destruct (p_disabled p) eqn:Edis; [discriminate|].
  all: exists [(name, x)].
  all: split; [cbn; constructor; [intros [] | constructor]|].
  all: split; [intros k0 H0; exact H0|].
  all: split; [intros k0 x0 [E | []]; inversion E; subst; eexists p, _; split; [now left | split; [exact Edis | exact Hx]]|].
  all: split; [intros np0 [<- | []] _; unfold amem; cbn; rewrite String.eqb_refl; reflexivity|].
  all: split; [intros np0 [<- | []] Hab; unfold amem in Hab; cbn in Hab; rewrite String.eqb_refl in Hab; discriminate|].
  all: split; [|exact Hto].
  all: apply xcheck_rules_ok; intros nm q Hq; apply (proj1 (xcheck_rules_ok _ _) Hrules) in Hq.
  all: eapply xrule_holds_ext; [|exact Hq]; intros k0; unfold amem; cbn; destruct (String.eqb k0 name); reflexivity.
Qed.

End Shape2.

(* ---------- the present properties ---------- *)
Lemma xpresent_keys_sub e si sv (l : list (string * xproperty)) k :
  In k (map fst (xpresent e si sv l)) -> In k (map fst l).
Proof. intros H. apply xpresent_in in H as (np & x & Hnp & <- & _). now apply in_map. Qed.

Lemma xpresent_nodup e si sv (l : list (string * xproperty)) :
  NoDup (map fst l) -> NoDup (map fst (xpresent e si sv l)).
Proof.
  induction l as [|np t IH]; intros H; [constructor|]. cbn [map] in H. inversion H as [|? ? Hni Hnd]; subst.
  unfold xpresent. cbn [flat_map]. fold (xpresent e si sv t).
  destruct (xfield_value e si sv np) as [x|]; cbn [app map fst]; [|apply IH; exact Hnd].
  constructor; [|apply IH; exact Hnd]. intros C. apply Hni. apply (xpresent_keys_sub _ _ _ _ _ C).
Qed.

(* equality up to treat-empty-as-default: the same struct shell, the same properties present with the same values *)
Definition xstruct_sim (e : xenv) (props : list (string * xproperty)) (si : structinfo) (n n' : gval) : Prop :=
  exists sv sv', xstruct_arg si n = Some sv /\ xstruct_arg si n' = Some sv' /\
    forall np, In np props -> xfield_value e si sv' np = xfield_value e si sv np.

(* a treat-empty-as-default property has no (decodable) default of its own *)
Definition xempty_nodefault (e : xenv) (props : list (string * xproperty)) : bool :=
  forallb (fun np => negb (p_empty_is_default (snd np) && xhas_default e np)) props.

Lemma xempty_nodefault_spec e (props : list (string * xproperty)) np :
  xempty_nodefault e props = true -> In np props -> p_empty_is_default (snd np) = true -> xhas_default e np = false.
Proof.
  unfold xempty_nodefault. intros H Hin He. rewrite forallb_forall in H. specialize (H np Hin). cbv beta in H.
  unfold xproperty in *. rewrite He in H. destruct (xhas_default e np); [discriminate | reflexivity].
Qed.

Section Full.
Variable words : list (string * bool).
Variable pu : units -> string -> option fl.
Notation xunser := (xunser words pu).
Notation xvalidate := (xvalidate words pu).
Notation xserialize := (xserialize words pu).
Notation xubody := (xubody words pu).

(* the per-property Unserialize fold on the serialized entries *)
Lemma xu_fold_back f e (props : list (string * xproperty)) (X : string -> option gval) (ys : raw) :
  NoDup (map fst props) ->
  (forall k y, In (k, y) ys -> exists p x, In (k, p) props /\ p_disabled p = false /\
                                         xunser f e (p_type p) y = Ok x /\ X k = Some x) ->
  forall l (a : raw), NoDup (map fst l) -> (forall np, In np l -> In np props) ->
    map fst a = map fst ys ->
    (forall k, In k (map fst ys) ->
       (In k (map fst l) -> alookup k a = alookup k ys) /\ (~ In k (map fst l) -> alookup k a = X k)) ->
    exists q2, fold_left (fun acc np => a <- acc ;; xubody f e a np) l (Ok a) = Ok q2 /\
      map fst q2 = map fst ys /\ forall k, In k (map fst ys) -> alookup k q2 = X k.
Proof.
  intros Hndp HY. induction l as [|[k0 p0] l IH]; intros a Hnd Hl Hk Hinv.
  - exists a. split; [reflexivity|]. split; [exact Hk|]. intros k Hin. apply (Hinv k Hin). intros [].
  - cbn [map fst] in Hnd. inversion Hnd as [|? ? Hni Hnd']; subst.
    assert (Hl' : forall np, In np l -> In np props) by (intros; apply Hl; now right).
    destruct (alookup k0 a) as [d|] eqn:Ed.
    + assert (Hk0 : In k0 (map fst ys)).
      { rewrite <- Hk. apply alookup_In in Ed. apply in_map_iff. exists (k0, d). auto. }
      destruct (Hinv k0 Hk0) as [Hi1 _].
      assert (Eys : alookup k0 ys = Some d) by (rewrite <- (Hi1 (or_introl eq_refl)); exact Ed).
      apply alookup_In in Eys. destruct (HY _ _ Eys) as (p & x & Hp & Hdis & Hux & HX).
      assert (p = p0).
      { apply (In_alookup_nodup _ _ _ Hndp) in Hp. assert (Hp0 := Hl _ (or_introl eq_refl)).
        apply (In_alookup_nodup _ _ _ Hndp) in Hp0. congruence. }
      subst p.
      assert (Ham : amem k0 a = true) by (unfold amem; rewrite Ed; reflexivity).
      destruct (raw_set_present k0 x a Ham) as [Hf Hlk].
      destruct (IH (raw_set k0 x a) Hnd' Hl') as (q2 & Hq2 & Hkq & Hvq).
      { rewrite Hf. exact Hk. }
      { intros k Hin. rewrite Hlk. destruct (Hinv k Hin) as [Ha Hb]. destruct (String.eqb k k0) eqn:E.
        - apply String.eqb_eq in E. subst k. split; [intros C; contradiction | intros _; symmetry; exact HX].
        - apply String.eqb_neq in E. split; [intros Hin'; apply Ha; now right|].
          intros Hn; apply Hb; intros [C|C]; [cbn in C; congruence | contradiction]. }
      exists q2. split; [|split; assumption]. apply fold_bind_cons. exists (raw_set k0 x a). split; [|exact Hq2].
      unfold XRoundThm.xubody. cbn [fst snd]. rewrite Ed, Hdis, Hux. reflexivity.
    + destruct (IH a Hnd' Hl' Hk) as (q2 & Hq2 & Hkq & Hvq).
      { intros k Hin. destruct (Hinv k Hin) as [Ha Hb].
        assert (k <> k0). { intros ->. apply alookup_None_notin in Ed. apply Ed. rewrite Hk. exact Hin. }
        split; [intros Hin'; apply Ha; now right|].
        intros Hn; apply Hb; intros [C|C]; [cbn in C; congruence | contradiction]. }
      exists q2. split; [|split; assumption]. apply fold_bind_cons. exists a. split; [|exact Hq2].
      unfold XRoundThm.xubody. cbn [fst snd]. rewrite Ed. reflexivity.
Qed.

(* the property types (children), three parts: what a property type's Unserialize returns is of the
   property's reflected type, passes Validate, serializes, and the serialized form unserializes back to it;
   and a treat-empty-as-default property contributes no sub-object defaults when it is absent *)
Definition xchildren_rt (f f' : nat) (e : xenv) (props : list (string * xproperty)) : Prop :=
  forall np, In np props ->
    (forall d x, xunser f e (p_type (snd np)) d = Ok x ->
       xres_ok (xprt e np) x = true /\ xvalidate f' e (p_type (snd np)) x = Ok tt /\
       exists y, xserialize f' e (p_type (snd np)) x = Ok y /\ xunser f e (p_type (snd np)) y = Ok x) /\
    (p_empty_is_default (snd np) = true ->
       forall r : raw, alookup (fst np) r = None -> xsub_defaults f e (fst np) (snd np) r = Ok r).

Theorem x_struct_roundtrip : forall f f' e id u props si v n,
  xrt_desc e props si = true -> xempty_nodefault e props = true -> raw_keys_unique v = true ->
  xchildren_rt f f' e props ->
  xunser (S f) e (XObject id u props (Some si)) v = Ok n ->
  xvalidate (S f') e (XObject id u props (Some si)) n = Ok tt /\
  exists w, xserialize (S f') e (XObject id u props (Some si)) n = Ok w /\
    exists n', xunser (S f) e (XObject id u props (Some si)) w = Ok n' /\ xstruct_sim e props si n n'.
Proof.
  intros f f' e id u props si v n Hdesc Hnodef Hu Hch Hun.
  assert (Hch0 : xchildren_ok words pu f f' e props).
  { intros np d x Hin Hd. destruct (Hch np Hin) as [H1 _]. destruct (H1 d x Hd) as (A & B & y & C & _). eauto. }
  destruct (x_struct_roundtrip_partial words pu f f' e id u props si v n Hdesc Hu Hch0 Hun) as [Hval (w & Hser)].
  split; [exact Hval|]. exists w. split; [exact Hser|].
  pose proof (xd_nodup e props si Hdesc) as Hndp.
  destruct (xunser_struct_shape2 words pu _ _ _ _ _ _ _ _ Hu Hun) as (r2 & Hnd & Hkeys & Hvals & Hdef & Hsubq & Hrules & Hto).
  assert (Hval2 : forall k x p, In (k, x) r2 -> In (k, p) props ->
            p_disabled p = false /\ exists d, xunser f e (p_type p) d = Ok x).
  { intros k x p Hin Hp. destruct (Hvals k x Hin) as (p' & d & Hp' & Hdis & Hd).
    assert (p' = p).
    { apply (In_alookup_nodup _ _ _ Hndp) in Hp. apply (In_alookup_nodup _ _ _ Hndp) in Hp'. congruence. }
    subst p'. eauto. }
  destruct (xto_struct_extract e props si Hdesc r2 n Hnd Hkeys) as (sv & Harg & Hext); [|exact Hto|].
  { intros k x p Hin Hp. destruct (Hval2 k x p Hin Hp) as (_ & d & Hd). destruct (Hch (k, p) Hp) as [H1 _]. apply (H1 d x Hd). }
  pose proof (proj1 (xcheck_rules_ok _ _) Hrules) as Hr.
  assert (E1 : forall np, In np props -> alookup (fst np) r2 = None -> xfield_value e si sv np = None).
  { intros np Hin Hn. specialize (Hext np Hin). rewrite Hn in Hext. apply Hext.
    destruct np as [k p]. specialize (Hr k p Hin). unfold xrule_holds in Hr. cbn [fst] in Hn.
    assert (Ha : amem k r2 = false) by (now apply amem_false). rewrite Ha in Hr. destruct Hr as (Hreq & _).
    pose proof (xd_opt e props si Hdesc (k, p) Hin) as Ho. apply andb_prop in Ho as [Ho _]. cbn [snd] in Ho.
    rewrite Hreq in Ho. cbn [orb] in Ho.
    destruct (xhas_default e (k, p)) eqn:Ed; [|exact Ho].
    pose proof (Hdef (k, p) Hin Ed) as Hm. cbn [fst] in Hm. congruence. }
  assert (E2 : forall np x, In np props -> xfield_value e si sv np = Some x -> alookup (fst np) r2 = Some x).
  { intros np x Hin Hx. destruct (alookup (fst np) r2) as [x0|] eqn:Ea.
    - specialize (Hext np Hin). rewrite Ea in Hext. destruct Hext as [H | [H _]]; congruence.
    - rewrite (E1 np Hin Ea) in Hx. discriminate. }
  assert (E3 : forall np x, In np props -> alookup (fst np) r2 = Some x -> xfield_value e si sv np = None ->
                p_empty_is_default (snd np) = true).
  { intros np x Hin Ha Hx. specialize (Hext np Hin). rewrite Ha in Hext. destruct Hext as [H | [_ H]]; congruence. }
  assert (Hf : has_fields si props).
  { intros np Hin. destruct (xd_sfs e props si Hdesc) as (sfs & _ & Hft).
    destruct (xd_field e props si sfs np Hft Hin) as (fr & _ & _ & Hfr & _). congruence. }
  (* the rules on the present properties *)
  apply (xvalidate_struct_iff words pu _ _ _ _ _ _ _ Hf) in Hval. destruct Hval as (sv1 & Harg1 & Hrules' & _).
  rewrite Harg in Harg1. inversion Harg1; subst sv1. clear Harg1.
  (* the serialized value *)
  destruct (xserialize_struct_value words pu f' e id u props si n w Hf Hser) as (sv0 & ys & Harg0 & Hys & ->).
  rewrite Harg in Harg0. inversion Harg0; subst sv0. clear Harg0.
  pose proof (xser_entries_keys words pu _ _ _ _ _ _ Hys) as Hykeys.
  assert (HY : forall k y, In (k, y) ys -> exists p x, In (k, p) props /\ p_disabled p = false /\
                 xunser f e (p_type p) y = Ok x /\ (fun k => alookup k r2) k = Some x).
  { intros k y Hin. unfold xser_entries in Hys.
    destruct (xr_forall2_in_r _ _ _ _ Hys Hin) as ([np x] & Hpres & Hk & Hsy). cbn [fst snd] in Hk, Hsy.
    apply in_flat_map in Hpres as (np' & Hnp' & Hpres).
    destruct (xfield_value e si sv np') as [x'|] eqn:Ex; [|contradiction].
    destruct Hpres as [E|[]]. inversion E; subst np' x'.
    destruct np as [k' p]. cbn [fst snd] in *. subst k.
    pose proof (E2 _ _ Hnp' Ex) as Ha. cbn [fst] in Ha.
    destruct (Hval2 k' x p (alookup_In _ _ _ Ha) Hnp') as (Hdis & d & Hd).
    destruct (Hch (k', p) Hnp') as [H1 _]. destruct (H1 d x Hd) as (_ & _ & y' & Hy' & Hback). cbn [snd] in *.
    assert (y' = y) by congruence. subst y'. exists p, x. auto. }
  assert (Hyn : NoDup (map fst ys)) by (rewrite Hykeys; apply xpresent_nodup; exact Hndp).
  assert (Hysub : forall k, In k (map fst ys) -> In k (map fst props)).
  { intros k Hk. rewrite Hykeys in Hk. exact (xpresent_keys_sub _ _ _ _ _ Hk). }
  destruct (xu_fold_back f e props (fun k => alookup k r2) ys Hndp HY props ys Hndp (fun np H0 => H0) eq_refl)
    as (q2 & Hq2 & Hq2k & Hq2v).
  { intros k Hk. split; [reflexivity|]. intros Hn. exfalso. apply Hn. apply Hysub. exact Hk. }
  assert (Q3 : forall np, In np props -> alookup (fst np) q2 = xfield_value e si sv np).
  { intros np Hin. destruct (xfield_value e si sv np) as [x|] eqn:Ex.
    - rewrite (Hq2v (fst np)); [exact (E2 _ _ Hin Ex)|].
      rewrite Hykeys. apply xpresent_in. exists np, x. auto.
    - apply alookup_None_notin. rewrite Hq2k, Hykeys. intros C.
      apply xpresent_in in C as (np' & x' & Hnp' & Hfst & Hx').
      assert (np' = np).
      { destruct np as [k p], np' as [k' p']. cbn [fst] in Hfst. subst k'.
        apply (In_alookup_nodup _ _ _ Hndp) in Hin. apply (In_alookup_nodup _ _ _ Hndp) in Hnp'. congruence. }
      subst np'. congruence. }
  assert (Hq2n : NoDup (map fst q2)) by (rewrite Hq2k; exact Hyn).
  assert (Hq2sub : forall k, In k (map fst q2) -> In k (map fst props)) by (rewrite Hq2k; exact Hysub).
  assert (Hq2r2 : forall k x, In (k, x) q2 -> In (k, x) r2).
  { intros k x Hin. assert (Hkp : In k (map fst props)) by (apply Hq2sub; apply in_map_iff; exists (k, x); auto).
    apply in_map_iff in Hkp as ([k0 p] & Hk0 & Hp). cbn [fst] in Hk0. subst k0.
    pose proof (Q3 (k, p) Hp) as Hq. cbn [fst] in Hq. rewrite (In_alookup_nodup _ _ _ Hq2n Hin) in Hq. symmetry in Hq.
    pose proof (E2 _ _ Hp Hq) as Ha. cbn [fst] in Ha. apply alookup_In in Ha. exact Ha. }
  destruct (xto_struct_fields e props si Hdesc r2 n Hnd Hkeys Hto) as (sfs & fsN & Hsfs & HargN & Hset & Hoth).
  destruct (xto_struct_succ e props si Hdesc q2) as (n' & Hto').
  { intros k x Hin. split; [apply Hq2sub; apply in_map_iff; exists (k, x); auto|].
    destruct (Hset _ _ (Hq2r2 _ _ Hin)) as (fr & i & c & Hfr & _ & Hc & _). exists fr, c. auto. }
  exists n'. split.
  { rewrite (xunser_S words pu). unfold raw_to_val. cbv beta iota zeta.
    apply bind_ok. exists ys. split.
    { apply (xk_fold_raw props ys []). intros k Hk. apply xr_amem_in. apply Hysub. exact Hk. }
    cbv beta. apply bind_ok. exists ys. split.
    { apply xsub_fold_id.
      - apply xd_fold_id. intros np Hin Hd.
        destruct (xfield_value e si sv np) as [x|] eqn:Ex.
        + apply xr_amem_in. rewrite Hykeys. apply xpresent_in. exists np, x. auto.
        + exfalso. pose proof (Hdef np Hin Hd) as Hm. apply amem_alookup in Hm as (x & Hx).
          pose proof (E3 np x Hin Hx Ex) as He.
          rewrite (xempty_nodefault_spec e props np Hnodef Hin He) in Hd. discriminate.
      - intros np Hin Ham. assert (Hay : alookup (fst np) ys = None) by (now apply amem_false).
        destruct (alookup (fst np) r2) as [x|] eqn:Ea.
        + assert (Ex : xfield_value e si sv np = None).
          { destruct (xfield_value e si sv np) as [x'|] eqn:Ex; [|reflexivity]. exfalso.
            assert (amem (fst np) ys = true); [|congruence].
            apply xr_amem_in. rewrite Hykeys. apply xpresent_in. exists np, x'. auto. }
          destruct (Hch np Hin) as [_ H2]. apply H2; [exact (E3 np x Hin Ea Ex) | exact Hay].
        + apply Hsubq; [exact Hin | now apply amem_false | exact Hay]. }
    cbv beta. apply bind_ok. exists q2. split; [exact Hq2|].
    cbv beta. apply bind_ok. exists tt. split; [|exact Hto'].
    apply xcheck_rules_ok. intros name p Hin. eapply xrule_holds_ext; [|exact (Hrules' name p Hin)].
    intros k. cbv beta. apply x_amem_keys. rewrite Hq2k, Hykeys. reflexivity. }
  destruct (xto_struct_extract e props si Hdesc q2 n' Hq2n Hq2sub) as (sv' & Harg' & Hext'); [|exact Hto'|].
  { intros k x p Hin Hp. destruct (Hval2 k x p (Hq2r2 _ _ Hin) Hp) as (_ & d & Hd).
    destruct (Hch (k, p) Hp) as [H1 _]. apply (H1 d x Hd). }
  exists sv, sv'. split; [exact Harg|]. split; [exact Harg'|].
  intros np Hin. destruct (xfield_value e si sv np) as [x|] eqn:Ex.
  - destruct (xto_struct_agree e props si Hdesc r2 q2 n n' np Hin Hnd Hkeys Hto Hq2n Hq2sub Hto') as (s1 & s2 & A1 & A2 & Heq).
    { rewrite (Q3 np Hin), Ex. exact (E2 _ _ Hin Ex). }
    rewrite Harg in A1. rewrite Harg' in A2. inversion A1; inversion A2; subst. rewrite <- Heq. exact Ex.
  - specialize (Hext' np Hin). rewrite (Q3 np Hin), Ex in Hext'. apply Hext'.
    pose proof (xd_opt e props si Hdesc np Hin) as Ho. apply andb_prop in Ho as [Ho Hemp].
    assert (Hreq : p_required (snd np) = false /\ xhas_default e np = false).
    { destruct (alookup (fst np) r2) as [x|] eqn:Ea.
      - pose proof (E3 np x Hin Ea Ex) as He. destruct (xempty_ok_spec props np Hemp He) as (H1 & _). split; [exact H1|].
        exact (xempty_nodefault_spec e props np Hnodef Hin He).
      - destruct np as [k p]. pose proof (Hr k p Hin) as Hrk. unfold xrule_holds in Hrk. cbn [fst] in Ea.
        rewrite (proj2 (amem_false _ _) Ea) in Hrk. destruct Hrk as (Hreq & _). split; [exact Hreq|].
        destruct (xhas_default e (k, p)) eqn:Ed; [|reflexivity].
        pose proof (Hdef (k, p) Hin Ed) as Hm. cbn [fst] in Hm. apply amem_false in Ea. congruence. }
    destruct Hreq as [H1 H2]. rewrite H1, H2 in Ho. exact Ho.
Qed.

End Full.

Print Assumptions x_struct_roundtrip.

(* ---------- similar structs are indistinguishable to Validate and Serialize ---------- *)
Lemma xr_flat_map_ext_in {A B} (g h : A -> list B) l :
  (forall a, In a l -> g a = h a) -> flat_map g l = flat_map h l.
Proof.
  induction l as [|a t IH]; intros H; [reflexivity|]. cbn [flat_map].
  rewrite (H a (or_introl eq_refl)), IH; [reflexivity|]. intros; apply H; now right.
Qed.

Section Sim.
Variable words : list (string * bool).
Variable pu : units -> string -> option fl.
Notation xvalidate := (xvalidate words pu).
Notation xserialize := (xserialize words pu).

Theorem x_struct_sim_paths : forall f e id u props si n n',
  xrt_desc e props si = true -> xstruct_sim e props si n n' ->
  (xvalidate (S f) e (XObject id u props (Some si)) n = Ok tt ->
   xvalidate (S f) e (XObject id u props (Some si)) n' = Ok tt) /\
  (forall w, xserialize (S f) e (XObject id u props (Some si)) n = Ok w ->
             xserialize (S f) e (XObject id u props (Some si)) n' = Ok w).
Proof.
  intros f e id u props si n n' Hdesc (sv & sv' & A & A' & H).
  assert (Hf : has_fields si props).
  { intros np Hin. destruct (xd_sfs e props si Hdesc) as (sfs & _ & Hft).
    destruct (xd_field e props si sfs np Hft Hin) as (fr & _ & _ & Hfr & _). congruence. }
  assert (HP : xpresent e si sv' props = xpresent e si sv props).
  { unfold xpresent. apply xr_flat_map_ext_in. intros np Hin. rewrite (H np Hin). reflexivity. }
  split.
  - intros Hv. apply (xvalidate_struct_iff words pu _ _ _ _ _ _ _ Hf) in Hv. destruct Hv as (sv0 & A0 & R & C).
    rewrite A in A0. inversion A0; subst sv0.
    apply (xvalidate_struct_iff words pu _ _ _ _ _ _ _ Hf). exists sv'. split; [exact A'|]. split.
    + rewrite HP. exact R.
    + intros np x Hin Hx. rewrite (H np Hin) in Hx. exact (C np x Hin Hx).
  - intros w Hs. rewrite (xserialize_S words pu) in Hs |- *. cbv beta iota zeta in Hs |- *. rewrite A in Hs. rewrite A'.
    change (fold_left _ props (Ok [])) with (fold_left (fun acc np => a <- acc ;; xsbody words pu f e si sv a np) props (Ok [])) in Hs.
    change (fold_left _ props (Ok [])) with (fold_left (fun acc np => a <- acc ;; xsbody words pu f e si sv' a np) props (Ok [])).
    apply bind_ok in Hs as (out & Hout & Hs).
    apply (xsfold_ok words pu _ _ _ _ _ Hf) in Hout as (ys & Hys & ->).
    apply bind_ok. exists ([] ++ ys)%list. split; [|exact Hs].
    apply (xsfold_ok words pu _ _ _ _ _ Hf). exists ys. split; [|reflexivity].
    unfold xser_entries in Hys |- *.
    rewrite (xr_flat_map_ext_in _ (fun np => match xfield_value e si sv np with Some x => [(np, x)] | None => [] end)); [exact Hys|].
    intros np Hin. rewrite (H np Hin). reflexivity.
Qed.

End Sim.

Print Assumptions x_struct_sim_paths.
