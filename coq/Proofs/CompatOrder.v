(* Proofs/CompatOrder.v — C15: the verdict Ok does not depend on the order of any association
   list (= Go map iteration order), on either side or in either environment.

   Two association lists are "the same Go map" when both have unique keys and every key looks up
   related values (`same_map`): this covers every permutation (lemma perm_same_map) and nothing
   else.  `sperm` closes it under the schema constructors, `eperm` lifts it to environments. *)
From Coq Require Import List ZArith Bool String Lia Permutation Setoid Morphisms.
From Verif Require Import Base.Prelude Base.Str Base.Float Base.GoVal
  Schema.Regex Schema.Units Schema.Syntax Schema.Ops Schema.Compat Proofs.Compat.
Import ListNotations.
Open Scope Z_scope.

Inductive rel_opt {A B} (R : A -> B -> Prop) : option A -> option B -> Prop :=
| ro_none : rel_opt R None None
| ro_some : forall a b, R a b -> rel_opt R (Some a) (Some b).

Definition same_map {A B} (R : A -> B -> Prop) (l : list (string * A)) (l' : list (string * B)) : Prop :=
  nodup_str (map fst l) = true /\ nodup_str (map fst l') = true /\
  forall k, rel_opt R (alookup k l) (alookup k l').

Definition same_zmap {A} (l l' : list (Z * A)) : Prop :=
  nodup_z (map fst l) = true /\ nodup_z (map fst l') = true /\ forall k, zlookup k l = zlookup k l'.

Definition olookup {A} (k : okey) (l : list (okey * A)) : option A :=
  option_map snd (find (fun ks => okey_eqb (fst ks) k) l).
Definition same_omap {A B} (R : A -> B -> Prop) (l : list (okey * A)) (l' : list (okey * B)) : Prop :=
  nodup_okey (map fst l) = true /\ nodup_okey (map fst l') = true /\
  forall k, rel_opt R (olookup k l) (olookup k l').

Definition with_type (p : property) (t : schema) : property :=
  mkProp t (p_display p) (p_required p) (p_required_if p) (p_required_if_not p) (p_conflicts p)
         (p_default p) (p_examples p) (p_empty_is_default p) (p_disabled p) (p_disabled_reason p).

Inductive sperm : schema -> schema -> Prop :=
| sp_int : forall a b c, sperm (SInt a b c) (SInt a b c)
| sp_float : forall a b c, sperm (SFloat a b c) (SFloat a b c)
| sp_string : forall a b c, sperm (SString a b c) (SString a b c)
| sp_bool : sperm SBool SBool
| sp_pattern : sperm SPattern SPattern
| sp_any : sperm SAny SAny
| sp_enum_int : forall v v' u, same_zmap v v' -> sperm (SEnumInt v u) (SEnumInt v' u)
| sp_enum_str : forall n v v', same_map eq v v' -> sperm (SEnumStr n v) (SEnumStr n v')
| sp_list : forall i i' a b, sperm i i' -> sperm (SList i a b) (SList i' a b)
| sp_map : forall k k' v v' a b, sperm k k' -> sperm v v' -> sperm (SMap k v a b) (SMap k' v' a b)
| sp_object : forall id u ps ps',
    same_map (fun p q => sperm (p_type p) (p_type q) /\ q = with_type p (p_type q)) ps ps' ->
    sperm (SObject id u ps) (SObject id u ps')
| sp_oneof : forall ts ts' ik f inl, same_omap sperm ts ts' -> sperm (SOneOf ts ik f inl) (SOneOf ts' ik f inl)
| sp_ref : forall id ns d, sperm (SRef id ns d) (SRef id ns d)
| sp_scope : forall objs objs' root, same_map sperm objs objs' -> sperm (SScope objs root) (SScope objs' root).

Definition eperm (e e' : env) : Prop :=
  same_map sperm (e_self e) (e_self e') /\
  @same_map objtab objtab (@same_map schema schema sperm) (e_ext e) (e_ext e') /\
  e_or e = e_or e'.

Lemma rel_opt_cases : forall A B (R : A -> B -> Prop) x y, rel_opt R x y ->
  (x = None /\ y = None) \/ (exists a b, x = Some a /\ y = Some b /\ R a b).
Proof. intros A B R x y H; inversion H; subst; [left; auto | right; eauto]. Qed.

(* ---------- every permutation of a key-unique list is the same map ---------- *)

Lemma nodup_str_NoDup : forall l, nodup_str l = true <-> NoDup l.
Proof.
  induction l as [|x t IH]; simpl; split; intros H; auto; try constructor.
  - apply andb_true_iff in H; destruct H as [H1 H2]. apply negb_true_iff in H1.
    intros C; apply str_in_In in C; congruence.
  - apply IH. apply andb_true_iff in H; tauto.
  - inversion H; subst. apply andb_true_iff; split; [|apply IH; auto].
    apply negb_true_iff. destruct (str_in x t) eqn:E; auto. apply str_in_In in E; contradiction.
Qed.

Lemma alookup_none_notin : forall A k (l : list (string * A)), alookup k l = None -> ~ In k (map fst l).
Proof.
  intros A k l; induction l as [|[k' v] t IH]; simpl; intros H; auto.
  destruct (String.eqb k k') eqn:E; [discriminate|].
  intros [C|C]; [subst; rewrite String.eqb_refl in E; discriminate | apply IH; auto].
Qed.

Lemma perm_same_map : forall A (l l' : list (string * A)),
  Permutation l l' -> nodup_str (map fst l) = true -> same_map eq l l'.
Proof.
  intros A l l' Hp Hn.
  assert (Hn' : nodup_str (map fst l') = true).
  { apply nodup_str_NoDup. apply nodup_str_NoDup in Hn.
    eapply Permutation_NoDup; [apply Permutation_map; eauto | auto]. }
  split; [auto|split; [auto|]]. intros k.
  destruct (alookup k l) as [v|] eqn:E.
  - apply alookup_in in E. rewrite (alookup_nodup _ l' k v Hn').
    + constructor; auto.
    + eapply Permutation_in; eauto.
  - destruct (alookup k l') as [v'|] eqn:E'; [|constructor].
    exfalso. apply alookup_in in E'. apply alookup_none_notin in E. apply E.
    apply (in_map fst) in E'. simpl in E'. eapply Permutation_in; [apply Permutation_map; apply Permutation_sym; eauto|auto].
Qed.

(* ---------- lookups in related maps ---------- *)

Lemma same_map_fwd : forall A B (R : A -> B -> Prop) l l' k v,
  same_map R l l' -> alookup k l = Some v -> exists v', alookup k l' = Some v' /\ R v v'.
Proof. intros A B R l l' k v [_ [_ H]] E. specialize (H k). rewrite E in H. inversion H; subst; eauto. Qed.
Lemma same_map_bwd : forall A B (R : A -> B -> Prop) l l' k v',
  same_map R l l' -> alookup k l' = Some v' -> exists v, alookup k l = Some v /\ R v v'.
Proof. intros A B R l l' k v' [_ [_ H]] E. specialize (H k). rewrite E in H. inversion H; subst; eauto. Qed.
Lemma same_map_amem : forall A B (R : A -> B -> Prop) l l' k, same_map R l l' -> amem k l = amem k l'.
Proof. intros A B R l l' k [_ [_ H]]. specialize (H k). unfold amem. inversion H; auto. Qed.

Lemma forM_same_map : forall A B (R : A -> B -> Prop) l l' (F : string * A -> outcome unit) (G : string * B -> outcome unit),
  same_map R l l' ->
  (forall k v v', R v v' -> (F (k, v) = Ok tt <-> G (k, v') = Ok tt)) ->
  (forM_ F l = Ok tt <-> forM_ G l' = Ok tt).
Proof.
  intros A B R l l' F G Hs HFG. pose proof Hs as [Hn [Hn' _]].
  rewrite !forM_ok_iff, !Forall_forall. split; intros H [k v] Hin.
  - apply (alookup_nodup _ _ _ _ Hn') in Hin.
    destruct (same_map_bwd _ _ _ _ _ _ _ Hs Hin) as [v0 [E0 Hr]].
    apply (HFG k v0 v Hr). apply H. apply alookup_in; auto.
  - apply (alookup_nodup _ _ _ _ Hn) in Hin.
    destruct (same_map_fwd _ _ _ _ _ _ _ Hs Hin) as [v0 [E0 Hr]].
    apply (HFG k v v0 Hr). apply H. apply alookup_in; auto.
Qed.

Lemma zlookup_in : forall A k (l : list (Z * A)) v, zlookup k l = Some v -> In (k, v) l.
Proof.
  intros A k l; induction l as [|[k' v'] t IH]; simpl; intros v H; [discriminate|].
  destruct (Z.eqb k k') eqn:E.
  - apply Z.eqb_eq in E; subst; inversion H; auto.
  - right; auto.
Qed.

Lemma forM_same_zmap : forall A l l' (F G : Z * A -> outcome unit),
  same_zmap l l' -> (forall kv, F kv = Ok tt <-> G kv = Ok tt) ->
  (forM_ F l = Ok tt <-> forM_ G l' = Ok tt).
Proof.
  intros A l l' F G [Hn [Hn' Hl]] HFG.
  rewrite !forM_ok_iff, !Forall_forall. split; intros H [k v] Hin.
  - apply HFG. apply H. apply zlookup_in. rewrite Hl. apply zlookup_nodup; auto.
  - apply HFG. apply H. apply zlookup_in. rewrite <- Hl. apply zlookup_nodup; auto.
Qed.

Lemma olookup_in : forall A k (l : list (okey * A)) v, olookup k l = Some v -> In (k, v) l.
Proof.
  intros A k l v H. unfold olookup in H.
  destruct (find _ l) as [[k' v']|] eqn:E; [|discriminate]. simpl in H; inversion H; subst.
  apply find_some in E. destruct E as [E1 E2]. simpl in E2. apply okey_eqb_eq in E2; subst; auto.
Qed.
Lemma olookup_nodup : forall A (l : list (okey * A)) k v,
  nodup_okey (map fst l) = true -> In (k, v) l -> olookup k l = Some v.
Proof. intros A l k v Hn Hin. unfold olookup. rewrite (find_okey_nodup _ _ _ _ Hn Hin). auto. Qed.

Lemma forM_same_omap : forall A B (R : A -> B -> Prop) l l' (F : okey * A -> outcome unit) (G : okey * B -> outcome unit),
  same_omap R l l' ->
  (forall k v v', R v v' -> (F (k, v) = Ok tt <-> G (k, v') = Ok tt)) ->
  (forM_ F l = Ok tt <-> forM_ G l' = Ok tt).
Proof.
  intros A B R l l' F G [Hn [Hn' Hl]] HFG.
  rewrite !forM_ok_iff, !Forall_forall. split; intros H [k v] Hin.
  - pose proof (olookup_nodup _ _ _ _ Hn' Hin) as E. specialize (Hl k). rewrite E in Hl.
    inversion Hl; subst. apply (HFG k a v H2). apply H. apply olookup_in; auto.
  - pose proof (olookup_nodup _ _ _ _ Hn Hin) as E. specialize (Hl k). rewrite E in Hl.
    inversion Hl; subst. apply (HFG k v b H2). apply H. apply olookup_in; auto.
Qed.

(* ---------- environments ---------- *)

Lemma eperm_enter : forall e e' tab tab', eperm e e' -> same_map sperm tab tab' -> eperm (env_enter e tab) (env_enter e' tab').
Proof. intros e e' tab tab' [H1 [H2 H3]] Ht. split; [|split]; simpl; auto. Qed.

Lemma resolve_perm : forall e e' id ns, eperm e e' ->
  rel_opt (fun p q => sperm (fst p) (fst q) /\ eperm (snd p) (snd q)) (resolve e id ns) (resolve e' id ns).
Proof.
  intros e e' id ns He. pose proof He as [H1 [H2 H3]]. unfold resolve.
  destruct (String.eqb ns "").
  - destruct H1 as [_ [_ H1]].
    destruct (rel_opt_cases _ _ _ _ _ (H1 id)) as [[Ex Ey]|[o [o' [Ex [Ey Hoo]]]]]; rewrite Ex, Ey;
      constructor; simpl; try split; auto.
  - destruct H2 as [_ [_ H2]].
    destruct (rel_opt_cases _ _ _ _ _ (H2 ns)) as [[Ex Ey]|[tab [tab' [Ex [Ey Htab]]]]]; rewrite Ex, Ey; [constructor|].
    pose proof Htab as [_ [_ Hab]].
    destruct (rel_opt_cases _ _ _ _ _ (Hab id)) as [[Fx Fy]|[o [o' [Fx [Fy Hoo]]]]]; rewrite Fx, Fy;
      constructor; simpl; try split; auto.
    apply eperm_enter; auto.
Qed.

Lemma rt_ok_perm : forall t t' e e', sperm t t' -> eperm e e' -> c15_rt_ok e t = c15_rt_ok e' t'.
Proof.
  induction t; intros t' e e' Hp He; inversion Hp; subst; simpl; auto.
  - match goal with H1 : sperm t1 ?a, H2 : sperm t2 ?b |- _ =>
      rewrite (IHt1 a e e' H1 He), (IHt2 b e e' H2 He); reflexivity end.
  - destruct (rel_opt_cases _ _ _ _ _ (resolve_perm _ _ id ns He)) as [[Ex Ey]|[p [q [Ex [Ey _]]]]]; rewrite Ex, Ey; auto.
  - match goal with Hx : same_map sperm ?a ?b |- _ =>
      destruct Hx as [_ [_ Hx]];
      destruct (rel_opt_cases _ _ _ _ _ (Hx root)) as [[Ex Ey]|[p [q [Ex [Ey _]]]]]; rewrite Ex, Ey; auto end.
Qed.

Lemma any_perm : forall t t' e e', sperm t t' -> eperm e e' ->
  (c15_any e t = Ok tt <-> c15_any e' t' = Ok tt).
Proof.
  intros t t' e e' Hp He. unfold c15_any. rewrite (rt_ok_perm _ _ _ _ Hp He).
  destruct (c15_rt_ok e' t'); [|split; discriminate].
  inversion Hp; subst; try reflexivity.
Qed.

Inductive conv_rel : c15_conv -> c15_conv -> Prop :=
| cr_panic : conv_rel CvPanic CvPanic
| cr_not : conv_rel CvNot CvNot
| cr_obj : forall o o' e e', sperm o o' -> eperm e e' -> conv_rel (CvObj o e) (CvObj o' e').

Lemma to_object_perm : forall t t' e e', sperm t t' -> eperm e e' ->
  conv_rel (c15_to_object e t) (c15_to_object e' t').
Proof.
  intros t t' e e' Hp He. inversion Hp; subst; unfold c15_to_object; try (constructor; auto; fail).
  - destruct (rel_opt_cases _ _ _ _ _ (resolve_perm _ _ id ns He)) as [[Ex Ey]|[[o1 ea] [[o2 eb] [Ex [Ey [Hx Hy]]]]]];
      rewrite Ex, Ey; constructor; auto.
  - match goal with Hx : same_map sperm ?a ?b |- _ =>
      pose proof Hx as [_ [_ Hy]];
      destruct (rel_opt_cases _ _ _ _ _ (Hy root)) as [[Ex Ey]|[p [q [Ex [Ey Hpq]]]]]; rewrite Ex, Ey;
      constructor; auto using eperm_enter end.
Qed.

Lemma and_iff : forall A A' B B' : Prop, (A <-> A') -> (B <-> B') -> (A /\ B <-> A' /\ B').
Proof. tauto. Qed.

Section WithTables.
Variable words : list (string * bool).
Variable pu : units -> string -> option fl.
Notation cs := (compat_schema words pu).
Notation un := (unser words pu).

(* a nil interface handed over as data (the other side's reference was never linked) is never accepted *)
Lemma unser_nil_not_ok : forall fuel e s a, un fuel e s VNil <> Ok a.
Proof.
  induction fuel as [|f IH]; intros e s a; [simpl; discriminate|].
  destruct s; simpl; try discriminate.
  - destruct f; simpl; discriminate.
  - destruct props as [|[name p] [|]]; try discriminate.
    destruct (p_disabled p); simpl; [discriminate|].
    destruct (un f e (p_type p) VNil) eqn:E; simpl; try discriminate.
    exfalso; eapply IH; eauto.
  - destruct (resolve e id ns) as [[o e']|]; [apply IH | discriminate].
  - destruct (alookup root objs); [apply IH | discriminate].
Qed.

Lemma compat_nil_not_ok : forall fuel e s, compat words pu fuel e s VNil <> Ok tt.
Proof.
  induction fuel as [|f IH]; intros e s; [simpl; discriminate|].
  destruct s; simpl; try discriminate.
  - destruct f; simpl; discriminate.
  - destruct f; simpl; discriminate.
  - destruct f; simpl; discriminate.
  - destruct f; simpl; discriminate.
  - destruct f as [|[|f]]; simpl; discriminate.
  - destruct f; simpl; discriminate.
  - destruct f; simpl; discriminate.
  - intros C. apply bind_ok in C. destruct C as [a [C _]]. apply (proj1 (rewrap_path_ok _ _ _)) in C. eapply unser_nil_not_ok; eauto.
  - destruct f; simpl; [discriminate|]. destruct f; simpl; discriminate.
  - destruct (resolve e id ns) as [[o e']|]; [apply IH | discriminate].
  - destruct (alookup root objs); [apply IH | discriminate].
Qed.

Lemma enum_int_perm : forall v v' o o', same_zmap v v' -> same_zmap o o' ->
  (c15_enum_int v o = Ok tt <-> c15_enum_int v' o' = Ok tt).
Proof.
  intros v v' o o' [_ [_ Hv]] Ho. unfold c15_enum_int. apply forM_same_zmap; auto.
  intros kv. rewrite Hv. reflexivity.
Qed.

Lemma enum_str_perm : forall v v' o o', same_map eq v v' -> same_map eq o o' ->
  (c15_enum_str v o = Ok tt <-> c15_enum_str v' o' = Ok tt).
Proof.
  intros v v' o o' [_ [_ Hv]] Ho. unfold c15_enum_str. eapply forM_same_map; eauto.
  intros k d d' ->. simpl.
  destruct (rel_opt_cases _ _ _ _ _ (Hv k)) as [[Ex Ey]|[a [b [Ex [Ey Hab]]]]]; rewrite Ex, Ey; [|subst b]; reflexivity.
Qed.

Theorem compat_order_independent : forall fuel e1 s e2 t e1' s' e2' t',
  eperm e1 e1' -> sperm s s' -> eperm e2 e2' -> sperm t t' ->
  (cs fuel e1 s e2 t = Ok tt <-> cs fuel e1' s' e2' t' = Ok tt).
Proof.
  induction fuel as [|f IH]; intros e1 s e2 t e1' s' e2' t' He1 Hs He2 Ht; [simpl; split; discriminate|].
  destruct Hs as [sa sb sc|sa sb sc|sa sb sc| | | |sv sv' su Hsv|sn sv sv' Hsv|si si' sa sb Hsi
                 |sk sk' sv sv' sa sb Hsk Hsv|sid su sps sps' Hsps|sts sts' sik sf sinl Hsts|sid sns sd
                 |sobjs sobjs' sroot Hsobjs].
  1-5: (destruct Ht; simpl; try reflexivity; split; discriminate).
  - simpl. apply any_perm; auto.
  - destruct Ht; simpl; try (split; discriminate). apply enum_int_perm; auto.
  - destruct Ht; simpl; try (split; discriminate). apply enum_str_perm; auto.
  - (* list *)
    destruct Ht as [ta tb tc|ta tb tc|ta tb tc| | | |tv tv' tu Htv|tn tv tv' Htv|ti ti' ta tb Hti
                 |tk tk' tv tv' ta tb Htk Htv|tid tu tps tps' Htps|tts tts' tik tf tinl Htts|tid tns td
                 |tobjs tobjs' troot Htobjs]; simpl; try (split; discriminate).
    destruct (c15_excl_Z sa sb ta tb); [split; discriminate|]. apply IH; auto.
  - (* map *)
    destruct Ht as [ta tb tc|ta tb tc|ta tb tc| | | |tv tv' tu Htv|tn tv tv' Htv|ti ti' ta tb Hti
                 |tk tk' tv tv' ta tb Htk Htv|tid tu tps tps' Htps|tts tts' tik tf tinl Htts|tid tns td
                 |tobjs tobjs' troot Htobjs]; simpl; try (split; discriminate).
    rewrite !bind_unit_ok, !rewrap_ok.
    pose proof (IH e1 sk e2 tk e1' sk' e2' tk' He1 Hsk He2 Htk) as Hk.
    pose proof (IH e1 sv e2 tv e1' sv' e2' tv' He1 Hsv He2 Htv) as Hv.
    rewrite Hk, Hv. reflexivity.
  - (* object *)
    simpl. pose proof (to_object_perm _ _ _ _ Ht He2) as Hc.
    revert Hc. destruct (c15_to_object e2 t) as [o eo| |], (c15_to_object e2' t') as [o' eo'| |];
      intros Hc; inversion Hc as [| |? ? ? ? Ho Heo]; subst.
    + destruct Ho as [ta tb tc|ta tb tc|ta tb tc| | | |tv tv' tu Htv|tn tv tv' Htv|ti ti' ta tb Hti
                 |tk tk' tv tv' ta tb Htk Htv|tid tu tps tps' Htps|tts tts' tik tf tinl Htts|tid tns td
                 |tobjs tobjs' troot Htobjs]; simpl; try (split; discriminate).
      destruct (negb tu && negb su && negb (String.eqb tid sid)); [split; discriminate|].
      rewrite !bind_unit_ok. apply and_iff.
      * eapply forM_same_map; [exact Htps|]. intros k q q' [Hq _]. simpl.
        pose proof Hsps as [_ [_ Hl]].
        destruct (rel_opt_cases _ _ _ _ _ (Hl k)) as [[Ex Ey]|[p [p' [Ex [Ey [Hp _]]]]]]; rewrite Ex, Ey;
          [split; discriminate|].
        rewrite !seg_ok. apply IH; auto.
      * eapply forM_same_map; [exact Hsps|]. intros k q q' [_ Hq]. simpl.
        rewrite (same_map_amem _ _ _ _ _ k Htps). rewrite Hq. simpl. reflexivity.
    + split; intros C; apply bind_ok in C; destruct C as [a [C _]]; apply rewrap_ok in C;
        exfalso; eapply unser_ptr_not_ok; eauto.
    + split; discriminate.
  - (* one-of *)
    destruct Ht as [ta tb tc|ta tb tc|ta tb tc| | | |tv tv' tu Htv|tn tv tv' Htv|ti ti' ta tb Hti
                 |tk tk' tv tv' ta tb Htk Htv|tid tu tps tps' Htps|tts tts' tik tf tinl Htts|tid tns td
                 |tobjs tobjs' troot Htobjs]; simpl; try (split; discriminate).
    destruct (negb (Bool.eqb sik tik)); [split; discriminate|].
    destruct (negb (String.eqb tf sf)); [split; discriminate|].
    eapply forM_same_omap; [exact Hsts|]. intros k m m' Hm. simpl.
    pose proof Htts as [_ [_ Hl]]. specialize (Hl k). unfold olookup in Hl. revert Hl.
    destruct (find (fun ks => okey_eqb (fst ks) k) tts) as [[k1 om]|];
      destruct (find (fun ks => okey_eqb (fst ks) k) tts') as [[k2 om']|]; simpl; intros Hl; inversion Hl; subst;
      [|split; discriminate].
    rewrite !rewrap_ok. apply IH; auto.
  - (* ref *)
    simpl.
    destruct (rel_opt_cases _ _ _ _ _ (resolve_perm _ _ sid sns He1)) as [[Ex Ey]|[[o ea] [[o' ea'] [Ex [Ey [Ho Hea]]]]]];
      rewrite Ex, Ey; [split; discriminate|].
    simpl in Ho, Hea. pose proof Ht as Ht0.
    destruct Ht as [ta tb tc|ta tb tc|ta tb tc| | | |tv tv' tu Htv|tn tv tv' Htv|ti ti' ta tb Hti
                 |tk tk' tv tv' ta tb Htk Htv|tid tu tps tps' Htps|tts tts' tik tf tinl Htts|tid tns td
                 |tobjs tobjs' troot Htobjs]; simpl; try (apply IH; auto; fail).
    destruct (rel_opt_cases _ _ _ _ _ (resolve_perm _ _ tid tns He2)) as [[Fx Fy]|[[o2 eb] [[o2' eb'] [Fx [Fy [Ho2 Heb]]]]]];
      rewrite Fx, Fy.
    + split; intros C; exfalso; eapply compat_nil_not_ok; eauto.
    + apply IH; auto.
  - (* scope *)
    simpl. pose proof Hsobjs as [_ [_ Hl]].
    destruct (rel_opt_cases _ _ _ _ _ (Hl sroot)) as [[Ex Ey]|[o [o' [Ex [Ey Ho]]]]]; rewrite Ex, Ey;
      [split; discriminate|].
    pose proof Ht as Ht0.
    destruct Ht as [ta tb tc|ta tb tc|ta tb tc| | | |tv tv' tu Htv|tn tv tv' Htv|ti ti' ta tb Hti
                 |tk tk' tv tv' ta tb Htk Htv|tid tu tps tps' Htps|tts tts' tik tf tinl Htts|tid tns td
                 |tobjs tobjs' troot Htobjs]; simpl; try (apply IH; auto using eperm_enter; fail).
    pose proof Htobjs as [_ [_ Hl2]].
    destruct (rel_opt_cases _ _ _ _ _ (Hl2 troot)) as [[Fx Fy]|[o2 [o2' [Fx [Fy Ho2]]]]]; rewrite Fx, Fy;
      [split; discriminate|].
    apply IH; auto using eperm_enter.
Qed.

End WithTables.
