(* Proofs/XExamples.v — concrete struct descriptors for the non-vacuity Examples of the struct-mapped
   theorems (Properties/C04.v, C03.v, C01.v): the Go struct types of harness/cmd/harness/xstruct_types.go
   (XInner, XTwo, XPtrs, XNested, XEmbPtr) encoded the way Interp/RunXSchema.v decodes the `structobj` cases:
   (si STRUCT PTR ((PROPID FIELD (IDX...) (NIDX...) FTYPE)...)) with the struct table of field types. *)
From Verif Require Import Base.Prelude Base.Str Base.Float Base.GoVal Base.XReflect
  Schema.Regex Schema.Units Schema.Syntax Schema.Ops Schema.SpecObj Schema.XSyntax Schema.XOps Schema.XWf
  Proofs.XStruct Proofs.XPaths Proofs.XRound.
Open Scope string_scope.
Open Scope Z_scope.

Definition xs_structs : stab :=
  [ ("XInner", [("A", TInt I64); ("B", TStr)]);
    ("XTwo", [("A", TInt I64); ("B", TInt I64)]);
    ("XPtrs", [("I", TPtr (TInt I64)); ("F", TPtr TF64); ("S", TPtr TStr); ("B", TPtr TBool)]);
    ("XNested", [("In", TStruct "XInner"); ("P", TPtr (TStruct "XInner")); ("X", TInt I64)]);
    ("XEmbPtr", [("XInner", TPtr (TStruct "XInner")); ("C", TInt I64)]) ].

Definition xs_env (self : xobjtab) : xenv := mkXEnv self [] (mkOracles w_json (fun _ => true)) xs_structs.

Definition xs_prop (t : xschema) (req : bool) (dflt : option string) (empty : bool) : xproperty :=
  mkProp t None req [] [] [] dflt [] empty false None.
Definition xs_int : xschema := XInt None None None.
Definition xs_str : xschema := XString None None None.

(* XInner{A int64 `json:"a"`; B string `json:"b"`}, a with default 1 *)
Definition xs_inner : xschema :=
  XObject "XInner" false
    [("a", xs_prop xs_int false (Some "1") false); ("b", xs_prop xs_str false None true)]
    (Some (mkStructInfo "XInner" false
             [("a", mkFieldRef "A" [0%nat] [0%nat] (TInt I64)); ("b", mkFieldRef "B" [1%nat] [1%nat] TStr)])).

Definition xs_two : xschema :=
  XObject "XTwo" false
    [("a", xs_prop xs_int true None false); ("b", xs_prop xs_int true None false)]
    (Some (mkStructInfo "XTwo" false
             [("a", mkFieldRef "A" [0%nat] [0%nat] (TInt I64)); ("b", mkFieldRef "B" [1%nat] [1%nat] (TInt I64))])).

(* *XPtrs: optional properties on pointer fields, T = *XPtrs *)
Definition xs_ptrs : xschema :=
  XObject "XPtrs" false
    [("i", xs_prop xs_int false None false); ("s", xs_prop xs_str false None false); ("b", xs_prop XBool true None false)]
    (Some (mkStructInfo "XPtrs" true
             [("i", mkFieldRef "I" [0%nat] [0%nat] (TPtr (TInt I64)));
              ("s", mkFieldRef "S" [2%nat] [2%nat] (TPtr TStr));
              ("b", mkFieldRef "B" [3%nat] [3%nat] (TPtr TBool))])).

(* XNested{In XInner; P *XInner; X int64}: a required struct member, an optional one behind a pointer, both
   by reference; and a one-of over struct-mapped members *)
Definition xs_nested : xschema :=
  XObject "XNested" false
    [("in", xs_prop (XRef "XInner" "" None) true None false);
     ("p", xs_prop (XRef "XInner" "" None) false None false);
     ("x", xs_prop xs_int true None false)]
    (Some (mkStructInfo "XNested" false
             [("in", mkFieldRef "In" [0%nat] [0%nat] (TStruct "XInner"));
              ("p", mkFieldRef "P" [1%nat] [1%nat] (TPtr (TStruct "XInner")));
              ("x", mkFieldRef "X" [2%nat] [2%nat] (TInt I64))])).

(* XEmbPtr{*XInner; C int64}: "a" is promoted through the embedded pointer (index path [0;0]) *)
Definition xs_embptr : xschema :=
  XObject "XEmbPtr" false
    [("a", xs_prop xs_int false None false); ("c", xs_prop xs_int true None false)]
    (Some (mkStructInfo "XEmbPtr" false
             [("a", mkFieldRef "A" [0%nat; 0%nat] [0%nat; 0%nat] (TInt I64)); ("c", mkFieldRef "C" [1%nat] [1%nat] (TInt I64))])).

Definition xs_choice : xschema :=
  XObject "Choice" false
    [("o", xs_prop (XOneOf [(KS "inner", XRef "XInner" "" None); (KS "two", XRef "XTwo" "" None)] false "kind" false) true None false);
     ("l", xs_prop (XList (XRef "XEmbPtr" "" None) None None) false None false)]
    None.

Definition xs_tab : xobjtab :=
  [("XNested", xs_nested); ("XInner", xs_inner); ("XTwo", xs_two); ("XPtrs", xs_ptrs); ("XEmbPtr", xs_embptr); ("Choice", xs_choice)].
Definition xs_scope (root : string) : xschema := XScope xs_tab root.

(* a struct descriptor whose property "zz" has no field: NewStructMappedObjectSchema panics at construction *)
Definition xs_nofield : xschema :=
  XObject "XTwo" false [("a", xs_prop xs_int true None false); ("zz", xs_prop xs_int false None false)]
    (Some (mkStructInfo "XTwo" false [("a", mkFieldRef "A" [0%nat] [0%nat] (TInt I64))])).

Definition xs_inner_v (a : Z) (b : string) : gval := VStruct (TStruct "XInner") [("A", vi64 a); ("B", vstr b)].
Definition xs_m (kvs : list (string * gval)) : gval := VMap t_any_map false (map (fun kv => (vstr (fst kv), snd kv)) kvs).

(* ---------- C04 ---------- *)
Example xs_wf :
  xwf (xs_env []) (xs_scope "XNested") = true /\ xwf (xs_env []) (xs_scope "Choice") = true /\
  xwf (xs_env []) (xs_scope "XPtrs") = true /\ xwf (xs_env []) xs_nofield = false.
Proof. vm_compute. repeat split; reflexivity. Qed.

(* results and errors, none a panic: a nested struct with defaults, a wrong struct type, a nil pointer, a one-of
   selected by the reflected type of a struct value, a promoted field behind a nil embedded pointer *)
Example xs_runs :
  xunser w_words w_pu 30 (xs_env []) (xs_scope "XNested") (xs_m [("in", xs_m [("b", vstr "q")]); ("x", vi64 3)])
    = Ok (VStruct (TStruct "XNested")
            [("In", xs_inner_v 1 "q"); ("P", VPtr (TPtr (TStruct "XInner")) (Some (xs_inner_v 1 ""))); ("X", vi64 3)])
  /\ is_err (xvalidate w_words w_pu 30 (xs_env []) (xs_scope "XNested") (xs_inner_v 1 "q")) = true
  /\ is_err (xserialize w_words w_pu 30 (xs_env []) (xs_scope "XPtrs") (VPtr (TPtr (TStruct "XPtrs")) None)) = true
  /\ xserialize w_words w_pu 30 (xs_env []) (xs_scope "Choice")
       (VMap t_str_map false [(vstr "o", xs_inner_v 5 "z")])
     = Ok (VMap t_str_map false
             [(vstr "o", VMap t_str_map false [(vstr "a", vi64 5); (vstr "b", vstr "z"); (vstr "kind", vstr "inner")])])
  /\ xvalidate w_words w_pu 30 (xs_env []) (xs_scope "XEmbPtr")
       (VStruct (TStruct "XEmbPtr") [("XInner", VPtr (TPtr (TStruct "XInner")) None); ("C", vi64 2)]) = Ok tt.
Proof. vm_compute. repeat split; reflexivity. Qed.

(* D52 with the well-formedness hypothesis made explicit: a WELL-FORMED struct-mapped schema on which no fuel
   suffices (sub-object default propagation over a self-referential member) *)
Theorem x_struct_subdefault_cycle_refuted_wf :
  exists (e : xenv) (s : xschema) (v : gval),
    xwf e s = true /\ forall fuel, xunser w_words w_pu fuel e s v = OutOfFuel.
Proof.
  exists (w_env []), w_rec, w_empty_map. split; [vm_compute; reflexivity|]. intros fuel.
  destruct fuel as [|[|f]]; [reflexivity | reflexivity |].
  cbn - [xsub_defaults fl_of_Z].
  match goal with
  | |- context [xsub_defaults f ?e ?p ?q ?r'] =>
      replace (xsub_defaults f e p q r') with (@OutOfFuel raw)
        by (symmetry; apply w_sub_defaults_diverges_absent; reflexivity)
  end.
  reflexivity.
Qed.

(* ---------- C03 ---------- *)
Definition xs_nested_props : list (string * xproperty) :=
  match xs_nested with XObject _ _ ps _ => ps | _ => [] end.
Definition xs_nested_si : structinfo :=
  match xs_nested with XObject _ _ _ (Some si) => si | _ => mkStructInfo "" false [] end.

(* both paths accept a struct whose pointer member is nil (absent, optional) ... *)
Example xs_paths_accept :
  let v := VStruct (TStruct "XNested") [("In", xs_inner_v 1 "q"); ("P", VPtr (TPtr (TStruct "XInner")) None); ("X", vi64 3)] in
  xfields_ok xs_nested_props (Some xs_nested_si) = true /\
  xvalidate w_words w_pu 8 (xs_env xs_tab) xs_nested v = Ok tt /\
  is_ok (xserialize w_words w_pu 8 (xs_env xs_tab) xs_nested v) = true /\
  xpresent (xs_env xs_tab) xs_nested_si v xs_nested_props = [("in", xs_inner_v 1 "q"); ("x", vi64 3)].
Proof. vm_compute. repeat split; reflexivity. Qed.

(* ---------- C01 ---------- *)
Definition xs_ptrs_props : list (string * xproperty) := match xs_ptrs with XObject _ _ ps _ => ps | _ => [] end.
Definition xs_ptrs_si : structinfo := match xs_ptrs with XObject _ _ _ (Some si) => si | _ => mkStructInfo "" false [] end.
Definition xs_inner_props : list (string * xproperty) := match xs_inner with XObject _ _ ps _ => ps | _ => [] end.
Definition xs_inner_si : structinfo := match xs_inner with XObject _ _ _ (Some si) => si | _ => mkStructInfo "" false [] end.

(* descriptors the round-trip theorem covers: pointer fields for optional properties (XPtrs), required
   properties on value fields with a nested struct and a pointer member (XNested); and the D44 descriptor
   (optional `a` on an int64 field, no treat-empty-as-default), which it excludes *)
Example xs_rt_desc :
  xrt_desc (xs_env xs_tab) xs_inner_props xs_inner_si = true /\
  xrt_desc (xs_env xs_tab) xs_ptrs_props xs_ptrs_si = true /\
  xrt_desc (xs_env xs_tab) xs_nested_props xs_nested_si = true /\
  xrt_desc (w_env [])
    [("a", w_prop (XInt None None None) false ["b"] None); ("b", w_prop (XInt None None None) false [] None)]
    (mkStructInfo "XTwo" false
       [("a", mkFieldRef "A" [0%nat] [0%nat] (TInt I64)); ("b", mkFieldRef "B" [1%nat] [1%nat] (TInt I64))]) = false.
Proof. vm_compute. repeat split; reflexivity. Qed.
