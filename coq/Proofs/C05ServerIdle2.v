(* Proofs/C05ServerIdle2.v — `server_idle` (Proofs/C05ServerIdle.v) for sessions WITH Close: the run() goroutine may
   also be in its deferred part (RDefer: client-done consumed, waiting for the step / signal goroutines) or gone
   (RGone: workDone closed).  A server in which no goroutine can take a step and none waits for the release of a slow
   handler has its report channel empty, every step / signal goroutine finished, the closure handler forwarding
   nothing, and its read loop either waiting on an EMPTY input or gone for good (RDefer itself is impossible: with
   every goroutine finished the wait group is 0 and the deferred close is enabled). *)
From Coq Require Import Lia.
From Verif Require Import Base.Prelude Base.Str ATP.Msg ATP.Server Proofs.ServerInv Proofs.Server Proofs.ServerRoute.
Local Open Scope string_scope.
Local Open Scope list_scope.
Local Open Scope nat_scope.

Lemma livew_gone : forall ws, Forall (fun w => w_pc w = WGone) ws -> sumf livew ws = 0.
Proof.
  induction ws as [|w ws IH]; intros F; [reflexivity|]. inversion F as [|? ? Hw Hws]; subst.
  rewrite sumf_cons, IH by assumption. unfold livew. rewrite Hw. reflexivity.
Qed.

Lemma server_idle2 c s : Inv s ->
  ((rl s = RLoop /\ stdin_closed s = false) \/ (exists e, rl s = RReport e KLoop) \/ rl s = RDefer \/ rl s = RGone) ->
  hp s <> HClose ->
  step c s LRead = None -> step c s (LHandler true) = None -> (forall i, step c s (LWorker i) = None) ->
  (forall i w st tok, nth_error (workers s) i = Some w -> w_pc w = WCall -> w_kind w = KStep st tok ->
     handler_reached c st tok && c_slow c tok && negb (zmem tok (released s)) = false) ->
  ((inq s = [] /\ rl s = RLoop) \/ rl s = RGone) /\ wd s = [] /\ Forall (fun w => w_pc w = WGone) (workers s) /\
  (hp s = HSelect \/ hp s = HWait \/ hp s = HReturned).
Proof.
  intros I Hrl Hh QR QH QW NR. des s. destruct I as [I1 I2 I3 I4 I5 I6]. flat. subst.
  unfold step in *. flat.
  unfold step_handler in QH. flat.
  assert (wd0 = [] /\ (hp0 = HSelect \/ hp0 = HWait \/ hp0 = HReturned)) as [-> HH].
  { destruct hp0.
    - destruct wd0; [auto|discriminate QH].
    - exfalso. cbv zeta in QH. match type of QH with (if ?b then _ else _) = None => destruct b; discriminate QH end.
    - congruence.
    - destruct I6 as [_ I6]; [reflexivity|]. auto.
    - destruct I6 as [_ I6]; [reflexivity|]. auto. }
  assert (Forall (fun w => w_pc w = WGone) workers0) as HW.
  { apply Forall_forall. intros w Hin. apply In_nth_error in Hin. destruct Hin as [i Hn].
    specialize (QW i). unfold step_worker, set_wpc in QW. flat. rewrite Hn in QW. specialize (NR i w).
    destruct w as [wk wr wp]. flat. destruct wp; try reflexivity; exfalso.
    - destruct wk as [st tok|st sg ok].
      + rewrite (NR st tok Hn eq_refl eq_refl) in QW. destruct (step_outcome c st tok); discriminate QW.
      + destruct (c_step_known c st && c_sig_known c sg && ok); discriminate QW.
    - destruct out_closed0; discriminate QW.
    - destruct wd_closed0; [discriminate QW|]. cbn in QW. discriminate QW.
    - discriminate QW. }
  pose proof (livew_gone _ HW) as Hz.
  unfold step_read, raise in QR. flat.
  destruct Hrl as [[-> Hs]|[[e ->]|[->| ->]]].
  - rewrite Hs in QR. destruct inq0 as [|ev q]; [repeat split; auto|]. exfalso. destruct ev; discriminate QR.
  - exfalso. destruct wd_closed0; [discriminate QR|]. cbn in QR. discriminate QR.
  - exfalso. rewrite Hz in QR. discriminate QR.
  - repeat split; auto.
Qed.

(* once the read loop has consumed client-done, the server's stdin is closed (and stays closed) *)
Definition ev_cd (ev : event Z) : bool := match ev with EvMsg ClientDone => true | _ => false end.
Definition hist_cd (s : state) : bool := existsb ev_cd (hist s).

Lemma cd_step c s l s' : (hist_cd s = true -> stdin_closed s = true) -> step c s l = Some s' ->
  (hist_cd s' = true -> stdin_closed s' = true).
Proof.
  unfold hist_cd. intros I H. des s. flat.
  destruct l as [ev|t| | | |rv|i]; unf_step; flat; destruct crashed0; try discriminate H.
  - inversion H; subst; flat; exact I.
  - inversion H; subst; flat; exact I.
  - inversion H; subst; flat; exact I.
  - inversion H; subst; flat; exact I.
  - brk; flat; rewrite ?existsb_app; cbn [existsb ev_cd]; rewrite ?orb_false_r; auto;
      intros X; try (apply orb_true_iff in X; destruct X as [X|X]; [auto|discriminate X]); auto.
  - brk; flat; auto.
  - worker_cases H. brk; flat; auto.
Qed.

Lemma cd_closes c s : reachable c s -> hist_cd s = true -> stdin_closed s = true.
Proof.
  revert s. apply (reachable_invariant c (fun s => hist_cd s = true -> stdin_closed s = true)).
  - intros X. cbv in X. discriminate X.
  - intros s l s' I H. eapply cd_step; eauto.
Qed.
