(* Proofs/C12Value.v — order independence on the VALUE side, for Unserialize: the accept / reject decision
   does not depend on the order of the entries of any map of the ARGUMENT (Go's map iteration order), as long
   as no two keys of one map read the same (no_key_collision; D19 is the class where that fails). *)
From Coq Require Import Permutation Lia Bool.
From Verif Require Import Base.Prelude Base.Str Base.Float Base.GoVal
  Schema.Regex Schema.Units Schema.Syntax Schema.Ops Schema.Wf Schema.Perm
  Proofs.OpsEq Proofs.C04Inv Proofs.C04NoPanic Proofs.C04Term Proofs.C12Order Proofs.C12Lookup Proofs.C12History
  Proofs.C12Schema.
Open Scope string_scope.

Notation hkc := has_key_collision.

(* small helpers (copies of the ones in Proofs/C12Schema2.v, so that the two files build in parallel) *)
Ltac scrut_same :=
  repeat match goal with
         | |- is_ok (match ?d with _ => _ end) = is_ok (match ?d with _ => _ end) => destruct d; try reflexivity
         | |- is_ok (if ?d then _ else _) = is_ok (if ?d then _ else _) => destruct d; try reflexivity
         end.

Lemma ok_seq_v {A B} (o1 : outcome A) (o2 : outcome B) : is_ok (_ <- o1 ;; o2) = is_ok o1 && is_ok o2.
Proof. destruct o1; reflexivity. Qed.

Lemma is_ok_mapM_v {A B} (g : A -> outcome B) l : is_ok (mapM g l) = forallb (fun x => is_ok (g x)) l.
Proof.
  induction l as [|x t IH]; cbn; [reflexivity|].
  destruct (g x); cbn; [|reflexivity|reflexivity|reflexivity].
  rewrite <- IH. destruct (mapM g t); reflexivity.
Qed.

(* ---------- lists ---------- *)
Lemma f2_length {A B} (R : A -> B -> Prop) l l' : Forall2 R l l' -> List.length l' = List.length l.
Proof. induction 1; simpl; congruence. Qed.

Lemma f2_in_l {A B} (Q : A -> B -> Prop) (P : A -> Prop) l l1 :
  Forall2 Q l l1 -> (forall a, In a l -> P a) -> Forall2 (fun a b => Q a b /\ P a) l l1.
Proof.
  induction 1 as [|a b l l1 Hq _ IH]; intros H; constructor.
  - split; [exact Hq | apply H; now left].
  - apply IH. intros; apply H; now right.
Qed.

Lemma f2_filter {A} (Q : A -> A -> Prop) (p : A -> bool) l l1 :
  Forall2 Q l l1 -> (forall a b, Q a b -> p a = p b) -> Forall2 Q (filter p l) (filter p l1).
Proof.
  induction 1 as [|a b l l1 Hq _ IH]; intros H; cbn [filter]; [constructor|].
  rewrite <- (H a b Hq). destruct (p a); [constructor; [exact Hq | now apply IH] | now apply IH].
Qed.

Lemma perm_filter {A} (p : A -> bool) l l' : Permutation l l' -> Permutation (filter p l) (filter p l').
Proof.
  intros HP. induction HP as [|x m m' HP0 IH0|x y m|m m' m'' H1 IH1 H2 IH2]; cbn [filter].
  - constructor.
  - destruct (p x); [now constructor | exact IH0].
  - destruct (p x), (p y); try apply Permutation_refl. apply perm_swap.
  - eapply perm_trans; eauto.
Qed.

Lemma perm_flat_map {A B} (g : A -> list B) l l' : Permutation l l' -> Permutation (flat_map g l) (flat_map g l').
Proof.
  intros HP. induction HP as [|x m m' HP0 IH0|x y m|m m' m'' H1 IH1 H2 IH2]; cbn [flat_map].
  - constructor.
  - now apply Permutation_app_head.
  - rewrite !app_assoc. apply Permutation_app_tail. apply Permutation_app_comm.
  - eapply perm_trans; eauto.
Qed.

Lemma existsb_false_in {A} (p : A -> bool) l x : existsb p l = false -> In x l -> p x = false.
Proof.
  intros H Hin. destruct (p x) eqn:E; [|reflexivity].
  assert (existsb p l = true) by (apply existsb_exists; eauto). congruence.
Qed.

Lemma existsb_filter_false {A} (q p : A -> bool) l : existsb q l = false -> existsb q (filter p l) = false.
Proof.
  induction l as [|x t IH]; cbn [existsb filter]; [reflexivity|]. intros H. apply orb_false_elim in H as [H1 H2].
  destruct (p x); cbn [existsb]; [rewrite H1; cbn; now apply IH | now apply IH].
Qed.

Lemma ok_bind_false {A B} (o : outcome A) (k : A -> outcome B) : is_ok o = false -> is_ok (bind o k) = false.
Proof. destruct o; cbn; congruence. Qed.

Lemma ok_mapMi_f2 {A B B'} (Q : A -> A -> Prop) (g : Z -> A -> outcome B) (g' : Z -> A -> outcome B') l l' :
  Forall2 Q l l' -> (forall j x x', In x l -> Q x x' -> is_ok (g j x) = is_ok (g' j x')) ->
  forall i, is_ok (mapMi g i l) = is_ok (mapMi g' i l').
Proof.
  induction 1 as [|x x' l l' Hq _ IH]; intros H i; cbn [mapMi]; [reflexivity|].
  apply ok_bind2; [apply H; [now left | exact Hq]|]. intros y y' _ _.
  apply ok_bind2; [apply IH; intros; apply H; [now right | assumption]|]. reflexivity.
Qed.

(* ---------- what the collision-free hypothesis gives ---------- *)
Lemma nc_slice t b l x : hkc (VSlice t b l) = false -> In x l -> hkc x = false.
Proof. intros H Hin. exact (existsb_false_in has_key_collision l x H Hin). Qed.

Lemma nc_map t b kvs : hkc (VMap t b kvs) = false ->
  dup_txt (map (fun kv => key_txt (fst kv)) kvs) = false /\
  forall kv, In kv kvs -> hkc (fst kv) = false /\ hkc (snd kv) = false.
Proof.
  intros H.
  change (dup_txt (map (fun kv => key_txt (fst kv)) kvs)
          || existsb (fun kv => hkc (fst kv) || hkc (snd kv)) kvs = false) in H.
  apply orb_false_elim in H as [H1 H2]. split; [exact H1|]. intros kv Hin.
  pose proof (existsb_false_in _ _ _ H2 Hin) as H3. cbn beta in H3. now apply orb_false_elim in H3.
Qed.

Lemma dup_txt_filter (p : gval * gval -> bool) kvs :
  dup_txt (map (fun kv => key_txt (fst kv)) kvs) = false ->
  dup_txt (map (fun kv => key_txt (fst kv)) (filter p kvs)) = false.
Proof.
  induction kvs as [|kv t IH]; cbn [map filter]; [reflexivity|]. intros H.
  assert (Ht : dup_txt (map (fun kv0 => key_txt (fst kv0)) t) = false).
  { cbn [dup_txt] in H. destruct (key_txt (fst kv)); [apply orb_false_elim in H; tauto | exact H]. }
  destruct (p kv); [|now apply IH]. cbn [map dup_txt].
  destruct (key_txt (fst kv)) as [s|] eqn:Ek; [|now apply IH].
  cbn [dup_txt] in H. apply orb_false_elim in H as [H1 _].
  rewrite (IH Ht), orb_false_r.
  clear -H1. induction t as [|x t IH]; cbn [map filter existsb] in *; [reflexivity|].
  apply orb_false_elim in H1 as [Ha Hb]. destruct (p x); cbn [map existsb]; [rewrite Ha; cbn; now apply IH | now apply IH].
Qed.

Lemma nc_filter t b t2 b2 (p : gval * gval -> bool) kvs :
  hkc (VMap t b kvs) = false -> hkc (VMap t2 b2 (filter p kvs)) = false.
Proof.
  intros H.
  change (dup_txt (map (fun kv => key_txt (fst kv)) kvs)
          || existsb (fun kv => hkc (fst kv) || hkc (snd kv)) kvs = false) in H.
  apply orb_false_elim in H as [H1 H2].
  change (dup_txt (map (fun kv => key_txt (fst kv)) (filter p kvs))
          || existsb (fun kv => hkc (fst kv) || hkc (snd kv)) (filter p kvs) = false).
  now rewrite (dup_txt_filter p kvs H1), (existsb_filter_false _ p kvs H2).
Qed.

(* perm_val relates a leaf only to itself *)
Lemma pv_leaf {B} (g : gval -> B) :
  (forall t b l l', g (VSlice t b l) = g (VSlice t b l')) ->
  (forall t b l l', g (VMap t b l) = g (VMap t b l')) ->
  (forall t x x', g (VPtr t (Some x)) = g (VPtr t (Some x'))) ->
  (forall t l l', g (VStruct t l) = g (VStruct t l')) ->
  forall x y, perm_val x y -> g x = g y.
Proof. intros H1 H2 H3 H4 x y H. destruct H; auto. Qed.

(* ---------- a map argument seen as an association list on its string keys ---------- *)
Definition sel_tstr (k : gval) : option string := match k with VStr TStr s => Some s | _ => None end.
Definition sel_str (k : gval) : option string := match k with VStr _ s => Some s | _ => None end.
Definition raw_by (sel : gval -> option string) (kvs : list (gval * gval)) : raw :=
  flat_map (fun kv => match sel (fst kv) with Some s => [(s, snd kv)] | None => [] end) kvs.

Lemma sel_tstr_leaf x y : perm_val x y -> sel_tstr x = sel_tstr y.
Proof. apply pv_leaf; reflexivity. Qed.
Lemma sel_str_leaf x y : perm_val x y -> sel_str x = sel_str y.
Proof. apply pv_leaf; reflexivity. Qed.
Lemma sel_tstr_sound k s : sel_tstr k = Some s -> key_txt k = Some s.
Proof. destruct k; try discriminate. destruct t; try discriminate. cbn. congruence. Qed.
Lemma sel_str_sound k s : sel_str k = Some s -> key_txt k = Some s.
Proof. destruct k; try discriminate. cbn. congruence. Qed.

Lemma pv_mappers x y : perm_val x y ->
  int_mapper None x = int_mapper None y /\ string_mapper x = string_mapper y.
Proof. intros H. split; revert x y H; apply pv_leaf; reflexivity. Qed.

Section RawBy.
Variable sel : gval -> option string.
Hypothesis sel_sound : forall k s, sel k = Some s -> key_txt k = Some s.
Hypothesis sel_leaf : forall x y, perm_val x y -> sel x = sel y.

Lemma raw_by_cons kv t :
  raw_by sel (kv :: t) = (match sel (fst kv) with Some s => [(s, snd kv)] | None => [] end ++ raw_by sel t)%list.
Proof. reflexivity. Qed.

Lemma txt_not_in s t :
  existsb (fun y => match y with Some y' => String.eqb s y' | None => false end) (map (fun kv => key_txt (fst kv)) t) = false ->
  str_in s (map fst (raw_by sel t)) = false.
Proof.
  induction t as [|kv t IH]; [reflexivity|]. cbn [map existsb]. intros H. apply orb_false_elim in H as [H1 H2].
  rewrite raw_by_cons. destruct (sel (fst kv)) as [s1|] eqn:Es; cbn [app map fst str_in].
  - rewrite (sel_sound _ _ Es) in H1. rewrite H1. cbn. now apply IH.
  - now apply IH.
Qed.

Lemma raw_by_nodup kvs :
  dup_txt (map (fun kv => key_txt (fst kv)) kvs) = false -> nodup_str (map fst (raw_by sel kvs)) = true.
Proof.
  induction kvs as [|kv t IH]; [reflexivity|]. cbn [map]. intros H.
  rewrite raw_by_cons. destruct (sel (fst kv)) as [s1|] eqn:Es; cbn [app map fst].
  - rewrite (sel_sound _ _ Es) in H. cbn [dup_txt] in H. apply orb_false_elim in H as [H1 H2].
    cbn [nodup_str]. rewrite (txt_not_in s1 t H1), (IH H2). reflexivity.
  - apply IH. cbn [dup_txt] in H. destruct (key_txt (fst kv)); [apply orb_false_elim in H; tauto | exact H].
Qed.

Lemma raw_by_f2 (Q : gval -> gval -> Prop) kvs kvs1 :
  Forall2 (fun a b => perm_val (fst a) (fst b) /\ Q (snd a) (snd b)) kvs kvs1 ->
  Forall2 (fun a b => fst a = fst b /\ Q (snd a) (snd b)) (raw_by sel kvs) (raw_by sel kvs1).
Proof.
  induction 1 as [|a b l l1 [Hk Hv] _ IH]; [constructor|].
  rewrite !raw_by_cons, <- (sel_leaf _ _ Hk).
  destruct (sel (fst a)); cbn [app]; [constructor; [split; [reflexivity | exact Hv] | exact IH] | exact IH].
Qed.

Lemma raw_by_lookup (Q : gval -> gval -> Prop) kvs kvs1 kvs' k :
  dup_txt (map (fun kv => key_txt (fst kv)) kvs) = false ->
  Forall2 (fun a b => perm_val (fst a) (fst b) /\ Q (snd a) (snd b)) kvs kvs1 -> Permutation kvs1 kvs' ->
  match alookup k (raw_by sel kvs), alookup k (raw_by sel kvs') with
  | Some x, Some y => Q x y
  | None, None => True
  | _, _ => False
  end.
Proof.
  intros Hd HF HP.
  apply (rel_alookup Q k (raw_by sel kvs) (raw_by sel kvs1) (raw_by sel kvs')).
  - now apply raw_by_nodup.
  - now apply raw_by_f2.
  - now apply perm_flat_map.
Qed.
End RawBy.

Lemma smap_get_raw k l : smap_get k l = alookup k (raw_by sel_str l).
Proof.
  induction l as [|[k0 v0] t IH]; [reflexivity|].
  rewrite raw_by_cons. destruct k0; cbn [smap_get fst snd sel_str app alookup]; try exact IH.
  destruct (String.eqb k s); [reflexivity | exact IH].
Qed.

Definition keep_key (k : string) (kv : gval * gval) : bool :=
  match sel_str (fst kv) with Some k' => negb (String.eqb k k') | None => true end.

Lemma smap_del_filter k l : smap_del k l = filter (keep_key k) l.
Proof.
  induction l as [|[k0 v0] t IH]; [reflexivity|].
  destruct k0; cbn [smap_del filter keep_key sel_str fst]; rewrite ?IH; try reflexivity.
  destruct (String.eqb k s); reflexivity.
Qed.

(* ---------- the first loop of the object decoder: string keys, all declared ---------- *)
Definition obj_key_ok (ps : list (string * property)) (kv : gval * gval) : bool :=
  match sel_tstr (fst kv) with Some k => amem k ps | None => false end.

Lemma r0_char (ps : list (string * property)) (st : outcome raw -> gval * gval -> outcome raw) :
  (forall a kv, st (Ok a) kv = match sel_tstr (fst kv) with
                               | Some k => if amem k ps then Ok (a ++ [(k, snd kv)])%list else Err (cerr EKey)
                               | None => Err (cerr EKey)
                               end) ->
  (forall acc kv, is_ok acc = false -> is_ok (st acc kv) = false) ->
  forall kvs a0,
    if forallb (obj_key_ok ps) kvs then fold_left st kvs (Ok a0) = Ok (a0 ++ raw_by sel_tstr kvs)%list
    else is_ok (fold_left st kvs (Ok a0)) = false.
Proof.
  intros Hst Hbad. induction kvs as [|kv t IH]; intros a0; cbn [forallb fold_left].
  - cbn. now rewrite app_nil_r.
  - rewrite Hst, raw_by_cons. unfold obj_key_ok at 1.
    destruct (sel_tstr (fst kv)) as [k|]; [destruct (amem k ps)|]; cbn [andb]; cbv beta iota.
    + specialize (IH (a0 ++ [(k, snd kv)])%list). destruct (forallb (obj_key_ok ps) t); [|exact IH].
      etransitivity; [exact IH|]. now rewrite <- app_assoc.
    + apply fold_not_ok; [exact Hbad | reflexivity].
    + apply fold_not_ok; [exact Hbad | reflexivity].
Qed.

(* the relation between the two values found under one key *)
Definition Qv (x y : gval) : Prop := perm_val x y /\ hkc x = false.

Lemma f2_qv (kvs kvs1 : list (gval * gval)) :
  Forall2 (fun a b => perm_val (fst a) (fst b) /\ perm_val (snd a) (snd b)) kvs kvs1 ->
  (forall a, In a kvs -> hkc (snd a) = false) ->
  Forall2 (fun a b => perm_val (fst a) (fst b) /\ Qv (snd a) (snd b)) kvs kvs1.
Proof.
  induction 1 as [|a b l l1 [Hk Hv] _ IH]; intros H; constructor.
  - split; [exact Hk | split; [exact Hv | apply H; now left]].
  - apply IH. intros; apply H; now right.
Qed.

Section Value.
Variable words : list (string * bool).
Variable pu : units -> string -> option fl.
Notation unser := (unser words pu).
Notation WF := (Inv wf_local).

Lemma any_conv_value : forall f v v', perm_val v v' -> is_ok (any_conv f v) = is_ok (any_conv f v').
Proof.
  induction f as [|f IH]; intros v v' Hv; [reflexivity|].
  destruct Hv as [v | t b l l' HF | t b kvs kvs1 kvs' HF HP | t x x' Hx | t fs fs' HF]; [reflexivity|..];
    cbn [any_conv kind_of]; scrut_same.
  - rewrite !ok_then_ok by reflexivity. apply (ok_mapMi_f2 perm_val _ _ _ _ HF).
    intros j x x' _ Hx. unfold seg. rewrite !ok_map_err. now apply IH.
  - rewrite !ok_then_ok by reflexivity.
    rewrite (ok_fold _ (fun kv => is_ok (any_conv f (fst kv)) && is_ok (any_conv f (snd kv)))).
    2: { intros a x. cbn [bind]. unfold seg. destruct (any_conv f (fst x)); [destruct (any_conv f (snd x))|..]; reflexivity. }
    2: { intros acc x Ha. destruct acc; cbn in *; congruence. }
    rewrite (ok_fold _ (fun kv => is_ok (any_conv f (fst kv)) && is_ok (any_conv f (snd kv)))).
    2: { intros a x. cbn [bind]. unfold seg. destruct (any_conv f (fst x)); [destruct (any_conv f (snd x))|..]; reflexivity. }
    2: { intros acc x Ha. destruct acc; cbn in *; congruence. }
    rewrite <- (forallb_perm _ kvs1 kvs' HP). apply (forallb_f2 _ _ _ _ _ HF).
    intros a b0 _ [Hk Hvv]. now rewrite (IH _ _ Hk), (IH _ _ Hvv).
Qed.

Lemma unser_value : forall f e s v v', perm_val v v' -> hkc v = false -> WF e s ->
  is_ok (unser f e s v) = is_ok (unser f e s v').
Proof.
  induction f as [|f IH]; intros e s v v' Hv Hnc Hwf; [reflexivity|].
  rewrite !(unser_S words pu).
  destruct s as [mn mx u|mn mx u|mn mx pat| | | |vals u|named vals|it mn mx|ks vs mn mx|id un ps|ts ik fld inl|id ns d|os root];
    cbv beta iota zeta.
  - destruct Hv; reflexivity.
  - destruct Hv; reflexivity.
  - destruct Hv; reflexivity.
  - destruct Hv; reflexivity.
  - destruct Hv; reflexivity.
  - now apply any_conv_value.
  - destruct Hv; reflexivity.
  - destruct Hv; reflexivity.
  - (* list *)
    destruct Hv as [v | t b l l' HF | t b kvs kvs1 kvs' HF HP | t x x' Hx | t fs fs' HF]; try reflexivity.
    unfold zlen. rewrite (f2_length _ _ _ HF).
    match goal with |- context [size_ok mn mx ?z] => destruct (size_ok mn mx z) end; [|reflexivity].
    rewrite !ok_then_ok by reflexivity. apply (ok_mapMi_f2 perm_val _ _ _ _ HF).
    intros j x x' Hin Hx. unfold seg. rewrite !ok_map_err.
    apply IH; [exact Hx | exact (nc_slice _ _ _ _ Hnc Hin) | exact (inv_list _ _ _ _ _ Hwf)].
  - (* map *)
    destruct Hv as [v | t b l l' HF | t b kvs kvs1 kvs' HF HP | t x x' Hx | t fs fs' HF]; try reflexivity.
    destruct (nc_map _ _ _ Hnc) as [_ Hsub].
    unfold zlen. rewrite (f2_len_perm _ _ _ _ HF HP).
    match goal with |- context [size_ok mn mx ?z] => destruct (size_ok mn mx z) end; [|reflexivity].
    rewrite !ok_then_ok by reflexivity.
    rewrite (ok_fold _ (fun kv => is_ok (unser f e ks (fst kv)) && is_ok (unser f e vs (snd kv)))).
    2: { intros a x. cbn [bind]. unfold seg. rewrite ok_two_binds, !ok_map_err. reflexivity. }
    2: { intros acc x Ha. destruct acc; cbn in *; congruence. }
    rewrite (ok_fold _ (fun kv => is_ok (unser f e ks (fst kv)) && is_ok (unser f e vs (snd kv)))).
    2: { intros a x. cbn [bind]. unfold seg. rewrite ok_two_binds, !ok_map_err. reflexivity. }
    2: { intros acc x Ha. destruct acc; cbn in *; congruence. }
    rewrite <- (forallb_perm _ kvs1 kvs' HP). apply (forallb_f2 _ _ _ _ _ HF).
    intros a b0 Hin [Hk Hvv]. destruct (Hsub a Hin) as [Hn1 Hn2].
    rewrite (IH e ks _ _ Hk Hn1 (inv_map_k _ _ _ _ _ _ Hwf)).
    now rewrite (IH e vs _ _ Hvv Hn2 (inv_map_v _ _ _ _ _ _ Hwf)).
  - (* object *)
    unfold property in *.
    pose proof (wf_object_nodup _ _ _ _ Hwf) as Hnps.
    pose proof Hv as Hv0.
    destruct Hv as [v | t b l l' HF | t b kvs kvs1 kvs' HF HP | t x x' Hx | t fs fs' HF]; [reflexivity| | | |]; cbv beta iota.
    2: { (* both arguments are maps *)
      destruct (nc_map _ _ _ Hnc) as [Hdup Hsub].
      assert (HF2 : Forall2 (fun a b0 => perm_val (fst a) (fst b0) /\ Qv (snd a) (snd b0)) kvs kvs1).
      { apply f2_qv; [exact HF|]. intros a Hin. now destruct (Hsub a Hin). }
      match goal with |- is_ok (bind (fold_left ?st kvs _) _) = _ =>
        assert (Hst : forall a kv, st (Ok a) kv = match sel_tstr (fst kv) with
                                                  | Some k => if amem k ps then Ok (a ++ [(k, snd kv)])%list else Err (cerr EKey)
                                                  | None => Err (cerr EKey)
                                                  end)
          by (intros a kv; cbn [bind]; destruct (fst kv); try reflexivity;
              match goal with ty : gtype |- _ => destruct ty; reflexivity end);
        assert (Hbad : forall acc kv, is_ok acc = false -> is_ok (st acc kv) = false)
          by (intros acc kv Ha; destruct acc; cbn in *; congruence);
        pose proof (r0_char ps st Hst Hbad kvs []) as C0; pose proof (r0_char ps st Hst Hbad kvs' []) as C0'
      end.
      assert (Hok : forallb (obj_key_ok ps) kvs = forallb (obj_key_ok ps) kvs').
      { rewrite <- (forallb_perm _ kvs1 kvs' HP). apply (forallb_f2 _ _ _ _ _ HF).
        intros a b0 _ [Hk _]. unfold obj_key_ok. now rewrite (sel_tstr_leaf _ _ Hk). }
      rewrite <- Hok in C0'. destruct (forallb (obj_key_ok ps) kvs).
      2: { rewrite (ok_bind_false _ _ C0), (ok_bind_false _ _ C0'). reflexivity. }
      match goal with |- is_ok (bind ?X _) = is_ok (bind ?Y _) =>
        replace X with (@Ok raw (raw_by sel_tstr kvs)) by (symmetry; exact C0);
        replace Y with (@Ok raw (raw_by sel_tstr kvs')) by (symmetry; exact C0')
      end.
      cbn [bind].
      set (G := fun (np : string * property) (d0 : gval) =>
                  if p_disabled (snd np) then @Err gval (cerr EDisabled) else unser f e (p_type (snd np)) d0).
      match goal with
      | |- is_ok (bind (fold_left _ ps (Ok ?r1)) _) = is_ok (bind (fold_left _ ps (Ok ?r1')) _) =>
          set (R1 := r1); set (R1' := r1')
      end.
      destruct (props_fold_char G ps R1 Hnps) as [C1 C2]. cbn zeta in C1, C2.
      destruct (props_fold_char G ps R1' Hnps) as [C1' C2']. cbn zeta in C1', C2'.
      etransitivity; [exact (obj_verdict ps _ R1 raw_to_val C2)|].
      symmetry. etransitivity; [exact (obj_verdict ps _ R1' raw_to_val C2')|]. symmetry.
      assert (E1 : forall k, alookup k R1 = match alookup k (raw_by sel_tstr kvs) with Some d0 => Some d0 | None => dfl (e_or e) ps k end)
        by (intros k; exact (r1_char (e_or e) ps _ k Hnps)).
      assert (E1' : forall k, alookup k R1' = match alookup k (raw_by sel_tstr kvs') with Some d0 => Some d0 | None => dfl (e_or e) ps k end)
        by (intros k; exact (r1_char (e_or e) ps _ k Hnps)).
      assert (HR : forall k, match alookup k R1, alookup k R1' with
                             | Some d0, Some d0' => d0 = d0' \/ Qv d0 d0'
                             | None, None => True
                             | _, _ => False
                             end).
      { intros k. rewrite E1, E1'.
        pose proof (raw_by_lookup sel_tstr sel_tstr_sound sel_tstr_leaf Qv kvs kvs1 kvs' k Hdup HF2 HP) as HL.
        destruct (alookup k (raw_by sel_tstr kvs)), (alookup k (raw_by sel_tstr kvs')); try contradiction.
        - right. exact HL.
        - destruct (dfl (e_or e) ps k); [left; reflexivity | exact I]. }
      f_equal.
      - etransitivity; [exact C1|]. symmetry. etransitivity; [exact C1'|]. symmetry.
        apply forallb_ext_in'. intros [n p] Hin. cbn [fst]. specialize (HR n).
        destruct (alookup n R1) as [d0|], (alookup n R1') as [d0'|]; try contradiction; [|reflexivity].
        unfold G. cbn [snd]. destruct (p_disabled p); [reflexivity|].
        destruct HR as [->|[Hp Hn]]; [reflexivity|].
        apply IH; [exact Hp | exact Hn | exact (inv_prop _ _ _ _ _ (n, p) Hwf Hin)].
      - apply check_rules_order; [apply Permutation_refl|]. intros k. unfold amem. specialize (HR k).
        destruct (alookup k R1), (alookup k R1'); try contradiction; reflexivity. }
    all: destruct ps as [|[pn0 pp0] [|pq0 ptl0]]; try reflexivity;
      (apply ok_bind2;
       [ unfold seg; rewrite !ok_map_err; destruct (p_disabled pp0); [reflexivity|];
         apply IH; [exact Hv0 | exact Hnc | exact (inv_prop _ _ _ _ _ (pn0, pp0) Hwf (or_introl eq_refl))]
       | intros; rewrite !ok_then_ok by reflexivity; reflexivity ]).
  - (* one-of *)
    destruct Hv as [v | t b l l' HF | t b kvs kvs1 kvs' HF HP | t x x' Hx | t fs fs' HF]; try reflexivity.
    cbv beta iota.
    destruct (nc_map _ _ _ Hnc) as [Hdup Hsub].
    assert (HF2 : Forall2 (fun a b0 => perm_val (fst a) (fst b0) /\ Qv (snd a) (snd b0)) kvs kvs1).
    { apply f2_qv; [exact HF|]. intros a Hin. now destruct (Hsub a Hin). }
    match goal with |- context [forallb ?p kvs] =>
      assert (Hall : forallb p kvs = forallb p kvs')
        by (rewrite <- (forallb_perm _ kvs1 kvs' HP); apply (forallb_f2 _ _ _ _ _ HF);
            intros a b0 _ [Hk _]; cbv beta; revert Hk; generalize (fst a), (fst b0); apply pv_leaf; reflexivity);
      rewrite <- Hall; destruct (forallb p kvs); [|reflexivity]
    end.
    rewrite !smap_get_raw.
    pose proof (raw_by_lookup sel_str sel_str_sound sel_str_leaf Qv kvs kvs1 kvs' fld Hdup HF2 HP) as HL.
    destruct (alookup fld (raw_by sel_str kvs)) as [d0|], (alookup fld (raw_by sel_str kvs')) as [d0'|];
      try contradiction; [|reflexivity].
    destruct HL as [Hd _]. destruct (pv_mappers _ _ Hd) as [Ei Es]. rewrite <- Ei, <- Es.
    match goal with |- is_ok (match ?c with _ => _ end) = _ => destruct c as [key|]; [|reflexivity] end.
    destruct (find (fun ks0 : okey * schema => okey_eqb (fst ks0) key) ts) as [[k1 m]|] eqn:E1; [|reflexivity].
    apply find_some in E1 as [E1 _].
    rewrite !ok_then_ok by (intros x0; destruct (is_str_any_map x0); [destruct inl|]; reflexivity).
    apply IH; [ | | exact (inv_member _ _ _ _ _ _ (k1, m) Hwf E1)].
    + destruct inl; [exact (pv_map _ _ _ _ _ HF HP)|].
      rewrite !smap_del_filter. apply (pv_map _ _ _ (filter (keep_key fld) kvs1)).
      * apply f2_filter; [exact HF|]. intros a b0 [Hk _]. unfold keep_key. now rewrite (sel_str_leaf _ _ Hk).
      * now apply perm_filter.
    + destruct inl; [exact Hnc|]. rewrite smap_del_filter. exact (nc_filter _ _ _ _ _ _ Hnc).
  - (* reference *)
    destruct (resolve e id ns) as [[o e2]|] eqn:R1; [|reflexivity].
    apply IH; [exact Hv | exact Hnc | exact (inv_ref _ _ _ _ _ _ _ Hwf R1)].
  - (* scope *)
    destruct (alookup root os) as [o|] eqn:R1; [|reflexivity].
    apply IH; [exact Hv | exact Hnc | exact (inv_scope _ _ _ _ _ Hwf R1)].
Qed.

End Value.

(* both halves together: the decision of Unserialize is independent of the order of the schema's association
   lists, of the environment's tables AND of the entries of every map of the argument *)
Lemma unser_order_both words pu : forall f e e' s s' v v',
  perm_env e e' -> nodup_env e = true -> perm_schema s s' -> perm_val v v' ->
  wf_schema e s = true -> no_key_collision v = true ->
  is_ok (unser words pu f e s v) = is_ok (unser words pu f e' s' v').
Proof.
  intros f e e' s s' v v' He Hnd Hs Hv Hwf Hnc.
  assert (Hwf0 : Inv wf_local e s) by (unfold wf_schema in Hwf; apply andb_prop in Hwf; exact Hwf).
  unfold no_key_collision in Hnc. apply negb_true_iff in Hnc.
  etransitivity; [exact (unser_value words pu f e s v v' Hv Hnc Hwf0)|].
  exact (unser_order words pu f e e' s s' v' He Hnd Hs Hwf0).
Qed.
