(* Proofs/C17Any.v — C17 inside `any` values (any.go checkAndConvert, the same function on all three
   entry points): an element `any` cannot convert is reported with the path to it - "[i]" per list
   level, "{k}" for a map key, "[k']" (the CONVERTED key) for a map value.  After the fix of D53
   every failure of a scalar is a constraint error, so the path is never lost. *)
From Coq Require Import Lia.
From Verif Require Import Base.Prelude Base.Str Base.Float Base.GoVal
  Schema.Regex Schema.Units Schema.Syntax Schema.Ops Proofs.C02Containers Proofs.C17 Proofs.C02Any.
Open Scope Z_scope.
Open Scope list_scope.

Ltac destruct_matches :=
  repeat match goal with |- context [match ?x with _ => _ end] => destruct x end.

(* every failure of `any` on a value that is neither a slice nor a map is a constraint error, empty path *)
Lemma any_scalar_outcome f v :
  (forall t nl l, v <> VSlice t nl l) -> (forall t nl l, v <> VMap t nl l) ->
  (exists n, any_conv (S f) v = Ok n) \/ (exists c, any_conv (S f) v = Err (cerr c)).
Proof.
  intros Hs Hm.
  destruct v as [| t b | t z | t x | t s | t nl l | t nl l | t o | t fs | src | k d];
    try (exfalso; exact (Hs _ _ _ eq_refl)); try (exfalso; exact (Hm _ _ _ eq_refl));
    cbn [any_conv kind_of]; unfold bool_ser;
    destruct_matches; ((left; eexists; reflexivity) || (right; eexists; reflexivity)).
Qed.

Lemma any_list_item_error f t nl l1 x l2 er :
  kind_of_type t = KSlice ->
  Forall (fun y => exists n, any_conv f y = Ok n) l1 -> any_conv f x = Err er ->
  any_conv (S f) (VSlice t nl (l1 ++ x :: l2)) = Err (add_seg (idx_seg (zlen l1)) er).
Proof.
  intros Hk Hok Hx. cbn [any_conv kind_of]. rewrite Hk.
  rewrite (mapMi_first_err (any_conv f) idx_seg x er l2 l1 0 Hok Hx). cbn [bind]. rewrite Z.add_0_l. reflexivity.
Qed.

Definition any_entry_ok (h : gval -> outcome gval) (kv : gval * gval) : Prop :=
  exists k' v', h (fst kv) = Ok k' /\ h (snd kv) = Ok v'.

Lemma any_fold_err h l : forall er, fold_left (any_step h) l (Err er) = Err er.
Proof. induction l as [|kv t IH]; intro er; cbn [fold_left]; [reflexivity | apply IH]. Qed.

Lemma any_fold_skip h kvs1 : forall rest acc, Forall (any_entry_ok h) kvs1 ->
  exists acc', fold_left (any_step h) (kvs1 ++ rest) (Ok acc) = fold_left (any_step h) rest (Ok acc').
Proof.
  induction kvs1 as [|[k0 x0] t IH]; intros rest acc Hok; cbn [app fold_left].
  - exists acc. reflexivity.
  - inversion Hok as [|kv l' (k' & v' & Hk0 & Hv0) Hrest]; subst. cbn [fst snd] in Hk0, Hv0.
    assert (E : any_step h (Ok acc) (k0, x0) = Ok (map_set k' v' acc)).
    { apply any_step_ok. exists k', v'. auto. }
    rewrite E. apply IH. exact Hrest.
Qed.

Lemma any_fold_key_err h k x er kvs2 kvs1 acc : Forall (any_entry_ok h) kvs1 -> h k = Err er ->
  fold_left (any_step h) (kvs1 ++ (k, x) :: kvs2) (Ok acc) = Err (add_seg (mkey_seg k) er).
Proof.
  intros Hok Hk. destruct (any_fold_skip h kvs1 ((k, x) :: kvs2) acc Hok) as (acc' & ->). cbn [fold_left].
  assert (E : any_step h (Ok acc') (k, x) = Err (add_seg (mkey_seg k) er)).
  { unfold any_step. cbn [bind fst snd]. rewrite Hk. reflexivity. }
  rewrite E. apply any_fold_err.
Qed.

Lemma any_fold_value_err h k k' x er kvs2 kvs1 acc : Forall (any_entry_ok h) kvs1 -> h k = Ok k' -> h x = Err er ->
  fold_left (any_step h) (kvs1 ++ (k, x) :: kvs2) (Ok acc) = Err (add_seg (mval_seg k') er).
Proof.
  intros Hok Hk Hx. destruct (any_fold_skip h kvs1 ((k, x) :: kvs2) acc Hok) as (acc' & ->). cbn [fold_left].
  assert (E : any_step h (Ok acc') (k, x) = Err (add_seg (mval_seg k') er)).
  { unfold any_step. cbn [bind fst snd]. rewrite Hk. cbn [seg map_err bind]. rewrite Hx. reflexivity. }
  rewrite E. apply any_fold_err.
Qed.

Lemma any_map_key_error f t nl kvs1 k x kvs2 er :
  kind_of_type t = KMap ->
  Forall (any_entry_ok (any_conv f)) kvs1 -> any_conv f k = Err er ->
  any_conv (S f) (VMap t nl (kvs1 ++ (k, x) :: kvs2)) = Err (add_seg (mkey_seg k) er).
Proof.
  intros Hk Hok He. cbn [any_conv kind_of]. rewrite Hk, any_conv_map_fold.
  rewrite (any_fold_key_err (any_conv f) k x er kvs2 kvs1 [] Hok He). reflexivity.
Qed.

Lemma any_map_value_error f t nl kvs1 k k' x kvs2 er :
  kind_of_type t = KMap ->
  Forall (any_entry_ok (any_conv f)) kvs1 -> any_conv f k = Ok k' -> any_conv f x = Err er ->
  any_conv (S f) (VMap t nl (kvs1 ++ (k, x) :: kvs2)) = Err (add_seg (mval_seg k') er).
Proof.
  intros Hk Hok Hkk He. cbn [any_conv kind_of]. rewrite Hk, any_conv_map_fold.
  rewrite (any_fold_value_err (any_conv f) k k' x er kvs2 kvs1 [] Hok Hkk He). reflexivity.
Qed.

(* a single fault inside an `any` value *)
Inductive fault_any : nat -> gval -> list string -> Prop :=
| FA_here : forall f v, (forall t nl l, v <> VSlice t nl l) -> (forall t nl l, v <> VMap t nl l) ->
    (forall n, any_conv (S f) v <> Ok n) -> fault_any (S f) v []
| FA_item : forall f t nl l1 x l2 p, kind_of_type t = KSlice ->
    Forall (fun y => exists n, any_conv f y = Ok n) l1 -> fault_any f x p ->
    fault_any (S f) (VSlice t nl (l1 ++ x :: l2)) (idx_seg (zlen l1) :: p)
| FA_key : forall f t nl kvs1 k x kvs2 p, kind_of_type t = KMap ->
    Forall (any_entry_ok (any_conv f)) kvs1 -> fault_any f k p ->
    fault_any (S f) (VMap t nl (kvs1 ++ (k, x) :: kvs2)) (mkey_seg k :: p)
| FA_value : forall f t nl kvs1 k k' x kvs2 p, kind_of_type t = KMap ->
    Forall (any_entry_ok (any_conv f)) kvs1 -> any_conv f k = Ok k' -> fault_any f x p ->
    fault_any (S f) (VMap t nl (kvs1 ++ (k, x) :: kvs2)) (mval_seg k' :: p).

Theorem single_fault_path_any : forall f v p, fault_any f v p -> exists c, any_conv f v = Err (mkErr true p c).
Proof.
  intros f v p H. induction H as
    [f v Hs Hm Hno
     | f t nl l1 x l2 p Hk Hok Hx IH
     | f t nl kvs1 k x kvs2 p Hk Hok Hx IH
     | f t nl kvs1 k k' x kvs2 p Hk Hok Hkk Hx IH].
  - destruct (any_scalar_outcome f v Hs Hm) as [(n & Hn) | (c & Hc)]; [exfalso; exact (Hno n Hn) | exists c; exact Hc].
  - destruct IH as (c & IH). exists c. rewrite (any_list_item_error f t nl l1 x l2 _ Hk Hok IH). reflexivity.
  - destruct IH as (c & IH). exists c. rewrite (any_map_key_error f t nl kvs1 k x kvs2 _ Hk Hok IH). reflexivity.
  - destruct IH as (c & IH). exists c. rewrite (any_map_value_error f t nl kvs1 k k' x kvs2 _ Hk Hok Hkk IH). reflexivity.
Qed.

(* the three entry points run the same function on an `any` schema *)
Section WithTables.
Variable words : list (string * bool).
Variable pu : units -> string -> option fl.

Lemma unser_any_eq f e v : unser words pu (S f) e SAny v = any_conv f v.
Proof. reflexivity. Qed.
Lemma serialize_any_eq f e v : serialize words pu (S f) e SAny v = any_conv f v.
Proof. reflexivity. Qed.
Lemma validate_any_eq f e v : validate words pu (S f) e SAny v = (_ <- any_conv f v ;; Ok tt).
Proof. reflexivity. Qed.

Theorem single_fault_path_any_paths : forall f e v p, fault_any f v p -> exists c,
  unser words pu (S f) e SAny v = Err (mkErr true p c) /\
  validate words pu (S f) e SAny v = Err (mkErr true p c) /\
  serialize words pu (S f) e SAny v = Err (mkErr true p c).
Proof.
  intros f e v p H. destruct (single_fault_path_any f v p H) as (c & Hc). exists c.
  rewrite unser_any_eq, validate_any_eq, serialize_any_eq, Hc. repeat split; reflexivity.
Qed.

End WithTables.
