(* Proofs/Compat.v — lemmas about Schema/Compat.v (C15): totality, recursion, reflexivity. *)
From Coq Require Import List ZArith Bool String Lia Permutation.
From Verif Require Import Base.Prelude Base.Str Base.Float Base.GoVal
  Schema.Regex Schema.Units Schema.Syntax Schema.Ops Schema.Compat.
Import ListNotations.
Open Scope Z_scope.

Arguments c15_excl_Z : simpl never.
Arguments c15_excl_F : simpl never.
Arguments c15_enum_int : simpl never.
Arguments c15_enum_str : simpl never.
Arguments c15_any : simpl never.
Arguments c15_to_object : simpl never.
Arguments c15_disp_ok : simpl never.
Arguments resolve : simpl never.

(* ---------- outcomes ---------- *)

Definition is_verdict {A} (o : outcome A) : bool :=
  match o with Ok _ | Err _ => true | _ => false end.

Lemma bind_ok : forall A B (o : outcome A) (k : A -> outcome B) b,
  bind o k = Ok b <-> exists a, o = Ok a /\ k a = Ok b.
Proof.
  intros A B o k b; destruct o; simpl; split; intros H.
  - eauto.
  - destruct H as [a0 [H1 H2]]; inversion H1; subst; auto.
  - discriminate.
  - destruct H as [a0 [H1 _]]; discriminate.
  - discriminate.
  - destruct H as [a0 [H1 _]]; discriminate.
  - discriminate.
  - destruct H as [a0 [H1 _]]; discriminate.
Qed.

Lemma bind_unit_ok : forall B (o : outcome unit) (k : unit -> outcome B) b,
  bind o k = Ok b <-> o = Ok tt /\ k tt = Ok b.
Proof.
  intros; rewrite bind_ok; split.
  - intros [[] [H1 H2]]; auto.
  - intros [H1 H2]; exists tt; auto.
Qed.

Lemma bind_verdict : forall A B (o : outcome A) (k : A -> outcome B),
  is_verdict o = true -> (forall a, is_verdict (k a) = true) -> is_verdict (bind o k) = true.
Proof. intros A B o k Ho Hk; destruct o; simpl in *; auto; discriminate. Qed.

Lemma rewrap_ok : forall A c (o : outcome A) a, rewrap c o = Ok a <-> o = Ok a.
Proof. intros A c o a; destruct o; simpl; split; intros H; auto; discriminate. Qed.
(* rewrap_path (D67 repaired: the re-wrapped constraint error keeps the path) — same shape *)
Lemma rewrap_path_ok : forall A (o : outcome A) a, rewrap_path o = Ok a <-> o = Ok a.
Proof. intros A o a; destruct o; simpl; split; intros H; auto; discriminate. Qed.
Lemma rewrap_path_verdict : forall A (o : outcome A), is_verdict (rewrap_path o) = is_verdict o.
Proof. intros A o; destruct o; reflexivity. Qed.
Lemma seg_ok : forall A s (o : outcome A) a, seg s o = Ok a <-> o = Ok a.
Proof. intros A s o a; destruct o; simpl; split; intros H; auto; discriminate. Qed.
Lemma rewrap_verdict : forall A c (o : outcome A), is_verdict (rewrap c o) = is_verdict o.
Proof. intros A c o; destruct o; reflexivity. Qed.
Lemma seg_verdict : forall A s (o : outcome A), is_verdict (seg s o) = is_verdict o.
Proof. intros A s o; destruct o; reflexivity. Qed.

Lemma forM_ok_iff : forall A (f : A -> outcome unit) l,
  forM_ f l = Ok tt <-> Forall (fun x => f x = Ok tt) l.
Proof.
  intros A f l; induction l as [|x t IH]; simpl.
  - split; auto.
  - rewrite bind_unit_ok, IH; split.
    + intros [H1 H2]; constructor; auto.
    + intros H; inversion H; subst; auto.
Qed.

Lemma forM_verdict : forall A (f : A -> outcome unit) l,
  (forall x, In x l -> is_verdict (f x) = true) -> is_verdict (forM_ f l) = true.
Proof.
  intros A f l; induction l as [|x t IH]; simpl; intros H; auto.
  apply bind_verdict; [apply H; auto | intros _; apply IH; intros y Hy; apply H; auto].
Qed.

(* ---------- association lists ---------- *)

Lemma alookup_in : forall A k (l : list (string * A)) v, alookup k l = Some v -> In (k, v) l.
Proof.
  intros A k l; induction l as [|[k' v'] t IH]; simpl; intros v H; [discriminate|].
  destruct (String.eqb k k') eqn:E.
  - apply String.eqb_eq in E; subst; inversion H; auto.
  - right; auto.
Qed.

Lemma str_in_In : forall s l, str_in s l = true <-> In s l.
Proof.
  intros s l; induction l as [|x t IH]; simpl.
  - split; [discriminate | tauto].
  - rewrite orb_true_iff, IH, String.eqb_eq; split; intros [H|H]; auto.
Qed.

Lemma alookup_nodup : forall A (l : list (string * A)) k v,
  nodup_str (map fst l) = true -> In (k, v) l -> alookup k l = Some v.
Proof.
  intros A l; induction l as [|[k' v'] t IH]; simpl; intros k v Hn Hin; [tauto|].
  apply andb_true_iff in Hn; destruct Hn as [Hn1 Hn2].
  destruct Hin as [Heq|Hin].
  - inversion Heq; subst; rewrite String.eqb_refl; auto.
  - destruct (String.eqb k k') eqn:E.
    + apply String.eqb_eq in E; subst.
      apply negb_true_iff in Hn1.
      assert (str_in k' (map fst t) = true) as C by (apply str_in_In; apply (in_map fst) in Hin; auto).
      congruence.
    + auto.
Qed.

Lemma zlookup_nodup : forall A (l : list (Z * A)) k v,
  nodup_z (map fst l) = true -> In (k, v) l -> zlookup k l = Some v.
Proof.
  intros A l; induction l as [|[k' v'] t IH]; simpl; intros k v Hn Hin; [tauto|].
  apply andb_true_iff in Hn; destruct Hn as [Hn1 Hn2].
  destruct Hin as [Heq|Hin].
  - inversion Heq; subst; rewrite Z.eqb_refl; auto.
  - destruct (Z.eqb k k') eqn:E.
    + apply Z.eqb_eq in E; subst.
      apply negb_true_iff in Hn1.
      assert (existsb (Z.eqb k') (map fst t) = true) as C.
      { apply existsb_exists; exists k'; split; [apply (in_map fst) in Hin; auto | apply Z.eqb_refl]. }
      congruence.
    + auto.
Qed.

Lemma okey_eqb_eq : forall a b, okey_eqb a b = true <-> a = b.
Proof.
  intros [x|x] [y|y]; simpl; split; intros H; try discriminate.
  - apply Z.eqb_eq in H; subst; auto.
  - inversion H; apply Z.eqb_refl.
  - apply String.eqb_eq in H; subst; auto.
  - inversion H; apply String.eqb_refl.
Qed.

Lemma find_okey_nodup : forall A (l : list (okey * A)) k v,
  nodup_okey (map fst l) = true -> In (k, v) l ->
  find (fun ks => okey_eqb (fst ks) k) l = Some (k, v).
Proof.
  intros A l; induction l as [|[k' v'] t IH]; simpl; intros k v Hn Hin; [tauto|].
  apply andb_true_iff in Hn; destruct Hn as [Hn1 Hn2].
  destruct Hin as [Heq|Hin].
  - inversion Heq; subst. assert (okey_eqb k k = true) as -> by (apply okey_eqb_eq; auto). auto.
  - destruct (okey_eqb k' k) eqn:E.
    + apply okey_eqb_eq in E; subst.
      apply negb_true_iff in Hn1.
      assert (existsb (okey_eqb k) (map fst t) = true) as C.
      { apply existsb_exists; exists k; split; [apply (in_map fst) in Hin; auto | apply okey_eqb_eq; auto]. }
      congruence.
    + auto.
Qed.

Lemma find_some_in : forall A (f : A -> bool) l x, find f l = Some x -> In x l.
Proof. intros A f l x H; apply find_some in H; tauto. Qed.

(* ---------- ranges and displays ---------- *)

Lemma excl_Z_refl : forall mn mx, range_ok_Z mn mx = true -> c15_excl_Z mn mx mn mx = false.
Proof.
  intros mn mx H; unfold c15_excl_Z, range_ok_Z in *; destruct mn as [a|], mx as [b|]; auto.
  apply Z.leb_le in H. assert (E : (b <? a) = false) by (apply Z.ltb_ge; lia). rewrite E; auto.
Qed.

Lemma excl_F_refl : forall mn mx, range_ok_F mn mx = true -> c15_excl_F mn mx mn mx = false.
Proof.
  intros mn mx H; unfold c15_excl_F, range_ok_F in *; destruct mn as [a|], mx as [b|]; auto.
  apply negb_true_iff in H; rewrite H; auto.
Qed.

Lemma disp_ok_refl : forall d, c15_disp_ok d d = true.
Proof. intros d; unfold c15_disp_ok; destruct (c15_dname d); auto; apply String.eqb_refl. Qed.

Section WithTables.
Variable words : list (string * bool).
Variable pu : units -> string -> option fl.
Notation cs := (compat_schema words pu).
Notation un := (unser words pu).

(* ---------- a schema pointer handed over as data is never accepted ---------- *)

Lemma unser_ptr_not_ok : forall fuel e s a, un fuel e s c15_schema_ptr <> Ok a.
Proof.
  induction fuel as [|f IH]; intros e s a; [simpl; discriminate|].
  destruct s; simpl; try discriminate.
  - (* any *) destruct f; simpl; discriminate.
  - (* object *)
    destruct props as [|[name p] [|]]; try discriminate.
    destruct (p_disabled p); simpl; [discriminate|].
    destruct (un f e (p_type p) c15_schema_ptr) eqn:E; simpl; try discriminate.
    exfalso; eapply IH; eauto.
  - (* ref *) destruct (resolve e id ns) as [[o e']|]; [apply IH | discriminate].
  - (* scope *) destruct (alookup root objs); [apply IH | discriminate].
Qed.

Lemma unser_ptr_verdict : forall n fuel e s,
  c15_unfolds n e s = true -> (n + 1 <= fuel)%nat -> is_verdict (un fuel e s c15_schema_ptr) = true.
Proof.
  induction n as [|m IH]; intros fuel e s Hu Hf; [discriminate|].
  destruct fuel as [|f]; [lia|].
  destruct s; simpl; auto.
  - destruct f; [lia | simpl; auto].
  - destruct props as [|[name p] [|]]; auto.
    simpl in Hu. apply andb_true_iff in Hu; destruct Hu as [Hu _].
    apply bind_verdict.
    + rewrite seg_verdict. destruct (p_disabled p); auto. apply IH; auto; lia.
    + intros x. apply bind_verdict; [|auto].
      unfold check_rules; simpl. unfold check_prop_rules. rewrite String.eqb_refl.
      destruct (existsb _ (p_conflicts p)); auto.
  - simpl in Hu. destruct (resolve e id ns) as [[o e']|]; [|discriminate].
    apply andb_true_iff in Hu; destruct Hu as [_ Hu]. apply IH; auto; lia.
  - simpl in Hu. destruct (alookup root objs); [|discriminate].
    apply andb_true_iff in Hu; destruct Hu as [_ Hu]. apply IH; auto; lia.
Qed.

(* ---------- totality ---------- *)

Lemma unfolds_rt_ok : forall m e t, c15_unfolds m e t = true -> c15_rt_ok e t = true.
Proof.
  induction m as [|m IH]; intros e t H; [discriminate|].
  destruct t; simpl in *; auto.
  - apply andb_true_iff in H; destruct H; apply andb_true_iff; split; auto.
  - destruct (resolve e id ns) as [[o e']|]; auto.
  - destruct (alookup root objs); auto.
Qed.

Lemma enum_int_verdict : forall a b, is_verdict (c15_enum_int a b) = true.
Proof.
  intros; apply forM_verdict; intros x _. destruct (zlookup (fst x) a); auto.
  destruct (c15_disp_ok o (snd x)); auto.
Qed.
Lemma enum_str_verdict : forall a b, is_verdict (c15_enum_str a b) = true.
Proof.
  intros; apply forM_verdict; intros x _. destruct (alookup (fst x) a); auto.
  destruct (c15_disp_ok o (snd x)); auto.
Qed.

Lemma if_verdict : forall (b : bool) e, is_verdict (if b then Err e else Ok tt) = true.
Proof. intros [] e; auto. Qed.

Lemma forallb_In : forall A (f : A -> bool) l x, forallb f l = true -> In x l -> f x = true.
Proof. intros A f l x H Hin; rewrite forallb_forall in H; auto. Qed.

Lemma unfolds_object : forall m e t o eo,
  c15_unfolds m e t = true -> c15_to_object e t = CvObj o eo ->
  exists id un props m', o = SObject id un props /\
     forallb (fun np => c15_unfolds m' eo (p_type (snd np))) props = true.
Proof.
  intros m e t o eo Hu Hc. destruct m as [|m]; [discriminate|].
  destruct t; unfold c15_to_object in Hc; try discriminate.
  - inversion Hc; subst. simpl in Hu. eauto 8.
  - simpl in Hu. destruct (resolve e id ns) as [[o' e']|]; [|discriminate].
    inversion Hc; subst. apply andb_true_iff in Hu; destruct Hu as [Ho Hu].
    destruct o; try discriminate. destruct m as [|m]; [discriminate|]. simpl in Hu. eauto 8.
  - simpl in Hu. destruct (alookup root objs) as [o'|]; [|discriminate].
    inversion Hc; subst. apply andb_true_iff in Hu; destruct Hu as [Ho Hu].
    destruct o; try discriminate. destruct m as [|m]; [discriminate|]. simpl in Hu. eauto 8.
Qed.

Lemma unfolds_to_object_no_panic : forall m e t, c15_unfolds m e t = true -> c15_to_object e t <> CvPanic.
Proof.
  intros m e t Hu. destruct m; [discriminate|]. destruct t; unfold c15_to_object; simpl in *; try discriminate.
  - destruct (resolve e id ns) as [[o e']|]; discriminate.
  - destruct (alookup root objs); discriminate.
Qed.

Lemma compat_total : forall n fuel e1 s m e2 t,
  c15_unfolds n e1 s = true -> c15_unfolds m e2 t = true -> (n + 2 <= fuel)%nat ->
  is_verdict (cs fuel e1 s e2 t) = true.
Proof.
  induction n as [|n IH]; intros fuel e1 s m e2 t Hs Ht Hf; [discriminate|].
  destruct fuel as [|f]; [lia|].
  assert (Hf' : (n + 2 <= f)%nat) by lia.
  destruct s; simpl.
  - destruct t; auto; apply if_verdict.
  - destruct t; auto; apply if_verdict.
  - destruct t; auto; apply if_verdict.
  - destruct t; auto.
  - destruct t; auto.
  - unfold c15_any. rewrite (unfolds_rt_ok _ _ _ Ht). destruct t; auto.
  - destruct t; auto; apply enum_int_verdict.
  - destruct t; auto; apply enum_str_verdict.
  - (* list *)
    destruct t; auto. destruct (c15_excl_Z mn mx mn0 mx0); auto.
    destruct m as [|m]; [discriminate|]. simpl in Hs, Ht. eapply IH; eauto.
  - (* map *)
    destruct t; auto. destruct m as [|m]; [discriminate|]. simpl in Hs, Ht.
    apply andb_true_iff in Hs; destruct Hs as [Hs1 Hs2].
    apply andb_true_iff in Ht; destruct Ht as [Ht1 Ht2].
    apply bind_verdict; [rewrite rewrap_verdict; eapply IH; eauto|intros _].
    apply bind_verdict; [rewrite rewrap_verdict; eapply IH; eauto|intros _].
    apply if_verdict.
  - (* object *)
    destruct (c15_to_object e2 t) as [o eo| |] eqn:Ec.
    + destruct (unfolds_object _ _ _ _ _ Ht Ec) as [oid [oun [oprops [m' [-> Hp]]]]].
      destruct (negb oun && negb unenforced && negb (String.eqb oid id)); auto.
      simpl in Hs.
      apply bind_verdict; [|intros _].
      * apply forM_verdict; intros np Hin.
        destruct (alookup (fst np) props) as [p|] eqn:El; auto.
        rewrite seg_verdict. apply alookup_in in El.
        eapply IH; eauto.
        -- apply (forallb_In _ _ _ _ Hs El).
        -- apply (forallb_In _ _ _ _ Hp Hin).
      * apply forM_verdict; intros np _. destruct (p_required (snd np) && negb (amem (fst np) oprops)); auto.
    + apply bind_verdict; [|auto]. rewrite rewrap_verdict.
      apply unser_ptr_verdict with (n := S n); auto. lia.
    + exfalso; eapply unfolds_to_object_no_panic; eauto.
  - (* one-of *)
    destruct t; auto.
    destruct (negb (Bool.eqb int_keys int_keys0)); auto.
    destruct (negb (String.eqb field0 field)); auto.
    destruct m as [|m]; [discriminate|]. simpl in Hs, Ht.
    apply forM_verdict; intros km Hin.
    destruct (find _ types0) as [[k' om]|] eqn:Ef; auto.
    rewrite rewrap_verdict. apply find_some_in in Ef.
    eapply IH; eauto.
    + apply (forallb_In _ _ _ _ Hs Hin).
    + apply (forallb_In _ _ _ _ Ht Ef).
  - (* ref *)
    simpl in Hs. destruct (resolve e1 id ns) as [[o e1']|]; [|discriminate].
    apply andb_true_iff in Hs; destruct Hs as [_ Hs].
    destruct t; try (eapply IH; eauto; fail).
    destruct m as [|m]; [discriminate|]. simpl in Ht.
    destruct (resolve e2 id0 ns0) as [[o2 e2']|]; [|discriminate].
    apply andb_true_iff in Ht; destruct Ht as [_ Ht]. eapply IH; eauto.
  - (* scope *)
    simpl in Hs. destruct (alookup root objs) as [o|]; [|discriminate].
    apply andb_true_iff in Hs; destruct Hs as [_ Hs].
    destruct t; try (eapply IH; eauto; fail).
    destruct m as [|m]; [discriminate|]. simpl in Ht.
    destruct (alookup root0 objs0) as [o2|]; [|discriminate].
    apply andb_true_iff in Ht; destruct Ht as [_ Ht]. eapply IH; eauto.
Qed.

(* ---------- reflexivity ---------- *)

Lemma wf_rt_ok : forall m e t, c15_wf m e t = true -> c15_rt_ok e t = true.
Proof.
  induction m as [|m IH]; intros e t H; [discriminate|].
  destruct t; simpl in *; auto.
  - apply andb_true_iff in H; destruct H; auto.
  - apply andb_true_iff in H; destruct H as [H H2]; apply andb_true_iff in H; destruct H.
    apply andb_true_iff; split; auto.
  - destruct (resolve e id ns) as [[o e']|]; auto.
  - destruct (alookup root objs); auto.
Qed.

Lemma compat_refl : forall n fuel e s,
  c15_wf n e s = true -> (n <= fuel)%nat -> cs fuel e s e s = Ok tt.
Proof.
  induction n as [|n IH]; intros fuel e s Hw Hf; [discriminate|].
  destruct fuel as [|f]; [lia|].
  assert (Hf' : (n <= f)%nat) by lia.
  destruct s; simpl; simpl in Hw; auto.
  - rewrite excl_Z_refl; auto.
  - rewrite excl_F_refl; auto.
  - rewrite excl_Z_refl; auto.
  - unfold c15_enum_int. apply forM_ok_iff, Forall_forall. intros [k d] Hin; simpl.
    rewrite (zlookup_nodup _ _ _ _ Hw Hin), disp_ok_refl; auto.
  - unfold c15_enum_str. apply forM_ok_iff, Forall_forall. intros [k d] Hin; simpl.
    rewrite (alookup_nodup _ _ _ _ Hw Hin), disp_ok_refl; auto.
  - apply andb_true_iff in Hw; destruct Hw as [Hr Hw]. rewrite excl_Z_refl; auto.
  - apply andb_true_iff in Hw; destruct Hw as [Hw Hv]. apply andb_true_iff in Hw; destruct Hw as [Hr Hk].
    rewrite (IH f e s1), (IH f e s2); auto. simpl. rewrite excl_Z_refl; auto.
  - apply andb_true_iff in Hw; destruct Hw as [Hn Hp].
    unfold c15_to_object. rewrite String.eqb_refl. rewrite !andb_false_r.
    apply bind_unit_ok; split.
    + apply forM_ok_iff, Forall_forall. intros [name p] Hin; simpl.
      rewrite (alookup_nodup _ _ _ _ Hn Hin). apply seg_ok. apply IH; auto.
      apply (forallb_In _ _ _ _ Hp Hin).
    + apply forM_ok_iff, Forall_forall. intros [name p] Hin; simpl.
      unfold amem. rewrite (alookup_nodup _ _ _ _ Hn Hin). rewrite andb_false_r; auto.
  - apply andb_true_iff in Hw; destruct Hw as [Hn Hp].
    rewrite Bool.eqb_reflx, String.eqb_refl; simpl.
    apply forM_ok_iff, Forall_forall. intros [k mm] Hin; simpl.
    rewrite (find_okey_nodup _ _ _ _ Hn Hin). apply rewrap_ok. apply IH; auto.
    pose proof (forallb_In _ _ _ _ Hp Hin) as H; simpl in H. apply andb_true_iff in H; tauto.
  - destruct (resolve e id ns) as [[o e']|]; [|discriminate].
    apply andb_true_iff in Hw; destruct Hw as [_ Hw]. apply IH; auto.
  - destruct (alookup root objs) as [o|]; [|discriminate].
    apply andb_true_iff in Hw; destruct Hw as [_ Hw]. apply IH; auto.
Qed.

End WithTables.

(* ---------- recursion: no cycle guard (D03), and the inline shorthand through a cycle (D11) ---------- *)

Definition c15_prop (t : schema) : property := mkProp t None false [] [] [] None [] false false None.
Definition c15_recA : schema := SObject "A" false [("x", c15_prop (SRef "A" "" None))].
Definition c15_rec_scope : schema := SScope [("A", c15_recA)] "A".
Definition c15_env0 (o : oracles) : env := mkEnv [] [] o.

Section Recursion.
Variable words : list (string * bool).
Variable pu : units -> string -> option fl.
Variable o : oracles.
Notation cs := (compat_schema words pu).
Notation un := (unser words pu).
Let eA := env_enter (c15_env0 o) [("A", c15_recA)].

Lemma rec_cycle : forall fuel,
  cs fuel eA c15_recA eA c15_recA = OutOfFuel /\
  cs fuel eA (SRef "A" "" None) eA (SRef "A" "" None) = OutOfFuel.
Proof.
  induction fuel as [|f [IH1 IH2]]; [split; reflexivity|].
  split.
  - change (cs (S f) eA c15_recA eA c15_recA) with
      (_ <- (_ <- seg "x" (cs f eA (SRef "A" "" None) eA (SRef "A" "" None)) ;; Ok tt) ;;
       forM_ (fun np : string * property =>
                if p_required (snd np) && negb (amem (fst np) [("x", c15_prop (SRef "A" "" None))])
                then Err (cerr EPresence) else Ok tt) [("x", c15_prop (SRef "A" "" None))]).
    rewrite IH2. reflexivity.
  - change (cs (S f) eA (SRef "A" "" None) eA (SRef "A" "" None)) with (cs f eA c15_recA eA c15_recA).
    exact IH1.
Qed.

Lemma compat_recursive_diverges : forall fuel,
  cs fuel (c15_env0 o) c15_rec_scope (c15_env0 o) c15_rec_scope = OutOfFuel.
Proof.
  intros [|f]; [reflexivity|].
  change (cs (S f) (c15_env0 o) c15_rec_scope (c15_env0 o) c15_rec_scope) with (cs f eA c15_recA eA c15_recA).
  apply rec_cycle.
Qed.

(* the same scope against a schema of another kind: the object code hands the schema pointer to
   Unserialize, whose one-property shorthand follows the reference for ever (D11) *)
Lemma rec_unser_cycle : forall fuel,
  un fuel eA c15_recA c15_schema_ptr = OutOfFuel /\ un fuel eA (SRef "A" "" None) c15_schema_ptr = OutOfFuel.
Proof.
  induction fuel as [|f [IH1 IH2]]; [split; reflexivity|].
  split.
  - change (un (S f) eA c15_recA c15_schema_ptr) with
      (x <- seg "x" (un f eA (SRef "A" "" None) c15_schema_ptr) ;;
       _ <- check_rules [("x", c15_prop (SRef "A" "" None))] (fun k => String.eqb k "x") ;;
       Ok (raw_to_val [("x", x)])).
    rewrite IH2; reflexivity.
  - change (un (S f) eA (SRef "A" "" None) c15_schema_ptr) with (un f eA c15_recA c15_schema_ptr).
    exact IH1.
Qed.

Lemma compat_recursive_data_diverges : forall fuel,
  cs fuel (c15_env0 o) c15_rec_scope (c15_env0 o) (SInt None None None) = OutOfFuel.
Proof.
  intros [|[|f]]; [reflexivity|reflexivity|].
  change (cs (S (S f)) (c15_env0 o) c15_rec_scope (c15_env0 o) (SInt None None None)) with
    (_ <- rewrap true (un f eA c15_recA c15_schema_ptr) ;; Ok tt).
  rewrite (proj1 (rec_unser_cycle f)). reflexivity.
Qed.
End Recursion.

(* ---------- the behaviours before the fixes, and the empty-range class ---------- *)

Lemma prefix_D01_panics : c15_excl_Z_prefix (Some 1) None None (Some 5) = Panic "nil pointer dereference".
Proof. reflexivity. Qed.

Lemma prefix_D02_order : 
  c15_enum_str_prefix [("a", None); ("b", None)] [("a", None); ("c", None)] = Ok tt /\
  c15_enum_str_prefix [("a", None); ("b", None)] [("c", None); ("a", None)] = Err (cerr EEnum).
Proof. split; reflexivity. Qed.

Lemma prefix_D60_kind : c15_enum_str_of_int_prefix [("A", None)] [(65, None)] = Ok tt.
Proof. vm_compute. reflexivity. Qed.

Lemma empty_range_not_reflexive : forall words pu e fuel,
  compat_schema words pu (S fuel) e (SInt (Some 5) (Some 1) None) e (SInt (Some 5) (Some 1) None) = Err (cerr EBound).
Proof. reflexivity. Qed.
