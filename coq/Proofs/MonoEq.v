(* Proofs/MonoEq.v — Proofs/Mono.v re-proved through the folded unfolding equations of Proofs/OpsEq.v
   (the original script unfolds the mutual fixpoint with cbn and does not finish in 10 minutes).
   Original header: Proofs/Mono.v — fuel monotonicity of the schema operations: more fuel never changes a
   result that was not OutOfFuel.  Stated with the information order
     le_out r r'  :=  r = OutOfFuel \/ r = r'
   so that it composes through bind, mapM, folds and the error decorators. *)
From Coq Require Import Lia.
From Verif Require Import Base.Prelude Base.Str Base.Float Base.GoVal
  Schema.Regex Schema.Units Schema.Syntax Schema.Ops Proofs.OpsEq.

Definition le_out {A} (r r' : outcome A) : Prop := r = OutOfFuel \/ r = r'.

Lemma le_refl {A} (r : outcome A) : le_out r r.
Proof. right; reflexivity. Qed.

Lemma le_oof {A} (r : outcome A) : le_out OutOfFuel r.
Proof. left; reflexivity. Qed.

Lemma le_bind {A B} (o o' : outcome A) (k k' : A -> outcome B) :
  le_out o o' -> (forall a, le_out (k a) (k' a)) -> le_out (bind o k) (bind o' k').
Proof.
  intros [H | H] Hk; subst.
  - left; reflexivity.
  - destruct o' as [a | e | w |]; cbn; [apply Hk | right | right | left]; reflexivity.
Qed.

Lemma le_map_err {A} (g : err -> err) (o o' : outcome A) :
  le_out o o' -> le_out (map_err g o) (map_err g o').
Proof. intros [H | H]; subst; [left | right]; reflexivity. Qed.

Lemma le_seg {A} s (o o' : outcome A) : le_out o o' -> le_out (seg s o) (seg s o').
Proof. apply le_map_err. Qed.

Lemma le_rewrap {A} c (o o' : outcome A) : le_out o o' -> le_out (rewrap c o) (rewrap c o').
Proof. apply le_map_err. Qed.

Lemma le_rewrap_path {A} (o o' : outcome A) : le_out o o' -> le_out (rewrap_path o) (rewrap_path o').
Proof. apply le_map_err. Qed.

Lemma le_mapM{A B} (g g' : A -> outcome B) l :
  (forall x, le_out (g x) (g' x)) -> le_out (mapM g l) (mapM g' l).
Proof.
  intros H. induction l as [|x t IH]; cbn; [apply le_refl|].
  apply le_bind; [apply H|]. intros y. apply le_bind; [apply IH|]. intros; apply le_refl.
Qed.

Lemma le_mapMi {A B} (g g' : Z -> A -> outcome B) l : forall i,
  (forall j x, le_out (g j x) (g' j x)) -> le_out (mapMi g i l) (mapMi g' i l).
Proof.
  induction l as [|x t IH]; intros i H; cbn; [apply le_refl|].
  apply le_bind; [apply H|]. intros y. apply le_bind; [apply IH; exact H|]. intros; apply le_refl.
Qed.

Lemma le_forM {A} (g g' : A -> outcome unit) l :
  (forall x, le_out (g x) (g' x)) -> le_out (forM_ g l) (forM_ g' l).
Proof.
  intros H. induction l as [|x t IH]; cbn; [apply le_refl|].
  apply le_bind; [apply H|]. intros; apply IH.
Qed.

(* folds whose step is `a <- acc ;; ...` *)
Lemma le_fold {A B} (st st' : outcome B -> A -> outcome B) l : forall acc acc',
  le_out acc acc' ->
  (forall a a' x, le_out a a' -> le_out (st a x) (st' a' x)) ->
  le_out (fold_left st l acc) (fold_left st' l acc').
Proof.
  induction l as [|x t IH]; intros acc acc' Ha Hs; cbn; [exact Ha|].
  apply IH; [apply Hs; exact Ha | exact Hs].
Qed.

(* goal-directed solver: both sides have the same shape up to the fuel of recursive calls *)
Ltac le_solve_with tac :=
  repeat match goal with
  | |- le_out ?x ?x => apply le_refl
  | |- le_out OutOfFuel _ => apply le_oof
  | H : le_out ?a ?b |- le_out ?a ?b => exact H
  | |- le_out (bind _ _) (bind _ _) => apply le_bind; [| intros ?]
  | |- le_out (seg _ _) (seg _ _) => apply le_seg
  | |- le_out (rewrap _ _) (rewrap _ _) => apply le_rewrap
  | |- le_out (rewrap_path _) (rewrap_path _) => apply le_rewrap_path
  | |- le_out (map_err _ _) (map_err _ _) => apply le_map_err
  | |- le_out (mapMi _ _ _) (mapMi _ _ _) => apply le_mapMi; intros ? ?
  | |- le_out (mapM _ _) (mapM _ _) => apply le_mapM; intros ?
  | |- le_out (forM_ _ _) (forM_ _ _) => apply le_forM; intros ?
  | |- le_out (fold_left _ _ _) (fold_left _ _ _) => apply le_fold; [| intros ? ? ? ?]
  | |- le_out (match ?d with _ => _ end) (match ?d with _ => _ end) => destruct d
  | |- _ => progress tac
  end.

(* ---------- any_conv ---------- *)
Lemma any_conv_mono : forall f f' v, (f <= f')%nat -> le_out (any_conv f v) (any_conv f' v).
Proof.
  induction f as [|f IH]; intros f' v Hle; [apply le_oof|].
  destruct f' as [|f']; [lia|]. assert (Hf : (f <= f')%nat) by lia.
  cbn [any_conv].
  le_solve_with ltac:(try (apply IH; exact Hf)).
Qed.

(* ---------- the mutual block ---------- *)
Section Mono.
Variable words : list (string * bool).
Variable pu : units -> string -> option fl.

Notation unser := (unser words pu).
Notation validate := (validate words pu).
Notation serialize := (serialize words pu).
Notation compat := (compat words pu).
Notation oneof_find := (oneof_find words pu).

Definition mono_at (f : nat) : Prop :=
  forall f', (f <= f')%nat ->
    (forall e s v, le_out (unser f e s v) (unser f' e s v)) /\
    (forall e s v, le_out (validate f e s v) (validate f' e s v)) /\
    (forall e ts ik fld inl v, le_out (oneof_find f e ts ik fld inl v) (oneof_find f' e ts ik fld inl v)) /\
    (forall e s v, le_out (serialize f e s v) (serialize f' e s v)) /\
    (forall e s v, le_out (compat f e s v) (compat f' e s v)).

Lemma ops_mono : forall f, mono_at f.
Proof.
  induction f as [|f IH]; intros f' Hle.
  { repeat split; intros; apply le_oof. }
  destruct f' as [|f']; [lia|]. assert (Hf : (f <= f')%nat) by lia.
  destruct (IH f' Hf) as (IHu & IHv & IHo & IHs & IHc).
  pose proof (fun v => any_conv_mono f f' v Hf) as IHa.
  assert (HU : forall e s v, le_out (unser (S f) e s v) (unser (S f') e s v)).
  { intros e s v. rewrite !(unser_S words pu). cbv beta iota zeta.
    le_solve_with ltac:(first [apply IHu | apply IHa]). }
  assert (HO : forall e ts ik fld inl v,
             le_out (oneof_find (S f) e ts ik fld inl v) (oneof_find (S f') e ts ik fld inl v)).
  { intros e ts ik fld inl v. rewrite !(oneof_find_S words pu). cbv beta iota zeta.
    le_solve_with ltac:(first [apply IHc]). }
  assert (HV : forall e s v, le_out (validate (S f) e s v) (validate (S f') e s v)).
  { intros e s v. rewrite !(validate_S words pu). cbv beta iota zeta.
    le_solve_with ltac:(first [apply IHv | apply IHa | apply IHo]). }
  assert (HS : forall e s v, le_out (serialize (S f) e s v) (serialize (S f') e s v)).
  { intros e s v. rewrite !(serialize_S words pu). cbv beta iota zeta.
    le_solve_with ltac:(first [apply IHs | apply IHv | apply IHa | apply IHo]). }
  assert (HC : forall e s v, le_out (compat (S f) e s v) (compat (S f') e s v)).
  { intros e s v. rewrite !(compat_S words pu). cbv beta iota zeta.
    le_solve_with ltac:(first [apply IHc | apply IHu | apply IHv | apply IHa | apply IHo]). }
  repeat split; assumption.
Qed.

Corollary unser_mono : forall f f' e s v r, (f <= f')%nat ->
  unser f e s v = r -> r <> OutOfFuel -> unser f' e s v = r.
Proof.
  intros f f' e s v r Hle H Hr. destruct (ops_mono f f' Hle) as (Hu & _).
  destruct (Hu e s v) as [E | E]; congruence.
Qed.
Corollary validate_mono : forall f f' e s v r, (f <= f')%nat ->
  validate f e s v = r -> r <> OutOfFuel -> validate f' e s v = r.
Proof.
  intros f f' e s v r Hle H Hr. destruct (ops_mono f f' Hle) as (_ & Hv & _).
  destruct (Hv e s v) as [E | E]; congruence.
Qed.
Corollary serialize_mono : forall f f' e s v r, (f <= f')%nat ->
  serialize f e s v = r -> r <> OutOfFuel -> serialize f' e s v = r.
Proof.
  intros f f' e s v r Hle H Hr. destruct (ops_mono f f' Hle) as (_ & _ & _ & Hs & _).
  destruct (Hs e s v) as [E | E]; congruence.
Qed.
Corollary compat_mono : forall f f' e s v r, (f <= f')%nat ->
  compat f e s v = r -> r <> OutOfFuel -> compat f' e s v = r.
Proof.
  intros f f' e s v r Hle H Hr. destruct (ops_mono f f' Hle) as (_ & _ & _ & _ & Hc).
  destruct (Hc e s v) as [E | E]; congruence.
Qed.

End Mono.
