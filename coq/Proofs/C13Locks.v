(* Proofs/C13Locks.v — "a failed call leaves no lock held" (C13), over ATP/Footprint.v.
   (a) per call: any sequence of primitive uses followed by a critical section abandoned at any
       point (Go's `defer mutex.Unlock()` still runs) is disciplined, hence holds no lock at its end;
   (b) per schedule: after any lock-respecting interleaving of complete disciplined traces the lock
       table is empty, so every later acquisition can proceed;
   (c) the explicit-unlock variant (Unlock after the body, skipped by a panic) is refuted. *)
From Coq Require Import List ZArith NArith Bool String Lia.
From Verif Require Import Base.Prelude Base.Str ATP.Msg ATP.Footprint Proofs.Footprint.
Import ListNotations.
Open Scope list_scope.

(* the locks one thread holds after a trace *)
Fixpoint held_after (held : list guard) (t : trace) : list guard :=
  match t with
  | [] => held
  | Acq g :: r => held_after (g :: held) r
  | Rel g :: r => held_after (drop g held) r
  | _ :: r => held_after held r
  end.

Lemma disciplined_releases_all : forall t held, disciplined held t = true -> held_after held t = [].
Proof.
  induction t as [|a t IH]; intros held H.
  - simpl in *. destruct held; [reflexivity|discriminate].
  - destruct a as [g|g|c|c]; simpl in *; apply andb_true_iff in H; destruct H as [_ H]; apply IH; exact H.
Qed.

(* the accesses of a critical section of guard g: reads / writes of cells guarded by g *)
Definition body_ok (g : guard) (body : trace) : Prop :=
  forall a, In a body -> exists c, (a = Rd c \/ a = Wr c) /\ guard_of c = Some g.

(* a critical section abandoned after k accesses by a panic (e.g. json decoding of an unparsable
   default inside GetDefaults): Go's `defer mutex.Unlock()` still runs *)
Definition guarded_defer (g : guard) (body : trace) (k : nat) : trace := (Acq g :: firstn k body ++ [Rel g])%list.
(* the same section with an explicit Unlock after the body instead of defer: a panic skips it *)
Definition guarded_explicit (g : guard) (body : trace) (k : nat) : trace :=
  if Nat.ltb k (List.length body) then Acq g :: firstn k body else (Acq g :: body ++ [Rel g])%list.

Lemma c13l_firstn_In : forall (A : Type) k (l : list A) x, In x (firstn k l) -> In x l.
Proof.
  intros A k. induction k as [|k IH]; intros l x H; simpl in H; [destruct H|].
  destruct l as [|y l]; [destruct H|]. simpl in H. destruct H as [H|H]; [left; exact H|right; apply IH; exact H].
Qed.

Lemma body_ok_firstn : forall g body k, body_ok g body -> body_ok g (firstn k body).
Proof. intros g body k H a Ha. apply H. eapply c13l_firstn_In. exact Ha. Qed.

(* inside the section (its guard held) the body's accesses are all allowed *)
Lemma body_ok_disciplined : forall g l held t2,
  body_ok g l -> holds g held = true -> disciplined held (l ++ t2) = disciplined held t2.
Proof.
  intros g l. induction l as [|a l IH]; intros held t2 Hb Hh; [reflexivity|].
  assert (Hl : body_ok g l) by (intros x Hx; apply Hb; right; exact Hx).
  destruct (Hb a (or_introl eq_refl)) as [c [[-> | ->] Hg]]; simpl; rewrite Hg, Hh; simpl; apply IH; assumption.
Qed.

Lemma guarded_defer_disciplined : forall g body k, body_ok g body -> disciplined [] (guarded_defer g body k) = true.
Proof.
  intros g body k Hb. unfold guarded_defer.
  change (disciplined [] (Acq g :: firstn k body ++ [Rel g]))
    with (negb (holds g []) && disciplined [g] (firstn k body ++ [Rel g])).
  rewrite (body_ok_disciplined g (firstn k body) [g] [Rel g]).
  - simpl. rewrite guard_eqb_refl. reflexivity.
  - apply body_ok_firstn. exact Hb.
  - simpl. rewrite guard_eqb_refl. reflexivity.
Qed.

(* the trace of a GetDefaults whose decode panics: fast-path read under the lock, then the fill
   section abandoned after its re-check read *)
Definition defaults_fail_trace (o : N) : trace :=
  (guarded true GDefaults [Rd (CDefaults o)] ++ guarded_defer GDefaults [Rd (CDefaults o); Wr (CDefaults o)] 1)%list.
Definition defaults_fail_trace_explicit (o : N) : trace :=
  (guarded true GDefaults [Rd (CDefaults o)] ++ guarded_explicit GDefaults [Rd (CDefaults o); Wr (CDefaults o)] 1)%list.

(* (a) per call: ANY sequence of primitive uses (FootprintOps' prims_* already stop at the first
   error) followed by ANY critical section abandoned at ANY point is disciplined, hence leaves no
   lock held *)
Theorem failed_call_disciplined : forall sh st ps g body k, body_ok g body ->
  disciplined [] (fst (run_prims sh true st ps) ++ guarded_defer g body k) = true.
Proof.
  intros sh st ps g body k Hb. apply disciplined_app.
  - apply footprint_prims.
  - apply guarded_defer_disciplined. exact Hb.
Qed.

Theorem failed_call_holds_no_lock : forall sh st ps g body k, body_ok g body ->
  held_after [] (fst (run_prims sh true st ps) ++ guarded_defer g body k) = [].
Proof. intros. apply disciplined_releases_all. apply failed_call_disciplined. assumption. Qed.

Theorem call_holds_no_lock : forall sh st ps, held_after [] (fst (run_prims sh true st ps)) = [].
Proof. intros. apply disciplined_releases_all. apply footprint_prims. Qed.

Lemma defaults_fail_disciplined : forall o, disciplined [] (defaults_fail_trace o) = true.
Proof. intros o. reflexivity. Qed.

(* (b) per schedule.  Generalised over the lock table: `agree H l` (Proofs/Footprint.v) says that
   thread i holds g in its own book-keeping H i exactly when the table says so. *)
Lemma no_lock_left_gen : forall s l H,
  agree H l -> sched_lock_ok l s = true -> (forall i, disciplined (H i) (proj i s) = true) -> run_locks l s = [].
Proof.
  induction s as [|[k a] s IH]; intros l H Hag Hlk Hd.
  - unfold run_locks; simpl. destruct l as [|[g i] r]; [reflexivity|]. exfalso.
    pose proof (Hd i) as Hi. unfold proj in Hi; simpl in Hi.
    pose proof (Hag i g) as Ha. destruct (H i) as [|x xs]; [|discriminate].
    unfold holds_by in Ha; simpl in Ha. rewrite guard_eqb_refl, N.eqb_refl in Ha. discriminate.
  - simpl in Hlk. apply andb_true_iff in Hlk. destruct Hlk as [Hev Hlk].
    pose proof (Hd k) as Hk. rewrite proj_cons_same in Hk. simpl in Hk.
    change (run_locks l ((k, a) :: s)) with (run_locks (ev_locks l (k, a)) s).
    destruct a as [g|g|c|c]; apply andb_true_iff in Hk; destruct Hk as [Hka Hkr].
    + apply (IH _ (upd H k (g :: H k))); [| exact Hlk |].
      * intros i g2. unfold upd, ev_locks, holds_by; simpl.
        destruct (N.eqb i k) eqn:Eik.
        -- apply N.eqb_eq in Eik. subst i. unfold holds; simpl. destruct (guard_eqb g2 g) eqn:E; simpl.
           ++ rewrite N.eqb_refl. reflexivity.
           ++ apply (Hag k g2).
        -- destruct (guard_eqb g2 g) eqn:E.
           ++ apply guard_eqb_eq in E. subst g2. rewrite Eik.
              unfold ev_lock_ok in Hev; simpl in Hev. pose proof (Hag i g) as Hi. unfold holds_by in Hi.
              destruct (holder g l); [discriminate|]. exact Hi.
           ++ apply (Hag i g2).
      * intros i. unfold upd. destruct (N.eqb i k) eqn:Eik.
        -- apply N.eqb_eq in Eik. subst i. exact Hkr.
        -- apply N.eqb_neq in Eik. pose proof (Hd i) as Hi. rewrite proj_cons_other in Hi by congruence. exact Hi.
    + apply (IH _ (upd H k (drop g (H k)))); [| exact Hlk |].
      * intros i g2. unfold upd, ev_locks, holds_by; simpl.
        unfold ev_lock_ok in Hev; simpl in Hev. apply holds_by_holder in Hev.
        destruct (guard_eqb g2 g) eqn:E.
        -- apply guard_eqb_eq in E. subst g2. rewrite holder_unlock_same.
           destruct (N.eqb i k) eqn:Eik.
           ++ rewrite holds_drop, guard_eqb_refl. reflexivity.
           ++ pose proof (Hag i g) as Hi. unfold holds_by in Hi. rewrite Hev in Hi. rewrite Eik in Hi. exact Hi.
        -- apply guard_eqb_neq in E. rewrite holder_unlock_other by assumption.
           destruct (N.eqb i k) eqn:Eik.
           ++ apply N.eqb_eq in Eik. subst i. rewrite holds_drop.
              assert (E' : guard_eqb g g2 = false) by (apply guard_eqb_neq; congruence). rewrite E'. simpl. apply (Hag k g2).
           ++ apply (Hag i g2).
      * intros i. unfold upd. destruct (N.eqb i k) eqn:Eik.
        -- apply N.eqb_eq in Eik. subst i. exact Hkr.
        -- apply N.eqb_neq in Eik. pose proof (Hd i) as Hi. rewrite proj_cons_other in Hi by congruence. exact Hi.
    + apply (IH _ H); [exact Hag | exact Hlk |].
      intros i. destruct (N.eq_dec i k) as [->|Hne].
      * exact Hkr.
      * pose proof (Hd i) as Hi. rewrite proj_cons_other in Hi by congruence. exact Hi.
    + apply (IH _ H); [exact Hag | exact Hlk |].
      intros i. destruct (N.eq_dec i k) as [->|Hne].
      * exact Hkr.
      * pose proof (Hd i) as Hi. rewrite proj_cons_other in Hi by congruence. exact Hi.
Qed.

(* after ANY interleaving (any number of threads) of complete disciplined traces that respects the
   lock semantics, NO lock is held: every later acquisition by anybody can proceed *)
Theorem no_lock_left : forall s,
  sched_lock_ok [] s = true -> (forall i, disciplined [] (proj i s) = true) -> run_locks [] s = [].
Proof.
  intros s Hlk Hd. apply (no_lock_left_gen s [] (fun _ => [])); [|exact Hlk|exact Hd].
  intros i g. reflexivity.
Qed.

Corollary later_acquire_possible : forall s g,
  sched_lock_ok [] s = true -> (forall i, disciplined [] (proj i s) = true) -> holder g (run_locks [] s) = None.
Proof. intros s g Hlk Hd. rewrite (no_lock_left s Hlk Hd). reflexivity. Qed.

(* (c) the explicit-unlock discipline is refuted *)
Theorem explicit_unlock_refuted :
  held_after [] (defaults_fail_trace_explicit 0) = [GDefaults] /\
  disciplined [] (defaults_fail_trace_explicit 0) = false /\
  (* thread 1's failing GetDefaults on object 0, then thread 2's GetDefaults on ANOTHER object 1 can never start *)
  sched_lock_ok [] (map (pair 1%N) (defaults_fail_trace_explicit 0) ++ [(2%N, Acq GDefaults)]) = false /\
  (* with defer it can *)
  sched_lock_ok [] (map (pair 1%N) (defaults_fail_trace 0) ++
                    map (pair 2%N) (fst (run_prim (mkShape (fun _ => true) (fun _ => true)) true cs_empty (PDefaults 1)))) = true.
Proof. repeat split; reflexivity. Qed.
