(* Proofs/XMonoT.v — fuel monotonicity of the struct-mapped operations of Schema/XOps.v (the analogue of
   Proofs/MonoEq.v on top of Proofs/XOpsEq.v): more fuel never changes a result that was not OutOfFuel.
   With the information order  le_out r r' := r = OutOfFuel \/ r = r'  of MonoEq.v. *)
From Coq Require Import Lia.
From Verif Require Import Base.Prelude Base.Str Base.Float Base.GoVal Base.XReflect
  Schema.Regex Schema.Units Schema.Syntax Schema.Ops Schema.XSyntax Schema.XOps
  Proofs.OpsEq Proofs.MonoEq Proofs.XOpsEq.

(* ---------- applySubObjectDefaultValues ---------- *)
Lemma xsub_defaults_mono : forall f f' e pid p r, (f <= f')%nat ->
  le_out (xsub_defaults f e pid p r) (xsub_defaults f' e pid p r).
Proof.
  induction f as [|f IH]; intros f' e pid p r Hle; [apply le_oof|].
  destruct f' as [|f']; [lia|]. assert (Hf : (f <= f')%nat) by lia.
  cbn [xsub_defaults]. cbv beta iota zeta.
  le_solve_with ltac:(try (apply IH; exact Hf)).
Qed.

Section XMonoT.
Variable words : list (string * bool).
Variable pu : units -> string -> option fl.

Notation xunser := (xunser words pu).
Notation xvalidate := (xvalidate words pu).
Notation xserialize := (xserialize words pu).
Notation xcompat := (xcompat words pu).
Notation xoneof_find := (xoneof_find words pu).

Definition xmono_at (f : nat) : Prop :=
  forall f', (f <= f')%nat ->
    (forall e s v, le_out (xunser f e s v) (xunser f' e s v)) /\
    (forall e s v, le_out (xvalidate f e s v) (xvalidate f' e s v)) /\
    (forall e ts ik fld inl v, le_out (xoneof_find f e ts ik fld inl v) (xoneof_find f' e ts ik fld inl v)) /\
    (forall e s v, le_out (xserialize f e s v) (xserialize f' e s v)) /\
    (forall e s v, le_out (xcompat f e s v) (xcompat f' e s v)).

Lemma xops_mono : forall f, xmono_at f.
Proof.
  induction f as [|f IH]; intros f' Hle.
  { repeat split; intros; apply le_oof. }
  destruct f' as [|f']; [lia|]. assert (Hf : (f <= f')%nat) by lia.
  destruct (IH f' Hf) as (IHu & IHv & IHo & IHs & IHc).
  pose proof (fun v => any_conv_mono f f' v Hf) as IHa.
  pose proof (fun e pid p r => xsub_defaults_mono f f' e pid p r Hf) as IHd.
  assert (HU : forall e s v, le_out (xunser (S f) e s v) (xunser (S f') e s v)).
  { intros e s v. rewrite !(xunser_S words pu). cbv beta iota zeta.
    le_solve_with ltac:(first [apply IHu | apply IHa | apply IHd]). }
  assert (HO : forall e ts ik fld inl v,
             le_out (xoneof_find (S f) e ts ik fld inl v) (xoneof_find (S f') e ts ik fld inl v)).
  { intros e ts ik fld inl v. rewrite !(xoneof_find_S words pu). cbv beta iota zeta.
    le_solve_with ltac:(first [apply IHc]). }
  assert (HV : forall e s v, le_out (xvalidate (S f) e s v) (xvalidate (S f') e s v)).
  { intros e s v. rewrite !(xvalidate_S words pu). cbv beta iota zeta.
    le_solve_with ltac:(first [apply IHv | apply IHa | apply IHo]). }
  assert (HS : forall e s v, le_out (xserialize (S f) e s v) (xserialize (S f') e s v)).
  { intros e s v. rewrite !(xserialize_S words pu). cbv beta iota zeta.
    le_solve_with ltac:(first [apply IHs | apply IHv | apply IHa | apply IHo]). }
  assert (HC : forall e s v, le_out (xcompat (S f) e s v) (xcompat (S f') e s v)).
  { intros e s v. rewrite !(xcompat_S words pu). cbv beta iota zeta.
    le_solve_with ltac:(first [apply IHc | apply IHu | apply IHv | apply IHa | apply IHo]). }
  repeat split; assumption.
Qed.

Corollary xunser_mono : forall f f' e s v r, (f <= f')%nat ->
  xunser f e s v = r -> r <> OutOfFuel -> xunser f' e s v = r.
Proof.
  intros f f' e s v r Hle H Hr. destruct (xops_mono f f' Hle) as (Hu & _).
  destruct (Hu e s v) as [E | E]; congruence.
Qed.
Corollary xvalidate_mono : forall f f' e s v r, (f <= f')%nat ->
  xvalidate f e s v = r -> r <> OutOfFuel -> xvalidate f' e s v = r.
Proof.
  intros f f' e s v r Hle H Hr. destruct (xops_mono f f' Hle) as (_ & Hv & _).
  destruct (Hv e s v) as [E | E]; congruence.
Qed.
Corollary xserialize_mono : forall f f' e s v r, (f <= f')%nat ->
  xserialize f e s v = r -> r <> OutOfFuel -> xserialize f' e s v = r.
Proof.
  intros f f' e s v r Hle H Hr. destruct (xops_mono f f' Hle) as (_ & _ & _ & Hs & _).
  destruct (Hs e s v) as [E | E]; congruence.
Qed.
Corollary xcompat_mono : forall f f' e s v r, (f <= f')%nat ->
  xcompat f e s v = r -> r <> OutOfFuel -> xcompat f' e s v = r.
Proof.
  intros f f' e s v r Hle H Hr. destruct (xops_mono f f' Hle) as (_ & _ & _ & _ & Hc).
  destruct (Hc e s v) as [E | E]; congruence.
Qed.

(* the four operations together: the statement of C04_struct_fuel_monotone *)
Theorem x_fuel_monotone : forall f f' e s v, (f <= f')%nat ->
  (forall r, xunser f e s v = r -> r <> OutOfFuel -> xunser f' e s v = r) /\
  (forall r, xvalidate f e s v = r -> r <> OutOfFuel -> xvalidate f' e s v = r) /\
  (forall r, xserialize f e s v = r -> r <> OutOfFuel -> xserialize f' e s v = r) /\
  (forall r, xcompat f e s v = r -> r <> OutOfFuel -> xcompat f' e s v = r).
Proof.
  intros f f' e s v Hle. repeat split; intros r H Hr.
  - eapply xunser_mono; eauto.
  - eapply xvalidate_mono; eauto.
  - eapply xserialize_mono; eauto.
  - eapply xcompat_mono; eauto.
Qed.

End XMonoT.
