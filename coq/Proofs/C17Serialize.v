(* Proofs/C17Serialize.v — C17 for Serialize, the third entry point.
   Serialize of a list or a map runs Validate of the same schema on the value first, so every
   fault Validate reports there (Proofs/C17OneOfV.v) is reported by Serialize with the same
   path; objects serialize property by property (property name in front), one-ofs hand the value
   to the member WITHOUT a marker segment (unlike Validate), references and scopes add nothing.
   Paths are compared after strip_markers because the list / map step goes through Validate. *)
From Coq Require Import Lia.
From Verif Require Import Base.Prelude Base.Str Base.Float Base.GoVal
  Schema.Regex Schema.Units Schema.Syntax Schema.Ops Proofs.C02Containers Proofs.C17 Proofs.C17Object
  Proofs.C17ObjectU Proofs.C17Compat Proofs.C17OneOfV Proofs.C17Any.
Open Scope Z_scope.
Open Scope list_scope.

Lemma mapM_first_err {A B} (g : A -> outcome B) x er l2 : forall l1,
  Forall (fun y => exists n, g y = Ok n) l1 -> g x = Err er -> mapM g (l1 ++ x :: l2) = Err er.
Proof.
  induction l1 as [|a l1 IH]; intros Hok Hx; cbn [app mapM].
  - rewrite Hx. reflexivity.
  - inversion Hok as [|a' l' [n Ha] Hrest]; subst. rewrite Ha. cbn [bind]. rewrite (IH Hrest Hx). reflexivity.
Qed.

Section WithTables.
Variable words : list (string * bool).
Variable pu : units -> string -> option fl.
Notation validate := (validate words pu).
Notation serialize := (serialize words pu).
Notation oneof_find := (oneof_find words pu).
Notation compat := (compat words pu).

(* ---------- one-step unfoldings of serialize (by conversion) ---------- *)
Lemma serialize_list_eq f e it mn mx v :
  serialize (S f) e (SList it mn mx) v =
  (_ <- validate f e (SList it mn mx) v ;;
   match v with
   | VSlice _ _ l =>
       ys <- mapMi (fun i x => seg (idx_seg i) (serialize f e it x)) 0 l ;; Ok (VSlice t_any_slice false ys)
   | _ => Err (cerr ERepr)
   end).
Proof. reflexivity. Qed.

Lemma serialize_map_eq f e ks vs mn mx v :
  serialize (S f) e (SMap ks vs mn mx) v =
  (_ <- validate f e (SMap ks vs mn mx) v ;;
   match v with
   | VMap _ _ kvs =>
       r <- fold_left (fun acc kv =>
              a <- acc ;;
              k' <- seg (mkey_seg (fst kv)) (serialize f e ks (fst kv)) ;;
              v' <- seg (mval_seg (fst kv)) (serialize f e vs (snd kv)) ;;
              Ok (map_set k' v' a)) kvs (Ok []) ;;
       Ok (VMap t_any_map false r)
   | _ => Err (cerr ERepr)
   end).
Proof. reflexivity. Qed.

Definition sprop_step f e (props : list (string * property)) (kv : string * gval) : outcome (string * gval) :=
  match alookup (fst kv) props with
  | Some p => x <- seg (fst kv) (serialize f e (p_type p) (snd kv)) ;; Ok (fst kv, x)
  | None => Err (cerr EKey)
  end.

Lemma serialize_object_eq f e id un props v :
  serialize (S f) e (SObject id un props) v =
  match is_str_any_map v with
  | Some kvs =>
      let r := raw_of_entries kvs in
      _ <- check_rules props (fun k => amem k r) ;;
      out <- mapM (sprop_step f e props) r ;;
      Ok (raw_to_val out)
  | None => Err (cerr ERepr)
  end.
Proof. reflexivity. Qed.

Lemma serialize_object_unfold f e id un props r :
  serialize (S f) e (SObject id un props) (raw_to_val r) =
  (_ <- check_rules props (fun k => amem k r) ;;
   out <- mapM (sprop_step f e props) r ;; Ok (raw_to_val out)).
Proof. rewrite serialize_object_eq, raw_to_val_entries. cbv beta iota zeta. rewrite raw_of_entries_map. reflexivity. Qed.

Lemma serialize_oneof_eq f e types ik field inlined v :
  serialize (S f) e (SOneOf types ik field inlined) v =
  (km <- oneof_find f e types ik field inlined v ;;
   let '(key, member, data') := km in
   x <- serialize f e member data' ;;
   match is_str_any_map x with
   | Some xs =>
       match smap_get field xs with
       | Some _ => Ok x
       | None => Ok (VMap t_str_map false
                       (map_set (vstr field) (match key with KI z => vi64 z | KS s0 => vstr s0 end) xs))
       end
   | None => Panic "one-of member serialized to a non-map"
   end).
Proof. reflexivity. Qed.

Lemma serialize_ref_eq f e id ns d v :
  serialize (S f) e (SRef id ns d) v =
  match resolve e id ns with Some (o, e') => serialize f e' o v | None => Panic "unlinked reference" end.
Proof. reflexivity. Qed.

Lemma serialize_scope_eq f e objs root v :
  serialize (S f) e (SScope objs root) v =
  match alookup root objs with Some o => serialize f (env_enter e objs) o v | None => Panic "root object not found" end.
Proof. reflexivity. Qed.

(* ---------- leaves ---------- *)
Lemma leaf_serialize_outcome s : is_leaf s -> forall f e v,
  (exists w, serialize (S f) e s v = Ok w) \/ (exists c, serialize (S f) e s v = Err (cerr c)).
Proof.
  intros Hl f e v.
  destruct s as [mn mx u | mn mx u | mn mx pat | | | | vals u | named vals | it mn mx | ks vs mn mx
                 | id un props | types ik field inl | id ns d | objs root]; cbn [is_leaf] in Hl; try contradiction.
  - change (serialize (S f) e (SInt mn mx u) v) with (int_ser mn mx v).
    unfold int_ser, int_bounds; destruct_matches; ((left; eexists; reflexivity) || (right; eexists; reflexivity)).
  - change (serialize (S f) e (SFloat mn mx u) v) with (float_ser mn mx v).
    unfold float_ser, float_bounds; destruct_matches; ((left; eexists; reflexivity) || (right; eexists; reflexivity)).
  - change (serialize (S f) e (SString mn mx pat) v) with (string_ser mn mx pat v).
    unfold string_ser, string_check; cbv zeta; destruct_matches; ((left; eexists; reflexivity) || (right; eexists; reflexivity)).
  - change (serialize (S f) e SBool v) with (bool_ser v).
    unfold bool_ser; destruct_matches; ((left; eexists; reflexivity) || (right; eexists; reflexivity)).
  - change (serialize (S f) e SPattern v) with (pattern_ser v).
    unfold pattern_ser; destruct_matches; ((left; eexists; reflexivity) || (right; eexists; reflexivity)).
  - change (serialize (S f) e (SEnumInt vals u) v) with (enum_int_ser vals v).
    unfold enum_int_ser; destruct_matches; ((left; eexists; reflexivity) || (right; eexists; reflexivity)).
  - change (serialize (S f) e (SEnumStr named vals) v) with (enum_str_ser vals v).
    unfold enum_str_ser; destruct_matches; ((left; eexists; reflexivity) || (right; eexists; reflexivity)).
Qed.

(* ---------- lists and maps: Validate runs first ---------- *)
Lemma serialize_list_via_validate f e it mn mx v er :
  validate f e (SList it mn mx) v = Err er -> serialize (S f) e (SList it mn mx) v = Err er.
Proof. intro H. rewrite serialize_list_eq, H. reflexivity. Qed.

Lemma serialize_map_via_validate f e ks vs mn mx v er :
  validate f e (SMap ks vs mn mx) v = Err er -> serialize (S f) e (SMap ks vs mn mx) v = Err er.
Proof. intro H. rewrite serialize_map_eq, H. reflexivity. Qed.

(* ---------- objects ---------- *)
Definition sprop_ok f e (props : list (string * property)) (kv : string * gval) : Prop :=
  exists q w, alookup (fst kv) props = Some q /\ serialize f e (p_type q) (snd kv) = Ok w.

Lemma sprop_ok_step f e props kv : sprop_ok f e props kv -> exists n, sprop_step f e props kv = Ok n.
Proof. intros (q & w & Hq & Hw). unfold sprop_step. rewrite Hq, Hw. eexists. reflexivity. Qed.

Lemma serialize_object_prop_error f e id un props r1 name x r2 p er :
  check_rules props (fun k => amem k (r1 ++ (name, x) :: r2)) = Ok tt ->
  Forall (sprop_ok f e props) r1 ->
  alookup name props = Some p -> serialize f e (p_type p) x = Err er ->
  serialize (S f) e (SObject id un props) (raw_to_val (r1 ++ (name, x) :: r2)) = Err (add_seg name er).
Proof.
  intros Hr Hok Hp Hx. rewrite serialize_object_unfold, Hr. cbn [bind].
  rewrite (mapM_first_err (sprop_step f e props) (name, x) (add_seg name er) r2 r1).
  - reflexivity.
  - eapply Forall_impl; [|exact Hok]. intros kv H. apply sprop_ok_step. exact H.
  - unfold sprop_step. cbn [fst snd]. rewrite Hp, Hx. reflexivity.
Qed.

Lemma serialize_object_extra_key f e id un props r1 name x r2 :
  check_rules props (fun k => amem k (r1 ++ (name, x) :: r2)) = Ok tt ->
  Forall (sprop_ok f e props) r1 ->
  alookup name props = None ->
  serialize (S f) e (SObject id un props) (raw_to_val (r1 ++ (name, x) :: r2)) = Err (cerr EKey).
Proof.
  intros Hr Hok Hp. rewrite serialize_object_unfold, Hr. cbn [bind].
  rewrite (mapM_first_err (sprop_step f e props) (name, x) (cerr EKey) r2 r1).
  - reflexivity.
  - eapply Forall_impl; [|exact Hok]. intros kv H. apply sprop_ok_step. exact H.
  - unfold sprop_step. cbn [fst snd]. rewrite Hp. reflexivity.
Qed.

Lemma serialize_object_rule f e id un ps1 name p ps2 r :
  Forall (fun np => check_prop_rules (fun k => amem k r) (fst np) (snd np) = Ok tt) ps1 ->
  check_prop_rules (fun k => amem k r) name p <> Ok tt ->
  serialize (S f) e (SObject id un (ps1 ++ (name, p) :: ps2)) (raw_to_val r) = Err (cerr_at [name] EPresence).
Proof.
  intros Hok Hbad. rewrite serialize_object_unfold, (check_rules_single _ ps1 name p ps2 Hok Hbad). reflexivity.
Qed.

(* ---------- one-ofs: no marker on the Serialize path ---------- *)
Lemma serialize_oneof_sel_error f e types ik field inlined v er :
  oneof_sel types ik field inlined v = Err er ->
  serialize (S (S f)) e (SOneOf types ik field inlined) v = Err er.
Proof. intro H. rewrite serialize_oneof_eq, (oneof_find_eq words pu), H. reflexivity. Qed.

Lemma serialize_oneof_precheck_error f e types ik field inlined v key member clone p c :
  oneof_sel types ik field inlined v = Ok (key, member, clone) ->
  compat f e member clone = Err (mkErr true p c) ->
  serialize (S (S f)) e (SOneOf types ik field inlined) v = Err (mkErr true p c).
Proof.
  intros H Hc. rewrite serialize_oneof_eq, (oneof_find_eq words pu), H. cbn [bind]. rewrite Hc. reflexivity.
Qed.

Lemma serialize_oneof_member_error f e types ik field inlined v key member clone er :
  oneof_sel types ik field inlined v = Ok (key, member, clone) ->
  compat f e member clone = Ok tt ->
  serialize (S f) e member clone = Err er ->
  serialize (S (S f)) e (SOneOf types ik field inlined) v = Err er.
Proof.
  intros H Hc Hx. rewrite serialize_oneof_eq, (oneof_find_eq words pu), H. cbn [bind]. rewrite Hc.
  cbn [rewrap_path map_err bind]. rewrite Hx. reflexivity.
Qed.

(* ---------- a single fault under Serialize ---------- *)
Inductive fault_s : env -> nat -> schema -> gval -> list string -> Prop :=
| SF_leaf : forall e f s v, is_leaf s -> (forall w, serialize (S f) e s v <> Ok w) -> fault_s e (S f) s v []
| SF_list : forall e f it mn mx v p,
    fault_vm words pu e f (SList it mn mx) v p -> fault_s e (S f) (SList it mn mx) v p
| SF_map : forall e f ks vs mn mx v p,
    fault_vm words pu e f (SMap ks vs mn mx) v p -> fault_s e (S f) (SMap ks vs mn mx) v p
| SF_object_type : forall e f id un props v, is_str_any_map v = None -> fault_s e (S f) (SObject id un props) v []
| SF_extra_key : forall e f id un props r1 name x r2,
    check_rules props (fun k => amem k (r1 ++ (name, x) :: r2)) = Ok tt ->
    Forall (sprop_ok f e props) r1 -> Forall (sprop_ok f e props) r2 ->
    alookup name props = None ->
    fault_s e (S f) (SObject id un props) (raw_to_val (r1 ++ (name, x) :: r2)) []
| SF_rule : forall e f id un ps1 name p ps2 r,
    Forall (fun np => check_prop_rules (fun k => amem k r) (fst np) (snd np) = Ok tt) ps1 ->
    Forall (fun np => check_prop_rules (fun k => amem k r) (fst np) (snd np) = Ok tt) ps2 ->
    check_prop_rules (fun k => amem k r) name p <> Ok tt ->
    fault_s e (S f) (SObject id un (ps1 ++ (name, p) :: ps2)) (raw_to_val r) [name]
| SF_prop : forall e f id un props r1 name x r2 p path,
    check_rules props (fun k => amem k (r1 ++ (name, x) :: r2)) = Ok tt ->
    Forall (sprop_ok f e props) r1 -> Forall (sprop_ok f e props) r2 ->
    alookup name props = Some p ->
    fault_s e f (p_type p) x path ->
    fault_s e (S f) (SObject id un props) (raw_to_val (r1 ++ (name, x) :: r2)) (name :: path)
| SF_oneof_sel : forall e f types ik field inlined v er,
    oneof_sel types ik field inlined v = Err er -> fault_s e (S (S f)) (SOneOf types ik field inlined) v []
| SF_oneof_precheck : forall e f types ik field inlined v key member clone p,
    oneof_sel types ik field inlined v = Ok (key, member, clone) ->
    fault_c words pu e f member clone p ->
    fault_s e (S (S f)) (SOneOf types ik field inlined) v p
| SF_oneof_member : forall e f types ik field inlined v key member clone p,
    oneof_sel types ik field inlined v = Ok (key, member, clone) ->
    compat f e member clone = Ok tt ->
    fault_s e (S f) member clone p ->
    fault_s e (S (S f)) (SOneOf types ik field inlined) v p
| SF_ref : forall e f id ns d o e' v p,
    resolve e id ns = Some (o, e') -> fault_s e' f o v p -> fault_s e (S f) (SRef id ns d) v p
| SF_scope : forall e f objs root o v p,
    alookup root objs = Some o -> fault_s (env_enter e objs) f o v p -> fault_s e (S f) (SScope objs root) v p
| SF_any : forall e f v p, fault_any f v p -> fault_s e (S f) SAny v p.

Theorem single_fault_path_serialize : forall e f s v p, fault_s e f s v p ->
  exists c q, serialize f e s v = Err (mkErr true q c) /\ strip_markers q = strip_markers p.
Proof.
  intros e f s v p H. induction H as
    [e f s v Hl Hno
     | e f it mn mx v p Hvm
     | e f ks vs mn mx v p Hvm
     | e f id un props v Hno
     | e f id un props r1 name x r2 Hr Hok1 Hok2 Hp
     | e f id un ps1 name p ps2 r Hok1 Hok2 Hbad
     | e f id un props r1 name x r2 p path Hr Hok1 Hok2 Hp Hx IH
     | e f types ik field inlined v er Hsel
     | e f types ik field inlined v key member clone p Hsel Hc
     | e f types ik field inlined v key member clone p Hsel Hc Hx IH
     | e f id ns d o e' v p Hres Hx IH
     | e f objs root o v p Hroot Hx IH
     | e f v p Hany].
  - destruct (leaf_serialize_outcome s Hl f e v) as [(w & Hw) | (c & Hc)]; [exfalso; exact (Hno w Hw)|].
    exists c, []. split; [exact Hc | reflexivity].
  - destruct (single_fault_path_validate_markers words pu e f _ v p Hvm) as (c & q & Hv & Hq).
    exists c, q. split; [|exact Hq]. apply serialize_list_via_validate. exact Hv.
  - destruct (single_fault_path_validate_markers words pu e f _ v p Hvm) as (c & q & Hv & Hq).
    exists c, q. split; [|exact Hq]. apply serialize_map_via_validate. exact Hv.
  - exists ERepr, []. split; [|reflexivity]. rewrite serialize_object_eq, Hno. reflexivity.
  - exists EKey, []. split; [|reflexivity].
    rewrite (serialize_object_extra_key f e id un props r1 name x r2 Hr Hok1 Hp). reflexivity.
  - exists EPresence, [name]. split; [|reflexivity].
    rewrite (serialize_object_rule f e id un ps1 name p ps2 r Hok1 Hbad). reflexivity.
  - destruct IH as (c & q & IH & Hq). exists c, (name :: q). split; [|apply strip_cons; exact Hq].
    rewrite (serialize_object_prop_error f e id un props r1 name x r2 p _ Hr Hok1 Hp IH). reflexivity.
  - destruct (oneof_sel_err types ik field inlined v er Hsel) as (c & ->). exists c, []. split; [|reflexivity].
    rewrite (serialize_oneof_sel_error f e types ik field inlined v _ Hsel). reflexivity.
  - destruct (single_fault_path_compat words pu e f member clone p Hc) as (c & Hc'). exists c, p. split; [|reflexivity].
    exact (serialize_oneof_precheck_error f e types ik field inlined v key member clone p c Hsel Hc').
  - destruct IH as (c & q & IH & Hq). exists c, q. split; [|exact Hq].
    exact (serialize_oneof_member_error f e types ik field inlined v key member clone _ Hsel Hc IH).
  - destruct IH as (c & q & IH & Hq). exists c, q. split; [|exact Hq]. rewrite serialize_ref_eq, Hres. exact IH.
  - destruct IH as (c & q & IH & Hq). exists c, q. split; [|exact Hq]. rewrite serialize_scope_eq, Hroot. exact IH.
  - destruct (single_fault_path_any f v p Hany) as (c & Hc). exists c, p. split; [|reflexivity].
    rewrite (serialize_any_eq words pu). exact Hc.
Qed.

End WithTables.
