(* Proofs/ATPClientExamples.v — concrete sessions that satisfy the hypotheses of the C06 / C08 theorems (non-vacuity):
   the two-call serial session is a good session and its repaired schedule is a MAXIMAL execution; a session whose
   peer's first emission is replaced by EOF is a good session, and a maximal execution of it ends with the Execute
   failed and Close returned. *)
From Coq Require Import Lia.
From Verif Require Import Base.Prelude Base.Str ATP.Msg ATP.Client ATP.ClientPreFix Proofs.ATPClient Proofs.ATPClientWitness
  Proofs.ATPClientInv Proofs.ATPClientFinal.
Open Scope string_scope.

Lemma serial2_good : good_session serial2 /\ se_fault serial2 = None /\ se_wfail serial2 = None.
Proof.
  split; [|split; reflexivity]. split; [|split].
  - split; [|reflexivity]. unfold serial2. cbn. constructor; [intros [H|[]]; discriminate H|].
    constructor; [intros []|constructor].
  - intros c H. unfold serial2 in H. cbn in H. destruct H as [<-|[<-|[]]]; reflexivity.
  - exact I.
Qed.

Lemma repaired_ok_final :
  exists s, run (init serial2) repaired_schedule = Some s /\ final s /\ flight_ok s = true /\
            forallb (@caller_done unit) (callers s) = true /\ nloops s = 2%nat /\ wg s = 0%nat.
Proof.
  destruct repaired_final as [s|] eqn:E; [|vm_compute in E; discriminate].
  exists s. vm_compute in E. injection E as <-. split; [vm_compute; reflexivity|].
  split; [|repeat split; vm_compute; reflexivity].
  unfold final. intros l. destruct l as [i|i|k| | | |r].
  - destruct i as [|[|[|i]]]; reflexivity.
  - destruct i as [|[|[|i]]]; reflexivity.
  - reflexivity.
  - reflexivity.
  - reflexivity.
  - reflexivity.
  - cbn [step]. apply send_none_if_plan_empty. cbn. intros k q [H|[H|[]]]; injection H as _ <-; reflexivity.
Qed.

(* one Execute, Close, the peer's first emission is replaced by the end of the stream *)
Definition eof1 : session unit :=
  mkSession [mkCall "a" None None false tt] true [("a", [wd "a"])] (Some (0%nat, EvEOF)) None.

Definition eof1_schedule : list label :=
  [LCaller 0; LCaller 0; LCaller 0; LPeerAccept; LPeerSend "a"; LLoop 0; LLoop 0; LCaller 0;
   LCloser; LCloser; LCloser; LCloser; LPeerAccept].

Definition eof1_final : option (state unit) := Eval vm_compute in run (init eof1) eof1_schedule.

Lemma eof1_good : good_session eof1 /\ se_wfail eof1 = None /\ se_close eof1 = true.
Proof.
  split; [|split; reflexivity]. split; [|split].
  - split; [|reflexivity]. unfold eof1. cbn. constructor; [intros []|constructor].
  - intros c H. unfold eof1 in H. cbn in H. destruct H as [<-|[]]. reflexivity.
  - reflexivity.
Qed.

Lemma eof1_maximal :
  exists s c, run (init eof1) eof1_schedule = Some s /\ final s /\
              nth_error (callers s) 0 = Some c /\ c_pc c = CDone (RErr ErrStream) /\ closer s = KDone CloseOk /\ wg s = 0%nat.
Proof.
  destruct eof1_final as [s|] eqn:E; [|vm_compute in E; discriminate].
  exists s. vm_compute in E. injection E as <-. eexists. split; [vm_compute; reflexivity|].
  split; [|repeat split; vm_compute; reflexivity].
  unfold final. intros l. destruct l as [i|i|k| | | |r].
  - destruct i as [|[|i]]; reflexivity.
  - destruct i as [|[|i]]; reflexivity.
  - reflexivity.
  - reflexivity.
  - reflexivity.
  - reflexivity.
  - reflexivity.
Qed.
