(* Proofs/UnitsSweep.v — the string-level round trip on finite ranges, by computation.
   A finite domain: forallb ... = true by vm_compute, lifted with forallb_forall; the bound
   is part of every statement. *)
From Coq Require Import Lia ZArith List.
From Verif Require Import Base.Prelude Base.Str Schema.Regex Schema.Units.
Import ListNotations.
Open Scope Z_scope.

Definition rt_ok (u : units) (n : Z) : bool :=
  match parse_units_int u (format_short_int u n), parse_units_int u (format_long_int u n) with
  | Some a, Some b => (a =? n) && (b =? n)
  | _, _ => false
  end.

Definition zrange (lo : Z) (count : nat) : list Z := map (fun i => lo + Z.of_nat i) (seq 0 count).

Definition sweep (u : units) (lo : Z) (count : nat) : bool := forallb (rt_ok u) (zrange lo count).

Lemma in_zrange : forall lo count n, lo <= n < lo + Z.of_nat count -> In n (zrange lo count).
Proof.
  intros lo count n H. unfold zrange. apply in_map_iff. exists (Z.to_nat (n - lo)). split.
  - lia.
  - apply in_seq. lia.
Qed.

Lemma sweep_sound : forall u lo count,
  sweep u lo count = true ->
  forall n, lo <= n < lo + Z.of_nat count ->
    parse_units_int u (format_short_int u n) = Some n /\ parse_units_int u (format_long_int u n) = Some n.
Proof.
  intros u lo count Hs n Hn. unfold sweep in Hs. rewrite forallb_forall in Hs.
  specialize (Hs n (in_zrange _ _ _ Hn)). unfold rt_ok in Hs.
  destruct (parse_units_int u (format_short_int u n)) as [a|]; [|discriminate].
  destruct (parse_units_int u (format_long_int u n)) as [b|]; [|discriminate].
  apply andb_prop in Hs. destruct Hs as [Ha Hb].
  apply Z.eqb_eq in Ha. apply Z.eqb_eq in Hb. subst. split; reflexivity.
Qed.

Lemma sweep_all_sound : forall us lo count,
  forallb (fun u => sweep u lo count) us = true ->
  forall u n, In u us -> lo <= n < lo + Z.of_nat count ->
    parse_units_int u (format_short_int u n) = Some n /\ parse_units_int u (format_long_int u n) = Some n.
Proof.
  intros us lo count H u n Hu Hn. rewrite forallb_forall in H. eapply sweep_sound; eauto.
Qed.
