(* Proofs/C09Behaviour.v — the rebuilt schema behaves like the original: Unserialize on `erase s` (in the
   erased environment) returns exactly what Unserialize on s returns, for every input and every fuel.
   (`erase` is what rebuilding from a description yields, Proofs/C09Fixpoint.v.) *)
From Coq Require Import Lia.
From Verif Require Import Base.Prelude Base.Str Base.Float Base.GoVal
  Schema.Regex Schema.Units Schema.Syntax Schema.Ops Schema.Describe
  Proofs.DescribeBase Proofs.C09Describe.
Open Scope string_scope.

Definition erase_prop (np : string * property) : string * property :=
  match np with
  | (name, mkProp t d req rif rifn confl dflt ex _ dis reason) =>
      (name, mkProp (erase t) d req rif rifn confl dflt ex false dis reason)
  end.
Definition erase_tab (t : objtab) : objtab := map (fun io : string * schema => match io with (i, o) => (i, erase o) end) t.
Definition erase_env (e : env) : env :=
  mkEnv (erase_tab (e_self e)) (map (fun nt => (fst nt, erase_tab (snd nt))) (e_ext e)) (e_or e).

Lemma erase_object id un props : erase (SObject id un props) = SObject id un (map erase_prop props).
Proof. reflexivity. Qed.
Lemma erase_scope os root : erase (SScope os root) = SScope (erase_tab os) root.
Proof. reflexivity. Qed.

Lemma fold_left_ext {A B} (f g : A -> B -> A) l : (forall a x, f a x = g a x) -> forall a, fold_left f l a = fold_left g l a.
Proof. intros H. induction l as [|x t IH]; intros a; cbn; [reflexivity|]. rewrite H. apply IH. Qed.
Lemma fold_left_map {A B C} (f : A -> B -> A) (h : C -> B) l : forall a,
  fold_left f (map h l) a = fold_left (fun a x => f a (h x)) l a.
Proof. induction l as [|x t IH]; intros a; cbn; [reflexivity|]. apply IH. Qed.
Lemma fold_left_map_ext2 {A B C} (f : A -> B -> A) (g : A -> C -> A) (h : C -> B) l :
  forall a a', a = a' -> (forall a x, f a (h x) = g a x) -> fold_left f (map h l) a = fold_left g l a'.
Proof. intros a a' <- H. revert a. induction l as [|x t IH]; intros a; cbn; [reflexivity|]. rewrite H. apply IH. Qed.
Lemma bind_ext {A B} (o o' : outcome A) (k k' : A -> outcome B) :
  o = o' -> (forall a, k a = k' a) -> bind o k = bind o' k'.
Proof. intros -> H. destruct o'; cbn; auto. Qed.
Lemma mapMi_ext {A B} (f g : Z -> A -> outcome B) l : (forall i x, f i x = g i x) -> forall i, mapMi f i l = mapMi g i l.
Proof. intros H. induction l as [|x t IH]; intros i; cbn; [reflexivity|]. rewrite H. apply bind_ext; [reflexivity|]. intros. rewrite IH. reflexivity. Qed.
Lemma forM_map {A C} (f : A -> outcome unit) (h : C -> A) l : forM_ f (map h l) = forM_ (fun x => f (h x)) l.
Proof. induction l as [|x t IH]; cbn; [reflexivity|]. apply bind_ext; [reflexivity | intros; exact IH]. Qed.
Lemma forM_ext {A} (f g : A -> outcome unit) l : (forall x, f x = g x) -> forM_ f l = forM_ g l.
Proof. intros H. induction l as [|x t IH]; cbn; [reflexivity|]. rewrite H. apply bind_ext; [reflexivity | intros; exact IH]. Qed.

Lemma alookup_erase_props k props : alookup k (map erase_prop props) = option_map (fun p => snd (erase_prop (k, p))) (alookup k props).
Proof.
  induction props as [|[n p] t IH]; [reflexivity|]. destruct p. cbn. destruct (String.eqb k n); [reflexivity | exact IH].
Qed.
Lemma amem_erase_props k props : amem k (map erase_prop props) = amem k props.
Proof. unfold amem. rewrite alookup_erase_props. destruct (alookup k props); reflexivity. Qed.
Lemma alookup_erase_tab k t : alookup k (erase_tab t) = option_map erase (alookup k t).
Proof. induction t as [|[i o] tl IH]; [reflexivity|]. cbn. destruct (String.eqb k i); [reflexivity | exact IH]. Qed.

Lemma resolve_erase e id ns :
  resolve (erase_env e) id ns = option_map (fun oe => (erase (fst oe), erase_env (snd oe))) (resolve e id ns).
Proof.
  unfold resolve. destruct (String.eqb ns "").
  - cbn [e_self erase_env]. rewrite alookup_erase_tab. destruct (alookup id (e_self e)); reflexivity.
  - cbn [e_ext erase_env].
    assert (H : alookup ns (map (fun nt : string * objtab => (fst nt, erase_tab (snd nt))) (e_ext e))
                = option_map erase_tab (alookup ns (e_ext e))).
    { induction (e_ext e) as [|[n t] tl IH]; [reflexivity|]. cbn. destruct (String.eqb ns n); [reflexivity | exact IH]. }
    rewrite H. destruct (alookup ns (e_ext e)) as [tab|]; [|reflexivity]. cbn [option_map].
    rewrite alookup_erase_tab. destruct (alookup id tab); reflexivity.
Qed.

Lemma type_id_erase s : type_id_of (erase s) = type_id_of s.
Proof. destruct s; reflexivity. Qed.

Lemma rtype_erase : forall s, rtype (erase s) = rtype s.
Proof.
  apply (schema_ind' (fun s => rtype (erase s) = rtype s)); intros; cbn [erase rtype]; try reflexivity.
  - rewrite H. reflexivity.
  - rewrite H, H0. reflexivity.
Qed.

Lemma decode_default_erase o n p txt : decode_default o (snd (erase_prop (n, p))) txt = decode_default o p txt.
Proof. destruct p. unfold decode_default. cbn [erase_prop snd Syntax.p_type]. rewrite type_id_erase. reflexivity. Qed.

Lemma check_rules_erase props set : check_rules (map erase_prop props) set = check_rules props set.
Proof.
  unfold check_rules. rewrite forM_map. apply forM_ext. intros [n p]. destruct p. reflexivity.
Qed.

Lemma find_erase (P : okey -> bool) types :
  find (fun ks : okey * schema => P (fst ks)) (map (fun km : okey * schema => match km with (k, m) => (k, erase m) end) types)
  = option_map (fun km : okey * schema => (fst km, erase (snd km))) (find (fun ks => P (fst ks)) types).
Proof.
  induction types as [|[k m] t IH]; [reflexivity|]. cbn. destruct (P k); [reflexivity | exact IH].
Qed.

Section Behaviour.
Variable words : list (string * bool).
Variable pu : units -> string -> option fl.
Notation unser := (unser words pu).

Theorem unser_erase : forall f e s v, unser f (erase_env e) (erase s) v = unser f e s v.
Proof.
  induction f as [|f IH]; intros e s v; [reflexivity|].
  destruct s; try reflexivity.
  - (* list *)
    cbn [erase Ops.unser]. destruct v; try reflexivity.
    destruct (size_ok mn mx (zlen l)); [|reflexivity].
    rewrite rtype_erase. apply bind_ext; [|reflexivity].
    apply mapMi_ext. intros i x. rewrite IH. reflexivity.
  - (* map *)
    cbn [erase Ops.unser]. destruct v; try reflexivity.
    destruct (size_ok mn mx (zlen l)); [|reflexivity].
    rewrite !rtype_erase. apply bind_ext; [|reflexivity].
    apply fold_left_ext. intros a kv. apply bind_ext; [reflexivity|]. intros a0.
    rewrite IH. apply bind_ext; [reflexivity|]. intros k'. rewrite IH. reflexivity.
  - (* object *)
    rewrite erase_object. cbn [Ops.unser]. cbn [e_or erase_env].
    assert (Hshort : forall v0,
      match map erase_prop props with
      | [] => Err (cerr ERepr)
      | [(name, p)] =>
          x <- seg name (if p_disabled p then Err (cerr EDisabled) else unser f (erase_env e) (p_type p) v0) ;;
          _ <- check_rules (map erase_prop props) (fun k : string => String.eqb k name) ;;
          Ok (raw_to_val [(name, x)])
      | (name, p) :: _ :: _ => Err (cerr ERepr)
      end =
      match props with
      | [] => Err (cerr ERepr)
      | [(name, p)] =>
          x <- seg name (if p_disabled p then Err (cerr EDisabled) else unser f e (p_type p) v0) ;;
          _ <- check_rules props (fun k : string => String.eqb k name) ;;
          Ok (raw_to_val [(name, x)])
      | (name, p) :: _ :: _ => Err (cerr ERepr)
      end).
    { intros v0. destruct props as [|[n p] [|[n2 p2] t]].
      - reflexivity.
      - destruct p as [pt pd prq pri prin pcf pdf pex pem pdi prs]. cbn [map erase_prop].
        cbn [Syntax.p_disabled Syntax.p_type]. rewrite IH. reflexivity.
      - destruct p, p2. reflexivity. }
    destruct v; try apply Hshort.
    apply bind_ext.
    { apply fold_left_ext. intros a kv. apply bind_ext; [reflexivity|]. intros a0.
      destruct (fst kv); try reflexivity. match goal with |- match ?t with _ => _ end = _ => destruct t end; try reflexivity.
      rewrite amem_erase_props. reflexivity. }
    intros r0. cbn zeta.
    apply bind_ext.
    { apply fold_left_map_ext2.
      - f_equal. apply fold_left_map_ext2; [reflexivity|].
        intros a [n p]. pose proof (decode_default_erase (e_or e) n p) as Hd. destruct p.
        cbn [erase_prop fst snd Syntax.p_default] in *. destruct p_default; [rewrite Hd|]; reflexivity.
      - intros acc [n p]. destruct p.
        cbn [erase_prop fst snd Syntax.p_disabled Syntax.p_type]. apply bind_ext; [reflexivity|]. intros a.
        destruct (alookup n a); [|reflexivity]. rewrite IH. reflexivity. }
    intros r2. rewrite check_rules_erase. reflexivity.
  - (* one-of *)
    cbn [erase Ops.unser]. destruct v; try reflexivity.
    destruct (forallb _ l); [|reflexivity].
    destruct (smap_get field l); [|reflexivity].
    match goal with |- match ?k with _ => _ end = _ => destruct k as [key|]; [|reflexivity] end.
    rewrite (find_erase (fun k => okey_eqb k key)).
    destruct (find (fun ks : okey * schema => okey_eqb (fst ks) key) types) as [[k m]|]; [|reflexivity].
    cbn [option_map fst snd]. rewrite IH. reflexivity.
  - (* ref *)
    cbn [erase Ops.unser]. rewrite resolve_erase. destruct (resolve e id ns) as [[o e']|]; [|reflexivity].
    cbn [option_map fst snd]. apply IH.
  - (* scope *)
    rewrite erase_scope. cbn [Ops.unser]. rewrite alookup_erase_tab.
    destruct (alookup root objs) as [o|]; [|reflexivity]. cbn [option_map].
    change (env_enter (erase_env e) (erase_tab objs)) with (erase_env (env_enter e objs)). apply IH.
Qed.

(* the same in ANY environment (the namespaces applied to the rebuilt scope are the original ones) *)
Corollary unser_erase_schema : forall f e s v, unser f e (erase s) v = unser f e s v.
Proof. intros. rewrite <- (unser_erase f e (erase s)), erase_idem, unser_erase. reflexivity. Qed.
End Behaviour.
