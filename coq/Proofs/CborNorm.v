(* Proofs/CborNorm.v — data layer of C05 (ATP is transparent): Unserialize gives literally the
   same outcome on a decoded value `v` and on its CBOR re-encoding/decoding `cbor_norm n v`.

   Route: an inductive relation `neq v v'` ("equal up to the representation changes a CBOR
   round trip makes": integer width, float width, slice / map container type), such that
     (1) decodable v -> neq v (cbor_norm n v)              (cbor_norm_neq)
     (2) neq v v' -> every input mapper agrees on v, v'    (int_mapper_neq, ...)
     (3) neq v v' -> any_conv f v' = any_conv f v          (any_conv_neq)
     (4) neq v v' -> unser f e s v' = unser f e s v        (unser_neq; all 14 schema kinds)
   (4) is by induction on the fuel of `unser`, one lemma per schema kind.  No structural
   induction on values is needed: `neq` is inverted one level at a time. *)
From Coq Require Import Lia.
From Verif Require Import Base.Prelude Base.Str Base.Float Base.GoVal
  Schema.Regex Schema.Units Schema.Syntax Schema.Ops Schema.Cbor.
Open Scope Z_scope.
Open Scope list_scope.

(* ------------------------------------------------------------------------------------ *)
(* decodable: what a CBOR / JSON / YAML decoder into `any` can produce.                  *)
(* Map keys: any decodable value for map[any]any (CBOR, yaml.v2), plain strings for       *)
(* map[string]any (JSON, yaml.v3).  Key uniqueness is NOT required: the theorem holds     *)
(* without it, so the predicate is a superset of the well-formed decoder outputs.         *)
(* (Caveat on the MODEL, not on the proof: for a map[any]any holding two keys that differ  *)
(* only in integer width, e.g. int8(1) and int64(1), `cbor_norm` keeps both entries where  *)
(* a real CBOR decoder would see a duplicate key; no decoder produces such a map, and the  *)
(* interpreter's generator never does.  Restricting to maps whose keys are pairwise        *)
(* distinct under Ops.key_eqb removes the case; the theorem is unaffected.)                *)
(* ------------------------------------------------------------------------------------ *)
Inductive decodable : gval -> Prop :=
| dec_nil : decodable VNil
| dec_bool b : decodable (VBool TBool b)
| dec_int k z : ik_in k z = true -> decodable (VInt (TInt k) z)
| dec_f32 x : decodable (VFloat TF32 x)
| dec_f64 x : decodable (VFloat TF64 x)
| dec_str s : decodable (VStr TStr s)
| dec_slice b l : Forall decodable l -> decodable (VSlice t_any_slice b l)
| dec_amap b kvs :
    Forall (fun kv => decodable (fst kv) /\ decodable (snd kv)) kvs ->
    decodable (VMap t_any_map b kvs)
| dec_smap b kvs :
    Forall (fun kv => (exists s, fst kv = VStr TStr s) /\ decodable (snd kv)) kvs ->
    decodable (VMap t_str_map b kvs).

(* ------------------------------------------------------------------------------------ *)
(* the relation                                                                          *)
(* ------------------------------------------------------------------------------------ *)
(* an int64-typed value is in the int64 range (the only range fact the code depends on) *)
Definition int_ok (k : ikind) (z : Z) : Prop := k = I64 -> (z <=? max_i64) = true.
Definition is_ft (t : gtype) : Prop := t = TF32 \/ t = TF64.

Inductive neq : gval -> gval -> Prop :=
| neq_refl v : neq v v
| neq_int k k' z : int_ok k z -> int_ok k' z -> neq (VInt (TInt k) z) (VInt (TInt k') z)
| neq_float t t' x : is_ft t -> is_ft t' -> neq (VFloat t x) (VFloat t' x)
| neq_slice t t' b b' l l' :
    kind_of_type t = kind_of_type t' -> Forall2 neq l l' ->
    neq (VSlice t b l) (VSlice t' b' l')
| neq_map t t' b b' kvs kvs' :
    kind_of_type t = kind_of_type t' ->
    Forall2 (fun p q => neq (fst p) (fst q) /\ neq (snd p) (snd q)) kvs kvs' ->
    neq (VMap t b kvs) (VMap t' b' kvs').

Notation pneq := (fun p q : gval * gval => neq (fst p) (fst q) /\ neq (snd p) (snd q)).

Lemma Forall2_neq_refl : forall l, Forall2 neq l l.
Proof. induction l; constructor; [apply neq_refl | assumption]. Qed.

Lemma Forall2_pneq_refl : forall kvs, Forall2 pneq kvs kvs.
Proof. induction kvs; constructor; [split; apply neq_refl | assumption]. Qed.

(* ---------- (1) cbor_norm produces a related value ---------- *)
Lemma ik_in_int_ok : forall k z, ik_in k z = true -> int_ok k z.
Proof.
  intros k z H E. subst k. unfold ik_in in H. apply andb_prop in H. destruct H as [_ H].
  exact H.
Qed.

Lemma int_ok_u64 : forall z, int_ok U64 z.
Proof. intros z E; discriminate. Qed.

Lemma int_ok_neg : forall k z, (0 <=? z) = false -> int_ok k z.
Proof.
  intros k z H _. apply Z.leb_gt in H. apply Z.leb_le. unfold max_i64. lia.
Qed.

Lemma cbor_norm_neq : forall n v, decodable v -> neq v (cbor_norm n v).
Proof.
  induction n as [|n IH]; intros v Hd; [apply neq_refl|].
  destruct Hd; cbn [cbor_norm]; try apply neq_refl.
  - destruct (0 <=? z) eqn:Ez.
    + apply neq_int; [apply ik_in_int_ok; assumption | apply int_ok_u64].
    + apply neq_int; [apply ik_in_int_ok; assumption | apply int_ok_neg; assumption].
  - apply neq_float; [left | right]; reflexivity.
  - apply neq_slice; [reflexivity|].
    induction H; cbn [map]; constructor; [apply IH; assumption | assumption].
  - apply neq_map; [reflexivity|].
    induction H as [|kv t [Hk Hv] _ IHF]; cbn [map]; constructor; [|assumption].
    cbn [fst snd]. split; apply IH; assumption.
  - apply neq_map; [reflexivity|].
    induction H as [|kv t [[s Hk] Hv] _ IHF]; cbn [map]; constructor; [|assumption].
    cbn [fst snd]. split; [|apply IH; assumption].
    apply IH. rewrite Hk. apply dec_str.
Qed.

(* ---------- generic congruences ---------- *)
Lemma mapMi_congr {A B} (R : A -> A -> Prop) (g : Z -> A -> outcome B) l l' :
  Forall2 R l l' -> (forall i x x', R x x' -> g i x' = g i x) ->
  forall i, mapMi g i l' = mapMi g i l.
Proof.
  induction 1 as [|x y l l' Hxy _ IH]; intros Hg i; cbn [mapMi]; [reflexivity|].
  rewrite (Hg i x y Hxy). rewrite (IH Hg). reflexivity.
Qed.

Lemma fold_congr {A B} (R : A -> A -> Prop) (st : B -> A -> B) l l' :
  Forall2 R l l' -> (forall acc p q, R p q -> st acc q = st acc p) ->
  forall acc, fold_left st l' acc = fold_left st l acc.
Proof.
  induction 1 as [|x y l l' Hxy _ IH]; intros Hs acc; cbn [fold_left]; [reflexivity|].
  rewrite (Hs acc x y Hxy). apply IH. exact Hs.
Qed.

Lemma Forall2_zlen {A} (R : A -> A -> Prop) l l' : Forall2 R l l' -> zlen l' = zlen l.
Proof.
  intros H. unfold zlen. f_equal.
  induction H; cbn [List.length]; [reflexivity | f_equal; assumption].
Qed.

(* ---------- (2) the input mappers ---------- *)
Lemma neq_key_text : forall a b, neq a b -> key_text b = key_text a.
Proof. intros a b H. inversion H; subst; reflexivity. Qed.

Lemma int_mapper_neq : forall u v v', neq v v' -> int_mapper u v' = int_mapper u v.
Proof.
  intros u v v' H. inversion H as [ | | t t' x [Ht|Ht] [Ht'|Ht'] | | ]; subst; reflexivity.
Qed.

Lemma float_mapper_neq : forall pu u v v', neq v v' -> float_mapper pu u v' = float_mapper pu u v.
Proof.
  intros pu u v v' H. inversion H as [ | | t t' x [Ht|Ht] [Ht'|Ht'] | | ]; subst; reflexivity.
Qed.

Lemma string_mapper_neq : forall v v', neq v v' -> string_mapper v' = string_mapper v.
Proof.
  intros v v' H. inversion H as [ | | t t' x [Ht|Ht] [Ht'|Ht'] | | ]; subst; reflexivity.
Qed.

Lemma bool_unser_neq : forall words v v', neq v v' -> bool_unser words v' = bool_unser words v.
Proof.
  intros words v v' H. inversion H as [ | | t t' x [Ht|Ht] [Ht'|Ht'] | | ]; subst; reflexivity.
Qed.

(* the scalar schema kinds *)
Lemma int_unser_neq : forall mn mx u v v', neq v v' -> int_unser mn mx u v' = int_unser mn mx u v.
Proof. intros. unfold int_unser. rewrite (int_mapper_neq u v v') by assumption. reflexivity. Qed.

Lemma float_unser_neq : forall pu mn mx u v v', neq v v' ->
  float_unser pu mn mx u v' = float_unser pu mn mx u v.
Proof. intros. unfold float_unser. rewrite (float_mapper_neq pu u v v') by assumption. reflexivity. Qed.

Lemma string_unser_neq : forall mn mx pat v v', neq v v' ->
  string_unser mn mx pat v' = string_unser mn mx pat v.
Proof. intros. unfold string_unser. rewrite (string_mapper_neq v v') by assumption. reflexivity. Qed.

Lemma pattern_unser_neq : forall o v v', neq v v' -> pattern_unser o v' = pattern_unser o v.
Proof. intros. unfold pattern_unser. rewrite (string_mapper_neq v v') by assumption. reflexivity. Qed.

Lemma enum_int_unser_neq : forall vals u v v', neq v v' ->
  enum_int_unser vals u v' = enum_int_unser vals u v.
Proof. intros. unfold enum_int_unser. rewrite (int_mapper_neq u v v') by assumption. reflexivity. Qed.

Lemma enum_str_unser_neq : forall named vals v v', neq v v' ->
  enum_str_unser named vals v' = enum_str_unser named vals v.
Proof. intros. unfold enum_str_unser. rewrite (string_mapper_neq v v') by assumption. reflexivity. Qed.

(* ---------- (3) the any schema (checkAndConvert) ---------- *)
Lemma any_conv_int : forall f k z, int_ok k z ->
  any_conv (S f) (VInt (TInt k) z) = if z <=? max_i64 then Ok (vi64 z) else Err (cerr ERepr).
Proof.
  intros f k z H. destruct k; cbn [any_conv kind_of kind_of_type underlying int_mapper];
    try (destruct (z <=? max_i64); reflexivity).
  rewrite (H eq_refl). reflexivity.
Qed.

Lemma any_conv_float : forall f t x, is_ft t -> any_conv (S f) (VFloat t x) = Ok (vf64 x).
Proof. intros f t x [Ht|Ht]; subst; reflexivity. Qed.

Lemma any_conv_neq : forall f v v', neq v v' -> any_conv f v' = any_conv f v.
Proof.
  induction f as [|f IH]; intros v v' H; [reflexivity|].
  inversion H as [ | k k' z Hk Hk' | t t' x Ht Ht' | t t' b b' l l' Hkd Hl | t t' b b' kvs kvs' Hkd Hl ];
    subst.
  - reflexivity.
  - rewrite !any_conv_int by assumption. reflexivity.
  - rewrite !any_conv_float by assumption. reflexivity.
  - cbn [any_conv kind_of]. rewrite <- Hkd.
    destruct (kind_of_type t) as [ | | k | | | | | | | | | ]; try reflexivity.
    rewrite (mapMi_congr neq _ l l' Hl); [reflexivity|].
      intros i x x' Hx. rewrite (IH x x' Hx). reflexivity.
  - cbn [any_conv kind_of]. rewrite <- Hkd.
    destruct (kind_of_type t) as [ | | k | | | | | | | | | ]; try reflexivity.
    rewrite (fold_congr pneq _ kvs kvs' Hl); [reflexivity|].
      intros acc p q [Hpk Hpv].
      rewrite (IH _ _ Hpk), (IH _ _ Hpv).
      unfold mkey_seg. rewrite (neq_key_text _ _ Hpk). reflexivity.
Qed.

(* ------------------------------------------------------------------------------------ *)
(* association lists under construction (objects)                                        *)
(* ------------------------------------------------------------------------------------ *)
(* two raw maps with the same keys in the same order, values related by Q (key-indexed) *)
Definition skr (Q : string -> gval -> gval -> Prop) (a a' : raw) : Prop :=
  Forall2 (fun x y => fst x = fst y /\ Q (fst x) (snd x) (snd y)) a a'.

Lemma skr_impl (Q Q' : string -> gval -> gval -> Prop) a a' :
  (forall k x y, Q k x y -> Q' k x y) -> skr Q a a' -> skr Q' a a'.
Proof.
  intros HQ H. induction H as [|x y l l' [E Hxy] _ IH]; constructor; [|exact IH].
  split; [exact E | apply HQ; exact Hxy].
Qed.

Lemma skr_alookup Q a a' k : skr Q a a' ->
  match alookup k a, alookup k a' with
  | Some x, Some y => Q k x y
  | None, None => True
  | _, _ => False
  end.
Proof.
  intros H. induction H as [|[k1 v1] [k2 v2] l l' [E Hxy] _ IH]; cbn [alookup]; [exact I|].
  cbn [fst snd] in *. subst k2.
  destruct (String.eqb k k1) eqn:Ek; [|exact IH].
  apply String.eqb_eq in Ek. subst k1. exact Hxy.
Qed.

Lemma skr_amem Q a a' k : skr Q a a' -> amem k a' = amem k a.
Proof.
  intros H. unfold amem. pose proof (skr_alookup Q a a' k H) as L.
  destruct (alookup k a), (alookup k a'); try reflexivity; contradiction.
Qed.

Lemma skr_app Q a a' k x y : skr Q a a' -> Q k x y -> skr Q (a ++ [(k, x)]) (a' ++ [(k, y)]).
Proof.
  intros H Hq. apply Forall2_app; [exact H|]. constructor; [|constructor].
  split; [reflexivity | exact Hq].
Qed.

Lemma amem_In {A} k (l : list (string * A)) : amem k l = true -> In k (map fst l).
Proof.
  unfold amem. induction l as [|[k1 v1] t IH]; cbn [alookup map fst In]; [discriminate|].
  destruct (String.eqb k k1) eqn:Ek; intros H.
  - left. apply String.eqb_eq in Ek. symmetry; exact Ek.
  - right. apply IH. exact H.
Qed.

Lemma alookup_none_neq {A} k (l : list (string * A)) :
  alookup k l = None -> Forall (fun x => fst x <> k) l.
Proof.
  induction l as [|[k1 v1] t IH]; cbn [alookup]; intros H; constructor.
  - cbn [fst]. destruct (String.eqb k k1) eqn:Ek; [discriminate|].
    apply String.eqb_neq in Ek. intros E; apply Ek; symmetry; exact E.
  - apply IH. destruct (String.eqb k k1); [discriminate | exact H].
Qed.

(* outcomes carrying related raw maps; a failure is the same failure *)
Inductive orel (R : raw -> raw -> Prop) : outcome raw -> outcome raw -> Prop :=
| orel_ok a a' : R a a' -> orel R (Ok a) (Ok a')
| orel_fail o : is_ok o = false -> orel R o o.

(* stages 0/1: values related, keys among the declared property names *)
Definition Q0 (names : list string) (k : string) (x y : gval) : Prop := In k names /\ neq x y.
(* stage 2: values equal, or still pending (its property not yet visited) and related *)
Definition Q2 (pend : list string) (k : string) (x y : gval) : Prop :=
  x = y \/ (In k pend /\ neq x y).

Lemma Q2_nil a a' : skr (Q2 []) a a' -> a' = a.
Proof.
  intros H. induction H as [|[k1 v1] [k2 v2] l l' [E Hxy] _ IH]; [reflexivity|].
  cbn [fst snd] in *. subst k2. destruct Hxy as [E | [[] _]]. subst v2. f_equal. exact IH.
Qed.

Lemma Q2_skip k pend a a' :
  skr (Q2 (k :: pend)) a a' -> alookup k a = None -> skr (Q2 pend) a a'.
Proof.
  intros H Hn. apply alookup_none_neq in Hn.
  induction H as [|[k1 v1] [k2 v2] l l' [E Hxy] _ IH]; constructor.
  - cbn [fst snd] in *. split; [exact E|].
    destruct Hxy as [Hxy | [[Hin | Hin] Hxy]]; [left; exact Hxy | | right; split; assumption].
    inversion Hn as [|? ? Hne _]. cbn [fst] in Hne. exfalso; apply Hne; symmetry; exact Hin.
  - apply IH. inversion Hn; assumption.
Qed.

Lemma Q2_set k pend x a a' :
  skr (Q2 (k :: pend)) a a' ->
  skr (Q2 pend) (map (fun kv : string * gval => if String.eqb (fst kv) k then (k, x) else kv) a)
                (map (fun kv : string * gval => if String.eqb (fst kv) k then (k, x) else kv) a').
Proof.
  intros H. induction H as [|[k1 v1] [k2 v2] l l' [E Hxy] _ IH]; cbn [map]; constructor; [|exact IH].
  cbn [fst snd] in *. subst k2.
  destruct (String.eqb k1 k) eqn:Ek; cbn [fst snd].
  - split; [reflexivity | left; reflexivity].
  - split; [reflexivity|].
    destruct Hxy as [Hxy | [[Hin | Hin] Hxy]]; [left; exact Hxy | | right; split; assumption].
    apply String.eqb_neq in Ek. exfalso; apply Ek; symmetry; exact Hin.
Qed.

Lemma Q2_raw_set k pend x a a' :
  skr (Q2 (k :: pend)) a a' -> skr (Q2 pend) (raw_set k x a) (raw_set k x a').
Proof.
  intros H. unfold raw_set. rewrite (skr_amem _ a a' k H).
  destruct (amem k a) eqn:Em.
  - apply Q2_set. exact H.
  - apply skr_app; [|left; reflexivity]. apply (Q2_skip k); [exact H|].
    unfold amem in Em. destruct (alookup k a); [discriminate | reflexivity].
Qed.

(* ---------- string-keyed views of a map value (one-of) ---------- *)
Lemma neq_is_plain_str : forall k k', neq k k' ->
  (match k' with VStr TStr _ => true | _ => false end) =
  (match k with VStr TStr _ => true | _ => false end).
Proof. intros k k' H. inversion H; subst; reflexivity. Qed.

Lemma strkeys_neq : forall kvs kvs', Forall2 pneq kvs kvs' ->
  forallb (fun kv : gval * gval => match fst kv with VStr TStr _ => true | _ => false end) kvs' =
  forallb (fun kv : gval * gval => match fst kv with VStr TStr _ => true | _ => false end) kvs.
Proof.
  intros kvs kvs' H. induction H as [|p q l l' [Hk Hv] _ IH]; cbn [forallb]; [reflexivity|].
  rewrite (neq_is_plain_str _ _ Hk), IH. reflexivity.
Qed.

Lemma smap_get_rel : forall fld kvs kvs', Forall2 pneq kvs kvs' ->
  match smap_get fld kvs, smap_get fld kvs' with
  | Some d, Some d' => neq d d'
  | None, None => True
  | _, _ => False
  end.
Proof.
  intros fld kvs kvs' H. induction H as [|[pk pv] [qk qv] l l' [Hk Hv] _ IH]; [exact I|].
  cbn [fst snd] in Hk, Hv.
  inversion Hk; subst; cbn [smap_get]; try exact IH.
  destruct qk; try exact IH.
  destruct (String.eqb fld s); [exact Hv | exact IH].
Qed.

Lemma smap_del_rel : forall fld kvs kvs', Forall2 pneq kvs kvs' ->
  Forall2 pneq (smap_del fld kvs) (smap_del fld kvs').
Proof.
  intros fld kvs kvs' H. induction H as [|[pk pv] [qk qv] l l' [Hk Hv] _ IH]; [constructor|].
  cbn [fst snd] in Hk, Hv.
  inversion Hk; subst; cbn [smap_del];
    try (constructor; [split; cbn [fst snd]; assumption | exact IH]).
  destruct qk;
    try (constructor; [split; cbn [fst snd]; assumption | exact IH]).
  destruct (String.eqb fld s); [exact IH|].
  constructor; [split; cbn [fst snd]; assumption | exact IH].
Qed.

(* ------------------------------------------------------------------------------------ *)
(* (4) Unserialize                                                                       *)
(* ------------------------------------------------------------------------------------ *)
Section Unser.
Variable words : list (string * bool).                 (* boolStringValues *)
Variable pu : units -> string -> option fl.            (* UnitsDefinition.ParseFloat *)
Notation unser := (Ops.unser words pu).

(* the bodies of the container / object / one-of cases of Ops.unser, named; the unfolding
   lemmas below (all by `reflexivity`) tie them to the model *)
Definition list_body (f : nat) (e : env) (it : schema) (mn mx : option Z) (v : gval) : outcome gval :=
  match v with
  | VSlice _ _ l =>
      if size_ok mn mx (zlen l) then
        ys <- mapMi (fun i x => seg (idx_seg i) (unser f e it x)) 0 l ;;
        Ok (VSlice (TSlice (rtype it)) false ys)
      else Err (cerr EBound)
  | _ => Err (cerr ERepr)
  end.

Definition map_step (f : nat) (e : env) (ks vs : schema)
    (acc : outcome (list (gval * gval))) (kv : gval * gval) : outcome (list (gval * gval)) :=
  a <- acc ;;
  k' <- seg (mkey_seg (fst kv)) (unser f e ks (fst kv)) ;;
  v' <- seg (mval_seg (fst kv)) (unser f e vs (snd kv)) ;;
  Ok (map_set k' v' a).

Definition map_body (f : nat) (e : env) (ks vs : schema) (mn mx : option Z) (v : gval) : outcome gval :=
  match v with
  | VMap _ _ kvs =>
      if size_ok mn mx (zlen kvs) then
        r <- fold_left (map_step f e ks vs) kvs (Ok []) ;;
        Ok (VMap (TMap (rtype ks) (rtype vs)) false r)
      else Err (cerr EBound)
  | _ => Err (cerr ERepr)
  end.

Definition obj_step0 (props : list (string * property)) (acc : outcome raw) (kv : gval * gval) : outcome raw :=
  a <- acc ;;
  match fst kv with
  | VStr TStr k => if amem k props then Ok (a ++ [(k, snd kv)]) else Err (cerr EKey)
  | _ => Err (cerr EKey)
  end.

Definition obj_step1 (o : oracles) (a : raw) (np : string * property) : raw :=
  if amem (fst np) a then a
  else match p_default (snd np) with
       | Some txt => match decode_default o (snd np) txt with
                     | Some d => a ++ [(fst np, d)]
                     | None => a
                     end
       | None => a
       end.

Definition obj_step2 (f : nat) (e : env) (acc : outcome raw) (np : string * property) : outcome raw :=
  a <- acc ;;
  match alookup (fst np) a with
  | Some d =>
      x <- seg (fst np)
             (if p_disabled (snd np) then Err (cerr EDisabled)
              else unser f e (p_type (snd np)) d) ;;
      Ok (raw_set (fst np) x a)
  | None => Ok a
  end.

Definition obj_map (f : nat) (e : env) (props : list (string * property)) (kvs : list (gval * gval)) : outcome gval :=
  r0 <- fold_left (obj_step0 props) kvs (Ok []) ;;
  r2 <- fold_left (obj_step2 f e) props (Ok (fold_left (obj_step1 (e_or e)) props r0)) ;;
  _ <- check_rules props (fun k => amem k r2) ;;
  Ok (raw_to_val r2).

Definition obj_lone (f : nat) (e : env) (props : list (string * property)) (v : gval) : outcome gval :=
  match props with
  | [(name, p)] =>
      x <- seg name (if p_disabled p then Err (cerr EDisabled) else unser f e (p_type p) v) ;;
      _ <- check_rules props (fun k => String.eqb k name) ;;
      Ok (raw_to_val [(name, x)])
  | _ => Err (cerr ERepr)
  end.

Definition oneof_tail (inlined : bool) (field : string) (key : okey) (x : gval) : outcome gval :=
  match is_str_any_map x with
  | Some xs =>
      if inlined then Ok x
      else Ok (VMap t_str_map false
                 (map_set (vstr field) (match key with KI z => vi64 z | KS s0 => vstr s0 end) xs))
  | None => Ok x
  end.

Definition oneof_map (f : nat) (e : env) (types : list (okey * schema)) (ik : bool) (field : string)
    (inlined : bool) (kvs : list (gval * gval)) : outcome gval :=
  if forallb (fun kv : gval * gval => match fst kv with VStr TStr _ => true | _ => false end) kvs then
    match smap_get field kvs with
    | None => Err (cerr EKey)
    | Some d =>
        match (if ik then option_map KI (int_mapper None d) else option_map KS (string_mapper d)) with
        | None => Err (cerr ERepr)
        | Some key =>
            match find (fun ks => okey_eqb (fst ks) key) types with
            | None => Err (cerr EKey)
            | Some (_, member) =>
                x <- unser f e member (VMap t_str_map false (if inlined then kvs else smap_del field kvs)) ;;
                oneof_tail inlined field key x
            end
        end
    end
  else Err (cerr EKey).

Definition oneof_body (f : nat) (e : env) (types : list (okey * schema)) (ik : bool) (field : string)
    (inlined : bool) (v : gval) : outcome gval :=
  match v with
  | VNil => Err (cerr ERepr)
  | VMap _ _ kvs => oneof_map f e types ik field inlined kvs
  | _ => Err (cerr ERepr)
  end.

Lemma unser_SInt f e mn mx u v : unser (S f) e (SInt mn mx u) v = int_unser mn mx u v.
Proof. reflexivity. Qed.
Lemma unser_SFloat f e mn mx u v : unser (S f) e (SFloat mn mx u) v = float_unser pu mn mx u v.
Proof. reflexivity. Qed.
Lemma unser_SString f e mn mx pat v : unser (S f) e (SString mn mx pat) v = string_unser mn mx pat v.
Proof. reflexivity. Qed.
Lemma unser_SBool f e v : unser (S f) e SBool v = bool_unser words v.
Proof. reflexivity. Qed.
Lemma unser_SPattern f e v : unser (S f) e SPattern v = pattern_unser (e_or e) v.
Proof. reflexivity. Qed.
Lemma unser_SAny f e v : unser (S f) e SAny v = any_conv f v.
Proof. reflexivity. Qed.
Lemma unser_SEnumInt f e vals u v : unser (S f) e (SEnumInt vals u) v = enum_int_unser vals u v.
Proof. reflexivity. Qed.
Lemma unser_SEnumStr f e named vals v : unser (S f) e (SEnumStr named vals) v = enum_str_unser named vals v.
Proof. reflexivity. Qed.
Lemma unser_SList f e it mn mx v : unser (S f) e (SList it mn mx) v = list_body f e it mn mx v.
Proof. reflexivity. Qed.
Lemma unser_SMap f e ks vs mn mx v : unser (S f) e (SMap ks vs mn mx) v = map_body f e ks vs mn mx v.
Proof. reflexivity. Qed.
Lemma unser_SObject f e id un props v :
  unser (S f) e (SObject id un props) v =
  match v with VMap _ _ kvs => obj_map f e props kvs | _ => obj_lone f e props v end.
Proof. destruct v; reflexivity. Qed.
Lemma unser_SOneOf f e types ik field inlined v :
  unser (S f) e (SOneOf types ik field inlined) v = oneof_body f e types ik field inlined v.
Proof. destruct v; reflexivity. Qed.
Lemma unser_SRef f e id ns d v :
  unser (S f) e (SRef id ns d) v =
  match resolve e id ns with Some (o, e') => unser f e' o v | None => Panic "unlinked reference"%string end.
Proof. reflexivity. Qed.
Lemma unser_SScope f e objs root v :
  unser (S f) e (SScope objs root) v =
  match alookup root objs with
  | Some o => unser f (env_enter e objs) o v
  | None => Panic "root object not found"%string
  end.
Proof. reflexivity. Qed.

(* the induction hypothesis: Unserialize with fuel f respects the relation *)
Definition inv_at (f : nat) : Prop :=
  forall e s v v', neq v v' -> unser f e s v' = unser f e s v.

(* ---------- lists ---------- *)
Lemma list_body_neq f e it mn mx v v' : inv_at f -> neq v v' ->
  list_body f e it mn mx v' = list_body f e it mn mx v.
Proof.
  intros IH H.
  inversion H as [ | | | t t' b b' l l' Hkd Hl | ]; subst; try reflexivity.
  cbn [list_body]. rewrite (Forall2_zlen _ _ _ Hl).
  rewrite (mapMi_congr neq _ l l' Hl); [reflexivity|].
  intros i x x' Hx. rewrite (IH e it x x' Hx). reflexivity.
Qed.

(* ---------- maps ---------- *)
Lemma map_body_neq f e ks vs mn mx v v' : inv_at f -> neq v v' ->
  map_body f e ks vs mn mx v' = map_body f e ks vs mn mx v.
Proof.
  intros IH H.
  inversion H as [ | | | | t t' b b' kvs kvs' Hkd Hl ]; subst; try reflexivity.
  cbn [map_body]. rewrite (Forall2_zlen _ _ _ Hl).
  rewrite (fold_congr pneq _ kvs kvs' Hl); [reflexivity|].
  intros acc p q [Hk Hv]. unfold map_step.
  rewrite (IH e ks _ _ Hk), (IH e vs _ _ Hv).
  unfold mkey_seg, mval_seg. rewrite (neq_key_text _ _ Hk). reflexivity.
Qed.

(* ---------- objects ---------- *)
Lemma obj_step0_rel props p q acc acc' :
  pneq p q -> orel (skr (Q0 (map fst props))) acc acc' ->
  orel (skr (Q0 (map fst props))) (obj_step0 props acc p) (obj_step0 props acc' q).
Proof.
  intros [Hk Hv] Ha. destruct p as [pk pv], q as [qk qv]. cbn [fst snd] in Hk, Hv.
  destruct Ha as [a a' Ha | o Ho].
  2:{ destruct o; try discriminate; apply orel_fail; reflexivity. }
  unfold obj_step0. cbn [bind fst snd].
  inversion Hk; subst; try (apply orel_fail; reflexivity).
  destruct qk as [ | | | | t s | | | | | | ]; try (apply orel_fail; reflexivity).
  destruct t; try (apply orel_fail; reflexivity).
  destruct (amem s props) eqn:Em; [|apply orel_fail; reflexivity].
  apply orel_ok. apply skr_app; [exact Ha|]. split; [apply amem_In; exact Em | exact Hv].
Qed.

Lemma obj_fold0_rel props kvs kvs' : Forall2 pneq kvs kvs' -> forall acc acc',
  orel (skr (Q0 (map fst props))) acc acc' ->
  orel (skr (Q0 (map fst props))) (fold_left (obj_step0 props) kvs acc)
                                  (fold_left (obj_step0 props) kvs' acc').
Proof.
  induction 1 as [|p q l l' Hpq _ IH]; intros acc acc' Ha; cbn [fold_left]; [exact Ha|].
  apply IH. apply obj_step0_rel; assumption.
Qed.

Lemma obj_fold1_rel o names l : forall a a',
  (forall np, In np l -> In (fst np) names) ->
  skr (Q0 names) a a' ->
  skr (Q0 names) (fold_left (obj_step1 o) l a) (fold_left (obj_step1 o) l a').
Proof.
  induction l as [|np l IH]; intros a a' Hin Ha; cbn [fold_left]; [exact Ha|].
  apply IH; [intros np' H'; apply Hin; right; exact H'|].
  unfold obj_step1. rewrite (skr_amem _ a a' (fst np) Ha).
  destruct (amem (fst np) a); [exact Ha|].
  destruct (p_default (snd np)); [|exact Ha].
  destruct (decode_default o (snd np) s); [|exact Ha].
  apply skr_app; [exact Ha|]. split; [apply Hin; left; reflexivity | apply neq_refl].
Qed.

Lemma obj_step2_rel f e np pend a a' : inv_at f ->
  skr (Q2 (fst np :: pend)) a a' ->
  orel (skr (Q2 pend)) (obj_step2 f e (Ok a) np) (obj_step2 f e (Ok a') np).
Proof.
  intros IH Ha. unfold obj_step2. cbn [bind].
  pose proof (skr_alookup _ a a' (fst np) Ha) as L.
  destruct (alookup (fst np) a) as [d|] eqn:E1, (alookup (fst np) a') as [d'|] eqn:E2;
    try contradiction.
  - assert (Hd : neq d d') by (destruct L as [L | [_ L]]; [subst; apply neq_refl | exact L]).
    rewrite (IH e (p_type (snd np)) d d' Hd).
    destruct (seg (fst np) (if p_disabled (snd np) then Err (cerr EDisabled)
                             else unser f e (p_type (snd np)) d)) as [x | er | w | ];
      cbn [bind]; try (apply orel_fail; reflexivity).
    apply orel_ok. apply Q2_raw_set. exact Ha.
  - apply orel_ok. apply (Q2_skip (fst np)); assumption.
Qed.

Lemma obj_fold2_eq f e : inv_at f -> forall l a a',
  skr (Q2 (map fst l)) a a' ->
  fold_left (obj_step2 f e) l (Ok a') = fold_left (obj_step2 f e) l (Ok a).
Proof.
  intros IH. induction l as [|np l IHl]; intros a a' Ha; cbn [fold_left].
  - cbn [map] in Ha. rewrite (Q2_nil _ _ Ha). reflexivity.
  - cbn [map] in Ha. pose proof (obj_step2_rel f e np (map fst l) a a' IH Ha) as R.
    destruct R as [b b' Hb | o Ho]; [apply IHl; exact Hb | reflexivity].
Qed.

Lemma obj_map_neq f e props kvs kvs' : inv_at f -> Forall2 pneq kvs kvs' ->
  obj_map f e props kvs' = obj_map f e props kvs.
Proof.
  intros IH Hl. unfold obj_map.
  assert (R0 : orel (skr (Q0 (map fst props)))
                 (fold_left (obj_step0 props) kvs (Ok []))
                 (fold_left (obj_step0 props) kvs' (Ok []))).
  { apply obj_fold0_rel; [exact Hl|]. apply orel_ok. constructor. }
  destruct R0 as [r0 r0' Hr | o Ho]; [|reflexivity].
  cbn [bind].
  assert (R1 : skr (Q0 (map fst props)) (fold_left (obj_step1 (e_or e)) props r0)
                                        (fold_left (obj_step1 (e_or e)) props r0')).
  { apply obj_fold1_rel; [|exact Hr]. intros np Hnp. apply in_map. exact Hnp. }
  rewrite (obj_fold2_eq f e IH props _ _
             (skr_impl _ _ _ _ (fun k x y (H : Q0 (map fst props) k x y) =>
                                  or_intror (x = y) H) R1)).
  reflexivity.
Qed.

Lemma obj_lone_neq f e props v v' : inv_at f -> neq v v' ->
  obj_lone f e props v' = obj_lone f e props v.
Proof.
  intros IH H. destruct props as [|[name p] [|]]; try reflexivity.
  cbn [obj_lone]. rewrite (IH e (p_type p) v v' H). reflexivity.
Qed.

Lemma unser_SObject_neq f e id un props v v' : inv_at f -> neq v v' ->
  unser (S f) e (SObject id un props) v' = unser (S f) e (SObject id un props) v.
Proof.
  intros IH H. rewrite !unser_SObject.
  inversion H as [ | | | | t t' b b' kvs kvs' Hkd Hl ]; subst; try reflexivity;
    try (apply obj_lone_neq; assumption).
  apply obj_map_neq; assumption.
Qed.

(* ---------- one-of ---------- *)
Lemma oneof_map_neq f e types ik field inlined kvs kvs' : inv_at f -> Forall2 pneq kvs kvs' ->
  oneof_map f e types ik field inlined kvs' = oneof_map f e types ik field inlined kvs.
Proof.
  intros IH Hl. unfold oneof_map. rewrite (strkeys_neq _ _ Hl).
  destruct (forallb _ kvs); [|reflexivity].
  pose proof (smap_get_rel field _ _ Hl) as G.
  destruct (smap_get field kvs) as [d|], (smap_get field kvs') as [d'|]; try contradiction;
    [|reflexivity].
  rewrite (int_mapper_neq None d d' G), (string_mapper_neq d d' G).
  destruct (if ik then option_map KI (int_mapper None d) else option_map KS (string_mapper d))
    as [key|]; [|reflexivity].
  destruct (find (fun ks => okey_eqb (fst ks) key) types) as [[k0 member]|]; [|reflexivity].
  assert (Hc : neq (VMap t_str_map false (if inlined then kvs else smap_del field kvs))
                   (VMap t_str_map false (if inlined then kvs' else smap_del field kvs'))).
  { apply neq_map; [reflexivity|]. destruct inlined; [exact Hl | apply smap_del_rel; exact Hl]. }
  rewrite (IH e member _ _ Hc). reflexivity.
Qed.

Lemma oneof_body_neq f e types ik field inlined v v' : inv_at f -> neq v v' ->
  oneof_body f e types ik field inlined v' = oneof_body f e types ik field inlined v.
Proof.
  intros IH H.
  inversion H as [ | | | | t t' b b' kvs kvs' Hkd Hl ]; subst; try reflexivity.
  cbn [oneof_body]. apply oneof_map_neq; assumption.
Qed.

(* ---------- all schema kinds ---------- *)
Theorem unser_neq : forall f, inv_at f.
Proof.
  induction f as [|f IH]; intros e s v v' H; [reflexivity|].
  destruct s.
  - rewrite !unser_SInt. apply int_unser_neq; exact H.
  - rewrite !unser_SFloat. apply float_unser_neq; exact H.
  - rewrite !unser_SString. apply string_unser_neq; exact H.
  - rewrite !unser_SBool. apply bool_unser_neq; exact H.
  - rewrite !unser_SPattern. apply pattern_unser_neq; exact H.
  - rewrite !unser_SAny. apply any_conv_neq; exact H.
  - rewrite !unser_SEnumInt. apply enum_int_unser_neq; exact H.
  - rewrite !unser_SEnumStr. apply enum_str_unser_neq; exact H.
  - rewrite !unser_SList. apply list_body_neq; assumption.
  - rewrite !unser_SMap. apply map_body_neq; assumption.
  - apply unser_SObject_neq; assumption.
  - rewrite !unser_SOneOf. apply oneof_body_neq; assumption.
  - rewrite !unser_SRef. destruct (resolve e id ns) as [[o e']|]; [|reflexivity].
    apply IH; exact H.
  - rewrite !unser_SScope. destruct (alookup root objs) as [o|]; [|reflexivity].
    apply IH; exact H.
Qed.

(* ---------- the data-layer theorem of C05, in full ---------- *)
Theorem norm_invariant : forall n v, decodable v ->
  forall f e s, unser f e s (cbor_norm n v) = unser f e s v.
Proof. intros n v Hd f e s. apply unser_neq. apply cbor_norm_neq. exact Hd. Qed.

End Unser.

(* ------------------------------------------------------------------------------------ *)
(* the statements in terms of cbor_norm                                                  *)
(* ------------------------------------------------------------------------------------ *)
Lemma int_mapper_norm_invariant : forall u n v, decodable v ->
  int_mapper u (cbor_norm n v) = int_mapper u v.
Proof. intros. apply int_mapper_neq, cbor_norm_neq. assumption. Qed.

Lemma float_mapper_norm_invariant : forall pu u n v, decodable v ->
  float_mapper pu u (cbor_norm n v) = float_mapper pu u v.
Proof. intros. apply float_mapper_neq, cbor_norm_neq. assumption. Qed.

Lemma string_mapper_norm_invariant : forall n v, decodable v ->
  string_mapper (cbor_norm n v) = string_mapper v.
Proof. intros. apply string_mapper_neq, cbor_norm_neq. assumption. Qed.

Lemma bool_mapper_norm_invariant : forall words n v, decodable v ->
  bool_unser words (cbor_norm n v) = bool_unser words v.
Proof. intros. apply bool_unser_neq, cbor_norm_neq. assumption. Qed.

Lemma any_conv_norm_invariant : forall f n v, decodable v ->
  any_conv f (cbor_norm n v) = any_conv f v.
Proof. intros. apply any_conv_neq, cbor_norm_neq. assumption. Qed.

(* the relation is what is needed, not decodability itself *)
Theorem norm_invariant_rel : forall words pu v v', neq v v' ->
  forall f e s, Ops.unser words pu f e s v' = Ops.unser words pu f e s v.
Proof. intros words pu v v' H f e s. apply unser_neq. exact H. Qed.

(* ---------- what arrives is again decodable ---------- *)
Lemma ik_max_u64 : forall k, ik_max k <= max_u64.
Proof. destruct k; vm_compute; discriminate. Qed.
Lemma ik_min_i64 : forall k, min_i64 <= ik_min k.
Proof. destruct k; vm_compute; discriminate. Qed.

Lemma ik_in_u64 : forall k z, ik_in k z = true -> (0 <=? z) = true -> ik_in U64 z = true.
Proof.
  intros k z H H0. unfold ik_in in *. apply andb_prop in H. destruct H as [_ H].
  apply Z.leb_le in H. apply Z.leb_le in H0. pose proof (ik_max_u64 k) as M.
  apply andb_true_intro. split; apply Z.leb_le.
  - change (ik_min U64) with 0. exact H0.
  - change (ik_max U64) with max_u64. lia.
Qed.

Lemma ik_in_i64 : forall k z, ik_in k z = true -> (0 <=? z) = false -> ik_in I64 z = true.
Proof.
  intros k z H H0. unfold ik_in in *. apply andb_prop in H. destruct H as [H _].
  apply Z.leb_le in H. apply Z.leb_gt in H0. pose proof (ik_min_i64 k) as M.
  apply andb_true_intro. split; apply Z.leb_le.
  - change (ik_min I64) with min_i64. lia.
  - change (ik_max I64) with max_i64. unfold max_i64. lia.
Qed.

Lemma cbor_norm_decodable : forall n v, decodable v -> decodable (cbor_norm n v).
Proof.
  induction n as [|n IH]; intros v Hd; [exact Hd|].
  destruct Hd; cbn [cbor_norm]; try (constructor; fail).
  - destruct (0 <=? z) eqn:Ez; apply dec_int; [eapply ik_in_u64 | eapply ik_in_i64]; eassumption.
  - apply dec_slice. induction H; cbn [map]; constructor; [apply IH; assumption | assumption].
  - apply dec_amap. induction H as [|kv t [Hk Hv] _ IHF]; cbn [map]; constructor; [|assumption].
    cbn [fst snd]. split; apply IH; assumption.
  - apply dec_amap. induction H as [|kv t [[s Hk] Hv] _ IHF]; cbn [map]; constructor; [|assumption].
    cbn [fst snd]. split; [|apply IH; assumption]. apply IH. rewrite Hk. apply dec_str.
Qed.

(* ---------- the hypothesis is necessary ---------- *)
(* A value of a NAMED string type (`type T string`; likewise time.Duration for integers) is
   not decodable.  In-process, stringInputMapper's type switch does not match it; after the
   wire it is a plain string.  So the two sides differ: transparency holds for decoded data,
   not for arbitrary Go values handed to Unserialize in-process. *)
Lemma norm_named_string_differs : forall words pu f e,
  Ops.unser words pu (S f) e (SString None None None)
      (cbor_norm 1 (VStr (TNamed "T" TStr) "x")) = Ok (vstr "x")
  /\ Ops.unser words pu (S f) e (SString None None None)
      (VStr (TNamed "T" TStr) "x") = Err (cerr ERepr).
Proof. intros. rewrite !unser_SString. split; reflexivity. Qed.

Lemma norm_named_int_differs : forall words pu f e,
  Ops.unser words pu (S f) e (SInt None None None)
      (cbor_norm 1 (VInt (TNamed "Duration" (TInt I64)) 5)) = Ok (vi64 5)
  /\ Ops.unser words pu (S f) e (SInt None None None)
      (VInt (TNamed "Duration" (TInt I64)) 5) = Err (cerr ERepr).
Proof. intros. rewrite !unser_SInt. split; reflexivity. Qed.

Lemma norm_needs_decodable : exists v s, forall words pu f e,
  Ops.unser words pu (S f) e s (cbor_norm 1 v) <> Ops.unser words pu (S f) e s v.
Proof.
  exists (VStr (TNamed "T" TStr) "x"), (SString None None None). intros words pu f e.
  destruct (norm_named_string_differs words pu f e) as [A B]. rewrite A, B. discriminate.
Qed.

(* ------------------------------------------------------------------------------------ *)
(* a boolean check of the hypothesis (for the interpreter: every generated case value can *)
(* be tested for membership in the class the theorem speaks about)                        *)
(* ------------------------------------------------------------------------------------ *)
(* decodableb itself is in Schema/Decodable.v (a model file: the extraction must not depend on proofs) *)
From Verif Require Export Schema.Decodable.

Lemma decodableb_sound : forall n v, decodableb n v = true -> decodable v.
Proof.
  induction n as [|n IH]; intros v H; [discriminate|].
  destruct v as [ | t b | t z | t x | t s | t b l | t b kvs | | | | ]; cbn [decodableb] in H;
    try discriminate.
  - constructor.
  - destruct t; try discriminate. constructor.
  - destruct t; try discriminate. constructor. exact H.
  - destruct t; try discriminate; constructor.
  - destruct t; try discriminate. constructor.
  - destruct t as [ | | | | | | | el | | | | | ]; try discriminate.
    destruct el; try discriminate.
    apply dec_slice. apply Forall_forall. intros x Hx.
    apply IH. rewrite forallb_forall in H. apply H. exact Hx.
  - destruct t as [ | | | | | | | | kt vt | | | | ]; try discriminate.
    destruct kt; try discriminate; destruct vt; try discriminate.
    + apply dec_smap. apply Forall_forall. intros kv Hkv.
      rewrite forallb_forall in H. specialize (H kv Hkv). apply andb_prop in H.
      destruct H as [Hk Hv]. split; [|apply IH; exact Hv].
      destruct (fst kv) as [ | | | | t s | | | | | | ]; try discriminate.
      destruct t; try discriminate. exists s. reflexivity.
    + apply dec_amap. apply Forall_forall. intros kv Hkv.
      rewrite forallb_forall in H. specialize (H kv Hkv). apply andb_prop in H.
      destruct H as [Hk Hv]. split; apply IH; assumption.
Qed.
