(* Proofs/C01Round.v — property C01 on the model: the typed entry points, and the round trip
   Unserialize / Validate / Serialize / Unserialize (directly and after CBOR normalisation) for
   the scalar kinds, enums, pattern and lists of them, by induction on the fuel. *)
From Coq Require Import Lia.
From Verif Require Import Base.Prelude Base.Str Base.Float Base.GoVal
  Schema.Regex Schema.Units Schema.Syntax Schema.Ops Schema.Cbor Schema.SpecRT Proofs.OpsLemmas.
Open Scope string_scope.
Open Scope Z_scope.

(* destruct every match / if / bind that stands between a hypothesis and its `Ok` *)
Ltac inv_ok H :=
  repeat (match type of H with
          | bind ?o _ = Ok _ =>
              let a := fresh "a" in let Ha := fresh "Ha" in
              apply bind_ok in H; destruct H as (a & Ha & H)
          | match ?x with _ => _ end = Ok _ => destruct x eqn:?; try discriminate H
          end);
  try (inversion H; subst; clear H).

Lemma gtype_eqb_refl t : gtype_eqb t t = true.
Proof.
  induction t as [| k | | | | | n u IH | e0 IH | k0 IHk v0 IHv | e0 IH | n | | d]; cbn;
    rewrite ?String.eqb_refl, ?IH, ?IHk, ?IHv; try reflexivity.
  destruct k; reflexivity.
Qed.

Lemma typed_assert_self t n : type_of n = Some t -> typed_assert t n = true.
Proof. intros H. unfold typed_assert. rewrite H. destruct t; try reflexivity; apply gtype_eqb_refl. Qed.

Section Typed.
Variable words : list (string * bool).
Variable pu : units -> string -> option fl.

(* what Unserialize returns has the schema's reflected type: the wrapper's assertion cannot fail *)
Lemma unser_result_type f e s v n :
  typed_kind s = true -> unser words pu f e s v = Ok n -> typed_assert (rtype s) n = true.
Proof.
  intros Hk H. destruct f as [|f]; [discriminate H|].
  destruct s; try discriminate Hk; cbn [unser] in H; try reflexivity.
  - unfold int_unser, int_bounds in H. inv_ok H. reflexivity.
  - unfold float_unser, float_bounds in H. inv_ok H. reflexivity.
  - unfold string_unser, string_check in H. inv_ok H; reflexivity.
  - unfold bool_unser in H. inv_ok H; reflexivity.
  - unfold pattern_unser in H. inv_ok H. reflexivity.
  - unfold enum_int_unser in H. inv_ok H. reflexivity.
  - unfold enum_str_unser in H. inv_ok H. apply typed_assert_self. destruct named; reflexivity.
  - inv_ok H. apply typed_assert_self. reflexivity.
  - inv_ok H. apply typed_assert_self. reflexivity.
  - inv_ok H; reflexivity.
Qed.

Lemma typed_entry f e s v : typed_kind s = true ->
  unser_typed words pu f e s v = unser words pu f e s v.
Proof.
  intros Hk. unfold unser_typed, unser_typed_with. destruct (unser words pu f e s v) as [n | | |] eqn:E; try reflexivity.
  cbn [bind]. rewrite (unser_result_type f e s v n Hk E). reflexivity.
Qed.

Lemma typed_delegates f e s v :
  validate_typed words pu f e s v = validate words pu f e s v /\ serialize_typed words pu f e s v = serialize words pu f e s v.
Proof. split; reflexivity. Qed.

Lemma typed_entry_never_panics_more f e s v why : typed_kind s = true ->
  unser_typed words pu f e s v = Panic why -> unser words pu f e s v = Panic why.
Proof. intros Hk H. rewrite typed_entry in H by exact Hk. exact H. Qed.
End Typed.

(* ---------- integers in range ---------- *)
Lemma ik_in_i64 z : ik_in I64 z = in_i64 z.
Proof. reflexivity. Qed.

Lemma in_i64_bounds z : in_i64 z = true -> min_i64 <= z <= max_i64.
Proof. unfold in_i64. rewrite Bool.andb_true_iff, !Z.leb_le. tauto. Qed.

Lemma wrap_i64_id z : in_i64 z = true -> wrap_i64 z = z.
Proof.
  intros H. apply in_i64_bounds in H. unfold wrap_i64, min_i64, max_i64, two64 in *.
  destruct (Z_lt_le_dec z 0) as [Hneg | Hpos].
  - assert (E : z mod 18446744073709551616 = z + 18446744073709551616).
    { symmetry. apply (Zmod_unique z 18446744073709551616 (-1)); lia. }
    rewrite E. destruct (Z.leb_spec (z + 18446744073709551616) 9223372036854775807); lia.
  - rewrite Z.mod_small by lia. destruct (Z.leb_spec z 9223372036854775807); lia.
Qed.

Lemma cbor_norm_int D z : exists k, cbor_norm D (vi64 z) = VInt (TInt k) z.
Proof. destruct D; cbn; [exists I64; reflexivity|]. destruct (0 <=? z); [exists U64 | exists I64]; reflexivity. Qed.

Lemma int_mapper_vint u k z : z <= max_i64 -> int_mapper u (VInt (TInt k) z) = Some z.
Proof. intros H. cbn. destruct (Z.leb_spec z max_i64); [reflexivity | lia]. Qed.

(* ---------- the scalar kinds ---------- *)
Lemma int_rt mn mx u v n : int_unser mn mx u v = Ok n -> ints_in_range n = true ->
  int_ser mn mx n = Ok n /\ wire n = true /\ int_unser mn mx u n = Ok n /\ (forall D, int_unser mn mx u (cbor_norm D n) = Ok n).
Proof.
  unfold int_unser, int_bounds. intros H Hr. destruct (int_mapper u v) as [z|]; [|discriminate H].
  destruct (size_ok mn mx z) eqn:Es; [|discriminate H]. inversion H; subst n. clear H.
  cbn [ints_in_range vi64] in Hr. rewrite ik_in_i64 in Hr. pose proof (in_i64_bounds z Hr) as Hb.
  split. { unfold int_ser, int_bounds. cbn [conv_int64 vi64]. rewrite (wrap_i64_id z Hr), Es. reflexivity. }
  split; [reflexivity|]. split.
  - unfold vi64. rewrite int_mapper_vint by lia. rewrite Es. reflexivity.
  - intros D. destruct (cbor_norm_int D z) as (k & E). rewrite E, int_mapper_vint by lia. rewrite Es. reflexivity.
Qed.

Lemma enum_int_rt vals u v n : enum_int_unser vals u v = Ok n -> ints_in_range n = true ->
  enum_int_ser vals n = Ok n /\ wire n = true /\ enum_int_unser vals u n = Ok n /\ (forall D, enum_int_unser vals u (cbor_norm D n) = Ok n).
Proof.
  unfold enum_int_unser. intros H Hr. destruct (int_mapper u v) as [z|]; [|discriminate H].
  destruct (enum_int_mem vals z) eqn:Es; [|discriminate H]. inversion H; subst n. clear H.
  cbn [ints_in_range vi64] in Hr. rewrite ik_in_i64 in Hr. pose proof (in_i64_bounds z Hr) as Hb.
  split. { unfold enum_int_ser. cbn [conv_int64 vi64]. rewrite (wrap_i64_id z Hr), Es. reflexivity. }
  split; [reflexivity|]. split.
  - unfold vi64. rewrite int_mapper_vint by lia. rewrite Es. reflexivity.
  - intros D. destruct (cbor_norm_int D z) as (k & E). rewrite E, int_mapper_vint by lia. rewrite Es. reflexivity.
Qed.

Lemma cbor_norm_f64 D x : cbor_norm D (vf64 x) = vf64 x.
Proof. destruct D; reflexivity. Qed.
Lemma cbor_norm_str D s : cbor_norm D (vstr s) = vstr s.
Proof. destruct D; reflexivity. Qed.
Lemma cbor_norm_bool D b : cbor_norm D (vbool b) = vbool b.
Proof. destruct D; reflexivity. Qed.

Lemma float_rt pu mn mx u v n : float_unser pu mn mx u v = Ok n ->
  float_ser mn mx n = Ok n /\ wire n = true /\ float_unser pu mn mx u n = Ok n /\ (forall D, float_unser pu mn mx u (cbor_norm D n) = Ok n).
Proof.
  unfold float_unser. intros H. destruct (float_mapper pu u v) as [x|]; [|discriminate H].
  assert (Hn : n = vf64 x) by (unfold float_bounds in H; destruct (_ && _); [inversion H; reflexivity | discriminate H]).
  subst n. split; [exact H|]. split; [reflexivity|]. split; [exact H|]. intros D. rewrite cbor_norm_f64. exact H.
Qed.

Lemma string_rt mn mx pat v n : string_unser mn mx pat v = Ok n ->
  string_ser mn mx pat n = Ok n /\ wire n = true /\ string_unser mn mx pat n = Ok n /\ (forall D, string_unser mn mx pat (cbor_norm D n) = Ok n).
Proof.
  unfold string_unser. intros H. destruct (string_mapper v) as [s|]; [|discriminate H].
  assert (Hn : n = vstr s).
  { unfold string_check in H. destruct (size_ok mn mx (slen s)); [|discriminate H].
    destruct pat as [[src r]|]; [destruct (re_match_string r s)|]; inversion H; reflexivity. }
  subst n. split; [exact H|]. split; [reflexivity|]. split; [exact H|]. intros D. rewrite cbor_norm_str. exact H.
Qed.

Lemma bool_rt words v n : bool_unser words v = Ok n ->
  bool_ser n = Ok n /\ wire n = true /\ bool_unser words n = Ok n /\ (forall D, bool_unser words (cbor_norm D n) = Ok n).
Proof.
  intros H. assert (Hn : exists b, n = vbool b).
  { unfold bool_unser in H. inv_ok H; eauto. }
  destruct Hn as (b & ->). split; [reflexivity|]. split; [reflexivity|]. split; [reflexivity|].
  intros D. rewrite cbor_norm_bool. reflexivity.
Qed.

Lemma enum_str_rt named vals v n : enum_str_unser named vals v = Ok n ->
  exists s, enum_str_ser vals n = Ok (vstr s) /\ enum_str_unser named vals (vstr s) = Ok n
            /\ (forall D, enum_str_unser named vals (cbor_norm D (vstr s)) = Ok n).
Proof.
  unfold enum_str_unser. intros H. destruct (string_mapper v) as [s|]; [|discriminate H].
  destruct (enum_str_mem vals s) eqn:Em; [|discriminate H]. inversion H; subst n. clear H.
  exists s. split. { unfold enum_str_ser. cbn [conv_string]. rewrite Em. reflexivity. }
  split. { cbn [string_mapper vstr]. rewrite Em. reflexivity. }
  intros D. rewrite cbor_norm_str. cbn [string_mapper vstr]. rewrite Em. reflexivity.
Qed.

Lemma pattern_rt o v n : pattern_unser o v = Ok n ->
  exists s, pattern_validate n = Ok VNil /\ pattern_ser n = Ok (vstr s) /\ pattern_unser o (vstr s) = Ok n
            /\ (forall D, pattern_unser o (cbor_norm D (vstr s)) = Ok n).
Proof.
  unfold pattern_unser. intros H. destruct (string_mapper v) as [s|]; [|discriminate H].
  destruct (o_re_ok o s) eqn:Em; [|discriminate H]. inversion H; subst n. clear H.
  exists s. split; [reflexivity|]. split; [reflexivity|]. split. { cbn [string_mapper vstr]. rewrite Em. reflexivity. }
  intros D. rewrite cbor_norm_str. cbn [string_mapper vstr]. rewrite Em. reflexivity.
Qed.

(* ---------- lists ---------- *)
Lemma mapMi_seg_ok {A B} (h : Z -> string) (g : A -> outcome B) l : forall i ys,
  mapMi (fun j x => seg (h j) (g x)) i l = Ok ys <-> Forall2 (fun x y => g x = Ok y) l ys.
Proof.
  induction l as [|x t IH]; intros i ys; cbn [mapMi].
  - split; intros H; [inversion H; constructor | inversion H; reflexivity].
  - rewrite bind_ok. split.
    + intros (y & Hy & H). apply bind_ok in H. destruct H as (ys' & Hys & H). inversion H; subst.
      constructor; [apply seg_ok in Hy; exact Hy | apply (IH (i + 1)); exact Hys].
    + intros H. inversion H as [| ? y ? ys' Hy Hys]; subst. exists y. split; [apply seg_ok; exact Hy|].
      apply bind_ok. exists ys'. split; [apply (IH (i + 1)); exact Hys | reflexivity].
Qed.

Lemma forall2_length {A B} (R : A -> B -> Prop) l l' : Forall2 R l l' -> List.length l = List.length l'.
Proof. induction 1; cbn; congruence. Qed.

Lemma forall2_map_l {A B C} (R : C -> B -> Prop) (m : A -> C) l l' :
  Forall2 (fun x y => R (m x) y) l l' -> Forall2 R (map m l) l'.
Proof. induction 1; cbn; constructor; assumption. Qed.

Lemma forall2_same {A} (R : A -> A -> Prop) l : Forall (fun x => R x x) l -> Forall2 R l l.
Proof. induction 1; constructor; assumption. Qed.

Section Round.
Variable words : list (string * bool).
Variable pu : units -> string -> option fl.
Notation unser := (unser words pu).
Notation validate := (validate words pu).
Notation serialize := (serialize words pu).

(* the facts about one element of a list, at every sufficiently large fuel *)
Definition elem_rt (e : env) (s : schema) (f0 : nat) (y w : gval) : Prop :=
  wire w = true /\ forall f', (f0 <= f')%nat ->
    validate f' e s y = Ok tt /\ serialize f' e s y = Ok w /\ unser f' e s w = Ok y
    /\ (forall D, unser f' e s (cbor_norm D w) = Ok y).

Lemma roundtrips_of_elem e s f0 y w : elem_rt e s f0 y w -> roundtrips words pu e s y f0.
Proof.
  intros (Hw & H). exists w. split; [exact Hw|]. intros f' Hf. destruct (H f' Hf) as (Hv & Hs & Hu & Hc).
  split; [exact Hv|]. split; [exact Hs|]. split; [exact Hu|]. split; [exact Hc|].
  intros n2 H2. rewrite Hu in H2. inversion H2; subst n2. exact Hs.
Qed.

Lemma scalar_fuel f' : (2 <= f')%nat -> exists f'', f' = S f''.
Proof. intros H. destruct f'; [lia | eauto]. Qed.

Lemma elem_rt_exists : forall f e s v n,
  rt_kind s = true -> unser f e s v = Ok n -> ints_in_range n = true ->
  exists w, elem_rt e s (2 * f) n w.
Proof.
  induction f as [|f IH]; intros e s v n Hk H Hr; [discriminate H|].
  destruct s; try discriminate Hk; cbn [Ops.unser] in H.
  - (* int *)
    destruct (int_rt mn mx u v n H Hr) as (Hs & Hw & Hu & Hc). exists n. split; [exact Hw|].
    intros f' Hf. destruct (scalar_fuel f') as (f'' & ->); [lia|]. cbn [Ops.validate Ops.serialize Ops.unser].
    rewrite Hs. cbn [bind]. auto.
  - (* float *)
    destruct (float_rt pu mn mx u v n H) as (Hs & Hw & Hu & Hc). exists n. split; [exact Hw|].
    intros f' Hf. destruct (scalar_fuel f') as (f'' & ->); [lia|]. cbn [Ops.validate Ops.serialize Ops.unser].
    rewrite Hs. cbn [bind]. auto.
  - (* string *)
    destruct (string_rt mn mx pat v n H) as (Hs & Hw & Hu & Hc). exists n. split; [exact Hw|].
    intros f' Hf. destruct (scalar_fuel f') as (f'' & ->); [lia|]. cbn [Ops.validate Ops.serialize Ops.unser].
    rewrite Hs. cbn [bind]. auto.
  - (* bool *)
    destruct (bool_rt words v n H) as (Hs & Hw & Hu & Hc). exists n. split; [exact Hw|].
    intros f' Hf. destruct (scalar_fuel f') as (f'' & ->); [lia|]. cbn [Ops.validate Ops.serialize Ops.unser].
    rewrite Hs. cbn [bind]. auto.
  - (* pattern *)
    destruct (pattern_rt (e_or e) v n H) as (s0 & Hv & Hs & Hu & Hc). exists (vstr s0). split; [reflexivity|].
    intros f' Hf. destruct (scalar_fuel f') as (f'' & ->); [lia|]. cbn [Ops.validate Ops.serialize Ops.unser].
    rewrite Hv. cbn [bind]. auto.
  - (* int enum *)
    destruct (enum_int_rt vals u v n H Hr) as (Hs & Hw & Hu & Hc). exists n. split; [exact Hw|].
    intros f' Hf. destruct (scalar_fuel f') as (f'' & ->); [lia|]. cbn [Ops.validate Ops.serialize Ops.unser].
    rewrite Hs. cbn [bind]. auto.
  - (* string enum *)
    destruct (enum_str_rt named vals v n H) as (s0 & Hs & Hu & Hc). exists (vstr s0). split; [reflexivity|].
    intros f' Hf. destruct (scalar_fuel f') as (f'' & ->); [lia|]. cbn [Ops.validate Ops.serialize Ops.unser].
    rewrite Hs. cbn [bind]. auto.
  - (* list *)
    cbn [rt_kind] in Hk.
    destruct v as [| | | | |t0 nl l| | | | |]; try discriminate H.
    destruct (size_ok mn mx (zlen l)) eqn:Es; [|discriminate H].
    apply bind_ok in H. destruct H as (ys & Hys & H). inversion H; subst n. clear H.
    apply mapMi_seg_ok in Hys.
    cbn [ints_in_range] in Hr. rewrite forallb_forall in Hr.
    (* every element has its wire form *)
    assert (Hel : exists ws, Forall2 (elem_rt e s (2 * f)) ys ws).
    { clear Es. revert Hr. induction Hys as [| x y l' ys' Hxy _ IHl]; intros Hr; [exists []; constructor|].
      destruct (IH e s x y Hk Hxy) as (w & Hw); [apply Hr; left; reflexivity|].
      destruct IHl as (ws & Hws); [intros z Hz; apply Hr; right; exact Hz|].
      exists (w :: ws). constructor; assumption. }
    destruct Hel as (ws & Hws).
    assert (Hlen : zlen ys = zlen l) by (unfold zlen; rewrite (forall2_length _ _ _ Hys); reflexivity).
    assert (Hlenw : zlen ws = zlen l) by (unfold zlen; rewrite <- (forall2_length _ _ _ Hws), (forall2_length _ _ _ Hys); reflexivity).
    exists (VSlice t_any_slice false ws). split.
    { cbn [wire]. rewrite gtype_eqb_refl. cbn [andb]. apply forallb_forall. intros w Hin.
      clear -Hws Hin. induction Hws as [| y w0 ys' ws' (Hw & _) _ IHw]; [contradiction|].
      destruct Hin as [-> | Hin]; [exact Hw | apply IHw; exact Hin]. }
    intros f' Hf. destruct f' as [|[|k]]; try lia. assert (Hk2 : (2 * f <= k)%nat) by lia.
    assert (HSk : (2 * f <= S k)%nat) by lia.
    (* validate at any fuel S j with 2f <= j *)
    assert (Hval : forall j, (2 * f <= j)%nat -> validate (S j) e (SList s mn mx) (VSlice (TSlice (rtype s)) false ys) = Ok tt).
    { intros j Hj. cbn [Ops.validate]. rewrite Hlen, Es. apply bind_ok.
      assert (Hex : exists us, mapMi (fun i x => seg (idx_seg i) (validate j e s x)) 0 ys = Ok us).
      { exists (map (fun _ => tt) ys). apply mapMi_seg_ok. clear -Hws Hj. induction Hws as [| y w0 ys' ws' (_ & Hy) _ IHw]; cbn; constructor; [|exact IHw].
        destruct (Hy j Hj) as (Hv & _). exact Hv. }
      destruct Hex as (us & Hus). exists us. split; [exact Hus | reflexivity]. }
    split; [apply Hval; lia|].
    split.
    { cbn [Ops.serialize]. apply bind_ok. exists tt. split; [apply Hval; exact Hk2|].
      apply bind_ok. exists ws. split; [|reflexivity]. apply mapMi_seg_ok.
      clear -Hws HSk. induction Hws as [| y w0 ys' ws' (_ & Hy) _ IHw]; constructor; [|exact IHw].
      destruct (Hy (S k) HSk) as (_ & Hs & _). exact Hs. }
    split.
    { cbn [Ops.unser]. rewrite Hlenw, Es. apply bind_ok. exists ys. split; [|reflexivity]. apply mapMi_seg_ok.
      clear -Hws HSk. induction Hws as [| y w0 ys' ws' (_ & Hy) _ IHw]; constructor; [|exact IHw].
      destruct (Hy (S k) HSk) as (_ & _ & Hu & _). exact Hu. }
    intros D. destruct D as [|D]; cbn [cbor_norm].
    { cbn [Ops.unser]. rewrite Hlenw, Es. apply bind_ok. exists ys. split; [|reflexivity]. apply mapMi_seg_ok.
      clear -Hws HSk. induction Hws as [| y w0 ys' ws' (_ & Hy) _ IHw]; constructor; [|exact IHw].
      destruct (Hy (S k) HSk) as (_ & _ & Hu & _). exact Hu. }
    cbn [Ops.unser].
    assert (Hlm : zlen (map (cbor_norm D) ws) = zlen l) by (unfold zlen; rewrite map_length; exact Hlenw).
    rewrite Hlm, Es. apply bind_ok. exists ys. split; [|reflexivity]. apply mapMi_seg_ok.
    apply forall2_map_l.
    clear -Hws HSk. induction Hws as [| y w0 ys' ws' (_ & Hy) _ IHw]; constructor; [|exact IHw].
    destruct (Hy (S k) HSk) as (_ & _ & _ & Hc). apply Hc.
Qed.

Lemma roundtrip_partial f e s v n :
  rt_kind s = true -> unser f e s v = Ok n -> ints_in_range n = true ->
  roundtrips words pu e s n (2 * f).
Proof.
  intros Hk H Hr. destruct (elem_rt_exists f e s v n Hk H Hr) as (w & Hw). eapply roundtrips_of_elem; exact Hw.
Qed.
End Round.

(* ---------- the input mappers read a value and its CBOR normal form alike ---------- *)
Definition plain_scalar (v : gval) : bool :=
  match v with
  | VInt (TInt _) _ | VFloat TF64 _ | VFloat TF32 _ | VStr TStr _ | VBool TBool _ => true
  | _ => false
  end.

Lemma mapper_norm_invariant u pu D v : plain_scalar v = true ->
  int_mapper u (cbor_norm D v) = int_mapper u v
  /\ float_mapper pu u (cbor_norm D v) = float_mapper pu u v
  /\ string_mapper (cbor_norm D v) = string_mapper v.
Proof.
  intros H. destruct D as [|D]; [repeat split; reflexivity|].
  destruct v as [|t b|t z|t x|t s| | | | | |]; try discriminate H; destruct t; try discriminate H; cbn [cbor_norm].
  - repeat split; reflexivity.
  - destruct (0 <=? z); repeat split; reflexivity.
  - repeat split; reflexivity.
  - repeat split; reflexivity.
  - repeat split; reflexivity.
Qed.

(* D13 before the repair: the wrapper of a typed string enum asserted `string`; the model of that wrapper panics
   on every accepted value *)
Lemma typed_entry_D13_refuted :
  exists e s v n why,
    typed_kind s = true /\ unser [] (fun _ _ => None) 1 e s v = Ok n
    /\ unser_typed_with [] (fun _ _ => None) asserted_D13 1 e s v = Panic why.
Proof.
  exists (mkEnv [] [] (mkOracles (fun _ => None) (fun _ => false))), (SEnumStr (Some "MyStr") [("x", None)]), (vstr "x").
  eexists. eexists. vm_compute. repeat split.
Qed.
