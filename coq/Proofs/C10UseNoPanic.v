(* Proofs/C10UseNoPanic.v — `wf_use`: the part of C04's well-formedness (Schema/Wf.v `wf_schema`) that the
   operations of Schema/Ops.v actually USE, and half (A) of totality under it.

   wf_schema asks of every scope that each object is stored under its own id (NewScopeSchema builds the
   table that way).  A scope received as a description need not be like that: UnserializeScope /
   UnserializeSchema check the ROOT object only (ScopeSchema.RootObject), any other object may sit under a
   key that differs from its id — and no operation ever reads an object's id.  So
       wf_schema e s  <->  wf_use e s /\ ids_ok e s          (wf_schema_iff_use)
   where wf_use replaces "id = key" by "is an object", and ids_ok is the dropped conjunct.  The no-panic
   induction of Proofs/C04NoPanic.v goes through verbatim with wf_use in place of wf_schema (only the four
   facts below are ever taken from the local predicate); it is repeated here over `use_local`, re-using
   every lemma of C04NoPanic.v that does not mention the predicate. *)
From Coq Require Import Lia.
From Verif Require Import Base.Prelude Base.Str Base.Float Base.GoVal
  Schema.Regex Schema.Units Schema.Syntax Schema.Ops Schema.Wf Schema.Total
  Proofs.C04Inv Proofs.OpsEq Proofs.C04NoPanic.
Open Scope string_scope.

Definition use_local (e : env) (s : schema) : bool :=
  match s with
  | SScope objs root =>
      nodup_str (map fst objs) && forallb (fun io => is_obj (snd io)) objs && amem root objs
  | _ => wf_local e s
  end.
Definition wf_use (e : env) (s : schema) : bool := all_env use_local e && all_nodes use_local e s.

(* the conjunct of wf_schema that no operation reads *)
Definition ids_local (e : env) (s : schema) : bool :=
  match s with
  | SScope objs _ => forallb (fun io => obj_has_id (fst io) (snd io)) objs
  | _ => true
  end.
Definition ids_ok (e : env) (s : schema) : bool := all_env ids_local e && all_nodes ids_local e s.

Lemma c10_forallb_ext {A} (f g : A -> bool) l : (forall x, f x = g x) -> forallb f l = forallb g l.
Proof. intros H. induction l as [|x t IH]; cbn; [reflexivity|]. rewrite H, IH. reflexivity. Qed.

Lemma c10_has_id_is_obj (objs : list (string * schema)) :
  forallb (fun io => obj_has_id (fst io) (snd io)) objs = true -> forallb (fun io => is_obj (snd io)) objs = true.
Proof.
  induction objs as [|[i o] t IH]; cbn; [reflexivity|]. intros H. apply andb_prop in H as [H1 H2].
  rewrite (IH H2). destruct o; try discriminate. reflexivity.
Qed.

Lemma wf_local_split e s : wf_local e s = use_local e s && ids_local e s.
Proof.
  destruct s; cbn [wf_local use_local ids_local]; try (rewrite Bool.andb_true_r; reflexivity).
  destruct (forallb (fun io => obj_has_id (fst io) (snd io)) objs) eqn:E.
  - rewrite (c10_has_id_is_obj _ E). destruct (nodup_str (map fst objs)), (amem root objs); reflexivity.
  - destruct (nodup_str (map fst objs)), (forallb (fun io => is_obj (snd io)) objs), (amem root objs); reflexivity.
Qed.

Lemma all_nodes_ext P Q : (forall e s, P e s = Q e s) -> forall s e, all_nodes P e s = all_nodes Q e s.
Proof.
  intros H. induction s using schema_ind'; intros e.
  - destruct s; try discriminate; cbn; rewrite H; reflexivity.
  - cbn. rewrite H, IHs. reflexivity.
  - cbn. rewrite H, IHs1, IHs2. reflexivity.
  - cbn. rewrite H. f_equal. apply forallb_ext_in. eapply Forall_impl; [|exact H0]. intros np Hnp. apply Hnp.
  - cbn. rewrite H. f_equal. apply forallb_ext_in. eapply Forall_impl; [|exact H0]. intros km Hkm. apply Hkm.
  - cbn. rewrite H. f_equal. apply forallb_ext_in. eapply Forall_impl; [|exact H0]. intros io Hio. apply Hio.
Qed.

Lemma all_env_ext P Q : (forall e s, P e s = Q e s) -> forall e, all_env P e = all_env Q e.
Proof.
  intros H e. unfold all_env, all_tab. f_equal.
  - apply c10_forallb_ext. intros io. apply all_nodes_ext. exact H.
  - apply c10_forallb_ext. intros nt. apply c10_forallb_ext. intros io. apply all_nodes_ext. exact H.
Qed.

(* the exact relation between C04's well-formedness and the part of it that is used *)
Theorem wf_schema_iff_use e s : wf_schema e s = true <-> wf_use e s = true /\ ids_ok e s = true.
Proof.
  unfold wf_schema, wf_use, ids_ok.
  rewrite (all_env_ext _ _ wf_local_split e), (all_nodes_ext _ _ wf_local_split s e).
  rewrite !Bool.andb_true_iff.
  pose proof (inv_and use_local ids_local e s) as H. unfold Inv in H. tauto.
Qed.

Corollary wf_schema_use e s : wf_schema e s = true -> wf_use e s = true.
Proof. intros H. apply wf_schema_iff_use in H. tauto. Qed.

Lemma use_inv e s : wf_use e s = true -> Inv use_local e s.
Proof. unfold wf_use, Inv. intros H. apply andb_prop in H. exact H. Qed.

(* ---------- the facts use_local provides at the panicking sites ---------- *)
Lemma u_ref_resolves e id ns d : use_local e (SRef id ns d) = true -> resolve e id ns <> None.
Proof. exact (wf_ref_resolves e id ns d). Qed.

Lemma u_ref_obj e id ns d o e' :
  use_local e (SRef id ns d) = true -> resolve e id ns = Some (o, e') -> is_obj o = true.
Proof. exact (wf_ref_obj e id ns d o e'). Qed.

Lemma u_scope_root e objs root : use_local e (SScope objs root) = true -> alookup root objs <> None.
Proof.
  cbn. intros H. apply andb_prop in H as [_ H]. unfold amem in H.
  destruct (alookup root objs); congruence.
Qed.

Lemma u_scope_obj e objs root o :
  use_local e (SScope objs root) = true -> alookup root objs = Some o -> is_obj o = true.
Proof.
  cbn. intros H L. apply andb_prop in H as [H _]. apply andb_prop in H as [_ H].
  rewrite forallb_forall in H. apply alookup_in in L. exact (H _ L).
Qed.

Lemma u_member_objlike e types ik fld inld km :
  use_local e (SOneOf types ik fld inld) = true -> In km types -> objlike (snd km) = true.
Proof. exact (wf_member_objlike e types ik fld inld km). Qed.

Lemma u_object_nodup e id u props : use_local e (SObject id u props) = true -> nodup_str (map fst props) = true.
Proof. cbn. intros H. apply andb_prop in H. tauto. Qed.

Section NoPanicUse.
Variable words : list (string * bool).
Variable pu : units -> string -> option fl.

Notation unser := (unser words pu).
Notation validate := (validate words pu).
Notation serialize := (serialize words pu).
Notation compat := (compat words pu).
Notation oneof_find := (oneof_find words pu).
Notation WU := (Inv use_local).

Lemma u_ser_objlike_map f e m v x :
  WU e m -> objlike m = true -> serialize f e m v = Ok x -> exists kvs, is_str_any_map x = Some kvs.
Proof.
  intros Hinv Hl H. destruct m; try discriminate.
  - eapply ser_obj_map; eauto.
  - destruct f as [|f]; [discriminate|]. rewrite (serialize_S words pu) in H; cbv beta iota zeta in H.
    destruct (resolve e id ns) as [[o e']|] eqn:R; [|discriminate].
    pose proof (u_ref_obj _ _ _ _ _ _ (inv_here _ _ _ Hinv) R) as Ho.
    destruct o; try discriminate. eapply ser_obj_map; eauto.
  - destruct f as [|f]; [discriminate|]. rewrite (serialize_S words pu) in H; cbv beta iota zeta in H.
    destruct (alookup root objs) as [o|] eqn:R; [|discriminate].
    pose proof (u_scope_obj _ _ _ _ (inv_here _ _ _ Hinv) R) as Ho.
    destruct o; try discriminate. eapply ser_obj_map; eauto.
Qed.

Definition np_use_at (f : nat) : Prop :=
  (forall e s v, WU e s -> np (unser f e s v)) /\
  (forall e s v, WU e s -> np (validate f e s v)) /\
  (forall e types ik fld inld v, WU e (SOneOf types ik fld inld) -> np (oneof_find f e types ik fld inld v)) /\
  (forall e s v, WU e s -> np (serialize f e s v)) /\
  (forall e s v, WU e s -> np (compat f e s v)).

(* Inv of the node an operation moves to *)
Ltac invu_next :=
  match goal with
  | H : WU ?e (SList ?it _ _) |- WU ?e ?it => exact (inv_list _ _ _ _ _ H)
  | H : WU ?e (SMap ?k _ _ _) |- WU ?e ?k => exact (inv_map_k _ _ _ _ _ _ H)
  | H : WU ?e (SMap _ ?v _ _) |- WU ?e ?v => exact (inv_map_v _ _ _ _ _ _ H)
  | H : WU ?e (SObject _ _ ?props), I0 : In ?np ?props |- WU ?e (p_type (snd ?np)) => exact (inv_prop _ _ _ _ _ _ H I0)
  | H : WU ?e (SObject _ _ ?props), L : alookup ?k ?props = Some ?p |- WU ?e (p_type ?p) =>
      exact (inv_prop _ _ _ _ _ (k, p) H (alookup_in _ _ _ L))
  | H : WU ?e (SObject _ _ [(?n, ?p)]) |- WU ?e (p_type ?p) => exact (inv_prop _ _ _ _ _ (n, p) H (or_introl eq_refl))
  | H : WU ?e (SOneOf ?types _ _ _), I0 : In (?k, ?m) ?types |- WU ?e ?m => exact (inv_member _ _ _ _ _ _ (k, m) H I0)
  | H : WU ?e (SRef ?id ?ns _), R : resolve ?e ?id ?ns = Some (?o, ?e') |- WU ?e' ?o => exact (inv_ref _ _ _ _ _ _ _ H R)
  | H : WU ?e (SScope ?objs ?root), R : alookup ?root ?objs = Some ?o |- WU (env_enter ?e ?objs) ?o => exact (inv_scope _ _ _ _ _ H R)
  | H : WU ?e ?s |- WU ?e ?s => exact H
  end.

Lemma np_use_all : forall f, np_use_at f.
Proof.
  induction f as [|f IH].
  { repeat split; intros; exact I. }
  destruct IH as (IHu & IHv & IHo & IHs & IHc).
  pose proof (np_any_conv f) as IHa.
  Ltac finu_with IHu IHv IHo IHs IHc IHa :=
    first [ np_leaf | apply IHa
          | apply IHu; invu_next | apply IHv; invu_next | apply IHs; invu_next | apply IHc; invu_next
          | apply IHo; invu_next ].
  assert (HO : forall e types ik fld inld v, WU e (SOneOf types ik fld inld) -> np (oneof_find (S f) e types ik fld inld v)).
  { intros e types ik fld inld v Hinv. rewrite (oneof_find_S words pu); cbv beta iota zeta.
    repeat np_step ltac:(idtac;
      try match goal with
          | E : find _ ?ts = Some (_, _) |- _ => apply find_some in E as [E _]
          end;
      finu_with IHu IHv IHo IHs IHc IHa). }
  assert (HU : forall e s v, WU e s -> np (unser (S f) e s v)).
  { intros e s v Hinv. destruct s; rewrite (unser_S words pu); cbv beta iota zeta; try np_leaf; try (apply IHa).
    - (* list *) repeat np_step ltac:(finu_with IHu IHv IHo IHs IHc IHa).
    - (* map *) repeat np_step ltac:(finu_with IHu IHv IHo IHs IHc IHa).
    - (* object *)
      destruct v; try (repeat np_step ltac:(finu_with IHu IHv IHo IHs IHc IHa)).
    - (* one-of *)
      repeat np_step ltac:(idtac;
        try match goal with
            | E : find _ ?ts = Some (_, _) |- _ => apply find_some in E as [E _]
            end;
        finu_with IHu IHv IHo IHs IHc IHa).
    - (* ref *)
      destruct (resolve e id ns) as [[o e']|] eqn:R.
      + apply IHu; invu_next.
      + exfalso. exact (u_ref_resolves _ _ _ _ (inv_here _ _ _ Hinv) R).
    - (* scope *)
      destruct (alookup root objs) as [o|] eqn:R.
      + apply IHu; invu_next.
      + exfalso. exact (u_scope_root _ _ _ (inv_here _ _ _ Hinv) R). }
  assert (HV : forall e s v, WU e s -> np (validate (S f) e s v)).
  { intros e s v Hinv. destruct s; rewrite (validate_S words pu); cbv beta iota zeta;
      try (apply np_bind; [first [np_leaf | apply IHa] | intros; exact I]).
    - repeat np_step ltac:(finu_with IHu IHv IHo IHs IHc IHa).
    - repeat np_step ltac:(finu_with IHu IHv IHo IHs IHc IHa).
    - repeat np_step ltac:(finu_with IHu IHv IHo IHs IHc IHa).
    - apply np_bind; [apply IHo; exact Hinv|]. intros [[key member] data'] Hok.
      apply oneof_find_ok in Hok as (t & b & kvs & k & -> & Hin & ->).
      apply np_map_err. apply IHv. invu_next.
    - destruct (resolve e id ns) as [[o e']|] eqn:R.
      + apply IHv; invu_next.
      + exfalso. exact (u_ref_resolves _ _ _ _ (inv_here _ _ _ Hinv) R).
    - destruct (alookup root objs) as [o|] eqn:R.
      + apply IHv; invu_next.
      + exfalso. exact (u_scope_root _ _ _ (inv_here _ _ _ Hinv) R). }
  assert (HS : forall e s v, WU e s -> np (serialize (S f) e s v)).
  { intros e s v Hinv. destruct s; rewrite (serialize_S words pu); cbv beta iota zeta; try np_leaf; try (apply IHa).
    - repeat np_step ltac:(finu_with IHu IHv IHo IHs IHc IHa).
    - repeat np_step ltac:(finu_with IHu IHv IHo IHs IHc IHa).
    - repeat np_step ltac:(finu_with IHu IHv IHo IHs IHc IHa).
    - apply np_bind; [apply IHo; exact Hinv|]. intros [[key member] data'] Hok.
      apply oneof_find_ok in Hok as (t & b & kvs & k & -> & Hin & ->).
      assert (Hm : WU e member) by invu_next.
      apply np_bind; [apply IHs; exact Hm|]. intros x Hx.
      pose proof (u_member_objlike _ _ _ _ _ (k, member) (inv_here _ _ _ Hinv) Hin) as Hl.
      destruct (u_ser_objlike_map _ _ _ _ _ Hm Hl Hx) as [xs ->].
      repeat np_step idtac.
    - destruct (resolve e id ns) as [[o e']|] eqn:R.
      + apply IHs; invu_next.
      + exfalso. exact (u_ref_resolves _ _ _ _ (inv_here _ _ _ Hinv) R).
    - destruct (alookup root objs) as [o|] eqn:R.
      + apply IHs; invu_next.
      + exfalso. exact (u_scope_root _ _ _ (inv_here _ _ _ Hinv) R). }
  assert (HC : forall e s v, WU e s -> np (compat (S f) e s v)).
  { intros e s v Hinv. destruct s; rewrite (compat_S words pu); cbv beta iota zeta.
    1-8: repeat np_step ltac:(finu_with IHu IHv IHo IHs IHc IHa).
    - repeat np_step ltac:(finu_with IHu IHv IHo IHs IHc IHa).
    - repeat np_step ltac:(finu_with IHu IHv IHo IHs IHc IHa).
    - repeat np_step ltac:(finu_with IHu IHv IHo IHs IHc IHa).
    - repeat np_step ltac:(finu_with IHu IHv IHo IHs IHc IHa).
    - destruct (resolve e id ns) as [[o e']|] eqn:R.
      + apply IHc; invu_next.
      + exfalso. exact (u_ref_resolves _ _ _ _ (inv_here _ _ _ Hinv) R).
    - destruct (alookup root objs) as [o|] eqn:R.
      + apply IHc; invu_next.
      + exfalso. exact (u_scope_root _ _ _ (inv_here _ _ _ Hinv) R). }
  repeat split; assumption.
Qed.

End NoPanicUse.
