(* Proofs/C04Term.v — half (B) of totality: with at least `fuel_bound` fuel no operation returns
   OutOfFuel, i.e. the operations terminate.  Measure: the depth of the value (every consuming step
   goes to a strictly shallower value), inside one level the length of the non-consuming walk
   (`chain`, bounded by no_inline_cycle), and a constant for the hops between the five mutually
   recursive functions on the same node.  A declared default replaces the input, so its processing
   is bounded by hypothesis (defaults_total K) and fuel monotonicity. *)
From Coq Require Import Lia.
From Verif Require Import Base.Prelude Base.Str Base.Float Base.GoVal
  Schema.Regex Schema.Units Schema.Syntax Schema.Ops Schema.Wf Schema.Total
  Proofs.MonoEq Proofs.C04Inv Proofs.OpsEq Proofs.C04NoPanic.

Definition fin {A} (o : outcome A) : Prop := match o with OutOfFuel => False | _ => True end.

Lemma fin_bind {A B} (o : outcome A) (k : A -> outcome B) :
  fin o -> (forall a, o = Ok a -> fin (k a)) -> fin (bind o k).
Proof. destruct o; cbn; auto. Qed.

Lemma fin_map_err {A} g (o : outcome A) : fin o -> fin (map_err g o).
Proof. destruct o; cbn; auto. Qed.

Lemma fin_mapMi {A B} (g : Z -> A -> outcome B) l : forall i,
  (forall j x, In x l -> fin (g j x)) -> fin (mapMi g i l).
Proof.
  induction l as [|x t IH]; intros i H; cbn; [exact I|].
  apply fin_bind; [apply H; now left|]. intros y _.
  apply fin_bind; [apply IH; intros; apply H; now right|]. intros; exact I.
Qed.

Lemma fin_mapM {A B} (g : A -> outcome B) l : (forall x, In x l -> fin (g x)) -> fin (mapM g l).
Proof.
  induction l as [|x t IH]; intros H; cbn; [exact I|].
  apply fin_bind; [apply H; now left|]. intros y _.
  apply fin_bind; [apply IH; intros; apply H; now right|]. intros; exact I.
Qed.

Lemma fin_forM {A} (g : A -> outcome unit) l : (forall x, In x l -> fin (g x)) -> fin (forM_ g l).
Proof.
  induction l as [|x t IH]; intros H; cbn; [exact I|].
  apply fin_bind; [apply H; now left|]. intros y _. apply IH; intros; apply H; now right.
Qed.

Lemma fin_fold {A B} (st : outcome B -> A -> outcome B) l : forall acc,
  fin acc -> (forall a x, In x l -> fin a -> fin (st a x)) -> fin (fold_left st l acc).
Proof.
  induction l as [|x t IH]; intros acc Ha Hs; cbn; [exact Ha|].
  apply IH; [apply Hs; [now left | exact Ha]|]. intros; apply Hs; [now right | assumption].
Qed.

Ltac fin_step fin_tac :=
  match goal with
  | |- fin (Ok _) => exact I
  | |- fin (Err _) => exact I
  | |- fin (Panic _) => exact I
  | |- True => exact I
  | H : fin ?a |- fin ?a => exact H
  | |- fin (bind _ _) => apply fin_bind; [| intros ? ?]
  | |- fin (seg _ _) => apply fin_map_err
  | |- fin (rewrap _ _) => apply fin_map_err
  | |- fin (rewrap_path _) => apply fin_map_err
  | |- fin (map_err _ _) => apply fin_map_err
  | |- fin (mapMi _ _ _) => apply fin_mapMi; intros ? ? ?
  | |- fin (mapM _ _) => apply fin_mapM; intros ? ?
  | |- fin (forM_ _ _) => apply fin_forM; intros ? ?
  | |- fin (fold_left _ _ _) => apply fin_fold; [| intros ? ? ? ?]
  | |- fin (let '(_, _) := ?d in _) => destruct d
  | |- fin (match ?d with _ => _ end) => destruct d eqn:?
  | |- _ => progress fin_tac
  end.

Ltac fin_scalar := repeat fin_step idtac.

Lemma fin_check_rules props set : fin (check_rules props set).
Proof. unfold check_rules. apply fin_forM. intros np0 _. unfold check_prop_rules. fin_scalar. Qed.
Lemma fin_int_unser mn mx u v : fin (int_unser mn mx u v).
Proof. unfold int_unser, int_bounds. fin_scalar. Qed.
Lemma fin_int_ser mn mx v : fin (int_ser mn mx v).
Proof. unfold int_ser, int_bounds. fin_scalar. Qed.
Lemma fin_float_unser pu mn mx u v : fin (float_unser pu mn mx u v).
Proof. unfold float_unser, float_bounds. fin_scalar. Qed.
Lemma fin_float_ser mn mx v : fin (float_ser mn mx v).
Proof. unfold float_ser, float_bounds. fin_scalar. Qed.
Lemma fin_string_check mn mx pat s : fin (string_check mn mx pat s).
Proof. unfold string_check. fin_scalar. Qed.
Lemma fin_string_unser mn mx pat v : fin (string_unser mn mx pat v).
Proof. unfold string_unser. destruct (string_mapper v); [apply fin_string_check | exact I]. Qed.
Lemma fin_string_ser mn mx pat v : fin (string_ser mn mx pat v).
Proof. unfold string_ser. destruct (conv_string v); [apply fin_string_check | exact I]. Qed.
Lemma fin_bool_unser w v : fin (bool_unser w v).
Proof. unfold bool_unser. fin_scalar. Qed.
Lemma fin_bool_ser v : fin (bool_ser v).
Proof. unfold bool_ser. fin_scalar. Qed.
Lemma fin_enum_int_unser vals u v : fin (enum_int_unser vals u v).
Proof. unfold enum_int_unser. fin_scalar. Qed.
Lemma fin_enum_int_ser vals v : fin (enum_int_ser vals v).
Proof. unfold enum_int_ser. fin_scalar. Qed.
Lemma fin_enum_str_unser n vals v : fin (enum_str_unser n vals v).
Proof. unfold enum_str_unser. fin_scalar. Qed.
Lemma fin_enum_str_ser vals v : fin (enum_str_ser vals v).
Proof. unfold enum_str_ser. fin_scalar. Qed.
Lemma fin_pattern_unser o v : fin (pattern_unser o v).
Proof. unfold pattern_unser. fin_scalar. Qed.
Lemma fin_pattern_validate v : fin (pattern_validate v).
Proof. unfold pattern_validate. fin_scalar. Qed.
Lemma fin_pattern_ser v : fin (pattern_ser v).
Proof. unfold pattern_ser. fin_scalar. Qed.

Ltac fin_leaf :=
  first [ apply fin_int_unser | apply fin_int_ser | apply fin_float_unser | apply fin_float_ser
        | apply fin_string_unser | apply fin_string_ser | apply fin_bool_unser | apply fin_bool_ser
        | apply fin_enum_int_unser | apply fin_enum_int_ser | apply fin_enum_str_unser | apply fin_enum_str_ser
        | apply fin_pattern_unser | apply fin_pattern_validate | apply fin_pattern_ser | apply fin_check_rules ].

(* ---------- depth of values ---------- *)
Lemma vdepth_pos v : (1 <= vdepth v)%nat.
Proof. destruct v; cbn; try lia. destruct o; lia. Qed.

Lemma fold_max_in {A} (g : A -> nat) l x :
  In x l -> (g x <= fold_right (fun y acc => Nat.max (g y) acc) O l)%nat.
Proof.
  induction l as [|y t IH]; cbn; [tauto|]. intros [->|H]; [lia|]. specialize (IH H). lia.
Qed.

Lemma fold_max_le {A} (g : A -> nat) l d :
  (forall x, In x l -> (g x <= d)%nat) -> (fold_right (fun y acc => Nat.max (g y) acc) O l <= d)%nat.
Proof.
  induction l as [|y t IH]; cbn; intros H; [lia|].
  pose proof (H y (or_introl eq_refl)). assert (forall x, In x t -> (g x <= d)%nat) by (intros; apply H; now right).
  specialize (IH H1). lia.
Qed.

Lemma vdepth_slice_in t b l x : In x l -> (vdepth x < vdepth (VSlice t b l))%nat.
Proof. intros H. cbn [vdepth]. pose proof (fold_max_in vdepth l x H). lia. Qed.

Lemma vdepth_map_in t b kvs kv :
  In kv kvs -> (vdepth (fst kv) < vdepth (VMap t b kvs))%nat /\ (vdepth (snd kv) < vdepth (VMap t b kvs))%nat.
Proof.
  intros H. cbn [vdepth].
  pose proof (fold_max_in (fun kv => Nat.max (vdepth (fst kv)) (vdepth (snd kv))) kvs kv H). cbn in H0. lia.
Qed.

Lemma vdepth_map_sub t b kvs t' b' kvs' :
  (forall kv, In kv kvs' -> In kv kvs) -> (vdepth (VMap t' b' kvs') <= vdepth (VMap t b kvs))%nat.
Proof.
  intros H. cbn [vdepth]. apply le_n_S.
  apply (fold_max_le (fun kv => Nat.max (vdepth (fst kv)) (vdepth (snd kv)))).
  intros kv Hin. apply (fold_max_in (fun kv => Nat.max (vdepth (fst kv)) (vdepth (snd kv)))). now apply H.
Qed.

Lemma smap_del_sub fld kvs kv : In kv (smap_del fld kvs) -> In kv kvs.
Proof.
  induction kvs as [|[k v] t IH]; cbn; [tauto|].
  destruct k; cbn; try (intros [<-|H]; [now left | right; now apply IH]).
  destruct (String.eqb fld s).
  - intros H. right. now apply IH.
  - intros [<-|H]; [now left | right; now apply IH].
Qed.

Lemma smap_get_in fld kvs d : smap_get fld kvs = Some d -> exists k, In (k, d) kvs.
Proof.
  induction kvs as [|[k v] t IH]; cbn; [discriminate|].
  destruct k; try (intros H; destruct (IH H) as [k' Hk]; exists k'; now right).
  destruct (String.eqb fld s).
  - intros H. inversion H; subst. eexists. left. reflexivity.
  - intros H; destruct (IH H) as [k' Hk]; exists k'; now right.
Qed.

Lemma raw_of_entries_in kvs k d : In (k, d) (raw_of_entries kvs) -> exists k', In (k', d) kvs.
Proof.
  unfold raw_of_entries. rewrite in_flat_map. intros [[k0 v0] [Hin H]]. cbn in H.
  destruct k0; cbn in H; try tauto. destruct H as [H|[]]. inversion H; subst. eauto.
Qed.

(* ---------- any_conv terminates on every value within its depth ---------- *)
Ltac depth_hyps :=
  repeat match goal with
         | Hin : In ?x ?l, Hd : context [VSlice ?t ?b ?l] |- _ =>
             lazymatch goal with
             | _ : (vdepth x < vdepth (VSlice t b l))%nat |- _ => fail
             | _ => pose proof (vdepth_slice_in t b l x Hin)
             end
         | Hin : In ?kv ?l, Hd : context [VMap ?t ?b ?l] |- _ =>
             lazymatch goal with
             | _ : (vdepth (fst kv) < vdepth (VMap t b l))%nat /\ _ |- _ => fail
             | _ => pose proof (vdepth_map_in t b l kv Hin)
             end
         end.

Lemma fin_any_conv : forall f v, (vdepth v < f)%nat -> fin (any_conv f v).
Proof.
  induction f as [|f IH]; intros v Hd; [lia|].
  cbn [any_conv].
  repeat fin_step ltac:(first [fin_leaf | apply IH; depth_hyps; lia]).
Qed.

(* ---------- the main induction ---------- *)
Section Term.
Variable words : list (string * bool).
Variable pu : units -> string -> option fl.
Variable K N : nat.

Notation unser := (unser words pu).
Notation validate := (validate words pu).
Notation serialize := (serialize words pu).
Notation compat := (compat words pu).
Notation oneof_find := (oneof_find words pu).

Definition P3 (e : env) (s : schema) : bool :=
  wf_local e s && (nic_local N e s && dflt_local words pu K e s).
Notation I3 := (Inv P3).

Definition need (d c off : nat) : nat := (K + 2 + level_cost N * d + 4 * c + off)%nat.
Definition chn (b : bool) (e : env) (s : schema) (c : nat) : Prop :=
  exists c', chain N b e s = Some c' /\ (c' <= c)%nat.

Lemma need_child d c c2 o o2 f :
  (c2 <= N)%nat -> (o2 <= 2)%nat -> (need (S d) c o <= S f)%nat -> (need d c2 o2 <= f)%nat.
Proof. unfold need, level_cost. intros. nia. Qed.
Lemma need_hop d c c2 o o2 f :
  (c2 < c)%nat -> (o2 <= 2)%nat -> (need d c o <= S f)%nat -> (need d c2 o2 <= f)%nat.
Proof. unfold need. intros. lia. Qed.
Lemma need_same d c o o2 f : (o2 < o)%nat -> (need d c o <= S f)%nat -> (need d c o2 <= f)%nat.
Proof. unfold need. intros. lia. Qed.
Lemma need_any d c o f v : (vdepth v <= S d)%nat -> (need (S d) c o <= S f)%nat -> (vdepth v < f)%nat.
Proof. unfold need, level_cost. intros. nia. Qed.
Lemma need_K d c o f : (need d c o <= S f)%nat -> (K <= f)%nat.
Proof. unfold need. intros. lia. Qed.

Lemma i3_nic e s b : I3 e s -> exists c, chain N b e s = Some c /\ (c <= N)%nat.
Proof.
  intros H. apply inv_here in H. unfold P3 in H. apply andb_prop in H as [_ H]. apply andb_prop in H as [H _].
  unfold nic_local in H. apply andb_prop in H as [H1 H2].
  destruct b.
  - destruct (chain N true e s) as [c|] eqn:E; [|discriminate]. exists c. split; [reflexivity|]. eapply chain_le; eauto.
  - destruct (chain N false e s) as [c|] eqn:E; [|discriminate]. exists c. split; [reflexivity|]. eapply chain_le; eauto.
Qed.

Lemma chain_S n b e s :
  chain (S n) b e s =
  match s with
  | SObject _ _ props =>
      if b then Some O
      else match props with
           | [(_, p)] => osucc (chain n false e (p_type p))
           | _ => Some O
           end
  | SOneOf types _ _ _ =>
      if b then osucc (fold_right (fun km acc => omax (chain n true e (snd km)) acc) (Some O) types)
      else Some O
  | SRef id ns _ =>
      match resolve e id ns with
      | Some (o, e') => osucc (chain n b e' o)
      | None => Some O
      end
  | SScope objs root =>
      match alookup root objs with
      | Some o => osucc (chain n b (env_enter e objs) o)
      | None => Some O
      end
  | _ => Some O
  end.
Proof. reflexivity. Qed.

Lemma chain_mono : forall n b e s c, chain n b e s = Some c -> chain (S n) b e s = Some c.
Proof.
  induction n as [|n IH]; intros b e s c H; [discriminate|].
  rewrite chain_S in H. rewrite (chain_S (S n)).
  destruct s; try exact H.
  - destruct b; [exact H|]. destruct props as [|[n0 p] [|]]; try exact H.
    destruct (chain n false e (p_type p)) eqn:E; [|discriminate]. now rewrite (IH _ _ _ _ E).
  - destruct b; [|exact H].
    assert (Hf : forall o, fold_right (fun km acc => omax (chain n true e (snd km)) acc) (Some O) types = Some o ->
                           fold_right (fun km acc => omax (chain (S n) true e (snd km)) acc) (Some O) types = Some o).
    { clear H. induction types as [|km t IHt]; intros o Ho; [exact Ho|]. cbn [fold_right] in *.
      destruct (chain n true e (snd km)) eqn:E1; [|discriminate].
      destruct (fold_right (fun km0 acc => omax (chain n true e (snd km0)) acc) (Some O) t) eqn:E2; [|discriminate].
      rewrite (IH _ _ _ _ E1), (IHt _ eq_refl). exact Ho. }
    destruct (fold_right (fun km acc => omax (chain n true e (snd km)) acc) (Some O) types) eqn:E; [|discriminate].
    now rewrite (Hf _ eq_refl).
  - destruct (resolve e id ns) as [[o e']|]; [|exact H].
    destruct (chain n b e' o) eqn:E; [|discriminate]. now rewrite (IH _ _ _ _ E).
  - destruct (alookup root objs); [|exact H].
    destruct (chain n b (env_enter e objs) s) eqn:E; [|discriminate]. now rewrite (IH _ _ _ _ E).
Qed.

(* one non-consuming step: the successor's chain is one shorter (at the same bound N) *)
Lemma chn_step b e s c e2 s2 :
  chn b e s c ->
  (forall n, chain (S n) b e s = osucc (chain n b e2 s2)) ->
  exists c2, chn b e2 s2 c2 /\ (c2 < c)%nat.
Proof.
  intros (c' & Hc & Hle) Hstep.
  destruct N as [|n] eqn:EN; try rewrite EN in Hc; [discriminate|].
  rewrite Hstep in Hc. destruct (chain n b e2 s2) as [c2|] eqn:E; [|discriminate].
  inversion Hc; subst c'. exists c2. split; [|lia].
  exists c2. split; [|lia]. rewrite EN. now apply chain_mono.
Qed.


Lemma chn_member e types ik fld inld c km :
  chn true e (SOneOf types ik fld inld) c -> In km types -> exists c2, chn true e (snd km) c2 /\ (c2 < c)%nat.
Proof.
  intros (c' & Hc & Hle) Hin.
  destruct N as [|n] eqn:EN; try rewrite EN in Hc; [discriminate|]. rewrite chain_S in Hc.
  destruct (fold_right (fun km acc => omax (chain n true e (snd km)) acc) (Some O) types) as [m|] eqn:E; [|discriminate].
  inversion Hc; subst c'.
  assert (Hm : exists c2, chain n true e (snd km) = Some c2 /\ (c2 <= m)%nat).
  { clear Hc Hle. revert m E. induction types as [|km0 t IH]; intros m E; [destruct Hin|].
    cbn [fold_right] in E. destruct (chain n true e (snd km0)) as [x|] eqn:E1; [|discriminate].
    destruct (fold_right _ _ t) as [y|] eqn:E2; [|discriminate]. inversion E; subst m.
    destruct Hin as [->|Hin].
    - exists x. split; [exact E1 | lia].
    - destruct (IH Hin y eq_refl) as (c2 & H1 & H2). exists c2. split; [exact H1 | lia]. }
  destruct Hm as (c2 & H1 & H2). exists c2. split; [|lia].
  exists c2. split; [|lia]. rewrite EN. now apply chain_mono.
Qed.

Lemma i3_wf e s : I3 e s -> wf_local e s = true.
Proof. intros H. apply inv_here in H. unfold P3 in H. apply andb_prop in H. tauto. Qed.

Lemma i3_dflt e s : I3 e s -> dflt_local words pu K e s = true.
Proof. intros H. apply inv_here in H. unfold P3 in H. apply andb_prop in H as [_ H]. apply andb_prop in H. tauto. Qed.

Lemma raw_entries_depth t b kvs kv :
  In kv (raw_of_entries kvs) -> (vdepth (snd kv) < vdepth (VMap t b kvs))%nat.
Proof.
  destruct kv as [k d0]. intros H. apply raw_of_entries_in in H as [k' Hk].
  apply (vdepth_map_in t b) in Hk. cbn in *. lia.
Qed.

(* ---- the object case of Unserialize: which value a property is unserialized from ---- *)
Lemma nodup_str_in x l : nodup_str (x :: l) = true -> str_in x l = false /\ nodup_str l = true.
Proof. cbn. intros H. apply andb_prop in H as [H1 H2]. destruct (str_in x l); [discriminate|tauto]. Qed.

Lemma str_in_In x l : In x l -> str_in x l = true.
Proof.
  induction l as [|y t IH]; cbn; [tauto|]. intros [->|H].
  - now rewrite String.eqb_refl.
  - rewrite (IH H). apply orb_true_r.
Qed.

Lemma nodup_fst_inj {A} (l : list (string * A)) x y :
  nodup_str (map fst l) = true -> In x l -> In y l -> fst x = fst y -> x = y.
Proof.
  induction l as [|a t IH]; intros Hnd Hx Hy Heq; [destruct Hx|].
  cbn [map] in Hnd. apply nodup_str_in in Hnd as [Hnin Hnd].
  destruct Hx as [->|Hx], Hy as [->|Hy]; auto.
  - exfalso. rewrite Heq in Hnin. rewrite (str_in_In (fst y) (map fst t)) in Hnin; [discriminate|now apply in_map].
  - exfalso. rewrite <- Heq in Hnin. rewrite (str_in_In (fst x) (map fst t)) in Hnin; [discriminate|now apply in_map].
Qed.

Lemma alookup_raw_set_other k k2 x (a : raw) : k <> k2 -> alookup k2 (raw_set k x a) = alookup k2 a.
Proof.
  intros Hne. unfold raw_set. destruct (amem k a).
  - induction a as [|[k' v'] t IH]; cbn; [reflexivity|].
    destruct (String.eqb k' k) eqn:E; cbn.
    + apply String.eqb_eq in E. subst k'.
      destruct (String.eqb k2 k) eqn:E2; [apply String.eqb_eq in E2; congruence|]. exact IH.
    + destruct (String.eqb k2 k'); [reflexivity | exact IH].
  - induction a as [|[k' v'] t IH]; cbn.
    + destruct (String.eqb k2 k) eqn:E2; [apply String.eqb_eq in E2; congruence | reflexivity].
    + destruct (String.eqb k2 k'); [reflexivity | exact IH].
Qed.

(* the fold that unserializes every present property: it is enough that each property is handled
   on the value it finds under its own name in the ORIGINAL raw map (names are unique) *)
Lemma fin_props_fold (G : string * property -> gval -> outcome gval) :
  forall (rest : list (string * property)) (a0 : raw) acc,
  nodup_str (map fst rest) = true ->
  fin acc ->
  (forall a, acc = Ok a -> forall np, In np rest -> alookup (fst np) a = alookup (fst np) a0) ->
  (forall np d0, In np rest -> alookup (fst np) a0 = Some d0 -> fin (G np d0)) ->
  fin (fold_left (fun acc np =>
                    a <- acc ;;
                    match alookup (fst np) a with
                    | Some d0 => x <- seg (fst np) (G np d0) ;; Ok (raw_set (fst np) x a)
                    | None => Ok a
                    end) rest acc).
Proof.
  induction rest as [|np t IH]; intros a0 acc Hnd Hacc Hlook HG; cbn [fold_left]; [exact Hacc|].
  cbn [map] in Hnd. apply nodup_str_in in Hnd as [Hnin Hnd].
  apply (IH a0); [exact Hnd| | |].
  - apply fin_bind; [exact Hacc|]. intros a Ha.
    destruct (alookup (fst np) a) as [d0|] eqn:El; [|exact I].
    apply fin_bind; [|intros; exact I]. apply fin_map_err. apply HG; [now left|].
    rewrite <- (Hlook a Ha np (or_introl eq_refl)). exact El.
  - intros a' Ha' np2 Hin2.
    destruct acc as [a| | |]; cbn [bind] in Ha'; try discriminate.
    assert (Hne : fst np <> fst np2).
    { intros Heq. rewrite Heq in Hnin. rewrite (str_in_In (fst np2) (map fst t)) in Hnin; [discriminate|].
      now apply in_map. }
    rewrite <- (Hlook a eq_refl np2 (or_intror Hin2)).
    destruct (alookup (fst np) a) as [d0|] eqn:El.
    + destruct (seg (fst np) (G np d0)) as [x| | |]; cbn [bind] in Ha'; try discriminate.
      inversion Ha'; subst a'. now apply alookup_raw_set_other.
    + inversion Ha'; subst a'. reflexivity.
  - intros np2 d0 Hin2. apply HG. now right.
Qed.

(* the value found in r1 (input entries, then defaults of absent properties) for a property *)
Lemma r1_lookup (o : oracles) (props : list (string * property)) : forall (r0 : raw) name d0,
  alookup name (fold_left (fun a np =>
                  if amem (fst np) a then a
                  else match p_default (snd np) with
                       | Some txt => match decode_default o (snd np) txt with
                                     | Some d => (a ++ [(fst np, d)])%list
                                     | None => a
                                     end
                       | None => a
                       end) props r0) = Some d0 ->
  alookup name r0 = Some d0 \/
  exists np txt, In np props /\ fst np = name /\ p_default (snd np) = Some txt /\ decode_default o (snd np) txt = Some d0.
Proof.
  induction props as [|np t IH]; intros r0 name d0 H; cbn [fold_left] in H; [now left|].
  apply IH in H as [H|(np2 & txt & Hin & Hn & Hd & Hdec)].
  - revert H.
    match goal with |- context [if ?c then _ else _] => destruct c eqn:Em end; [intros H; left; exact H|].
    match goal with |- context [match ?c with Some _ => _ | None => _ end] => destruct c as [txt|] eqn:Ed end; [|intros H; left; exact H].
    match goal with |- context [match ?c with Some _ => _ | None => _ end] => destruct c as [d|] eqn:Edec end; [|intros H; left; exact H].
    intros H.
    assert (Happ : forall (l : raw), alookup name (l ++ [(fst np, d)]) = Some d0 ->
                   alookup name l = Some d0 \/ (alookup name l = None /\ name = fst np /\ d = d0)).
    { induction l as [|[k v] l IHl]; cbn.
      - destruct (String.eqb name (fst np)) eqn:E; [|discriminate]. apply String.eqb_eq in E.
        intros H0; inversion H0; subst. right. auto.
      - destruct (String.eqb name k); [now left|]. exact IHl. }
    apply Happ in H as [H|(_ & Hn & Hd)]; [now left|]. subst. right. exists np, txt. repeat split; auto. now left.
  - right. exists np2, txt. repeat split; auto. now right.
Qed.

Lemma r0_values kvs (props : list (string * property)) : forall (acc0 : raw) r0,
  fold_left (fun acc kv =>
               a <- acc ;;
               match fst kv with
               | VStr TStr k => if amem k props then Ok (a ++ [(k, snd kv)])%list else Err (cerr EKey)
               | _ => Err (cerr EKey)
               end) kvs (Ok acc0) = Ok r0 ->
  forall k d0, In (k, d0) r0 -> In (k, d0) acc0 \/ exists kv, In kv kvs /\ d0 = snd kv.
Proof.
  induction kvs as [|kv t IH]; intros acc0 r0 H k d0 Hin; cbn [fold_left] in H.
  - inversion H; subst. now left.
  - cbn [bind] in H.
    destruct (fst kv) eqn:Ek; try (exfalso; clear - H; induction t; cbn in H; [discriminate|auto]).
    destruct t0; try (exfalso; clear - H; induction t; cbn in H; [discriminate|auto]).
    destruct (amem s props); [|exfalso; clear - H; induction t; cbn in H; [discriminate|auto]].
    destruct (IH _ _ H k d0 Hin) as [Hacc|(kv2 & Hin2 & ->)].
    + apply in_app_or in Hacc as [Hacc|[Heq|[]]]; [now left|]. inversion Heq; subst.
      right. exists kv. split; [now left | reflexivity].
    + right. exists kv2. split; [now right | reflexivity].
Qed.

Lemma dflt_prop_ok e (p : property) txt d0 :
  (match p_default p with
   | None => true
   | Some txt =>
       match decode_default (e_or e) p txt with
       | None => true
       | Some d => match unser K e (p_type p) d with OutOfFuel => false | _ => true end
       end
   end) = true ->
  p_default p = Some txt -> decode_default (e_or e) p txt = Some d0 -> unser K e (p_type p) d0 <> OutOfFuel.
Proof. intros H H1 H2. rewrite H1, H2 in H. destruct (unser K e (p_type p) d0); congruence. Qed.

Definition term_at (d c : nat) : Prop :=
  (forall f e s v, I3 e s -> (vdepth v <= d)%nat -> chn (is_vmap v) e s c -> (need d c 0 <= f)%nat -> fin (unser f e s v)) /\
  (forall f e s v, I3 e s -> (vdepth v <= d)%nat -> chn (is_vmap v) e s c -> (need d c 1 <= f)%nat -> fin (validate f e s v)) /\
  (forall f e types ik fld inld v, I3 e (SOneOf types ik fld inld) -> (vdepth v <= d)%nat ->
       chn (is_vmap v) e (SOneOf types ik fld inld) c -> (need d c 0 <= f)%nat -> fin (oneof_find f e types ik fld inld v)) /\
  (forall f e s v, I3 e s -> (vdepth v <= d)%nat -> chn (is_vmap v) e s c -> (need d c 2 <= f)%nat -> fin (serialize f e s v)) /\
  (forall f e s v, I3 e s -> (vdepth v <= d)%nat -> chn (is_vmap v) e s c -> (need d c 2 <= f)%nat -> fin (compat f e s v)).

(* calls on a strictly shallower value: by the outer induction hypothesis, at any node *)
Lemma child_calls d c off f :
  (forall c2, term_at d c2) -> (need (S d) c off <= S f)%nat ->
  (forall e s v, I3 e s -> (vdepth v <= d)%nat -> fin (unser f e s v)) /\
  (forall e s v, I3 e s -> (vdepth v <= d)%nat -> fin (validate f e s v)) /\
  (forall e s v, I3 e s -> (vdepth v <= d)%nat -> fin (serialize f e s v)) /\
  (forall e s v, I3 e s -> (vdepth v <= d)%nat -> fin (compat f e s v)).
Proof.
  intros IH Hn. repeat split; intros e s v Hinv Hd;
    destruct (i3_nic e s (is_vmap v) Hinv) as (c2 & Hc2 & Hle2);
    destruct (IH c2) as (Iu & Iv & _ & Is & Ic).
  - apply Iu; auto; [exists c2; split; [exact Hc2|lia] | eapply need_child; eauto].
  - apply Iv; auto; [exists c2; split; [exact Hc2|lia] | eapply need_child; eauto].
  - apply Is; auto; [exists c2; split; [exact Hc2|lia] | eapply need_child; eauto].
  - apply Ic; auto; [exists c2; split; [exact Hc2|lia] | eapply need_child; eauto].
Qed.

(* calls on the same value one step down the non-consuming walk: by the inner induction hypothesis *)
Lemma hop_calls d c off f :
  (forall c2, (c2 < c)%nat -> term_at d c2) -> (need d c off <= S f)%nat ->
  (forall e s v c2, I3 e s -> (vdepth v <= d)%nat -> chn (is_vmap v) e s c2 -> (c2 < c)%nat -> fin (unser f e s v)) /\
  (forall e s v c2, I3 e s -> (vdepth v <= d)%nat -> chn (is_vmap v) e s c2 -> (c2 < c)%nat -> fin (validate f e s v)) /\
  (forall e s v c2, I3 e s -> (vdepth v <= d)%nat -> chn (is_vmap v) e s c2 -> (c2 < c)%nat -> fin (serialize f e s v)) /\
  (forall e s v c2, I3 e s -> (vdepth v <= d)%nat -> chn (is_vmap v) e s c2 -> (c2 < c)%nat -> fin (compat f e s v)).
Proof.
  intros IH Hn. repeat split; intros e s v c2 Hinv Hd Hc Hlt; destruct (IH c2 Hlt) as (Iu & Iv & _ & Is & Ic).
  - apply Iu; auto. eapply need_hop; eauto.
  - apply Iv; auto. eapply need_hop; eauto.
  - apply Is; auto. eapply need_hop; eauto.
  - apply Ic; auto. eapply need_hop; eauto.
Qed.


Lemma is_sam_vmap t b l kvs : is_str_any_map (VMap t b l) = Some kvs -> kvs = l.
Proof. unfold is_str_any_map. destruct (gtype_eqb t t_str_map); [|discriminate]. intros H; now inversion H. Qed.

Lemma clone_depth t b kvs (inld : bool) fld d :
  (vdepth (VMap t b kvs) <= d)%nat ->
  (vdepth (VMap t_str_map false (if inld then kvs else smap_del fld kvs)) <= d)%nat.
Proof.
  intros H. eapply Nat.le_trans; [apply (vdepth_map_sub t b kvs)|exact H].
  destruct inld; [auto | apply smap_del_sub].
Qed.

Ltac inv3_next :=
  match goal with
  | H : Inv P3 ?e (SList ?it _ _) |- Inv P3 ?e ?it => exact (inv_list _ _ _ _ _ H)
  | H : Inv P3 ?e (SMap ?k _ _ _) |- Inv P3 ?e ?k => exact (inv_map_k _ _ _ _ _ _ H)
  | H : Inv P3 ?e (SMap _ ?v _ _) |- Inv P3 ?e ?v => exact (inv_map_v _ _ _ _ _ _ H)
  | H : Inv P3 ?e (SObject _ _ ?props), I0 : In ?np ?props |- Inv P3 ?e (p_type (snd ?np)) => exact (inv_prop _ _ _ _ _ _ H I0)
  | H : Inv P3 ?e (SObject _ _ ?props), L : alookup ?k ?props = Some ?p |- Inv P3 ?e (p_type ?p) =>
      exact (inv_prop _ _ _ _ _ (k, p) H (alookup_in _ _ _ L))
  | H : Inv P3 ?e (SObject _ _ [(?n, ?p)]) |- Inv P3 ?e (p_type ?p) => exact (inv_prop _ _ _ _ _ (n, p) H (or_introl eq_refl))
  | H : Inv P3 ?e (SOneOf ?types _ _ _), I0 : In (?k, ?m) ?types |- Inv P3 ?e ?m => exact (inv_member _ _ _ _ _ _ (k, m) H I0)
  | H : Inv P3 ?e (SRef ?id ?ns _), R : resolve ?e ?id ?ns = Some (?o, ?e') |- Inv P3 ?e' ?o => exact (inv_ref _ _ _ _ _ _ _ H R)
  | H : Inv P3 ?e (SScope ?objs ?root), R : alookup ?root ?objs = Some ?o |- Inv P3 (env_enter ?e ?objs) ?o => exact (inv_scope _ _ _ _ _ H R)
  | H : Inv P3 ?e ?s |- Inv P3 ?e ?s => exact H
  end.

(* normalise what is known about the shape of the value, then bound the depth of a child *)
Ltac shape_hyps :=
  repeat match goal with
         | H : is_str_any_map (VMap _ _ ?l) = Some ?kvs |- _ => apply is_sam_vmap in H; subst kvs
         | H : is_str_any_map ?v = Some ?kvs |- _ =>
             is_var v; let t0 := fresh "t" in let b0 := fresh "b" in
             apply is_str_any_map_some in H as (t0 & b0 & ->)
         end.
Ltac depth_tac :=
  shape_hyps; depth_hyps;
  repeat match goal with
         | Hin : In ?kv (raw_of_entries ?kvs), Hd : context [VMap ?t ?b ?kvs] |- _ =>
             lazymatch goal with
             | _ : (vdepth (snd kv) < vdepth (VMap t b kvs))%nat |- _ => fail
             | _ => pose proof (raw_entries_depth t b kvs kv Hin)
             end
         end;
  cbn [vdepth fst snd] in *; lia.

Ltac child_tac Cu Cv Cs Cc :=
  first [ eapply Cu | eapply Cv | eapply Cs | eapply Cc ]; [ inv3_next | depth_tac ].

Lemma term_all : forall d c, term_at d c.
Proof.
  induction d as [|d IHd].
  { intros c. repeat split; intros; exfalso;
      match goal with H : (vdepth ?v <= 0)%nat |- _ => pose proof (vdepth_pos v); lia end. }
  induction c as [c IHc] using lt_wf_ind.
  (* ---------- oneof_find ---------- *)
  assert (HO : forall f e types ik fld inld v, I3 e (SOneOf types ik fld inld) -> (vdepth v <= S d)%nat ->
             chn (is_vmap v) e (SOneOf types ik fld inld) c -> (need (S d) c 0 <= f)%nat ->
             fin (oneof_find f e types ik fld inld v)).
  { intros f e types ik fld inld v Hinv Hd Hc Hn.
    destruct f as [|f]; [unfold need in Hn; lia|].
    destruct (hop_calls _ _ _ _ IHc Hn) as (Hu & Hv & Hs & Hcm).
    destruct (is_str_any_map v) as [kvs|] eqn:Esam.
    - destruct (is_str_any_map_some _ _ Esam) as (t0 & b0 & ->). cbn [is_vmap] in Hc.
      rewrite (oneof_find_S words pu); cbv beta iota zeta. cbn [kind_of]. rewrite Esam.
      repeat fin_step ltac:(idtac;
        match goal with
        | E : find _ ?ts = Some (?k, ?m) |- fin (Ops.compat _ _ _ _ ?m _) =>
            apply find_some in E as [E _];
            let c2 := fresh "c2" in let Hc2 := fresh "Hc2" in let Hlt := fresh "Hlt" in
            destruct (chn_member _ _ _ _ _ _ (k, m) Hc E) as (c2 & Hc2 & Hlt);
            eapply Hcm; [inv3_next | eapply clone_depth; exact Hd | exact Hc2 | exact Hlt]
        end).
    - rewrite (oneof_find_S words pu); cbv beta iota zeta.
      repeat fin_step ltac:(congruence). }
  (* ---------- unserialize ---------- *)
  assert (HU : forall f e s v, I3 e s -> (vdepth v <= S d)%nat -> chn (is_vmap v) e s c ->
             (need (S d) c 0 <= f)%nat -> fin (unser f e s v)).
  { intros f e s v Hinv Hd Hc Hn.
    destruct f as [|f]; [unfold need in Hn; lia|].
    destruct (child_calls _ _ _ _ IHd Hn) as (Cu & Cv & Cs & Cc).
    destruct (hop_calls _ _ _ _ IHc Hn) as (Hu & Hv & Hs & Hcm).
    destruct s; rewrite (unser_S words pu); cbv beta iota zeta; try fin_leaf.
    - (* any *) apply fin_any_conv. eapply need_any; eauto.
    - (* list *) repeat fin_step ltac:(child_tac Cu Cv Cs Cc).
    - (* map *) repeat fin_step ltac:(child_tac Cu Cv Cs Cc).
    - (* object *)
      destruct v;
        try (destruct props as [|[name p] [|]]; try exact I;
             destruct (chn_step _ _ _ _ e (p_type p) Hc) as (c2 & Hc2 & Hlt); [intros n; rewrite chain_S; reflexivity|];
             apply fin_bind; [apply fin_map_err; destruct (p_disabled p); [exact I|];
                              eapply Hu; [inv3_next | exact Hd | exact Hc2 | exact Hlt]
                             | intros; apply fin_bind; [apply fin_check_rules | intros; exact I]]).
      (* the input is a map *)
      apply fin_bind; [repeat fin_step idtac|]. intros r0 Hr0.
      apply fin_bind; [|intros; apply fin_bind; [apply fin_check_rules | intros; exact I]].
      pose proof (i3_wf _ _ Hinv) as Hwf. cbn [wf_local] in Hwf. apply andb_prop in Hwf as [Hnd _].
      pose proof (i3_dflt _ _ Hinv) as Hdf. cbn [dflt_local] in Hdf. rewrite forallb_forall in Hdf.
      eapply (fin_props_fold (fun np d0 => if p_disabled (snd np) then Err (cerr EDisabled)
                                           else unser f e (p_type (snd np)) d0));
        [exact Hnd | exact I | intros a Ha np Hin; inversion Ha; reflexivity |].
      intros np d0 Hin Hl. destruct (p_disabled (snd np)); [exact I|].
      apply r1_lookup in Hl as [Hl|(np2 & txt & Hin2 & Hname & Hdef & Hdec)].
      + (* a value of the input map *)
        apply alookup_in in Hl. destruct (r0_values _ _ _ _ Hr0 _ _ Hl) as [[]|(kv & Hkv & ->)].
        eapply Cu; [inv3_next|]. pose proof (vdepth_map_in t isnil l kv Hkv). lia.
      + (* the property's own default: processed within K steps by hypothesis *)
        assert (np2 = np) by (eapply nodup_fst_inj; eauto).
        subst np2. specialize (Hdf np Hin).
        pose proof (dflt_prop_ok e (snd np) txt d0 Hdf Hdef Hdec) as HK.
        destruct (unser K e (p_type (snd np)) d0) eqn:EK; try (exfalso; apply HK; reflexivity).
        all: rewrite (unser_mono words pu K f e (p_type (snd np)) d0 _ (need_K _ _ _ _ Hn) EK); [exact I | discriminate].
    - (* one-of *)
      repeat fin_step ltac:(idtac;
        match goal with
        | E : find _ ?ts = Some (?k, ?m) |- fin (Ops.unser _ _ _ _ ?m _) =>
            apply find_some in E as [E _]; cbn [is_vmap] in Hc;
            let c2 := fresh "c2" in let Hc2 := fresh "Hc2" in let Hlt := fresh "Hlt" in
            destruct (chn_member _ _ _ _ _ _ (k, m) Hc E) as (c2 & Hc2 & Hlt);
            eapply Hu; [inv3_next | eapply clone_depth; exact Hd | exact Hc2 | exact Hlt]
        end).
    - (* ref *)
      destruct (resolve e id ns) as [[o e']|] eqn:R; [|exact I].
      destruct (chn_step _ _ _ _ e' o Hc) as (c2 & Hc2 & Hlt); [intros n; rewrite chain_S, R; reflexivity|].
      eapply Hu; [inv3_next | exact Hd | exact Hc2 | exact Hlt].
    - (* scope *)
      destruct (alookup root objs) as [o|] eqn:R; [|exact I].
      destruct (chn_step _ _ _ _ (env_enter e objs) o Hc) as (c2 & Hc2 & Hlt); [intros n; rewrite chain_S, R; reflexivity|].
      eapply Hu; [inv3_next | exact Hd | exact Hc2 | exact Hlt]. }
  (* ---------- validate ---------- *)
  assert (HV : forall f e s v, I3 e s -> (vdepth v <= S d)%nat -> chn (is_vmap v) e s c ->
             (need (S d) c 1 <= f)%nat -> fin (validate f e s v)).
  { intros f e s v Hinv Hd Hc Hn.
    destruct f as [|f]; [unfold need in Hn; lia|].
    destruct (child_calls _ _ _ _ IHd Hn) as (Cu & Cv & Cs & Cc).
    destruct (hop_calls _ _ _ _ IHc Hn) as (Hu & Hv & Hs & Hcm).
    destruct s; rewrite (validate_S words pu); cbv beta iota zeta;
      try (apply fin_bind; [fin_leaf | intros; exact I]).
    - apply fin_bind; [apply fin_any_conv; eapply need_any; eauto | intros; exact I].
    - repeat fin_step ltac:(child_tac Cu Cv Cs Cc).
    - repeat fin_step ltac:(child_tac Cu Cv Cs Cc).
    - repeat fin_step ltac:(first [fin_leaf | child_tac Cu Cv Cs Cc]).
    - apply fin_bind; [apply HO; auto; eapply need_same; [|exact Hn]; lia|].
      intros [[key member] data'] Hok.
      apply oneof_find_ok in Hok as (t & b & kvs & k & -> & Hin & ->). cbn [is_vmap] in Hc.
      destruct (chn_member _ _ _ _ _ _ (k, member) Hc Hin) as (c2 & Hc2 & Hlt).
      apply fin_map_err. eapply Hv; [inv3_next | eapply clone_depth; exact Hd | exact Hc2 | exact Hlt].
    - destruct (resolve e id ns) as [[o e']|] eqn:R; [|exact I].
      destruct (chn_step _ _ _ _ e' o Hc) as (c2 & Hc2 & Hlt); [intros n; rewrite chain_S, R; reflexivity|].
      eapply Hv; [inv3_next | exact Hd | exact Hc2 | exact Hlt].
    - destruct (alookup root objs) as [o|] eqn:R; [|exact I].
      destruct (chn_step _ _ _ _ (env_enter e objs) o Hc) as (c2 & Hc2 & Hlt); [intros n; rewrite chain_S, R; reflexivity|].
      eapply Hv; [inv3_next | exact Hd | exact Hc2 | exact Hlt]. }
  (* ---------- serialize ---------- *)
  assert (HS : forall f e s v, I3 e s -> (vdepth v <= S d)%nat -> chn (is_vmap v) e s c ->
             (need (S d) c 2 <= f)%nat -> fin (serialize f e s v)).
  { intros f e s v Hinv Hd Hc Hn.
    destruct f as [|f]; [unfold need in Hn; lia|].
    destruct (child_calls _ _ _ _ IHd Hn) as (Cu & Cv & Cs & Cc).
    destruct (hop_calls _ _ _ _ IHc Hn) as (Hu & Hv & Hs & Hcm).
    assert (Hsame : forall s0, s0 = s -> fin (validate f e s0 v)).
    { intros s0 ->. apply HV; auto. eapply need_same; [|exact Hn]; lia. }
    destruct s; rewrite (serialize_S words pu); cbv beta iota zeta; try fin_leaf.
    - apply fin_any_conv. eapply need_any; eauto.
    - apply fin_bind; [apply Hsame; reflexivity|]. intros _ _.
      repeat fin_step ltac:(child_tac Cu Cv Cs Cc).
    - apply fin_bind; [apply Hsame; reflexivity|]. intros _ _.
      repeat fin_step ltac:(child_tac Cu Cv Cs Cc).
    - repeat fin_step ltac:(first [fin_leaf | child_tac Cu Cv Cs Cc]).
    - apply fin_bind; [apply HO; auto; eapply need_same; [|exact Hn]; lia|].
      intros [[key member] data'] Hok.
      apply oneof_find_ok in Hok as (t & b & kvs & k & -> & Hin & ->). cbn [is_vmap] in Hc.
      destruct (chn_member _ _ _ _ _ _ (k, member) Hc Hin) as (c2 & Hc2 & Hlt).
      apply fin_bind; [eapply Hs; [inv3_next | eapply clone_depth; exact Hd | exact Hc2 | exact Hlt]|].
      intros x _. repeat fin_step idtac.
    - destruct (resolve e id ns) as [[o e']|] eqn:R; [|exact I].
      destruct (chn_step _ _ _ _ e' o Hc) as (c2 & Hc2 & Hlt); [intros n; rewrite chain_S, R; reflexivity|].
      eapply Hs; [inv3_next | exact Hd | exact Hc2 | exact Hlt].
    - destruct (alookup root objs) as [o|] eqn:R; [|exact I].
      destruct (chn_step _ _ _ _ (env_enter e objs) o Hc) as (c2 & Hc2 & Hlt); [intros n; rewrite chain_S, R; reflexivity|].
      eapply Hs; [inv3_next | exact Hd | exact Hc2 | exact Hlt]. }
  (* ---------- data-mode compatibility ---------- *)
  assert (HC : forall f e s v, I3 e s -> (vdepth v <= S d)%nat -> chn (is_vmap v) e s c ->
             (need (S d) c 2 <= f)%nat -> fin (compat f e s v)).
  { intros f e s v Hinv Hd Hc Hn.
    destruct f as [|f]; [unfold need in Hn; lia|].
    destruct (child_calls _ _ _ _ IHd Hn) as (Cu & Cv & Cs & Cc).
    destruct (hop_calls _ _ _ _ IHc Hn) as (Hu & Hv & Hs & Hcm).
    assert (HsameU : forall s0 v0, s0 = s -> v0 = v -> fin (unser f e s0 v0)).
    { intros s0 v0 -> ->. apply HU; auto. eapply need_same; [|exact Hn]; lia. }
    assert (HsameV : forall s0 v0, s0 = s -> v0 = v -> fin (validate f e s0 v0)).
    { intros s0 v0 -> ->. apply HV; auto. eapply need_same; [|exact Hn]; lia. }
    assert (HsameO : forall ty ik0 fl0 in0 v0, SOneOf ty ik0 fl0 in0 = s -> v0 = v -> fin (oneof_find f e ty ik0 fl0 in0 v0)).
    { intros ty ik0 fl0 in0 v0 <- ->. apply HO; auto. eapply need_same; [|exact Hn]; lia. }
    assert (HsameA : forall v0, (vdepth v0 <= S d)%nat -> fin (any_conv f v0)).
    { intros v0 Hv0. apply fin_any_conv. eapply need_any; eauto. }
    destruct s; rewrite (compat_S words pu); cbv beta iota zeta.
    1-5, 7-8: repeat fin_step ltac:(first [ apply HsameU; reflexivity | apply HsameV; reflexivity ]).
    - (* any *)
      destruct v; try (apply fin_bind; [apply HsameA; exact Hd | intros; exact I]).
      + repeat fin_step ltac:(first [ apply HsameA; exact Hd | child_tac Cu Cv Cs Cc ]).
      + repeat fin_step ltac:(first [ apply HsameA; exact Hd | child_tac Cu Cv Cs Cc ]).
    - (* list *) repeat fin_step ltac:(child_tac Cu Cv Cs Cc).
    - (* map *) repeat fin_step ltac:(child_tac Cu Cv Cs Cc).
    - (* object *)
      repeat fin_step ltac:(first [ fin_leaf | apply HsameU; reflexivity | child_tac Cu Cv Cs Cc ]).
    - (* one-of *)
      repeat fin_step ltac:(first [ apply HsameO; reflexivity | apply HsameV; reflexivity ]).
    - destruct (resolve e id ns) as [[o e']|] eqn:R; [|exact I].
      destruct (chn_step _ _ _ _ e' o Hc) as (c2 & Hc2 & Hlt); [intros n; rewrite chain_S, R; reflexivity|].
      eapply Hcm; [inv3_next | exact Hd | exact Hc2 | exact Hlt].
    - destruct (alookup root objs) as [o|] eqn:R; [|exact I].
      destruct (chn_step _ _ _ _ (env_enter e objs) o Hc) as (c2 & Hc2 & Hlt); [intros n; rewrite chain_S, R; reflexivity|].
      eapply Hcm; [inv3_next | exact Hd | exact Hc2 | exact Hlt]. }
  repeat split; assumption.
Qed.

End Term.
