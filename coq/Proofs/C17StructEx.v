(* Proofs/C17StructEx.v — non-vacuity of the struct-layer path theorems (Proofs/C17Struct.v) on the struct
   family of the harness (Proofs/XExamples.v: XNested{In XInner; P *XInner; X int64}, XInner{A int64 `json:"a"`;
   B string `json:"b"`}, XEmbPtr{*XInner; C int64}), with a CONSTRAINT on the leaves so that a native Go value
   can carry the fault: b needs at least two characters, the promoted a must not be negative. *)
From Verif Require Import Base.Prelude Base.Str Base.Float Base.GoVal Base.XReflect
  Schema.Regex Schema.Units Schema.Syntax Schema.Ops Schema.XSyntax Schema.XOps
  Proofs.XStruct Proofs.XPaths Proofs.XExamples Proofs.C17ObjectU Proofs.C17Struct Proofs.C17StructPos.
Open Scope string_scope.
Open Scope Z_scope.
Open Scope list_scope.

Definition c17s_inner_si : structinfo :=
  mkStructInfo "XInner" false
    [("a", mkFieldRef "A" [0%nat] [0%nat] (TInt I64)); ("b", mkFieldRef "B" [1%nat] [1%nat] TStr)].
Definition c17s_pa : xproperty := xs_prop xs_int false (Some "1") false.
Definition c17s_pb : xproperty := xs_prop (XString (Some 2) None None) false None true.
Definition c17s_inner : xschema := XObject "XInner" false [("a", c17s_pa); ("b", c17s_pb)] (Some c17s_inner_si).

Definition c17s_ref : xschema := XRef "XInner" "" None.
Definition c17s_pin : xproperty := xs_prop c17s_ref true None false.
Definition c17s_pp : xproperty := xs_prop c17s_ref false None false.
Definition c17s_px : xproperty := xs_prop xs_int true None false.
Definition c17s_nested_si : structinfo :=
  mkStructInfo "XNested" false
    [("in", mkFieldRef "In" [0%nat] [0%nat] (TStruct "XInner"));
     ("p", mkFieldRef "P" [1%nat] [1%nat] (TPtr (TStruct "XInner")));
     ("x", mkFieldRef "X" [2%nat] [2%nat] (TInt I64))].
Definition c17s_nested : xschema :=
  XObject "XNested" false [("in", c17s_pin); ("p", c17s_pp); ("x", c17s_px)] (Some c17s_nested_si).

(* the promoted field: "a" lives in the embedded *XInner (index path [0;0]) *)
Definition c17s_pea : xproperty := xs_prop (XInt (Some 0) None None) false None false.
Definition c17s_pec : xproperty := xs_prop xs_int true None false.
Definition c17s_emb_si : structinfo :=
  mkStructInfo "XEmbPtr" false
    [("a", mkFieldRef "A" [0%nat; 0%nat] [0%nat; 0%nat] (TInt I64)); ("c", mkFieldRef "C" [1%nat] [1%nat] (TInt I64))].
Definition c17s_emb : xschema := XObject "XEmbPtr" false [("a", c17s_pea); ("c", c17s_pec)] (Some c17s_emb_si).

Definition c17s_tab : xobjtab := [("XNested", c17s_nested); ("XInner", c17s_inner); ("XEmbPtr", c17s_emb)].
Definition c17s_env : xenv := xs_env c17s_tab.

(* raw input: {"in": {"b": "qq"}, "p": {"b": "q"}, "x": 3} - p.b is one character short *)
Definition c17s_raw : list (string * gval) :=
  [("in", xs_m [("b", vstr "qq")]); ("p", xs_m [("b", vstr "q")]); ("x", vi64 3)].
(* native value: XNested{In: {1,"qq"}, P: &{1,"q"}, X: 3} *)
Definition c17s_native : gval :=
  VStruct (TStruct "XNested")
    [("In", xs_inner_v 1 "qq"); ("P", VPtr (TPtr (TStruct "XInner")) (Some (xs_inner_v 1 "q"))); ("X", vi64 3)].
Definition c17s_emb_native : gval :=
  VStruct (TStruct "XEmbPtr") [("XInner", VPtr (TPtr (TStruct "XInner")) (Some (xs_inner_v (-5) "zz"))); ("C", vi64 2)].

(* (a) Unserialize: the theorem's premises hold, the path is exactly ["p"; "b"] *)
Example c17s_unser_ex :
  xunser w_words w_pu 12 c17s_env c17s_nested (obj_val t_any_map false c17s_raw) = Err (mkErr true ["p"; "b"] EBound).
Proof.
  change (mkErr true ["p"; "b"] EBound) with (add_seg "p" (mkErr true ["b"] EBound)).
  unfold c17s_nested.
  eapply (struct_unser_prop_error w_words w_pu 11 c17s_env "XNested" false [("in", c17s_pin)] "p" c17s_pp [("x", c17s_px)]
            (Some c17s_nested_si) t_any_map false c17s_raw).
  - repeat constructor.
  - cbn [map fst app]. repeat constructor; cbn [In]; intuition discriminate.
  - vm_compute. reflexivity.
  - constructor; [|constructor]. unfold xprop_fine. vm_compute. split; [reflexivity | eexists; reflexivity].
  - vm_compute. reflexivity.
  - reflexivity.
  - vm_compute. reflexivity.
Qed.

(* the inner object on its own: a direct field *)
Example c17s_unser_inner_ex :
  xunser w_words w_pu 12 c17s_env c17s_inner (obj_val t_any_map false [("b", vstr "q")]) = Err (mkErr true ["b"] EBound).
Proof.
  change (mkErr true ["b"] EBound) with (add_seg "b" (cerr EBound)).
  unfold c17s_inner.
  eapply (struct_unser_prop_error w_words w_pu 11 c17s_env "XInner" false [("a", c17s_pa)] "b" c17s_pb []
            (Some c17s_inner_si) t_any_map false [("b", vstr "q")]).
  - repeat constructor.
  - cbn [map fst app]. repeat constructor; cbn [In]; intuition discriminate.
  - vm_compute. reflexivity.
  - constructor; [|constructor]. unfold xprop_fine. vm_compute. split; [reflexivity | eexists; reflexivity].
  - vm_compute. reflexivity.
  - reflexivity.
  - vm_compute. reflexivity.
Qed.

Lemma c17s_has_in : has_fields c17s_nested_si [("in", c17s_pin)].
Proof. intros np [<- | []]. vm_compute. discriminate. Qed.

(* (b) Validate / Serialize on the native struct *)
Example c17s_validate_ex :
  xvalidate w_words w_pu 12 c17s_env c17s_nested c17s_native = Err (mkErr true ["p"; "b"] EBound).
Proof.
  change (mkErr true ["p"; "b"] EBound) with (add_seg "p" (mkErr true ["b"] EBound)).
  unfold c17s_nested.
  eapply (struct_validate_prop_error w_words w_pu 11 c17s_env "XNested" false [("in", c17s_pin)] "p" c17s_pp [("x", c17s_px)]
            c17s_nested_si c17s_native).
  - vm_compute. reflexivity.
  - exact c17s_has_in.
  - intros np y [<- | []] H. vm_compute in H. inversion H; subst y. vm_compute. reflexivity.
  - vm_compute. reflexivity.
  - vm_compute. reflexivity.
Qed.

Example c17s_serialize_ex :
  xserialize w_words w_pu 12 c17s_env c17s_nested c17s_native = Err (mkErr true ["p"; "b"] EBound).
Proof.
  change (mkErr true ["p"; "b"] EBound) with (add_seg "p" (mkErr true ["b"] EBound)).
  unfold c17s_nested.
  eapply (struct_serialize_prop_error w_words w_pu 11 c17s_env "XNested" false [("in", c17s_pin)] "p" c17s_pp [("x", c17s_px)]
            c17s_nested_si c17s_native).
  - vm_compute. reflexivity.
  - exact c17s_has_in.
  - intros np y [<- | []] H. vm_compute in H. inversion H; subst y. eexists. vm_compute. reflexivity.
  - vm_compute. reflexivity.
  - vm_compute. reflexivity.
Qed.

(* a PROMOTED field: XEmbPtr{*XInner{A: -5}}: the path is the property id "a" *)
Example c17s_validate_promoted_ex :
  xvalidate w_words w_pu 12 c17s_env c17s_emb c17s_emb_native = Err (mkErr true ["a"] EBound).
Proof.
  change (mkErr true ["a"] EBound) with (add_seg "a" (cerr EBound)).
  unfold c17s_emb.
  eapply (struct_validate_prop_error w_words w_pu 11 c17s_env "XEmbPtr" false [] "a" c17s_pea [("c", c17s_pec)]
            c17s_emb_si c17s_emb_native).
  - vm_compute. reflexivity.
  - intros np [].
  - intros np y [].
  - vm_compute. reflexivity.
  - vm_compute. reflexivity.
Qed.

(* (c) the faults of the struct layer itself *)
Example c17s_unknown_key_ex :
  xunser w_words w_pu 12 c17s_env c17s_nested
    (obj_val t_any_map false ([("in", xs_m [("b", vstr "qq")])] ++ ("zz", vi64 1) :: [("x", vi64 3)])) = Err (cerr EKey).
Proof.
  apply (struct_unser_unknown_key w_words w_pu 11 c17s_env "XNested" false _ (Some c17s_nested_si) t_any_map false).
  - repeat constructor.
  - reflexivity.
Qed.

Example c17s_missing_required_ex :
  xunser w_words w_pu 12 c17s_env c17s_nested (obj_val t_any_map false [("in", xs_m [("b", vstr "qq")])])
  = Err (cerr_at ["x"] EPresence).
Proof.
  unfold c17s_nested.
  eapply (struct_unser_missing_required w_words w_pu 11 c17s_env "XNested" false [("in", c17s_pin); ("p", c17s_pp)] "x" c17s_px []
            (Some c17s_nested_si) t_any_map false [("in", xs_m [("b", vstr "qq")])]).
  - repeat constructor.
  - cbn [map fst app]. repeat constructor; cbn [In]; intuition discriminate.
  - vm_compute. reflexivity.
  - repeat (constructor; [unfold xprop_fine; vm_compute; try exact I; try (split; [reflexivity | eexists; reflexivity])|]).
    constructor.
  - repeat (constructor; [vm_compute; reflexivity|]). constructor.
  - reflexivity.
  - vm_compute. reflexivity.
Qed.

Example c17s_wrong_type_ex :
  xvalidate w_words w_pu 12 c17s_env c17s_nested (xs_inner_v 1 "qq") = Err (cerr ERepr) /\
  xserialize w_words w_pu 12 c17s_env c17s_nested (VPtr (TPtr (TStruct "XNested")) None) = Err (cerr ERepr) /\
  xvalidate w_words w_pu 12 c17s_env c17s_nested
    (VStruct (TStruct "XNested") [("In", xs_inner_v 1 "qq"); ("P", VPtr (TPtr (TStruct "XInner")) None); ("X", vi64 3)]) = Ok tt.
Proof.
  split; [|split].
  - apply (struct_validate_wrong_type w_words w_pu). reflexivity.
  - apply (struct_serialize_wrong_type w_words w_pu). reflexivity.
  - vm_compute. reflexivity.
Qed.

(* ---------- positions (Proofs/C17StructPos.v): the fault two levels down, through the reference ---------- *)
Ltac c17s_nodup := cbn [map fst]; repeat constructor; cbn [In]; intuition discriminate.

Example c17s_pos_unser_ex :
  fault_xu w_words w_pu c17s_env 12 c17s_nested (obj_val t_any_map false c17s_raw) ["p"; "b"].
Proof.
  unfold c17s_nested.
  eapply (XU_prop w_words w_pu c17s_env 11 "XNested" false _ "p" c17s_pp (Some c17s_nested_si) t_any_map false c17s_raw).
  - repeat constructor.
  - c17s_nodup.
  - cbn [In]. tauto.
  - vm_compute. reflexivity.
  - intros np [<- | [<- | [<- | []]]] Hne; try (exfalso; apply Hne; reflexivity);
      unfold xprop_fine; vm_compute; (exact I || (split; [reflexivity | eexists; reflexivity])).
  - vm_compute. reflexivity.
  - reflexivity.
  - eapply (XU_ref w_words w_pu c17s_env 10 "XInner" "" None c17s_inner c17s_env); [vm_compute; reflexivity|].
    unfold c17s_inner.
    eapply (XU_prop w_words w_pu c17s_env 9 "XInner" false _ "b" c17s_pb (Some c17s_inner_si) t_any_map false [("b", vstr "q")]).
    + repeat constructor.
    + c17s_nodup.
    + cbn [In]. tauto.
    + vm_compute. reflexivity.
    + intros np [<- | [<- | []]] Hne; try (exfalso; apply Hne; reflexivity);
        unfold xprop_fine; vm_compute; (exact I || (split; [reflexivity | eexists; reflexivity])).
    + vm_compute. reflexivity.
    + reflexivity.
    + apply (XU_leaf w_words w_pu c17s_env 8 (XString (Some 2) None None) (vstr "q")); [exact I|].
      intros n H. vm_compute in H. discriminate H.
Qed.

Example c17s_pos_validate_ex :
  fault_xv w_words w_pu c17s_env 12 c17s_nested c17s_native ["p"; "b"].
Proof.
  unfold c17s_nested.
  eapply (XV_prop w_words w_pu c17s_env 11 "XNested" false _ "p" c17s_pp c17s_nested_si c17s_native).
  - vm_compute. reflexivity.
  - intros np [<- | [<- | [<- | []]]]; vm_compute; discriminate.
  - c17s_nodup.
  - cbn [In]. tauto.
  - intros np y [<- | [<- | [<- | []]]] Hne H; try (exfalso; apply Hne; reflexivity);
      vm_compute in H; inversion H; subst y; vm_compute; reflexivity.
  - vm_compute. reflexivity.
  - eapply (XV_ref w_words w_pu c17s_env 10 "XInner" "" None c17s_inner c17s_env); [vm_compute; reflexivity|].
    unfold c17s_inner.
    eapply (XV_prop w_words w_pu c17s_env 9 "XInner" false _ "b" c17s_pb c17s_inner_si (xs_inner_v 1 "q")).
    + vm_compute. reflexivity.
    + intros np [<- | [<- | []]]; vm_compute; discriminate.
    + c17s_nodup.
    + cbn [In]. tauto.
    + intros np y [<- | [<- | []]] Hne H; try (exfalso; apply Hne; reflexivity);
        vm_compute in H; inversion H; subst y; vm_compute; reflexivity.
    + vm_compute. reflexivity.
    + apply (XV_leaf w_words w_pu c17s_env 8 (XString (Some 2) None None) (vstr "q")); [exact I|].
      intros H. vm_compute in H. discriminate H.
Qed.

Example c17s_pos_serialize_ex :
  fault_xs w_words w_pu c17s_env 12 c17s_nested c17s_native ["p"; "b"].
Proof.
  unfold c17s_nested.
  eapply (XS_prop w_words w_pu c17s_env 11 "XNested" false _ "p" c17s_pp c17s_nested_si c17s_native).
  - vm_compute. reflexivity.
  - intros np [<- | [<- | [<- | []]]]; vm_compute; discriminate.
  - c17s_nodup.
  - cbn [In]. tauto.
  - intros np y [<- | [<- | [<- | []]]] Hne H; try (exfalso; apply Hne; reflexivity);
      vm_compute in H; inversion H; subst y; eexists; vm_compute; reflexivity.
  - vm_compute. reflexivity.
  - eapply (XS_ref w_words w_pu c17s_env 10 "XInner" "" None c17s_inner c17s_env); [vm_compute; reflexivity|].
    unfold c17s_inner.
    eapply (XS_prop w_words w_pu c17s_env 9 "XInner" false _ "b" c17s_pb c17s_inner_si (xs_inner_v 1 "q")).
    + vm_compute. reflexivity.
    + intros np [<- | [<- | []]]; vm_compute; discriminate.
    + c17s_nodup.
    + cbn [In]. tauto.
    + intros np y [<- | [<- | []]] Hne H; try (exfalso; apply Hne; reflexivity);
        vm_compute in H; inversion H; subst y; eexists; vm_compute; reflexivity.
    + vm_compute. reflexivity.
    + apply (XS_leaf w_words w_pu c17s_env 8 (XString (Some 2) None None) (vstr "q")); [exact I|].
      intros w H. vm_compute in H. discriminate H.
Qed.

(* a one-of whose member is found by the reflected type of the native value (XInner{1,"q"}) *)
Definition c17s_oneof : xschema := XOneOf [(KS "two", XRef "XTwo" "" None); (KS "inner", c17s_ref)] false "kind" false.
Example c17s_oneof_native_ex :
  xvalidate w_words w_pu 12 c17s_env c17s_oneof (xs_inner_v 1 "q") = Err (mkErr true ["{oneof[inner]}"; "b"] EBound) /\
  xserialize w_words w_pu 12 c17s_env c17s_oneof (xs_inner_v 1 "q") = Err (mkErr true ["b"] EBound).
Proof.
  split.
  - change (mkErr true ["{oneof[inner]}"; "b"] EBound) with (add_seg (oneof_seg (KS "inner")) (mkErr true ["b"] EBound)).
    apply (struct_oneof_native_validate_path w_words w_pu 10 c17s_env _ false "kind" false (xs_inner_v 1 "q")
             (TStruct "XInner") (KS "inner") c17s_ref).
    + left. exists "XInner", [("A", vi64 1); ("B", vstr "q")]. split; reflexivity.
    + vm_compute. reflexivity.
    + vm_compute. reflexivity.
  - apply (struct_oneof_native_serialize_path w_words w_pu 10 c17s_env _ false "kind" false (xs_inner_v 1 "q")
             (TStruct "XInner") (KS "inner") c17s_ref).
    + left. exists "XInner", [("A", vi64 1); ("B", vstr "q")]. split; reflexivity.
    + vm_compute. reflexivity.
    + vm_compute. reflexivity.
Qed.
