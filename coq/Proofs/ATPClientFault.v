(* Proofs/ATPClientFault.v — C08: what the client does with a broken stream. *)
From Coq Require Import Lia.
From Verif Require Import Base.Prelude Base.Str ATP.Msg ATP.Client ATP.Handshake Proofs.ATPClient.
Open Scope string_scope.

Section Fault.
Variable payload : Type.
Notation state := (state payload).
Notation result := (result payload).

(* --- the handshake --- *)
Opaque supported.
Lemma read_schema_ok_iff : forall (w : bool) (ev : event payload) v,
  read_schema w ev = RSOk v <-> (w = true /\ ev = EvHello (Hello v true) /\ supported v = true).
Proof.
  intros w ev v. unfold read_schema. split.
  - destruct w; cbn; [|discriminate]. destruct ev as [m|[v' ok]| | | | ]; try discriminate.
    intros H. destruct (supported v') eqn:Hs; destruct ok; cbn in H; try discriminate H.
    all: try (inversion H; subst; repeat split; auto; fail).
    all: try discriminate.
  - intros (-> & -> & Hs). cbn. rewrite Hs. reflexivity.
Qed.
Transparent supported.

Lemma execute_v1_ok_iff : forall (w : bool) (ev : event payload) o d,
  execute_v1 w ev = V1Ok o d <-> (w = true /\ exists r st lg, ev = EvMsg (WorkDone r st o d lg)).
Proof.
  intros w ev o d. unfold execute_v1. split.
  - destruct w; cbn; [|discriminate]. destruct ev as [m|h| | | | ]; try discriminate. destruct m; try discriminate.
    intros H. inversion H; subst. split; auto. eauto.
  - intros (-> & r & st & lg & ->). reflexivity.
Qed.

(* --- the fatal exits of the read loop release everybody and clear the flag in one step --- *)
Lemma fatal_step_releases_all : forall (s s' : state) lo,
  cur s = Some lo -> l_pc lo = LFatal -> step s (LLoop 0) = Some s' ->
  has_pending (entries s') = false /\ running s' = false /\ loop_live (cur s') = false /\
  Forall (fun e => exists v, snd e = Some v) (entries s').
Proof.
  intros s s' lo Hc Hp H. cbn in H. unfold step_loop in H. rewrite Hc, Hp in H. cbn in H. injection H as <-.
  unfold loop_exit, fan_out. cbn. repeat split; auto.
  - apply has_pending_fan.
  - apply Forall_forall. intros e He. apply in_map_iff in He. destruct He as [x [<- _]]. cbn. eauto.
Qed.

Lemma server_fatal_step_releases_all : forall (s s' : state) lo r sf,
  cur s = Some lo -> l_pc lo = LHandle (ErrMsg r sf true) -> step s (LLoop 0) = Some s' ->
  has_pending (entries s') = false /\ running s' = false /\ loop_live (cur s') = false.
Proof.
  intros s s' lo r sf Hc Hp H. cbn in H. unfold step_loop in H. rewrite Hc, Hp in H. cbn in H. injection H as <-.
  unfold handle, loop_exit, fan_out. cbn. repeat split; auto. apply has_pending_fan.
Qed.

(* a decoded fault event always leads to the fatal exit: Decode of anything that is not an intact message *)
Lemma decode_fault_goes_fatal : forall (s s' : state) lo ev q,
  cur s = Some lo -> l_pc lo = LDecode -> l_buf lo = [] -> from_server s = ev :: q -> is_fault ev = true ->
  step s (LLoop 0) = Some s' -> exists lo', cur s' = Some lo' /\ l_pc lo' = LFatal /\ from_server s' = ev :: q.
Proof.
  intros s s' lo ev q Hc Hp Hb Hf Hfa H. cbn in H. unfold step_loop in H. rewrite Hc, Hp, Hb, Hf, Hfa in H. cbn in H.
  destruct ev; cbn in Hfa; try discriminate; injection H as <-; eexists; cbn; repeat split; eauto.
Qed.

(* --- where success comes from --- *)
Lemma alookup_aset : forall (A : Type) (l : list (string * A)) r k v x,
  alookup r (aset k v l) = Some x -> (r = k /\ x = v) \/ alookup r l = Some x.
Proof.
  induction l as [|[k' w] t IH]; intros r k v x H; cbn in *; try discriminate.
  destruct (String.eqb k k') eqn:Ek; cbn in H.
  - destruct (String.eqb r k') eqn:Er.
    + injection H as <-. left. apply String.eqb_eq in Ek, Er. subst. auto.
    + right. exact H.
  - destruct (String.eqb r k') eqn:Er; [right; exact H|]. apply IH in H. exact H.
Qed.

Lemma alookup_fan : forall (l : list (string * option result)) r (v : result) x,
  alookup r (map (fun e => (fst e, Some v)) l) = Some x -> x = Some v.
Proof.
  induction l as [|[k w] t IH]; intros r v x H; cbn in *; try discriminate.
  destruct (String.eqb r k); [now injection H as <-|eauto].
Qed.

(* a result of class Ok enters the entry map only through the handling of an intact work-done message for that run *)
Lemma handle_ok_only_from_workdone : forall (s : state) lo m r o d,
  alookup r (entries (handle s lo m)) = Some (Some (ROk o d)) ->
  alookup r (entries s) = Some (Some (ROk o d)) \/ exists st lg, m = WorkDone r st o d lg.
Proof.
  intros s lo m r o d H. unfold handle, loop_exit, fan_out, send_result in H.
  destruct m; cbn in H; auto.
  - apply alookup_aset in H. destruct H as [[-> E]|H]; auto. injection E as <- <-. right. eauto.
  - destruct (str_in run (sigchans s)); cbn in H; auto.
  - destruct server_fatal; cbn in H.
    + apply alookup_fan in H. discriminate.
    + destruct step_fatal; cbn in H; auto. destruct (String.eqb run ""); cbn in H.
      * apply alookup_fan in H. discriminate.
      * apply alookup_aset in H. destruct H as [[_ E]|H]; auto. discriminate.
  - apply alookup_aset in H. destruct H as [[_ E]|H]; auto. discriminate.
Qed.

Lemma fatal_never_ok : forall (s : state) (e : rerr) r o d,
  alookup r (entries (fan_out s (RErr e))) = Some (Some (ROk o d)) -> False.
Proof. intros s e r o d H. unfold fan_out in H. cbn in H. apply alookup_fan in H. discriminate. Qed.

End Fault.

(* D25: the write side fails right after the handshake; Execute returns the write error and leaves its entry behind;
   the read loop stays blocked in Decode; Close cannot send client-done and, after the timeout, panics *)
Definition d25_session : session unit :=
  mkSession [mkCall "a" None None false tt] true [("a", [EvMsg (WorkDone "a" "s" "ok" tt "")])] None (Some 0%nat).
Definition d25_schedule : list label := [LCaller 0; LCaller 0; LCloser; LCloser; LCloser; LTimeout].

Lemma d25_close_panics :
  exists s, run (init d25_session) d25_schedule = Some s /\ closer s = KDone ClosePanic /\
            (exists c, nth_error (callers s) 0 = Some c /\ c_pc c = CDone (RErr ErrWrite)) /\
            loop_live (cur s) = true /\ wg s = 1%nat.
Proof.
  destruct (run (init d25_session) d25_schedule) as [s|] eqn:E; [|vm_compute in E; discriminate].
  vm_compute in E. injection E as <-. eexists. repeat split; try reflexivity. eexists; split; reflexivity.
Qed.
