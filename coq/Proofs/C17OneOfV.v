(* Proofs/C17OneOfV.v — C17 for Validate through one-ofs, modulo the {oneof[k]} marker segments:
   when the one-of's lookup (discriminator, member selection and the member's data-mode
   compatibility pre-check: Ops.oneof_find) lets the value through, the member's error comes back
   below exactly one marker segment.  Paths are therefore compared after strip_markers, on both
   sides - which also removes any ambiguity about keys or property names that look like markers. *)
From Coq Require Import Lia.
From Verif Require Import Base.Prelude Base.Str Base.Float Base.GoVal
  Schema.Regex Schema.Units Schema.Syntax Schema.Ops Proofs.C02Containers Proofs.C17 Proofs.C17Object
  Proofs.C17ObjectU Proofs.C17Compat Proofs.C17Any.
Open Scope Z_scope.
Open Scope list_scope.

Fixpoint sprefix (p s : string) {struct p} : bool :=
  match p with
  | EmptyString => true
  | String a p' => match s with String b s' => Ascii.eqb a b && sprefix p' s' | EmptyString => false end
  end.
Definition is_marker (s : string) : bool := sprefix "{oneof[" s.
Definition strip_markers (p : list string) : list string := filter (fun s => negb (is_marker s)) p.

Lemma oneof_seg_marker k : is_marker (oneof_seg k) = true.
Proof. reflexivity. Qed.

Lemma strip_cons s p q : strip_markers p = strip_markers q -> strip_markers (s :: p) = strip_markers (s :: q).
Proof. intro H. unfold strip_markers in *. cbn [filter]. rewrite H. reflexivity. Qed.

Lemma strip_marker k p : strip_markers (oneof_seg k :: p) = strip_markers p.
Proof. unfold strip_markers. cbn [filter]. rewrite oneof_seg_marker. reflexivity. Qed.

Section WithTables.
Variable words : list (string * bool).
Variable pu : units -> string -> option fl.
Notation validate := (validate words pu).
Notation oneof_find := (oneof_find words pu).
Notation compat := (compat words pu).

Lemma validate_oneof_eq f e types ik field inlined v :
  validate (S f) e (SOneOf types ik field inlined) v =
  (km <- oneof_find f e types ik field inlined v ;;
   let '(key, member, data') := km in seg (oneof_seg key) (validate f e member data')).
Proof. reflexivity. Qed.

Lemma validate_oneof_member_error f e types ik field inlined v key member data' er :
  oneof_find f e types ik field inlined v = Ok (key, member, data') ->
  validate f e member data' = Err er ->
  validate (S f) e (SOneOf types ik field inlined) v = Err (add_seg (oneof_seg key) er).
Proof. intros H1 H2. rewrite validate_oneof_eq, H1. cbn [bind]. rewrite H2. reflexivity. Qed.

(* the one-of in three steps: selection, the member's compatibility pre-check, the member's Validate *)
Lemma validate_oneof_eq2 f e types ik field inlined v :
  validate (S (S f)) e (SOneOf types ik field inlined) v =
  (k <- oneof_sel types ik field inlined v ;;
   let '(key, member, clone) := k in
   _ <- rewrap_path (compat f e member clone) ;; seg (oneof_seg key) (validate (S f) e member clone)).
Proof.
  rewrite validate_oneof_eq, (oneof_find_eq words pu).
  destruct (oneof_sel types ik field inlined v) as [[[key member] clone]| | |]; cbn [bind]; try reflexivity.
  destruct (rewrap_path (compat f e member clone)) as [u| | |]; cbn [bind]; reflexivity.
Qed.

Inductive fault_vm : env -> nat -> schema -> gval -> list string -> Prop :=
| VM_leaf : forall e f s v, is_leaf s -> validate (S f) e s v <> Ok tt -> fault_vm e (S f) s v []
| VM_list_type : forall e f it mn mx v, (forall t nl l, v <> VSlice t nl l) -> fault_vm e (S f) (SList it mn mx) v []
| VM_list_size : forall e f it mn mx t nl l, size_ok mn mx (zlen l) = false -> fault_vm e (S f) (SList it mn mx) (VSlice t nl l) []
| VM_item : forall e f it mn mx t nl l1 x l2 p,
    size_ok mn mx (zlen (l1 ++ x :: l2)) = true ->
    Forall (fun y => validate f e it y = Ok tt) l1 ->
    fault_vm e f it x p ->
    fault_vm e (S f) (SList it mn mx) (VSlice t nl (l1 ++ x :: l2)) (idx_seg (zlen l1) :: p)
| VM_map_type : forall e f ks vs mn mx v, (forall t nl l, v <> VMap t nl l) -> fault_vm e (S f) (SMap ks vs mn mx) v []
| VM_map_size : forall e f ks vs mn mx t nl l, size_ok mn mx (zlen l) = false -> fault_vm e (S f) (SMap ks vs mn mx) (VMap t nl l) []
| VM_key : forall e f ks vs mn mx t nl kvs1 k x kvs2 p,
    size_ok mn mx (zlen (kvs1 ++ (k, x) :: kvs2)) = true ->
    Forall (ventry_ok words pu f e ks vs) kvs1 -> Forall (ventry_ok words pu f e ks vs) kvs2 ->
    fault_vm e f ks k p ->
    fault_vm e (S f) (SMap ks vs mn mx) (VMap t nl (kvs1 ++ (k, x) :: kvs2)) (mkey_seg k :: p)
| VM_value : forall e f ks vs mn mx t nl kvs1 k x kvs2 p,
    size_ok mn mx (zlen (kvs1 ++ (k, x) :: kvs2)) = true ->
    Forall (ventry_ok words pu f e ks vs) kvs1 -> Forall (ventry_ok words pu f e ks vs) kvs2 ->
    validate f e ks k = Ok tt ->
    fault_vm e f vs x p ->
    fault_vm e (S f) (SMap ks vs mn mx) (VMap t nl (kvs1 ++ (k, x) :: kvs2)) (mval_seg k :: p)
| VM_object_type : forall e f id un props v, is_str_any_map v = None -> fault_vm e (S f) (SObject id un props) v []
| VM_extra_key : forall e f id un props r1 name x r2,
    check_rules props (fun k => amem k (r1 ++ (name, x) :: r2)) = Ok tt ->
    Forall (prop_ok words pu f e props) r1 -> Forall (prop_ok words pu f e props) r2 ->
    alookup name props = None ->
    fault_vm e (S f) (SObject id un props) (raw_to_val (r1 ++ (name, x) :: r2)) []
| VM_rule : forall e f id un ps1 name p ps2 r,
    Forall (fun np => check_prop_rules (fun k => amem k r) (fst np) (snd np) = Ok tt) ps1 ->
    Forall (fun np => check_prop_rules (fun k => amem k r) (fst np) (snd np) = Ok tt) ps2 ->
    check_prop_rules (fun k => amem k r) name p <> Ok tt ->
    fault_vm e (S f) (SObject id un (ps1 ++ (name, p) :: ps2)) (raw_to_val r) [name]
| VM_prop : forall e f id un props r1 name x r2 p path,
    check_rules props (fun k => amem k (r1 ++ (name, x) :: r2)) = Ok tt ->
    Forall (prop_ok words pu f e props) r1 -> Forall (prop_ok words pu f e props) r2 ->
    alookup name props = Some p ->
    fault_vm e f (p_type p) x path ->
    fault_vm e (S f) (SObject id un props) (raw_to_val (r1 ++ (name, x) :: r2)) (name :: path)
| VM_oneof_sel : forall e f types ik field inlined v er,
    oneof_sel types ik field inlined v = Err er -> fault_vm e (S (S f)) (SOneOf types ik field inlined) v []
| VM_oneof_precheck : forall e f types ik field inlined v key member clone p,
    oneof_sel types ik field inlined v = Ok (key, member, clone) ->
    fault_c words pu e f member clone p ->
    fault_vm e (S (S f)) (SOneOf types ik field inlined) v p
| VM_oneof_member : forall e f types ik field inlined v key member clone p,
    oneof_sel types ik field inlined v = Ok (key, member, clone) ->
    compat f e member clone = Ok tt ->
    fault_vm e (S f) member clone p ->
    fault_vm e (S (S f)) (SOneOf types ik field inlined) v p
| VM_ref : forall e f id ns d o e' v p,
    resolve e id ns = Some (o, e') -> fault_vm e' f o v p -> fault_vm e (S f) (SRef id ns d) v p
| VM_scope : forall e f objs root o v p,
    alookup root objs = Some o -> fault_vm (env_enter e objs) f o v p -> fault_vm e (S f) (SScope objs root) v p
| VM_any : forall e f v p, fault_any f v p -> fault_vm e (S f) SAny v p.

Theorem single_fault_path_validate_markers : forall e f s v p, fault_vm e f s v p ->
  exists c q, validate f e s v = Err (mkErr true q c) /\ strip_markers q = strip_markers p.
Proof.
  intros e f s v p H. induction H as
    [e f s v Hl Hno | e f it mn mx v Hno | e f it mn mx t nl l Hs
     | e f it mn mx t nl l1 x l2 p Hs Hok Hx IH
     | e f ks vs mn mx v Hno | e f ks vs mn mx t nl l Hs
     | e f ks vs mn mx t nl kvs1 k x kvs2 p Hs Hok1 Hok2 Hx IH
     | e f ks vs mn mx t nl kvs1 k x kvs2 p Hs Hok1 Hok2 Hk Hx IH
     | e f id un props v Hno
     | e f id un props r1 name x r2 Hr Hok1 Hok2 Hp
     | e f id un ps1 name p ps2 r Hok1 Hok2 Hbad
     | e f id un props r1 name x r2 p path Hr Hok1 Hok2 Hp Hx IH
     | e f types ik field inlined v er Hsel
     | e f types ik field inlined v key member clone p Hsel Hc
     | e f types ik field inlined v key member clone p Hsel Hc Hx IH
     | e f id ns d o e' v p Hres Hx IH
     | e f objs root o v p Hroot Hx IH
     | e f v p Hany].
  - destruct (leaf_validate_outcome words pu s Hl f e v) as [Hn | (c & Hc)]; [exfalso; exact (Hno Hn)|].
    exists c, []. split; [exact Hc | reflexivity].
  - exists ERepr, []. split; [|reflexivity]. cbn [Ops.validate].
    destruct v as [| t b | t z | t x | t s | t nl l | t nl l | t o | t fs | src | k d]; try reflexivity.
    exfalso. exact (Hno t nl l eq_refl).
  - exists EBound, []. split; [|reflexivity]. cbn [Ops.validate]. rewrite Hs. reflexivity.
  - destruct IH as (c & q & IH & Hq). exists c, (idx_seg (zlen l1) :: q). split; [|apply strip_cons; exact Hq].
    rewrite (validate_list_item_error words pu f e it mn mx t nl l1 x l2 _ Hs Hok IH). reflexivity.
  - exists ERepr, []. split; [|reflexivity]. cbn [Ops.validate].
    destruct v as [| t b | t z | t x | t s | t nl l | t nl l | t o | t fs | src | k d]; try reflexivity.
    exfalso. exact (Hno t nl l eq_refl).
  - exists EBound, []. split; [|reflexivity]. cbn [Ops.validate]. rewrite Hs. reflexivity.
  - destruct IH as (c & q & IH & Hq). exists c, (mkey_seg k :: q). split; [|apply strip_cons; exact Hq].
    rewrite (validate_map_key_error words pu f e ks vs mn mx t nl kvs1 k x kvs2 _ Hs Hok1 IH). reflexivity.
  - destruct IH as (c & q & IH & Hq). exists c, (mval_seg k :: q). split; [|apply strip_cons; exact Hq].
    rewrite (validate_map_value_error words pu f e ks vs mn mx t nl kvs1 k x kvs2 _ Hs Hok1 Hk IH). reflexivity.
  - exists ERepr, []. split; [|reflexivity]. cbn [Ops.validate]. rewrite Hno. reflexivity.
  - exists EKey, []. split; [|reflexivity].
    rewrite (validate_object_extra_key words pu f e id un props r1 name x r2 Hr Hok1 Hp). reflexivity.
  - exists EPresence, [name]. split; [|reflexivity].
    rewrite (validate_object_rule words pu f e id un ps1 name p ps2 r Hok1 Hbad). reflexivity.
  - destruct IH as (c & q & IH & Hq). exists c, (name :: q). split; [|apply strip_cons; exact Hq].
    rewrite (validate_object_prop_error words pu f e id un props r1 name x r2 p _ Hr Hok1 Hp IH). reflexivity.
  - destruct (oneof_sel_err types ik field inlined v er Hsel) as (c & ->). exists c, []. split; [|reflexivity].
    rewrite validate_oneof_eq2, Hsel. reflexivity.
  - destruct (single_fault_path_compat words pu e f member clone p Hc) as (c & Hc'). exists c, p. split; [|reflexivity].
    rewrite validate_oneof_eq2, Hsel. cbn [bind]. rewrite Hc'. reflexivity.
  - destruct IH as (c & q & IH & Hq). exists c, (oneof_seg key :: q). split; [|rewrite strip_marker; exact Hq].
    rewrite validate_oneof_eq2, Hsel. cbn [bind]. rewrite Hc. cbn [rewrap_path map_err bind]. rewrite IH. reflexivity.
  - destruct IH as (c & q & IH & Hq). exists c, q. split; [|exact Hq]. cbn [Ops.validate]. rewrite Hres. exact IH.
  - destruct IH as (c & q & IH & Hq). exists c, q. split; [|exact Hq]. cbn [Ops.validate]. rewrite Hroot. exact IH.
  - destruct (single_fault_path_any f v p Hany) as (c & Hc). exists c, p. split; [|reflexivity].
    rewrite (validate_any_eq words pu), Hc. reflexivity.
Qed.

End WithTables.
