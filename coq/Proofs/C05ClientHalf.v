(* Proofs/C05ClientHalf.v — the CLIENT half of C05's protocol layer as a theorem about the client model alone
   (ATP/Client.v, payload := Z), against an ARBITRARY environment in the peer's place: the environment may, at any
   moment and in any order and multiplicity, append to the server -> client stream any messages that are terminal
   messages `tmsg r t` of calls (r, t) of the session or non-fatal error reports (okev).  Then, for every schedule
   of the client's goroutines and the pipe,
     - every message on the client -> server stream is a work-start with step "s" carrying the run id AND the input of
       one of the session's calls, a signal, or client-done;
     - whatever Execute number i has returned is `spec` of ITS OWN input: results are filed by run id, never by arrival
       order, and no error is made up.
   (Assume/guarantee form of the client half: with Proofs/C05Server.v `srv_emits_ok` as the server's guarantee this is
   the safety half of the composition, Proofs/C05System.v.) *)
From Coq Require Import Lia.
From Verif Require Import Base.Prelude Base.Str ATP.Msg ATP.Client Proofs.ATPClient Proofs.ATPClientInv Proofs.ATPClientFinal
  Proofs.C05Vocab Proofs.C05Client.
Local Open Scope nat_scope.
Local Open Scope string_scope.
Local Open Scope list_scope.

Section Half.
Variable se : session Z.
Variable spec : Z -> result Z.
Variable tmsg : runid -> Z -> msg Z.
Hypothesis se_wf : wf_session se.
Hypothesis se_nowfail : se_wfail se = None.
Hypothesis se_named : forall x, In x (se_calls se) -> cs_run x <> "".
Hypothesis tmsg_spec : forall r t,
  (exists o d, tmsg r t = WorkDone r "s" o d "" /\ spec t = ROk o d) \/
  (tmsg r t = ErrMsg r true false /\ spec t = RErr ErrStep).

Definition hcalls : list (runid * Z) := map (fun x => (cs_run x, cs_input x)) (se_calls se).

Inductive elabel := EStep (l : label) | EArrive (evs : list (event Z)).

Definition estep (s : state Z) (e : elabel) : option (state Z) :=
  match e with
  | EStep l => match l with LPeerSend _ => None | _ => step s l end
  | EArrive evs => Some (push s evs)
  end.

Fixpoint erun (s : state Z) (es : list elabel) : option (state Z) :=
  match es with
  | [] => Some s
  | e :: t => match estep s e with Some s' => erun s' t | None => None end
  end.

Definition arrival_ok (e : elabel) : Prop :=
  match e with EArrive evs => Forall (okev hcalls tmsg) evs | EStep _ => True end.

Let cv2 (c : caller Z) : runid * Z := (c_run c, c_input c).

Record hinv (s : state Z) : Prop := mkH {
  h_E : invE s; h_S : invS hcalls spec tmsg s; h_cv : map cv2 (callers s) = hcalls }.

Lemma hcalls_named : forall r t, In (r, t) hcalls -> r <> "".
Proof. intros r t H. apply in_map_iff in H. destruct H as (x & E & Hx). injection E as <- _. auto. Qed.

Lemma h_step_cv2 : forall (s s' : state Z) l, step s l = Some s' -> map cv2 (callers s') = map cv2 (callers s).
Proof.
  intros s s' l H. destruct (step_cv3 _ _ _ H) as [Ev|(i & c & c' & _ & Hc & Er & Ei & ->)].
  - assert (forall l : list (caller Z), map cv2 l = map (fun p => (fst (fst p), snd (fst p))) (map cv3 l)) as K.
    { intros l0. rewrite map_map. reflexivity. }
    rewrite !K, Ev. reflexivity.
  - eapply map_upd_same; eauto. unfold cv2. now rewrite Er, Ei.
Qed.

Lemma hinv_step : forall s e s', hinv s -> arrival_ok e -> estep s e = Some s' -> hinv s'.
Proof.
  intros s e s' [IE IS Ecv] Ha H. destruct e as [l|evs]; cbn in H.
  - assert (forall r, l <> LPeerSend r) as Hl by (intros r ->; discriminate H).
    assert (step s l = Some s') as Hs by (destruct l; auto; discriminate H).
    constructor.
    + eapply invE_step; eauto.
    + eapply invS_step; eauto. exact hcalls_named.
    + rewrite (h_step_cv2 _ _ _ Hs). exact Ecv.
  - injection H as <-. constructor; cbn; auto.
    + destruct IE as [E1 E2 E3 E4 E5]. constructor; cbn; auto.
    + apply invS_push; auto.
Qed.

Lemma hinv_init : hinv (init se).
Proof.
  destruct se_wf as [N Aft]. constructor.
  - constructor; cbn.
    + rewrite init_runs. exact N.
    + rewrite after_from_ok, init_afters. exact Aft.
    + constructor.
    + intros i c Hc Hp. apply init_nth in Hc. destruct Hc as (x & _ & ->). cbn in Hp. discriminate.
    + intros r Hm. discriminate.
  - apply invS_init; [exact se_nowfail|]. intros c Hin. unfold hcalls. apply in_map_iff. eauto.
  - cbn. unfold hcalls. rewrite map_map. reflexivity.
Qed.

Lemma hinv_run : forall es s s', hinv s -> Forall arrival_ok es -> erun s es = Some s' -> hinv s'.
Proof.
  induction es as [|e t IH]; intros s s' I F H; cbn in H.
  - now injection H as <-.
  - inversion F; subst. destruct (estep s e) as [s1|] eqn:Hs; [|discriminate]. eapply (IH s1); [eapply hinv_step; eauto|assumption|exact H].
Qed.

Theorem client_routes : forall es s, Forall arrival_ok es -> erun (init se) es = Some s ->
  Forall (c05_cwm hcalls) (to_server s) /\
  forall i x c v, nth_error (se_calls se) i = Some x -> nth_error (callers s) i = Some c -> c_pc c = CDone v ->
                  c_run c = cs_run x /\ v = spec (cs_input x).
Proof.
  intros es s F H. pose proof (hinv_run _ _ _ hinv_init F H) as [IE IS Ecv]. split.
  - exact (s_to _ _ _ _ IS).
  - intros i x c v Hx Hc Hp.
    assert (cv2 c = (cs_run x, cs_input x)) as E.
    { pose proof (map_nth_error cv2 _ _ Hc) as E1. rewrite Ecv in E1. unfold hcalls in E1.
      pose proof (map_nth_error (fun y => (cs_run y, cs_input y)) _ _ Hx) as E2. congruence. }
    unfold cv2 in E. injection E as E1 E2. split; auto. rewrite <- E2.
    eapply invS_result; eauto. destruct se_wf as [N _]. unfold hcalls. rewrite map_map. exact N.
Qed.

End Half.
